(* ScanGeProofs.v - getGEPath.  (1) The loop with its accumulators (path, rID,
   rightPathLen) computes the recursive function [ge_rec]; (2) on a trie built
   with inner and leaf prefixes [ge_rec] returns the path to the first listed
   item that is not below the query (and tells whether it equals the query), or
   nothing when every item is below the query. *)
From Slim Require Import Base Keys KeysProofs ListFacts Model TrieInv BuildProofs QueryProofs ConsistProofs OrderProofs
     Scan ScanBasicProofs ScanIdProofs ScanIterProofs ScanPathProofs ScanItemsProofs.
From Coq Require Import Sorting.Sorted ZifyNat ZifyBool.

Arguments Nat.div : simpl never.
Arguments Nat.modulo : simpl never.

(* ---------- the recursive form ---------- *)
Inductive gres := GFound (p : list tree) (eq : bool) | GNone.

Definition leaf_cmp (q : key) (c : tree) (i : nat) (visited : bool) : comparison :=
  bytes_cmp (skipn (i / 2) q) (match sess_tail c visited with Some t => t | None => [] end).

Definition leaf_res (q : key) (c : tree) (i : nat) (visited : bool) : gres :=
  match leaf_cmp q c i visited with
  | Gt => GNone
  | Eq => GFound [c] true
  | Lt => GFound [c] false
  end.

Definition ge_go (t : tree) (lb : nat) (k : tree -> gres) : list (nat * tree) -> gres :=
  fix go (ch : list (nat * tree)) : gres :=
    match ch with
    | [] => GNone
    | (x, c) :: rest =>
        if x <? lb then go rest
        else if Nat.eqb x lb then
          match k c with
          | GFound p eq => GFound (t :: p) eq
          | GNone => match rest with (_, c') :: _ => GFound (t :: leftmost_path c') false | [] => GNone end
          end
        else GFound (t :: leftmost_path c) false
    end.

Fixpoint ge_rec (q : key) (qn : list nat) (l : nat) (t : tree) (i : nat) {struct t} : gres :=
  match t with
  | Leaf _ _ _ _ => leaf_res q t i true
  | Inner _ big _ pfx _ ch =>
      match ge_advance qn i pfx with
      | PLt => GFound (leftmost_path t) false
      | PGt => GNone
      | PEq i1 =>
          let lb := label_at big qn i1 in
          (fix go (ch : list (nat * tree)) : gres :=
             match ch with
             | [] => GNone
             | (x, c) :: rest =>
                 if x <? lb then go rest
                 else if Nat.eqb x lb then
                   match (if Nat.eqb i1 l then leaf_res q c i1 false else ge_rec q qn l c (i1 + wsize big)) with
                   | GFound p eq => GFound (t :: p) eq
                   | GNone => match rest with (_, c') :: _ => GFound (t :: leftmost_path c') false | [] => GNone end
                   end
                 else GFound (t :: leftmost_path c) false
             end) ch
      end
  end.

Lemma ge_rec_inner q qn l id big step pfx fc ch i :
  ge_rec q qn l (Inner id big step pfx fc ch) i =
  match ge_advance qn i pfx with
  | PLt => GFound (leftmost_path (Inner id big step pfx fc ch)) false
  | PGt => GNone
  | PEq i1 =>
      ge_go (Inner id big step pfx fc ch) (label_at big qn i1)
            (fun c => if Nat.eqb i1 l then leaf_res q c i1 false else ge_rec q qn l c (i1 + wsize big)) ch
  end.
Proof. reflexivity. Qed.

(* ---------- (1) the loop computes it ---------- *)
Definition fb (rc : option (tree * nat)) (path : list tree) : list tree * bool :=
  match rc with
  | None => ([], false)
  | Some (rid, rpl) => (firstn rpl path ++ leftmost_path rid, false)
  end.

Definition rc_ok (rc : option (tree * nat)) (path : list tree) : Prop :=
  match rc with Some (_, rpl) => rpl <= length path | None => True end.

Definition of_gres (g : gres) (rc : option (tree * nat)) (path : list tree) : list tree * bool :=
  match g with GFound p eq => (path ++ p, eq) | GNone => fb rc path end.

Lemma fb_snoc rc path t : rc_ok rc path -> fb rc (path ++ [t]) = fb rc path.
Proof.
  unfold fb, rc_ok. destruct rc as [[rid rpl]|]; [|reflexivity]. intros H. rewrite firstn_app_le by exact H. reflexivity.
Qed.

Lemma finish_leaf q path c i v rc :
  ge_finish true q (path, Some (c, i, v), rc) = of_gres (leaf_res q c i v) rc path.
Proof.
  unfold ge_finish, leaf_res, of_gres, fb. fold (leaf_cmp q c i v). destruct (leaf_cmp q c i v); reflexivity.
Qed.

Lemma ge_down_inner qn l id big step pfx fc ch i path rc :
  ge_down qn l (Inner id big step pfx fc ch) i path rc =
  match ge_advance qn i pfx with
  | PLt => (path, None, Some (Inner id big step pfx fc ch, length path))
  | PGt => (path, None, rc)
  | PEq i1 =>
      let path1 := path ++ [Inner id big step pfx fc ch] in
      let lb := label_at big qn i1 in
      (fix go (ch : list (nat * tree)) : gstate :=
         match ch with
         | [] => (path1, None, rc)
         | (x, c) :: rest =>
             if x <? lb then go rest
             else if Nat.eqb x lb then
               let rc' := match rest with (_, c') :: _ => Some (c', length path1) | [] => rc end in
               if Nat.eqb i1 l then (path1, Some (c, i1, false), rc')
               else ge_down qn l c (i1 + wsize big) path1 rc'
             else (path1, None, Some (c, length path1))
         end) ch
  end.
Proof. reflexivity. Qed.

Lemma ge_down_rec q qn l : forall t i path rc, rc_ok rc path ->
  ge_finish true q (ge_down qn l t i path rc) = of_gres (ge_rec q qn l t i) rc path.
Proof.
  induction t as [id ord tail eidx|id big step pfx fc ch IH] using tree_ind'; intros i path rc Hrc.
  - cbn [ge_down ge_rec]. apply finish_leaf.
  - rewrite ge_down_inner, ge_rec_inner. set (t := Inner id big step pfx fc ch). clearbody t.
    destruct (ge_advance qn i pfx) as [i1| |].
    + cbv zeta. set (path1 := path ++ [t]). set (lb := label_at big qn i1).
      assert (rc_ok rc path1) as Hrc1.
      { unfold rc_ok in *. destruct rc as [[rid rpl]|]; [|exact I]. unfold path1. rewrite app_length. lia. }
      induction ch as [|[x c] rest IHc]; [cbn [ge_go]; unfold of_gres; rewrite <- (fb_snoc rc path t Hrc); reflexivity|].
      inversion IH as [|? ? IHt IHrest]; subst. cbn [snd] in IHt.
      cbn [ge_go]. destruct (x <? lb); [apply IHc; exact IHrest|].
      destruct (Nat.eqb x lb).
      * set (rc' := match rest with (_, c') :: _ => Some (c', length path1) | [] => rc end).
        assert (rc_ok rc' path1) as Hrc'.
        { unfold rc'. destruct rest as [|[y c'] rest']; [exact Hrc1|]. cbn. lia. }
        assert (forall g, of_gres g rc' path1 =
                          of_gres (match g with
                                   | GFound p eq => GFound (t :: p) eq
                                   | GNone => match rest with (_, c') :: _ => GFound (t :: leftmost_path c') false | [] => GNone end
                                   end) rc path) as Hg.
        { intros [p eq|]; unfold of_gres.
          - unfold path1. rewrite <- app_assoc. reflexivity.
          - unfold rc'. destruct rest as [|[y c'] rest'].
            + unfold path1. apply fb_snoc. exact Hrc.
            + unfold fb. rewrite firstn_all. unfold path1. rewrite <- app_assoc. reflexivity. }
        destruct (Nat.eqb i1 l).
        -- rewrite finish_leaf. apply Hg.
        -- rewrite (IHt _ path1 rc' Hrc'). apply Hg.
      * unfold ge_finish, of_gres, fb. rewrite firstn_all. unfold path1. rewrite <- app_assoc. reflexivity.
    + unfold ge_finish, of_gres, fb. rewrite firstn_all. reflexivity.
    + reflexivity.
Qed.

Lemma skipn_app_cons {A} (a : list A) x b : skipn (S (length a)) (a ++ x :: b) = b.
Proof. induction a as [|y a IH]; [reflexivity|]. cbn [length app]. exact IH. Qed.

Lemma items_leaf_single c buf from : is_leaf c = true -> exists x, items c buf from = [x].
Proof. destruct c; [|discriminate]. intros _. cbn [items]. eauto. Qed.

Lemma psplit_leaf c buf from : is_leaf c = true -> psplit c buf from [c] [] (items c buf from).
Proof. destruct c; [|discriminate]. intros _. apply ps_leaf. Qed.

(* ---------- (2) correctness on complete tries ---------- *)
Section GeSpec.
  Variable o : opts.
  Hypothesis Hinner : o_inner o = true.
  Hypothesis Hleaf : o_leaf o = true.
  Variable q : key.
  Let qn := nibs q.
  Let l := length qn.

  Definition ilt (x : item) : Prop := lex_cmp (fst x) qn = Lt.

  (* the first item from the path's leaf on is not below the query; [eq] tells whether it is the query *)
  Definition head_ok (A : list item) (eq : bool) : Prop :=
    exists x R, A = x :: R /\ lex_cmp (fst x) qn <> Lt /\ (eq = true <-> fst x = qn).

  Definition ge_ok (t : tree) (buf : list nat) (from : nat) (g : gres) : Prop :=
    match g with
    | GNone => Forall ilt (items t buf from)
    | GFound p eq => exists B A, psplit t buf from p B A /\ Forall ilt B /\ head_ok A eq
    end.

  Lemma q16 : Forall (fun x => x < 16) qn.
  Proof. apply nibs_lt. Qed.

  Lemma qeven : Nat.even l = true.
  Proof. unfold l, qn. rewrite nibs_length. apply Nat.even_spec. exists (length q). lia. Qed.

  Lemma items_lt K I : Forall2 item_of K I -> Forall (lt_q qn) K -> Forall ilt I.
  Proof.
    induction 1 as [|e x K I [Hx _] _ IH]; intros HF; [constructor|].
    inversion HF; subst. constructor; [unfold ilt; rewrite Hx; assumption|auto].
  Qed.

  Lemma items_gt_head K I : Forall2 item_of K I -> Forall (gt_q qn) K -> I <> [] -> forall R, head_ok (I ++ R) false.
  Proof.
    intros H2 HF Hne R. destruct H2 as [|e x K I [Hx _] _]; [congruence|].
    inversion HF as [|? ? Hg _]; subst. unfold gt_q in Hg.
    exists x, (I ++ R). split; [reflexivity|]. rewrite Hx.
    split; [rewrite lex_cmp_antisym, Hg; discriminate|].
    split; [discriminate|]. intros E. rewrite E, lex_cmp_refl in Hg. discriminate.
  Qed.

  (* the comparison with the leaf of entry e *)
  Lemma leaf_cmp_spec e id ord from :
    ent_ok e -> firstn from (e_nibs e) = firstn from qn ->
    leaf_cmp q (Leaf id ord (leaf_tail o e from) (e_idx e)) from true = lex_cmp qn (e_nibs e).
  Proof.
    intros Hok Hag. unfold leaf_cmp. cbn [sess_tail].
    assert (forall tl, tl = leaf_tail o e from ->
                       bytes_cmp (skipn (from / 2) q) (match tl with Some t => t | None => [] end) =
                       bytes_cmp (skipn (from / 2) q) (skipn (from / 2) (e_key e))) as Etl.
    { intros tl ->. unfold leaf_tail. rewrite Hleaf. destruct (skipn (from / 2) (e_key e)); reflexivity. }
    rewrite (Etl _ eq_refl).
    rewrite bytes_cmp_nibs, <- !skipn_nibs, <- even_down_half. fold qn. rewrite <- Hok.
    symmetry. apply lex_cmp_skipn. symmetry. eapply firstn_le_agree; [apply even_down_le|exact Hag].
  Qed.

  Lemma ge_advance_cases isbig s big step pfx labels kids b' :
    SubInv s -> process_subset o isbig s = Ok (DInner big step pfx labels kids, b') ->
    agree s (s_from s) qn ->
    (ge_advance qn (s_from s) pfx = PEq (sub_w big s) /\ agree s (sub_w big s) qn) \/
    (ge_advance qn (s_from s) pfx = PLt /\ forall a, In a (s_ents s) -> lex_cmp qn (e_nibs a) = Lt) \/
    (ge_advance qn (s_from s) pfx = PGt /\ forall a, In a (s_ents s) -> lex_cmp (e_nibs a) qn = Lt).
  Proof.
    intros I Hp Hag.
    pose proof (advance3_cases o isbig s big step pfx labels kids b' qn I Hp Hag (or_intror Hinner)) as H3.
    pose proof (process_inner_inv _ _ _ _ _ _ _ _ _ Hp) as Hinv. cbv zeta in Hinv.
    destruct Hinv as (_ & _ & _ & _ & Hstep & _). rewrite Hinner in Hstep. subst step.
    assert (ge_advance qn (s_from s) pfx =
            match advance3 qn (length qn) (s_from s) 0 pfx with AEq i1 => PEq i1 | ALt => PLt | AGt => PGt end) as E.
    { unfold ge_advance, advance3. destruct pfx as [p|].
      - destruct (cmp_upto (skipn (even_down (s_from s)) qn) p); reflexivity.
      - cbv zeta. rewrite Nat.add_0_r. destruct Hag as [Hl _]. destruct (Nat.ltb_spec (length qn) (s_from s)); [lia|reflexivity]. }
    rewrite E. destruct H3 as [[-> H]|[[-> H]|[-> H]]]; auto.
  Qed.

  Lemma ge_rec_spec : forall t s,
    trie_of o t s -> SubInv s -> agree s (s_from s) qn ->
    forall buf, agree s (s_from s) buf -> ge_ok t buf (s_from s) (ge_rec q qn l t (s_from s)).
  Proof.
    induction t as [id ord tail eidx|id big step pfx fc ch IH] using tree_ind'; intros s Ht I Hag buf Hbuf.
    - (* a leaf: one entry *)
      pose proof (items_spec o Hinner Hleaf _ s Ht I buf Hbuf) as Hit.
      cbn [trie_of] in Ht. destruct Ht as (e & Hs & -> & ->).
      assert (In e (s_ents s)) as He by (rewrite Hs; left; reflexivity).
      pose proof (si_ok s I) as Hok. rewrite Forall_forall in Hok.
      rewrite (kept_singleton s e I Hs) in Hit.
      set (lf := Leaf id ord (leaf_tail o e (s_from s)) (e_idx e)) in *.
      assert (items lf buf (s_from s) =
              [(firstn (even_down (s_from s)) buf ++ tail_nibs (leaf_tail o e (s_from s)), lf)]) as Ei by reflexivity.
      set (x := (firstn (even_down (s_from s)) buf ++ tail_nibs (leaf_tail o e (s_from s)), lf)) in Ei.
      assert (fst x = e_nibs e) as Hx.
      { rewrite Ei in Hit. inversion Hit as [|? ? ? ? [H _] _]; subst. exact H. }
      assert (ge_rec q qn l lf (s_from s) = leaf_res q lf (s_from s) true) as -> by reflexivity.
      unfold leaf_res.
      pose proof (leaf_cmp_spec e id ord (s_from s) (Hok e He) (proj2 Hag e He)) as Hlc. fold lf in Hlc. rewrite Hlc.
      pose proof (ps_leaf id ord (leaf_tail o e (s_from s)) (e_idx e) buf (s_from s)) as Hps. fold lf in Hps. rewrite Ei in Hps.
      destruct (lex_cmp qn (e_nibs e)) eqn:Ec; unfold ge_ok.
      + apply lex_cmp_eq in Ec. exists [], [x]. split; [exact Hps|]. split; [constructor|].
        exists x, []. split; [reflexivity|]. rewrite Hx, <- Ec, lex_cmp_refl. split; [discriminate|tauto].
      + exists [], [x]. split; [exact Hps|]. split; [constructor|].
        exists x, []. split; [reflexivity|]. rewrite Hx. split; [rewrite lex_cmp_antisym, Ec; discriminate|].
        split; [discriminate|]. intros E. rewrite E, lex_cmp_refl in Ec. discriminate.
      + rewrite Ei. constructor; [|constructor]. unfold ilt. rewrite Hx, lex_cmp_antisym, Ec. reflexivity.
    - (* an inner node *)
      pose proof Ht as Ht0. cbn [trie_of] in Ht. destruct Ht as (ib & labels & kids & b' & Hp & Hfst & Hkm).
      pose proof (inner_facts _ _ _ _ _ _ _ _ _ I Hp) as F.
      pose proof (children_ok o s big labels kids ch I F Hfst Hkm) as Hch.
      pose proof (scan_wf_of_trie o Hinner _ s Ht0 I) as Hwf.
      pose proof (items_spec o Hinner Hleaf _ s Ht0 I buf Hbuf) as Hit.
      rewrite ge_rec_inner.
      set (t := Inner id big step pfx fc ch) in *.
      destruct (ge_advance_cases ib s big step pfx labels kids b' I Hp Hag) as [[Ea Hagw]|[[Ea Hall]|[Ea Hall]]]; rewrite Ea.
      2:{ (* the query is below every entry *)
        unfold ge_ok. exists [], (items t buf (s_from s)). split; [apply psplit_leftmost; exact Hwf|]. split; [constructor|].
        rewrite <- (app_nil_r (items t buf (s_from s))). eapply items_gt_head; [exact Hit| |apply items_nonempty; exact Hwf].
        rewrite Forall_forall. intros a Ha. apply filter_In in Ha. apply Hall. tauto. }
      2:{ unfold ge_ok. eapply items_lt; [exact Hit|]. rewrite Forall_forall. intros a Ha. apply filter_In in Ha. apply Hall. tauto. }
      (* descend into the children *)
      destruct (inner_pfx_facts o ib s big step pfx labels kids b' buf Hinner I Hp Hbuf) as [Hpe Hb1].
      set (w := sub_w big s) in *. set (lbq := label_at big qn w).
      set (b1 := b1_of pfx (s_from s) buf) in *.
      set (k := fun c => if Nat.eqb w l then leaf_res q c w false else ge_rec q qn l c (w + wsize big)).
      pose proof (if_two _ _ _ _ _ F) as Htwo.
      (* per-child facts *)
      assert (Forall (fun p => Forall2 item_of (kept (mk_kid s big (fst p)))
                                       (items (snd p) (b1 ++ label_nibs big (fst p)) (w + label_width big (fst p))) /\
                               scan_wf (snd p) (w + label_width big (fst p))) ch) as Hkid.
      { rewrite Forall_forall in Hch |- *. intros [x c] Hin. pose proof (Hch _ Hin) as Hc. cbn [fst snd] in Hc |- *.
        split.
        - apply (items_spec o Hinner Hleaf c _ (co_trie _ _ _ _ _ Hc) (co_inv _ _ _ _ _ Hc)).
          apply agree_child_buf; [exact I|exact Htwo|exact Hb1].
        - apply (scan_wf_of_trie o Hinner c _ (co_trie _ _ _ _ _ Hc) (co_inv _ _ _ _ _ Hc)). }
      (* the child carrying the query's label *)
      assert (forall c, In (lbq, c) ch -> ge_ok c (b1 ++ label_nibs big lbq) (w + label_width big lbq) (k c)) as Hk.
      { intros c Hin. rewrite Forall_forall in Hch, Hkid, IH.
        pose proof (Hch _ Hin) as Hc. destruct (Hkid _ Hin) as [Hitc Hwfc]. cbn [fst snd] in Hc, Hitc, Hwfc.
        pose proof (co_inv _ _ _ _ _ Hc) as Ik. pose proof (co_trie _ _ _ _ _ Hc) as Htc. cbn [fst snd] in Ik, Htc.
        destruct Hagw as [Hwl Hagw']. unfold k.
        destruct (Nat.eqb_spec w l) as [Heq|Hne].
        - (* the query ends here: the end-of-key child, a single entry equal to the query *)
          assert (lbq = 0) as Hz by (apply (label_zero_iff big qn w Hwl); exact Heq).
          assert (exists n, nth_error labels n = Some 0) as (n & Hn).
          { apply In_nth_error. rewrite <- Hz. exact (co_in _ _ _ _ _ Hc). }
          destruct (label0_singleton o s big labels kids (mk_kid s big 0) n I F Hn) as (x0 & Hx0).
          { rewrite (if_kids_mk _ _ _ _ _ F), nth_error_map, Hn. reflexivity. }
          rewrite Hz in *.
          assert (is_leaf c = true) as Hlf by (destruct (singleton_leaf o c _ x0 Htc Hx0) as (id' & ord' & ->); reflexivity).
          rewrite (kept_singleton _ x0 Ik Hx0) in Hitc.
          destruct (items_leaf_single c (b1 ++ label_nibs big 0) (w + label_width big 0) Hlf) as (x & Ei).
          assert (fst x = e_nibs x0) as Hx.
          { rewrite Ei in Hitc. inversion Hitc as [|? ? ? ? [H _] _]; subst. exact H. }
          assert (In x0 (s_ents s) /\ ent_label big w x0 = 0) as [Hx0s Hx0l].
          { assert (In x0 (s_ents (mk_kid s big 0))) as H by (rewrite Hx0; left; reflexivity).
            unfold mk_kid in H. cbn [s_ents] in H. apply filter_In in H. destruct H as [H1 H2]. apply Nat.eqb_eq in H2. auto. }
          assert (w = length (e_nibs x0)) as Hlen.
          { apply (label_zero_iff big (e_nibs x0) w); [apply sub_w_len; assumption|exact Hx0l]. }
          assert (e_nibs x0 = qn) as Eq0.
          { rewrite <- (firstn_all (e_nibs x0)), <- (firstn_all qn), <- Hlen. fold l. rewrite <- Heq. apply Hagw'. exact Hx0s. }
          unfold leaf_res, leaf_cmp. cbn [sess_tail].
          assert (skipn (w / 2) q = []) as ->.
          { apply skipn_all2. rewrite Heq. unfold l, qn. rewrite nibs_length. lia. }
          cbn [bytes_cmp map lex_cmp]. unfold ge_ok.
          exists [], [x]. split; [rewrite <- Ei; apply psplit_leaf; exact Hlf|]. split; [constructor|].
          exists x, []. split; [reflexivity|]. rewrite Hx, Eq0, lex_cmp_refl. split; [discriminate|tauto].
        - assert (lbq <> 0) as Hnz by (intros Hz; apply Hne; apply (label_zero_iff big qn w Hwl); exact Hz).
          assert (label_width big lbq = wsize big) as Hwd by (destruct lbq; [congruence|reflexivity]).
          assert (s_from (mk_kid s big lbq) = w + wsize big) as Hfk by (cbn [mk_kid s_from]; fold w; rewrite Hwd; reflexivity).
          rewrite Hwd. rewrite <- Hfk.
          apply (IH _ Hin _ Htc Ik).
          + rewrite Hfk. apply (agree_kid qn q16 qeven); [exact I|exact Htwo|split; assumption|reflexivity|exact Hnz].
          + rewrite Hfk, <- Hwd. apply agree_child_buf; [exact I|exact Htwo|exact Hb1]. }
      (* walk over the children *)
      pose proof (if_asc _ _ _ _ _ F) as Hasc. rewrite <- Hfst in Hasc.
      assert (forall pre rest, ch = pre ++ rest ->
                Forall ilt (kids_items big b1 w pre) ->
                match ge_go t lbq k rest with
                | GNone => Forall ilt (kids_items big b1 w (pre ++ rest))
                | GFound p eq => exists B A, psplit t buf (s_from s) p B A /\ Forall ilt B /\ head_ok A eq
                end) as Hgo.
      { intros pre rest; revert pre. induction rest as [|[x c] rest IHr]; intros pre Ech Hpre.
        - cbn [ge_go]. rewrite app_nil_r. exact Hpre.
        - assert (In (x, c) ch) as Hin by (rewrite Ech; apply in_or_app; right; left; reflexivity).
          assert (nth_error ch (length pre) = Some (x, c)) as Hnth.
          { rewrite Ech, nth_error_app2 by lia. rewrite Nat.sub_diag. reflexivity. }
          assert (firstn (length pre) ch = pre) as Hfirst.
          { rewrite Ech, firstn_app, Nat.sub_diag, firstn_all. cbn. apply app_nil_r. }
          assert (skipn (S (length pre)) ch = rest) as Hskip.
          { rewrite Ech. apply skipn_app_cons. }
          pose proof (proj1 (Forall_forall _ _) Hch _ Hin) as Hc. pose proof (proj1 (Forall_forall _ _) Hkid _ Hin) as [Hitc Hwfc].
          cbn [fst snd] in Hc, Hitc, Hwfc.
          pose proof (co_inv _ _ _ _ _ Hc) as Ik. cbn [fst] in Ik.
          (* labels right of x are greater *)
          assert (forall y c', In (y, c') rest -> x < y) as Hright.
          { rewrite Ech, map_app in Hasc. apply SS_app_inv in Hasc. destruct Hasc as (_ & Hs2 & _).
            cbn [map fst] in Hs2. inversion Hs2 as [|? ? _ Hf]; subst. rewrite Forall_forall in Hf.
            intros y c' Hy. apply Hf. apply (in_map fst) in Hy. exact Hy. }
          pose proof (ps_inner id big step pfx fc ch buf (s_from s) (length pre) x c) as Hps.
          fold b1 t in Hps. rewrite Hpe in Hps. fold w in Hps. rewrite Hfirst, Hskip in Hps.
          cbn [ge_go]. destruct (Nat.ltb_spec x lbq) as [Hlt|Hge].
          + (* left of the query *)
            specialize (IHr (pre ++ [(x, c)])). rewrite <- app_assoc in IHr. cbn [app] in IHr. apply IHr; [exact Ech|].
            rewrite kids_items_app. apply Forall_app. split; [exact Hpre|].
            unfold kids_items. cbn [flat_map fst snd]. rewrite app_nil_r.
            eapply items_lt; [exact Hitc|]. apply (kid_entries_lt qn q16 qeven); assumption.
          + destruct (Nat.eqb_spec x lbq) as [Heq|Hne].
            * subst x. specialize (Hk c Hin). destruct (k c) as [p eq|].
              -- destruct Hk as (B' & A' & Hp' & HB' & HA').
                 exists (kids_items big b1 w pre ++ B'), (A' ++ kids_items big b1 w rest).
                 split; [apply Hps; [exact Hnth|exact Hp']|]. split; [apply Forall_app; split; assumption|].
                 destruct HA' as (y & R & -> & Hy). exists y, (R ++ kids_items big b1 w rest). split; [reflexivity|exact Hy].
              -- unfold ge_ok in Hk.
                 assert (Forall ilt (kids_items big b1 w (pre ++ [(lbq, c)]))) as Hpre'.
                 { rewrite kids_items_app. apply Forall_app. split; [exact Hpre|].
                   unfold kids_items. cbn [flat_map fst snd]. rewrite app_nil_r. exact Hk. }
                 destruct rest as [|[y c'] rest'].
                 ++ exact Hpre'.
                 ++ assert (In (y, c') ch) as Hin' by (rewrite Ech; apply in_or_app; right; right; left; reflexivity).
                    pose proof (proj1 (Forall_forall _ _) Hkid _ Hin') as [Hitc' Hwfc']. cbn [fst snd] in Hitc', Hwfc'.
                    assert (nth_error ch (S (length pre)) = Some (y, c')) as Hnth'.
                    { rewrite Ech, nth_error_app2 by lia. replace (S (length pre) - length pre) with 1 by lia. reflexivity. }
                    assert (firstn (S (length pre)) ch = pre ++ [(lbq, c)]) as Hfirst'.
                    { rewrite Ech. replace (S (length pre)) with (length pre + 1) by lia.
                      rewrite firstn_app_2. reflexivity. }
                    assert (skipn (S (S (length pre))) ch = rest') as Hskip'.
                    { rewrite Ech. change ((lbq, c) :: (y, c') :: rest') with ([(lbq, c)] ++ (y, c') :: rest').
                      rewrite app_assoc. replace (S (S (length pre))) with (S (length (pre ++ [(lbq, c)]))) by (rewrite app_length; cbn; lia).
                      apply skipn_app_cons. }
                    eexists _, _. split; [unfold t; eapply ps_inner; [exact Hnth'|apply psplit_leftmost; rewrite Hpe; exact Hwfc']|].
                    fold b1. rewrite Hpe, Hfirst', Hskip', app_nil_r. fold w. split; [exact Hpre'|].
                    eapply items_gt_head; [exact Hitc'| |apply items_nonempty; exact Hwfc'].
                    apply (kid_entries_gt qn q16 qeven); [exact I|exact Hagw|]. fold w lbq. apply (Hright y c'). left; reflexivity.
            * (* right of the query: the first item of this child is the answer *)
              eexists _, _. split; [apply Hps; [exact Hnth|apply psplit_leftmost; exact Hwfc]|].
              split; [rewrite app_nil_r; exact Hpre|].
              eapply items_gt_head; [exact Hitc| |apply items_nonempty; exact Hwfc].
              apply (kid_entries_gt qn q16 qeven); [exact I|exact Hagw|]. fold w lbq. lia. }
      specialize (Hgo [] ch eq_refl (Forall_nil _)). cbn [app] in Hgo.
      unfold ge_ok. destruct (ge_go t lbq k ch); [exact Hgo|].
      unfold t. rewrite items_inner. fold b1. rewrite Hpe. exact Hgo.
  Qed.
End GeSpec.
