(* Stat.v - model of SlimTrie.Stat and of the level table built by
   trie/slimtrie_level.go:initLevels, on the tree model of Model.v.

   initLevels walks "first node id of the next level" with rank queries; the
   entry it appends for level k is (currId, rank1(NodeTypeBM, currId), difference),
   i.e. the number of nodes / inner nodes / leaves of depth < k, and after the
   bottom level it appends the totals.  Node ids are breadth-first, so these
   are the cumulative per-depth counts of the tree; [levels] computes exactly
   those, structurally ([levels_walk] below follows the id walk of the code and
   is proved equal to [levels] on built tries in StatProofs.v).
   Counts are [nat]; Go uses int32 (a trie has < 2^31 nodes, see MaxNodeCnt).
   No proofs in this file. *)
From Slim Require Import Base Keys Model.

Definition is_inner (t : tree) : bool :=
  match t with Leaf _ _ _ _ => false | Inner _ _ _ _ _ _ => true end.

Definition kids (t : tree) : list tree :=
  match t with Leaf _ _ _ _ => [] | Inner _ _ _ _ _ ch => map snd ch end.

(* per-depth (inner, leaf) counts, added pointwise; the longer list wins *)
Fixpoint zip_add (a b : list (nat * nat)) : list (nat * nat) :=
  match a, b with
  | [], _ => b
  | _, [] => a
  | (i1, l1) :: a', (i2, l2) :: b' => (i1 + i2, l1 + l2) :: zip_add a' b'
  end.

(* [profile t]: entry d = (inner nodes, leaves) of depth d below (and including) t *)
Fixpoint profile (t : tree) : list (nat * nat) :=
  match t with
  | Leaf _ _ _ _ => [(0, 1)]
  | Inner _ _ _ _ _ ch =>
      (1, 0) :: (fix go (ch : list (nat * tree)) : list (nat * nat) :=
                   match ch with [] => [] | (_, c) :: r => zip_add (profile c) (go r) end) ch
  end.

(* running sums: (total, inner, leaf) up to and including each depth *)
Fixpoint cumul (ai al : nat) (p : list (nat * nat)) : list (nat * nat * nat) :=
  match p with
  | [] => []
  | (i, l) :: r => let ai' := ai + i in let al' := al + l in
                   (ai' + al', ai', al') :: cumul ai' al' r
  end.

(* st.levels after initLevels: the 0-th entry is always {0,0,0}; an empty trie
   (NodeTypeBM == nil) has only that entry *)
Definition levels (T : trie) : list (nat * nat * nat) :=
  (0, 0, 0) :: match t_root T with None => [] | Some r => cumul 0 0 (profile r) end.

Record stat_record := {
  st_keycnt : nat;
  st_nodecnt : nat;
  st_levelcnt : nat;
  st_levels : list (nat * nat * nat)
}.

Definition lv_total (e : nat * nat * nat) : nat := fst (fst e).
Definition lv_inner (e : nat * nat * nat) : nat := snd (fst e).
Definition lv_leaf (e : nat * nat * nat) : nat := snd e.

(* SlimTrie.Stat: st.levels[level_cnt-1] is an index expression; an empty
   table would panic (EPanic 20) *)
Definition stat (T : trie) : res stat_record :=
  let ls := levels T in
  match last_opt ls with
  | None => Err (EPanic 20)
  | Some e =>
      Ok {| st_keycnt := match t_root T with None => 0 | Some _ => lv_leaf e end;
            st_nodecnt := lv_total e;
            st_levelcnt := length ls;
            st_levels := ls |}
  end.

(* ---- the walk of initLevels on node ids ----
   [nodes]: every node of the trie (any order).  rank1(NodeTypeBM, id) is the
   number of inner nodes with a smaller id; "the nextInnerIdx-th inner node" is
   the inner node with the smallest id >= currId; its first child id [fc] is
   the first id of the next level. *)
Fixpoint all_nodes (t : tree) : list tree :=
  t :: match t with
       | Leaf _ _ _ _ => []
       | Inner _ _ _ _ _ ch =>
           (fix go (ch : list (nat * tree)) : list tree :=
              match ch with [] => [] | (_, c) :: r => all_nodes c ++ go r end) ch
       end.

Definition rank_inner (nodes : list tree) (id : nat) : nat :=
  length (filter (fun t => is_inner t && (tree_id t <? id)) nodes).

Definition first_child (t : tree) : nat :=
  match t with Leaf _ _ _ _ => 0 | Inner _ _ _ _ fc _ => fc end.

(* the inner node with the smallest id >= cur: (id, first child) *)
Fixpoint next_inner (nodes : list tree) (cur : nat) (best : option (nat * nat)) : option (nat * nat) :=
  match nodes with
  | [] => best
  | t :: r =>
      let best' :=
        if is_inner t && (cur <=? tree_id t) then
          match best with
          | Some (bid, _) => if tree_id t <? bid then Some (tree_id t, first_child t) else best
          | None => Some (tree_id t, first_child t)
          end
        else best in
      next_inner r cur best'
  end.

Fixpoint walk_levels (fuel : nat) (nodes : list tree) (total_inner cur : nat) : res (list (nat * nat * nat)) :=
  let ni := rank_inner nodes cur in
  let e := (cur, ni, cur - ni) in
  if Nat.eqb ni total_inner then Ok [e]
  else match fuel with
       | 0 => Err EFuel
       | S f =>
           match next_inner nodes cur None with
           | None => Err (EPanic 21)          (* getIthInnerFrom past the last inner node *)
           | Some (_, fc) => do rest <- walk_levels f nodes total_inner fc; Ok (e :: rest)
           end
       end.

Definition levels_walk (T : trie) : res (list (nat * nat * nat)) :=
  match t_root T with
  | None => Ok [(0, 0, 0)]
  | Some r =>
      let nodes := all_nodes r in
      let ti := length (filter is_inner nodes) in
      let total := length nodes in
      do ls <- walk_levels total nodes ti 0;
      Ok (ls ++ [(total, ti, total - ti)])
  end.
