(* SizeProofs.v - proofs about the size model (Size.v), part 1: node counts.
   For every trie built without values (all keys retained) the number of leaves
   is the number of keys, every inner node has at least two labels and every
   big inner node more than [big_threshold] labels, hence
       inner + 9 * big + 1 <= keys      and      nodes = inner + keys. *)
From Slim Require Import Base Keys KeysProofs ListFacts Model TrieInv BuildProofs Varint Proto Size.
From Coq Require Import Sorting.Sorted ZifyNat ZifyBool.
Local Open Scope nat_scope.

Arguments Nat.div : simpl never.
Arguments Nat.modulo : simpl never.

(* ---------- sums over lists ---------- *)
Definition lsum {A} (f : A -> nat) (l : list A) : nat := sum_list (map f l).

Lemma lsum_nil {A} (f : A -> nat) : lsum f [] = 0.
Proof. reflexivity. Qed.

Lemma lsum_cons {A} (f : A -> nat) x l : lsum f (x :: l) = f x + lsum f l.
Proof. reflexivity. Qed.

Lemma lsum_app {A} (f : A -> nat) a b : lsum f (a ++ b) = lsum f a + lsum f b.
Proof. induction a as [|x a IH]; [reflexivity|]. cbn [app]. rewrite !lsum_cons, IH. lia. Qed.

Lemma lsum_flat_map {A B} (f : B -> nat) (g : A -> list B) l :
  lsum f (flat_map g l) = lsum (fun x => lsum f (g x)) l.
Proof. induction l as [|x l IH]; [reflexivity|]. cbn [flat_map]. rewrite lsum_app, lsum_cons, IH. reflexivity. Qed.

Lemma lsum_map {A B} (f : B -> nat) (g : A -> B) l : lsum f (map g l) = lsum (fun x => f (g x)) l.
Proof. unfold lsum. rewrite map_map. reflexivity. Qed.

Lemma lsum_ext {A} (f g : A -> nat) l : (forall x, In x l -> f x = g x) -> lsum f l = lsum g l.
Proof.
  induction l as [|x l IH]; intros H; [reflexivity|]. rewrite !lsum_cons.
  rewrite (H x (or_introl eq_refl)), IH; [reflexivity|]. intros y Hy. apply H. right. exact Hy.
Qed.

Lemma lsum_add {A} (f g : A -> nat) l : lsum (fun x => f x + g x) l = lsum f l + lsum g l.
Proof. induction l as [|x l IH]; [reflexivity|]. rewrite !lsum_cons, IH. lia. Qed.

Lemma lsum_mul {A} (f : A -> nat) k l : lsum (fun x => k * f x) l = k * lsum f l.
Proof. induction l as [|x l IH]; [cbn; lia|]. rewrite !lsum_cons, IH. lia. Qed.

Lemma lsum_const {A} k (l : list A) : lsum (fun _ => k) l = k * length l.
Proof. induction l as [|x l IH]; [cbn; lia|]. rewrite lsum_cons, IH. cbn [length]. lia. Qed.

Lemma length_lsum {A} (l : list A) : length l = lsum (fun _ => 1) l.
Proof. rewrite lsum_const. lia. Qed.

Lemma length_flat_map {A B} (g : A -> list B) l : length (flat_map g l) = lsum (fun x => length (g x)) l.
Proof. induction l as [|x l IH]; [reflexivity|]. cbn [flat_map]. rewrite app_length, lsum_cons, IH. reflexivity. Qed.

Lemma length_filter {A} (p : A -> bool) l : length (filter p l) = lsum (fun x => if p x then 1 else 0) l.
Proof. induction l as [|x l IH]; [reflexivity|]. cbn [filter]. rewrite lsum_cons. destruct (p x); cbn [length]; rewrite IH; lia. Qed.

Lemma lsum_Forall2_eq {A B} (R : A -> B -> Prop) (g : A -> nat) (h : B -> nat) l m :
  Forall2 R l m -> (forall x y, In x l -> R x y -> g x = h y) -> lsum g l = lsum h m.
Proof.
  induction 1 as [|x y l m Hxy _ IH]; intros H; [reflexivity|]. rewrite !lsum_cons.
  rewrite (H x y (or_introl eq_refl) Hxy), IH; [reflexivity|]. intros x' y' Hx. apply H. right. exact Hx.
Qed.

Lemma lsum_Forall2_le {A B} (R : A -> B -> Prop) (g : A -> nat) (h : B -> nat) l m :
  Forall2 R l m -> (forall x y, In x l -> R x y -> g x <= h y) -> lsum g l <= lsum h m.
Proof.
  induction 1 as [|x y l m Hxy _ IH]; intros H; [cbn; lia|]. rewrite !lsum_cons.
  pose proof (H x y (or_introl eq_refl) Hxy).
  assert (lsum g l <= lsum h m) by (apply IH; intros x' y' Hx; apply H; right; exact Hx). lia.
Qed.

(* ---------- sums over trees and the level order ---------- *)
Section TSum.
  Variable f : tree -> nat.

  Fixpoint tsum (t : tree) : nat :=
    f t + match t with
          | Leaf _ _ _ _ => 0
          | Inner _ _ _ _ _ ch =>
              (fix go (ch : list (nat * tree)) : nat :=
                 match ch with [] => 0 | (_, c) :: r => tsum c + go r end) ch
          end.

  Lemma tsum_unfold t : tsum t = f t + lsum tsum (children t).
  Proof.
    destruct t as [id ord tail eidx|id big step pfx fc ch]; [cbn; lia|].
    cbn [tsum children]. f_equal.
    induction ch as [|[x c] r IH]; [reflexivity|]. cbn [map snd]. rewrite lsum_cons, IH. reflexivity.
  Qed.

  Lemma height_child t c : In c (children t) -> height c < height t.
  Proof.
    destruct t as [id ord tail eidx|id big step pfx fc ch]; [intros []|].
    cbn [children height]. induction ch as [|[x c0] r IH]; [intros []|].
    cbn [map snd In]. intros [<-|H]; [lia|]. specialize (IH H). lia.
  Qed.

  Lemma levels_sum : forall fuel forest,
    Forall (fun t => height t < fuel) forest -> lsum f (levels fuel forest) = lsum tsum forest.
  Proof.
    induction fuel as [|fu IH]; intros forest Hf.
    - destruct forest as [|t r]; [reflexivity|]. inversion Hf; subst. lia.
    - destruct forest as [|t0 r0]; [reflexivity|].
      remember (t0 :: r0) as forest eqn:E.
      assert (levels (S fu) forest = forest ++ levels fu (flat_map children forest)) as -> by (rewrite E; reflexivity).
      rewrite lsum_app, IH.
      + rewrite lsum_flat_map. rewrite <- lsum_add. apply lsum_ext. intros t _. symmetry. apply tsum_unfold.
      + rewrite Forall_forall in *. intros c Hc. apply in_flat_map in Hc. destruct Hc as (t & Ht & Hc).
        specialize (Hf t Ht). apply height_child in Hc. lia.
  Qed.

  Lemma bfs_sum r : lsum f (bfs r) = tsum r.
  Proof.
    unfold bfs. rewrite levels_sum; [cbn; lia|]. constructor; [lia|constructor].
  Qed.
End TSum.

Lemma tsum_inner f id big step pfx fc ch :
  tsum f (Inner id big step pfx fc ch) = f (Inner id big step pfx fc ch) + lsum (tsum f) (map snd ch).
Proof. rewrite tsum_unfold. reflexivity. Qed.

(* ---------- the counts ---------- *)
Definition is_big (t : tree) : bool :=
  match t with Inner _ true _ _ _ _ => true | _ => false end.

Definition nleaves : tree -> nat := tsum (fun t => if is_inner t then 0 else 1).
Definition ninner : tree -> nat := tsum (fun t => if is_inner t then 1 else 0).
Definition nbig : tree -> nat := tsum (fun t => if is_big t then 1 else 0).
Definition nnodes : tree -> nat := tsum (fun _ => 1).

Lemma node_count_tsum r : node_count r = nnodes r.
Proof. unfold node_count, nnodes. rewrite length_lsum. apply bfs_sum. Qed.

Lemma leaf_count_tsum r : leaf_count r = nleaves r.
Proof.
  unfold leaf_count, nleaves. rewrite length_filter. rewrite <- bfs_sum. apply lsum_ext.
  intros t _. destruct (is_inner t); reflexivity.
Qed.

Lemma inner_count_tsum r : inner_count r = ninner r.
Proof.
  unfold inner_count, inners, ninner. rewrite length_flat_map. rewrite <- bfs_sum. apply lsum_ext.
  intros t _. destruct t; reflexivity.
Qed.

Lemma filter_flat_map {A B} (p : B -> bool) (g : A -> list B) l :
  filter p (flat_map g l) = flat_map (fun x => filter p (g x)) l.
Proof. induction l as [|x l IH]; [reflexivity|]. cbn [flat_map]. rewrite filter_app, IH. reflexivity. Qed.

Lemma big_count_tsum r : big_count (inners r) = nbig r.
Proof.
  unfold big_count, inners, nbig. rewrite filter_flat_map, length_flat_map. rewrite <- bfs_sum. apply lsum_ext.
  intros t _. destruct t as [|id big step pfx fc ch]; [reflexivity|]. cbn [inode_of filter in_big is_big].
  destruct big; reflexivity.
Qed.

Lemma nnodes_split t : nnodes t = ninner t + nleaves t.
Proof.
  induction t as [id ord tail eidx|id big step pfx fc ch IH] using tree_ind'; [reflexivity|].
  unfold nnodes, ninner, nleaves in *. rewrite !tsum_inner. cbn [is_inner].
  assert (lsum (tsum (fun _ => 1)) (map snd ch) =
          lsum (tsum (fun t => if is_inner t then 1 else 0)) (map snd ch) +
          lsum (tsum (fun t => if is_inner t then 0 else 1)) (map snd ch)) as ->; [|lia].
  rewrite <- lsum_add. rewrite !lsum_map. apply lsum_ext. intros p Hp.
  rewrite Forall_forall in IH. apply (IH p Hp).
Qed.

(* ---------- number of labels of an inner node ---------- *)
Fixpoint adj_neq (l : list nat) : nat :=
  match l with
  | a :: r => match r with
              | b :: _ => (if Nat.eqb a b then 0 else 1) + adj_neq r
              | [] => 0
              end
  | [] => 0
  end.

Lemma dedup_adj_length l : l <> [] -> length (dedup_adj l) = 1 + adj_neq l.
Proof.
  induction l as [|a l IH]; [congruence|]. intros _.
  destruct l as [|b l']; [reflexivity|].
  change (dedup_adj (a :: b :: l')) with (if Nat.eqb a b then dedup_adj (b :: l') else a :: dedup_adj (b :: l')).
  change (adj_neq (a :: b :: l')) with ((if Nat.eqb a b then 0 else 1) + adj_neq (b :: l')).
  destruct (Nat.eqb a b).
  - rewrite IH by discriminate. reflexivity.
  - cbn [length]. rewrite IH by discriminate. reflexivity.
Qed.

Lemma list_min_in d l : list_min d l = d \/ In (list_min d l) l.
Proof.
  revert d; induction l as [|x l IH]; intros d; cbn [list_min]; [left; reflexivity|].
  destruct (IH (Nat.min d x)) as [H|H]; [|right; right; exact H].
  rewrite H. destruct (Nat.min_spec d x) as [[_ ->]|[_ ->]]; [left; reflexivity|right; left; reflexivity].
Qed.

Lemma sub_ws_in s : adj_lcps (map e_nibs (s_ents s)) <> [] -> In (sub_ws s) (adj_lcps (map e_nibs (s_ents s))).
Proof.
  unfold sub_ws. cbv zeta. intros Hne.
  destruct (adj_lcps (map e_nibs (s_ents s))) as [|d0 r] eqn:E; [congruence|].
  destruct (list_min_in (hd 0 (d0 :: r)) (d0 :: r)) as [H|H]; [|exact H].
  rewrite H. left. reflexivity.
Qed.

(* two entries that part before the end of the label word have different labels *)
Lemma label_neq big (a b : ent) w :
  ent_ok a -> ent_ok b -> ent_lt a b ->
  firstn w (e_nibs a) = firstn w (e_nibs b) ->
  w <= length (e_nibs a) -> w <= length (e_nibs b) ->
  (big = true -> Nat.even w = true) ->
  lcp (e_nibs a) (e_nibs b) < w + wsize big ->
  ent_label big w a <> ent_label big w b.
Proof.
  intros Ha Hb Hlt Hp La Lb Hev Hd E. unfold ent_label in E.
  destruct (Nat.eq_dec (label_at big (e_nibs a) w) 0) as [Z|NZ].
  - assert (label_at big (e_nibs b) w = 0) as Zb by congruence.
    apply (label_zero_iff big _ w La) in Z. apply (label_zero_iff big _ w Lb) in Zb.
    assert (e_nibs a = e_nibs b) as Eab.
    { rewrite <- (firstn_all (e_nibs a)), <- (firstn_all (e_nibs b)), <- Z, <- Zb. exact Hp. }
    unfold ent_lt in Hlt. rewrite Eab, lex_cmp_refl in Hlt. discriminate.
  - destruct (label_eq_firstn big (e_nibs a) (e_nibs b) w) as (Hf & L1 & L2); try assumption.
    + apply ent_ok_lt16; assumption.
    + apply ent_ok_lt16; assumption.
    + intros ->. pose proof (ent_ok_even a Ha). pose proof (ent_ok_even b Hb).
      rewrite !Nat.even_sub by assumption. rewrite (Hev eq_refl), H, H0. split; reflexivity.
    + pose proof (firstn_lcp _ _ _ Hf L1 L2). lia.
Qed.

Lemma adj_lcps_cons2 (a b : list nat) r : adj_lcps (a :: b :: r) = lcp a b :: adj_lcps (b :: r).
Proof. reflexivity. Qed.

Lemma adj_neq_cons2 a b r : adj_neq (a :: b :: r) = (if Nat.eqb a b then 0 else 1) + adj_neq (b :: r).
Proof. reflexivity. Qed.

Lemma adj_neq_lcps big w : forall es : list ent,
  Forall ent_ok es -> StronglySorted ent_lt es ->
  (forall a b, In a es -> In b es -> firstn w (e_nibs a) = firstn w (e_nibs b)) ->
  (forall a, In a es -> w <= length (e_nibs a)) ->
  (big = true -> Nat.even w = true) ->
  length (filter (fun d => d <? w + wsize big) (adj_lcps (map e_nibs es))) <= adj_neq (map (ent_label big w) es).
Proof.
  induction es as [|a es IH]; intros Hok Hs Hag Hlen Hev; [cbn; lia|].
  destruct es as [|b r]; [cbn; lia|].
  cbn [map]. rewrite adj_lcps_cons2, adj_neq_cons2. cbn [filter].
  inversion Hok as [|? ? Oa Hok']; subst. inversion Hs as [|? ? Hs' Hfa]; subst.
  assert (length (filter (fun d => d <? w + wsize big) (adj_lcps (map e_nibs (b :: r))))
          <= adj_neq (map (ent_label big w) (b :: r))) as IH'.
  { apply IH; try assumption.
    - intros x y Hx Hy. apply Hag; right; assumption.
    - intros x Hx. apply Hlen; right; assumption. }
  cbn [map] in IH'.
  destruct (lcp (e_nibs a) (e_nibs b) <? w + wsize big) eqn:Ed.
  - apply Nat.ltb_lt in Ed.
    assert (ent_label big w a <> ent_label big w b) as Hne.
    { inversion Hok' as [|? ? Ob _]; subst. rewrite Forall_forall in Hfa.
      apply label_neq; try assumption.
      - apply Hfa. left; reflexivity.
      - apply Hag; [left; reflexivity|right; left; reflexivity].
      - apply Hlen. left; reflexivity.
      - apply Hlen. right; left; reflexivity. }
    apply Nat.eqb_neq in Hne. rewrite Hne. cbn [length]. lia.
  - destruct (ent_label big w a =? ent_label big w b); lia.
Qed.

Lemma process_inner_big o isbig s big step pfx labels kids b' :
  process_subset o isbig s = Ok (DInner big step pfx labels kids, b') -> big = true ->
  big_threshold < 1 + length (filter (fun d => d <? even_down (sub_ws s) + 2) (adj_lcps (map e_nibs (s_ents s)))).
Proof.
  unfold process_subset, sub_ws.
  destruct (s_ents s) as [|e0 [|e1 r]] eqn:E; try discriminate.
  cbv zeta.
  set (diffs := adj_lcps (map e_nibs (e0 :: e1 :: r))).
  set (ws := list_min (hd 0 diffs) diffs).
  set (big0 := isbig && (big_threshold <? 1 + length (filter (fun d => d <? even_down ws + 2) diffs))).
  set (w0 := if big0 then even_down ws else ws).
  destruct (w0 <? s_from s); [discriminate|].
  destruct (negb (o_inner o) && (max_step <? N.of_nat (w0 - s_from s))%N); [discriminate|].
  intros H. inversion H; subst big. clear H.
  unfold big0. intros Hb. apply andb_true_iff in Hb. destruct Hb as [_ Hb]. apply Nat.ltb_lt in Hb. exact Hb.
Qed.

Lemma adj_lcps_nonempty (a b : list nat) r : adj_lcps (a :: b :: r) <> [].
Proof. cbn. discriminate. Qed.

Lemma inner_label_count o isbig s big step pfx labels kids b' :
  SubInv s -> Forall (fun e => e_keep e = true) (s_ents s) ->
  process_subset o isbig s = Ok (DInner big step pfx labels kids, b') ->
  2 <= length labels /\ (big = true -> big_threshold + 1 <= length labels).
Proof.
  intros I Hk Hp.
  pose proof (inner_facts _ _ _ _ _ _ _ _ _ I Hp) as F.
  pose proof (if_two _ _ _ _ _ F) as Htwo.
  set (w := sub_w big s).
  assert (labels = dedup_adj (map (ent_label big w) (s_ents s))) as Hl.
  { rewrite (if_labels _ _ _ _ _ F). rewrite filter_all_true by exact Hk. reflexivity. }
  assert (map (ent_label big w) (s_ents s) <> []) as Hne.
  { destruct (s_ents s); [cbn in Htwo; lia|discriminate]. }
  rewrite Hl, dedup_adj_length by exact Hne.
  assert (length (filter (fun d => d <? w + wsize big) (adj_lcps (map e_nibs (s_ents s))))
          <= adj_neq (map (ent_label big w) (s_ents s))) as Hcnt.
  { apply adj_neq_lcps.
    - apply (si_ok s I).
    - apply (si_sorted s I).
    - intros a b Ha Hb. apply sub_w_agree; assumption.
    - intros a Ha. apply sub_w_len; assumption.
    - intros ->. apply sub_w_even. }
  split.
  - (* the minimum first-difference position is attained by an adjacent pair *)
    assert (In (sub_ws s) (adj_lcps (map e_nibs (s_ents s)))) as Hin.
    { apply sub_ws_in. destruct (s_ents s) as [|a [|b r]]; cbn in Htwo; try lia. apply adj_lcps_nonempty. }
    assert (In (sub_ws s) (filter (fun d => d <? w + wsize big) (adj_lcps (map e_nibs (s_ents s))))) as Hin'.
    { apply filter_In. split; [exact Hin|]. apply Nat.ltb_lt. unfold w, sub_w.
      destruct big; cbn [wsize]; [|lia]. unfold even_down. pose proof (Nat.mod_upper_bound (sub_ws s) 2). lia. }
    destruct (filter (fun d => d <? w + wsize big) (adj_lcps (map e_nibs (s_ents s)))); [destruct Hin'|].
    cbn [length] in Hcnt. lia.
  - intros Hb. pose proof (process_inner_big _ _ _ _ _ _ _ _ _ Hp Hb) as Ht.
    subst big. subst w. unfold sub_w in *. cbn [wsize] in Hcnt. lia.
Qed.

(* ---------- the children partition the entries ---------- *)
Lemma partition_count {A} (f : A -> nat) (labels : list nat) (es : list A) :
  NoDup labels -> (forall e, In e es -> In (f e) labels) ->
  lsum (fun lb => length (filter (fun e => Nat.eqb (f e) lb) es)) labels = length es.
Proof.
  intros Hnd. induction es as [|e es IH]; intros Hin.
  - cbn [filter length]. rewrite lsum_const. lia.
  - assert (lsum (fun lb => length (filter (fun e0 => f e0 =? lb) (e :: es))) labels =
            lsum (fun lb => (if f e =? lb then 1 else 0)) labels +
            lsum (fun lb => length (filter (fun e0 => f e0 =? lb) es)) labels) as ->.
    { rewrite <- lsum_add. apply lsum_ext. intros lb _. cbn [filter]. destruct (f e =? lb); cbn [length]; lia. }
    rewrite IH by (intros x Hx; apply Hin; right; exact Hx).
    cbn [length].
    assert (lsum (fun lb => if f e =? lb then 1 else 0) labels = 1) as ->; [|lia].
    specialize (Hin e (or_introl eq_refl)). clear IH. revert Hin.
    induction Hnd as [|lb ls Hnotin Hnd IHl]; intros Hin; [destruct Hin|].
    rewrite lsum_cons. destruct Hin as [Heq|Hin].
    + rewrite <- Heq at 1. rewrite Nat.eqb_refl.
      assert (lsum (fun lb0 => if f e =? lb0 then 1 else 0) ls = 0) as ->; [|lia].
      rewrite (lsum_ext _ (fun _ => 0)); [rewrite lsum_const; lia|].
      intros y Hy. destruct (Nat.eqb_spec (f e) y); [subst; contradiction|reflexivity].
    + destruct (Nat.eqb_spec (f e) lb); [subst; contradiction|]. rewrite IHl by exact Hin. lia.
Qed.

Lemma Forall2_in_r {A B} (R : A -> B -> Prop) l m :
  Forall2 R l m -> Forall2 (fun x y => R x y /\ In y m) l m.
Proof.
  intros H.
  assert (forall all, (forall y, In y m -> In y all) -> Forall2 (fun x y => R x y /\ In y all) l m) as G.
  { induction H as [|x y l m Hxy _ IH]; intros all Hall; constructor.
    - split; [exact Hxy|apply Hall; left; reflexivity].
    - apply IH. intros y' Hy'. apply Hall. right. exact Hy'. }
  apply G. auto.
Qed.

(* ---------- the count invariant of built trees ---------- *)
Lemma big_threshold_val : big_threshold = 10.
Proof. reflexivity. Qed.

Lemma counts_inv o : forall t s,
  trie_of o t s -> SubInv s -> Forall (fun e => e_keep e = true) (s_ents s) ->
  nleaves t = length (s_ents s) /\ ninner t + 9 * nbig t + 1 <= length (s_ents s).
Proof.
  induction t as [id ord tail eidx|id big step pfx fc ch IH] using tree_ind'; intros s Ht I Hk.
  - cbn [trie_of] in Ht. destruct Ht as (e & Es & _). rewrite Es. cbn. lia.
  - cbn [trie_of] in Ht. destruct Ht as (isbig & labels & kids & b' & Hp & Hlab & Hkm).
    pose proof (inner_facts _ _ _ _ _ _ _ _ _ I Hp) as F.
    destruct (inner_label_count _ _ _ _ _ _ _ _ _ I Hk Hp) as [H2 H11].
    apply kids_match_Forall2 in Hkm.
    assert (forall c k, In c (map snd ch) -> trie_of o c k -> In k kids ->
              nleaves c = length (s_ents k) /\ ninner c + 9 * nbig c + 1 <= length (s_ents k)) as Hkid.
    { intros c k Hc Hck Hkin. apply in_map_iff in Hc. destruct Hc as (p & <- & Hp').
      rewrite Forall_forall in IH. apply (IH p Hp' k Hck).
      - eapply kids_inv; eassumption.
      - rewrite (if_kids _ _ _ _ _ F) in Hkin. apply in_map_iff in Hkin. destruct Hkin as (lb & <- & _).
        cbn [s_ents]. rewrite Forall_forall in *. intros e He. apply filter_In in He. apply Hk. tauto. }
    (* Forall2 with membership on the right *)
    assert (Forall2 (fun c k => trie_of o c k /\ In k kids) (map snd ch) kids) as Hkm'.
    { apply Forall2_in_r. exact Hkm. }
    assert (lsum (fun k => length (s_ents k)) kids = length (s_ents s)) as Hpart.
    { rewrite (if_kids _ _ _ _ _ F). rewrite lsum_map. cbn [s_ents].
      apply partition_count.
      - apply SS_lt_NoDup. apply (if_asc _ _ _ _ _ F).
      - intros e He. rewrite (if_labels _ _ _ _ _ F). apply (proj2 (dedup_adj_In _ _)). apply in_map.
        apply filter_In. rewrite Forall_forall in Hk. split; [exact He|apply Hk; exact He]. }
    assert (length (map snd ch) = length labels) as Hlen by (rewrite <- Hlab, !map_length; reflexivity).
    unfold nleaves, ninner, nbig in *. rewrite !tsum_inner. cbn [is_inner is_big].
    split.
    + rewrite <- Hpart. cbn [Nat.add].
      apply (lsum_Forall2_eq (fun c k => trie_of o c k /\ In k kids)); [exact Hkm'|].
      intros c k Hc [Hck Hkin]. apply (Hkid c k Hc Hck Hkin).
    + assert (lsum (fun c => tsum (fun t => if is_inner t then 1 else 0) c
                             + 9 * tsum (fun t => if is_big t then 1 else 0) c + 1) (map snd ch)
              <= lsum (fun k => length (s_ents k)) kids) as Hle.
      { apply (lsum_Forall2_le (fun c k => trie_of o c k /\ In k kids)); [exact Hkm'|].
        intros c k Hc [Hck Hkin]. apply (Hkid c k Hc Hck Hkin). }
      rewrite !lsum_add, lsum_mul, lsum_const in Hle. rewrite Hpart in Hle.
      rewrite Hlen in Hle.
      destruct big.
      * specialize (H11 eq_refl). rewrite big_threshold_val in H11. lia.
      * lia.
Qed.

(* ---------- built tries without values ---------- *)
Lemma mk_ents_all_kept : forall keys b keep,
  Forall (fun x => x = true) keep -> Forall (fun e => e_keep e = true) (mk_ents b keys keep).
Proof.
  induction keys as [|k r IH]; intros b keep Hk; cbn [mk_ents]; [constructor|].
  constructor.
  - cbn [e_keep]. destruct keep as [|x keep']; [reflexivity|]. inversion Hk; subst. reflexivity.
  - apply IH. destruct keep as [|x keep']; [constructor|]. inversion Hk; subst. assumption.
Qed.

Lemma mk_ents_length : forall keys b keep, length (mk_ents b keys keep) = length keys.
Proof. induction keys as [|k r IH]; intros b keep; cbn [mk_ents length]; [reflexivity|]. rewrite IH. reflexivity. Qed.

Lemma repeat_true_all n : Forall (fun x => x = true) (repeat true n).
Proof. induction n; cbn; constructor; auto. Qed.

Theorem built_counts o keys T r :
  build o keys None = Ok T -> t_root T = Some r ->
  leaf_count r = length keys /\
  node_count r = inner_count r + length keys /\
  inner_count r + 9 * big_count (inners r) + 1 <= length keys.
Proof.
  intros Hb Hr. destruct (build_ok _ _ _ _ Hb) as [[-> ->]|(r' & lidx & B)]; [discriminate|].
  rewrite (bt_root _ _ _ _ _ _ B) in Hr. inversion Hr; subst r'. clear Hr.
  pose proof (root_inv o keys None (bt_sorted _ _ _ _ _ _ B) (bt_nonempty _ _ _ _ _ _ B)) as I.
  assert (Forall (fun e => e_keep e = true) (s_ents (root_subset o keys None))) as Hk.
  { unfold root_subset. cbn [s_ents to_keep]. apply mk_ents_all_kept. apply repeat_true_all. }
  destruct (counts_inv o r _ (bt_trie _ _ _ _ _ _ B) I Hk) as [HL HI].
  assert (length (s_ents (root_subset o keys None)) = length keys) as Hlen
    by (unfold root_subset; cbn [s_ents]; apply mk_ents_length).
  rewrite Hlen in *.
  rewrite leaf_count_tsum, node_count_tsum, inner_count_tsum, big_count_tsum, nnodes_split. lia.
Qed.

(* ====================================================================== *)
(* Part 2: sizes.  Bounds on varints, packed fields, bitmaps.              *)
(* ====================================================================== *)
From Coq Require Import ZifyN.
Ltac Zify.zify_post_hook ::= Z.div_mod_to_equations.

Section SizeBounds.
Local Open Scope N_scope.

Lemma size_var_le : forall f x, size_var f x <= N.of_nat f.
Proof.
  induction f as [|f IH]; intros x; cbn [size_var]; [lia|].
  destruct (x <? 128); [lia|]. specialize (IH (x / 128)). lia.
Qed.

Lemma sv_le10 x : size_varint x <= 10.
Proof. unfold size_varint. pose proof (size_var_le 10 x). lia. Qed.

Lemma size_var_lin : forall f x, size_var f x <= 1 + x / 128.
Proof.
  induction f as [|f IH]; intros x; cbn [size_var]; [lia|].
  destruct (N.ltb_spec x 128); [lia|]. specialize (IH (x / 128)). lia.
Qed.

Lemma sv_lin x : size_varint x <= 1 + x / 128.
Proof. apply size_var_lin. Qed.

Lemma size_var_pow : forall k f x, x < 128 ^ N.of_nat (S k) -> size_var f x <= N.of_nat (S k).
Proof.
  induction k as [|k IH]; intros f x Hx.
  - destruct f; cbn [size_var]; [lia|]. change (128 ^ N.of_nat 1) with 128 in Hx.
    destruct (N.ltb_spec x 128); lia.
  - destruct f; cbn [size_var]; [lia|].
    destruct (N.ltb_spec x 128); [lia|].
    assert (x / 128 < 128 ^ N.of_nat (S k)) as Hq.
    { replace (N.of_nat (S (S k))) with (N.succ (N.of_nat (S k))) in Hx by lia.
      rewrite N.pow_succ_r' in Hx. apply N.div_lt_upper_bound; lia. }
    specialize (IH f (x / 128) Hq). lia.
Qed.

Lemma sv_le5 x : x < 34359738368 -> size_varint x <= 5.
Proof. intros H. apply (size_var_pow 4 10 x). exact H. Qed.

Lemma sv_le3 x : x < 2097152 -> size_varint x <= 3.
Proof. intros H. apply (size_var_pow 2 10 x). exact H. Qed.

Lemma sv_le1 x : x < 128 -> size_varint x <= 1.
Proof. intros H. apply (size_var_pow 0 10 x). exact H. Qed.

(* tag + length prefix + payload of a length-delimited field with a 2-byte tag *)
Definition lf (x : N) : N := 3 + x + x / 128.

Lemma lf_mono x y : x <= y -> lf x <= lf y.
Proof. unfold lf. intros H. lia. Qed.

Lemma sz_lenfield_le tag n : size_varint (tag * 8 + 2) <= 2 -> sz_lenfield tag n <= lf n.
Proof. unfold sz_lenfield, lf. intros H. pose proof (sv_lin n). lia. Qed.

Lemma sum_sv_le c vs :
  Forall (fun v => size_varint v <= c) vs -> sum_N (map size_varint vs) <= c * N.of_nat (length vs).
Proof.
  induction 1 as [|v vs Hv _ IH]; [cbn; lia|].
  cbn [map sum_N length]. lia.
Qed.

Lemma sz_packed_le tag c vs :
  size_varint (tag * 8 + 2) <= 2 -> Forall (fun v => size_varint v <= c) vs ->
  sz_packed tag vs <= lf (c * N.of_nat (length vs)).
Proof.
  intros Ht Hf. unfold sz_packed. destruct vs as [|v vs']; [unfold lf; lia|].
  etransitivity; [apply sz_lenfield_le; exact Ht|]. apply lf_mono. apply sum_sv_le. exact Hf.
Qed.

Lemma u64_of_nat k : N.of_nat k < two64 -> u64_of_int32 (Z.of_nat k) = N.of_nat k.
Proof. unfold u64_of_int32, two64. intros H. rewrite Z.mod_small by lia. lia. Qed.

End SizeBounds.

(* ---------- chunks and rank indexes ---------- *)
Lemma chunks_count : forall fuel bs, 64 * length (chunks fuel bs) <= length bs + 63.
Proof.
  induction fuel as [|f IH]; intros bs; cbn [chunks]; [cbn; lia|].
  destruct bs as [|b bs']; [cbn; lia|].
  remember (b :: bs') as l eqn:E. cbn [length].
  specialize (IH (skipn 64 l)). rewrite skipn_length in IH.
  assert (1 <= length l) by (rewrite E; cbn; lia).
  destruct (Nat.le_gt_cases 64 (length l)); [lia|].
  assert (skipn 64 l = []) as Hs by (apply skipn_all2; lia).
  rewrite Hs. destruct f; cbn [chunks length]; lia.
Qed.

Lemma chunks_total : forall fuel bs, lsum (@length bool) (chunks fuel bs) <= length bs.
Proof.
  induction fuel as [|f IH]; intros bs; cbn [chunks]; [cbn; lia|].
  destruct bs as [|b bs']; [cbn; lia|].
  remember (b :: bs') as l eqn:E. rewrite lsum_cons.
  specialize (IH (skipn 64 l)). rewrite skipn_length in IH. rewrite firstn_length. lia.
Qed.

Lemma count_true_le bs : count_true bs <= length bs.
Proof. induction bs as [|b bs IH]; cbn [count_true length]; [lia|]. destruct b; lia. Qed.

Lemma rank64_length : forall cs acc, length (rank64 acc cs) = length cs.
Proof. induction cs as [|c r IH]; intros acc; cbn [rank64 length]; [reflexivity|]. rewrite IH. reflexivity. Qed.

Lemma rank64_bound : forall cs acc, Forall (fun x => x <= acc + lsum (@length bool) cs) (rank64 acc cs).
Proof.
  induction cs as [|c r IH]; intros acc; cbn [rank64]; [constructor|].
  rewrite lsum_cons. constructor; [lia|].
  eapply Forall_impl; [|apply IH]. cbn beta. intros x Hx. pose proof (count_true_le c). lia.
Qed.

Lemma rank128_facts : forall n cs acc, length cs <= n ->
  2 * length (rank128 acc cs) <= length cs + 2 /\
  Forall (fun x => x <= acc + lsum (@length bool) cs) (rank128 acc cs).
Proof.
  induction n as [|n IH]; intros cs acc Hn.
  - destruct cs; [|cbn in Hn; lia]. cbn. split; [lia|]. constructor; [lia|constructor].
  - destruct cs as [|c1 [|c2 r]].
    + cbn. split; [lia|]. constructor; [lia|constructor].
    + cbn. split; [lia|]. constructor; [lia|constructor].
    + cbn [rank128]. cbn [length] in Hn.
      destruct (IH r (acc + count_true c1 + count_true c2)) as [H1 H2]; [lia|].
      rewrite !lsum_cons. cbn [length]. split; [lia|].
      constructor; [lia|]. eapply Forall_impl; [|exact H2]. cbn beta. intros x Hx.
      pose proof (count_true_le c1). pose proof (count_true_le c2). lia.
Qed.

(* ---------- size of a bitmap message built by newBM ---------- *)
Section BitmapSize.
Local Open Scope N_scope.

Lemma chunks64_total bs : (lsum (@length bool) (chunks64 bs) <= length bs)%nat.
Proof. apply chunks_total. Qed.

Lemma size_mk_bm r128 bs :
  N.of_nat (length bs) < 34359738368 ->
  exists W R : N,
    size_bitmap (mk_bm r128 bs) <= lf (10 * W) + lf (5 * R) /\
    64 * W <= N.of_nat (length bs) + 63 /\
    (if r128 then 2 * R <= W + 2 else R = W).
Proof.
  intros Hlen.
  set (cs := chunks64 bs).
  set (ranks := if r128 then rank128 0 cs else rank64 0 cs).
  exists (N.of_nat (length cs)), (N.of_nat (length ranks)).
  assert (Forall (fun x => (x <= length bs)%nat) ranks) as Hr.
  { pose proof (chunks64_total bs) as Ht. fold cs in Ht. unfold ranks. destruct r128.
    - destruct (rank128_facts (length cs) cs 0 (le_n _)) as [_ H].
      eapply Forall_impl; [|exact H]. cbn beta. intros x Hx. lia.
    - eapply Forall_impl; [|apply (rank64_bound cs 0)]. cbn beta. intros x Hx. lia. }
  split; [|split].
  - unfold size_bitmap, mk_bm. fold cs. fold ranks. cbn [bm_words bm_rank bm_select bm_unk map].
    change (sz_packed 40 []) with 0. change (blen []) with 0. rewrite !N.add_0_r.
    apply N.add_le_mono.
    + replace (length cs) with (length (map bits_val cs)) by apply map_length.
      apply sz_packed_le; [vm_compute; discriminate|].
      rewrite Forall_forall. intros v _. apply sv_le10.
    + replace (length ranks) with (length (map u64_of_int32 (map Z.of_nat ranks))) by (rewrite !map_length; reflexivity).
      apply sz_packed_le; [vm_compute; discriminate|].
      rewrite Forall_forall. intros v Hv. apply in_map_iff in Hv. destruct Hv as (z & <- & Hz).
      apply in_map_iff in Hz. destruct Hz as (x & <- & Hx).
      rewrite Forall_forall in Hr. specialize (Hr x Hx).
      rewrite u64_of_nat by (unfold two64; lia). apply sv_le5. lia.
  - pose proof (chunks_count (length bs) bs) as H. fold (chunks64 bs) in H. fold cs in H. lia.
  - unfold ranks. destruct r128.
    + destruct (rank128_facts (length cs) cs 0 (le_n _)) as [H _]. lia.
    + rewrite rank64_length. reflexivity.
Qed.

End BitmapSize.

(* ---------- the short-node table ---------- *)
Definition tsumc (l : list (N * nat)) : nat := lsum snd l.
Definition total (tbls : list (list (N * nat))) : nat := lsum tsumc tbls.
Definition ocnt (x : option (N * nat)) : nat := match x with Some (_, c) => c | None => 0 end.
Definition asum (a : list (option (N * nat))) : nat := lsum ocnt a.

Lemma pop_nth_total : forall tbls k x t', pop_nth k tbls = (x, t') -> total tbls = ocnt x + total t'.
Proof.
  induction tbls as [|l r IH]; intros k x t' H.
  - destruct k; cbn [pop_nth] in H; inversion H; subst; reflexivity.
  - destruct k as [|k']; cbn [pop_nth] in H.
    + destruct l as [|[bm c] l']; inversion H; subst; cbn [ocnt]; [reflexivity|].
      unfold total, tsumc. rewrite !lsum_cons. cbn [snd]. lia.
    + destruct (pop_nth k' r) as [x0 r'] eqn:E. inversion H; subst.
      specialize (IH k' x r' E). unfold total in *. rewrite !lsum_cons. lia.
Qed.

Lemma assign_total : forall shorts tbls, asum (assign shorts tbls) <= total tbls.
Proof.
  induction shorts as [|s r IH]; intros tbls; cbn [assign]; [cbn; lia|].
  destruct (pop_nth (popcount s) tbls) as [x t'] eqn:E.
  pose proof (pop_nth_total _ _ _ _ E). specialize (IH t'). unfold asum in *. rewrite lsum_cons. lia.
Qed.

Lemma assign_length : forall shorts tbls, length (assign shorts tbls) = length shorts.
Proof.
  induction shorts as [|s r IH]; intros tbls; cbn [assign]; [reflexivity|].
  destruct (pop_nth (popcount s) tbls) as [x t']. cbn [length]. rewrite IH. reflexivity.
Qed.

Lemma saved_bounds ss a : (0 <= saved ss a <= 17 * Z.of_nat (asum a))%Z.
Proof.
  induction a as [|x a IH]; [cbn; lia|].
  unfold asum in *. rewrite lsum_cons. cbn [saved fold_right]. fold (saved ss a).
  destruct x as [[bm c]|]; cbn [ocnt]; nia.
Qed.

Lemma bump_sum bm t : tsumc (bump bm t) = S (tsumc t).
Proof.
  induction t as [|[b c] r IH]; [reflexivity|]. cbn [bump].
  destruct (N.eqb b bm); unfold tsumc in *; rewrite !lsum_cons; cbn [snd]; [lia|]. rewrite IH. lia.
Qed.

Lemma counts_sum k cs : tsumc (counts k cs) = lsum (fun p => if Nat.eqb (fst p) k then 1 else 0) cs.
Proof.
  unfold counts.
  assert (forall acc, tsumc (fold_left (fun t p => if Nat.eqb (fst p) k then bump (snd p) t else t) cs acc)
                      = tsumc acc + lsum (fun p => if Nat.eqb (fst p) k then 1 else 0) cs) as G.
  { induction cs as [|p r IH]; intros acc; cbn [fold_left]; [cbn; lia|].
    rewrite IH, lsum_cons. destruct (Nat.eqb (fst p) k); [rewrite bump_sum|]; lia. }
  rewrite G. reflexivity.
Qed.

Lemma ins_sorted_sum a l : tsumc (ins_sorted a l) = snd a + tsumc l.
Proof.
  induction l as [|b r IH]; [reflexivity|]. cbn [ins_sorted].
  destruct (cnt_before b a); unfold tsumc in *; rewrite !lsum_cons; [rewrite IH|]; lia.
Qed.

Lemma sort_cnt_sum l : tsumc (sort_cnt l) = tsumc l.
Proof.
  induction l as [|a r IH]; [reflexivity|]. cbn [sort_cnt fold_right]. fold (sort_cnt r).
  rewrite ins_sorted_sum, IH. reflexivity.
Qed.

Lemma indicator_le1 a ks : NoDup ks -> lsum (fun k => if Nat.eqb a k then 1 else 0) ks <= 1.
Proof.
  induction 1 as [|k ks Hnotin Hnd IH]; [cbn; lia|]. rewrite lsum_cons.
  destruct (Nat.eqb_spec a k); [|lia]. subst.
  assert (lsum (fun k0 => if Nat.eqb k k0 then 1 else 0) ks = 0) as ->; [|lia].
  rewrite (lsum_ext _ (fun _ => 0)); [rewrite lsum_const; lia|].
  intros y Hy. destruct (Nat.eqb_spec k y); [subst; contradiction|reflexivity].
Qed.

Lemma lsum_swap {A B} (g : A -> B -> nat) (ks : list A) (cs : list B) :
  lsum (fun k => lsum (fun p => g k p) cs) ks = lsum (fun p => lsum (fun k => g k p) ks) cs.
Proof.
  induction ks as [|k ks IH]; [cbn; rewrite lsum_const; lia|].
  rewrite lsum_cons, IH. rewrite <- lsum_add. apply lsum_ext. intros p _. rewrite lsum_cons. reflexivity.
Qed.

Lemma total_sorted cs : total (sorted_tbls cs) <= length cs.
Proof.
  unfold total, sorted_tbls. rewrite lsum_map.
  rewrite (lsum_ext _ (fun k => lsum (fun p => if Nat.eqb (fst p) k then 1 else 0) cs))
    by (intros k _; rewrite sort_cnt_sum; apply counts_sum).
  rewrite (lsum_swap (fun k p => if Nat.eqb (fst p) k then 1 else 0)).
  rewrite length_lsum. unfold lsum at 1 3.
  induction cs as [|p r IH]; [cbn; lia|]. cbn [map sum_list].
  pose proof (indicator_le1 (fst p) (seq 0 (S max_short)) (seq_NoDup _ _)). lia.
Qed.

Lemma mem_incr_0 tbls : (mem_incr tbls 0 <= 64)%Z.
Proof. unfold mem_incr. pose proof (saved_bounds 0 (assign (shorts 0) tbls)). cbn [Nat.pow]. lia. Qed.

Lemma find_short_size_spec tbls :
  find_short_size tbls <= max_short /\
  (find_short_size tbls = 0 \/ (mem_incr tbls (find_short_size tbls) < mem_incr tbls 0)%Z).
Proof.
  unfold find_short_size.
  set (step := fun (st : nat * Z) ss => let m := mem_incr tbls ss in if (m <? snd st)%Z then (ss, m) else st).
  assert (forall l st,
            Forall (fun x => x <= max_short) l ->
            (fst st <= max_short /\ snd st = mem_incr tbls (fst st) /\ (snd st <= mem_incr tbls 0)%Z /\
             (fst st = 0 \/ (snd st < mem_incr tbls 0)%Z)) ->
            let st' := fold_left step l st in
            fst st' <= max_short /\ snd st' = mem_incr tbls (fst st') /\ (snd st' <= mem_incr tbls 0)%Z /\
            (fst st' = 0 \/ (snd st' < mem_incr tbls 0)%Z)) as G.
  { induction l as [|x l IH]; intros st Hl Hst; [exact Hst|].
    cbn [fold_left]. inversion Hl; subst. apply IH; [assumption|].
    assert (step st x = if (mem_incr tbls x <? snd st)%Z then (x, mem_incr tbls x) else st) as -> by reflexivity.
    destruct (Z.ltb_spec (mem_incr tbls x) (snd st)); cbn [fst snd]; [|exact Hst].
    destruct Hst as (S1 & S2 & S3 & S4). repeat split; lia. }
  destruct (G (seq 1 max_short) (0, mem_incr tbls 0)) as (H1 & H2 & H3 & H4).
  - rewrite Forall_forall. intros x Hx. apply in_seq in Hx. lia.
  - cbn [fst snd]. repeat split; lia.
  - split; [exact H1|]. destruct H4 as [H4|H4]; [left; exact H4|right]. rewrite <- H2. exact H4.
Qed.

Lemma table_len_bound cs :
  64 * 2 ^ find_short_size (sorted_tbls cs) <= 64 + 17 * length cs.
Proof.
  set (tbls := sorted_tbls cs). destruct (find_short_size_spec tbls) as [_ [H0|Hlt]].
  - rewrite H0. cbn. lia.
  - pose proof (mem_incr_0 tbls). set (ss := find_short_size tbls) in *.
    unfold mem_incr in Hlt at 1.
    pose proof (saved_bounds ss (assign (shorts ss) tbls)) as [_ Hs].
    pose proof (assign_total (shorts ss) tbls). pose proof (total_sorted cs). fold tbls in H1.
    set (T := 2 ^ ss) in *. lia.
Qed.

Lemma short_table_length tbls ss : length (short_table tbls ss) = 2 ^ ss.
Proof. unfold short_table, shorts. rewrite map_length, assign_length, map_length, seq_length. reflexivity. Qed.

(* the entries of the table are 17-bit bitmaps *)
Definition okbm (p : N * nat) : Prop := (fst p < 131072)%N.

Lemma bits_val_lt bs : (bits_val bs < 2 ^ N.of_nat (length bs))%N.
Proof.
  induction bs as [|b bs IH]; [cbn; lia|]. cbn [bits_val length].
  replace (N.of_nat (S (length bs))) with (N.succ (N.of_nat (length bs))) by lia.
  rewrite N.pow_succ_r'. destruct b; lia.
Qed.

Lemma bm17_lt labels : (bm17 labels < 131072)%N.
Proof.
  unfold bm17. pose proof (bits_val_lt (label_bits 17 labels)) as H.
  unfold label_bits in H at 2. rewrite map_length, seq_length in H. exact H.
Qed.

Lemma bump_ok bm t : (bm < 131072)%N -> Forall okbm t -> Forall okbm (bump bm t).
Proof.
  intros Hb. induction 1 as [|[b c] r Hp Hr IH]; cbn [bump]; [constructor; [exact Hb|constructor]|].
  destruct (N.eqb b bm); constructor; [exact Hp|exact Hr|exact Hp|exact IH].
Qed.

Lemma counts_ok k cs : Forall (fun p => (snd p < 131072)%N) cs -> Forall okbm (counts k cs).
Proof.
  unfold counts. intros H.
  assert (forall acc, Forall okbm acc ->
            Forall okbm (fold_left (fun t p => if Nat.eqb (fst p) k then bump (snd p) t else t) cs acc)) as G.
  { induction H as [|p r Hp _ IH]; intros acc Ha; cbn [fold_left]; [exact Ha|].
    apply IH. destruct (Nat.eqb (fst p) k); [apply bump_ok; assumption|exact Ha]. }
  apply G. constructor.
Qed.

Lemma ins_sorted_ok a l : okbm a -> Forall okbm l -> Forall okbm (ins_sorted a l).
Proof.
  intros Ha. induction 1 as [|b r Hb Hr IH]; cbn [ins_sorted]; [constructor; [exact Ha|constructor]|].
  destruct (cnt_before b a); constructor; try assumption. constructor; assumption.
Qed.

Lemma sort_cnt_ok l : Forall okbm l -> Forall okbm (sort_cnt l).
Proof.
  induction 1 as [|a r Ha _ IH]; [constructor|]. cbn [sort_cnt fold_right]. fold (sort_cnt r).
  apply ins_sorted_ok; assumption.
Qed.

Lemma cands_ok ins : Forall (fun p => (snd p < 131072)%N) (cands ins).
Proof.
  unfold cands. rewrite Forall_forall. intros p Hp. apply in_flat_map in Hp. destruct Hp as (i & _ & Hp).
  destruct (length (in_labels i) <=? max_short); [|destruct Hp].
  destruct Hp as [<-|[]]. cbn [snd]. apply bm17_lt.
Qed.

Lemma sorted_tbls_ok cs : Forall (fun p => (snd p < 131072)%N) cs -> Forall (Forall okbm) (sorted_tbls cs).
Proof.
  intros H. unfold sorted_tbls. rewrite Forall_forall. intros l Hl. apply in_map_iff in Hl.
  destruct Hl as (k & <- & _). apply sort_cnt_ok. apply counts_ok. exact H.
Qed.

Definition okopt (x : option (N * nat)) : Prop := match x with Some p => okbm p | None => True end.

Lemma pop_nth_ok : forall tbls k x t', Forall (Forall okbm) tbls -> pop_nth k tbls = (x, t') ->
  okopt x /\ Forall (Forall okbm) t'.
Proof.
  induction tbls as [|l r IH]; intros k x t' Hf H.
  - destruct k; cbn [pop_nth] in H; inversion H; subst; (split; [exact I|constructor]).
  - inversion Hf as [|? ? Hl Hr]; subst. destruct k as [|k']; cbn [pop_nth] in H.
    + destruct l as [|p l']; inversion H; subst; [split; [exact I|exact Hf]|].
      inversion Hl; subst. split; [assumption|]. constructor; assumption.
    + destruct (pop_nth k' r) as [x0 r'] eqn:E. inversion H; subst.
      destruct (IH k' x r' Hr E) as [H1 H2]. split; [exact H1|]. constructor; assumption.
Qed.

Lemma assign_ok : forall shorts tbls, Forall (Forall okbm) tbls -> Forall okopt (assign shorts tbls).
Proof.
  induction shorts as [|s r IH]; intros tbls Hf; cbn [assign]; [constructor|].
  destruct (pop_nth (popcount s) tbls) as [x t'] eqn:E.
  destruct (pop_nth_ok _ _ _ _ Hf E) as [H1 H2]. constructor; [exact H1|apply IH; exact H2].
Qed.

Lemma short_table_ok tbls ss : Forall (Forall okbm) tbls -> Forall (fun v => (v < 131072)%N) (short_table tbls ss).
Proof.
  intros Hf. unfold short_table. pose proof (assign_ok (shorts ss) tbls Hf) as H.
  induction H as [|x a Hx _ IH]; cbn [map]; constructor; [|exact IH].
  destruct x as [[bm c]|]; [exact Hx|lia].
Qed.

(* ---------- lengths of the bit strings ---------- *)
Lemma label_bits_length w labels : length (label_bits w labels) = w.
Proof. unfold label_bits. rewrite map_length, seq_length. reflexivity. Qed.

Lemma short_bits_length ss s : length (short_bits ss s) = ss.
Proof. unfold short_bits. rewrite map_length, seq_length. reflexivity. Qed.

Lemma node_bits_length ss mu i : ss <= 17 -> length (node_bits ss mu i) <= if in_big i then 257 else 17.
Proof.
  intros Hs. unfold node_bits. destruct (in_big i); [rewrite label_bits_length; lia|].
  destruct (lookup (bm17 (in_labels i)) mu); [rewrite short_bits_length; lia|rewrite label_bits_length; lia].
Qed.

Lemma big_count_le ins : big_count ins <= length ins.
Proof. unfold big_count. rewrite length_filter, length_lsum. unfold lsum. induction ins as [|i r IH]; cbn [map sum_list]; [lia|]. destruct (in_big i); lia. Qed.

Lemma inner_bits_length ss mu ins : ss <= 17 ->
  length (flat_map (node_bits ss mu) ins) + 17 * big_count ins <= 257 * big_count ins + 17 * length ins.
Proof.
  intros Hs. induction ins as [|i r IH]; [cbn; lia|].
  cbn [flat_map]. rewrite app_length. pose proof (node_bits_length ss mu i Hs) as Hn.
  unfold big_count in *. cbn [filter length]. destruct (in_big i); cbn [length]; lia.
Qed.

Lemma cands_length ins : length (cands ins) <= length ins.
Proof.
  unfold cands. rewrite length_flat_map, length_lsum. unfold lsum.
  induction ins as [|i r IH]; cbn [map sum_list]; [lia|].
  destruct (length (in_labels i) <=? max_short); cbn [length]; lia.
Qed.

Lemma enc_steps_length l : length (flat_map (fun i => enc_step (in_step i)) l) = 2 * length l.
Proof. induction l as [|i r IH]; [reflexivity|]. cbn [flat_map]. rewrite app_length, IH. cbn [enc_step length]. lia. Qed.

(* ---------- the bound ---------- *)
Section Bound.
Local Open Scope N_scope.

Lemma lf_scaled x : 128 * lf x <= 384 + 129 * x.
Proof. unfold lf. lia. Qed.

Lemma blen_length (l : list byte) : blen l = N.of_nat (length l).
Proof. reflexivity. Qed.

Lemma sz_int32_nat tag k :
  size_varint (tag * 8) <= 2 -> N.of_nat k < 34359738368 ->
  sz_int32 tag (Z.of_nat k) <= size_varint (tag * 8) + 5.
Proof.
  intros Ht Hk. unfold sz_int32. destruct (Z.of_nat k =? 0)%Z; [lia|].
  rewrite u64_of_nat by (unfold two64; lia). pose proof (sv_le5 _ Hk). lia.
Qed.

Lemma encode_root_size r n :
  (leaf_count r = n)%nat ->
  (node_count r = inner_count r + n)%nat ->
  (inner_count r + 9 * big_count (inners r) + 1 <= n)%nat ->
  N.of_nat n < 67108864 ->
  size_slim (encode_root r) + 32 <= 8 * N.of_nat n + 256.
Proof.
  intros _ Hnodes Hcnt Hn.
  unfold encode_root. cbv zeta.
  set (nodes := bfs r). set (ins := inners r). set (B := big_count ins).
  set (cs := cands (skipn B ins)). set (tbls := sorted_tbls cs).
  set (ss := find_short_size tbls). set (mu := most_used tbls ss).
  set (stepped := filter has_step ins).
  unfold node_count in Hnodes. fold nodes in Hnodes. unfold inner_count in Hnodes, Hcnt. fold ins in Hnodes, Hcnt. fold B in Hcnt.
  pose proof (big_count_le ins) as HB. fold B in HB.
  destruct (find_short_size_spec tbls) as [Hss _]. fold ss in Hss. unfold max_short in Hss.
  (* the four bitmaps *)
  destruct (size_mk_bm false (map is_inner nodes)) as (W1 & R1 & S1 & HW1 & HR1);
    [rewrite map_length; lia|]. rewrite map_length in HW1.
  pose proof (inner_bits_length ss mu ins ltac:(lia)) as Hbits. fold B in Hbits.
  destruct (size_mk_bm true (flat_map (node_bits ss mu) ins)) as (W2 & R2 & S2 & HW2 & HR2); [lia|].
  destruct (size_mk_bm false (map (fun i => match node_short mu i with Some _ => true | None => false end) ins))
    as (W3 & R3 & S3 & HW3 & HR3); [rewrite map_length; lia|]. rewrite map_length in HW3.
  destruct (size_mk_bm true (map has_step ins)) as (W4 & R4 & S4 & HW4 & HR4); [rewrite map_length; lia|].
  rewrite map_length in HW4.
  (* the table *)
  assert (sz_packed 32 (short_table tbls ss) <= lf (3 * N.of_nat (2 ^ ss))) as HT.
  { rewrite <- (short_table_length tbls ss). apply sz_packed_le; [vm_compute; discriminate|].
    eapply Forall_impl; [|apply short_table_ok; apply sorted_tbls_ok; apply cands_ok].
    cbn beta. intros v Hv. apply sv_le3. lia. }
  assert (64 * N.of_nat (2 ^ ss) + 17 * N.of_nat B <= 64 + 17 * N.of_nat (length ins)) as HTl.
  { pose proof (table_len_bound cs) as H. fold tbls in H. fold ss in H.
    pose proof (cands_length (skipn B ins)) as H2. fold cs in H2. rewrite skipn_length in H2. lia. }
  (* steps *)
  assert (length stepped <= length ins)%nat as HP.
  { unfold stepped. rewrite length_filter, length_lsum. unfold lsum.
    clear. induction ins as [|i l IH]; cbn [map sum_list]; [lia|]. destruct (has_step i); lia. }
  (* assemble *)
  unfold size_slim. cbn [s_bigcnt s_shortsize s_nodetype s_inners s_shortbm s_shorttable s_innerpref s_leafpref s_leaves s_unk].
  unfold sz_msg at 1 2 3 4. change (sz_msg size_vlen 58 None) with 0. change (sz_msg size_vlen 60 None) with 0.
  change (blen []) with 0.
  unfold size_vlen. cbn [vl_n vl_eltcnt vl_position vl_fixed vl_bytes vl_presence vl_unk].
  change (sz_int32 10 0) with 0. change (sz_msg size_bitmap 20 None) with 0. change (sz_int32 23 2) with 3.
  change (blen []) with 0. unfold sz_msg.
  pose proof (sz_int32_nat 11 B ltac:(vm_compute; discriminate) ltac:(lia)) as F1.
  change (size_varint (11 * 8)) with 1 in F1.
  pose proof (sz_int32_nat 14 ss ltac:(vm_compute; discriminate) ltac:(lia)) as F2'.
  assert (sz_int32 14 (Z.of_nat ss) <= 2) as F2.
  { unfold sz_int32. destruct (Z.of_nat ss =? 0)%Z; [lia|]. rewrite u64_of_nat by (unfold two64; lia).
    change (size_varint (14 * 8)) with 1. pose proof (sv_le1 (N.of_nat ss)). lia. }
  pose proof (sz_int32_nat 11 (length stepped) ltac:(vm_compute; discriminate) ltac:(lia)) as F5.
  change (size_varint (11 * 8)) with 1 in F5.
  assert (sz_bytes 30 (flat_map (fun i => enc_step (in_step i)) stepped) <= lf (2 * N.of_nat (length stepped))) as F6.
  { unfold sz_bytes. destruct (flat_map (fun i => enc_step (in_step i)) stepped) eqn:E; [unfold lf; lia|].
    rewrite <- E. etransitivity; [apply sz_lenfield_le; vm_compute; discriminate|].
    apply lf_mono. rewrite blen_length, enc_steps_length. lia. }
  (* length-delimited wrappers *)
  pose proof (sz_lenfield_le 20 (size_bitmap (mk_bm false (map is_inner nodes))) ltac:(vm_compute; discriminate)) as L1.
  pose proof (sz_lenfield_le 30 (size_bitmap (mk_bm true (flat_map (node_bits ss mu) ins))) ltac:(vm_compute; discriminate)) as L2.
  pose proof (sz_lenfield_le 31 (size_bitmap (mk_bm false (map (fun i => match node_short mu i with Some _ => true | None => false end) ins))) ltac:(vm_compute; discriminate)) as L3.
  pose proof (sz_lenfield_le 61 (size_bitmap (mk_bm true (map has_step ins))) ltac:(vm_compute; discriminate)) as L4.
  pose proof (lf_mono _ _ S1) as M1. pose proof (lf_mono _ _ S2) as M2.
  pose proof (lf_mono _ _ S3) as M3. pose proof (lf_mono _ _ S4) as M4.
  set (c4 := sz_lenfield 61 (size_bitmap (mk_bm true (map has_step ins)))) in *.
  set (c5 := 0 + sz_int32 11 (Z.of_nat (length stepped)) + 0 + 3 +
             sz_bytes 30 (flat_map (fun i => enc_step (in_step i)) stepped) + c4 + 0).
  pose proof (sz_lenfield_le 38 c5 ltac:(vm_compute; discriminate)) as L5.
  assert (c5 <= 6 + 3 + lf (2 * N.of_nat (length stepped)) + lf (lf (10 * W4) + lf (5 * R4))) as C5 by (unfold c5; lia).
  pose proof (lf_mono _ _ C5) as M5.
  (* everything is linear now *)
  pose proof (lf_scaled (10 * W1)). pose proof (lf_scaled (5 * R1)). pose proof (lf_scaled (lf (10 * W1) + lf (5 * R1))).
  pose proof (lf_scaled (10 * W2)). pose proof (lf_scaled (5 * R2)). pose proof (lf_scaled (lf (10 * W2) + lf (5 * R2))).
  pose proof (lf_scaled (10 * W3)). pose proof (lf_scaled (5 * R3)). pose proof (lf_scaled (lf (10 * W3) + lf (5 * R3))).
  pose proof (lf_scaled (10 * W4)). pose proof (lf_scaled (5 * R4)). pose proof (lf_scaled (lf (10 * W4) + lf (5 * R4))).
  pose proof (lf_scaled (3 * N.of_nat (2 ^ ss))).
  pose proof (lf_scaled (2 * N.of_nat (length stepped))).
  pose proof (lf_scaled (6 + 3 + lf (2 * N.of_nat (length stepped)) + lf (lf (10 * W4) + lf (5 * R4)))).
  lia.
Qed.

End Bound.

(* ---------- C17, size clause ---------- *)
Theorem filter_size_bound o keys T :
  o_inner o = false -> o_leaf o = false ->
  build o keys None = Ok T ->
  (N.of_nat (length keys) < 67108864)%N ->
  (marshal_size T <= 8 * N.of_nat (length keys) + 256)%N.
Proof.
  intros _ _ Hb Hn. unfold marshal_size, encode_trie.
  destruct (t_root T) as [r|] eqn:Hr.
  - destruct (built_counts _ _ _ _ Hb Hr) as (H1 & H2 & H3).
    pose proof (encode_root_size r (length keys) H1 H2 H3 Hn). lia.
  - change (size_slim empty_slim) with 0%N. lia.
Qed.

(* ====================================================================== *)
(* Part 3: prepending a common prefix changes only the root's step.        *)
(* ====================================================================== *)
(* ---------- filter-mode process_subset in named components ---------- *)
Definition cdiffs (es : list ent) : list nat := adj_lcps (map e_nibs es).
Definition cws (es : list ent) : nat := list_min (hd 0 (cdiffs es)) (cdiffs es).
Definition cbig (isbig : bool) (es : list ent) : bool :=
  isbig && (big_threshold <? 1 + length (filter (fun x => x <? even_down (cws es) + 2) (cdiffs es))).
Definition cw (isbig : bool) (es : list ent) : nat := if cbig isbig es then even_down (cws es) else cws es.
Definition clabels (isbig : bool) (es : list ent) : list nat :=
  dedup_adj (map (ent_label (cbig isbig es) (cw isbig es)) (filter e_keep es)).

Lemma process_subset_nf o isbig es f :
  o_inner o = false -> 2 <= length es ->
  process_subset o isbig {| s_ents := es; s_from := f |} =
  if cw isbig es <? f then Err (EPanic 2)
  else if (max_step <? N.of_nat (cw isbig es - f))%N then Err EStepTooLong
  else Ok (DInner (cbig isbig es) (cw isbig es - f) None (clabels isbig es)
                  (split_kids (cbig isbig es) (cw isbig es) (clabels isbig es) es), cbig isbig es).
Proof.
  intros Hi Hl. unfold process_subset. cbn [s_ents s_from].
  destruct es as [|e0 [|e1 r]]; cbn [length] in Hl; try lia.
  rewrite Hi. cbn [negb andb]. cbv zeta.
  fold (cdiffs (e0 :: e1 :: r)). fold (cws (e0 :: e1 :: r)). fold (cbig isbig (e0 :: e1 :: r)).
  fold (cw isbig (e0 :: e1 :: r)). fold (clabels isbig (e0 :: e1 :: r)). reflexivity.
Qed.

(* ---------- prepending a common prefix ---------- *)
Lemma nibs_app a b : nibs (a ++ b) = nibs a ++ nibs b.
Proof. unfold nibs. apply flat_map_app. Qed.

Lemma lcp_app p a b : lcp (p ++ a) (p ++ b) = length p + lcp a b.
Proof. induction p as [|x p IH]; [reflexivity|]. cbn [app lcp length]. rewrite Nat.eqb_refl, IH. reflexivity. Qed.

Lemma adj_lcps_shift p : forall l, adj_lcps (map (app p) l) = map (Nat.add (length p)) (adj_lcps l).
Proof.
  induction l as [|a l IH]; [reflexivity|]. destruct l as [|b l']; [reflexivity|].
  change (map (app p) (a :: b :: l')) with ((p ++ a) :: (p ++ b) :: map (app p) l').
  rewrite !adj_lcps_cons2. cbn [map]. rewrite lcp_app. f_equal. exact IH.
Qed.

Lemma list_min_shift k : forall l d0, list_min (k + d0) (map (Nat.add k) l) = k + list_min d0 l.
Proof.
  induction l as [|x l IH]; intros d0; [reflexivity|]. cbn [map list_min].
  rewrite <- IH. f_equal. lia.
Qed.

Lemma even_down_shift k x : Nat.even k = true -> even_down (k + x) = k + even_down x.
Proof.
  intros H. apply Nat.even_spec in H. destruct H as [m ->]. unfold even_down.
  replace ((2 * m + x) mod 2) with (x mod 2); [lia|].
  rewrite Nat.add_comm, Nat.mul_comm. rewrite Nat.mod_add by lia. reflexivity.
Qed.

Lemma filter_lt_shift k b : forall l,
  length (filter (fun x => x <? k + b) (map (Nat.add k) l)) = length (filter (fun x => x <? b) l).
Proof.
  induction l as [|x l IH]; [reflexivity|]. cbn [map filter].
  replace (k + x <? k + b) with (x <? b).
  - destruct (x <? b); cbn [length]; rewrite IH; reflexivity.
  - destruct (Nat.ltb_spec x b), (Nat.ltb_spec (k + x) (k + b)); try reflexivity; lia.
Qed.

Lemma skipn_app_plus {A} (p l : list A) w : skipn (length p + w) (p ++ l) = skipn w l.
Proof. induction p as [|x p IH]; [reflexivity|]. cbn [length Nat.add app skipn]. exact IH. Qed.

Lemma label_at_shift big p l w : label_at big (p ++ l) (length p + w) = label_at big l w.
Proof. unfold label_at. rewrite skipn_app_plus. reflexivity. Qed.

Section Shift.
Variable P : key.
Definition pnib : list nat := nibs P.
Definition pd : nat := length pnib.

Definition shift_ent (e : ent) : ent :=
  {| e_key := P ++ e_key e; e_nibs := pnib ++ e_nibs e; e_keep := e_keep e; e_idx := e_idx e |}.
Definition shift_sub (s : subset) : subset :=
  {| s_ents := map shift_ent (s_ents s); s_from := pd + s_from s |}.
Definition shift_desc (dd : desc) : desc :=
  match dd with
  | DLeaf tail eidx => DLeaf tail eidx
  | DInner big step pfx labels kids => DInner big step pfx labels (map shift_sub kids)
  end.

Lemma pd_even : Nat.even pd = true.
Proof. unfold pd, pnib. rewrite nibs_length. apply Nat.even_spec. exists (length P). reflexivity. Qed.

Lemma pd_val : pd = 2 * length P.
Proof. unfold pd, pnib. apply nibs_length. Qed.

Lemma map_nibs_shift es : map e_nibs (map shift_ent es) = map (app pnib) (map e_nibs es).
Proof. rewrite !map_map. reflexivity. Qed.

Lemma cdiffs_shift es : cdiffs (map shift_ent es) = map (Nat.add pd) (cdiffs es).
Proof. unfold cdiffs. rewrite map_nibs_shift. apply adj_lcps_shift. Qed.

Lemma cws_shift es : 2 <= length es -> cws (map shift_ent es) = pd + cws es.
Proof.
  intros Hl. unfold cws. rewrite cdiffs_shift.
  assert (cdiffs es <> []) as Hne.
  { unfold cdiffs. destruct es as [|a [|b r]]; cbn [length] in Hl; try lia. cbn [map]. apply adj_lcps_nonempty. }
  destruct (cdiffs es) as [|x l]; [congruence|]. cbn [map hd]. apply (list_min_shift pd (x :: l) x).
Qed.

Lemma cbig_shift isbig es : 2 <= length es -> cbig isbig (map shift_ent es) = cbig isbig es.
Proof.
  intros Hl. unfold cbig. rewrite cws_shift by exact Hl. rewrite cdiffs_shift.
  rewrite even_down_shift by apply pd_even. rewrite <- Nat.add_assoc. rewrite filter_lt_shift. reflexivity.
Qed.

Lemma cw_shift isbig es : 2 <= length es -> cw isbig (map shift_ent es) = pd + cw isbig es.
Proof.
  intros Hl. unfold cw. rewrite cbig_shift, cws_shift by exact Hl.
  destruct (cbig isbig es); [apply even_down_shift; apply pd_even|reflexivity].
Qed.

Lemma ent_label_shift big w e : ent_label big (pd + w) (shift_ent e) = ent_label big w e.
Proof. unfold ent_label, shift_ent. cbn [e_nibs]. apply label_at_shift. Qed.

Lemma filter_keep_shift es : filter e_keep (map shift_ent es) = map shift_ent (filter e_keep es).
Proof.
  induction es as [|e es IH]; [reflexivity|]. cbn [map filter]. cbn [shift_ent e_keep].
  destruct (e_keep e); cbn [map]; rewrite IH; reflexivity.
Qed.

Lemma clabels_shift isbig es : 2 <= length es -> clabels isbig (map shift_ent es) = clabels isbig es.
Proof.
  intros Hl. unfold clabels. rewrite cbig_shift, cw_shift by exact Hl. rewrite filter_keep_shift, map_map.
  f_equal. apply map_ext. intros e. apply ent_label_shift.
Qed.

Lemma drop_while_map {A B} (f : B -> bool) (g : A -> B) l : drop_while f (map g l) = map g (drop_while (fun x => f (g x)) l).
Proof. induction l as [|x l IH]; [reflexivity|]. cbn [map drop_while]. destruct (f (g x)); [exact IH|reflexivity]. Qed.

Lemma take_while_map {A B} (f : B -> bool) (g : A -> B) l : take_while f (map g l) = map g (take_while (fun x => f (g x)) l).
Proof. induction l as [|x l IH]; [reflexivity|]. cbn [map take_while]. destruct (f (g x)); [cbn [map]; rewrite IH|]; reflexivity. Qed.

Lemma drop_while_ext {A} (f g : A -> bool) l : (forall x, f x = g x) -> drop_while f l = drop_while g l.
Proof. intros H. induction l as [|x l IH]; [reflexivity|]. cbn [drop_while]. rewrite H, IH. reflexivity. Qed.

Lemma take_while_ext {A} (f g : A -> bool) l : (forall x, f x = g x) -> take_while f l = take_while g l.
Proof. intros H. induction l as [|x l IH]; [reflexivity|]. cbn [take_while]. rewrite H, IH. reflexivity. Qed.

Lemma split_kids_shift big w : forall labels es,
  split_kids big (pd + w) labels (map shift_ent es) = map shift_sub (split_kids big w labels es).
Proof.
  induction labels as [|lb r IH]; intros es; [reflexivity|].
  cbn [split_kids]. rewrite drop_while_map.
  rewrite (drop_while_ext _ (fun e => negb (Nat.eqb (ent_label big w e) lb))) by (intros x; rewrite ent_label_shift; reflexivity).
  destruct (drop_while (fun e => negb (Nat.eqb (ent_label big w e) lb)) es) as [|e rest].
  - cbn [map]. f_equal.
    + unfold shift_sub. cbn [s_ents s_from map]. f_equal. lia.
    + apply (IH []).
  - cbn [map]. f_equal.
    + unfold shift_sub. cbn [s_ents s_from map]. f_equal; [|lia]. f_equal.
      rewrite take_while_map. f_equal. apply take_while_ext. intros x. rewrite ent_label_shift. reflexivity.
    + rewrite drop_while_map.
      rewrite (drop_while_ext _ (fun e0 => Nat.eqb (ent_label big w e0) lb)) by (intros x; rewrite ent_label_shift; reflexivity).
      apply IH.
Qed.

Definition rmap (r : res (desc * bool)) : res (desc * bool) :=
  match r with Ok (dd, b) => Ok (shift_desc dd, b) | Err e => Err e end.

Lemma ltb_add_cancel k a b : (k + a <? k + b) = (a <? b).
Proof. destruct (Nat.ltb_spec a b), (Nat.ltb_spec (k + a) (k + b)); try reflexivity; lia. Qed.

Lemma process_subset_shift o isbig s :
  o_inner o = false -> o_leaf o = false ->
  process_subset o isbig (shift_sub s) = rmap (process_subset o isbig s).
Proof.
  intros Hi Hlf. destruct s as [es f].
  destruct es as [|e0 [|e1 r]].
  - reflexivity.
  - unfold process_subset, shift_sub. cbn [s_ents s_from map rmap shift_desc].
    unfold leaf_tail. rewrite Hlf. reflexivity.
  - unfold shift_sub. cbn [s_ents s_from].
    set (es := e0 :: e1 :: r).
    assert (2 <= length es) as Hl by (unfold es; cbn; lia).
    rewrite (process_subset_nf o isbig es f Hi Hl).
    rewrite (process_subset_nf o isbig (map shift_ent es) (pd + f) Hi) by (rewrite map_length; exact Hl).
    rewrite cw_shift, cbig_shift, clabels_shift by exact Hl.
    rewrite ltb_add_cancel.
    replace (pd + cw isbig es - (pd + f)) with (cw isbig es - f) by lia.
    destruct (cw isbig es <? f); [reflexivity|].
    destruct (max_step <? N.of_nat (cw isbig es - f))%N; [reflexivity|].
    cbn [rmap shift_desc]. rewrite split_kids_shift. reflexivity.
Qed.

Lemma process_level_shift o : forall ss isbig,
  o_inner o = false -> o_leaf o = false ->
  process_level o isbig (map shift_sub ss) =
  match process_level o isbig ss with Ok (ds, b) => Ok (map shift_desc ds, b) | Err e => Err e end.
Proof.
  induction ss as [|s r IH]; intros isbig Hi Hlf; [reflexivity|].
  cbn [map process_level]. rewrite process_subset_shift by assumption.
  destruct (process_subset o isbig s) as [[dd b]|e]; cbn [rmap bind]; [|reflexivity].
  rewrite IH by assumption. destruct (process_level o b r) as [[ds b']|e]; cbn [bind]; reflexivity.
Qed.

Lemma assemble_shift : forall ds id cid lord forest,
  assemble (map shift_desc ds) id cid lord forest = assemble ds id cid lord forest.
Proof.
  induction ds as [|dd ds IH]; intros id cid lord forest; [reflexivity|].
  destruct dd as [tail eidx|big step pfx labels kids]; cbn [map shift_desc assemble].
  - rewrite IH. reflexivity.
  - rewrite map_length, IH. reflexivity.
Qed.

Lemma flat_map_leaf_idx_shift ds : flat_map leaf_idx_of (map shift_desc ds) = flat_map leaf_idx_of ds.
Proof. induction ds as [|dd ds IH]; [reflexivity|]. cbn [map flat_map]. rewrite IH. destruct dd; reflexivity. Qed.

Lemma flat_map_kids_shift ds : flat_map kids_of (map shift_desc ds) = map shift_sub (flat_map kids_of ds).
Proof.
  induction ds as [|dd ds IH]; [reflexivity|]. cbn [map flat_map]. rewrite IH, map_app. destruct dd; reflexivity.
Qed.

Lemma build_levels_unfold f o isbig base lbase ss : ss <> [] ->
  build_levels (S f) o isbig base lbase ss =
  (do (ds, b) <- process_level o isbig ss;
   let lidx := flat_map leaf_idx_of ds in
   let cbase := base + length ss in
   do (forest, lidx') <- build_levels f o b cbase (lbase + length lidx) (flat_map kids_of ds);
   Ok (assemble ds base cbase lbase forest, lidx ++ lidx')).
Proof. destruct ss; [congruence|reflexivity]. Qed.

Lemma build_levels_shift o : forall f isbig base lbase ss,
  o_inner o = false -> o_leaf o = false ->
  build_levels f o isbig base lbase (map shift_sub ss) = build_levels f o isbig base lbase ss.
Proof.
  induction f as [|f IH]; intros isbig base lbase ss Hi Hlf.
  - destruct ss; reflexivity.
  - destruct ss as [|s0 r0]; [reflexivity|].
    rewrite (build_levels_unfold f o isbig base lbase (s0 :: r0)) by discriminate.
    rewrite (build_levels_unfold f o isbig base lbase (map shift_sub (s0 :: r0))) by discriminate.
    rewrite process_level_shift by assumption.
    destruct (process_level o isbig (s0 :: r0)) as [[ds b]|e]; cbn [bind]; [|reflexivity].
    cbv zeta. rewrite flat_map_leaf_idx_shift, flat_map_kids_shift, map_length, IH by assumption.
    destruct (build_levels f o b _ _ (flat_map kids_of ds)) as [[forest lidx']|e]; cbn [bind]; [|reflexivity].
    rewrite assemble_shift. reflexivity.
Qed.

End Shift.

(* ---------- fuel ---------- *)
Lemma build_levels_fuel o : forall f isbig base lbase ss x k,
  build_levels f o isbig base lbase ss = Ok x -> build_levels (f + k) o isbig base lbase ss = Ok x.
Proof.
  induction f as [|f IH]; intros isbig base lbase ss x k H.
  - destruct ss; [|discriminate]. cbn in H. inversion H; subst. cbn [Nat.add]. destruct k; reflexivity.
  - destruct ss as [|s0 r0]; [exact H|].
    cbn [Nat.add]. rewrite build_levels_unfold in * by discriminate.
    destruct (process_level o isbig (s0 :: r0)) as [[ds b]|e]; cbn [bind] in H |- *; [|discriminate].
    cbv zeta in H |- *.
    destruct (build_levels f o b _ _ (flat_map kids_of ds)) as [[forest lidx']|e] eqn:E; cbn [bind] in H; [|discriminate].
    rewrite (IH _ _ _ _ _ k E). cbn [bind]. exact H.
Qed.

Lemma build_levels_agree o f f' isbig base lbase ss x y :
  build_levels f o isbig base lbase ss = Ok x -> build_levels f' o isbig base lbase ss = Ok y -> x = y.
Proof.
  intros H1 H2. apply (build_levels_fuel o _ _ _ _ _ _ f') in H1. apply (build_levels_fuel o _ _ _ _ _ _ f) in H2.
  rewrite Nat.add_comm in H2. rewrite H1 in H2. inversion H2. reflexivity.
Qed.

(* ---------- the prefixed build ---------- *)
Definition bump_step (k : nat) (t : tree) : tree :=
  match t with
  | Inner id big step pfx fc ch => Inner id big (k + step) pfx fc ch
  | Leaf _ _ _ _ => t
  end.

Lemma mk_ents_shift P : forall keys b keep,
  mk_ents b (map (app P) keys) keep = map (shift_ent P) (mk_ents b keys keep).
Proof.
  induction keys as [|k r IH]; intros b keep; [reflexivity|].
  cbn [map mk_ents]. rewrite IH. f_equal. unfold shift_ent, pnib. cbn [e_key e_nibs e_keep e_idx].
  rewrite nibs_app. reflexivity.
Qed.

Lemma root_level o P f f' ents x x' :
  o_inner o = false -> o_leaf o = false -> ents <> [] ->
  build_levels (S f) o true 0 0 [{| s_ents := ents; s_from := 0 |}] = Ok x ->
  build_levels (S f') o true 0 0 [{| s_ents := map (shift_ent P) ents; s_from := 0 |}] = Ok x' ->
  fst x' = map (bump_step (2 * length P)) (fst x) /\ snd x' = snd x /\ length (fst x) = 1.
Proof.
  intros Hi Hlf Hne HT HT'.
  rewrite build_levels_unfold in HT by discriminate. rewrite build_levels_unfold in HT' by discriminate.
  cbn [process_level] in HT, HT'.
  destruct ents as [|e0 [|e1 er]]; [congruence| |].
  - (* a single key: both are a leaf *)
    unfold process_subset in HT, HT'. cbn [s_ents s_from map] in HT, HT'.
    unfold leaf_tail in HT, HT'. rewrite Hlf in HT, HT'. cbn [bind process_level] in HT, HT'.
    cbv zeta in HT, HT'. cbn [flat_map kids_of leaf_idx_of app length] in HT, HT'.
    destruct f, f'; cbn [build_levels bind assemble] in HT, HT'; inversion HT; inversion HT'; subst; cbn; auto.
  - set (es := e0 :: e1 :: er) in *.
    assert (2 <= length es) as Hl by (unfold es; cbn; lia).
    rewrite (process_subset_nf o true es 0 Hi Hl) in HT.
    rewrite (process_subset_nf o true (map (shift_ent P) es) 0 Hi) in HT' by (rewrite map_length; exact Hl).
    rewrite cw_shift, cbig_shift, clabels_shift in HT' by exact Hl.
    change (cw true es <? 0) with false in HT. change (pd P + cw true es <? 0) with false in HT'. cbv iota in HT, HT'.
    destruct (max_step <? N.of_nat (cw true es - 0))%N; [discriminate|].
    destruct (max_step <? N.of_nat (pd P + cw true es - 0))%N; [discriminate|].
    cbn [bind process_level] in HT, HT'. cbv zeta in HT, HT'.
    cbn [flat_map kids_of leaf_idx_of app length] in HT, HT'. rewrite !app_nil_r in HT, HT'.
    rewrite split_kids_shift in HT'. rewrite build_levels_shift in HT' by assumption.
    destruct (build_levels f o (cbig true es) _ _ _) as [[forest lidx]|] eqn:E1; cbn [bind] in HT; [|discriminate].
    destruct (build_levels f' o (cbig true es) _ _ _) as [[forest' lidx']|] eqn:E2; cbn [bind] in HT'; [|discriminate].
    pose proof (build_levels_agree _ _ _ _ _ _ _ _ _ E1 E2) as Heq. inversion Heq; subst forest' lidx'.
    cbn [assemble] in HT, HT'. rewrite map_length in HT'.
    inversion HT; inversion HT'; subst. cbn [fst snd map bump_step length].
    rewrite pd_val. rewrite !Nat.sub_0_r. auto.
Qed.

Theorem prefix_same_tree o P keys T T' :
  o_inner o = false -> o_leaf o = false ->
  build o keys None = Ok T -> build o (map (app P) keys) None = Ok T' ->
  t_root T' = option_map (bump_step (2 * length P)) (t_root T) /\
  t_innerpfx T' = t_innerpfx T /\ t_leafpfx T' = t_leafpfx T /\ t_leaves T' = t_leaves T.
Proof.
  intros Hi Hlf HT HT'.
  destruct keys as [|k0 kr].
  { cbn in HT, HT'. inversion HT; inversion HT'; subst. cbn. auto. }
  rewrite build_unfold in HT by discriminate. rewrite build_unfold in HT' by discriminate.
  destruct (check_order (k0 :: kr)); [discriminate|].
  destruct (check_order (map (app P) (k0 :: kr))); [discriminate|].
  cbv zeta in HT, HT'. rewrite map_length in HT'.
  rewrite mk_ents_shift in HT'.
  remember (max_nibs (k0 :: kr) + 3) as f eqn:Ef. remember (max_nibs (map (app P) (k0 :: kr)) + 3) as f' eqn:Ef'.
  destruct f as [|f]; [lia|]. destruct f' as [|f']; [lia|].
  destruct (build_levels (S f) o true 0 0 _) as [x|] eqn:E1; cbn [bind] in HT; [|discriminate].
  destruct (build_levels (S f') o true 0 0 _) as [x'|] eqn:E2; cbn [bind] in HT'; [|discriminate].
  destruct (root_level o P f f' (mk_ents 0 (k0 :: kr) (to_keep o (length (k0 :: kr)) None)) x x' Hi Hlf) as (H1 & H2 & H3);
    [cbn [mk_ents]; discriminate|exact E1|exact E2|].
  destruct x as [forest lidx], x' as [forest' lidx']. cbn [fst snd] in *. subst forest' lidx'.
  destruct forest as [|r [|r2 rest]]; cbn [length] in H3; try lia.
  cbn [map] in HT'. inversion HT; inversion HT'; subst. cbn. auto.
Qed.

(* ====================================================================== *)
(* Part 4: the size depends on the root's step only through the step entry. *)
(* ====================================================================== *)
(* ---------- the message as a function of the node-type bits and the inner nodes ---------- *)
Definition enc (nb : list bool) (ins : list inode) : slim :=
  let bigcnt := big_count ins in
  let tbls := sorted_tbls (cands (skipn bigcnt ins)) in
  let ss := find_short_size tbls in
  let mu := most_used tbls ss in
  let stepped := filter has_step ins in
  mkSlim (Z.of_nat bigcnt) (Z.of_nat ss)
         (Some (mk_bm false nb))
         (Some (mk_bm true (flat_map (node_bits ss mu) ins)))
         (Some (mk_bm false (map (fun i => match node_short mu i with Some _ => true | None => false end) ins)))
         (short_table tbls ss)
         (Some (mkVlen 0 (Z.of_nat (length stepped)) None 2
                       (flat_map (fun i => enc_step (in_step i)) stepped)
                       (Some (mk_bm true (map has_step ins))) []))
         None None [].

Lemma encode_root_enc r : encode_root r = enc (map is_inner (bfs r)) (inners r).
Proof. reflexivity. Qed.

Lemma bfs_cons r : bfs r = r :: levels (height r) (flat_map children [r]).
Proof. reflexivity. Qed.

Lemma bfs_bump k r : bfs (bump_step k r) = bump_step k r :: tl (bfs r).
Proof. destruct r; reflexivity. Qed.

Lemma bfs_self r : bfs r = r :: tl (bfs r).
Proof. reflexivity. Qed.

(* the step of an inner node matters only through "is it zero" and the two step bytes *)
Lemma enc_size_step nb b s s' l tl :
  (s =? 0) = (s' =? 0) ->
  size_slim (enc nb ({| in_big := b; in_step := s'; in_labels := l |} :: tl)) =
  size_slim (enc nb ({| in_big := b; in_step := s; in_labels := l |} :: tl)).
Proof.
  intros Hs. unfold enc. cbv zeta.
  set (i := {| in_big := b; in_step := s; in_labels := l |}).
  set (i' := {| in_big := b; in_step := s'; in_labels := l |}).
  assert (big_count (i' :: tl) = big_count (i :: tl)) as -> by (unfold big_count, i, i'; cbn [filter in_big]; destruct b; reflexivity).
  assert (forall n, cands (skipn n (i' :: tl)) = cands (skipn n (i :: tl))) as Hc by (intros [|n]; reflexivity).
  rewrite Hc.
  set (tbls := sorted_tbls (cands (skipn (big_count (i :: tl)) (i :: tl)))).
  set (ss := find_short_size tbls). set (mu := most_used tbls ss).
  assert (flat_map (node_bits ss mu) (i' :: tl) = flat_map (node_bits ss mu) (i :: tl)) as -> by reflexivity.
  assert (map (fun i0 => match node_short mu i0 with Some _ => true | None => false end) (i' :: tl) =
          map (fun i0 => match node_short mu i0 with Some _ => true | None => false end) (i :: tl)) as -> by reflexivity.
  assert (map has_step (i' :: tl) = map has_step (i :: tl)) as ->.
  { cbn [map]. f_equal. unfold has_step, i, i'. cbn [in_step]. rewrite Hs. reflexivity. }
  set (F := filter has_step tl).
  assert (filter has_step (i :: tl) = if negb (s =? 0) then i :: F else F) as -> by reflexivity.
  assert (filter has_step (i' :: tl) = if negb (s =? 0) then i' :: F else F) as ->.
  { cbn [filter]. unfold has_step at 1. unfold i' at 1. cbn [in_step]. rewrite <- Hs. reflexivity. }
  destruct (negb (s =? 0)); [|reflexivity].
  unfold size_slim. cbn [s_bigcnt s_shortsize s_nodetype s_inners s_shortbm s_shorttable s_innerpref s_leafpref s_leaves s_unk].
  unfold sz_msg at 4 8. unfold size_vlen. cbn [vl_n vl_eltcnt vl_position vl_fixed vl_bytes vl_presence vl_unk].
  subst i i'. cbn [length flat_map enc_step app in_step]. unfold sz_bytes, blen. cbn [length]. reflexivity.
Qed.

Definition root_has_step (t : tree) : bool :=
  match t with Inner _ _ step _ _ _ => negb (step =? 0) | Leaf _ _ _ _ => true end.

Lemma encode_root_bump k r :
  root_has_step r = true -> size_slim (encode_root (bump_step k r)) = size_slim (encode_root r).
Proof.
  intros H. rewrite !encode_root_enc. unfold inners. rewrite bfs_bump. rewrite (bfs_self r) at 3 4.
  destruct r as [id ord tail eidx|id big step pfx fc ch]; [reflexivity|].
  cbn [bump_step map is_inner flat_map inode_of app].
  apply enc_size_step. cbn [root_has_step] in H.
  destruct (Nat.eqb_spec step 0); [discriminate|]. destruct (Nat.eqb_spec (k + step) 0); [lia|reflexivity].
Qed.

Theorem prefix_size_equal o P keys T T' :
  o_inner o = false -> o_leaf o = false ->
  build o keys None = Ok T -> build o (map (app P) keys) None = Ok T' ->
  (forall r, t_root T = Some r -> root_has_step r = true) ->
  marshal_size T' = marshal_size T.
Proof.
  intros Hi Hlf HT HT' Hstep.
  destruct (prefix_same_tree o P keys T T' Hi Hlf HT HT') as (Hr & _).
  unfold marshal_size, encode_trie. rewrite Hr.
  destruct (t_root T) as [r|]; [|reflexivity]. cbn [option_map].
  rewrite encode_root_bump; [reflexivity|]. apply Hstep. reflexivity.
Qed.

(* ====================================================================== *)
(* Part 5: the true bound on the growth when the root gains a step:          *)
(* one byte per entry of the r128 rank index of the presence bitmap + 9.     *)
(* ====================================================================== *)
Section Growth.
Local Open Scope N_scope.

Lemma size_var_mono : forall f a b, a <= b -> size_var f a <= size_var f b.
Proof.
  induction f as [|f IH]; intros a b H; cbn [size_var]; [lia|].
  destruct (N.ltb_spec a 128), (N.ltb_spec b 128); try lia.
  assert (a / 128 <= b / 128) as Hq by (apply N.div_le_mono; lia). specialize (IH _ _ Hq). lia.
Qed.

Lemma size_var_fuel : forall f x, size_var f x <= size_var (S f) x.
Proof.
  induction f as [|f IH]; intros x; [cbn; destruct (x <? 128); lia|].
  change (size_var (S (S f)) x) with (if x <? 128 then 1 else 1 + size_var (S f) (x / 128)).
  change (size_var (S f) x) with (if x <? 128 then 1 else 1 + size_var f (x / 128)).
  destruct (x <? 128); [lia|]. specialize (IH (x / 128)). lia.
Qed.

Lemma sv_grow x d : d <= 127 * x + 127 -> size_varint (x + d) <= size_varint x + 1.
Proof.
  intros H. unfold size_varint.
  etransitivity; [apply (size_var_mono 10 (x + d) (128 * x + 127)); lia|].
  change (size_var 10 (128 * x + 127)) with (if 128 * x + 127 <? 128 then 1 else 1 + size_var 9 ((128 * x + 127) / 128)).
  destruct (N.ltb_spec (128 * x + 127) 128).
  - pose proof (size_var_le 10 x). destruct (N.ltb_spec x 128); cbn [size_var]; lia.
  - replace ((128 * x + 127) / 128) with x by lia. pose proof (size_var_fuel 9 x). lia.
Qed.

Lemma sv_mono a b : a <= b -> size_varint a <= size_varint b.
Proof. apply size_var_mono. Qed.

Lemma size_var_odd : forall f v, size_var f (2 * v + 1) = size_var f (2 * v).
Proof.
  induction f as [|f IH]; intros v; cbn [size_var]; [reflexivity|].
  destruct (N.ltb_spec (2 * v + 1) 128), (N.ltb_spec (2 * v) 128); try lia.
  replace ((2 * v + 1) / 128) with (2 * v / 128) by lia. reflexivity.
Qed.

Lemma sv_pos x : 1 <= size_varint x.
Proof. unfold size_varint. cbn [size_var]. destruct (x <? 128); lia. Qed.

Lemma sz_lenfield_grow tag n d : d <= 127 * n + 127 -> sz_lenfield tag (n + d) <= sz_lenfield tag n + d + 1.
Proof. unfold sz_lenfield. intros H. pose proof (sv_grow n d H). lia. Qed.

Lemma sz_lenfield_mono tag a b : a <= b -> sz_lenfield tag a <= sz_lenfield tag b.
Proof. unfold sz_lenfield. intros H. pose proof (sv_mono a b H). lia. Qed.

End Growth.

(* ---------- the rank index when the first bit is set ---------- *)
Lemma rank128_shift : forall n cs acc, length cs <= n -> rank128 (S acc) cs = map S (rank128 acc cs).
Proof.
  induction n as [|n IH]; intros cs acc Hn.
  - destruct cs; [reflexivity|cbn in Hn; lia].
  - destruct cs as [|c1 [|c2 r]]; [reflexivity|reflexivity|].
    cbn [rank128 map]. f_equal. cbn [length] in Hn. rewrite <- IH by lia. reflexivity.
Qed.

Lemma chunks64_cons b0 H :
  chunks64 (b0 :: H) = (b0 :: firstn 63 H) :: chunks (length H) (skipn 63 H).
Proof. reflexivity. Qed.

Lemma rank128_first_bit c rest :
  exists tl, rank128 0 ((false :: c) :: rest) = 0 :: tl /\ rank128 0 ((true :: c) :: rest) = 0 :: map S tl.
Proof.
  destruct rest as [|c2 r].
  - exists []. split; reflexivity.
  - exists (rank128 (count_true c + count_true c2) r). cbn [rank128 count_true Nat.add]. split; [reflexivity|].
    f_equal. apply (rank128_shift (length r)). lia.
Qed.

Section Delta.
Local Open Scope N_scope.

Lemma bits_val_cons b c : bits_val (b :: c) = (if b then 1 else 0) + 2 * bits_val c.
Proof. reflexivity. Qed.

Lemma sum_sv_succ : forall tl : list nat,
  Forall (fun x => N.of_nat x + 1 < two64) tl ->
  sum_N (map size_varint (map u64_of_int32 (map Z.of_nat (map S tl)))) <=
  sum_N (map size_varint (map u64_of_int32 (map Z.of_nat tl))) + N.of_nat (length tl).
Proof.
  induction 1 as [|x tl Hx _ IH]; [cbn; lia|].
  cbn [map sum_N length]. rewrite !u64_of_nat by lia.
  replace (N.of_nat (S x)) with (N.of_nat x + 1) by lia.
  pose proof (sv_grow (N.of_nat x) 1 ltac:(lia)). lia.
Qed.

Lemma sum_sv_ge_len vs : N.of_nat (length vs) <= sum_N (map size_varint vs).
Proof. induction vs as [|v vs IH]; [cbn; lia|]. cbn [map sum_N length]. pose proof (sv_pos v). lia. Qed.

Lemma mk_bm_first_bit H :
  N.of_nat (length H) + 2 < two64 ->
  let R := N.of_nat (length (rank128 0 (chunks64 (false :: H)))) in
  size_bitmap (mk_bm true (true :: H)) <= size_bitmap (mk_bm true (false :: H)) + R /\
  R <= size_bitmap (mk_bm true (false :: H)) /\
  length (rank128 0 (chunks64 (true :: H))) = length (rank128 0 (chunks64 (false :: H))).
Proof.
  intros Hlen. cbv zeta. unfold mk_bm. rewrite !chunks64_cons.
  set (c := firstn 63 H). set (rest := chunks (length H) (skipn 63 H)).
  destruct (rank128_first_bit c rest) as (tl & E0 & E1). rewrite E0, E1.
  assert (Forall (fun x => (x <= length H + 1)%nat) (0%nat :: tl)) as Hb.
  { rewrite <- E0. destruct (rank128_facts (length ((false :: c) :: rest)) ((false :: c) :: rest) 0 (le_n _)) as [_ Hf].
    eapply Forall_impl; [|exact Hf]. cbn beta. intros x Hx.
    pose proof (chunks64_total (false :: H)) as Ht. rewrite chunks64_cons in Ht. fold c rest in Ht. cbn [length] in Ht. lia. }
  inversion Hb as [|? ? _ Hb']; subst.
  unfold size_bitmap. cbn [bm_words bm_rank bm_select bm_unk map].
  change (sz_packed 40 []) with 0. change (blen []) with 0. rewrite !N.add_0_r.
  unfold sz_packed. cbn [map sum_N].
  rewrite !bits_val_cons. rewrite (N.add_comm 1 (2 * bits_val c)). rewrite N.add_0_l.
  unfold size_varint at 1. rewrite size_var_odd. fold (size_varint (2 * bits_val c)).
  set (wsum := size_varint (2 * bits_val c) + sum_N (map size_varint (map bits_val rest))).
  set (S0 := sum_N (map size_varint (map u64_of_int32 (map Z.of_nat tl)))).
  set (S1 := sum_N (map size_varint (map u64_of_int32 (map Z.of_nat (map S tl))))).
  assert (S1 <= S0 + N.of_nat (length tl)) as HS.
  { apply sum_sv_succ. eapply Forall_impl; [|exact Hb']. cbn beta. intros x Hx. lia. }
  assert (N.of_nat (length tl) <= S0) as HL.
  { unfold S0. etransitivity; [|apply sum_sv_ge_len]. rewrite !map_length. lia. }
  change (u64_of_int32 (Z.of_nat 0)) with 0. change (size_varint 0) with 1.
  cbn [length]. rewrite map_length.
  pose proof (sz_lenfield_mono 30 (1 + S1) (1 + S0 + N.of_nat (length tl)) ltac:(lia)) as M1.
  pose proof (sz_lenfield_grow 30 (1 + S0) (N.of_nat (length tl)) ltac:(lia)) as M2.
  assert (1 + S0 <= sz_lenfield 30 (1 + S0)) as M3 by (unfold sz_lenfield; lia).
  repeat split; try lia.
Qed.

Lemma sz_int32_succ tag m :
  N.of_nat m + 1 < two64 -> size_varint (tag * 8) <= 1 ->
  sz_int32 tag (Z.of_nat (S m)) <= sz_int32 tag (Z.of_nat m) + 2.
Proof.
  intros Hm Ht. unfold sz_int32.
  destruct (Z.eqb_spec (Z.of_nat (S m)) 0); [lia|].
  rewrite u64_of_nat by lia. replace (N.of_nat (S m)) with (N.of_nat m + 1) by lia.
  destruct (Z.eqb_spec (Z.of_nat m) 0) as [E|E].
  - assert (m = 0%nat) as -> by lia. change (size_varint (N.of_nat 0 + 1)) with 1. lia.
  - rewrite u64_of_nat by lia. pose proof (sv_grow (N.of_nat m) 1 ltac:(lia)). lia.
Qed.

Lemma sz_bytes_two (a b : byte) X : sz_bytes 30 (a :: b :: X) <= sz_bytes 30 X + 5.
Proof.
  unfold sz_bytes. destruct X as [|x X'].
  - vm_compute. discriminate.
  - set (L := x :: X'). unfold blen. cbn [length].
    replace (N.of_nat (S (S (length L)))) with (N.of_nat (length L) + 2) by lia.
    pose proof (sz_lenfield_grow 30 (N.of_nat (length L)) 2 ltac:(lia)). lia.
Qed.

Lemma vlen_delta m X a b pres pres' R :
  size_bitmap pres' <= size_bitmap pres + R -> R <= size_bitmap pres -> N.of_nat m + 1 < two64 ->
  size_vlen (mkVlen 0 (Z.of_nat (S m)) None 2 (a :: b :: X) (Some pres') []) <=
  size_vlen (mkVlen 0 (Z.of_nat m) None 2 X (Some pres) []) + R + 8 /\
  R <= size_vlen (mkVlen 0 (Z.of_nat m) None 2 X (Some pres) []).
Proof.
  intros H1 H2 Hm. unfold size_vlen. cbn [vl_n vl_eltcnt vl_position vl_fixed vl_bytes vl_presence vl_unk].
  unfold sz_msg.
  pose proof (sz_int32_succ 11 m Hm ltac:(vm_compute; discriminate)) as F1.
  pose proof (sz_bytes_two a b X) as F2.
  pose proof (sz_lenfield_mono 61 _ _ H1) as F3.
  pose proof (sz_lenfield_grow 61 (size_bitmap pres) R ltac:(lia)) as F4.
  assert (size_bitmap pres <= sz_lenfield 61 (size_bitmap pres)) as F5 by (unfold sz_lenfield; lia).
  split; lia.
Qed.

Lemma enc_delta nb b s' l tl :
  N.of_nat (length tl) + 2 < two64 ->
  let i := {| in_big := b; in_step := 0; in_labels := l |} in
  let i' := {| in_big := b; in_step := S s'; in_labels := l |} in
  size_slim (enc nb (i' :: tl)) <=
  size_slim (enc nb (i :: tl)) + N.of_nat (length (rank128 0 (chunks64 (map has_step (i :: tl))))) + 9.
Proof.
  intros Hlen. cbv zeta. unfold enc. cbv zeta.
  set (i := {| in_big := b; in_step := 0; in_labels := l |}).
  set (i' := {| in_big := b; in_step := S s'; in_labels := l |}).
  assert (big_count (i' :: tl) = big_count (i :: tl)) as -> by (unfold big_count, i, i'; cbn [filter in_big]; destruct b; reflexivity).
  assert (forall n, cands (skipn n (i' :: tl)) = cands (skipn n (i :: tl))) as Hc by (intros [|n]; reflexivity).
  rewrite Hc.
  set (tbls := sorted_tbls (cands (skipn (big_count (i :: tl)) (i :: tl)))).
  set (ss := find_short_size tbls). set (mu := most_used tbls ss).
  assert (flat_map (node_bits ss mu) (i' :: tl) = flat_map (node_bits ss mu) (i :: tl)) as -> by reflexivity.
  assert (map (fun i0 => match node_short mu i0 with Some _ => true | None => false end) (i' :: tl) =
          map (fun i0 => match node_short mu i0 with Some _ => true | None => false end) (i :: tl)) as -> by reflexivity.
  set (F := filter has_step tl). set (H := map has_step tl).
  assert (filter has_step (i :: tl) = F) as -> by reflexivity.
  assert (filter has_step (i' :: tl) = i' :: F) as -> by reflexivity.
  assert (map has_step (i :: tl) = false :: H) as -> by reflexivity.
  assert (map has_step (i' :: tl) = true :: H) as -> by reflexivity.
  assert (N.of_nat (length H) + 2 < two64) as HlenH by (unfold H; rewrite map_length; exact Hlen).
  destruct (mk_bm_first_bit H HlenH) as (B1 & B2 & _). cbv zeta in B1, B2.
  set (R := N.of_nat (length (rank128 0 (chunks64 (false :: H))))) in *.
  assert (length F <= length tl)%nat as HF.
  { unfold F. rewrite length_filter, length_lsum. unfold lsum. clear. induction tl as [|x r IH]; cbn [map sum_list]; [lia|]. destruct (has_step x); lia. }
  cbn [length flat_map]. unfold i' at 1. cbn [in_step enc_step app].
  destruct (vlen_delta (length F) (flat_map (fun i0 => enc_step (in_step i0)) F)
              (byte_of_N (N.of_nat (S s') / 256)) (byte_of_N (N.of_nat (S s')))
              (mk_bm true (false :: H)) (mk_bm true (true :: H)) R B1 B2 ltac:(lia)) as [V1 V2].
  unfold size_slim. cbn [s_bigcnt s_shortsize s_nodetype s_inners s_shortbm s_shorttable s_innerpref s_leafpref s_leaves s_unk].
  unfold sz_msg.
  pose proof (sz_lenfield_mono 38 _ _ V1) as M1.
  set (v := size_vlen (mkVlen 0 (Z.of_nat (length F)) None 2 (flat_map (fun i0 => enc_step (in_step i0)) F) (Some (mk_bm true (false :: H))) [])) in *.
  pose proof (sz_lenfield_grow 38 v (R + 8) ltac:(lia)) as M2.
  replace (v + R + 8) with (v + (R + 8)) in M1 by lia.
  lia.
Qed.

End Delta.

(* ---------- the true bound on the growth under a common prefix ---------- *)
Definition presence_rank_entries (T : trie) : nat :=
  match t_root T with
  | Some r => length (rank128 0 (chunks64 (map has_step (inners r))))
  | None => 0
  end.

Lemma presence_rank_entries_le r :
  128 * length (rank128 0 (chunks64 (map has_step (inners r)))) <= inner_count r + 191.
Proof.
  set (bs := map has_step (inners r)).
  destruct (rank128_facts (length (chunks64 bs)) (chunks64 bs) 0 (le_n _)) as [H _].
  pose proof (chunks_count (length bs) bs) as H2. fold (chunks64 bs) in H2.
  unfold bs in H2 at 2. rewrite map_length in H2. unfold inner_count. lia.
Qed.

Lemma inners_inner id big step pfx fc ch :
  inners (Inner id big step pfx fc ch) =
  {| in_big := big; in_step := step; in_labels := map fst ch |}
    :: flat_map inode_of (List.tl (bfs (Inner id big step pfx fc ch))).
Proof. reflexivity. Qed.

Lemma inners_bump k id big step pfx fc ch :
  inners (bump_step k (Inner id big step pfx fc ch)) =
  {| in_big := big; in_step := k + step; in_labels := map fst ch |}
    :: flat_map inode_of (List.tl (bfs (Inner id big step pfx fc ch))).
Proof. unfold inners. rewrite bfs_bump. reflexivity. Qed.

Lemma nb_bump k r : map is_inner (bfs (bump_step k r)) = map is_inner (bfs r).
Proof. rewrite bfs_bump. destruct r; reflexivity. Qed.

Theorem prefix_delta_bound o P keys T T' :
  o_inner o = false -> o_leaf o = false ->
  build o keys None = Ok T -> build o (map (app P) keys) None = Ok T' ->
  (N.of_nat (length keys) < 67108864)%N ->
  (marshal_size T' <= marshal_size T + N.of_nat (presence_rank_entries T) + 9)%N.
Proof.
  intros Hi Hlf HT HT' Hn.
  destruct (prefix_same_tree o P keys T T' Hi Hlf HT HT') as (Hr & _).
  unfold marshal_size, encode_trie, presence_rank_entries. rewrite Hr.
  destruct (t_root T) as [r|] eqn:Er; cbn [option_map]; [|lia].
  destruct (built_counts _ _ _ _ HT Er) as (_ & _ & Hc).
  destruct r as [id ord tail eidx|id big step pfx fc ch]; [cbn [bump_step]; lia|].
  rewrite !encode_root_enc, nb_bump, inners_bump. unfold inner_count in Hc. rewrite inners_inner in Hc |- *.
  cbn [length] in Hc.
  set (nb := map is_inner (bfs (Inner id big step pfx fc ch))).
  set (tl := flat_map inode_of (List.tl (bfs (Inner id big step pfx fc ch)))) in *.
  destruct step as [|st].
  - destruct (2 * length P) as [|k'] eqn:Ek.
    + cbn [Nat.add]. lia.
    + rewrite Nat.add_0_r.
      pose proof (enc_delta nb big k' (map fst ch) tl ltac:(unfold two64; lia)) as H.
      cbv zeta in H. lia.
  - rewrite (enc_size_step nb big (S st) (2 * length P + S st) (map fst ch) tl); [lia|].
    destruct (Nat.eqb_spec (2 * length P + S st) 0); [lia|reflexivity].
Qed.

(* ---------- ... and the size never shrinks ---------- *)
Section Lower.
Local Open Scope N_scope.

Lemma sum_sv_succ_ge : forall tl : list nat,
  Forall (fun x => N.of_nat x + 1 < two64) tl ->
  sum_N (map size_varint (map u64_of_int32 (map Z.of_nat tl))) <=
  sum_N (map size_varint (map u64_of_int32 (map Z.of_nat (map S tl)))).
Proof.
  induction 1 as [|x tl Hx _ IH]; [cbn; lia|].
  cbn [map sum_N]. rewrite !u64_of_nat by lia.
  pose proof (sv_mono (N.of_nat x) (N.of_nat (S x)) ltac:(lia)). lia.
Qed.

Lemma mk_bm_first_bit_ge H :
  N.of_nat (length H) + 2 < two64 ->
  size_bitmap (mk_bm true (false :: H)) <= size_bitmap (mk_bm true (true :: H)).
Proof.
  intros Hlen. unfold mk_bm. rewrite !chunks64_cons.
  set (c := firstn 63 H). set (rest := chunks (length H) (skipn 63 H)).
  destruct (rank128_first_bit c rest) as (tl & E0 & E1). rewrite E0, E1.
  assert (Forall (fun x => (x <= length H + 1)%nat) (0%nat :: tl)) as Hb.
  { rewrite <- E0. destruct (rank128_facts (length ((false :: c) :: rest)) ((false :: c) :: rest) 0 (le_n _)) as [_ Hf].
    eapply Forall_impl; [|exact Hf]. cbn beta. intros x Hx.
    pose proof (chunks64_total (false :: H)) as Ht. rewrite chunks64_cons in Ht. fold c rest in Ht. cbn [length] in Ht. lia. }
  inversion Hb as [|? ? _ Hb']; subst.
  unfold size_bitmap. cbn [bm_words bm_rank bm_select bm_unk map].
  change (sz_packed 40 []) with 0. change (blen []) with 0. rewrite !N.add_0_r.
  unfold sz_packed. cbn [map sum_N].
  rewrite !bits_val_cons. rewrite (N.add_comm 1 (2 * bits_val c)). rewrite N.add_0_l.
  change (size_varint (2 * bits_val c + 1)) with (size_var 10 (2 * bits_val c + 1)). rewrite size_var_odd.
  change (size_var 10 (2 * bits_val c)) with (size_varint (2 * bits_val c)).
  apply N.add_le_mono_l. apply sz_lenfield_mono. apply N.add_le_mono_l.
  apply sum_sv_succ_ge. eapply Forall_impl; [|exact Hb']. cbn beta. intros x Hx. lia.
Qed.

Lemma sz_int32_succ_ge tag m :
  N.of_nat m + 1 < two64 -> sz_int32 tag (Z.of_nat m) <= sz_int32 tag (Z.of_nat (S m)).
Proof.
  intros Hm. unfold sz_int32.
  destruct (Z.eqb_spec (Z.of_nat (S m)) 0); [lia|].
  destruct (Z.eqb_spec (Z.of_nat m) 0); [lia|].
  rewrite !u64_of_nat by lia. pose proof (sv_mono (N.of_nat m) (N.of_nat (S m)) ltac:(lia)). lia.
Qed.

Lemma sz_bytes_two_ge (a b : byte) X : sz_bytes 30 X <= sz_bytes 30 (a :: b :: X).
Proof.
  unfold sz_bytes. destruct X as [|x X']; [lia|].
  apply sz_lenfield_mono. unfold blen. cbn [length]. lia.
Qed.

Lemma enc_delta_ge nb b s' l tl :
  N.of_nat (length tl) + 2 < two64 ->
  size_slim (enc nb ({| in_big := b; in_step := 0; in_labels := l |} :: tl)) <=
  size_slim (enc nb ({| in_big := b; in_step := S s'; in_labels := l |} :: tl)).
Proof.
  intros Hlen. unfold enc. cbv zeta.
  set (i := {| in_big := b; in_step := 0; in_labels := l |}).
  set (i' := {| in_big := b; in_step := S s'; in_labels := l |}).
  assert (big_count (i' :: tl) = big_count (i :: tl)) as -> by (unfold big_count, i, i'; cbn [filter in_big]; destruct b; reflexivity).
  assert (forall n, cands (skipn n (i' :: tl)) = cands (skipn n (i :: tl))) as Hc by (intros [|n]; reflexivity).
  rewrite Hc.
  set (tbls := sorted_tbls (cands (skipn (big_count (i :: tl)) (i :: tl)))).
  set (ss := find_short_size tbls). set (mu := most_used tbls ss).
  assert (flat_map (node_bits ss mu) (i' :: tl) = flat_map (node_bits ss mu) (i :: tl)) as -> by reflexivity.
  assert (map (fun i0 => match node_short mu i0 with Some _ => true | None => false end) (i' :: tl) =
          map (fun i0 => match node_short mu i0 with Some _ => true | None => false end) (i :: tl)) as -> by reflexivity.
  set (F := filter has_step tl). set (H := map has_step tl).
  assert (filter has_step (i :: tl) = F) as -> by reflexivity.
  assert (filter has_step (i' :: tl) = i' :: F) as -> by reflexivity.
  assert (map has_step (i :: tl) = false :: H) as -> by reflexivity.
  assert (map has_step (i' :: tl) = true :: H) as -> by reflexivity.
  assert (N.of_nat (length H) + 2 < two64) as HlenH by (unfold H; rewrite map_length; exact Hlen).
  pose proof (mk_bm_first_bit_ge H HlenH) as B1.
  assert (length F <= length tl)%nat as HF.
  { unfold F. rewrite length_filter, length_lsum. unfold lsum. clear. induction tl as [|x r IH]; cbn [map sum_list]; [lia|]. destruct (has_step x); lia. }
  cbn [length flat_map]. unfold i' at 1. cbn [in_step enc_step app].
  unfold size_slim. cbn [s_bigcnt s_shortsize s_nodetype s_inners s_shortbm s_shorttable s_innerpref s_leafpref s_leaves s_unk].
  unfold sz_msg. repeat apply N.add_le_mono_r. apply N.add_le_mono_l.
  apply sz_lenfield_mono. unfold size_vlen. cbn [vl_n vl_eltcnt vl_position vl_fixed vl_bytes vl_presence vl_unk].
  unfold sz_msg.
  pose proof (sz_int32_succ_ge 11 (length F) ltac:(lia)) as F1.
  pose proof (sz_bytes_two_ge (byte_of_N (N.of_nat (S s') / 256)) (byte_of_N (N.of_nat (S s'))) (flat_map (fun i0 => enc_step (in_step i0)) F)) as F2.
  pose proof (sz_lenfield_mono 61 _ _ B1) as F3.
  lia.
Qed.

End Lower.

Theorem prefix_never_shrinks o P keys T T' :
  o_inner o = false -> o_leaf o = false ->
  build o keys None = Ok T -> build o (map (app P) keys) None = Ok T' ->
  (N.of_nat (length keys) < 67108864)%N ->
  (marshal_size T <= marshal_size T')%N.
Proof.
  intros Hi Hlf HT HT' Hn.
  destruct (prefix_same_tree o P keys T T' Hi Hlf HT HT') as (Hr & _).
  unfold marshal_size, encode_trie. rewrite Hr.
  destruct (t_root T) as [r|] eqn:Er; cbn [option_map]; [|lia].
  destruct (built_counts _ _ _ _ HT Er) as (_ & _ & Hc).
  destruct r as [id ord tail eidx|id big step pfx fc ch]; [cbn [bump_step]; lia|].
  rewrite !encode_root_enc, nb_bump, inners_bump. unfold inner_count in Hc. rewrite inners_inner in Hc |- *.
  cbn [length] in Hc.
  set (nb := map is_inner (bfs (Inner id big step pfx fc ch))).
  set (tl := flat_map inode_of (List.tl (bfs (Inner id big step pfx fc ch)))) in *.
  destruct step as [|st].
  - destruct (2 * length P) as [|k'] eqn:Ek.
    + cbn [Nat.add]. lia.
    + rewrite Nat.add_0_r.
      pose proof (enc_delta_ge nb big k' (map fst ch) tl ltac:(unfold two64; lia)) as H. lia.
  - rewrite (enc_size_step nb big (S st) (2 * length P + S st) (map fst ch) tl); [lia|].
    destruct (Nat.eqb_spec (2 * length P + S st) 0); [lia|reflexivity].
Qed.
