(* SizeProofs.v - proofs about the size model (Size.v), part 1: node counts.
   For every trie built without values (all keys retained) the number of leaves
   is the number of keys, every inner node has at least two labels and every
   big inner node more than [big_threshold] labels, hence
       inner + 9 * big + 1 <= keys      and      nodes = inner + keys. *)
From Slim Require Import Base Keys KeysProofs ListFacts Model TrieInv BuildProofs Varint Proto Size.
From Coq Require Import Sorting.Sorted ZifyNat ZifyBool.
Local Open Scope nat_scope.

Arguments Nat.div : simpl never.
Arguments Nat.modulo : simpl never.

(* ---------- sums over lists ---------- *)
Definition lsum {A} (f : A -> nat) (l : list A) : nat := sum_list (map f l).

Lemma lsum_nil {A} (f : A -> nat) : lsum f [] = 0.
Proof. reflexivity. Qed.

Lemma lsum_cons {A} (f : A -> nat) x l : lsum f (x :: l) = f x + lsum f l.
Proof. reflexivity. Qed.

Lemma lsum_app {A} (f : A -> nat) a b : lsum f (a ++ b) = lsum f a + lsum f b.
Proof. induction a as [|x a IH]; [reflexivity|]. cbn [app]. rewrite !lsum_cons, IH. lia. Qed.

Lemma lsum_flat_map {A B} (f : B -> nat) (g : A -> list B) l :
  lsum f (flat_map g l) = lsum (fun x => lsum f (g x)) l.
Proof. induction l as [|x l IH]; [reflexivity|]. cbn [flat_map]. rewrite lsum_app, lsum_cons, IH. reflexivity. Qed.

Lemma lsum_map {A B} (f : B -> nat) (g : A -> B) l : lsum f (map g l) = lsum (fun x => f (g x)) l.
Proof. unfold lsum. rewrite map_map. reflexivity. Qed.

Lemma lsum_ext {A} (f g : A -> nat) l : (forall x, In x l -> f x = g x) -> lsum f l = lsum g l.
Proof.
  induction l as [|x l IH]; intros H; [reflexivity|]. rewrite !lsum_cons.
  rewrite (H x (or_introl eq_refl)), IH; [reflexivity|]. intros y Hy. apply H. right. exact Hy.
Qed.

Lemma lsum_add {A} (f g : A -> nat) l : lsum (fun x => f x + g x) l = lsum f l + lsum g l.
Proof. induction l as [|x l IH]; [reflexivity|]. rewrite !lsum_cons, IH. lia. Qed.

Lemma lsum_mul {A} (f : A -> nat) k l : lsum (fun x => k * f x) l = k * lsum f l.
Proof. induction l as [|x l IH]; [cbn; lia|]. rewrite !lsum_cons, IH. lia. Qed.

Lemma lsum_const {A} k (l : list A) : lsum (fun _ => k) l = k * length l.
Proof. induction l as [|x l IH]; [cbn; lia|]. rewrite lsum_cons, IH. cbn [length]. lia. Qed.

Lemma length_lsum {A} (l : list A) : length l = lsum (fun _ => 1) l.
Proof. rewrite lsum_const. lia. Qed.

Lemma length_flat_map {A B} (g : A -> list B) l : length (flat_map g l) = lsum (fun x => length (g x)) l.
Proof. induction l as [|x l IH]; [reflexivity|]. cbn [flat_map]. rewrite app_length, lsum_cons, IH. reflexivity. Qed.

Lemma length_filter {A} (p : A -> bool) l : length (filter p l) = lsum (fun x => if p x then 1 else 0) l.
Proof. induction l as [|x l IH]; [reflexivity|]. cbn [filter]. rewrite lsum_cons. destruct (p x); cbn [length]; rewrite IH; lia. Qed.

Lemma lsum_Forall2_eq {A B} (R : A -> B -> Prop) (g : A -> nat) (h : B -> nat) l m :
  Forall2 R l m -> (forall x y, In x l -> R x y -> g x = h y) -> lsum g l = lsum h m.
Proof.
  induction 1 as [|x y l m Hxy _ IH]; intros H; [reflexivity|]. rewrite !lsum_cons.
  rewrite (H x y (or_introl eq_refl) Hxy), IH; [reflexivity|]. intros x' y' Hx. apply H. right. exact Hx.
Qed.

Lemma lsum_Forall2_le {A B} (R : A -> B -> Prop) (g : A -> nat) (h : B -> nat) l m :
  Forall2 R l m -> (forall x y, In x l -> R x y -> g x <= h y) -> lsum g l <= lsum h m.
Proof.
  induction 1 as [|x y l m Hxy _ IH]; intros H; [cbn; lia|]. rewrite !lsum_cons.
  pose proof (H x y (or_introl eq_refl) Hxy).
  assert (lsum g l <= lsum h m) by (apply IH; intros x' y' Hx; apply H; right; exact Hx). lia.
Qed.

(* ---------- sums over trees and the level order ---------- *)
Section TSum.
  Variable f : tree -> nat.

  Fixpoint tsum (t : tree) : nat :=
    f t + match t with
          | Leaf _ _ _ _ => 0
          | Inner _ _ _ _ _ ch =>
              (fix go (ch : list (nat * tree)) : nat :=
                 match ch with [] => 0 | (_, c) :: r => tsum c + go r end) ch
          end.

  Lemma tsum_unfold t : tsum t = f t + lsum tsum (children t).
  Proof.
    destruct t as [id ord tail eidx|id big step pfx fc ch]; [cbn; lia|].
    cbn [tsum children]. f_equal.
    induction ch as [|[x c] r IH]; [reflexivity|]. cbn [map snd]. rewrite lsum_cons, IH. reflexivity.
  Qed.

  Lemma height_child t c : In c (children t) -> height c < height t.
  Proof.
    destruct t as [id ord tail eidx|id big step pfx fc ch]; [intros []|].
    cbn [children height]. induction ch as [|[x c0] r IH]; [intros []|].
    cbn [map snd In]. intros [<-|H]; [lia|]. specialize (IH H). lia.
  Qed.

  Lemma levels_sum : forall fuel forest,
    Forall (fun t => height t < fuel) forest -> lsum f (levels fuel forest) = lsum tsum forest.
  Proof.
    induction fuel as [|fu IH]; intros forest Hf.
    - destruct forest as [|t r]; [reflexivity|]. inversion Hf; subst. lia.
    - destruct forest as [|t0 r0]; [reflexivity|].
      remember (t0 :: r0) as forest eqn:E.
      assert (levels (S fu) forest = forest ++ levels fu (flat_map children forest)) as -> by (rewrite E; reflexivity).
      rewrite lsum_app, IH.
      + rewrite lsum_flat_map. rewrite <- lsum_add. apply lsum_ext. intros t _. symmetry. apply tsum_unfold.
      + rewrite Forall_forall in *. intros c Hc. apply in_flat_map in Hc. destruct Hc as (t & Ht & Hc).
        specialize (Hf t Ht). apply height_child in Hc. lia.
  Qed.

  Lemma bfs_sum r : lsum f (bfs r) = tsum r.
  Proof.
    unfold bfs. rewrite levels_sum; [cbn; lia|]. constructor; [lia|constructor].
  Qed.
End TSum.

Lemma tsum_inner f id big step pfx fc ch :
  tsum f (Inner id big step pfx fc ch) = f (Inner id big step pfx fc ch) + lsum (tsum f) (map snd ch).
Proof. rewrite tsum_unfold. reflexivity. Qed.

(* ---------- the counts ---------- *)
Definition is_big (t : tree) : bool :=
  match t with Inner _ true _ _ _ _ => true | _ => false end.

Definition nleaves : tree -> nat := tsum (fun t => if is_inner t then 0 else 1).
Definition ninner : tree -> nat := tsum (fun t => if is_inner t then 1 else 0).
Definition nbig : tree -> nat := tsum (fun t => if is_big t then 1 else 0).
Definition nnodes : tree -> nat := tsum (fun _ => 1).

Lemma node_count_tsum r : node_count r = nnodes r.
Proof. unfold node_count, nnodes. rewrite length_lsum. apply bfs_sum. Qed.

Lemma leaf_count_tsum r : leaf_count r = nleaves r.
Proof.
  unfold leaf_count, nleaves. rewrite length_filter. rewrite <- bfs_sum. apply lsum_ext.
  intros t _. destruct (is_inner t); reflexivity.
Qed.

Lemma inner_count_tsum r : inner_count r = ninner r.
Proof.
  unfold inner_count, inners, ninner. rewrite length_flat_map. rewrite <- bfs_sum. apply lsum_ext.
  intros t _. destruct t; reflexivity.
Qed.

Lemma filter_flat_map {A B} (p : B -> bool) (g : A -> list B) l :
  filter p (flat_map g l) = flat_map (fun x => filter p (g x)) l.
Proof. induction l as [|x l IH]; [reflexivity|]. cbn [flat_map]. rewrite filter_app, IH. reflexivity. Qed.

Lemma big_count_tsum r : big_count (inners r) = nbig r.
Proof.
  unfold big_count, inners, nbig. rewrite filter_flat_map, length_flat_map. rewrite <- bfs_sum. apply lsum_ext.
  intros t _. destruct t as [|id big step pfx fc ch]; [reflexivity|]. cbn [inode_of filter in_big is_big].
  destruct big; reflexivity.
Qed.

Lemma nnodes_split t : nnodes t = ninner t + nleaves t.
Proof.
  induction t as [id ord tail eidx|id big step pfx fc ch IH] using tree_ind'; [reflexivity|].
  unfold nnodes, ninner, nleaves in *. rewrite !tsum_inner. cbn [is_inner].
  assert (lsum (tsum (fun _ => 1)) (map snd ch) =
          lsum (tsum (fun t => if is_inner t then 1 else 0)) (map snd ch) +
          lsum (tsum (fun t => if is_inner t then 0 else 1)) (map snd ch)) as ->; [|lia].
  rewrite <- lsum_add. rewrite !lsum_map. apply lsum_ext. intros p Hp.
  rewrite Forall_forall in IH. apply (IH p Hp).
Qed.

(* ---------- number of labels of an inner node ---------- *)
Fixpoint adj_neq (l : list nat) : nat :=
  match l with
  | a :: r => match r with
              | b :: _ => (if Nat.eqb a b then 0 else 1) + adj_neq r
              | [] => 0
              end
  | [] => 0
  end.

Lemma dedup_adj_length l : l <> [] -> length (dedup_adj l) = 1 + adj_neq l.
Proof.
  induction l as [|a l IH]; [congruence|]. intros _.
  destruct l as [|b l']; [reflexivity|].
  change (dedup_adj (a :: b :: l')) with (if Nat.eqb a b then dedup_adj (b :: l') else a :: dedup_adj (b :: l')).
  change (adj_neq (a :: b :: l')) with ((if Nat.eqb a b then 0 else 1) + adj_neq (b :: l')).
  destruct (Nat.eqb a b).
  - rewrite IH by discriminate. reflexivity.
  - cbn [length]. rewrite IH by discriminate. reflexivity.
Qed.

Lemma list_min_in d l : list_min d l = d \/ In (list_min d l) l.
Proof.
  revert d; induction l as [|x l IH]; intros d; cbn [list_min]; [left; reflexivity|].
  destruct (IH (Nat.min d x)) as [H|H]; [|right; right; exact H].
  rewrite H. destruct (Nat.min_spec d x) as [[_ ->]|[_ ->]]; [left; reflexivity|right; left; reflexivity].
Qed.

Lemma sub_ws_in s : adj_lcps (map e_nibs (s_ents s)) <> [] -> In (sub_ws s) (adj_lcps (map e_nibs (s_ents s))).
Proof.
  unfold sub_ws. cbv zeta. intros Hne.
  destruct (adj_lcps (map e_nibs (s_ents s))) as [|d0 r] eqn:E; [congruence|].
  destruct (list_min_in (hd 0 (d0 :: r)) (d0 :: r)) as [H|H]; [|exact H].
  rewrite H. left. reflexivity.
Qed.

(* two entries that part before the end of the label word have different labels *)
Lemma label_neq big (a b : ent) w :
  ent_ok a -> ent_ok b -> ent_lt a b ->
  firstn w (e_nibs a) = firstn w (e_nibs b) ->
  w <= length (e_nibs a) -> w <= length (e_nibs b) ->
  (big = true -> Nat.even w = true) ->
  lcp (e_nibs a) (e_nibs b) < w + wsize big ->
  ent_label big w a <> ent_label big w b.
Proof.
  intros Ha Hb Hlt Hp La Lb Hev Hd E. unfold ent_label in E.
  destruct (Nat.eq_dec (label_at big (e_nibs a) w) 0) as [Z|NZ].
  - assert (label_at big (e_nibs b) w = 0) as Zb by congruence.
    apply (label_zero_iff big _ w La) in Z. apply (label_zero_iff big _ w Lb) in Zb.
    assert (e_nibs a = e_nibs b) as Eab.
    { rewrite <- (firstn_all (e_nibs a)), <- (firstn_all (e_nibs b)), <- Z, <- Zb. exact Hp. }
    unfold ent_lt in Hlt. rewrite Eab, lex_cmp_refl in Hlt. discriminate.
  - destruct (label_eq_firstn big (e_nibs a) (e_nibs b) w) as (Hf & L1 & L2); try assumption.
    + apply ent_ok_lt16; assumption.
    + apply ent_ok_lt16; assumption.
    + intros ->. pose proof (ent_ok_even a Ha). pose proof (ent_ok_even b Hb).
      rewrite !Nat.even_sub by assumption. rewrite (Hev eq_refl), H, H0. split; reflexivity.
    + pose proof (firstn_lcp _ _ _ Hf L1 L2). lia.
Qed.

Lemma adj_lcps_cons2 (a b : list nat) r : adj_lcps (a :: b :: r) = lcp a b :: adj_lcps (b :: r).
Proof. reflexivity. Qed.

Lemma adj_neq_cons2 a b r : adj_neq (a :: b :: r) = (if Nat.eqb a b then 0 else 1) + adj_neq (b :: r).
Proof. reflexivity. Qed.

Lemma adj_neq_lcps big w : forall es : list ent,
  Forall ent_ok es -> StronglySorted ent_lt es ->
  (forall a b, In a es -> In b es -> firstn w (e_nibs a) = firstn w (e_nibs b)) ->
  (forall a, In a es -> w <= length (e_nibs a)) ->
  (big = true -> Nat.even w = true) ->
  length (filter (fun d => d <? w + wsize big) (adj_lcps (map e_nibs es))) <= adj_neq (map (ent_label big w) es).
Proof.
  induction es as [|a es IH]; intros Hok Hs Hag Hlen Hev; [cbn; lia|].
  destruct es as [|b r]; [cbn; lia|].
  cbn [map]. rewrite adj_lcps_cons2, adj_neq_cons2. cbn [filter].
  inversion Hok as [|? ? Oa Hok']; subst. inversion Hs as [|? ? Hs' Hfa]; subst.
  assert (length (filter (fun d => d <? w + wsize big) (adj_lcps (map e_nibs (b :: r))))
          <= adj_neq (map (ent_label big w) (b :: r))) as IH'.
  { apply IH; try assumption.
    - intros x y Hx Hy. apply Hag; right; assumption.
    - intros x Hx. apply Hlen; right; assumption. }
  cbn [map] in IH'.
  destruct (lcp (e_nibs a) (e_nibs b) <? w + wsize big) eqn:Ed.
  - apply Nat.ltb_lt in Ed.
    assert (ent_label big w a <> ent_label big w b) as Hne.
    { inversion Hok' as [|? ? Ob _]; subst. rewrite Forall_forall in Hfa.
      apply label_neq; try assumption.
      - apply Hfa. left; reflexivity.
      - apply Hag; [left; reflexivity|right; left; reflexivity].
      - apply Hlen. left; reflexivity.
      - apply Hlen. right; left; reflexivity. }
    apply Nat.eqb_neq in Hne. rewrite Hne. cbn [length]. lia.
  - destruct (ent_label big w a =? ent_label big w b); lia.
Qed.

Lemma process_inner_big o isbig s big step pfx labels kids b' :
  process_subset o isbig s = Ok (DInner big step pfx labels kids, b') -> big = true ->
  big_threshold < 1 + length (filter (fun d => d <? even_down (sub_ws s) + 2) (adj_lcps (map e_nibs (s_ents s)))).
Proof.
  unfold process_subset, sub_ws.
  destruct (s_ents s) as [|e0 [|e1 r]] eqn:E; try discriminate.
  cbv zeta.
  set (diffs := adj_lcps (map e_nibs (e0 :: e1 :: r))).
  set (ws := list_min (hd 0 diffs) diffs).
  set (big0 := isbig && (big_threshold <? 1 + length (filter (fun d => d <? even_down ws + 2) diffs))).
  set (w0 := if big0 then even_down ws else ws).
  destruct (w0 <? s_from s); [discriminate|].
  destruct (negb (o_inner o) && (max_step <? N.of_nat (w0 - s_from s))%N); [discriminate|].
  intros H. inversion H; subst big. clear H.
  unfold big0. intros Hb. apply andb_true_iff in Hb. destruct Hb as [_ Hb]. apply Nat.ltb_lt in Hb. exact Hb.
Qed.

Lemma adj_lcps_nonempty (a b : list nat) r : adj_lcps (a :: b :: r) <> [].
Proof. cbn. discriminate. Qed.

Lemma inner_label_count o isbig s big step pfx labels kids b' :
  SubInv s -> Forall (fun e => e_keep e = true) (s_ents s) ->
  process_subset o isbig s = Ok (DInner big step pfx labels kids, b') ->
  2 <= length labels /\ (big = true -> big_threshold + 1 <= length labels).
Proof.
  intros I Hk Hp.
  pose proof (inner_facts _ _ _ _ _ _ _ _ _ I Hp) as F.
  pose proof (if_two _ _ _ _ _ F) as Htwo.
  set (w := sub_w big s).
  assert (labels = dedup_adj (map (ent_label big w) (s_ents s))) as Hl.
  { rewrite (if_labels _ _ _ _ _ F). rewrite filter_all_true by exact Hk. reflexivity. }
  assert (map (ent_label big w) (s_ents s) <> []) as Hne.
  { destruct (s_ents s); [cbn in Htwo; lia|discriminate]. }
  rewrite Hl, dedup_adj_length by exact Hne.
  assert (length (filter (fun d => d <? w + wsize big) (adj_lcps (map e_nibs (s_ents s))))
          <= adj_neq (map (ent_label big w) (s_ents s))) as Hcnt.
  { apply adj_neq_lcps.
    - apply (si_ok s I).
    - apply (si_sorted s I).
    - intros a b Ha Hb. apply sub_w_agree; assumption.
    - intros a Ha. apply sub_w_len; assumption.
    - intros ->. apply sub_w_even. }
  split.
  - (* the minimum first-difference position is attained by an adjacent pair *)
    assert (In (sub_ws s) (adj_lcps (map e_nibs (s_ents s)))) as Hin.
    { apply sub_ws_in. destruct (s_ents s) as [|a [|b r]]; cbn in Htwo; try lia. apply adj_lcps_nonempty. }
    assert (In (sub_ws s) (filter (fun d => d <? w + wsize big) (adj_lcps (map e_nibs (s_ents s))))) as Hin'.
    { apply filter_In. split; [exact Hin|]. apply Nat.ltb_lt. unfold w, sub_w.
      destruct big; cbn [wsize]; [|lia]. unfold even_down. pose proof (Nat.mod_upper_bound (sub_ws s) 2). lia. }
    destruct (filter (fun d => d <? w + wsize big) (adj_lcps (map e_nibs (s_ents s)))); [destruct Hin'|].
    cbn [length] in Hcnt. lia.
  - intros Hb. pose proof (process_inner_big _ _ _ _ _ _ _ _ _ Hp Hb) as Ht.
    subst big. subst w. unfold sub_w in *. cbn [wsize] in Hcnt. lia.
Qed.

(* ---------- the children partition the entries ---------- *)
Lemma partition_count {A} (f : A -> nat) (labels : list nat) (es : list A) :
  NoDup labels -> (forall e, In e es -> In (f e) labels) ->
  lsum (fun lb => length (filter (fun e => Nat.eqb (f e) lb) es)) labels = length es.
Proof.
  intros Hnd. induction es as [|e es IH]; intros Hin.
  - cbn [filter length]. rewrite lsum_const. lia.
  - assert (lsum (fun lb => length (filter (fun e0 => f e0 =? lb) (e :: es))) labels =
            lsum (fun lb => (if f e =? lb then 1 else 0)) labels +
            lsum (fun lb => length (filter (fun e0 => f e0 =? lb) es)) labels) as ->.
    { rewrite <- lsum_add. apply lsum_ext. intros lb _. cbn [filter]. destruct (f e =? lb); cbn [length]; lia. }
    rewrite IH by (intros x Hx; apply Hin; right; exact Hx).
    cbn [length].
    assert (lsum (fun lb => if f e =? lb then 1 else 0) labels = 1) as ->; [|lia].
    specialize (Hin e (or_introl eq_refl)). clear IH. revert Hin.
    induction Hnd as [|lb ls Hnotin Hnd IHl]; intros Hin; [destruct Hin|].
    rewrite lsum_cons. destruct Hin as [Heq|Hin].
    + rewrite <- Heq at 1. rewrite Nat.eqb_refl.
      assert (lsum (fun lb0 => if f e =? lb0 then 1 else 0) ls = 0) as ->; [|lia].
      rewrite (lsum_ext _ (fun _ => 0)); [rewrite lsum_const; lia|].
      intros y Hy. destruct (Nat.eqb_spec (f e) y); [subst; contradiction|reflexivity].
    + destruct (Nat.eqb_spec (f e) lb); [subst; contradiction|]. rewrite IHl by exact Hin. lia.
Qed.

Lemma Forall2_in_r {A B} (R : A -> B -> Prop) l m :
  Forall2 R l m -> Forall2 (fun x y => R x y /\ In y m) l m.
Proof.
  intros H.
  assert (forall all, (forall y, In y m -> In y all) -> Forall2 (fun x y => R x y /\ In y all) l m) as G.
  { induction H as [|x y l m Hxy _ IH]; intros all Hall; constructor.
    - split; [exact Hxy|apply Hall; left; reflexivity].
    - apply IH. intros y' Hy'. apply Hall. right. exact Hy'. }
  apply G. auto.
Qed.

(* ---------- the count invariant of built trees ---------- *)
Lemma big_threshold_val : big_threshold = 10.
Proof. reflexivity. Qed.

Lemma counts_inv o : forall t s,
  trie_of o t s -> SubInv s -> Forall (fun e => e_keep e = true) (s_ents s) ->
  nleaves t = length (s_ents s) /\ ninner t + 9 * nbig t + 1 <= length (s_ents s).
Proof.
  induction t as [id ord tail eidx|id big step pfx fc ch IH] using tree_ind'; intros s Ht I Hk.
  - cbn [trie_of] in Ht. destruct Ht as (e & Es & _). rewrite Es. cbn. lia.
  - cbn [trie_of] in Ht. destruct Ht as (isbig & labels & kids & b' & Hp & Hlab & Hkm).
    pose proof (inner_facts _ _ _ _ _ _ _ _ _ I Hp) as F.
    destruct (inner_label_count _ _ _ _ _ _ _ _ _ I Hk Hp) as [H2 H11].
    apply kids_match_Forall2 in Hkm.
    assert (forall c k, In c (map snd ch) -> trie_of o c k -> In k kids ->
              nleaves c = length (s_ents k) /\ ninner c + 9 * nbig c + 1 <= length (s_ents k)) as Hkid.
    { intros c k Hc Hck Hkin. apply in_map_iff in Hc. destruct Hc as (p & <- & Hp').
      rewrite Forall_forall in IH. apply (IH p Hp' k Hck).
      - eapply kids_inv; eassumption.
      - rewrite (if_kids _ _ _ _ _ F) in Hkin. apply in_map_iff in Hkin. destruct Hkin as (lb & <- & _).
        cbn [s_ents]. rewrite Forall_forall in *. intros e He. apply filter_In in He. apply Hk. tauto. }
    (* Forall2 with membership on the right *)
    assert (Forall2 (fun c k => trie_of o c k /\ In k kids) (map snd ch) kids) as Hkm'.
    { apply Forall2_in_r. exact Hkm. }
    assert (lsum (fun k => length (s_ents k)) kids = length (s_ents s)) as Hpart.
    { rewrite (if_kids _ _ _ _ _ F). rewrite lsum_map. cbn [s_ents].
      apply partition_count.
      - apply SS_lt_NoDup. apply (if_asc _ _ _ _ _ F).
      - intros e He. rewrite (if_labels _ _ _ _ _ F). apply (proj2 (dedup_adj_In _ _)). apply in_map.
        apply filter_In. rewrite Forall_forall in Hk. split; [exact He|apply Hk; exact He]. }
    assert (length (map snd ch) = length labels) as Hlen by (rewrite <- Hlab, !map_length; reflexivity).
    unfold nleaves, ninner, nbig in *. rewrite !tsum_inner. cbn [is_inner is_big].
    split.
    + rewrite <- Hpart. cbn [Nat.add].
      apply (lsum_Forall2_eq (fun c k => trie_of o c k /\ In k kids)); [exact Hkm'|].
      intros c k Hc [Hck Hkin]. apply (Hkid c k Hc Hck Hkin).
    + assert (lsum (fun c => tsum (fun t => if is_inner t then 1 else 0) c
                             + 9 * tsum (fun t => if is_big t then 1 else 0) c + 1) (map snd ch)
              <= lsum (fun k => length (s_ents k)) kids) as Hle.
      { apply (lsum_Forall2_le (fun c k => trie_of o c k /\ In k kids)); [exact Hkm'|].
        intros c k Hc [Hck Hkin]. apply (Hkid c k Hc Hck Hkin). }
      rewrite !lsum_add, lsum_mul, lsum_const in Hle. rewrite Hpart in Hle.
      rewrite Hlen in Hle.
      destruct big.
      * specialize (H11 eq_refl). rewrite big_threshold_val in H11. lia.
      * lia.
Qed.

(* ---------- built tries without values ---------- *)
Lemma mk_ents_all_kept : forall keys b keep,
  Forall (fun x => x = true) keep -> Forall (fun e => e_keep e = true) (mk_ents b keys keep).
Proof.
  induction keys as [|k r IH]; intros b keep Hk; cbn [mk_ents]; [constructor|].
  constructor.
  - cbn [e_keep]. destruct keep as [|x keep']; [reflexivity|]. inversion Hk; subst. reflexivity.
  - apply IH. destruct keep as [|x keep']; [constructor|]. inversion Hk; subst. assumption.
Qed.

Lemma mk_ents_length : forall keys b keep, length (mk_ents b keys keep) = length keys.
Proof. induction keys as [|k r IH]; intros b keep; cbn [mk_ents length]; [reflexivity|]. rewrite IH. reflexivity. Qed.

Lemma repeat_true_all n : Forall (fun x => x = true) (repeat true n).
Proof. induction n; cbn; constructor; auto. Qed.

Theorem built_counts o keys T r :
  build o keys None = Ok T -> t_root T = Some r ->
  leaf_count r = length keys /\
  node_count r = inner_count r + length keys /\
  inner_count r + 9 * big_count (inners r) + 1 <= length keys.
Proof.
  intros Hb Hr. destruct (build_ok _ _ _ _ Hb) as [[-> ->]|(r' & lidx & B)]; [discriminate|].
  rewrite (bt_root _ _ _ _ _ _ B) in Hr. inversion Hr; subst r'. clear Hr.
  pose proof (root_inv o keys None (bt_sorted _ _ _ _ _ _ B) (bt_nonempty _ _ _ _ _ _ B)) as I.
  assert (Forall (fun e => e_keep e = true) (s_ents (root_subset o keys None))) as Hk.
  { unfold root_subset. cbn [s_ents to_keep]. apply mk_ents_all_kept. apply repeat_true_all. }
  destruct (counts_inv o r _ (bt_trie _ _ _ _ _ _ B) I Hk) as [HL HI].
  assert (length (s_ents (root_subset o keys None)) = length keys) as Hlen
    by (unfold root_subset; cbn [s_ents]; apply mk_ents_length).
  rewrite Hlen in *.
  rewrite leaf_count_tsum, node_count_tsum, inner_count_tsum, big_count_tsum, nnodes_split. lia.
Qed.
