(* ScanMsgMainProofs.v - the scan APIs run over the message of a built trie
   (ScanMsg.v) return what Scan.v's return on the tree: getGEPath, NewIter, every
   call of the closure, n consecutive calls, ScanFrom, ScanFromTo - for ALL built
   tries (complete or not: on an incomplete trie both sides are the explicit panic
   of getGEPath; the empty trie yields nothing on both sides).  Composition with
   ScanProofs.scan_complete: the scan THROUGH THE MESSAGE yields exactly the retained
   entries in range, in order, with their value bytes. *)
From Slim Require Import Base Keys KeysProofs ListFacts Model TrieInv BuildProofs QueryProofs ConsistProofs
  Stat StatProofs GetIntProofs Flat FlatProofs BitmapRank BitmapRank2 Bits BitsWfProofs BitsFlatProofs Msg MsgProofs
  Scan ScanBasicProofs ScanProofs ScanMsg ScanMsgProofs ScanMsgIterProofs.
From Coq Require Import Sorting.Sorted ZifyNat ZifyN ZifyBool.

Section Built.
  Variables (o : opts) (keys : list key) (vals : option (list (list byte))) (T : trie).
  Hypothesis Hb : build o keys vals = Ok T.
  Variables (m : msg) (vs : vars).
  Hypothesis Em : encode_trie T = Val m.
  Hypothesis Ev : init_vars m = Val vs.
  Variable fuel : nat.
  Hypothesis Hfuel : trie_height T <= fuel.

  Lemma empty_root_msg : t_root T = None -> m = empty_msg.
  Proof. intros H. unfold encode_trie in Em. rewrite H in Em. injection Em as <-. reflexivity. Qed.

  Lemma fuel_root r : t_root T = Some r -> height r <= fuel.
  Proof. intros H. unfold trie_height in Hfuel. rewrite H in Hfuel. exact Hfuel. Qed.

  Lemma inv_empty it : t_root T = None -> iter_inv T it -> it_stack it = [] /\ it_mode it = MNormal.
  Proof.
    intros H0 [Hs Hm]. unfold frame_inv, tree_in in *. rewrite H0 in *. split.
    - destruct (it_stack it) as [|f rest]; [reflexivity|]. pose proof (Forall_inv Hs) as (? & ? & ? & ? & []).
    - destruct (it_mode it); [reflexivity|destruct Hm].
  Qed.

  (* getGEPath over the message = the ids of getGEPath over the tree *)
  Theorem mge_path_eq q :
    mge_path fuel m vs q = (do pe <- ge_path T q; Ok (map tree_id (fst pe), snd pe)).
  Proof.
    destruct (t_root T) as [r|] eqn:Hr.
    - exact (proj1 (mge_path_sim o keys vals T r Hb Hr m vs Em Ev q fuel (fuel_root r Hr))).
    - rewrite (empty_root_msg Hr). unfold mge_path, ge_path. rewrite Hr. reflexivity.
  Qed.

  (* NewIter *)
  Theorem miter_init_eq start incl withv :
    miter_init fuel m vs start incl withv = (do it <- iter_init T start incl withv; Ok (miter_of it)) /\
    (forall it, iter_init T start incl withv = Ok it -> iter_inv T it).
  Proof.
    destruct (t_root T) as [r|] eqn:Hr.
    - exact (miter_init_sim o keys vals T r Hb Hr m vs Em Ev fuel start incl withv (fuel_root r Hr)).
    - rewrite (empty_root_msg Hr). unfold miter_init, mge_path, iter_init, ge_path. rewrite Hr. cbn.
      split; [reflexivity|]. intros it H. injection H as <-. split; [constructor|exact I].
  Qed.

  (* one call of the closure *)
  Theorem miter_next_eq it : iter_inv T it ->
    miter_next fuel m vs (miter_of it) = (do x <- iter_next T it; Ok (fst x, miter_of (snd x))) /\
    (forall x, iter_next T it = Ok x -> iter_inv T (snd x)).
  Proof.
    intros Hinv. destruct (t_root T) as [r|] eqn:Hr.
    - exact (miter_next_sim o keys vals T r Hb Hr m vs Em Ev fuel it (fuel_root r Hr) Hinv).
    - destruct (inv_empty it Hr Hinv) as [Hs Hm].
      unfold miter_next, iter_next, miter_of. rewrite Hs, Hm. cbn.
      split; [rewrite Hs, Hm; reflexivity|]. intros x H. injection H as <-. exact Hinv.
  Qed.

  (* n consecutive calls *)
  Theorem miter_run_eq : forall n it, iter_inv T it ->
    miter_run fuel n m vs (miter_of it) = iter_run n T it.
  Proof.
    induction n as [|n IH]; intros it Hinv; [reflexivity|].
    cbn [miter_run iter_run]. destruct (miter_next_eq it Hinv) as [H1 H2]. rewrite H1.
    destruct (iter_next T it) as [[rr it']|e]; [|reflexivity].
    specialize (H2 _ eq_refl). sbind. cbn [fst snd]. rewrite (IH it' H2). reflexivity.
  Qed.

  (* calls until the first nil *)
  Theorem miter_drain_eq : forall lfuel it, iter_inv T it ->
    miter_drain fuel lfuel m vs (miter_of it) = (do x <- iter_drain lfuel T it; Ok (fst x, miter_of (snd x))) /\
    (forall x, iter_drain lfuel T it = Ok x -> iter_inv T (snd x)).
  Proof.
    induction lfuel as [|lf IH]; intros it Hinv; [split; [reflexivity|discriminate]|].
    cbn [miter_drain iter_drain]. destruct (miter_next_eq it Hinv) as [H1 H2]. rewrite H1.
    destruct (iter_next T it) as [[rr it']|e]; [|split; [reflexivity|discriminate]].
    specialize (H2 _ eq_refl). cbn [snd] in H2. sbind. cbn [fst snd].
    destruct rr as [x|].
    - destruct (IH it' H2) as [I1 I2]. rewrite I1.
      destruct (iter_drain lf T it') as [[xs it'']|e]; [|split; [reflexivity|discriminate]].
      specialize (I2 _ eq_refl). sbind. cbn [fst snd]. split; [reflexivity|]. intros y H. injection H as <-. exact I2.
    - sbind. cbn [fst snd]. split; [reflexivity|]. intros y H. injection H as <-. exact H2.
  Qed.

  (* the loop of ScanFrom with any callback wrapper *)
  Theorem mscan_loop_eq wrap : forall lfuel it i, iter_inv T it ->
    mscan_loop fuel lfuel m vs (miter_of it) wrap i = scan_loop lfuel T it wrap i.
  Proof.
    induction lfuel as [|lf IH]; intros it i Hinv; [reflexivity|].
    cbn [mscan_loop scan_loop]. destruct (miter_next_eq it Hinv) as [H1 H2]. rewrite H1.
    destruct (iter_next T it) as [[rr it']|e]; [|reflexivity].
    specialize (H2 _ eq_refl). cbn [snd] in H2. sbind. cbn [fst snd].
    destruct rr as [x|]; [|reflexivity].
    destruct (wrap i x) as [cont delivered]. destruct cont; [|reflexivity].
    rewrite (IH it' (S i) H2). reflexivity.
  Qed.

  (* NewIter drained, plus [extra] further calls *)
  Theorem miter_all_eq lfuel start incl withv extra :
    miter_all fuel lfuel m vs start incl withv extra =
    (do it <- iter_init T start incl withv;
     do xi <- iter_drain lfuel T it;
     do more <- iter_run extra T (snd xi);
     Ok (fst xi, more)).
  Proof.
    unfold miter_all. destruct (miter_init_eq start incl withv) as [H1 H2]. rewrite H1.
    destruct (iter_init T start incl withv) as [it|e]; [|reflexivity].
    specialize (H2 _ eq_refl). sbind.
    destruct (miter_drain_eq lfuel it H2) as [D1 D2]. rewrite D1.
    destruct (iter_drain lfuel T it) as [[xs it']|e]; [|reflexivity].
    specialize (D2 _ eq_refl). cbn [snd] in D2. sbind. cbn [fst snd].
    rewrite (miter_run_eq extra it' D2). reflexivity.
  Qed.

  Theorem miter_all_eq' start incl withv extra :
    miter_all fuel (scan_fuel T) m vs start incl withv extra = iter_all T start incl withv extra.
  Proof.
    rewrite miter_all_eq. unfold iter_all.
    destruct (iter_init T start incl withv) as [it|e]; [|reflexivity]. sbind.
    destruct (iter_drain (scan_fuel T) T it) as [[xs it']|e]; reflexivity.
  Qed.

  (* ScanFrom / ScanFromTo *)
  Theorem mscan_from_gen lfuel start incl withv fn :
    mscan_from fuel lfuel m vs start incl withv fn =
    (do it <- iter_init T start incl withv; scan_loop lfuel T it (fun i x => (fn i x, true)) 0).
  Proof.
    unfold mscan_from. destruct (miter_init_eq start incl withv) as [H1 H2]. rewrite H1.
    destruct (iter_init T start incl withv) as [it|e]; [|reflexivity].
    sbind. apply mscan_loop_eq. exact (H2 _ eq_refl).
  Qed.

  Theorem mscan_from_eq start incl withv fn :
    mscan_from fuel (scan_fuel T) m vs start incl withv fn = scan_from T start incl withv fn.
  Proof. apply mscan_from_gen. Qed.

  Theorem mscan_from_to_gen lfuel start incl e incle withv fn :
    mscan_from_to fuel lfuel m vs start incl e incle withv fn =
    (do it <- iter_init T start incl withv;
     scan_loop lfuel T it (fun i x => if beyond e incle (fst x) then (false, false) else (fn i x, true)) 0).
  Proof.
    unfold mscan_from_to. destruct (miter_init_eq start incl withv) as [H1 H2]. rewrite H1.
    destruct (iter_init T start incl withv) as [it|e0]; [|reflexivity].
    sbind. apply mscan_loop_eq. exact (H2 _ eq_refl).
  Qed.

  Theorem mscan_from_to_eq start incl e incle withv fn :
    mscan_from_to fuel (scan_fuel T) m vs start incl e incle withv fn = scan_from_to T start incl e incle withv fn.
  Proof. apply mscan_from_to_gen. Qed.
End Built.

(* ---------- more call budget does not change a finished scan ---------- *)
Lemma scan_loop_more T wrap : forall lf lf' it i xs, lf <= lf' ->
  scan_loop lf T it wrap i = Ok xs -> scan_loop lf' T it wrap i = Ok xs.
Proof.
  induction lf as [|lf IH]; intros lf' it i xs Hle H; [discriminate|].
  destruct lf' as [|lf']; [lia|]. cbn [scan_loop] in *.
  destruct (iter_next T it) as [[rr it']|e]; [|discriminate]. rewrite bind_Ok in *.
  destruct rr as [x|]; [|exact H].
  destruct (wrap i x) as [cont delivered]. destruct cont; [|exact H].
  destruct (scan_loop lf T it' wrap (S i)) as [ys|e] eqn:E; [|discriminate].
  rewrite (IH lf' it' (S i) ys ltac:(lia) E). exact H.
Qed.

Lemma iter_drain_more T : forall lf lf' it x, lf <= lf' ->
  iter_drain lf T it = Ok x -> iter_drain lf' T it = Ok x.
Proof.
  induction lf as [|lf IH]; intros lf' it x Hle H; [discriminate|].
  destruct lf' as [|lf']; [lia|]. cbn [iter_drain] in *.
  destruct (iter_next T it) as [[rr it']|e]; [|discriminate]. rewrite bind_Ok in *.
  destruct rr as [y|]; [|exact H].
  destruct (iter_drain lf T it') as [z|e] eqn:E; [|discriminate].
  rewrite (IH lf' it' z ltac:(lia) E). exact H.
Qed.

(* ---------- C04 through the message ---------- *)
(* complete tries: the scan run over the bitmaps of the message yields exactly the retained
   entries in range (vocabulary of ScanProofs / props C04), for every call budget from
   scan_fuel T (= 1 + number of leaves) on *)
Theorem mscan_complete o keys vals T m vs fuel :
  build o keys vals = Ok T -> encode_trie T = Val m -> init_vars m = Val vs ->
  trie_height T <= fuel -> complete_opts o = true ->
  forall s incl withv, exists mit outs,
    miter_init fuel m vs s incl withv = Ok mit /\
    Forall2 (elem_ok keys vals withv) (scan_indexes o keys vals s incl) outs /\
    (forall n, miter_run fuel n m vs mit = Ok (firstn n (map Some outs ++ repeat None n))) /\
    (forall lfuel fn, scan_fuel T <= lfuel -> mscan_from fuel lfuel m vs s incl withv fn = Ok (cut fn 0 outs)) /\
    (forall lfuel e incle fn, scan_fuel T <= lfuel ->
       mscan_from_to fuel lfuel m vs s incl e incle withv fn = Ok (cut_to e incle fn 0 outs)).
Proof.
  intros Hb Em Ev Hf Hc s incl withv.
  destruct (scan_complete o keys vals T Hb Hc s incl withv) as (it & outs & Hi & Ho & Hrun & Hfrom & Hto).
  destruct (miter_init_eq o keys vals T Hb m vs Em Ev fuel Hf s incl withv) as [H1 H2].
  rewrite Hi in H1. rewrite bind_Ok in H1. specialize (H2 it Hi).
  exists (miter_of it), outs. split; [exact H1|]. split; [exact Ho|]. split; [|split].
  - intros n. rewrite (miter_run_eq o keys vals T Hb m vs Em Ev fuel Hf n it H2). apply Hrun.
  - intros lfuel fn Hle. rewrite (mscan_from_gen o keys vals T Hb m vs Em Ev fuel Hf). rewrite Hi, bind_Ok.
    specialize (Hfrom fn). unfold scan_from in Hfrom. rewrite Hi, bind_Ok in Hfrom.
    exact (scan_loop_more T _ _ _ _ _ _ Hle Hfrom).
  - intros lfuel e incle fn Hle. rewrite (mscan_from_to_gen o keys vals T Hb m vs Em Ev fuel Hf). rewrite Hi, bind_Ok.
    specialize (Hto e incle fn). unfold scan_from_to in Hto. rewrite Hi, bind_Ok in Hto.
    exact (scan_loop_more T _ _ _ _ _ _ Hle Hto).
Qed.

(* incomplete tries: the explicit panic of getGEPath, read off the message fields
   (InnerPrefixes.PositionBM == nil || LeafPrefixes == nil) *)
Theorem mscan_refuses o keys vals T m vs fuel lfuel :
  build o keys vals = Ok T -> encode_trie T = Val m -> init_vars m = Val vs ->
  trie_height T <= fuel -> keys <> [] -> complete_opts o = false ->
  forall s incl withv,
    miter_init fuel m vs s incl withv = Err (EPanic 20) /\
    (forall fn, mscan_from fuel lfuel m vs s incl withv fn = Err (EPanic 20)) /\
    (forall e incle fn, mscan_from_to fuel lfuel m vs s incl e incle withv fn = Err (EPanic 20)).
Proof.
  intros Hb Em Ev Hf Hne Hc s incl withv.
  destruct (scan_refuses o keys vals T Hb Hne Hc s incl withv) as (Hi & _).
  pose proof (proj1 (miter_init_eq o keys vals T Hb m vs Em Ev fuel Hf s incl withv)) as H1.
  rewrite Hi in H1. rewrite bind_Err in H1.
  split; [exact H1|]. split; intros; unfold mscan_from, mscan_from_to; rewrite H1; reflexivity.
Qed.

(* NewIter's closure called n times, for every built trie: the state after NewIter over
   the message is the projection of the tree-level state, and so is every answer *)
Theorem miter_run_init o keys vals T m vs fuel :
  build o keys vals = Ok T -> encode_trie T = Val m -> init_vars m = Val vs ->
  trie_height T <= fuel ->
  forall s incl withv,
    match iter_init T s incl withv with
    | Ok it => miter_init fuel m vs s incl withv = Ok (miter_of it) /\
               forall n, miter_run fuel n m vs (miter_of it) = iter_run n T it
    | Err e => miter_init fuel m vs s incl withv = Err e
    end.
Proof.
  intros Hb Em Ev Hf s incl withv.
  destruct (miter_init_eq o keys vals T Hb m vs Em Ev fuel Hf s incl withv) as [H1 H2].
  destruct (iter_init T s incl withv) as [it|e]; [|exact H1].
  split; [exact H1|]. intros n. apply (miter_run_eq o keys vals T Hb m vs Em Ev fuel Hf). exact (H2 it eq_refl).
Qed.
