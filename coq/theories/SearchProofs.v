(* SearchProofs.v - what searchID / Search / RangeGet return, in terms of the
   kept entries in key order:
     - for a query that is a key of the build input (any mode): C09, C02
     - for every query string when inner and leaf prefixes are stored: C03 *)
From Slim Require Import Base Keys KeysProofs ListFacts Model TrieInv BuildProofs QueryProofs ConsistProofs OrderProofs.
From Coq Require Import Sorting.Sorted ZifyNat ZifyBool.

Arguments Nat.div : simpl never.
Arguments Nat.modulo : simpl never.

Definition oidx (t : option tree) : option nat := match t with Some n => leaf_eidx n | None => None end.

Lemma leaf_self_leftmost c : is_leaf c = true -> leftmost c = c.
Proof. destruct c; [reflexivity|discriminate]. Qed.
Lemma leaf_self_rightmost c : is_leaf c = true -> rightmost c = c.
Proof. destruct c; [reflexivity|discriminate]. Qed.

Lemma leaf_tail_or_nil o x i :
  o_leaf o = true -> match leaf_tail o x i with Some t => t | None => [] end = skipn (i / 2) (e_key x).
Proof. intros H. unfold leaf_tail. rewrite H. destruct (skipn (i / 2) (e_key x)); reflexivity. Qed.

Section Search.
  Variables (o : opts) (keys : list key) (vals : option (list (list byte))) (T : trie) (r : tree) (lidx : list nat).
  Hypothesis B : Built o keys vals T r lidx.
  Variable q : key.
  Let qn := nibs q.
  Let root := root_subset o keys vals.

  Lemma qn16 : Forall (fun x => x < 16) qn.
  Proof. apply nibs_lt. Qed.
  Lemma qneven : Nat.even (length qn) = true.
  Proof. unfold qn. rewrite nibs_length. apply Nat.even_spec. exists (length q). lia. Qed.

  Let I : SubInv root := root_inv o keys vals (bt_sorted _ _ _ _ _ _ B) (bt_nonempty _ _ _ _ _ _ B).

  Lemma root_agree : agree root (s_from root) qn.
  Proof. split; [cbn; lia|]. intros a _. reflexivity. Qed.

  (* the result of searchID, described on the kept entries of the build input *)
  Definition SearchSpec (res : option tree * option tree * option tree) : Prop :=
    exists Bl Ar, Forall (lt_q qn) Bl /\ Forall (gt_q qn) Ar /\
      oidx (fst (fst res)) = option_map e_idx (last_opt Bl) /\
      oidx (snd res) = option_map e_idx (hd_opt Ar) /\
      match snd (fst res) with
      | None => kept root = Bl ++ Ar
      | Some c => exists x, kept root = Bl ++ x :: Ar /\ leaf_eidx c = Some (e_idx x) /\ e_keep x = true /\
                            (forall e, mem qn root e -> x = e) /\ (o_leaf o = true -> e_nibs x = qn)
      end.

  Lemma Lok_none lc Bl : Lok lc Bl None -> oidx (option_map rightmost lc) = option_map e_idx (last_opt Bl).
  Proof.
    unfold Lok. destruct (last_opt Bl) as [x|]; [intros (n & -> & H); exact H|intros ->; reflexivity].
  Qed.
  Lemma Rok_none rc Ar : Rok rc Ar None -> oidx (option_map leftmost rc) = option_map e_idx (hd_opt Ar).
  Proof.
    unfold Rok. destruct (hd_opt Ar) as [x|]; [intros (n & -> & H); exact H|intros ->; reflexivity].
  Qed.

  (* the final comparison of searchID against the leaf tail is the comparison of the keys *)
  Lemma tail_cmp x c i v :
    o_leaf o = true -> ent_ok x -> hit o qn x c i v ->
    bytes_cmp (skipn (i / 2) q) (match sess_tail c v with Some t => t | None => [] end) = lex_cmp qn (e_nibs x).
  Proof.
    intros Hleaf Hok ((id & ord & ->) & Hil & Hix & Hag & Hv).
    assert (length qn = 2 * length q) as Lq by (unfold qn; apply nibs_length).
    assert (length (e_nibs x) = 2 * length (e_key x)) as Lx by (rewrite Hok; apply nibs_length).
    destruct v.
    - cbn [sess_tail].
      match goal with |- bytes_cmp _ ?t = _ => assert (t = skipn (i / 2) (e_key x)) as -> by (apply leaf_tail_or_nil; exact Hleaf) end.
      rewrite bytes_cmp_nibs, <- !skipn_nibs. fold qn. rewrite <- Hok.
      symmetry. apply lex_cmp_skipn. symmetry.
      apply (firstn_le_agree _ _ i); [lia|exact Hag].
    - cbn [sess_tail]. destruct (Hv eq_refl) as [Hl Hlx].
      replace (i / 2) with (length q) by lia. rewrite skipn_all. cbn.
      assert (e_nibs x = qn) as ->.
      { rewrite <- (firstn_all (e_nibs x)), <- (firstn_all qn), <- Hlx, <- Hl. exact Hag. }
      rewrite lex_cmp_refl. reflexivity.
  Qed.

  Lemma searchid_spec : justified o root qn -> SearchSpec (searchid T q).
  Proof.
    intros J.
    pose proof (search_down_split o qn qn16 qneven r root (bt_trie _ _ _ _ _ _ B) I root_agree J None None) as Hsp.
    unfold searchid. rewrite (bt_root _ _ _ _ _ _ B). cbv zeta. fold qn.
    change (s_from root) with 0 in Hsp.
    destruct (search_down qn (length qn) r 0 None None) as [[lc eq] rc] eqn:Esd.
    destruct Hsp as (Bl & Ar & HL & HR & HB & HA & Hseq). unfold seq in Hseq. cbn [fst snd] in HL, HR, Hseq.
    destruct eq as [[[c i] v]|].
    - destruct Hseq as (x & HK & Hkeep & Hhit & Hmem).
      pose proof Hhit as ((id & ord & Hc) & Hil & Hix & Hag & Hv).
      destruct (Nat.leb_spec i (length qn)) as [_|]; [|lia].
      assert (In x (s_ents root)) as Hxin.
      { assert (In x (kept root)) as H by (rewrite HK; apply in_or_app; right; left; reflexivity). apply filter_In in H. tauto. }
      assert (ent_ok x) as Hok by (pose proof (si_ok _ I) as H; rewrite Forall_forall in H; apply H; exact Hxin).
      rewrite (bt_leafpfx _ _ _ _ _ _ B).
      destruct (o_leaf o) eqn:Eleaf.
      + rewrite (tail_cmp x c i v Eleaf Hok Hhit).
        destruct (lex_cmp qn (e_nibs x)) eqn:Ecmp; cbn [fst snd option_map].
        * exists Bl, Ar. split; [exact HB|]. split; [exact HA|]. split; [apply Lok_none; exact HL|]. split; [apply Rok_none; exact HR|].
          exists x. split; [exact HK|]. split; [rewrite Hc; reflexivity|]. split; [exact Hkeep|]. split; [exact Hmem|].
          intros _. symmetry. apply lex_cmp_eq. exact Ecmp.
        * (* query below the leaf's key: the leaf is the right neighbour *)
          exists Bl, (x :: Ar). split; [exact HB|]. split; [constructor; [exact Ecmp|exact HA]|].
          split; [apply Lok_none; exact HL|]. split; [rewrite Hc; reflexivity|exact HK].
        * exists (Bl ++ [x]), Ar. split; [apply Forall_app; split; [exact HB|constructor; [|constructor]]|].
          { unfold lt_q. rewrite lex_cmp_antisym, Ecmp. reflexivity. }
          split; [exact HA|]. split; [rewrite last_opt_app by discriminate; rewrite Hc; reflexivity|].
          split; [apply Rok_none; exact HR|]. rewrite <- app_assoc. exact HK.
      + cbn [fst snd option_map].
        exists Bl, Ar. split; [exact HB|]. split; [exact HA|]. split; [apply Lok_none; exact HL|]. split; [apply Rok_none; exact HR|].
        exists x. split; [exact HK|]. split; [rewrite Hc; reflexivity|]. split; [exact Hkeep|]. split; [exact Hmem|intros Hd; congruence].
    - cbn [fst snd option_map].
      exists Bl, Ar. split; [exact HB|]. split; [exact HA|]. split; [apply Lok_none; exact HL|]. split; [apply Rok_none; exact HR|exact Hseq].
  Qed.
End Search.

(* ---------- values of the nodes of a search result ---------- *)
Definition stored (T : trie) (vals : option (list (list byte))) (i : nat) : option (list byte) :=
  match t_leaves T with None => None | Some _ => Some (supplied vals i) end.

Definition node_val (T : trie) (vals : option (list (list byte))) (n : tree) : option (list byte) :=
  match leaf_eidx n with Some i => stored T vals i | None => None end.

Lemma stored_bytes T vals i o keys r lidx :
  Built o keys vals T r lidx -> (exists ord, nth_error lidx ord = Some i) ->
  val_bytes (stored T vals i) = supplied vals i /\ (vals = None -> stored T vals i = None).
Proof.
  intros B (ord & Hn). unfold stored. rewrite (bt_leaves _ _ _ _ _ _ B). unfold select_leaves, supplied.
  destruct vals as [vs|]; [|split; reflexivity].
  destruct (total_size (map (fun i0 => nth i0 vs []) lidx) =? 0) eqn:Ez.
  - split; [|discriminate]. apply Nat.eqb_eq in Ez. apply total_size_zero in Ez. rewrite Forall_forall in Ez.
    cbn. symmetry. apply Ez. apply in_map_iff. exists i. split; [reflexivity|eapply nth_error_In; exact Hn].
  - split; [reflexivity|discriminate].
Qed.

Section Values.
  Variables (o : opts) (keys : list key) (vals : option (list (list byte))) (T : trie) (r : tree) (lidx : list nat).
  Hypothesis B : Built o keys vals T r lidx.

  Lemma leaf_value_stored c :
    In c (subtrees r) -> is_leaf c = true -> leaf_value T c = Ok (node_val T vals c).
  Proof.
    intros Hsub Hleaf. destruct c as [id ord tail eidx|]; [|discriminate].
    pose proof (leaf_subtree_leaves _ _ _ _ _ Hsub) as Hl.
    pose proof (leaf_ok_root_nth lidx r ord eidx (bt_leaf _ _ _ _ _ _ B) Hl) as Hn.
    unfold leaf_value, node_val, stored. cbn [leaf_eidx]. rewrite (bt_leaves _ _ _ _ _ _ B).
    unfold select_leaves, supplied. destruct vals as [vs|]; [|reflexivity].
    destruct (total_size (map (fun i => nth i vs []) lidx) =? 0); [reflexivity|].
    rewrite (nth_error_map_some (fun i => nth i vs []) lidx ord eidx Hn). reflexivity.
  Qed.

  (* every node of a searchID result is a leaf of the tree *)
  Lemma searchid_leaves q :
    let '(l, e, rr) := searchid T q in
    (forall n, l = Some n -> In n (subtrees r) /\ is_leaf n = true) /\
    (forall n, e = Some n -> In n (subtrees r) /\ is_leaf n = true) /\
    (forall n, rr = Some n -> In n (subtrees r) /\ is_leaf n = true).
  Proof.
    pose proof (root_inv o keys vals (bt_sorted _ _ _ _ _ _ B) (bt_nonempty _ _ _ _ _ _ B)) as I.
    pose proof (trie_of_has_kids o r _ (bt_trie _ _ _ _ _ _ B) I) as Hk.
    pose proof (searchid_eq_getid o keys vals T r lidx q B) as Heq.
    unfold searchid in *. rewrite (bt_root _ _ _ _ _ _ B) in *. cbv zeta in *.
    pose proof (search_down_from (nibs q) (length (nibs q)) r 0 None None) as [H1 H2].
    pose proof (descend_subtree (nibs q) (length (nibs q)) r 0) as Hds.
    pose proof (search_down_seq o q r _ (bt_trie _ _ _ _ _ _ B) I (Nat.le_0_l _) None None) as Hseq.
    pose proof (descend_facts o q r _ (bt_trie _ _ _ _ _ _ B) I (Nat.le_0_l _)) as Hdf.
    change (s_from (root_subset o keys vals)) with 0 in Hseq, Hdf.
    destruct (search_down (nibs q) (length (nibs q)) r 0 None None) as [[lc0 eq0] rc0] eqn:Esd.
    unfold seq in Hseq. cbn [fst snd] in H1, H2, Hseq.
    assert (forall x, from_tree r None x -> forall n, option_map rightmost x = Some n -> In n (subtrees r) /\ is_leaf n = true) as HR.
    { intros [m|] Hx n Hn; [|discriminate]. cbn in Hn. inversion Hn; subst. cbn in Hx. destruct Hx as [Hx|Hx]; [discriminate|].
      destruct (rightmost_leaf m (has_kids_sub r m Hk Hx)) as [Ha Hb]. split; [eapply subtrees_trans; eassumption|exact Ha]. }
    assert (forall x, from_tree r None x -> forall n, option_map leftmost x = Some n -> In n (subtrees r) /\ is_leaf n = true) as HL.
    { intros [m|] Hx n Hn; [|discriminate]. cbn in Hn. inversion Hn; subst. cbn in Hx. destruct Hx as [Hx|Hx]; [discriminate|].
      destruct (leftmost_leaf m (has_kids_sub r m Hk Hx)) as [Ha Hb]. split; [eapply subtrees_trans; eassumption|exact Ha]. }
    destruct eq0 as [[[c i] v]|].
    - assert (In c (subtrees r)) as Hc by (eapply Hds; symmetry; exact Hseq).
      assert (is_leaf c = true) as Hcl by (eapply Hdf; symmetry; exact Hseq).
      assert (from_tree r None (Some c)) as Hfc by (cbn; right; exact Hc).
      destruct (i <=? length (nibs q)).
      + destruct (if t_leafpfx T then bytes_cmp (skipn (i / 2) q) match sess_tail c v with Some t => t | None => [] end else Eq);
          cbn [fst snd]; (split; [apply HR; assumption|split; [intros n Hn; try discriminate; inversion Hn; subst; auto|apply HL; assumption]]).
      + cbn [fst snd]. split; [apply HR; assumption|split; [intros n Hn; inversion Hn; subst; auto|apply HL; assumption]].
    - cbn [fst snd]. split; [apply HR; assumption|split; [intros n Hn; discriminate|apply HL; assumption]].
  Qed.

  Lemma opt_leaf_value_stored x :
    (forall n, x = Some n -> In n (subtrees r) /\ is_leaf n = true) ->
    opt_leaf_value T x = Ok (option_map (node_val T vals) x).
  Proof.
    intros H. destruct x as [n|]; [|reflexivity]. destruct (H n eq_refl) as [H1 H2].
    cbn [opt_leaf_value option_map]. unfold bind. rewrite (leaf_value_stored n H1 H2). reflexivity.
  Qed.

  Theorem search_values q :
    search T q = Ok (option_map (node_val T vals) (fst (fst (searchid T q))),
                     option_map (node_val T vals) (snd (fst (searchid T q))),
                     option_map (node_val T vals) (snd (searchid T q))).
  Proof.
    pose proof (searchid_leaves q) as H. unfold search. destruct (searchid T q) as [[l e] rr]. destruct H as (Hl & He & Hr).
    unfold bind. rewrite (opt_leaf_value_stored l Hl), (opt_leaf_value_stored e He), (opt_leaf_value_stored rr Hr). reflexivity.
  Qed.

  Theorem rangeget_values q :
    rangeget T q = Ok (match snd (fst (searchid T q)) with
                       | Some c => Found (node_val T vals c)
                       | None => match fst (fst (searchid T q)) with
                                 | Some c => Found (node_val T vals c)
                                 | None => NotFound
                                 end
                       end).
  Proof.
    pose proof (searchid_leaves q) as H. unfold rangeget. destruct (searchid T q) as [[l e] rr]. destruct H as (Hl & He & Hr).
    cbn [fst snd]. destruct e as [c|].
    - destruct (He c eq_refl) as [H1 H2]. unfold bind. rewrite (leaf_value_stored c H1 H2). reflexivity.
    - destruct l as [c|]; [|reflexivity]. destruct (Hl c eq_refl) as [H1 H2]. unfold bind. rewrite (leaf_value_stored c H1 H2). reflexivity.
  Qed.
End Values.

(* ---------- the entries of the root subset ---------- *)
Definition root_ent (o : opts) (keys : list key) (vals : option (list (list byte))) (i : nat) (k : key) : ent :=
  {| e_key := k; e_nibs := nibs k; e_keep := retained o keys vals i; e_idx := i |}.

Lemma root_ent_nth o keys vals i k :
  nth_error keys i = Some k ->
  nth_error (s_ents (root_subset o keys vals)) i = Some (root_ent o keys vals i k).
Proof. intros H. cbn [root_subset s_ents]. rewrite (mk_ents_nth keys 0 _ i k H). reflexivity. Qed.

Lemma root_ent_in o keys vals e :
  In e (s_ents (root_subset o keys vals)) ->
  exists i k, nth_error keys i = Some k /\ e = root_ent o keys vals i k.
Proof.
  intros H. apply In_nth_error in H. destruct H as (n & Hn).
  assert (n < length keys) as Hlt.
  { assert (n < length (s_ents (root_subset o keys vals))) as H by (apply nth_error_Some; rewrite Hn; discriminate).
    cbn [root_subset s_ents] in H. clear - H. revert H. generalize 0 at 1. generalize (to_keep o (length keys) vals). revert n.
    induction keys as [|k r IH]; intros n kp b H; cbn in *; [lia|]. destruct n; [lia|].
    apply (proj1 (Nat.succ_lt_mono _ _)). eapply IH. apply (proj2 (Nat.succ_lt_mono _ _)). exact H. }
  destruct (nth_error keys n) as [k|] eqn:Ek; [|apply nth_error_None in Ek; lia].
  rewrite (root_ent_nth o keys vals n k Ek) in Hn. inversion Hn; subst e. exists n, k. auto.
Qed.

Lemma root_idx_inj o keys vals a b :
  In a (s_ents (root_subset o keys vals)) -> In b (s_ents (root_subset o keys vals)) -> e_idx a = e_idx b -> a = b.
Proof.
  intros Ha Hb E. destruct (root_ent_in _ _ _ _ Ha) as (i & ka & Hka & ->). destruct (root_ent_in _ _ _ _ Hb) as (j & kb & Hkb & ->).
  cbn [e_idx root_ent] in E. subst j. rewrite Hka in Hkb. inversion Hkb. reflexivity.
Qed.

(* order of entries = order of their indexes *)
Lemma mk_ents_idx_sorted : forall keys b keep, StronglySorted (fun x y => e_idx x < e_idx y) (mk_ents b keys keep).
Proof.
  induction keys as [|k r IH]; intros b keep; cbn [mk_ents]; constructor; [apply IH|].
  assert (forall l b0 kp x, In x (mk_ents b0 l kp) -> b0 <= e_idx x) as Hge.
  { induction l as [|k0 l IHl]; intros b0 kp x Hx; cbn [mk_ents] in Hx; [destruct Hx|].
    destruct Hx as [<-|Hx]; [cbn; lia|]. specialize (IHl _ _ _ Hx). lia. }
  rewrite Forall_forall. intros x Hx. specialize (Hge _ _ _ _ Hx). cbn. lia.
Qed.

Lemma SS_both {A} (R S : A -> A -> Prop) l :
  StronglySorted R l -> StronglySorted S l -> (forall x y, S x y -> S y x -> False) -> (forall x, ~ S x x) ->
  forall a b, In a l -> In b l -> S a b -> R a b.
Proof.
  intros HR HS Hasym Hirr. induction l as [|x l IH]; intros a b Ha Hb Hab; [destruct Ha|].
  inversion HR as [|? ? HR' HRf]; inversion HS as [|? ? HS' HSf]; subst. rewrite Forall_forall in HRf, HSf.
  destruct Ha as [<-|Ha], Hb as [<-|Hb].
  - exfalso. eapply Hirr; exact Hab.
  - apply HRf. exact Hb.
  - exfalso. eapply Hasym; [exact Hab|apply HSf; exact Ha].
  - apply IH; assumption.
Qed.

Lemma ent_lt_irrefl a : ~ ent_lt a a.
Proof. unfold ent_lt. rewrite lex_cmp_refl. discriminate. Qed.

Lemma ent_lt_trans a b c : ent_lt a b -> ent_lt b c -> ent_lt a c.
Proof. unfold ent_lt. apply lex_lt_trans. Qed.

Lemma SS_ent_NoDup l : StronglySorted ent_lt l -> NoDup l.
Proof.
  induction 1 as [|x l Hs IH Hf]; constructor; [|exact IH].
  intros Hin. rewrite Forall_forall in Hf. eapply ent_lt_irrefl. apply Hf. exact Hin.
Qed.

Section RootOrder.
  Variables (o : opts) (keys : list key) (vals : option (list (list byte))).
  Hypothesis Hs : AdjSorted keys.
  Hypothesis Hne : keys <> [].
  Let root := root_subset o keys vals.

  Lemma root_idx_lt a b : In a (s_ents root) -> In b (s_ents root) -> (ent_lt a b <-> e_idx a < e_idx b).
  Proof.
    intros Ha Hb.
    pose proof (si_sorted _ (root_inv o keys vals Hs Hne)) as S1.
    pose proof (mk_ents_idx_sorted keys 0 (to_keep o (length keys) vals)) as S2.
    assert (forall x y, In x (s_ents root) -> In y (s_ents root) -> e_idx x < e_idx y -> ent_lt x y) as Hfwd.
    { intros x y Hx Hy Hlt. apply (SS_both ent_lt (fun u v => e_idx u < e_idx v) (s_ents root) S1 S2); try assumption; intros; lia. }
    split; [|apply Hfwd; assumption].
    intros Hlt. destruct (Nat.lt_trichotomy (e_idx a) (e_idx b)) as [H|[H|H]]; [exact H| |].
    - exfalso. rewrite (root_idx_inj o keys vals a b Ha Hb H) in Hlt. eapply ent_lt_irrefl; exact Hlt.
    - exfalso. eapply ent_lt_irrefl. eapply ent_lt_trans; [exact Hlt|apply Hfwd; assumption].
  Qed.

  Lemma kept_NoDup : NoDup (kept root).
  Proof.
    pose proof (si_sorted _ (root_inv o keys vals Hs Hne)) as S1.
    apply (SS_filter _ e_keep) in S1. apply SS_ent_NoDup. exact S1.
  Qed.
End RootOrder.

Lemma NoDup_split_unique {A} (x : A) l1 r1 l2 r2 :
  NoDup (l1 ++ x :: r1) -> l1 ++ x :: r1 = l2 ++ x :: r2 -> l1 = l2 /\ r1 = r2.
Proof.
  revert l2; induction l1 as [|a l1 IH]; intros l2 Hnd Heq.
  - destruct l2 as [|b l2]; cbn in *.
    + inversion Heq; auto.
    + inversion Heq; subst. inversion Hnd as [|? ? Hnot _]; subst. exfalso. apply Hnot. apply in_or_app. right; left; reflexivity.
  - destruct l2 as [|b l2]; cbn in *.
    + inversion Heq; subst. inversion Hnd as [|? ? Hnot _]; subst. exfalso. apply Hnot. apply in_or_app. right; left; reflexivity.
    + inversion Heq; subst. inversion Hnd as [|? ? _ Hnd']; subst.
      destruct (IH l2 Hnd' H1) as [-> ->]. auto.
Qed.

Lemma last_opt_map {A B} (f : A -> B) l : last_opt (map f l) = option_map f (last_opt l).
Proof.
  induction l as [|a l IH]; [reflexivity|]. destruct l as [|b l']; [reflexivity|]. exact IH.
Qed.

Lemma hd_opt_map {A B} (f : A -> B) l : hd_opt (map f l) = option_map f (hd_opt l).
Proof. destruct l; reflexivity. Qed.

Lemma node_val_oidx T vals x :
  (forall n, x = Some n -> is_leaf n = true) ->
  option_map (node_val T vals) x = option_map (stored T vals) (oidx x).
Proof.
  intros H. destruct x as [n|]; [|reflexivity]. specialize (H n eq_refl).
  destruct n; [reflexivity|discriminate].
Qed.

Lemma option_map_comp_stored T vals (x : option ent) :
  option_map (stored T vals) (option_map e_idx x) = option_map (fun e => stored T vals (e_idx e)) x.
Proof. destruct x; reflexivity. Qed.

(* ---------- C09: Search on a retained key, every mode ---------- *)
Theorem search_retained_gen b0 o keys vals T i k P S :
  build_gen b0 o keys vals = Ok T ->
  nth_error keys i = Some k ->
  map e_idx (kept (root_subset o keys vals)) = P ++ i :: S ->
  search T k = Ok (option_map (stored T vals) (last_opt P), Some (stored T vals i), option_map (stored T vals) (hd_opt S)).
Proof.
  intros Hb Hk HPS. destruct (build_gen_ok b0 _ _ _ _ Hb) as [[-> _]|(r & lidx & B)]; [destruct i; discriminate|].
  set (root := root_subset o keys vals) in *.
  pose proof (bt_sorted _ _ _ _ _ _ B) as Hs. pose proof (bt_nonempty _ _ _ _ _ _ B) as Hne.
  set (e := root_ent o keys vals i k).
  assert (In e (s_ents root)) as He by (eapply nth_error_In; apply root_ent_nth; exact Hk).
  (* decompose the kept list at e *)
  apply map_eq_app in HPS. destruct HPS as (P' & R' & HK & HP & HR).
  apply map_eq_cons in HR. destruct HR as (e' & S' & -> & Hi & HS).
  assert (In e' (kept root)) as He' by (rewrite HK; apply in_or_app; right; left; reflexivity).
  assert (e' = e) as ->.
  { apply filter_In in He'. apply (root_idx_inj o keys vals); [tauto|exact He|exact Hi]. }
  assert (mem (nibs k) root e) as Hmem by (split; [exact He|reflexivity]).
  pose proof (searchid_spec o keys vals T r lidx B k (or_introl (ex_intro _ e Hmem))) as Hsp.
  pose proof (searchid_leaves o keys vals T r lidx B k) as Hlv.
  rewrite (search_values o keys vals T r lidx B k).
  destruct (searchid T k) as [[l eq] rr]. destruct Hlv as (Hl1 & Hl2 & Hl3). cbn [fst snd] in *.
  destruct Hsp as (Bl & Ar & HB & HA & HL & HR & Heq). cbn [fst snd] in HL, HR, Heq.
  destruct eq as [c|].
  - destruct Heq as (x & HKx & Hc & _ & Hx & _). rewrite <- (Hx e Hmem) in *.
    assert (kept root = Bl ++ x :: Ar) as HKx' by exact HKx. rewrite HK in HKx'.
    destruct (NoDup_split_unique x P' S' Bl Ar) as [-> ->]; [rewrite <- HK; apply kept_NoDup; assumption|exact HKx'|].
    rewrite (node_val_oidx T vals l (fun n H => proj2 (Hl1 n H))), (node_val_oidx T vals rr (fun n H => proj2 (Hl3 n H))).
    rewrite HL, HR. rewrite <- HP, <- HS, last_opt_map, hd_opt_map. rewrite !option_map_comp_stored.
    cbn [option_map]. unfold node_val. rewrite Hc, Hi. reflexivity.
  - exfalso. assert (kept root = Bl ++ Ar) as Heq' by exact Heq. assert (In e (Bl ++ Ar)) as Hin by (rewrite <- Heq'; exact He').
    apply in_app_or in Hin. destruct Hin as [Hin|Hin].
    + rewrite Forall_forall in HB. specialize (HB e Hin). unfold lt_q in HB. cbn [e e_nibs root_ent] in HB. rewrite lex_cmp_refl in HB. discriminate.
    + rewrite Forall_forall in HA. specialize (HA e Hin). unfold gt_q in HA. cbn [e e_nibs root_ent] in HA. rewrite lex_cmp_refl in HA. discriminate.
Qed.

Theorem search_retained o keys vals T i k P S :
  build o keys vals = Ok T ->
  nth_error keys i = Some k ->
  map e_idx (kept (root_subset o keys vals)) = P ++ i :: S ->
  search T k = Ok (option_map (stored T vals) (last_opt P), Some (stored T vals i), option_map (stored T vals) (hd_opt S)).
Proof. exact (search_retained_gen true o keys vals T i k P S). Qed.

(* ---------- C03: complete mode is an exact ordered map ---------- *)
Theorem complete_exact_gen b0 o keys vals T q :
  build_gen b0 o keys vals = Ok T -> keys <> [] -> o_inner o = true -> o_leaf o = true ->
  let root := root_subset o keys vals in
  let sv := fun x => stored T vals (e_idx x) in
  exists Bl Ar,
    Forall (fun x => key_lt (e_key x) q) Bl /\ Forall (fun x => key_lt q (e_key x)) Ar /\
    ((kept root = Bl ++ Ar /\ getid T q = None /\ get T q = Ok NotFound /\
      search T q = Ok (option_map sv (last_opt Bl), None, option_map sv (hd_opt Ar)) /\
      rangeget T q = Ok (match last_opt Bl with Some x => Found (sv x) | None => NotFound end))
     \/
     (exists x, kept root = Bl ++ x :: Ar /\ e_key x = q /\ (exists id, getid T q = Some id) /\
                get T q = Ok (Found (sv x)) /\
                search T q = Ok (option_map sv (last_opt Bl), Some (sv x), option_map sv (hd_opt Ar)) /\
                rangeget T q = Ok (Found (sv x)))).
Proof.
  intros Hb Hne Hinner Hleaf root sv. subst root.
  destruct (build_gen_ok b0 _ _ _ _ Hb) as [[-> _]|(r & lidx & B)]; [congruence|].
  pose proof (root_inv o keys vals (bt_sorted _ _ _ _ _ _ B) Hne) as I.
  pose proof (searchid_spec o keys vals T r lidx B q (or_intror Hinner)) as Hsp.
  pose proof (searchid_leaves o keys vals T r lidx B q) as Hlv.
  pose proof (searchid_eq_getid o keys vals T r lidx q B) as Hge.
  pose proof (search_values o keys vals T r lidx B q) as Hsv.
  pose proof (rangeget_values o keys vals T r lidx B q) as Hrv.
  destruct (searchid T q) as [[l eq] rr]. destruct Hlv as (Hl1 & Hl2 & Hl3). cbn [fst snd] in *.
  destruct Hsp as (Bl & Ar & HB & HA & HL & HR & Heq). cbn [fst snd] in HL, HR, Heq.
  assert (forall x, In x (kept (root_subset o keys vals)) -> ent_ok x) as Hok.
  { intros x Hx. apply filter_In in Hx. pose proof (si_ok _ I) as H. rewrite Forall_forall in H. apply H. tauto. }
  rewrite (node_val_oidx T vals l (fun n H => proj2 (Hl1 n H))), (node_val_oidx T vals rr (fun n H => proj2 (Hl3 n H))) in Hsv.
  rewrite HL, HR, !option_map_comp_stored in Hsv.
  exists Bl, Ar.
  assert (forall x, In x (kept (root_subset o keys vals)) -> lt_q (nibs q) x -> key_lt (e_key x) q) as Hlt
    by (intros x Hx H; unfold lt_q in H; rewrite (Hok x Hx) in H; exact H).
  assert (forall x, In x (kept (root_subset o keys vals)) -> gt_q (nibs q) x -> key_lt q (e_key x)) as Hgt
    by (intros x Hx H; unfold gt_q in H; rewrite (Hok x Hx) in H; exact H).
  destruct eq as [c|].
  - destruct Heq as (x & HK & Hc & Hkeep & _ & Hnib). specialize (Hnib Hleaf).
    assert (In x (kept (root_subset o keys vals))) as Hx by (rewrite HK; apply in_or_app; right; left; reflexivity).
    split; [rewrite Forall_forall in *; intros y Hy; apply Hlt; [rewrite HK; apply in_or_app; left; exact Hy|apply HB; exact Hy]|].
    split; [rewrite Forall_forall in *; intros y Hy; apply Hgt; [rewrite HK; apply in_or_app; right; right; exact Hy|apply HA; exact Hy]|].
    right. exists x. split; [exact HK|].
    split; [apply nibs_inj; rewrite <- (Hok x Hx); exact Hnib|].
    assert (node_val T vals c = sv x) as Hnv by (unfold node_val, sv; rewrite Hc; reflexivity).
    destruct (Hl2 c eq_refl) as [Hsub Hcl].
    split; [unfold getid; rewrite <- Hge; cbn; eauto|].
    split; [unfold get; rewrite <- Hge; unfold bind; rewrite (leaf_value_stored o keys vals T r lidx B c Hsub Hcl), Hnv; reflexivity|].
    split; [rewrite Hsv; cbn [option_map]; rewrite Hnv; reflexivity|].
    rewrite Hrv, Hnv. reflexivity.
  - split; [rewrite Forall_forall in *; intros y Hy; apply Hlt; [rewrite Heq; apply in_or_app; left; exact Hy|apply HB; exact Hy]|].
    split; [rewrite Forall_forall in *; intros y Hy; apply Hgt; [rewrite Heq; apply in_or_app; right; exact Hy|apply HA; exact Hy]|].
    left. split; [exact Heq|].
    split; [unfold getid; rewrite <- Hge; reflexivity|].
    split; [unfold get; rewrite <- Hge; reflexivity|].
    split; [rewrite Hsv; reflexivity|].
    rewrite Hrv. destruct l as [n|].
    + destruct (Hl1 n eq_refl) as [_ Hnl]. destruct n as [id ord tail eidx|]; [|discriminate].
      cbn [oidx leaf_eidx] in HL. destruct (last_opt Bl) as [x|]; [|discriminate]. cbn in HL. inversion HL.
      unfold node_val, sv. cbn [leaf_eidx]. reflexivity.
    + cbn [oidx] in HL. destruct (last_opt Bl); [discriminate|reflexivity].
Qed.

Theorem complete_exact o keys vals T q :
  build o keys vals = Ok T -> keys <> [] -> o_inner o = true -> o_leaf o = true ->
  let root := root_subset o keys vals in
  let sv := fun x => stored T vals (e_idx x) in
  exists Bl Ar,
    Forall (fun x => key_lt (e_key x) q) Bl /\ Forall (fun x => key_lt q (e_key x)) Ar /\
    ((kept root = Bl ++ Ar /\ getid T q = None /\ get T q = Ok NotFound /\
      search T q = Ok (option_map sv (last_opt Bl), None, option_map sv (hd_opt Ar)) /\
      rangeget T q = Ok (match last_opt Bl with Some x => Found (sv x) | None => NotFound end))
     \/
     (exists x, kept root = Bl ++ x :: Ar /\ e_key x = q /\ (exists id, getid T q = Some id) /\
                get T q = Ok (Found (sv x)) /\
                search T q = Ok (option_map sv (last_opt Bl), Some (sv x), option_map sv (hd_opt Ar)) /\
                rangeget T q = Ok (Found (sv x)))).
Proof. exact (complete_exact_gen true o keys vals T q). Qed.

(* ---------- C02: RangeGet on every indexed key ---------- *)
Lemma run_value o keys vs : length vs = length keys ->
  forall i, i < length keys ->
  exists j, j <= i /\ retained o keys (Some vs) j = true /\
            (forall m, j < m -> m <= i -> retained o keys (Some vs) m = false) /\
            nth j vs [] = nth i vs [].
Proof.
  intros Hl. induction i as [|i IH]; intros Hi.
  - exists 0. split; [lia|]. split; [|split; [intros; lia|reflexivity]].
    pose proof (retained_spec o keys (Some vs) 0 Hi Hl) as H. apply H. auto.
  - destruct (retained o keys (Some vs) (S i)) eqn:Er.
    + exists (S i). split; [lia|]. split; [exact Er|]. split; [intros; lia|reflexivity].
    + destruct (IH ltac:(lia)) as (j & Hj & Hr & Hrun & Hv).
      exists j. split; [lia|]. split; [exact Hr|]. split.
      * intros m H1 H2. destruct (Nat.eq_dec m (S i)) as [->|]; [exact Er|apply Hrun; lia].
      * rewrite Hv. pose proof (retained_spec o keys (Some vs) (S i) Hi Hl) as H.
        destruct (list_eq_dec Byte.byte_eq_dec (nth i vs []) (nth (S i) vs [])) as [E|E]; [exact E|].
        exfalso. assert (retained o keys (Some vs) (S i) = true) as Ht.
        { apply H. right; right. replace (S i - 1) with i by lia. exact E. }
        congruence.
Qed.

Lemma last_of_sorted_max {A} (R : A -> A -> Prop) l x :
  StronglySorted R l -> In x l -> (forall y, In y l -> y = x \/ R y x) -> (forall y, ~ R y y) ->
  (forall a b, R a b -> R b a -> False) -> last_opt l = Some x.
Proof.
  intros Hs Hin Hmax Hirr Hasym. induction Hs as [|a l Hs IH Hf]; [destruct Hin|].
  rewrite Forall_forall in Hf. destruct l as [|b l'].
  - destruct Hin as [<-|[]]. reflexivity.
  - change (last_opt (a :: b :: l')) with (last_opt (b :: l')). apply IH.
    + destruct Hin as [<-|Hin]; [|exact Hin]. exfalso.
      destruct (Hmax b (or_intror (or_introl eq_refl))) as [E|E].
      * subst b. eapply Hirr. apply Hf. left; reflexivity.
      * eapply Hasym; [exact E|apply Hf; left; reflexivity].
    + intros y Hy. apply Hmax. right. exact Hy.
Qed.

Theorem rangeget_indexed_gen b0 o keys vals T i k :
  build_gen b0 o keys vals = Ok T ->
  nth_error keys i = Some k ->
  match vals with Some vs => length vs = length keys | None => True end ->
  exists v, rangeget T k = Ok (Found v) /\ val_bytes v = supplied vals i /\ (vals = None -> v = None).
Proof.
  intros Hb Hk Hwf.
  destruct (retained o keys vals i) eqn:Er.
  { (* retained: Get finds it and RangeGet follows Get *)
    destruct (kept_key_found_gen b0 o keys vals T i k Hb Hk Er) as (_ & v & Hg & Hv & Hn).
    destruct (lookups_total_consistent_gen b0 o keys vals T k Hb) as (_ & _ & _ & _ & _ & _ & Hrg & _).
    exists v. split; [apply Hrg; exact Hg|auto]. }
  (* de-duplicated away: the value equals that of the last retained key before it *)
  assert (i < length keys) as Hi by (apply nth_error_Some; rewrite Hk; discriminate).
  destruct vals as [vs|]; [|pose proof (retained_spec o keys None i Hi) as H; cbv beta iota in H; rewrite H in Er; discriminate].
  destruct (build_gen_ok b0 _ _ _ _ Hb) as [[-> _]|(r & lidx & B)]; [destruct i; discriminate|].
  pose proof (bt_sorted _ _ _ _ _ _ B) as Hs. pose proof (bt_nonempty _ _ _ _ _ _ B) as Hne.
  pose proof (root_inv o keys (Some vs) Hs Hne) as I.
  set (e := root_ent o keys (Some vs) i k).
  assert (In e (s_ents (root_subset o keys (Some vs)))) as He by (eapply nth_error_In; apply root_ent_nth; exact Hk).
  assert (mem (nibs k) (root_subset o keys (Some vs)) e) as Hmem by (split; [exact He|reflexivity]).
  pose proof (searchid_spec o keys (Some vs) T r lidx B k (or_introl (ex_intro _ e Hmem))) as Hsp.
  pose proof (searchid_leaves o keys (Some vs) T r lidx B k) as Hlv.
  rewrite (rangeget_values o keys (Some vs) T r lidx B k).
  destruct (searchid T k) as [[l eq] rr]. destruct Hlv as (Hl1 & _ & _). cbn [fst snd] in *.
  destruct Hsp as (Bl & Ar & HB & HA & HL & _ & Heq). cbn [fst snd] in HL, Heq.
  destruct eq as [c|].
  { exfalso. destruct Heq as (x & _ & _ & Hkeep & Hx & _). rewrite (Hx e Hmem) in Hkeep. cbn [e e_keep root_ent] in Hkeep. congruence. }
  destruct (run_value o keys vs Hwf i Hi) as (j & Hji & Hrj & Hrun & Hvj).
  assert (j < i) as Hlt by (destruct (Nat.eq_dec j i) as [->|]; [congruence|lia]).
  destruct (nth_error keys j) as [kj|] eqn:Ekj; [|apply nth_error_None in Ekj; lia].
  set (ej := root_ent o keys (Some vs) j kj).
  assert (In ej (s_ents (root_subset o keys (Some vs)))) as Hej by (eapply nth_error_In; apply root_ent_nth; exact Ekj).
  assert (In ej (kept (root_subset o keys (Some vs)))) as Hejk by (apply filter_In; split; [exact Hej|exact Hrj]).
  (* ej lies on the left of the split, and it is the last element there *)
  assert (forall y, In y (kept (root_subset o keys (Some vs))) -> In y (s_ents (root_subset o keys (Some vs))) /\ e_keep y = true) as Hkin
    by (intros y Hy; apply filter_In in Hy; exact Hy).
  assert (forall y, In y Bl -> e_idx y < i) as HBl.
  { intros y Hy. assert (In y (kept (root_subset o keys (Some vs)))) as Hyk by (rewrite Heq; apply in_or_app; left; exact Hy).
    rewrite Forall_forall in HB. specialize (HB y Hy). unfold lt_q in HB.
    apply (proj1 (root_idx_lt o keys (Some vs) Hs Hne y e (proj1 (Hkin y Hyk)) He)). exact HB. }
  assert (forall y, In y Ar -> i < e_idx y) as HAr.
  { intros y Hy. assert (In y (kept (root_subset o keys (Some vs)))) as Hyk by (rewrite Heq; apply in_or_app; right; exact Hy).
    rewrite Forall_forall in HA. specialize (HA y Hy). unfold gt_q in HA.
    apply (proj1 (root_idx_lt o keys (Some vs) Hs Hne e y He (proj1 (Hkin y Hyk)))). exact HA. }
  assert (In ej Bl) as HejB.
  { rewrite Heq in Hejk. apply in_app_or in Hejk. destruct Hejk as [H|H]; [exact H|]. specialize (HAr ej H). cbn in HAr. lia. }
  assert (last_opt Bl = Some ej) as Hlast.
  { apply (last_of_sorted_max (fun a b => e_idx a < e_idx b)).
    - (* Bl is a prefix of the kept list, which is sorted by index *)
      pose proof (mk_ents_idx_sorted keys 0 (to_keep o (length keys) (Some vs))) as S2.
      apply (SS_filter _ e_keep) in S2. change (filter e_keep (mk_ents 0 keys (to_keep o (length keys) (Some vs)))) with (kept (root_subset o keys (Some vs))) in S2.
      rewrite Heq in S2. apply SS_app_inv in S2. tauto.
    - exact HejB.
    - intros y Hy. destruct (Nat.eq_dec (e_idx y) j) as [E|E].
      + left. assert (In y (kept (root_subset o keys (Some vs)))) as Hyk by (rewrite Heq; apply in_or_app; left; exact Hy).
        apply (root_idx_inj o keys (Some vs)); [apply Hkin; exact Hyk|exact Hej|exact E].
      + right. cbn [ej e_idx root_ent]. assert (e_idx y < i) by (apply HBl; exact Hy).
        assert (In y (kept (root_subset o keys (Some vs)))) as Hyk by (rewrite Heq; apply in_or_app; left; exact Hy).
        destruct (Nat.lt_ge_cases j (e_idx y)) as [Hgt|]; [|lia].
        exfalso. destruct (root_ent_in o keys (Some vs) y (proj1 (Hkin y Hyk))) as (iy & ky & Hky & Ey).
        assert (e_keep y = retained o keys (Some vs) (e_idx y)) as Hky2 by (rewrite Ey; reflexivity).
        rewrite (proj2 (Hkin y Hyk)) in Hky2. rewrite (Hrun (e_idx y) Hgt ltac:(lia)) in Hky2. discriminate.
    - intros y. lia.
    - intros a b. lia. }
  rewrite Hlast in HL. destruct l as [n|]; [|discriminate].
  destruct (Hl1 n eq_refl) as [_ Hnl]. destruct n as [id ord tail eidx|]; [|discriminate].
  cbn [oidx leaf_eidx option_map ej e_idx root_ent] in HL. inversion HL; subst eidx.
  unfold node_val. cbn [leaf_eidx].
  assert (exists ord', nth_error lidx ord' = Some j) as Hord.
  { destruct (Hl1 _ eq_refl) as [Hsub _]. exists ord. apply leaf_subtree_leaves in Hsub.
    exact (leaf_ok_root_nth lidx r ord j (bt_leaf _ _ _ _ _ _ B) Hsub). }
  destruct (stored_bytes T (Some vs) j o keys r lidx B Hord) as [Hsb _].
  exists (stored T (Some vs) j). split; [reflexivity|]. split; [|discriminate].
  rewrite Hsb. cbn [supplied]. exact Hvj.
Qed.

Theorem rangeget_indexed o keys vals T i k :
  build o keys vals = Ok T ->
  nth_error keys i = Some k ->
  match vals with Some vs => length vs = length keys | None => True end ->
  exists v, rangeget T k = Ok (Found v) /\ val_bytes v = supplied vals i /\ (vals = None -> v = None).
Proof. exact (rangeget_indexed_gen true o keys vals T i k). Qed.
