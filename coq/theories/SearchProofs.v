(* SearchProofs.v - what searchID / Search / RangeGet return, in terms of the
   kept entries in key order:
     - for a query that is a key of the build input (any mode): C09, C02
     - for every query string when inner and leaf prefixes are stored: C03 *)
From Slim Require Import Base Keys KeysProofs ListFacts Model TrieInv BuildProofs QueryProofs ConsistProofs OrderProofs.
From Coq Require Import Sorting.Sorted ZifyNat ZifyBool.

Arguments Nat.div : simpl never.
Arguments Nat.modulo : simpl never.

Definition oidx (t : option tree) : option nat := match t with Some n => leaf_eidx n | None => None end.

Lemma leaf_self_leftmost c : is_leaf c = true -> leftmost c = c.
Proof. destruct c; [reflexivity|discriminate]. Qed.
Lemma leaf_self_rightmost c : is_leaf c = true -> rightmost c = c.
Proof. destruct c; [reflexivity|discriminate]. Qed.

Lemma leaf_tail_or_nil o x i :
  o_leaf o = true -> match leaf_tail o x i with Some t => t | None => [] end = skipn (i / 2) (e_key x).
Proof. intros H. unfold leaf_tail. rewrite H. destruct (skipn (i / 2) (e_key x)); reflexivity. Qed.

Section Search.
  Variables (o : opts) (keys : list key) (vals : option (list (list byte))) (T : trie) (r : tree) (lidx : list nat).
  Hypothesis B : Built o keys vals T r lidx.
  Variable q : key.
  Let qn := nibs q.
  Let root := root_subset o keys vals.

  Lemma qn16 : Forall (fun x => x < 16) qn.
  Proof. apply nibs_lt. Qed.
  Lemma qneven : Nat.even (length qn) = true.
  Proof. unfold qn. rewrite nibs_length. apply Nat.even_spec. exists (length q). lia. Qed.

  Let I : SubInv root := root_inv o keys vals (bt_sorted _ _ _ _ _ _ B) (bt_nonempty _ _ _ _ _ _ B).

  Lemma root_agree : agree root (s_from root) qn.
  Proof. split; [cbn; lia|]. intros a _. reflexivity. Qed.

  (* the result of searchID, described on the kept entries of the build input *)
  Definition SearchSpec (res : option tree * option tree * option tree) : Prop :=
    exists Bl Ar, Forall (lt_q qn) Bl /\ Forall (gt_q qn) Ar /\
      oidx (fst (fst res)) = option_map e_idx (last_opt Bl) /\
      oidx (snd res) = option_map e_idx (hd_opt Ar) /\
      match snd (fst res) with
      | None => kept root = Bl ++ Ar
      | Some c => exists x, kept root = Bl ++ x :: Ar /\ leaf_eidx c = Some (e_idx x) /\ e_keep x = true /\
                            (forall e, mem qn root e -> x = e) /\ (o_leaf o = true -> e_nibs x = qn)
      end.

  Lemma Lok_none lc Bl : Lok lc Bl None -> oidx (option_map rightmost lc) = option_map e_idx (last_opt Bl).
  Proof.
    unfold Lok. destruct (last_opt Bl) as [x|]; [intros (n & -> & H); exact H|intros ->; reflexivity].
  Qed.
  Lemma Rok_none rc Ar : Rok rc Ar None -> oidx (option_map leftmost rc) = option_map e_idx (hd_opt Ar).
  Proof.
    unfold Rok. destruct (hd_opt Ar) as [x|]; [intros (n & -> & H); exact H|intros ->; reflexivity].
  Qed.

  (* the final comparison of searchID against the leaf tail is the comparison of the keys *)
  Lemma tail_cmp x c i v :
    o_leaf o = true -> ent_ok x -> hit o qn x c i v ->
    bytes_cmp (skipn (i / 2) q) (match sess_tail c v with Some t => t | None => [] end) = lex_cmp qn (e_nibs x).
  Proof.
    intros Hleaf Hok ((id & ord & ->) & Hil & Hix & Hag & Hv).
    assert (length qn = 2 * length q) as Lq by (unfold qn; apply nibs_length).
    assert (length (e_nibs x) = 2 * length (e_key x)) as Lx by (rewrite Hok; apply nibs_length).
    destruct v.
    - cbn [sess_tail].
      match goal with |- bytes_cmp _ ?t = _ => assert (t = skipn (i / 2) (e_key x)) as -> by (apply leaf_tail_or_nil; exact Hleaf) end.
      rewrite bytes_cmp_nibs, <- !skipn_nibs. fold qn. rewrite <- Hok.
      symmetry. apply lex_cmp_skipn. symmetry.
      apply (firstn_le_agree _ _ i); [lia|exact Hag].
    - cbn [sess_tail]. destruct (Hv eq_refl) as [Hl Hlx].
      replace (i / 2) with (length q) by lia. rewrite skipn_all. cbn.
      assert (e_nibs x = qn) as ->.
      { rewrite <- (firstn_all (e_nibs x)), <- (firstn_all qn), <- Hlx, <- Hl. exact Hag. }
      rewrite lex_cmp_refl. reflexivity.
  Qed.

  Lemma searchid_spec : justified o root qn -> SearchSpec (searchid T q).
  Proof.
    intros J.
    pose proof (search_down_split o qn qn16 qneven r root (bt_trie _ _ _ _ _ _ B) I root_agree J None None) as Hsp.
    unfold searchid. rewrite (bt_root _ _ _ _ _ _ B). cbv zeta. fold qn.
    change (s_from root) with 0 in Hsp.
    destruct (search_down qn (length qn) r 0 None None) as [[lc eq] rc] eqn:Esd.
    destruct Hsp as (Bl & Ar & HL & HR & HB & HA & Hseq). unfold seq in Hseq. cbn [fst snd] in HL, HR, Hseq.
    destruct eq as [[[c i] v]|].
    - destruct Hseq as (x & HK & Hkeep & Hhit & Hmem).
      pose proof Hhit as ((id & ord & Hc) & Hil & Hix & Hag & Hv).
      destruct (Nat.leb_spec i (length qn)) as [_|]; [|lia].
      assert (In x (s_ents root)) as Hxin.
      { assert (In x (kept root)) as H by (rewrite HK; apply in_or_app; right; left; reflexivity). apply filter_In in H. tauto. }
      assert (ent_ok x) as Hok by (pose proof (si_ok _ I) as H; rewrite Forall_forall in H; apply H; exact Hxin).
      rewrite (bt_leafpfx _ _ _ _ _ _ B).
      destruct (o_leaf o) eqn:Eleaf.
      + rewrite (tail_cmp x c i v Eleaf Hok Hhit).
        destruct (lex_cmp qn (e_nibs x)) eqn:Ecmp; cbn [fst snd option_map].
        * exists Bl, Ar. split; [exact HB|]. split; [exact HA|]. split; [apply Lok_none; exact HL|]. split; [apply Rok_none; exact HR|].
          exists x. split; [exact HK|]. split; [rewrite Hc; reflexivity|]. split; [exact Hkeep|]. split; [exact Hmem|].
          intros _. symmetry. apply lex_cmp_eq. exact Ecmp.
        * (* query below the leaf's key: the leaf is the right neighbour *)
          exists Bl, (x :: Ar). split; [exact HB|]. split; [constructor; [exact Ecmp|exact HA]|].
          split; [apply Lok_none; exact HL|]. split; [rewrite Hc; reflexivity|exact HK].
        * exists (Bl ++ [x]), Ar. split; [apply Forall_app; split; [exact HB|constructor; [|constructor]]|].
          { unfold lt_q. rewrite lex_cmp_antisym, Ecmp. reflexivity. }
          split; [exact HA|]. split; [rewrite last_opt_app by discriminate; rewrite Hc; reflexivity|].
          split; [apply Rok_none; exact HR|]. rewrite <- app_assoc. exact HK.
      + cbn [fst snd option_map].
        exists Bl, Ar. split; [exact HB|]. split; [exact HA|]. split; [apply Lok_none; exact HL|]. split; [apply Rok_none; exact HR|].
        exists x. split; [exact HK|]. split; [rewrite Hc; reflexivity|]. split; [exact Hkeep|]. split; [exact Hmem|intros Hd; congruence].
    - cbn [fst snd option_map].
      exists Bl, Ar. split; [exact HB|]. split; [exact HA|]. split; [apply Lok_none; exact HL|]. split; [apply Rok_none; exact HR|exact Hseq].
  Qed.
End Search.

(* ---------- values of the nodes of a search result ---------- *)
Definition stored (T : trie) (vals : option (list (list byte))) (i : nat) : option (list byte) :=
  match t_leaves T with None => None | Some _ => Some (supplied vals i) end.

Definition node_val (T : trie) (vals : option (list (list byte))) (n : tree) : option (list byte) :=
  match leaf_eidx n with Some i => stored T vals i | None => None end.

Lemma stored_bytes T vals i o keys r lidx :
  Built o keys vals T r lidx -> (exists ord, nth_error lidx ord = Some i) ->
  val_bytes (stored T vals i) = supplied vals i /\ (vals = None -> stored T vals i = None).
Proof.
  intros B (ord & Hn). unfold stored. rewrite (bt_leaves _ _ _ _ _ _ B). unfold select_leaves, supplied.
  destruct vals as [vs|]; [|split; reflexivity].
  destruct (total_size (map (fun i0 => nth i0 vs []) lidx) =? 0) eqn:Ez.
  - split; [|discriminate]. apply Nat.eqb_eq in Ez. apply total_size_zero in Ez. rewrite Forall_forall in Ez.
    cbn. symmetry. apply Ez. apply in_map_iff. exists i. split; [reflexivity|eapply nth_error_In; exact Hn].
  - split; [reflexivity|discriminate].
Qed.

Section Values.
  Variables (o : opts) (keys : list key) (vals : option (list (list byte))) (T : trie) (r : tree) (lidx : list nat).
  Hypothesis B : Built o keys vals T r lidx.

  Lemma leaf_value_stored c :
    In c (subtrees r) -> is_leaf c = true -> leaf_value T c = Ok (node_val T vals c).
  Proof.
    intros Hsub Hleaf. destruct c as [id ord tail eidx|]; [|discriminate].
    pose proof (leaf_subtree_leaves _ _ _ _ _ Hsub) as Hl.
    pose proof (leaf_ok_root_nth lidx r ord eidx (bt_leaf _ _ _ _ _ _ B) Hl) as Hn.
    unfold leaf_value, node_val, stored. cbn [leaf_eidx]. rewrite (bt_leaves _ _ _ _ _ _ B).
    unfold select_leaves, supplied. destruct vals as [vs|]; [|reflexivity].
    destruct (total_size (map (fun i => nth i vs []) lidx) =? 0); [reflexivity|].
    rewrite (nth_error_map_some (fun i => nth i vs []) lidx ord eidx Hn). reflexivity.
  Qed.

  (* every node of a searchID result is a leaf of the tree *)
  Lemma searchid_leaves q :
    let '(l, e, rr) := searchid T q in
    (forall n, l = Some n -> In n (subtrees r) /\ is_leaf n = true) /\
    (forall n, e = Some n -> In n (subtrees r) /\ is_leaf n = true) /\
    (forall n, rr = Some n -> In n (subtrees r) /\ is_leaf n = true).
  Proof.
    pose proof (root_inv o keys vals (bt_sorted _ _ _ _ _ _ B) (bt_nonempty _ _ _ _ _ _ B)) as I.
    pose proof (trie_of_has_kids o r _ (bt_trie _ _ _ _ _ _ B) I) as Hk.
    pose proof (searchid_eq_getid o keys vals T r lidx q B) as Heq.
    unfold searchid in *. rewrite (bt_root _ _ _ _ _ _ B) in *. cbv zeta in *.
    pose proof (search_down_from (nibs q) (length (nibs q)) r 0 None None) as [H1 H2].
    pose proof (descend_subtree (nibs q) (length (nibs q)) r 0) as Hds.
    pose proof (search_down_seq o q r _ (bt_trie _ _ _ _ _ _ B) I (Nat.le_0_l _) None None) as Hseq.
    pose proof (descend_facts o q r _ (bt_trie _ _ _ _ _ _ B) I (Nat.le_0_l _)) as Hdf.
    change (s_from (root_subset o keys vals)) with 0 in Hseq, Hdf.
    destruct (search_down (nibs q) (length (nibs q)) r 0 None None) as [[lc0 eq0] rc0] eqn:Esd.
    unfold seq in Hseq. cbn [fst snd] in H1, H2, Hseq.
    assert (forall x, from_tree r None x -> forall n, option_map rightmost x = Some n -> In n (subtrees r) /\ is_leaf n = true) as HR.
    { intros [m|] Hx n Hn; [|discriminate]. cbn in Hn. inversion Hn; subst. cbn in Hx. destruct Hx as [Hx|Hx]; [discriminate|].
      destruct (rightmost_leaf m (has_kids_sub r m Hk Hx)) as [Ha Hb]. split; [eapply subtrees_trans; eassumption|exact Ha]. }
    assert (forall x, from_tree r None x -> forall n, option_map leftmost x = Some n -> In n (subtrees r) /\ is_leaf n = true) as HL.
    { intros [m|] Hx n Hn; [|discriminate]. cbn in Hn. inversion Hn; subst. cbn in Hx. destruct Hx as [Hx|Hx]; [discriminate|].
      destruct (leftmost_leaf m (has_kids_sub r m Hk Hx)) as [Ha Hb]. split; [eapply subtrees_trans; eassumption|exact Ha]. }
    destruct eq0 as [[[c i] v]|].
    - assert (In c (subtrees r)) as Hc by (eapply Hds; symmetry; exact Hseq).
      assert (is_leaf c = true) as Hcl by (eapply Hdf; symmetry; exact Hseq).
      assert (from_tree r None (Some c)) as Hfc by (cbn; right; exact Hc).
      destruct (i <=? length (nibs q)).
      + destruct (if t_leafpfx T then bytes_cmp (skipn (i / 2) q) match sess_tail c v with Some t => t | None => [] end else Eq);
          cbn [fst snd]; (split; [apply HR; assumption|split; [intros n Hn; try discriminate; inversion Hn; subst; auto|apply HL; assumption]]).
      + cbn [fst snd]. split; [apply HR; assumption|split; [intros n Hn; inversion Hn; subst; auto|apply HL; assumption]].
    - cbn [fst snd]. split; [apply HR; assumption|split; [intros n Hn; discriminate|apply HL; assumption]].
  Qed.

  Lemma opt_leaf_value_stored x :
    (forall n, x = Some n -> In n (subtrees r) /\ is_leaf n = true) ->
    opt_leaf_value T x = Ok (option_map (node_val T vals) x).
  Proof.
    intros H. destruct x as [n|]; [|reflexivity]. destruct (H n eq_refl) as [H1 H2].
    cbn [opt_leaf_value option_map]. unfold bind. rewrite (leaf_value_stored n H1 H2). reflexivity.
  Qed.

  Theorem search_values q :
    search T q = Ok (option_map (node_val T vals) (fst (fst (searchid T q))),
                     option_map (node_val T vals) (snd (fst (searchid T q))),
                     option_map (node_val T vals) (snd (searchid T q))).
  Proof.
    pose proof (searchid_leaves q) as H. unfold search. destruct (searchid T q) as [[l e] rr]. destruct H as (Hl & He & Hr).
    unfold bind. rewrite (opt_leaf_value_stored l Hl), (opt_leaf_value_stored e He), (opt_leaf_value_stored rr Hr). reflexivity.
  Qed.

  Theorem rangeget_values q :
    rangeget T q = Ok (match snd (fst (searchid T q)) with
                       | Some c => Found (node_val T vals c)
                       | None => match fst (fst (searchid T q)) with
                                 | Some c => Found (node_val T vals c)
                                 | None => NotFound
                                 end
                       end).
  Proof.
    pose proof (searchid_leaves q) as H. unfold rangeget. destruct (searchid T q) as [[l e] rr]. destruct H as (Hl & He & Hr).
    cbn [fst snd]. destruct e as [c|].
    - destruct (He c eq_refl) as [H1 H2]. unfold bind. rewrite (leaf_value_stored c H1 H2). reflexivity.
    - destruct l as [c|]; [|reflexivity]. destruct (Hl c eq_refl) as [H1 H2]. unfold bind. rewrite (leaf_value_stored c H1 H2). reflexivity.
  Qed.
End Values.
