(* Index.v - executable model of package index (index/index.go): SlimIndex =
   a default-mode SlimTrie of int64 offsets + a DataReader that re-validates the
   key (C12).  Definitions only; proofs in IndexProofs.v.

   A record table is a list of (key, offset, value): [r_off] is the offset the
   index stores for the key - the record's own offset in a dense index, the
   offset of its block in a sparse index (several adjacent keys share it).
   The reader contract of index.DataReader ("check if the record at offset has
   the exact key") is [table_reader]: it answers with the record iff one of the
   records stored at that offset has that key. *)
From Slim Require Import Base Keys Model.
From Slim Require Encoders.
Local Open Scope nat_scope.

Record rcd := { r_key : key; r_off : Z; r_val : list byte }.

(* encode.I64: 8 bytes, signed, little endian (cf. C15_int_codec_table) *)
Definition c_i64 : Encoders.icodec :=
  {| Encoders.ic_width := 8; Encoders.ic_signed := true; Encoders.ic_big := false |}.

Definition raw_default : raw_opt :=
  {| r_dedup := None; r_inner := None; r_leaf := None; r_complete := None |}.

(* NewSlimIndex: trie.NewSlimTrie(encode.I64{}, keys, offsets), no options *)
Definition index_build (rs : list rcd) : res trie :=
  build (normalize raw_default) (map r_key rs)
        (Some (map (fun r => Encoders.int_encode c_i64 (r_off r)) rs)).

Definition reader := Z -> key -> option (list byte).

Definition table_reader (rs : list rcd) : reader := fun off k =>
  match find (fun r => Z.eqb (r_off r) off && bytes_eqb (r_key r) k) rs with
  | Some r => Some (r_val r)
  | None => None
  end.

(* o.(int64) and DataReader.Read on the outcome of the trie lookup.  The trie
   hands back the stored bytes; encode.I64.Decode turns them into the offset. *)
Definition read_found (rd : reader) (q : key) (f : found) : res (option (list byte)) :=
  match f with
  | NotFound => Ok None
  | Found None => Err (EPanic 30)                (* nil interface asserted to int64 *)
  | Found (Some b) =>
      match Encoders.int_decode c_i64 b with
      | Encoders.DPanic => Err (EPanic 31)
      | Encoders.DOk (_, off) => Ok (rd off q)
      end
  end.

Definition index_get (T : trie) (rd : reader) (q : key) : res (option (list byte)) :=
  do f <- get T q; read_found rd q f.

Definition index_rangeget (T : trie) (rd : reader) (q : key) : res (option (list byte)) :=
  do f <- rangeget T q; read_found rd q f.

(* the reference: a plain map from keys to record values *)
Definition lookup (rs : list rcd) (q : key) : option (list byte) :=
  match find (fun r => bytes_eqb (r_key r) q) rs with
  | Some r => Some (r_val r)
  | None => None
  end.

(* ---- well-formedness of record tables, as boolean checks ---- *)
Definition offs_in_range (rs : list rcd) : bool :=
  forallb (fun r => Encoders.in_rangeb true 8 (r_off r)) rs.

Fixpoint offs_increasing (rs : list rcd) : bool :=
  match rs with
  | a :: r => match r with
              | b :: _ => Z.ltb (r_off a) (r_off b) && offs_increasing r
              | [] => true
              end
  | [] => true
  end.

Fixpoint offs_nondecreasing (rs : list rcd) : bool :=
  match rs with
  | a :: r => match r with
              | b :: _ => Z.leb (r_off a) (r_off b) && offs_nondecreasing r
              | [] => true
              end
  | [] => true
  end.

Definition keys_ascending (rs : list rcd) : bool :=
  match check_order (map r_key rs) with None => true | Some _ => false end.

(* driver helper: an int64 from its 8 little-endian two's complement bytes *)
Definition off_of_le_bytes (bs : list byte) : Z := Encoders.unwrap true 8 (Encoders.le_value bs).
