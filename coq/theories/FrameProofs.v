(* FrameProofs.v - proofs about Frame.v: what Unmarshal does with complete
   streams, with strict prefixes of streams of every layout, and with
   incompatible version strings. *)
From Coq Require Import List NArith ZArith Bool Lia.
From Coq Require Import ZifyN ZifyNat ZifyBool.
From Coq.Strings Require Import Byte.
From Slim Require Import Varint VarintProofs Proto ProtoProofs Semver Frame.
Import ListNotations.
Open Scope N_scope.

(* ---- lists ---------------------------------------------------------------------- *)
Lemma firstn_app_exact : forall {A} n (a b : list A), length a = n -> firstn n (a ++ b) = a.
Proof.
  intros A n a b H. subst n. rewrite firstn_app, Nat.sub_diag, firstn_all. cbn [firstn]. apply app_nil_r.
Qed.

Lemma skipn_app_exact : forall {A} n (a b : list A), length a = n -> skipn n (a ++ b) = b.
Proof.
  intros A n a b H. subst n. rewrite skipn_app, Nat.sub_diag, skipn_all. reflexivity.
Qed.

Lemma firstn_app_le : forall {A} n (a b : list A), (n <= length a)%nat -> firstn n (a ++ b) = firstn n a.
Proof.
  intros A n a b H. rewrite firstn_app. replace (n - length a)%nat with 0%nat by lia.
  cbn [firstn]. apply app_nil_r.
Qed.

Lemma firstn_app_ge : forall {A} n (a b : list A),
  (length a <= n)%nat -> firstn n (a ++ b) = a ++ firstn (n - length a) b.
Proof.
  intros A n a b H. rewrite firstn_app. rewrite firstn_all2 by exact H. reflexivity.
Qed.

(* ---- io.ReadFull ------------------------------------------------------------------ *)
Lemma read_full_app : forall n (a r : list byte), blen a = n -> read_full n (a ++ r) = ROk (a, r).
Proof.
  intros n a r H. unfold read_full. destruct (n =? 0) eqn:E.
  - apply N.eqb_eq in E. subst n. unfold blen in E. destruct a; [reflexivity|cbn in E; lia].
  - destruct a as [|x a'].
    + unfold blen in H. cbn in H. apply N.eqb_neq in E. lia.
    + cbn [app]. change (x :: a' ++ r) with ((x :: a') ++ r).
      subst n. unfold blen. rewrite take_N_app. reflexivity.
Qed.

Definition short_cause (l : list byte) : cause :=
  match l with [] => CEOF | _ => CUnexpectedEOF end.

Lemma read_full_short : forall n (l : list byte), blen l < n -> read_full n l = RErr (short_cause l).
Proof.
  intros n l H. unfold read_full. destruct (n =? 0) eqn:E.
  - apply N.eqb_eq in E. lia.
  - destruct l as [|x l']; [reflexivity|].
    assert (T : take_N n (x :: l') = None) by (apply take_N_none; exact H).
    rewrite T. reflexivity.
Qed.

(* ---- the header ------------------------------------------------------------------- *)
Definition hdr_bytes (ver : list byte) (bl : N) : list byte :=
  (ver ++ repeat x00 (16 - length ver)) ++ le64 32 ++ le64 bl.

Lemma frame_shape : forall ver body s,
  frame ver body = Some s ->
  (length ver <= 16)%nat /\ s = hdr_bytes ver (blen body) ++ body.
Proof.
  intros ver body s H. unfold frame in H.
  destruct (16 <? length ver)%nat eqn:E; [discriminate|].
  apply Nat.ltb_ge in E. inversion H. split; [exact E|].
  unfold hdr_bytes. rewrite <- !app_assoc. reflexivity.
Qed.

Lemma verfield_length : forall ver, (length ver <= 16)%nat ->
  length (ver ++ repeat x00 (16 - length ver)) = 16%nat.
Proof. intros ver H. rewrite app_length, repeat_length. lia. Qed.

Lemma hdr_length : forall ver bl, (length ver <= 16)%nat -> length (hdr_bytes ver bl) = 32%nat.
Proof.
  intros ver bl H. unfold hdr_bytes. rewrite app_length, verfield_length by exact H.
  rewrite app_length, !le64_length. reflexivity.
Qed.

Lemma frame_length : forall ver body s,
  frame ver body = Some s -> length s = (32 + length body)%nat.
Proof.
  intros ver body s H. apply frame_shape in H. destruct H as [Hv Hs]. subst s.
  rewrite app_length, hdr_length by exact Hv. reflexivity.
Qed.

Lemma strip_nul_zeros : forall k, strip_nul (repeat x00 k) = [].
Proof. induction k as [|k IH]; [reflexivity|]. cbn [repeat strip_nul]. rewrite IH. reflexivity. Qed.

Lemma strip_nul_app_zeros : forall v k, strip_nul (v ++ repeat x00 k) = strip_nul v.
Proof.
  induction v as [|x v IH]; intro k.
  - cbn [app]. rewrite strip_nul_zeros. reflexivity.
  - cbn [app strip_nul]. rewrite IH. reflexivity.
Qed.

(* what ReadHeader makes of a header written by newHeader *)
Lemma read_header_hdr : forall ver bl rest,
  (length ver <= 16)%nat -> bl < two64 ->
  read_header (hdr_bytes ver bl ++ rest) = ROk (mkHeader (strip_nul ver) 32 bl, rest).
Proof.
  intros ver bl rest Hv Hb. unfold read_header.
  rewrite read_full_app by (unfold blen; rewrite hdr_length by exact Hv; reflexivity).
  unfold hdr_bytes.
  pose proof (verfield_length ver Hv) as L16.
  rewrite (firstn_app_exact 16) by exact L16.
  rewrite (skipn_app_exact 16) by exact L16.
  rewrite (firstn_app_exact 8) by apply le64_length.
  rewrite app_assoc. rewrite (skipn_app_exact 24) by (rewrite app_length, L16, le64_length; reflexivity).
  rewrite firstn_all2 by (rewrite le64_length; lia).
  rewrite strip_nul_app_zeros.
  rewrite !le64_value by (try exact Hb; unfold two64; lia).
  reflexivity.
Qed.

Lemma read_header_short : forall b, (length b < 32)%nat -> read_header b = RErr (short_cause b).
Proof.
  intros b H. unfold read_header. rewrite read_full_short by (unfold blen; lia). reflexivity.
Qed.

(* ---- one section -------------------------------------------------------------------- *)
Lemma two63_lt_two64 : forall n, n < two63 -> n < two64.
Proof. intros n H. unfold two63, two64 in *. lia. Qed.

(* a complete section followed by anything *)
Lemma read_section_complete : forall {A} (accept : list byte -> option A) ver body sec rest,
  frame ver body = Some sec -> blen body < two63 ->
  read_section accept (sec ++ rest) =
  match accept body with Some a => ROk (a, rest) | None => RErr CProto end.
Proof.
  intros A accept ver body sec rest Hf Hb. apply frame_shape in Hf. destruct Hf as [Hv Hs]. subst sec.
  unfold read_section. rewrite <- app_assoc.
  rewrite read_header_hdr by (try exact Hv; apply two63_lt_two64; exact Hb).
  cbn [h_size h_body]. change (32 =? 32) with true. cbn [negb].
  destruct (two63 <=? blen body) eqn:E; [apply N.leb_le in E; lia|].
  rewrite read_full_app by reflexivity.
  destruct (accept body); reflexivity.
Qed.

(* a strict prefix of a section: the header or the body cannot be read *)
Lemma read_section_cut : forall {A} (accept : list byte -> option A) ver body sec k,
  frame ver body = Some sec -> blen body < two63 -> (k < length sec)%nat ->
  read_section accept (firstn k sec) =
  RErr (if (k <? 32)%nat then short_cause (firstn k sec) else short_cause (firstn (k - 32) body)).
Proof.
  intros A accept ver body sec k Hf Hb Hk.
  pose proof (frame_length _ _ _ Hf) as HL.
  apply frame_shape in Hf. destruct Hf as [Hv Hs]. subst sec.
  pose proof (hdr_length ver (blen body) Hv) as H32.
  unfold read_section.
  destruct (k <? 32)%nat eqn:E.
  - apply Nat.ltb_lt in E.
    rewrite read_header_short by (rewrite firstn_length; lia). reflexivity.
  - apply Nat.ltb_ge in E.
    rewrite firstn_app_ge by lia. rewrite H32.
    rewrite read_header_hdr by (try exact Hv; apply two63_lt_two64; exact Hb).
    cbn [h_size h_body]. change (32 =? 32) with true. cbn [negb].
    destruct (two63 <=? blen body) eqn:E2; [apply N.leb_le in E2; lia|].
    rewrite read_full_short; [reflexivity|].
    unfold blen. rewrite firstn_length. rewrite app_length, H32 in Hk. lia.
Qed.

(* the header of a cut stream, once 32 bytes are there *)
Lemma read_header_cut_ge : forall ver body sec k,
  frame ver body = Some sec -> blen body < two63 -> (32 <= k)%nat ->
  read_header (firstn k sec) = ROk (mkHeader (strip_nul ver) 32 (blen body), firstn (k - 32) body).
Proof.
  intros ver body sec k Hf Hb Hk. apply frame_shape in Hf. destruct Hf as [Hv Hs]. subst sec.
  pose proof (hdr_length ver (blen body) Hv) as H32.
  rewrite firstn_app_ge by lia. rewrite H32.
  apply read_header_hdr; [exact Hv|apply two63_lt_two64; exact Hb].
Qed.

(* ---- the gate never answers "unmodelled" for specs inside the fragment ---------- *)
Lemma in_fragment_total : forall specs ver,
  specs_in_fragment specs = true -> is_compatible ver specs <> None.
Proof.
  intros specs ver H. unfold specs_in_fragment in H. unfold is_compatible.
  destruct (parse_version ver); [|discriminate].
  destruct (parse_range specs); try discriminate.
Qed.

Definition gate_total (compat : list str) (cur : str) : bool :=
  specs_in_fragment compat && specs_in_fragment [cur; v0_5_10; v0_5_11] && specs_in_fragment [cur].

(* ---- complete current-format stream --------------------------------------------------- *)
Definition cur_gate (compat : list str) (cur : str) : bool :=
  match is_compatible cur compat, is_compatible cur [cur; v0_5_10; v0_5_11], is_compatible cur [cur] with
  | Some true, Some true, Some true => true
  | _, _, _ => false
  end.

Lemma cur_gate_elim : forall compat cur, cur_gate compat cur = true ->
  is_compatible cur compat = Some true /\
  is_compatible cur [cur; v0_5_10; v0_5_11] = Some true /\
  is_compatible cur [cur] = Some true.
Proof.
  intros compat cur H. unfold cur_gate in H.
  destruct (is_compatible cur compat) as [[|]|]; try discriminate.
  destruct (is_compatible cur [cur; v0_5_10; v0_5_11]) as [[|]|]; try discriminate.
  destruct (is_compatible cur [cur]) as [[|]|]; try discriminate.
  auto.
Qed.

Theorem unmarshal_marshal : forall compat cur m s,
  strip_nul cur = cur -> cur_gate compat cur = true ->
  wf_slim m = true -> blen (ser_slim m) < two63 ->
  marshal cur m = Some s ->
  unmarshal compat cur s = OLoaded m.
Proof.
  intros compat cur m s Hclean Hg Hwf Hb Hm.
  apply cur_gate_elim in Hg. destruct Hg as [G1 [G2 G3]].
  unfold marshal in Hm.
  pose proof (read_section_complete parse_slim cur (ser_slim m) s [] Hm Hb) as RS.
  rewrite app_nil_r in RS.
  pose proof Hm as Hm'. apply frame_shape in Hm'. destruct Hm' as [Hv Hs].
  unfold unmarshal.
  rewrite Hs at 1. rewrite read_header_hdr by (try exact Hv; apply two63_lt_two64; exact Hb).
  cbn [h_version]. rewrite Hclean, G1, G2.
  rewrite RS. rewrite parse_slim_ser by exact Hwf.
  cbn [lift_stage]. rewrite G3. reflexivity.
Qed.

Theorem marshal_length : forall cur m s,
  marshal cur m = Some s -> N.of_nat (length s) = 32 + size_slim m.
Proof.
  intros cur m s H. unfold marshal in H. apply frame_length in H. rewrite H.
  rewrite <- size_slim_length. unfold blen. lia.
Qed.

(* ---- strict prefixes ----------------------------------------------------------------- *)
(* a current-format stream cut anywhere: the exact outcome *)
Theorem unmarshal_cut_current : forall compat cur m s cut,
  strip_nul cur = cur -> cur_gate compat cur = true ->
  blen (ser_slim m) < two63 ->
  marshal cur m = Some s -> (cut < length s)%nat ->
  unmarshal compat cur (firstn cut s) =
  if (cut =? 0)%nat then OErr SHeader CEOF
  else if (cut <? 32)%nat then OErr SHeader CUnexpectedEOF
  else if (cut =? 32)%nat then OErr SInner CEOF
  else OErr SInner CUnexpectedEOF.
Proof.
  intros compat cur m s cut Hclean Hg Hb Hm Hcut.
  apply cur_gate_elim in Hg. destruct Hg as [G1 [G2 G3]].
  unfold marshal in Hm.
  pose proof (frame_length _ _ _ Hm) as HL.
  unfold unmarshal.
  destruct (cut <? 32)%nat eqn:E.
  - apply Nat.ltb_lt in E.
    rewrite read_header_short by (rewrite firstn_length; lia).
    destruct (cut =? 0)%nat eqn:E0.
    + apply Nat.eqb_eq in E0. subst cut. reflexivity.
    + apply Nat.eqb_neq in E0.
      destruct (firstn cut s) as [|x l] eqn:Ef.
      * apply (f_equal (@length byte)) in Ef. rewrite firstn_length in Ef. cbn in Ef. lia.
      * reflexivity.
  - apply Nat.ltb_ge in E.
    destruct (cut =? 0)%nat eqn:E0; [apply Nat.eqb_eq in E0; lia|].
    rewrite (read_header_cut_ge cur (ser_slim m) s cut Hm Hb E).
    cbn [h_version]. rewrite Hclean, G1, G2.
    rewrite (read_section_cut parse_slim cur (ser_slim m) s cut Hm Hb Hcut).
    replace (cut <? 32)%nat with false by (symmetry; apply Nat.ltb_ge; exact E).
    cbn [lift_stage].
    destruct (cut =? 32)%nat eqn:E32.
    + apply Nat.eqb_eq in E32. subst cut. reflexivity.
    + apply Nat.eqb_neq in E32.
      destruct (firstn (cut - 32) (ser_slim m)) as [|x l] eqn:Ef.
      * apply (f_equal (@length byte)) in Ef. rewrite firstn_length in Ef. cbn in Ef. lia.
      * reflexivity.
Qed.

(* any single framed section under ANY version string, cut anywhere: never a load, never a panic *)
Theorem unmarshal_cut_single : forall compat cur ver body s cut,
  gate_total compat cur = true ->
  frame ver body = Some s -> blen body < two63 -> (cut < length s)%nat ->
  is_err (unmarshal compat cur (firstn cut s)) = true.
Proof.
  intros compat cur ver body s cut Hg Hf Hb Hcut.
  unfold gate_total in Hg. apply andb_true_iff in Hg. destruct Hg as [Hg T3].
  apply andb_true_iff in Hg. destruct Hg as [T1 T2].
  unfold unmarshal.
  destruct (cut <? 32)%nat eqn:E.
  - apply Nat.ltb_lt in E.
    pose proof (frame_length _ _ _ Hf) as HL.
    rewrite read_header_short by (rewrite firstn_length; lia). reflexivity.
  - apply Nat.ltb_ge in E.
    rewrite (read_header_cut_ge ver body s cut Hf Hb E). cbn [h_version].
    pose proof (in_fragment_total compat (strip_nul ver) T1) as N1.
    pose proof (in_fragment_total _ (strip_nul ver) T2) as N2.
    destruct (is_compatible (strip_nul ver) compat) as [[|]|]; [|reflexivity|congruence].
    destruct (is_compatible (strip_nul ver) [cur; v0_5_10; v0_5_11]) as [[|]|]; [| |congruence].
    + rewrite (read_section_cut parse_slim ver body s cut Hf Hb Hcut). reflexivity.
    + rewrite (read_section_cut accept_array32 ver body s cut Hf Hb Hcut). reflexivity.
Qed.

(* the three-section layout: children, steps, leaves, each a framed section; the
   version strings of the second and third header are not looked at by the code *)
Definition three_path (compat : list str) (cur : str) (ver : list byte) : Prop :=
  is_compatible (strip_nul ver) [cur; v0_5_10; v0_5_11] = Some false \/
  is_compatible (strip_nul ver) compat = Some false.

Theorem unmarshal_cut_three : forall compat cur v1 b1 s1 v2 b2 s2 v3 b3 s3 cut,
  gate_total compat cur = true ->
  three_path compat cur v1 ->
  frame v1 b1 = Some s1 -> frame v2 b2 = Some s2 -> frame v3 b3 = Some s3 ->
  blen b1 < two63 -> blen b2 < two63 -> blen b3 < two63 ->
  (cut < length (s1 ++ s2 ++ s3))%nat ->
  is_err (unmarshal compat cur (firstn cut (s1 ++ s2 ++ s3))) = true.
Proof.
  intros compat cur v1 b1 s1 v2 b2 s2 v3 b3 s3 cut Hg Hp F1 F2 F3 B1 B2 B3 Hcut.
  pose proof (frame_length _ _ _ F1) as L1.
  pose proof (frame_length _ _ _ F2) as L2.
  pose proof (frame_length _ _ _ F3) as L3.
  destruct (Nat.lt_ge_cases cut (length s1)) as [C1|C1].
  { (* inside the first section: as a single section *)
    rewrite firstn_app_le by lia.
    eapply unmarshal_cut_single; eassumption. }
  unfold gate_total in Hg. apply andb_true_iff in Hg. destruct Hg as [Hg T3].
  apply andb_true_iff in Hg. destruct Hg as [T1 T2].
  rewrite firstn_app_ge by exact C1.
  set (r1 := firstn (cut - length s1) (s2 ++ s3)).
  unfold unmarshal.
  pose proof F1 as F1'. apply frame_shape in F1'. destruct F1' as [Hv1 Hs1].
  rewrite Hs1 at 1. rewrite <- app_assoc.
  rewrite read_header_hdr by (try exact Hv1; apply two63_lt_two64; exact B1).
  cbn [h_version].
  pose proof (in_fragment_total compat (strip_nul v1) T1) as N1.
  destruct (is_compatible (strip_nul v1) compat) as [[|]|] eqn:EC; [|reflexivity|congruence].
  destruct Hp as [Hp|Hp]; [|congruence].
  rewrite Hp.
  rewrite (read_section_complete accept_array32 v1 b1 s1 r1 F1 B1).
  destruct (accept_array32 b1) as [c|]; [|reflexivity].
  cbn [lift_stage].
  rewrite !app_length in Hcut.
  destruct (Nat.lt_ge_cases (cut - length s1) (length s2)) as [C2|C2].
  { subst r1. rewrite firstn_app_le by lia.
    rewrite (read_section_cut accept_array32 v2 b2 s2 _ F2 B2 C2). reflexivity. }
  subst r1. rewrite firstn_app_ge by exact C2.
  rewrite (read_section_complete accept_array32 v2 b2 s2 _ F2 B2).
  destruct (accept_array32 b2) as [st|]; [|reflexivity].
  cbn [lift_stage].
  assert (C3 : (cut - length s1 - length s2 < length s3)%nat) by lia.
  rewrite (read_section_cut accept_array32 v3 b3 s3 _ F3 B3 C3). reflexivity.
Qed.

(* ---- the version gate ------------------------------------------------------------------ *)
Theorem unmarshal_incompatible : forall compat cur b h rest,
  read_header b = ROk (h, rest) ->
  is_compatible (h_version h) compat = Some false ->
  unmarshal compat cur b = OIncompatible.
Proof.
  intros compat cur b h rest H1 H2. unfold unmarshal. rewrite H1, H2. reflexivity.
Qed.

(* equality on versions, spelled out *)
Lemma prvs_eqb_nil_r : forall a, prvs_eqb a [] = true -> a = [].
Proof. intros a H. destruct a; [reflexivity|discriminate]. Qed.

Lemma v_eqb_release : forall v o,
  v_pre o = [] -> v_eqb v o = true ->
  v_pre v = [] /\ v_major v = v_major o /\ v_minor v = v_minor o /\ v_patch v = v_patch o.
Proof.
  intros v o Ho H. unfold v_eqb in H. rewrite Ho in H.
  apply andb_true_iff in H. destruct H as [H H4].
  apply andb_true_iff in H. destruct H as [H H3].
  apply andb_true_iff in H. destruct H as [H1 H2].
  apply N.eqb_eq in H1. apply N.eqb_eq in H2. apply N.eqb_eq in H3.
  apply prvs_eqb_nil_r in H4. auto.
Qed.

Lemma v_eqb_release_intro : forall v o,
  v_pre o = [] -> v_pre v = [] ->
  v_major v = v_major o -> v_minor v = v_minor o -> v_patch v = v_patch o ->
  v_eqb v o = true.
Proof.
  intros v o Ho Hv H1 H2 H3. unfold v_eqb. rewrite Ho, Hv, H1, H2, H3, !N.eqb_refl. reflexivity.
Qed.

(* the version string ReadHeader sees in any stream of at least 32 bytes *)
Lemma read_header_long : forall b, (32 <= length b)%nat ->
  exists h, read_header b = ROk (h, skipn 32 b) /\ h_version h = strip_nul (firstn 16 b).
Proof.
  intros b H. unfold read_header.
  replace (read_full 32 b) with (read_full 32 (firstn 32 b ++ skipn 32 b)) by (rewrite firstn_skipn; reflexivity).
  rewrite read_full_app by (unfold blen; rewrite firstn_length; lia).
  eexists. split; [reflexivity|]. cbn [h_version].
  rewrite firstn_firstn. reflexivity.
Qed.

Theorem unmarshal_incompatible_field : forall compat cur b,
  (32 <= length b)%nat ->
  is_compatible (strip_nul (firstn 16 b)) compat = Some false ->
  unmarshal compat cur b = OIncompatible.
Proof.
  intros compat cur b H Hc. destruct (read_header_long b H) as [h [E V]].
  eapply unmarshal_incompatible; [exact E|]. rewrite V. exact Hc.
Qed.
