(* StatMsgInstProofs.v - a trie built from any accepted input, marshalled and loaded into an
   instance in ANY prior state after ANY history of Unmarshal / Reset calls, holds the level
   table of the tree, reports the tree's Stat() and renders the tree's String(): the same
   as the freshly built instance (which holds the message m, vars = initVars(m) and
   levels = initLevels(m), computed from the same message by the same functions). *)
From Coq Require Import List NArith ZArith Bool Lia.
From Coq.Strings Require Import Byte.
From Slim Require Import Base Keys Model BitmapRank Flat FlatProofs Msg MsgProofs Stat Str StatMsg StatMsgProofs.
From Slim Require Bits.
From Slim Require Import Varint Proto Semver Frame Instance Wire WireProofs EndToEnd EndToEndProofs StatMsgInst.
Import ListNotations.

Section E2E.
  Variable conv510 : slim -> slim.
  Variable conv3 : list byte -> list byte -> list byte -> slim.
  Local Notation run := (Instance.run compat_gen cur_gen VarsT LevelsT ivars ilevels reset_lv conv510 conv3).
  Local Notation installed := (Instance.installed VarsT LevelsT ivars ilevels).

  (* the instance that holds the message of a built trie *)
  Lemma installed_stat o keys vals T m vs :
    build o keys vals = Ok T -> Bits.encode_trie T = Val m -> Bits.init_vars m = Val vs ->
    inst_levels (installed (to_wire m)) = Ok (levels T) /\ inst_stat (installed (to_wire m)) = stat T.
  Proof.
    intros Hb Em Ev. split.
    - unfold inst_levels, Instance.installed, ilevels. cbn [i_levels]. rewrite of_to_wire.
      exact (minit_levels_levels o keys vals T m vs Hb Em Ev).
    - unfold inst_stat, Instance.installed, ilevels. cbn [i_inner i_levels]. rewrite of_to_wire.
      exact (mstat_stat o keys vals T m vs Hb Em Ev).
  Qed.

  Lemma installed_render o keys vals T m vs fuel :
    build o keys vals = Ok T -> Bits.encode_trie T = Val m -> Bits.init_vars m = Val vs ->
    (trie_height T <= fuel)%nat ->
    inst_render (installed (to_wire m)) fuel = render T.
  Proof.
    intros Hb Em Ev Hf. unfold inst_render.
    rewrite (with_installed LevelsT ilevels m vs) by (try exact Ev; intros E; unfold mrender; rewrite E; reflexivity).
    exact (mrender_render o keys vals T m vs fuel Hb Em Ev Hf).
  Qed.

  (* Build, Marshal, then Unmarshal into an instance in any state after any history: the
     level table, Stat() and String() are those of the built instance = those of the tree *)
  Theorem loaded_stat o keys vals T m vs s (st : inst VarsT LevelsT) h :
    build o keys vals = Ok T -> Bits.encode_trie T = Val m -> Bits.init_vars m = Val vs ->
    wf_msg (to_wire m) = true -> marshal_gen (to_wire m) = Some s ->
    let built := installed (to_wire m) in
    let loaded := run st (h ++ [OpUnmarshal s]) in
    inst_levels loaded = inst_levels built /\ inst_stat loaded = inst_stat built /\
    inst_levels loaded = Ok (levels T) /\ inst_stat loaded = stat T.
  Proof.
    intros Hb Em Ev Hwf Hm built loaded.
    assert (loaded = built) as ->
      by (apply (no_residue_marshal_gen VarsT LevelsT ivars ilevels reset_lv conv510 conv3 h st _ _ Hwf Hm)).
    destruct (installed_stat o keys vals T m vs Hb Em Ev) as [H1 H2]. repeat split; assumption.
  Qed.

  Theorem loaded_render o keys vals T m vs s (st : inst VarsT LevelsT) h fuel :
    build o keys vals = Ok T -> Bits.encode_trie T = Val m -> Bits.init_vars m = Val vs ->
    wf_msg (to_wire m) = true -> marshal_gen (to_wire m) = Some s ->
    (trie_height T <= fuel)%nat ->
    let built := installed (to_wire m) in
    let loaded := run st (h ++ [OpUnmarshal s]) in
    inst_render loaded fuel = inst_render built fuel /\ inst_render loaded fuel = render T.
  Proof.
    intros Hb Em Ev Hwf Hm Hf built loaded.
    assert (loaded = built) as ->
      by (apply (no_residue_marshal_gen VarsT LevelsT ivars ilevels reset_lv conv510 conv3 h st _ _ Hwf Hm)).
    split; [reflexivity|]. exact (installed_render o keys vals T m vs fuel Hb Em Ev Hf).
  Qed.
End E2E.
