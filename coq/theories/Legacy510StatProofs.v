(* Legacy510StatProofs.v - initLevels / Stat / String over a loaded 0.5.10 / 0.5.11 message.

   Section OldSelStat: for every message m whose position bitmaps carry the indexes of
   IndexSelect32R64 (Legacy510QueryProofs.pos_ok), every function of StatMsg.v (the level
   table st.init() computes after the conversion, Stat(), String()) returns on old_sel_msg m
   exactly what it returns on m.  loaded510_stat composes this with conv510_built and the
   theorems of StatMsgProofs.v. *)
From Coq Require Import List Arith Bool NArith ZArith Lia.
From Slim Require Import Base Keys Model BitmapRank BitmapRank2 Bits Msg MsgProofs Stat Str StatMsg StatMsgProofs
     Legacy510 Legacy510Proofs Legacy510QueryProofs.
Import ListNotations.
Local Open Scope N_scope.

Lemma concat_res_ext {A B} (f g : A -> res (list B)) : forall l, (forall x, f x = g x) -> concat_res f l = concat_res g l.
Proof. induction l as [|x r IH]; intros H; [reflexivity|]. cbn [concat_res]. rewrite H, (IH H). reflexivity. Qed.

Section OldSelStat.
  Variable m : msg.
  Hypothesis Hpos : pos_ok m.
  Let m' := old_sel_msg m.

  Lemma mwalk_old vs ti : forall fuel cur, mwalk fuel m' vs ti cur = mwalk fuel m vs ti cur.
  Proof.
    induction fuel as [|f IH]; intros cur.
    - reflexivity.
    - cbn [mwalk]. change (rank_nt m' cur) with (rank_nt m cur).
      destruct (rank_nt m cur) as [[ni b]|]; [|reflexivity].
      destruct (cur <? ni); [reflexivity|]. destruct (ni =? ti); [reflexivity|].
      change (ith_inner_from m' vs ni) with (ith_inner_from m vs ni).
      destruct (ith_inner_from m vs ni) as [from|]; [|reflexivity].
      change (Bits.first_child m' from) with (Bits.first_child m from).
      destruct (Bits.first_child m from) as [c|]; [|reflexivity]. rewrite IH. reflexivity.
  Qed.

  Lemma mlevels_old vs : mlevels m' vs = mlevels m vs.
  Proof.
    unfold mlevels. change (m_nodetype m') with (m_nodetype m). destruct (m_nodetype m); [|reflexivity].
    change (total_inner m') with (total_inner m). destruct (total_inner m) as [ti|]; [|reflexivity].
    change (total_nodes m' ti) with (total_nodes m ti). destruct (total_nodes m ti) as [total|]; [|reflexivity].
    destruct (total <? ti); [reflexivity|]. rewrite mwalk_old. reflexivity.
  Qed.

  Lemma minit_levels_old : minit_levels m' = minit_levels m.
  Proof.
    unfold minit_levels. change (init_vars m') with (init_vars m). destruct (init_vars m); [apply mlevels_old|reflexivity].
  Qed.

  Lemma mstat_old lv : mstat m' lv = mstat m lv.
  Proof. reflexivity. Qed.

  Lemma mnode_entries_old vs nid : mnode_entries m' vs nid = mnode_entries m vs nid.
  Proof.
    unfold mnode_entries, m'. rewrite (get_node_old m Hpos). fold m'.
    destruct (get_node m vs nid) as [[ith tail|ith wsz from to bm plen pfx]|]; try reflexivity.
  Qed.

  Lemma mtable_old vs : forall ids, mtable m' vs ids = mtable m vs ids.
  Proof.
    induction ids as [|nid r IH]; [reflexivity|]. cbn [mtable]. rewrite mnode_entries_old, IH. reflexivity.
  Qed.

  Lemma mrender_node_old vs nt tbl : forall fuel ind lbl id,
    mrender_node fuel m' vs nt tbl ind lbl id = mrender_node fuel m vs nt tbl ind lbl id.
  Proof.
    induction fuel as [|f IH]; intros ind lbl id; [reflexivity|]. cbn [mrender_node].
    unfold m' at 1. rewrite (get_node_old m Hpos). fold m'.
    change (ith_leaf_bytes m' (id - ?r)) with (ith_leaf_bytes m (id - r)).
    destruct (match get_bit (b_words nt) id with
              | Val true => match get_node m vs id with
                            | Val (DnLeaf _ _) => Ok 0
                            | Val (DnInner _ _ _ _ _ plen _) => Ok plen
                            | Panic => Err (EPanic 65)
                            end
              | Val false => Ok 0
              | Panic => Err (EPanic 64)
              end) as [step|]; cbn [bind]; [|reflexivity].
    match goal with |- bind ?x _ = bind ?y _ => change x with y; destruct y as [v|]; cbn [bind]; [|reflexivity] end.
    cbv zeta. erewrite concat_res_ext; [reflexivity|]. intros e. apply IH.
  Qed.

  Lemma mrender_old fuel vs : mrender fuel m' vs = mrender fuel m vs.
  Proof.
    unfold mrender. change (m_nodetype m') with (m_nodetype m). destruct (m_nodetype m) as [nt|]; [|reflexivity].
    rewrite mtable_old. destruct (mtable m vs (to_array (b_words nt))) as [tbl|]; cbn [bind]; [|reflexivity].
    apply mrender_node_old.
  Qed.
End OldSelStat.

(* ---------- the level table, Stat() and String() of a loaded 0.5.10 / 0.5.11 trie ---------- *)
Theorem loaded510_stat : forall o keys vals T esize,
  build o keys vals = Ok T -> leaves_fixed esize T ->
  exists Om L vs,
    encode_0510 T = Val Om /\ load510 esize Om = Ok L /\ init_vars L = Val vs /\
    minit_levels L = Ok (levels T) /\
    mstat L (minit_levels L) = stat T /\
    forall fuel, (trie_height T <= fuel)%nat -> mrender fuel L vs = render T.
Proof.
  intros o keys vals T esize Hb Hlv.
  destruct (built_encodes o keys vals T Hb) as (M & vs & Em & Ev).
  destruct (conv510_built o keys vals T esize M Hb Em Hlv) as (Om & Eo & El).
  pose proof (encoded_pos_ok T M Em) as Hp.
  exists Om, (old_sel_msg M), vs. split; [exact Eo|]. split; [exact El|]. split; [exact Ev|].
  rewrite (minit_levels_old M). split; [exact (minit_levels_levels o keys vals T M vs Hb Em Ev)|].
  split; [rewrite mstat_old; exact (mstat_stat o keys vals T M vs Hb Em Ev)|].
  intros fuel Hf. rewrite (mrender_old M Hp). exact (mrender_render o keys vals T M vs fuel Hb Em Ev Hf).
Qed.
