(* BitmapRank2.v - word-level model of the remaining helpers of github.com/openacid/low@v0.1.21
   that trie/slimtrie_create.go (creator.build) and trie/slimtrie_query.go (getNode, ...)
   rely on.  It extends BitmapRank.v (Of for ascending lists, IndexRank64, Rank64, popcount,
   bm_get, rank_spec) and re-uses its notions; definitions only, proofs in
   BitmapRank2Proofs.v.

     bitmap/of.go       Of(positions, cap)          of_cap        (any order, duplicates allowed;
                                                                   words[wordI] |= .. out of range = Panic)
     bitmap/ofmany.go   OfMany(subs, sizes)         of_many
     bitmap/rank.go     IndexRank64(ws, true)       index_rank64_t
                        IndexRank128                index_rank128
                        Rank128  ("(i+64)>>7")      rank128
     bitmap/select.go   IndexSelect32R64            index_select32 , index_rank64_t
                        Select32R64                 select32_r64  (select8Lookup = sel8)
     bitmap/toarray.go  ToArray                     to_array
     bitmap/slice.go    Slice                       slice_bits

   A bitmap is a [list N] of 64-bit words; positions, ranks and sizes are [N].  Go computes
   positions in int32; the model is exact as long as no position reaches 2^31 (assumption
   stated with the theorems).  Subtractions that Go performs in int32 and that are
   non-negative on every index built by the Index* functions are N subtractions here. *)
From Coq Require Import List NArith Bool.
From Slim Require Import BitmapRank.
Import ListNotations.
Local Open Scope N_scope.

(* ---------- bitmap.Of ---------- *)

(* words[wi] |= 1 << b; None = index out of range *)
Fixpoint or_bit (ws : list N) (wi b : N) : option (list N) :=
  match ws with
  | [] => None
  | x :: r =>
    if wi =? 0 then Some (N.lor x (N.shiftl 1 b) :: r)
    else match or_bit r (N.pred wi) b with
         | Some r' => Some (x :: r')
         | None => None
         end
  end.

Fixpoint or_bits (ws : list N) (idx : list N) : out (list N) :=
  match idx with
  | [] => Val ws
  | i :: r =>
    match or_bit ws (word_of i) (bit_of i) with
    | None => Panic
    | Some ws' => or_bits ws' r
    end
  end.

Definition nwords_for (n : N) : N := N.shiftr (n + 63) 6.

(* n := cap; if len(positions) > 0 { max := last+1; if n < max { n = max } } *)
Definition of_cap (idx : list N) (cap : N) : out (list N) :=
  let n := match last_N idx with Some m => N.max cap (m + 1) | None => cap end in
  or_bits (repeat 0 (N.to_nat (nwords_for n))) idx.

(* ---------- bitmap.OfMany ---------- *)
(* subs and sizes are appended together by the creator: a list of (sub, size) pairs *)
Fixpoint flat_pos (base : N) (segs : list (list N * N)) : list N * N :=
  match segs with
  | [] => ([], base)
  | (sub, sz) :: r =>
    let '(l, t) := flat_pos (base + sz) r in (map (N.add base) sub ++ l, t)
  end.

Definition of_many (segs : list (list N * N)) : out (list N) :=
  let '(l, t) := flat_pos 0 segs in of_cap l t.

(* ---------- rank indexes ---------- *)

(* IndexRank64(words, true): one more entry with the total *)
Fixpoint index_rank64_t (ws : list N) (n : N) : list N :=
  match ws with
  | [] => [n]
  | w :: r => n :: index_rank64_t r (n + popcount w)
  end.

(* IndexRank128: one entry per pair of words; a trailing total when the number of words is even *)
Fixpoint index_rank128 (ws : list N) (n : N) : list N :=
  match ws with
  | [] => [n]
  | [_] => [n]
  | w1 :: w2 :: r => n :: index_rank128 r (n + popcount w1 + popcount w2)
  end.

(* Rank128: n := rindex[(i+64)>>7]; c1 := n - atRight*cnt1 + OnesCount64(w & Mask[j]) *)
Definition rank128 (ws rindex : list N) (i : N) : out (N * N) :=
  let wi := word_of i in
  let j := bit_of i in
  match nthN rindex (N.shiftr (i + 64) 7) with
  | None => Panic
  | Some n =>
    match nthN ws wi with
    | None => Panic
    | Some w =>
      Val (n + popcount (N.land w (N.ones j)) - N.land wi 1 * popcount w,
           N.land (N.shiftr w j) 1)
    end
  end.

(* ---------- ToArray / IndexSelect32 ---------- *)

(* set bits k < n of w, as positions base + k, ascending *)
Fixpoint word_bits (n : nat) (w base : N) : list N :=
  match n with
  | O => []
  | S n' => (if N.odd w then [base] else []) ++ word_bits n' (N.div2 w) (N.succ base)
  end.

Fixpoint to_array_from (ws : list N) (base : N) : list N :=
  match ws with
  | [] => []
  | w :: r => word_bits 64 w base ++ to_array_from r (base + 64)
  end.

Definition to_array (ws : list N) : list N := to_array_from ws 0.

(* every 32nd element, starting with the first: ith&31 == 0 *)
Fixpoint pick32 (l : list N) (c : nat) : list N :=
  match l with
  | [] => []
  | x :: r => match c with
              | O => x :: pick32 r 31
              | S c' => pick32 r c'
              end
  end.

Definition index_select32 (ws : list N) : list N := pick32 (to_array ws) 0.

(* ---------- Select32R64 ---------- *)

(* bits.TrailingZeros8 / the loop of initSelectLookup: x = tz8(w); w &= w-1, j times *)
Fixpoint ctz_pos (p : positive) : N :=
  match p with
  | xO q => N.succ (ctz_pos q)
  | _ => 0
  end.
Definition ctz (width w : N) : N :=
  match w with N0 => width | Npos p => ctz_pos p end.

Fixpoint sel8 (w : N) (j : nat) : N :=
  match j with
  | O => ctz 8 w
  | S j' => sel8 (N.land w (N.pred w)) j'
  end.

(* select8Lookup[idx], idx = byte*8 + j; the table has 2048 entries *)
Definition sel8_lookup (idx : N) : out N :=
  if idx <? 2048 then Val (sel8 (N.shiftr idx 3) (N.to_nat (N.land idx 7))) else Panic.

Fixpoint skipN {A} (l : list A) (n : N) : list A :=
  match l with
  | [] => []
  | x :: r => if n =? 0 then l else skipN r (N.pred n)
  end.

(* for ; rankIndex[wordI+1] <= i; wordI++ {}   with l = rankIndex[wordI+1:] *)
Fixpoint scan_rank (l : list N) (wi i : N) : out N :=
  match l with
  | [] => Panic
  | r :: l' => if r <=? i then scan_rank l' (N.succ wi) i else Val wi
  end.

(* the narrowing by 32 / 16 / 8 bits and the table lookup; k = findIth *)
Definition sel_word (w k : N) : out N :=
  let ones := popcount (N.land w (N.ones 32)) in
  let '(k, off, ww) := if ones <=? k then (k - ones, 32, N.shiftr w 32) else (k, 0, w) in
  let ones := popcount (N.land ww (N.ones 16)) in
  let '(k, off, ww) := if ones <=? k then (k - ones, N.lor off 16, N.shiftr ww 16) else (k, off, ww) in
  let ones := popcount (N.land ww (N.ones 8)) in
  if ones <=? k
  then match sel8_lookup (N.lor (N.land (N.shiftr ww 5) 2040) (k - ones)) with
       | Val a => Val (a + off + 8)
       | Panic => Panic
       end
  else match sel8_lookup (N.lor (N.shiftl (N.land ww 255) 3) k) with
       | Val a => Val (a + off)
       | Panic => Panic
       end.

(* first non-zero word from wi on: its lowest set bit; l<<6 when there is none *)
Fixpoint next_set (ws : list N) (wi : N) : N :=
  match ws with
  | [] => N.shiftl wi 6
  | w :: r => if w =? 0 then next_set r (N.succ wi) else N.shiftl wi 6 + ctz 64 w
  end.

Definition select32_r64 (ws sindex rindex : list N) (i : N) : out (N * N) :=
  match nthN sindex (N.shiftr i 5) with
  | None => Panic
  | Some s =>
    match scan_rank (skipN rindex (N.succ (word_of s))) (word_of s) i with
    | Panic => Panic
    | Val wi =>
      match nthN ws wi with
      | None => Panic
      | Some w =>
        match nthN rindex wi with
        | None => Panic
        | Some r0 =>
          match sel_word w (i - r0) with
          | Panic => Panic
          | Val a0 =>
            let base := N.shiftl wi 6 in
            let a := a0 + base in
            (* w &= RMaskUpto[a&63] *)
            let w' := N.ldiff w (N.ones (N.succ (bit_of a))) in
            if w' =? 0
            then Val (a, next_set (skipN ws (N.succ wi)) (N.succ wi))
            else Val (a, base + ctz 64 w')
          end
        end
      end
    end
  end.

(* ---------- bitmap.Slice (used by getInnerBM) ---------- *)
(* the bits [from, to) as a fresh bitmap; every read words[i>>6] may panic *)
Fixpoint get_bits (ws : list N) (from : N) (n : nat) : out (list bool) :=
  match n with
  | O => Val []
  | S n' =>
    match nthN ws (word_of from) with
    | None => Panic
    | Some w =>
      match get_bits ws (N.succ from) n' with
      | Panic => Panic
      | Val l => Val (N.testbit w (bit_of from) :: l)
      end
    end
  end.

(* positions (relative to from) of the set bits in [from, from+n) *)
Fixpoint true_pos (l : list bool) (k : N) : list N :=
  match l with
  | [] => []
  | b :: r => (if b then [k] else []) ++ true_pos r (N.succ k)
  end.

(* ---------- specification side ---------- *)

(* the position of the k-th (0-based) set bit: the bit is set and exactly k set bits precede it *)
Definition is_select (ws : list N) (k a : N) : Prop :=
  bm_get ws a = true /\ rank_spec ws a = k.

(* b is the next set bit after a, or the end of the bitmap when there is none *)
Definition is_next (ws : list N) (a b : N) : Prop :=
  a < b /\ (forall c, a < c -> c < b -> bm_get ws c = false) /\
  (bm_get ws b = true \/ b = 64 * N.of_nat (length ws)).
