(* StatProofs.v - C18: Stat reports the exact key count and consistent level totals.

   - the leaves of a built tree, left to right, are the kept (retained) entries
     of the key list in key order (leaves_retained); hence KeyCnt
   - the level profile sums to the node counts of the tree, entry d of the
     profile counts the nodes of depth d (profile_depth)
   - the cumulative table is non-decreasing, total = inner + leaf in every
     entry, and ends at the totals
   - node ids of a built tree are breadth-first (bfs_ok), in particular distinct
     (built_ids_nodup); the id walk of initLevels ([levels_walk]) computes the
     same table as [levels] (levels_walk_ok). *)
From Slim Require Import Base Keys KeysProofs ListFacts Model TrieInv BuildProofs QueryProofs ConsistProofs OrderProofs Stat.
From Coq Require Import Sorting.Sorted Sorting.Permutation ZifyNat ZifyBool.

Arguments Nat.div : simpl never.
Arguments Nat.modulo : simpl never.

(* ---------- generic list facts ---------- *)
Lemma st_map_flat_map {A B C} (g : B -> C) (f : A -> list B) l :
  map g (flat_map f l) = flat_map (fun x => map g (f x)) l.
Proof. induction l as [|x l IH]; [reflexivity|]. cbn [flat_map]. rewrite map_app, IH. reflexivity. Qed.

Lemma st_flat_map_map {A B C} (f : B -> list C) (g : A -> B) l :
  flat_map f (map g l) = flat_map (fun x => f (g x)) l.
Proof. induction l as [|x l IH]; [reflexivity|]. cbn [map flat_map]. rewrite IH. reflexivity. Qed.

Lemma st_flat_map_ext_in {A B} (f g : A -> list B) l :
  (forall x, In x l -> f x = g x) -> flat_map f l = flat_map g l.
Proof.
  induction l as [|x l IH]; intros H; [reflexivity|]. cbn [flat_map].
  rewrite (H x (or_introl eq_refl)), IH; [reflexivity|]. intros y Hy. apply H. right; exact Hy.
Qed.

Lemma st_length_flat_map {A B} (f : A -> list B) l :
  length (flat_map f l) = sum_list (map (fun x => length (f x)) l).
Proof. induction l as [|x l IH]; [reflexivity|]. cbn [flat_map map sum_list]. rewrite app_length, IH. reflexivity. Qed.

(* ---------- Stat.all_nodes is QueryProofs.subtrees ---------- *)
Lemma all_nodes_subtrees : forall t, all_nodes t = subtrees t.
Proof. reflexivity. Qed.

Lemma kids_inner id big step pfx fc ch : kids (Inner id big step pfx fc ch) = map snd ch.
Proof. reflexivity. Qed.

Lemma subtrees_kids t : subtrees t = t :: flat_map subtrees (kids t).
Proof.
  destruct t as [id ord tail eidx|id big step pfx fc ch]; [reflexivity|].
  rewrite subtrees_inner, kids_inner, st_flat_map_map. reflexivity.
Qed.

Lemma leaves_of_kids t :
  leaves_of t = match t with Leaf _ ord _ eidx => [(ord, eidx)] | _ => flat_map leaves_of (kids t) end.
Proof.
  destruct t as [id ord tail eidx|id big step pfx fc ch]; [reflexivity|].
  rewrite leaves_of_inner, kids_inner, st_flat_map_map. reflexivity.
Qed.

(* ---------- leaves = kept entries, in order ---------- *)
Lemma leaves_kept o : forall t s, trie_of o t s -> SubInv s ->
  map snd (leaves_of t) = map e_idx (kept s).
Proof.
  induction t as [id ord tail eidx|id big step pfx fc ch IH] using tree_ind'; intros s Ht I.
  - cbn [trie_of] in Ht. destruct Ht as (e & Hs & _ & ->).
    rewrite (kept_singleton s e I Hs). reflexivity.
  - cbn [trie_of] in Ht. destruct Ht as (ib & labels & kids & b' & Hp & Hfst & Hkm).
    pose proof (inner_facts _ _ _ _ _ _ _ _ _ I Hp) as F.
    pose proof (children_ok o s big labels kids ch I F Hfst Hkm) as Hco.
    rewrite (kept_partition o s big labels kids I F), (if_kids_mk _ _ _ _ _ F), <- Hfst.
    rewrite leaves_of_inner, !st_map_flat_map, !st_flat_map_map.
    apply st_flat_map_ext_in. intros p Hin.
    rewrite Forall_forall in IH, Hco. specialize (Hco p Hin).
    apply (IH p Hin); [exact (co_trie _ _ _ _ _ Hco)|exact (co_inv _ _ _ _ _ Hco)].
Qed.

Lemma mk_ents_kept_idx : forall keys b keep,
  map e_idx (filter e_keep (mk_ents b keys keep)) =
  filter (fun i => nth (i - b) keep true) (List.seq b (length keys)).
Proof.
  induction keys as [|k r IH]; intros b keep; [reflexivity|].
  cbn [mk_ents length List.seq filter e_keep].
  assert (nth (b - b) keep true = match keep with x :: _ => x | [] => true end) as E0.
  { rewrite Nat.sub_diag. destruct keep; reflexivity. }
  assert (filter (fun i => nth (i - b) keep true) (List.seq (S b) (length r)) =
          filter (fun i => nth (i - S b) (tl keep) true) (List.seq (S b) (length r))) as E1.
  { apply filter_ext_in. intros i Hi. apply in_seq in Hi.
    replace (i - b) with (S (i - S b)) by lia. destruct keep as [|x keep']; [destruct (i - S b); reflexivity|reflexivity]. }
  rewrite E0, E1, <- IH. destruct (match keep with x :: _ => x | [] => true end); reflexivity.
Qed.

(* the indexes of the retained keys, ascending *)
Definition retained_idx (o : opts) (keys : list key) (vals : option (list (list byte))) : list nat :=
  filter (retained o keys vals) (List.seq 0 (length keys)).

Lemma root_kept_idx o keys vals :
  map e_idx (kept (root_subset o keys vals)) = retained_idx o keys vals.
Proof.
  unfold kept, root_subset, retained_idx, retained. cbn [s_ents]. rewrite mk_ents_kept_idx.
  apply filter_ext. intros i. rewrite Nat.sub_0_r. reflexivity.
Qed.

Theorem leaves_retained o keys vals T r lidx :
  Built o keys vals T r lidx -> map snd (leaves_of r) = retained_idx o keys vals.
Proof.
  intros B. rewrite <- root_kept_idx.
  apply (leaves_kept o r _ (bt_trie _ _ _ _ _ _ B)).
  apply root_inv; [exact (bt_sorted _ _ _ _ _ _ B)|exact (bt_nonempty _ _ _ _ _ _ B)].
Qed.

(* ---------- the profile ---------- *)
Definition psum (p : list (nat * nat)) : nat * nat :=
  fold_right (fun e acc => (fst e + fst acc, snd e + snd acc)) (0, 0) p.

Lemma psum_cons e p : psum (e :: p) = (fst e + fst (psum p), snd e + snd (psum p)).
Proof. reflexivity. Qed.

Lemma zip_add_psum : forall a b,
  fst (psum (zip_add a b)) = fst (psum a) + fst (psum b) /\
  snd (psum (zip_add a b)) = snd (psum a) + snd (psum b).
Proof.
  induction a as [|[i1 l1] a IH]; intros b; [cbn; split; reflexivity|].
  destruct b as [|[i2 l2] b]; [cbn [zip_add]; split; cbn; lia|].
  cbn [zip_add]. rewrite !psum_cons. cbn [fst snd]. destruct (IH b) as [H1 H2]. rewrite H1, H2. split; lia.
Qed.

Definition pnth (d : nat) (p : list (nat * nat)) : nat * nat := nth d p (0, 0).

Lemma zip_add_nth : forall a b d,
  pnth d (zip_add a b) = (fst (pnth d a) + fst (pnth d b), snd (pnth d a) + snd (pnth d b)).
Proof.
  unfold pnth. induction a as [|[i1 l1] a IH]; intros b d.
  - cbn [zip_add]. destruct d; cbn [nth fst snd]; destruct (nth _ b (0, 0)); reflexivity.
  - destruct b as [|[i2 l2] b].
    + cbn [zip_add]. destruct d; cbn [nth fst snd]; rewrite ?Nat.add_0_r.
      * reflexivity.
      * destruct (nth d a (0, 0)); reflexivity.
    + cbn [zip_add]. destruct d; [reflexivity|]. cbn [nth]. apply IH.
Qed.

Definition profile_kids (ch : list (nat * tree)) : list (nat * nat) :=
  fold_right (fun p acc => zip_add (profile (snd p)) acc) [] ch.

Lemma profile_inner id big step pfx fc ch :
  profile (Inner id big step pfx fc ch) = (1, 0) :: profile_kids ch.
Proof.
  cbn [profile]. f_equal. induction ch as [|[x c] r IH]; [reflexivity|].
  cbn [profile_kids fold_right snd]. fold (profile_kids r). rewrite <- IH. reflexivity.
Qed.

Definition count_inner (l : list tree) : nat := length (filter is_inner l).
Definition count_leaf (l : list tree) : nat := length (filter (fun t => negb (is_inner t)) l).

Lemma count_app l m : count_inner (l ++ m) = count_inner l + count_inner m /\
                      count_leaf (l ++ m) = count_leaf l + count_leaf m.
Proof. unfold count_inner, count_leaf. rewrite !filter_app, !app_length. split; reflexivity. Qed.

Lemma count_total l : count_inner l + count_leaf l = length l.
Proof.
  unfold count_inner, count_leaf. induction l as [|t l IH]; [reflexivity|].
  cbn [filter]. destruct (is_inner t); cbn [negb length]; lia.
Qed.

(* sums of the profile = node counts of the tree *)
Lemma profile_psum : forall t,
  psum (profile t) = (count_inner (subtrees t), count_leaf (subtrees t)).
Proof.
  induction t as [id ord tail eidx|id big step pfx fc ch IH] using tree_ind'; [reflexivity|].
  rewrite profile_inner, subtrees_inner, psum_cons. cbn [fst snd].
  assert (psum (profile_kids ch) =
          (count_inner (flat_map (fun p => subtrees (snd p)) ch), count_leaf (flat_map (fun p => subtrees (snd p)) ch))) as E.
  { induction ch as [|[x c] r IHr]; [reflexivity|].
    inversion IH as [|? ? Hc Hr]; subst. cbn [snd] in Hc.
    cbn [profile_kids fold_right flat_map snd]. fold (profile_kids r).
    destruct (zip_add_psum (profile c) (profile_kids r)) as [H1 H2].
    destruct (count_app (subtrees c) (flat_map (fun p => subtrees (snd p)) r)) as [H3 H4].
    rewrite (surjective_pairing (psum (zip_add _ _))), H1, H2, H3, H4, Hc, (IHr Hr). reflexivity. }
  rewrite E. cbn [fst snd]. unfold count_inner, count_leaf. cbn [filter is_inner negb length]. reflexivity.
Qed.

Lemma count_leaf_leaves : forall t, count_leaf (subtrees t) = length (leaves_of t).
Proof.
  induction t as [id ord tail eidx|id big step pfx fc ch IH] using tree_ind'; [reflexivity|].
  rewrite subtrees_inner, leaves_of_inner. unfold count_leaf. cbn [filter is_inner negb].
  fold (count_leaf (flat_map (fun p => subtrees (snd p)) ch)).
  induction ch as [|[x c] r IHr]; [reflexivity|].
  inversion IH as [|? ? Hc Hr]; subst. cbn [snd] in Hc. cbn [flat_map snd].
  destruct (count_app (subtrees c) (flat_map (fun p => subtrees (snd p)) r)) as [_ H4].
  rewrite H4, app_length, Hc, (IHr Hr). reflexivity.
Qed.

(* the nodes of depth d below t *)
Fixpoint at_depth (d : nat) (t : tree) : list tree :=
  match d with
  | 0 => [t]
  | S d' => flat_map (at_depth d') (kids t)
  end.

(* entry d of the profile counts the nodes of depth d *)
Lemma profile_depth : forall t d,
  pnth d (profile t) = (count_inner (at_depth d t), count_leaf (at_depth d t)).
Proof.
  induction t as [id ord tail eidx|id big step pfx fc ch IH] using tree_ind'; intros d.
  - destruct d as [|d]; [reflexivity|]. cbn [at_depth kids flat_map profile]. unfold pnth. destruct d; reflexivity.
  - rewrite profile_inner. destruct d as [|d]; [reflexivity|].
    cbn [at_depth]. rewrite kids_inner, st_flat_map_map. unfold pnth. cbn [nth]. fold (pnth d (profile_kids ch)).
    induction ch as [|[x c] r IHr]; [unfold pnth; destruct d; reflexivity|].
    inversion IH as [|? ? Hc Hr]; subst. cbn [snd] in Hc.
    cbn [profile_kids fold_right flat_map snd]. fold (profile_kids r).
    rewrite zip_add_nth, Hc, (IHr Hr). cbn [fst snd].
    destruct (count_app (at_depth d c) (flat_map (fun x0 => at_depth d (snd x0)) r)) as [H3 H4].
    rewrite H3, H4. reflexivity.
Qed.

(* ---------- the cumulative table ---------- *)
Definition level_le (a b : nat * nat * nat) : Prop :=
  lv_total a <= lv_total b /\ lv_inner a <= lv_inner b /\ lv_leaf a <= lv_leaf b.

Definition level_sum_ok (e : nat * nat * nat) : Prop := lv_total e = lv_inner e + lv_leaf e.

Lemma cumul_facts : forall p ai al,
  Forall level_sum_ok (cumul ai al p) /\
  Forall (fun e => ai <= lv_inner e /\ al <= lv_leaf e) (cumul ai al p) /\
  StronglySorted level_le (cumul ai al p) /\
  length (cumul ai al p) = length p /\
  (p <> [] -> last_opt (cumul ai al p) =
              Some (ai + fst (psum p) + (al + snd (psum p)), ai + fst (psum p), al + snd (psum p))).
Proof.
  induction p as [|[i l] p IH]; intros ai al.
  - cbn. repeat split; try constructor. congruence.
  - cbn [cumul]. destruct (IH (ai + i) (al + l)) as (H1 & H2 & H3 & H4 & H5).
    split; [constructor; [reflexivity|exact H1]|].
    split; [constructor; [cbn; lia|eapply Forall_impl; [|exact H2]; cbn; intros e He; lia]|].
    split.
    { constructor; [exact H3|]. rewrite Forall_forall in *. intros e He.
      specialize (H1 e He). specialize (H2 e He). unfold level_le, level_sum_ok, lv_total, lv_inner, lv_leaf in *.
      cbn [fst snd] in *. lia. }
    split; [cbn [length]; rewrite H4; reflexivity|].
    intros _. rewrite psum_cons. cbn [fst snd].
    destruct p as [|e p'].
    + cbn. f_equal. f_equal; [f_equal|]; lia.
    + assert (e :: p' <> []) as Hne by discriminate. specialize (H5 Hne).
      change (last_opt ((ai + i + (al + l), ai + i, al + l) :: cumul (ai + i) (al + l) (e :: p')))
        with (match cumul (ai + i) (al + l) (e :: p') with [] => Some (ai + i + (al + l), ai + i, al + l) | _ :: _ => last_opt (cumul (ai + i) (al + l) (e :: p')) end).
      destruct (cumul (ai + i) (al + l) (e :: p')) eqn:Ec; [cbn in H4; discriminate|].
      rewrite H5. f_equal. f_equal; [f_equal|]; lia.
Qed.

Lemma psum_firstn_S : forall p n,
  psum (firstn (S n) p) = (fst (psum (firstn n p)) + fst (pnth n p), snd (psum (firstn n p)) + snd (pnth n p)).
Proof.
  unfold pnth. induction p as [|e p IH]; intros n.
  - rewrite !firstn_nil. destruct n; reflexivity.
  - destruct n as [|n].
    + cbn [firstn nth]. rewrite psum_cons. cbn. f_equal; lia.
    + change (firstn (S (S n)) (e :: p)) with (e :: firstn (S n) p).
      change (firstn (S n) (e :: p)) with (e :: firstn n p).
      rewrite !psum_cons, IH. cbn [fst snd nth]. f_equal; lia.
Qed.

Lemma cumul_nth : forall p ai al k, k < length p ->
  nth k (cumul ai al p) (0, 0, 0) =
  (ai + fst (psum (firstn (S k) p)) + (al + snd (psum (firstn (S k) p))),
   ai + fst (psum (firstn (S k) p)), al + snd (psum (firstn (S k) p))).
Proof.
  induction p as [|[i l] p IH]; intros ai al k Hk; [cbn in Hk; lia|].
  destruct k as [|k].
  - cbn [cumul nth firstn]. rewrite psum_cons. cbn [fst snd psum fold_right]. f_equal; [f_equal|]; lia.
  - cbn [cumul nth]. cbn [length] in Hk. rewrite IH by lia.
    change (firstn (S (S k)) ((i, l) :: p)) with ((i, l) :: firstn (S k) p).
    rewrite psum_cons. cbn [fst snd]. f_equal; [f_equal|]; lia.
Qed.

(* the nodes of depth <= k *)
Definition upto_depth (k : nat) (t : tree) : list tree :=
  flat_map (fun d => at_depth d t) (List.seq 0 (S k)).

Lemma profile_firstn_depth t : forall k,
  psum (firstn (S k) (profile t)) = (count_inner (upto_depth k t), count_leaf (upto_depth k t)).
Proof.
  induction k as [|k IH].
  - rewrite psum_firstn_S, profile_depth. cbn [firstn psum fold_right fst snd].
    unfold upto_depth. cbn [List.seq flat_map]. rewrite app_nil_r. reflexivity.
  - rewrite psum_firstn_S, IH, profile_depth. cbn [fst snd].
    unfold upto_depth. rewrite (seq_S (S k) 0), flat_map_app. cbn [flat_map]. rewrite app_nil_r.
    destruct (count_app (flat_map (fun d => at_depth d t) (List.seq 0 (S k))) (at_depth (0 + S k) t)) as [H1 H2].
    rewrite H1, H2. reflexivity.
Qed.

Lemma profile_nonempty t : profile t <> [].
Proof. destruct t; [discriminate|rewrite profile_inner; discriminate]. Qed.

(* ---------- node counts of a trie ---------- *)
Definition nodes_of (T : trie) : list tree :=
  match t_root T with None => [] | Some r => all_nodes r end.
Definition inner_count (T : trie) : nat := count_inner (nodes_of T).
Definition leaf_count (T : trie) : nat := count_leaf (nodes_of T).

Lemma levels_facts T :
  hd_opt (levels T) = Some (0, 0, 0) /\
  Forall level_sum_ok (levels T) /\
  StronglySorted level_le (levels T) /\
  last_opt (levels T) = Some (inner_count T + leaf_count T, inner_count T, leaf_count T).
Proof.
  unfold levels, inner_count, leaf_count, nodes_of. destruct (t_root T) as [r|].
  - destruct (cumul_facts (profile r) 0 0) as (H1 & H2 & H3 & H4 & H5).
    specialize (H5 (profile_nonempty r)). rewrite profile_psum in H5. cbn [fst snd] in H5.
    rewrite all_nodes_subtrees.
    split; [reflexivity|]. split; [constructor; [reflexivity|exact H1]|].
    split.
    + constructor; [exact H3|]. rewrite Forall_forall. intros e _. unfold level_le, lv_total, lv_inner, lv_leaf. cbn. lia.
    + destruct (cumul 0 0 (profile r)) as [|e0 rest] eqn:Ec.
      * pose proof (profile_nonempty r). destruct (profile r); [congruence|discriminate].
      * change (last_opt ((0, 0, 0) :: e0 :: rest)) with (last_opt (e0 :: rest)). exact H5.
  - cbn. repeat split; repeat constructor.
Qed.

(* entry k+1 of the table: the nodes of depth <= k *)
Lemma levels_depth T r k :
  t_root T = Some r -> k < length (profile r) ->
  nth (S k) (levels T) (0, 0, 0) =
  (count_inner (upto_depth k r) + count_leaf (upto_depth k r), count_inner (upto_depth k r), count_leaf (upto_depth k r)).
Proof.
  intros Hr Hk. unfold levels. rewrite Hr. cbn [nth]. rewrite (cumul_nth _ 0 0 k Hk), profile_firstn_depth. reflexivity.
Qed.

Lemma levels_length T r : t_root T = Some r -> length (levels T) = S (length (profile r)).
Proof.
  intros Hr. unfold levels. rewrite Hr. cbn [length].
  destruct (cumul_facts (profile r) 0 0) as (_ & _ & _ & H4 & _). rewrite H4. reflexivity.
Qed.

(* ---------- Stat ---------- *)
Lemma stat_total T :
  exists s, stat T = Ok s /\
    st_levels s = levels T /\ st_levelcnt s = length (levels T) /\
    st_nodecnt s = inner_count T + leaf_count T /\
    st_keycnt s = leaf_count T.
Proof.
  destruct (levels_facts T) as (_ & _ & _ & Hl). unfold stat. rewrite Hl.
  eexists. split; [reflexivity|]. cbn [st_levels st_levelcnt st_nodecnt st_keycnt lv_total lv_leaf fst snd].
  repeat split. unfold leaf_count, nodes_of. destruct (t_root T); reflexivity.
Qed.

Lemma single_key_leaf o keys vals T r lidx :
  Built o keys vals T r lidx -> length keys = 1 -> exists id ord tail eidx, r = Leaf id ord tail eidx.
Proof.
  intros B Hl. pose proof (bt_trie _ _ _ _ _ _ B) as Ht.
  destruct r as [id ord tail eidx|id big step pfx fc ch]; [eauto|exfalso].
  cbn [trie_of] in Ht. destruct Ht as (ib & labels & kids & b' & Hp & _).
  apply process_inner_inv in Hp. cbv zeta in Hp. destruct Hp as ((e0 & e1 & rest & Es & _) & _).
  cbn [root_subset s_ents] in Es.
  destruct keys as [|k0 [|k1 kr]]; cbn in Hl; try lia. cbn in Es. discriminate.
Qed.

Theorem stat_correct o keys vals T :
  build o keys vals = Ok T ->
  exists s, stat T = Ok s /\
    (* KeyCnt = number of retained keys *)
    st_keycnt s = length (retained_idx o keys vals) /\
    (* NodeCnt = inner + leaf = number of nodes of the tree *)
    st_nodecnt s = inner_count T + leaf_count T /\
    st_nodecnt s = length (nodes_of T) /\
    (* the table *)
    st_levels s = levels T /\ st_levelcnt s = length (st_levels s) /\
    hd_opt (st_levels s) = Some (0, 0, 0) /\
    Forall level_sum_ok (st_levels s) /\
    StronglySorted level_le (st_levels s) /\
    last_opt (st_levels s) = Some (st_nodecnt s, inner_count T, leaf_count T) /\
    (* empty trie, single key *)
    (keys = [] -> st_keycnt s = 0 /\ st_nodecnt s = 0 /\ st_levels s = [(0, 0, 0)]) /\
    (length keys = 1 -> st_keycnt s = 1 /\ st_nodecnt s = 1 /\ st_levels s = [(0, 0, 0); (1, 0, 1)]).
Proof.
  intros Hb. destruct (stat_total T) as (s & Hs & Hlv & Hlc & Hn & Hk).
  destruct (levels_facts T) as (F0 & F1 & F2 & F3).
  exists s. split; [exact Hs|].
  assert (st_keycnt s = length (retained_idx o keys vals)) as HK.
  { rewrite Hk. destruct (build_ok _ _ _ _ Hb) as [[-> ->]|(r & lidx & B)]; [reflexivity|].
    unfold leaf_count, nodes_of. rewrite (bt_root _ _ _ _ _ _ B), all_nodes_subtrees, count_leaf_leaves.
    rewrite <- (leaves_retained _ _ _ _ _ _ B), map_length. reflexivity. }
  split; [exact HK|]. split; [exact Hn|].
  split; [rewrite Hn; unfold inner_count, leaf_count; apply count_total|].
  split; [exact Hlv|]. split; [rewrite Hlv; exact Hlc|].
  rewrite Hlv, Hn. split; [exact F0|]. split; [exact F1|]. split; [exact F2|]. split; [exact F3|].
  split.
  - intros ->. cbn in Hb. inversion Hb; subst T. rewrite ?Hk, ?Hn. cbn. auto.
  - intros Hl. destruct (build_ok _ _ _ _ Hb) as [[-> _]|(r & lidx & B)]; [cbn in Hl; lia|].
    destruct (single_key_leaf _ _ _ _ _ _ B Hl) as (id & ord & tail & eidx & ->).
    rewrite ?Hk, ?Hn. unfold leaf_count, inner_count, nodes_of, levels. rewrite (bt_root _ _ _ _ _ _ B). cbn. auto.
Qed.

(* Stat and the table depend on the tree only: a trie that decodes to the same
   tree (the marshal round trip, C05) has the same report. *)
Lemma stat_depends_on_root T T' : t_root T = t_root T' -> stat T = stat T' /\ levels T = levels T'.
Proof. intros H. unfold stat, levels. rewrite H. split; reflexivity. Qed.

(* ====================================================================== *)
(* Node ids are breadth-first                                              *)
(* ====================================================================== *)

(* first-child ids along one level: the first inner node's children start at
   [cid], every inner node's children follow those of the previous one *)
Fixpoint fcs_ok (cid : nat) (F : list tree) : Prop :=
  match F with
  | [] => True
  | t :: r =>
      match t with
      | Leaf _ _ _ _ => fcs_ok cid r
      | Inner _ _ _ _ fc ch => fc = cid /\ fcs_ok (cid + length ch) r
      end
  end.

(* [bfs_ok n base F]: the forest F of one depth has ids base, base+1, ..; the
   next depth starts right after, and so on for at most n depths *)
Fixpoint bfs_ok (n : nat) (base : nat) (F : list tree) : Prop :=
  match n with
  | 0 => F = []
  | S n' => map tree_id F = List.seq base (length F) /\
            fcs_ok (base + length F) F /\
            bfs_ok n' (base + length F) (flat_map kids F)
  end.

Lemma bfs_ok_nil : forall n base, bfs_ok n base [].
Proof. induction n as [|n IH]; intros base; [reflexivity|]. cbn. repeat split. apply IH. Qed.

Lemma assemble_bfs o : forall ss ds, Forall2 (produced o) ss ds ->
  forall id cid lord forest, length forest = length (flat_map kids_of ds) ->
  map tree_id (assemble ds id cid lord forest) = List.seq id (length ds) /\
  fcs_ok cid (assemble ds id cid lord forest) /\
  flat_map kids (assemble ds id cid lord forest) = forest /\
  length (assemble ds id cid lord forest) = length ds.
Proof.
  induction 1 as [|s d ss ds Hsd _ IH]; intros id cid lord forest Hlen.
  - cbn in Hlen. destruct forest; [|discriminate]. cbn. auto.
  - destruct d as [tail eidx|big step pfx labels kidsd]; cbn [assemble].
    + cbn [flat_map kids_of app] in Hlen. destruct (IH (S id) cid (S lord) forest Hlen) as (H1 & H2 & H3 & H4).
      cbn [map tree_id length List.seq fcs_ok flat_map kids app]. rewrite H1, H3, H4. auto.
    + cbn [flat_map kids_of] in Hlen. rewrite app_length in Hlen.
      pose proof (produced_inner_lengths _ _ _ _ _ _ _ Hsd) as L2.
      set (n := length kidsd) in *.
      assert (length (firstn n forest) = n) as Lf by (rewrite firstn_length; lia).
      assert (length (skipn n forest) = length (flat_map kids_of ds)) as Ls by (rewrite skipn_length; lia).
      destruct (IH (S id) (cid + n) lord (skipn n forest) Ls) as (H1 & H2 & H3 & H4).
      cbn [map tree_id length List.seq fcs_ok flat_map]. rewrite kids_inner, map_snd_combine by lia.
      rewrite H1, H3, H4, combine_length, Lf, L2, Nat.min_id, firstn_skipn.
      repeat split. fold n. rewrite <- L2. exact H2.
Qed.

Lemma build_levels_bfs o : forall fuel isbig base lbase ss forest lidx,
  build_levels fuel o isbig base lbase ss = Ok (forest, lidx) ->
  bfs_ok fuel base forest /\ length forest = length ss.
Proof.
  induction fuel as [|f IH]; intros isbig base lbase ss forest lidx H.
  - destruct ss; cbn in H; [|discriminate]. inversion H; subst. split; reflexivity.
  - destruct ss as [|s0 ss0]; [cbn in H; inversion H; subst; split; [apply bfs_ok_nil|reflexivity]|].
    remember (s0 :: ss0) as ss eqn:Ess.
    assert (build_levels (S f) o isbig base lbase ss =
            (do (ds, b) <- process_level o isbig ss;
             let lidx := flat_map leaf_idx_of ds in
             let cbase := base + length ss in
             do (forest, lidx') <- build_levels f o b cbase (lbase + length lidx) (flat_map kids_of ds);
             Ok (assemble ds base cbase lbase forest, lidx ++ lidx'))) as Hunf.
    { rewrite Ess. reflexivity. }
    rewrite Hunf in H. clear Hunf. unfold bind in H.
    destruct (process_level o isbig ss) as [[ds b]|] eqn:E1; [|discriminate].
    cbv zeta in H.
    destruct (build_levels f o b (base + length ss) (lbase + length (flat_map leaf_idx_of ds)) (flat_map kids_of ds))
      as [[forest' lidx']|] eqn:E2; [|discriminate].
    inversion H; subst forest lidx. clear H.
    destruct (IH _ _ _ _ _ _ E2) as [HB HL].
    pose proof (process_level_spec _ _ _ _ _ E1) as Hp.
    pose proof (Forall2_length_eq _ _ _ Hp) as Lds.
    destruct (assemble_bfs o ss ds Hp base (base + length ss) lbase forest' HL) as (H1 & H2 & H3 & H4).
    split; [|lia].
    cbn [bfs_ok]. rewrite H1, H3, H4, <- Lds. auto.
Qed.

Lemma built_bfs o keys vals T :
  build o keys vals = Ok T -> forall r, t_root T = Some r -> exists n, bfs_ok n 0 [r].
Proof.
  intros Hb r Hr. destruct keys as [|k0 kr]; [inversion Hb; subst T; discriminate|].
  rewrite build_unfold in Hb by discriminate.
  destruct (check_order (k0 :: kr)); [discriminate|]. cbv zeta in Hb. unfold bind in Hb.
  destruct (build_levels _ o true 0 0 _) as [[forest lidx]|] eqn:Eb; [|discriminate].
  destruct forest as [|r0 [|r2 rest]]; try discriminate.
  inversion Hb; subst T. cbn [t_root] in Hr. inversion Hr; subst r0.
  apply build_levels_bfs in Eb. destruct Eb as [HB _]. eexists. exact HB.
Qed.

(* the nodes in breadth-first order *)
Fixpoint nodes_bfs (n : nat) (F : list tree) : list tree :=
  match n with
  | 0 => []
  | S n' => F ++ nodes_bfs n' (flat_map kids F)
  end.

Lemma subtrees_forest_step : forall F,
  Permutation (flat_map subtrees F) (F ++ flat_map subtrees (flat_map kids F)).
Proof.
  induction F as [|t F IH]; [constructor|].
  cbn [flat_map app]. rewrite (subtrees_kids t) at 1. cbn [app]. constructor.
  rewrite flat_map_app.
  eapply Permutation_trans; [apply Permutation_app_head; exact IH|].
  apply Permutation_app_swap_app.
Qed.

Lemma subtrees_forest_bfs : forall n base F, bfs_ok n base F ->
  Permutation (flat_map subtrees F) (nodes_bfs n F).
Proof.
  induction n as [|n IH]; intros base F H.
  - cbn in H. subst F. constructor.
  - destruct H as (_ & _ & H3). cbn [nodes_bfs].
    eapply Permutation_trans; [apply subtrees_forest_step|].
    apply Permutation_app_head. eapply IH. exact H3.
Qed.

(* in breadth-first order the ids are consecutive *)
Lemma nodes_bfs_ids : forall n base F, bfs_ok n base F ->
  map tree_id (nodes_bfs n F) = List.seq base (length (nodes_bfs n F)).
Proof.
  induction n as [|n IH]; intros base F H; [reflexivity|].
  destruct H as (H1 & _ & H3). cbn [nodes_bfs]. rewrite map_app, app_length, seq_app, H1, (IH _ _ H3). reflexivity.
Qed.

Theorem bfs_ids_nodup n r : bfs_ok n 0 [r] -> NoDup (map tree_id (subtrees r)).
Proof.
  intros H. pose proof (subtrees_forest_bfs _ _ _ H) as P. cbn [flat_map] in P. rewrite app_nil_r in P.
  eapply Permutation_NoDup; [apply Permutation_sym; apply Permutation_map; exact P|].
  rewrite (nodes_bfs_ids _ _ _ H). apply seq_NoDup.
Qed.

Theorem built_ids_nodup o keys vals T r :
  build o keys vals = Ok T -> t_root T = Some r -> NoDup (map tree_id (subtrees r)).
Proof. intros Hb Hr. destruct (built_bfs _ _ _ _ Hb r Hr) as (n & H). eapply bfs_ids_nodup; exact H. Qed.

(* the ids are exactly 0 .. NodeCnt-1 *)
Theorem built_ids_range o keys vals T r :
  build o keys vals = Ok T -> t_root T = Some r ->
  Permutation (map tree_id (subtrees r)) (List.seq 0 (length (subtrees r))).
Proof.
  intros Hb Hr. destruct (built_bfs _ _ _ _ Hb r Hr) as (n & H).
  pose proof (subtrees_forest_bfs _ _ _ H) as P. cbn [flat_map] in P. rewrite app_nil_r in P.
  rewrite (Permutation_length P), <- (nodes_bfs_ids _ _ _ H). apply Permutation_map. exact P.
Qed.

(* ====================================================================== *)
(* The id walk of initLevels computes [levels]                             *)
(* ====================================================================== *)

Lemma perm_filter_length {A} (f : A -> bool) l l' :
  Permutation l l' -> length (filter f l) = length (filter f l').
Proof.
  induction 1 as [|x l l' _ IH|x y l|l l' l'' _ IH1 _ IH2]; cbn [filter].
  - reflexivity.
  - destruct (f x); cbn [length]; rewrite IH; reflexivity.
  - destruct (f x), (f y); reflexivity.
  - rewrite IH1. exact IH2.
Qed.

Lemma count_perm l l' : Permutation l l' -> count_inner l = count_inner l' /\ count_leaf l = count_leaf l'.
Proof. intros H. unfold count_inner, count_leaf. split; apply perm_filter_length; exact H. Qed.

Lemma rank_inner_split P Q base :
  (forall t, In t P -> tree_id t < base) -> (forall t, In t Q -> base <= tree_id t) ->
  rank_inner (P ++ Q) base = count_inner P.
Proof.
  intros HP HQ. unfold rank_inner, count_inner. rewrite filter_app, app_length.
  rewrite (filter_ext_in (fun t => is_inner t && (tree_id t <? base)) is_inner P).
  2:{ intros t Ht. specialize (HP t Ht). destruct (Nat.ltb_spec (tree_id t) base); [apply andb_true_r|lia]. }
  rewrite (filter_all_false _ Q); [cbn; lia|].
  rewrite Forall_forall. intros t Ht. specialize (HQ t Ht).
  destruct (Nat.ltb_spec (tree_id t) base); [lia|apply andb_false_r].
Qed.

(* candidates of next_inner *)
Definition cand (cur : nat) (t : tree) : bool := is_inner t && (cur <=? tree_id t).

Lemma next_inner_spec : forall nodes cur best,
  match next_inner nodes cur best with
  | None => best = None /\ forall t, In t nodes -> cand cur t = false
  | Some (i, f) =>
      (best = Some (i, f) \/ exists t, In t nodes /\ cand cur t = true /\ tree_id t = i /\ first_child t = f) /\
      (forall t, In t nodes -> cand cur t = true -> i <= tree_id t) /\
      match best with Some (bi, _) => i <= bi | None => True end
  end.
Proof.
  induction nodes as [|t r IH]; intros cur best.
  - cbn [next_inner]. destruct best as [[bi bf]|]; [|split; [reflexivity|intros ? []]].
    split; [left; reflexivity|]. split; [intros ? []|lia].
  - cbn [next_inner]. fold (cand cur t).
    destruct (cand cur t) eqn:Ec.
    + (* t is a candidate *)
      set (best' := match best with
                    | Some (bid, _) => if tree_id t <? bid then Some (tree_id t, first_child t) else best
                    | None => Some (tree_id t, first_child t)
                    end).
      specialize (IH cur best').
      destruct (next_inner r cur best') as [[i f]|] eqn:En.
      * destruct IH as (H1 & H2 & H3).
        assert (i <= tree_id t /\ match best with Some (bi, _) => i <= bi | None => True end) as [Ht Hb].
        { unfold best' in H3. destruct best as [[bi bf]|]; [|split; [exact H3|exact I]].
          destruct (Nat.ltb_spec (tree_id t) bi); lia. }
        split; [|split; [|exact Hb]].
        -- destruct H1 as [H1|(t' & Hin & Hc & Hi & Hf)].
           ++ unfold best' in H1. destruct best as [[bi bf]|].
              ** destruct (Nat.ltb_spec (tree_id t) bi).
                 --- inversion H1; subst. right. exists t. cbn; auto.
                 --- left. exact H1.
              ** inversion H1; subst. right. exists t. cbn; auto.
           ++ right. exists t'. cbn; auto.
        -- intros t' [<-|Hin] Hc; [exact Ht|apply H2; assumption].
      * destruct IH as (H1 & _). unfold best' in H1. destruct best as [[bi bf]|]; [|discriminate].
        destruct (tree_id t <? bi); discriminate.
    + specialize (IH cur best). destruct (next_inner r cur best) as [[i f]|].
      * destruct IH as (H1 & H2 & H3). split; [|split; [|exact H3]].
        -- destruct H1 as [H1|(t' & Hin & Hc & Hi & Hf)]; [left; exact H1|right; exists t'; cbn; auto].
        -- intros t' [<-|Hin] Hc; [congruence|apply H2; assumption].
      * destruct IH as (H1 & H2). split; [exact H1|]. intros t' [<-|Hin]; [exact Ec|apply H2; exact Hin].
Qed.

Lemma seq_sorted : forall n a, StronglySorted lt (List.seq a n).
Proof.
  induction n as [|n IH]; intros a; [constructor|]. cbn [List.seq]. constructor; [apply IH|].
  rewrite Forall_forall. intros x Hx. apply in_seq in Hx. lia.
Qed.

(* the first-child id of the inner node with the smallest id of a level *)
Lemma fcs_first : forall F cid,
  fcs_ok cid F -> StronglySorted lt (map tree_id F) ->
  forall t, In t F -> is_inner t = true ->
  (forall t', In t' F -> is_inner t' = true -> tree_id t <= tree_id t') ->
  first_child t = cid.
Proof.
  induction F as [|x F IH]; intros cid Hf Hs t Hin Hi Hmin; [destruct Hin|].
  cbn [map] in Hs. inversion Hs as [|? ? Hs' Hlt]; subst.
  destruct x as [id ord tail eidx|id big step pfx fc ch].
  - destruct Hin as [<-|Hin]; [discriminate|]. cbn [fcs_ok] in Hf.
    apply (IH cid Hf Hs' t Hin Hi). intros t' Ht'. apply Hmin. right; exact Ht'.
  - cbn [fcs_ok] in Hf. destruct Hf as [Hfc _].
    destruct Hin as [<-|Hin]; [exact Hfc|exfalso].
    assert (tree_id t <= id) as H1 by (apply (Hmin (Inner id big step pfx fc ch)); [left; reflexivity|reflexivity]).
    rewrite Forall_forall in Hlt. specialize (Hlt (tree_id t) (in_map tree_id _ _ Hin)). cbn [tree_id] in Hlt. lia.
Qed.

Lemma nodes_bfs_nil : forall n, nodes_bfs n [] = [].
Proof. induction n as [|n IH]; [reflexivity|]. cbn. exact IH. Qed.

Lemma count_inner_zero_kids F : count_inner F = 0 -> flat_map kids F = [].
Proof.
  unfold count_inner. induction F as [|t F IH]; [reflexivity|]. cbn [filter flat_map].
  destruct t; cbn [is_inner kids]; [intros H; rewrite (IH H); reflexivity|cbn; discriminate].
Qed.

Lemma count_inner_pos F : count_inner F <> 0 -> exists x, In x F /\ is_inner x = true.
Proof.
  unfold count_inner. intros H. destruct (filter is_inner F) as [|x l] eqn:E; [cbn in H; congruence|].
  exists x. apply (filter_In is_inner). rewrite E. left; reflexivity.
Qed.

(* per-depth counts of a forest, for at most n depths *)
Fixpoint fprofile (n : nat) (F : list tree) : list (nat * nat) :=
  match n with
  | 0 => []
  | S n' => match F with
            | [] => []
            | _ => (count_inner F, count_leaf F) :: fprofile n' (flat_map kids F)
            end
  end.

Lemma fprofile_nil n : fprofile n [] = [].
Proof. destruct n; reflexivity. Qed.

Lemma walk_levels_ok : forall n base F P nodes ti fuel,
  bfs_ok n base F -> F <> [] ->
  Permutation nodes (P ++ nodes_bfs n F) ->
  (forall t, In t nodes -> is_inner t = true -> kids t <> []) ->
  (forall t, In t P -> tree_id t < base) ->
  length P = base ->
  ti = count_inner nodes ->
  length nodes <= fuel + base ->
  exists out, walk_levels fuel nodes ti base = Ok out /\
    out ++ [(length nodes, ti, length nodes - ti)] =
    (base, count_inner P, count_leaf P) :: cumul (count_inner P) (count_leaf P) (fprofile n F).
Proof.
  induction n as [|n IH]; intros base F P nodes ti fuel HB HF HP HK Hlt HL Hti Hfuel;
    [cbn in HB; congruence|].
  destruct HB as (Hids & Hfc & HB').
  set (F' := flat_map kids F) in *.
  cbn [nodes_bfs] in HP. fold F' in HP.
  assert (forall t, In t (F ++ nodes_bfs n F') -> base <= tree_id t) as Hge.
  { intros t Ht. apply (in_map tree_id) in Ht. rewrite map_app, Hids, (nodes_bfs_ids _ _ _ HB') in Ht.
    apply in_app_or in Ht. destruct Ht as [Ht|Ht]; apply in_seq in Ht; lia. }
  assert (rank_inner nodes base = count_inner P) as Hrank.
  { unfold rank_inner. rewrite (perm_filter_length _ _ _ HP). apply rank_inner_split; assumption. }
  destruct (count_perm _ _ HP) as [Hci Hcl].
  destruct (count_app P (F ++ nodes_bfs n F')) as [Hci1 Hcl1].
  destruct (count_app F (nodes_bfs n F')) as [Hci2 Hcl2].
  pose proof (Permutation_length HP) as Hlen. rewrite !app_length in Hlen.
  pose proof (count_total P) as HtP. pose proof (count_total F) as HtF.
  assert (F <> [] -> 1 <= length F) as HF1 by (destruct F; [congruence|cbn; lia]).
  specialize (HF1 HF).
  destruct fuel as [|f].
  - (* no fuel: only possible when the walk stops here *)
    exfalso. lia.
  - cbn [walk_levels]. rewrite Hrank.
    destruct (Nat.eq_dec (count_inner F) 0) as [Hz|Hnz].
    + (* bottom level *)
      assert (F' = []) as HF' by (apply count_inner_zero_kids; exact Hz).
      rewrite HF', nodes_bfs_nil in *. cbn [app] in *.
      assert (count_inner (@nil tree) = 0) as Hn0 by reflexivity.
      assert (count_leaf (@nil tree) = 0) as Hn1 by reflexivity.
      assert (count_inner P = ti) as E by lia.
      rewrite E, Nat.eqb_refl. eexists. split; [reflexivity|].
      cbn [fprofile]. destruct F as [|x F0]; [congruence|].
      change (flat_map kids (x :: F0)) with F'. rewrite HF', fprofile_nil.
      cbn [cumul app]. cbn [length] in *.
      repeat match goal with
             | |- (_, _) = (_, _) => apply f_equal2
             | |- _ :: _ = _ :: _ => apply f_equal2
             end; try reflexivity; lia.
    + (* there is an inner node on this level *)
      assert (count_inner P <> ti) as Hne by lia.
      destruct (Nat.eqb_spec (count_inner P) ti) as [|_]; [congruence|].
      destruct (count_inner_pos F Hnz) as (x & HxF & Hxi).
      assert (forall t, In t F -> In t nodes) as HFn.
      { intros t Ht. eapply Permutation_in; [apply Permutation_sym; exact HP|].
        apply in_or_app; right. apply in_or_app; left. exact Ht. }
      assert (forall t, In t F -> base <= tree_id t < base + length F) as HFid.
      { intros t Ht. apply (in_map tree_id) in Ht. rewrite Hids in Ht. apply in_seq in Ht. lia. }
      pose proof (next_inner_spec nodes base None) as Hsp.
      destruct (next_inner nodes base None) as [[i fc]|].
      2:{ exfalso. destruct Hsp as [_ Hsp]. specialize (Hsp x (HFn x HxF)). unfold cand in Hsp.
          rewrite Hxi in Hsp. destruct (Nat.leb_spec base (tree_id x)); [discriminate|]. specialize (HFid x HxF). lia. }
      destruct Hsp as ([Hs|(t & Htn & Htc & Hti' & Htf)] & Hmin & _); [discriminate|].
      unfold cand in Htc. apply andb_true_iff in Htc. destruct Htc as [Hinner Hle]. apply Nat.leb_le in Hle.
      assert (i <= tree_id x) as Hix.
      { apply Hmin; [apply HFn; exact HxF|]. unfold cand. rewrite Hxi. cbn.
        apply Nat.leb_le. specialize (HFid x HxF). lia. }
      assert (In t F) as HtF'.
      { pose proof (Permutation_in _ HP Htn) as Hin. apply in_app_or in Hin. destruct Hin as [Hin|Hin].
        - specialize (Hlt t Hin). lia.
        - apply in_app_or in Hin. destruct Hin as [Hin|Hin]; [exact Hin|exfalso].
          apply (in_map tree_id) in Hin. rewrite (nodes_bfs_ids _ _ _ HB') in Hin. apply in_seq in Hin.
          specialize (HFid x HxF). lia. }
      assert (fc = base + length F) as Hfcv.
      { rewrite <- Htf. apply (fcs_first F (base + length F) Hfc); [rewrite Hids; apply seq_sorted|exact HtF'|exact Hinner|].
        intros t' Ht' Hi'. rewrite Hti'. apply Hmin; [apply HFn; exact Ht'|].
        unfold cand. rewrite Hi'. cbn. apply Nat.leb_le. specialize (HFid t' Ht'). lia. }
      rewrite Hfcv. clear Htf Hfcv fc.
      assert (F' <> []) as HF'ne.
      { pose proof (HK x (HFn x HxF) Hxi) as Hk. unfold F'. intros E.
        apply in_split in HxF. destruct HxF as (l1 & l2 & ->). rewrite flat_map_app in E. cbn [flat_map] in E.
        apply app_eq_nil in E. destruct E as [_ E]. apply app_eq_nil in E. destruct E as [E _]. congruence. }
      destruct (IH (base + length F) F' (P ++ F) nodes ti f HB' HF'ne) as (out & Hout & Heq).
      * rewrite <- app_assoc. exact HP.
      * exact HK.
      * intros t0 Ht0. apply in_app_or in Ht0. destruct Ht0 as [Ht0|Ht0]; [specialize (Hlt t0 Ht0); lia|specialize (HFid t0 Ht0); lia].
      * rewrite app_length. lia.
      * exact Hti.
      * lia.
      * rewrite Hout. cbn [bind]. eexists. split; [reflexivity|].
        cbn [app]. rewrite Heq. destruct (count_app P F) as [Hc1 Hc2]. rewrite Hc1, Hc2.
        cbn [fprofile]. destruct F as [|x0 F0]; [congruence|]. fold F'. cbn [cumul]. cbn [length] in *.
        repeat match goal with
               | |- (_, _) = (_, _) => apply f_equal2
               | |- _ :: _ = _ :: _ => apply f_equal2
               end; try reflexivity; try lia.
Qed.

(* ---------- the per-depth counts of a forest are the profile ---------- *)
Definition profile_forest (F : list tree) : list (nat * nat) :=
  fold_right (fun t acc => zip_add (profile t) acc) [] F.

Lemma zip_add_nil_r a : zip_add a [] = a.
Proof. destruct a as [|[i l] a]; reflexivity. Qed.

Lemma zip_add_assoc : forall a b c, zip_add (zip_add a b) c = zip_add a (zip_add b c).
Proof.
  induction a as [|[i1 l1] a IH]; intros b c; [reflexivity|].
  destruct b as [|[i2 l2] b]; [reflexivity|]. destruct c as [|[i3 l3] c]; [reflexivity|].
  cbn [zip_add]. rewrite IH. f_equal. f_equal; lia.
Qed.

Lemma profile_forest_app A B : profile_forest (A ++ B) = zip_add (profile_forest A) (profile_forest B).
Proof.
  induction A as [|t A IH]; [reflexivity|]. cbn [app profile_forest fold_right].
  fold (profile_forest (A ++ B)). fold (profile_forest A). rewrite IH, zip_add_assoc. reflexivity.
Qed.

Lemma profile_kids_forest ch : profile_kids ch = profile_forest (map snd ch).
Proof.
  induction ch as [|[x c] r IH]; [reflexivity|]. cbn [profile_kids fold_right map snd profile_forest].
  fold (profile_kids r). fold (profile_forest (map snd r)). rewrite IH. reflexivity.
Qed.

Lemma profile_hd t :
  profile t = ((if is_inner t then 1 else 0), (if is_inner t then 0 else 1)) :: profile_forest (kids t).
Proof.
  destruct t as [id ord tail eidx|id big step pfx fc ch]; [reflexivity|].
  rewrite profile_inner, profile_kids_forest. reflexivity.
Qed.

Lemma count_cons t L :
  count_inner (t :: L) = (if is_inner t then 1 else 0) + count_inner L /\
  count_leaf (t :: L) = (if is_inner t then 0 else 1) + count_leaf L.
Proof. unfold count_inner, count_leaf. cbn [filter]. destruct (is_inner t); cbn; auto. Qed.

Lemma profile_forest_step F : F <> [] ->
  profile_forest F = (count_inner F, count_leaf F) :: profile_forest (flat_map kids F).
Proof.
  induction F as [|t F IH]; [congruence|]. intros _.
  cbn [profile_forest fold_right]. fold (profile_forest F). rewrite profile_hd.
  destruct (count_cons t F) as [H1 H2]. rewrite H1, H2.
  destruct F as [|t' F'].
  - cbn [profile_forest fold_right flat_map]. rewrite zip_add_nil_r, app_nil_r.
    unfold count_inner, count_leaf. cbn [filter length]. rewrite !Nat.add_0_r. reflexivity.
  - rewrite IH by discriminate. cbn [zip_add]. cbn [flat_map]. fold (flat_map kids (t' :: F')).
    change (kids t' ++ flat_map kids F') with (flat_map kids (t' :: F')).
    rewrite (profile_forest_app (kids t) (flat_map kids (t' :: F'))). reflexivity.
Qed.

Lemma fprofile_forest : forall n base F, bfs_ok n base F -> fprofile n F = profile_forest F.
Proof.
  induction n as [|n IH]; intros base F H.
  - cbn in H. subst F. reflexivity.
  - destruct H as (_ & _ & H3). cbn [fprofile]. destruct F as [|t F0]; [reflexivity|].
    rewrite profile_forest_step by discriminate. rewrite (IH _ _ H3). reflexivity.
Qed.

Theorem levels_walk_ok o keys vals T :
  build o keys vals = Ok T -> levels_walk T = Ok (levels T).
Proof.
  intros Hb. destruct (build_ok _ _ _ _ Hb) as [[-> ->]|(r & lidx & B)]; [reflexivity|].
  pose proof (bt_root _ _ _ _ _ _ B) as Hr.
  destruct (built_bfs _ _ _ _ Hb r Hr) as (n & HB).
  unfold levels_walk, levels. rewrite Hr. cbv zeta. rewrite all_nodes_subtrees.
  pose proof (subtrees_forest_bfs _ _ _ HB) as HP. cbn [flat_map] in HP. rewrite app_nil_r in HP.
  assert (forall t, In t (subtrees r) -> is_inner t = true -> kids t <> []) as HK.
  { intros t Ht Hi.
    assert (has_kids r) as Hh.
    { eapply trie_of_has_kids; [exact (bt_trie _ _ _ _ _ _ B)|].
      apply root_inv; [exact (bt_sorted _ _ _ _ _ _ B)|exact (bt_nonempty _ _ _ _ _ _ B)]. }
    pose proof (has_kids_sub r t Hh Ht) as Hht.
    destruct t as [|id big step pfx fc ch]; [discriminate|]. apply has_kids_inner in Hht. destruct Hht as [Hne _].
    rewrite kids_inner. destruct ch; [congruence|discriminate]. }
  destruct (walk_levels_ok n 0 [r] [] (subtrees r) (count_inner (subtrees r)) (length (subtrees r)) HB)
    as (out & Hout & Heq); try reflexivity; try discriminate; try assumption; try lia.
  { intros t []. }
  fold (count_inner (subtrees r)). rewrite Hout. cbn [bind]. rewrite Heq.
  rewrite (fprofile_forest _ _ _ HB). cbn [profile_forest fold_right]. rewrite zip_add_nil_r. reflexivity.
Qed.

(* ---------- combined statements used by props/C18.v and props/C19.v ---------- *)
Lemma levels_depth_counts T r k :
  t_root T = Some r -> k < length (profile r) ->
  length (levels T) = S (length (profile r)) /\
  nth (S k) (levels T) (0, 0, 0) =
    (count_inner (upto_depth k r) + count_leaf (upto_depth k r),
     count_inner (upto_depth k r), count_leaf (upto_depth k r)).
Proof. intros Hr Hk. split; [exact (levels_length T r Hr)|exact (levels_depth T r k Hr Hk)]. Qed.

Lemma built_ids o keys vals T r :
  build o keys vals = Ok T -> t_root T = Some r ->
  NoDup (map tree_id (subtrees r)) /\
  Permutation (map tree_id (subtrees r)) (List.seq 0 (length (subtrees r))).
Proof. intros Hb Hr. split; [eapply built_ids_nodup; eassumption|eapply built_ids_range; eassumption]. Qed.
