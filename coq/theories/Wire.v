(* Wire.v - the wire model instantiated with the constants REGENERATED from
   /repo on every run (coq/gen/Gen_Consts.v: slimtrieVersion and the list
   returned by compatibleVersions()).  Model file: definitions only. *)
From Coq Require Import List NArith String.
From Coq.Strings Require Import Byte.
From Slim Require Import Varint Proto Semver Frame Instance.
From SlimGen Require Import Gen_Consts.
Import ListNotations.

Definition compat_gen : list str := map list_byte_of_string g_compatibleVersions.
Definition cur_gen : str := list_byte_of_string g_slimtrieVersion.

Definition marshal_gen (m : slim) : option (list byte) := marshal cur_gen m.
Definition unmarshal_gen (b : list byte) : outcome := unmarshal compat_gen cur_gen b.

(* 32 + proto.Size(inner) *)
Definition marshal_size (m : slim) : N := (32 + size_slim m)%N.

(* Instantiation used by the extracted driver: vars and levels are represented by
   the message they were derived from (so that staleness is visible), the legacy
   conversions by placeholders (identity / the empty message).  The driver never
   prints the inner message after a successful legacy load. *)
Definition inst_gen : Type := inst slim slim.
Definition fresh_gen : inst_gen := fresh slim slim (fun m => m) (fun m => m).
Definition step_gen (st : inst_gen) (o : op) : inst_gen * option outcome :=
  step compat_gen cur_gen slim slim (fun m => m) (fun m => m) empty_slim
       (fun m => m) (fun _ _ _ => empty_slim) st o.

(* a message the Go types can hold and Marshal can frame: field ranges, no
   unknown fields, every length-delimited payload below 2^64 (wf_slim), and a
   body below 2^63 bytes (pbcmpl reads BodySize as int64) *)
Definition wf_msg (m : slim) : bool := wf_slim m && (blen (ser_slim m) <? two63)%N.
