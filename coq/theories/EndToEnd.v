(* EndToEnd.v - composition of the layers: builder (Model, L2) -> bit-level message
   (Bits, L3) -> protobuf bytes and instance state (Proto/Frame/Instance/Wire, L4) ->
   queries run over the loaded message (Msg).  The embedding of the bit-level message
   into the wire record is the identity on the fields (N as int32 / uint64 values). *)
From Coq Require Import List NArith ZArith Bool Lia.
From Coq.Strings Require Import Byte.
From Slim Require Import Base Keys Model BitmapRank Flat FlatProofs Msg MsgProofs.
From Slim Require Bits.
From Slim Require Import Varint Proto Semver Frame Instance Wire WireProofs.
Import ListNotations.

Definition bm_to_wire (b : Bits.bitmap) : Proto.bitmap :=
  mkBitmap (Bits.b_words b) (map Z.of_N (Bits.b_rank b)) (map Z.of_N (Bits.b_sel b)) [].
Definition bm_of_wire (b : Proto.bitmap) : Bits.bitmap :=
  Bits.mkBM (bm_words b) (map Z.to_N (bm_rank b)) (map Z.to_N (bm_select b)).

Definition vl_to_wire (v : Bits.vlen) : Proto.vlen :=
  mkVlen (Z.of_N (Bits.v_n v)) (Z.of_N (Bits.v_eltcnt v)) (option_map bm_to_wire (Bits.v_position v))
         (Z.of_N (Bits.v_fixed v)) (Bits.v_bytes v) (option_map bm_to_wire (Bits.v_presence v)) [].
Definition vl_of_wire (v : Proto.vlen) : Bits.vlen :=
  Bits.mkVL (Z.to_N (vl_n v)) (Z.to_N (vl_eltcnt v)) (option_map bm_of_wire (vl_presence v))
            (option_map bm_of_wire (vl_position v)) (Z.to_N (vl_fixed v)) (vl_bytes v).

Definition to_wire (m : Bits.msg) : slim :=
  mkSlim (Z.of_N (Bits.m_bigcnt m)) (Z.of_N (Bits.m_shortsize m))
         (option_map bm_to_wire (Bits.m_nodetype m)) (option_map bm_to_wire (Bits.m_inners m))
         (option_map bm_to_wire (Bits.m_shortbm m)) (Bits.m_shorttable m)
         (option_map vl_to_wire (Bits.m_innerpfx m)) (option_map vl_to_wire (Bits.m_leafpfx m))
         (option_map vl_to_wire (Bits.m_leaves m)) [].
Definition of_wire (s : slim) : Bits.msg :=
  Bits.mkMsg (Z.to_N (s_bigcnt s)) (Z.to_N (s_shortsize s))
             (option_map bm_of_wire (s_nodetype s)) (option_map bm_of_wire (s_inners s))
             (option_map bm_of_wire (s_shortbm s)) (s_shorttable s)
             (option_map vl_of_wire (s_innerpref s)) (option_map vl_of_wire (s_leafpref s))
             (option_map vl_of_wire (s_leaves s)).

(* what an instance answers: the queries of Msg.v over its inner message and vars;
   a nil vars pointer or a partially decoded message is a panic / unknown *)
Definition VarsT : Type := out Bits.vars.
Definition ivars (w : slim) : VarsT := Bits.init_vars (of_wire w).

Section Answers.
  Variable Levels : Type.
  (* every query first tests st.inner.NodeTypeBM == nil and answers "empty" without touching
     vars; only then does it read vars (a nil vars pointer, left by Reset, would panic) *)
  Definition with_msg {A} (st : inst VarsT Levels) (empty : A) (f : Bits.msg -> Bits.vars -> res A) : res A :=
    match i_inner _ _ st with
    | IPartial => Err (EPanic 41)
    | IMsg w =>
        let m := of_wire w in
        match Bits.m_nodetype m with
        | None => Ok empty
        | Some _ =>
            match i_vars _ _ st with
            | Some (Val vs) => f m vs
            | _ => Err (EPanic 40)
            end
        end
    end.
  Definition inst_getid (st : inst VarsT Levels) (fuel : nat) (q : key) : res (option nat) :=
    with_msg st None (fun m vs => mgetid fuel m vs q).
  Definition inst_get (st : inst VarsT Levels) (fuel : nat) (q : key) : res found :=
    with_msg st NotFound (fun m vs => mget fuel m vs q).
  Definition inst_searchid (st : inst VarsT Levels) (fuel : nat) (q : key) :=
    with_msg st (None, None, None) (fun m vs => msearchid fuel m vs q).
  Definition inst_search (st : inst VarsT Levels) (fuel : nat) (q : key) :=
    with_msg st (None, None, None) (fun m vs => msearch fuel m vs q).
  Definition inst_rangeget (st : inst VarsT Levels) (fuel : nat) (q : key) : res found :=
    with_msg st NotFound (fun m vs => mrangeget fuel m vs q).
End Answers.
