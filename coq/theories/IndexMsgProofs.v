(* IndexMsgProofs.v - C12 through the message: SlimIndex.Get / RangeGet with the trie lookup
   computed from the bit-level message equal the tree-level model, hence with a key-verifying
   reader they are the exact record map. *)
From Slim Require Import Base Keys Model BitmapRank BitmapRank2 Bits Msg MsgProofs Index IndexProofs IndexRangeProofs IndexMsg.

Lemma mindex_get_eq rs T m vs rd q fuel :
  index_build rs = Ok T -> encode_trie T = Val m -> init_vars m = Val vs -> trie_height T <= fuel ->
  mindex_get (S fuel) m vs rd q = index_get T rd q.
Proof.
  intros Hb Em Ev Hf. unfold mindex_get, index_get. unfold index_build in Hb.
  rewrite (mget_get _ _ _ T m vs q fuel Hb Em Ev Hf). reflexivity.
Qed.

Lemma mindex_rangeget_eq rs T m vs rd q fuel :
  index_build rs = Ok T -> encode_trie T = Val m -> init_vars m = Val vs -> trie_height T <= fuel ->
  mindex_rangeget (S fuel) m vs rd q = index_rangeget T rd q.
Proof.
  intros Hb Em Ev Hf. unfold mindex_rangeget, index_rangeget. unfold index_build in Hb.
  rewrite (mrangeget_rangeget _ _ _ T m vs q fuel Hb Em Ev Hf). reflexivity.
Qed.

Theorem mindex_get_exact rs T m vs q fuel :
  offs_in_range rs = true -> offs_adjacent_distinct rs = true -> index_build rs = Ok T ->
  encode_trie T = Val m -> init_vars m = Val vs -> trie_height T <= fuel ->
  mindex_get (S fuel) m vs (table_reader rs) q = Ok (lookup rs q).
Proof.
  intros Hr Hd Hb Em Ev Hf. rewrite (mindex_get_eq rs T m vs _ q fuel Hb Em Ev Hf).
  exact (index_get_exact rs T q Hr Hd Hb).
Qed.

Theorem mindex_rangeget_exact rs T m vs q fuel :
  offs_in_range rs = true -> index_build rs = Ok T ->
  encode_trie T = Val m -> init_vars m = Val vs -> trie_height T <= fuel ->
  mindex_rangeget (S fuel) m vs (table_reader rs) q = Ok (lookup rs q).
Proof.
  intros Hr Hb Em Ev Hf. rewrite (mindex_rangeget_eq rs T m vs _ q fuel Hb Em Ev Hf).
  exact (index_rangeget_exact rs T q Hr Hb).
Qed.

(* the two clauses of the property: dense index + Get, sparse index + RangeGet *)
Theorem mindex_exact rs T m vs q fuel :
  offs_in_range rs = true -> index_build rs = Ok T ->
  encode_trie T = Val m -> init_vars m = Val vs -> trie_height T <= fuel ->
  (offs_increasing rs = true -> mindex_get (S fuel) m vs (table_reader rs) q = Ok (lookup rs q)) /\
  (offs_nondecreasing rs = true -> mindex_rangeget (S fuel) m vs (table_reader rs) q = Ok (lookup rs q)).
Proof.
  intros Hr Hb Em Ev Hf. split.
  - intros Hi. rewrite (mindex_get_eq rs T m vs _ q fuel Hb Em Ev Hf). exact (index_get_exact_increasing rs T q Hr Hi Hb).
  - intros Hn. rewrite (mindex_rangeget_eq rs T m vs _ q fuel Hb Em Ev Hf). exact (index_rangeget_exact_blocks rs T q Hr Hn Hb).
Qed.

Theorem mindex_eq rs T m vs rd q fuel :
  index_build rs = Ok T -> encode_trie T = Val m -> init_vars m = Val vs -> trie_height T <= fuel ->
  mindex_get (S fuel) m vs rd q = index_get T rd q /\
  mindex_rangeget (S fuel) m vs rd q = index_rangeget T rd q.
Proof.
  intros Hb Em Ev Hf. split.
  - exact (mindex_get_eq rs T m vs rd q fuel Hb Em Ev Hf).
  - exact (mindex_rangeget_eq rs T m vs rd q fuel Hb Em Ev Hf).
Qed.

Theorem mindex_exact_general rs T m vs q fuel :
  offs_in_range rs = true -> index_build rs = Ok T ->
  encode_trie T = Val m -> init_vars m = Val vs -> trie_height T <= fuel ->
  (offs_adjacent_distinct rs = true -> mindex_get (S fuel) m vs (table_reader rs) q = Ok (lookup rs q)) /\
  mindex_rangeget (S fuel) m vs (table_reader rs) q = Ok (lookup rs q).
Proof.
  intros Hr Hb Em Ev Hf. split.
  - intros Hd. exact (mindex_get_exact rs T m vs q fuel Hr Hd Hb Em Ev Hf).
  - exact (mindex_rangeget_exact rs T m vs q fuel Hr Hb Em Ev Hf).
Qed.
