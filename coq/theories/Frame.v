(* Frame.v - the versioned container of github.com/openacid/low/pbcmpl and
   SlimTrie.Marshal / Unmarshal of trie/slimtrie_marshal.go up to (not
   including) the legacy conversions before000510 / before000512*.
   Model file: definitions only.

   A section = 32-byte header (Version [16]byte NUL padded | HeaderSize uint64 LE
   | BodySize uint64 LE, written with encoding/binary) followed by BodySize bytes
   of protobuf.  Current and 0.5.10/0.5.11 streams are one section holding a
   Slim message; older streams are three sections (children, steps, leaves)
   holding array.Array32 messages.

   Reading follows the Go text:
     ReadHeader: io.ReadFull of 32 bytes (EOF when nothing is left,
       ErrUnexpectedEOF when fewer); the version string is the field with ALL
       trailing NUL bytes removed (verStr) - a 16-byte field without NUL is a
       16-byte string, an embedded NUL stays in the string;
     gate: vers.IsCompatible(ver, compatibleVersions()) else ErrIncompatible;
     pbcmpl.Unmarshal: ReadHeader again, HeaderSize must be 32, then
       make([]byte, BodySize) (panics for BodySize >= 2^63: negative int64) and
       io.ReadFull of the body, then proto.Unmarshal. *)
From Coq Require Import List NArith ZArith Bool.
From Coq.Strings Require Import Byte.
From Slim Require Import Varint Proto Semver.
Import ListNotations.
Open Scope N_scope.

Inductive cause :=
| CEOF               (* io.EOF: nothing left where bytes were expected *)
| CUnexpectedEOF     (* io.ErrUnexpectedEOF: some but not enough bytes *)
| CHeaderSize        (* pbcmpl.ErrInvalidHeaderSize *)
| CProto.            (* any error of proto.Unmarshal *)

Inductive stage := SHeader | SInner | SChildren | SSteps | SLeaves.

Inductive outcome :=
| OLoaded (m : slim)                  (* ver == slimtrieVersion: st.inner = m; st.init(); nil *)
| OLegacy510 (m : slim)               (* 0.5.10 / 0.5.11: m parsed into st.inner, then before000512*, st.init() *)
| OLegacy3 (children steps leaves : list byte)   (* three accepted section bodies, then before000510 *)
| OErr (s : stage) (c : cause)        (* errors.WithMessage(err, "failed to unmarshal <stage>") *)
| OIncompatible                       (* errors.Wrapf(ErrIncompatible, ..) *)
| OPanic                              (* makeslice: len out of range *)
| OUnmodelled.                        (* compatible list outside the modelled ParseRange fragment *)

Inductive rres (A : Type) := ROk (a : A) | RErr (c : cause) | RPanic.
Arguments ROk {A} a.
Arguments RErr {A} c.
Arguments RPanic {A}.

(* io.ReadFull(r, make([]byte, n)) on the remaining bytes *)
Definition read_full (n : N) (r : list byte) : rres (list byte * list byte) :=
  if n =? 0 then ROk ([], r)
  else match r with
       | [] => RErr CEOF
       | _ => match take_N n r with
              | None => RErr CUnexpectedEOF
              | Some p => ROk p
              end
       end.

(* verStr: drop all trailing NUL bytes *)
Fixpoint strip_nul (s : list byte) : list byte :=
  match s with
  | [] => []
  | x :: r => match strip_nul r with
              | [] => if Byte.eqb x x00 then [] else [x]
              | r' => x :: r'
              end
  end.

Record header := mkHeader { h_version : list byte; h_size : N; h_body : N }.

(* pbcmpl.ReadHeader *)
Definition read_header (b : list byte) : rres (header * list byte) :=
  match read_full 32 b with
  | RErr c => RErr c
  | RPanic => RPanic
  | ROk (h, rest) =>
    ROk (mkHeader (strip_nul (firstn 16 h))
                  (le_value (firstn 8 (skipn 16 h)))
                  (le_value (firstn 8 (skipn 24 h))), rest)
  end.

(* pbcmpl.Unmarshal(r, msg) with proto.Unmarshal abstracted as [accept] *)
Definition read_section {A} (accept : list byte -> option A) (b : list byte) : rres (A * list byte) :=
  match read_header b with
  | RErr c => RErr c
  | RPanic => RPanic
  | ROk (h, rest) =>
    if negb (h_size h =? 32) then RErr CHeaderSize
    else if two63 <=? h_body h then RPanic
    else match read_full (h_body h) rest with
         | RErr c => RErr c
         | RPanic => RPanic
         | ROk (body, rest') =>
           match accept body with
           | None => RErr CProto
           | Some a => ROk (a, rest')
           end
         end
  end.

Definition accept_array32 (b : list byte) : option (list byte) :=
  if accepts_array32 b then Some b else None.

(* newHeader + binary.Write; newHeader panics when the version is longer than 16 bytes *)
Definition frame (ver body : list byte) : option (list byte) :=
  if (16 <? length ver)%nat then None
  else Some (ver ++ repeat x00 (16 - length ver) ++ le64 32 ++ le64 (blen body) ++ body).

Section Unmarshal.
  Variable compat : list str.     (* SlimTrie.compatibleVersions() *)
  Variable cur : str.             (* slimtrieVersion *)

  Definition v0_5_10 : str := [x3d; x3d; x30; x2e; x35; x2e; x31; x30].   (* "==0.5.10" *)
  Definition v0_5_11 : str := [x3d; x3d; x30; x2e; x35; x2e; x31; x31].   (* "==0.5.11" *)

  (* SlimTrie.Marshal: pbcmpl.Marshal(writer, st.inner) with Slim.GetVersion() = slimtrieVersion *)
  Definition marshal (m : slim) : option (list byte) := frame cur (ser_slim m).

  Definition lift_stage {A} (s : stage) (r : rres A) (k : A -> outcome) : outcome :=
    match r with
    | ROk a => k a
    | RErr c => OErr s c
    | RPanic => OPanic
    end.

  (* SlimTrie.Unmarshal, result of the reading part *)
  Definition unmarshal (b : list byte) : outcome :=
    match read_header b with
    | RErr c => OErr SHeader c
    | RPanic => OPanic
    | ROk (h, _) =>
      let ver := h_version h in
      match is_compatible ver compat with
      | None => OUnmodelled
      | Some false => OIncompatible
      | Some true =>
        (* vers.Check(ver, slimtrieVersion, "==0.5.10", "==0.5.11") *)
        match is_compatible ver [cur; v0_5_10; v0_5_11] with
        | None => OUnmodelled
        | Some true =>
          lift_stage SInner (read_section parse_slim b)
            (fun '(m, _) =>
               match is_compatible ver [cur] with
               | Some true => OLoaded m
               | Some false => OLegacy510 m      (* vers.Check(ver, "<0.5.12") holds: 0.5.10 or 0.5.11 *)
               | None => OUnmodelled
               end)
        | Some false =>
          lift_stage SChildren (read_section accept_array32 b)
            (fun '(c, r1) =>
               lift_stage SSteps (read_section accept_array32 r1)
                 (fun '(s, r2) =>
                    lift_stage SLeaves (read_section accept_array32 r2)
                      (fun '(l, _) => OLegacy3 c s l)))
        end
      end
    end.
End Unmarshal.

Definition is_err (o : outcome) : bool :=
  match o with OErr _ _ | OIncompatible => true | _ => false end.
