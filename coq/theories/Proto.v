(* Proto.v - the protobuf wire format of trie/slim.proto (messages Bitmap,
   VLenArray, Slim) as golang/protobuf 1.3.1 writes and reads it, with the
   message AS DATA (a record mirroring slim.pb.go, including the retained
   unknown fields XXX_unrecognized).  Model file: definitions only.

   Writing (proto/table_marshal.go): fields in ascending tag order; proto3 zero
   scalars, nil messages, empty repeated fields and empty bytes are omitted;
   repeated integers are packed; a non-nil message is tag + length + content
   even when empty; int32 is written as uint64(int64(v)) (negative: 10 bytes);
   XXX_unrecognized is appended verbatim after the known fields.

   Reading (proto/table_unmarshal.go: unmarshalInfo.unmarshal, skipField): a loop
   "read tag varint; dispatch on the field number; the field reader consumes the
   value".  The model splits this into [tokenize] (tag + value extents, schema
   independent: exactly what skipField / the field readers consume for each
   wire type) and a per-message fold [step_*] over the tokens.  Both fail or
   succeed together with the single pass (an error anywhere is the one error
   of proto.Unmarshal), and on success they assign the same fields:
   - a scalar is overwritten by a later occurrence, repeated fields are
     appended (packed or not), sub-messages are MERGED into the existing one;
   - a known field number with an unexpected wire type, and every unknown
     field number, is kept in XXX_unrecognized as canonical tag ++ raw bytes;
   - wire types 6, 7 and a stray end-group are errors; groups are skipped to
     the matching end-group; field number 0 is an error ("illegal tag 0") at the
     field level of every message (not inside a skipped group). *)
From Coq Require Import List NArith ZArith Bool.
From Coq.Strings Require Import Byte.
From Slim Require Import Varint.
Import ListNotations.
Open Scope N_scope.

(* ---- tokens ---------------------------------------------------------------- *)
Inductive tok :=
| TVar (tag v : N) (raw : list byte)            (* wire 0; raw = the varint as it stood *)
| TBytes (tag : N) (payload raw : list byte)    (* wire 2; raw = length varint as it stood ++ payload *)
| TOther (tag wire : N) (raw : list byte).      (* wire 1, 5 (fixed) and 3 (group, through its end tag) *)

(* the bytes of b that precede its suffix rest *)
Definition consumed (b rest : list byte) : list byte := firstn (length b - length rest) b.

(* findEndGroup: scan fields until the unpaired end-group; returns the rest after it *)
Fixpoint skip_group (fuel depth : nat) (b : list byte) : option (list byte) :=
  match fuel with
  | O => None
  | S f =>
    match decode_varint b with
    | None => None
    | Some (x, b1) =>
      let w := x mod 8 in
      if w =? 0 then
        match decode_varint b1 with None => None | Some (_, r) => skip_group f depth r end
      else if w =? 5 then
        match take_exact 4 b1 with None => None | Some (_, r) => skip_group f depth r end
      else if w =? 1 then
        match take_exact 8 b1 with None => None | Some (_, r) => skip_group f depth r end
      else if w =? 2 then
        match decode_varint b1 with
        | None => None
        | Some (m, b2) => match take_N m b2 with None => None | Some (_, r) => skip_group f depth r end
        end
      else if w =? 3 then skip_group f (S depth) b1
      else if w =? 4 then
        match depth with
        | O => None
        | S O => Some b1
        | S d => skip_group f d b1
        end
      else None
    end
  end.

(* the value extent of one field, by wire type (skipField and the field readers agree on it) *)
Definition read_field (tag wire : N) (b : list byte) : option (tok * list byte) :=
  if wire =? 0 then
    match decode_varint b with
    | None => None
    | Some (v, r) => Some (TVar tag v (consumed b r), r)
    end
  else if wire =? 1 then
    match take_exact 8 b with None => None | Some (raw, r) => Some (TOther tag wire raw, r) end
  else if wire =? 5 then
    match take_exact 4 b with None => None | Some (raw, r) => Some (TOther tag wire raw, r) end
  else if wire =? 2 then
    match decode_varint b with
    | None => None
    | Some (m, b1) =>
      match take_N m b1 with
      | None => None
      | Some (p, r) => Some (TBytes tag p (consumed b b1 ++ p), r)
      end
    end
  else if wire =? 3 then
    match skip_group (S (length b)) 1 b with
    | None => None
    | Some r => Some (TOther tag wire (consumed b r), r)
    end
  else None.

Fixpoint tokenize (fuel : nat) (b : list byte) : option (list tok) :=
  match b with
  | [] => Some []
  | _ =>
    match fuel with
    | O => None
    | S f =>
      match decode_varint b with
      | None => None
      | Some (x, b1) =>
        if x / 8 =? 0 then None      (* "illegal tag 0": registered as an error for every message type *)
        else
        match read_field (x / 8) (x mod 8) b1 with
        | None => None
        | Some (t, rest) =>
          match tokenize f rest with
          | None => None
          | Some ts => Some (t :: ts)
          end
        end
      end
    end
  end.

Definition tag_bytes (tag wire : N) : list byte := encode_varint (tag * 8 + wire).

(* a token written back: canonical tag, value bytes as they stood.  This is also
   what is appended to XXX_unrecognized for a skipped field. *)
Definition ser_tok (t : tok) : list byte :=
  match t with
  | TVar tag _ raw => tag_bytes tag 0 ++ raw
  | TBytes tag _ raw => tag_bytes tag 2 ++ raw
  | TOther tag w raw => tag_bytes tag w ++ raw
  end.
Definition ser_toks (ts : list tok) : list byte := concat (map ser_tok ts).

(* tokens as the writer makes them *)
Definition mk_var (tag v : N) : tok := TVar tag v (encode_varint v).
Definition mk_bytes (tag : N) (p : list byte) : tok := TBytes tag p (encode_varint (blen p) ++ p).

Definition packed_payload (vs : list N) : list byte := concat (map encode_varint vs).

Fixpoint parse_packed (fuel : nat) (b : list byte) : option (list N) :=
  match b with
  | [] => Some []
  | _ =>
    match fuel with
    | O => None
    | S f =>
      match decode_varint b with
      | None => None
      | Some (v, r) =>
        match parse_packed f r with
        | None => None
        | Some vs => Some (v :: vs)
        end
      end
    end
  end.
Definition unpack (p : list byte) : option (list N) := parse_packed (length p) p.

Fixpoint fold_opt {M} (step : M -> tok -> option M) (ts : list tok) (m : M) : option M :=
  match ts with
  | [] => Some m
  | t :: r => match step m t with None => None | Some m' => fold_opt step r m' end
  end.

(* writer-side field groups *)
Definition tk_packed (tag : N) (vs : list N) : list tok :=
  match vs with [] => [] | _ => [mk_bytes tag (packed_payload vs)] end.
Definition tk_int32 (tag : N) (z : Z) : list tok :=
  if (z =? 0)%Z then [] else [mk_var tag (u64_of_int32 z)].
Definition tk_bytes (tag : N) (p : list byte) : list tok :=
  match p with [] => [] | _ => [mk_bytes tag p] end.
Definition tk_msg {M} (ser : M -> list byte) (tag : N) (o : option M) : list tok :=
  match o with None => [] | Some m => [mk_bytes tag (ser m)] end.

(* ---- message Bitmap -------------------------------------------------------- *)
Record bitmap := mkBitmap {
  bm_words : list N;       (* repeated uint64 Words = 20 *)
  bm_rank : list Z;        (* repeated int32 RankIndex = 30 *)
  bm_select : list Z;      (* repeated int32 SelectIndex = 40 *)
  bm_unk : list byte       (* XXX_unrecognized *)
}.
Definition empty_bitmap : bitmap := mkBitmap [] [] [] [].

Definition toks_bitmap (b : bitmap) : list tok :=
  tk_packed 20 (bm_words b) ++
  tk_packed 30 (map u64_of_int32 (bm_rank b)) ++
  tk_packed 40 (map u64_of_int32 (bm_select b)).
Definition ser_bitmap (b : bitmap) : list byte := ser_toks (toks_bitmap b) ++ bm_unk b.

Definition bm_unknown (m : bitmap) (t : tok) : bitmap :=
  mkBitmap (bm_words m) (bm_rank m) (bm_select m) (bm_unk m ++ ser_tok t).
Definition bm_rep (m : bitmap) (tag : N) (vs : list N) : bitmap :=
  if tag =? 20 then mkBitmap (bm_words m ++ vs) (bm_rank m) (bm_select m) (bm_unk m)
  else if tag =? 30 then mkBitmap (bm_words m) (bm_rank m ++ map int32_of_u64 vs) (bm_select m) (bm_unk m)
  else mkBitmap (bm_words m) (bm_rank m) (bm_select m ++ map int32_of_u64 vs) (bm_unk m).
Definition bm_is_rep (tag : N) : bool := (tag =? 20) || (tag =? 30) || (tag =? 40).

Definition step_bitmap (m : bitmap) (t : tok) : option bitmap :=
  match t with
  | TVar tag v _ =>
    if bm_is_rep tag then Some (bm_rep m tag [v]) else Some (bm_unknown m t)
  | TBytes tag p _ =>
    if bm_is_rep tag then
      match unpack p with None => None | Some vs => Some (bm_rep m tag vs) end
    else Some (bm_unknown m t)
  | TOther _ _ _ => Some (bm_unknown m t)
  end.

Definition parse_bitmap_into (m : bitmap) (b : list byte) : option bitmap :=
  match tokenize (length b) b with
  | None => None
  | Some ts => fold_opt step_bitmap ts m
  end.
Definition parse_bitmap (b : list byte) : option bitmap := parse_bitmap_into empty_bitmap b.

Definition or_empty_bitmap (o : option bitmap) : bitmap :=
  match o with Some b => b | None => empty_bitmap end.

(* ---- message VLenArray ----------------------------------------------------- *)
Record vlen := mkVlen {
  vl_n : Z;                        (* int32 N = 10 *)
  vl_eltcnt : Z;                   (* int32 EltCnt = 11 *)
  vl_position : option bitmap;     (* Bitmap PositionBM = 20 *)
  vl_fixed : Z;                    (* int32 FixedSize = 23 *)
  vl_bytes : list byte;            (* bytes Bytes = 30 *)
  vl_presence : option bitmap;     (* Bitmap PresenceBM = 61 *)
  vl_unk : list byte
}.
Definition empty_vlen : vlen := mkVlen 0 0 None 0 [] None [].

Definition toks_vlen (a : vlen) : list tok :=
  tk_int32 10 (vl_n a) ++
  tk_int32 11 (vl_eltcnt a) ++
  tk_msg ser_bitmap 20 (vl_position a) ++
  tk_int32 23 (vl_fixed a) ++
  tk_bytes 30 (vl_bytes a) ++
  tk_msg ser_bitmap 61 (vl_presence a).
Definition ser_vlen (a : vlen) : list byte := ser_toks (toks_vlen a) ++ vl_unk a.

Definition vl_unknown (m : vlen) (t : tok) : vlen :=
  mkVlen (vl_n m) (vl_eltcnt m) (vl_position m) (vl_fixed m) (vl_bytes m) (vl_presence m) (vl_unk m ++ ser_tok t).

Definition step_vlen (m : vlen) (t : tok) : option vlen :=
  match t with
  | TVar tag v _ =>
    let z := int32_of_u64 v in
    if tag =? 10 then Some (mkVlen z (vl_eltcnt m) (vl_position m) (vl_fixed m) (vl_bytes m) (vl_presence m) (vl_unk m))
    else if tag =? 11 then Some (mkVlen (vl_n m) z (vl_position m) (vl_fixed m) (vl_bytes m) (vl_presence m) (vl_unk m))
    else if tag =? 23 then Some (mkVlen (vl_n m) (vl_eltcnt m) (vl_position m) z (vl_bytes m) (vl_presence m) (vl_unk m))
    else Some (vl_unknown m t)
  | TBytes tag p _ =>
    if tag =? 20 then
      match parse_bitmap_into (or_empty_bitmap (vl_position m)) p with
      | None => None
      | Some b => Some (mkVlen (vl_n m) (vl_eltcnt m) (Some b) (vl_fixed m) (vl_bytes m) (vl_presence m) (vl_unk m))
      end
    else if tag =? 30 then Some (mkVlen (vl_n m) (vl_eltcnt m) (vl_position m) (vl_fixed m) p (vl_presence m) (vl_unk m))
    else if tag =? 61 then
      match parse_bitmap_into (or_empty_bitmap (vl_presence m)) p with
      | None => None
      | Some b => Some (mkVlen (vl_n m) (vl_eltcnt m) (vl_position m) (vl_fixed m) (vl_bytes m) (Some b) (vl_unk m))
      end
    else Some (vl_unknown m t)
  | TOther _ _ _ => Some (vl_unknown m t)
  end.

Definition parse_vlen_into (m : vlen) (b : list byte) : option vlen :=
  match tokenize (length b) b with
  | None => None
  | Some ts => fold_opt step_vlen ts m
  end.
Definition parse_vlen (b : list byte) : option vlen := parse_vlen_into empty_vlen b.
Definition or_empty_vlen (o : option vlen) : vlen :=
  match o with Some b => b | None => empty_vlen end.

(* ---- message Slim ----------------------------------------------------------- *)
Record slim := mkSlim {
  s_bigcnt : Z;                    (* int32 BigInnerCnt = 11 *)
  s_shortsize : Z;                 (* int32 ShortSize = 14 *)
  s_nodetype : option bitmap;      (* Bitmap NodeTypeBM = 20 *)
  s_inners : option bitmap;        (* Bitmap Inners = 30 *)
  s_shortbm : option bitmap;       (* Bitmap ShortBM = 31 *)
  s_shorttable : list N;           (* repeated uint32 ShortTable = 32 *)
  s_innerpref : option vlen;       (* VLenArray InnerPrefixes = 38 *)
  s_leafpref : option vlen;        (* VLenArray LeafPrefixes = 58 *)
  s_leaves : option vlen;          (* VLenArray Leaves = 60 *)
  s_unk : list byte                (* XXX_unrecognized (0.5.10 streams: fields 12, 13, 15) *)
}.
Definition empty_slim : slim := mkSlim 0 0 None None None [] None None None [].

Definition toks_slim (s : slim) : list tok :=
  tk_int32 11 (s_bigcnt s) ++
  tk_int32 14 (s_shortsize s) ++
  tk_msg ser_bitmap 20 (s_nodetype s) ++
  tk_msg ser_bitmap 30 (s_inners s) ++
  tk_msg ser_bitmap 31 (s_shortbm s) ++
  tk_packed 32 (s_shorttable s) ++
  tk_msg ser_vlen 38 (s_innerpref s) ++
  tk_msg ser_vlen 58 (s_leafpref s) ++
  tk_msg ser_vlen 60 (s_leaves s).
Definition ser_slim (s : slim) : list byte := ser_toks (toks_slim s) ++ s_unk s.

Definition s_unknown (m : slim) (t : tok) : slim :=
  mkSlim (s_bigcnt m) (s_shortsize m) (s_nodetype m) (s_inners m) (s_shortbm m) (s_shorttable m)
         (s_innerpref m) (s_leafpref m) (s_leaves m) (s_unk m ++ ser_tok t).

Definition s_set_bitmap (m : slim) (tag : N) (b : bitmap) : slim :=
  if tag =? 20 then mkSlim (s_bigcnt m) (s_shortsize m) (Some b) (s_inners m) (s_shortbm m) (s_shorttable m) (s_innerpref m) (s_leafpref m) (s_leaves m) (s_unk m)
  else if tag =? 30 then mkSlim (s_bigcnt m) (s_shortsize m) (s_nodetype m) (Some b) (s_shortbm m) (s_shorttable m) (s_innerpref m) (s_leafpref m) (s_leaves m) (s_unk m)
  else mkSlim (s_bigcnt m) (s_shortsize m) (s_nodetype m) (s_inners m) (Some b) (s_shorttable m) (s_innerpref m) (s_leafpref m) (s_leaves m) (s_unk m).
Definition s_get_bitmap (m : slim) (tag : N) : option bitmap :=
  if tag =? 20 then s_nodetype m else if tag =? 30 then s_inners m else s_shortbm m.
Definition s_is_bitmap (tag : N) : bool := (tag =? 20) || (tag =? 30) || (tag =? 31).

Definition s_set_vlen (m : slim) (tag : N) (a : vlen) : slim :=
  if tag =? 38 then mkSlim (s_bigcnt m) (s_shortsize m) (s_nodetype m) (s_inners m) (s_shortbm m) (s_shorttable m) (Some a) (s_leafpref m) (s_leaves m) (s_unk m)
  else if tag =? 58 then mkSlim (s_bigcnt m) (s_shortsize m) (s_nodetype m) (s_inners m) (s_shortbm m) (s_shorttable m) (s_innerpref m) (Some a) (s_leaves m) (s_unk m)
  else mkSlim (s_bigcnt m) (s_shortsize m) (s_nodetype m) (s_inners m) (s_shortbm m) (s_shorttable m) (s_innerpref m) (s_leafpref m) (Some a) (s_unk m).
Definition s_get_vlen (m : slim) (tag : N) : option vlen :=
  if tag =? 38 then s_innerpref m else if tag =? 58 then s_leafpref m else s_leaves m.
Definition s_is_vlen (tag : N) : bool := (tag =? 38) || (tag =? 58) || (tag =? 60).

Definition s_add_shorttable (m : slim) (vs : list N) : slim :=
  mkSlim (s_bigcnt m) (s_shortsize m) (s_nodetype m) (s_inners m) (s_shortbm m)
         (s_shorttable m ++ map uint32_of_u64 vs) (s_innerpref m) (s_leafpref m) (s_leaves m) (s_unk m).

Definition step_slim (m : slim) (t : tok) : option slim :=
  match t with
  | TVar tag v _ =>
    let z := int32_of_u64 v in
    if tag =? 11 then Some (mkSlim z (s_shortsize m) (s_nodetype m) (s_inners m) (s_shortbm m) (s_shorttable m) (s_innerpref m) (s_leafpref m) (s_leaves m) (s_unk m))
    else if tag =? 14 then Some (mkSlim (s_bigcnt m) z (s_nodetype m) (s_inners m) (s_shortbm m) (s_shorttable m) (s_innerpref m) (s_leafpref m) (s_leaves m) (s_unk m))
    else if tag =? 32 then Some (s_add_shorttable m [v])
    else Some (s_unknown m t)
  | TBytes tag p _ =>
    if s_is_bitmap tag then
      match parse_bitmap_into (or_empty_bitmap (s_get_bitmap m tag)) p with
      | None => None
      | Some b => Some (s_set_bitmap m tag b)
      end
    else if tag =? 32 then
      match unpack p with None => None | Some vs => Some (s_add_shorttable m vs) end
    else if s_is_vlen tag then
      match parse_vlen_into (or_empty_vlen (s_get_vlen m tag)) p with
      | None => None
      | Some a => Some (s_set_vlen m tag a)
      end
    else Some (s_unknown m t)
  | TOther _ _ _ => Some (s_unknown m t)
  end.

Definition parse_slim_into (m : slim) (b : list byte) : option slim :=
  match tokenize (length b) b with
  | None => None
  | Some ts => fold_opt step_slim ts m
  end.
(* proto.Unmarshal(b, &Slim{}) *)
Definition parse_slim (b : list byte) : option slim := parse_slim_into empty_slim b.

(* ---- proto.Size: computed from the field values without serialising ------- *)
Fixpoint sum_N (l : list N) : N := match l with [] => 0 | x :: r => x + sum_N r end.
Definition sz_lenfield (tag n : N) : N := size_varint (tag * 8 + 2) + size_varint n + n.
Definition sz_packed (tag : N) (vs : list N) : N :=
  match vs with [] => 0 | _ => sz_lenfield tag (sum_N (map size_varint vs)) end.
Definition sz_int32 (tag : N) (z : Z) : N :=
  if (z =? 0)%Z then 0 else size_varint (tag * 8) + size_varint (u64_of_int32 z).
Definition sz_bytes (tag : N) (p : list byte) : N :=
  match p with [] => 0 | _ => sz_lenfield tag (blen p) end.
Definition sz_msg {M} (size : M -> N) (tag : N) (o : option M) : N :=
  match o with None => 0 | Some m => sz_lenfield tag (size m) end.

Definition size_bitmap (b : bitmap) : N :=
  sz_packed 20 (bm_words b) + sz_packed 30 (map u64_of_int32 (bm_rank b)) +
  sz_packed 40 (map u64_of_int32 (bm_select b)) + blen (bm_unk b).
Definition size_vlen (a : vlen) : N :=
  sz_int32 10 (vl_n a) + sz_int32 11 (vl_eltcnt a) + sz_msg size_bitmap 20 (vl_position a) +
  sz_int32 23 (vl_fixed a) + sz_bytes 30 (vl_bytes a) + sz_msg size_bitmap 61 (vl_presence a) +
  blen (vl_unk a).
Definition size_slim (s : slim) : N :=
  sz_int32 11 (s_bigcnt s) + sz_int32 14 (s_shortsize s) +
  sz_msg size_bitmap 20 (s_nodetype s) + sz_msg size_bitmap 30 (s_inners s) + sz_msg size_bitmap 31 (s_shortbm s) +
  sz_packed 32 (s_shorttable s) +
  sz_msg size_vlen 38 (s_innerpref s) + sz_msg size_vlen 58 (s_leafpref s) + sz_msg size_vlen 60 (s_leaves s) +
  blen (s_unk s).

(* ---- well-formed messages (what the Go types can hold, no unknown fields) -- *)
Definition len_ok (l : list byte) : bool := blen l <? two64.
Definition nil_bytes (l : list byte) : bool := match l with [] => true | _ => false end.
Definition opt_all {A} (f : A -> bool) (o : option A) : bool := match o with None => true | Some a => f a end.

Definition wf_bitmap (b : bitmap) : bool :=
  forallb u64_ok (bm_words b) && forallb int32_ok (bm_rank b) && forallb int32_ok (bm_select b) &&
  nil_bytes (bm_unk b) &&
  len_ok (packed_payload (bm_words b)) &&
  len_ok (packed_payload (map u64_of_int32 (bm_rank b))) &&
  len_ok (packed_payload (map u64_of_int32 (bm_select b))).

Definition wf_vlen (a : vlen) : bool :=
  int32_ok (vl_n a) && int32_ok (vl_eltcnt a) && int32_ok (vl_fixed a) &&
  opt_all wf_bitmap (vl_position a) && opt_all wf_bitmap (vl_presence a) &&
  opt_all (fun b => len_ok (ser_bitmap b)) (vl_position a) &&
  opt_all (fun b => len_ok (ser_bitmap b)) (vl_presence a) &&
  len_ok (vl_bytes a) && nil_bytes (vl_unk a).

Definition wf_slim (s : slim) : bool :=
  int32_ok (s_bigcnt s) && int32_ok (s_shortsize s) &&
  opt_all wf_bitmap (s_nodetype s) && opt_all wf_bitmap (s_inners s) && opt_all wf_bitmap (s_shortbm s) &&
  opt_all (fun b => len_ok (ser_bitmap b)) (s_nodetype s) &&
  opt_all (fun b => len_ok (ser_bitmap b)) (s_inners s) &&
  opt_all (fun b => len_ok (ser_bitmap b)) (s_shortbm s) &&
  forallb u32_ok (s_shorttable s) && len_ok (packed_payload (s_shorttable s)) &&
  opt_all wf_vlen (s_innerpref s) && opt_all wf_vlen (s_leafpref s) && opt_all wf_vlen (s_leaves s) &&
  opt_all (fun a => len_ok (ser_vlen a)) (s_innerpref s) &&
  opt_all (fun a => len_ok (ser_vlen a)) (s_leafpref s) &&
  opt_all (fun a => len_ok (ser_vlen a)) (s_leaves s) &&
  nil_bytes (s_unk s).

(* ---- legacy sections: messages array.Array32 and array.Bits, acceptance only ---
   (the three-section layout; C07 needs to know whether a complete section is
   accepted, not what it contains) *)
Definition ok_packed (p : list byte) : bool :=
  match unpack p with Some _ => true | None => false end.
Definition accepts_bits (b : list byte) : bool :=
  match tokenize (length b) b with
  | None => false
  | Some ts => forallb (fun t => match t with
                                 | TBytes tag p _ => if (tag =? 20) || (tag =? 30) then ok_packed p else true
                                 | _ => true
                                 end) ts
  end.
Definition accepts_array32 (b : list byte) : bool :=
  match tokenize (length b) b with
  | None => false
  | Some ts => forallb (fun t => match t with
                                 | TBytes tag p _ =>
                                   if (tag =? 2) || (tag =? 3) then ok_packed p
                                   else if tag =? 30 then accepts_bits p
                                   else true
                                 | _ => true
                                 end) ts
  end.
