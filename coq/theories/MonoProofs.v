(* MonoProofs.v - C13: storing more key information only removes false positives.
   Two builds of the same keys / values with equal DedupValue have the same
   shape (ids, big flags, labels, leaf ordinals, key indexes) because every
   decision of newSlim except the prefix payload depends on the subsets only;
   a successful descent in the richer mode is a successful descent in the
   poorer mode to the leaf of the same entry. *)
From Slim Require Import Base Keys KeysProofs ListFacts Model TrieInv BuildProofs QueryProofs ConsistProofs.
From Coq Require Import Sorting.Sorted ZifyNat ZifyBool.

Arguments Nat.div : simpl never.
Arguments Nat.modulo : simpl never.

(* ---------- the order on modes ---------- *)
Definition inner_le (o1 o2 : opts) : Prop := o_inner o1 = true -> o_inner o2 = true.
Definition leaf_le (o1 o2 : opts) : Prop := o_leaf o1 = true -> o_leaf o2 = true.
(* o2 stores at least what o1 stores *)
Definition stores_le (o1 o2 : opts) : Prop := inner_le o1 o2 /\ leaf_le o1 o2.

(* ---------- same shape ---------- *)
Definition ch_match (P : tree -> tree -> Prop) : list (nat * tree) -> list (nat * tree) -> Prop :=
  fix all2 a b :=
    match a, b with
    | [], [] => True
    | (x, c) :: a', (y, d) :: b' => x = y /\ P c d /\ all2 a' b'
    | _, _ => False
    end.

Fixpoint same_shape (t1 t2 : tree) {struct t1} : Prop :=
  match t1, t2 with
  | Leaf id1 ord1 _ e1, Leaf id2 ord2 _ e2 => id1 = id2 /\ ord1 = ord2 /\ e1 = e2
  | Inner id1 big1 _ _ fc1 ch1, Inner id2 big2 _ _ fc2 ch2 =>
      id1 = id2 /\ big1 = big2 /\ fc1 = fc2 /\ ch_match same_shape ch1 ch2
  | _, _ => False
  end.

Lemma ch_match_nth_r P : forall a b n y d,
  ch_match P a b -> nth_error b n = Some (y, d) -> exists c, nth_error a n = Some (y, c) /\ P c d.
Proof.
  induction a as [|[x c] a IH]; intros [|[y0 d0] b] n y d H Hn; cbn [ch_match] in H; try contradiction.
  - destruct n; discriminate.
  - destruct H as (-> & Hp & Hr). destruct n as [|n]; cbn [nth_error] in *.
    + inversion Hn; subst. exists c. auto.
    + eapply IH; eassumption.
Qed.

Lemma ch_match_combine P (l : list nat) : forall a b, Forall2 P a b -> ch_match P (combine l a) (combine l b).
Proof.
  induction l as [|x l IH]; intros a b H; [exact I|].
  destruct H as [|c d a b Hcd Hab]; cbn [combine ch_match]; [exact I|]. auto.
Qed.

Lemma Forall2_firstn {A B} (R : A -> B -> Prop) n : forall a b, Forall2 R a b -> Forall2 R (firstn n a) (firstn n b).
Proof. induction n as [|n IH]; intros a b H; [constructor|]. destruct H; cbn [firstn]; constructor; auto. Qed.

Lemma Forall2_skipn {A B} (R : A -> B -> Prop) n : forall a b, Forall2 R a b -> Forall2 R (skipn n a) (skipn n b).
Proof. induction n as [|n IH]; intros a b H; [exact H|]. destruct H; cbn [skipn]; [constructor|auto]. Qed.

(* ---------- the shape of what process_subset produces does not depend on the options ---------- *)
Definition desc_shape (d1 d2 : desc) : Prop :=
  match d1, d2 with
  | DLeaf _ e1, DLeaf _ e2 => e1 = e2
  | DInner b1 _ _ l1 k1, DInner b2 _ _ l2 k2 => b1 = b2 /\ l1 = l2 /\ k1 = k2
  | _, _ => False
  end.

Lemma process_subset_shape o1 o2 ib s d1 b1 d2 b2 :
  process_subset o1 ib s = Ok (d1, b1) -> process_subset o2 ib s = Ok (d2, b2) ->
  desc_shape d1 d2 /\ b1 = b2.
Proof.
  unfold process_subset. destruct (s_ents s) as [|e0 [|e1 r]]; try discriminate.
  - intros H1 H2. inversion H1; inversion H2; subst. split; reflexivity.
  - cbv zeta.
    set (diffs := adj_lcps (map e_nibs (e0 :: e1 :: r))).
    set (ws := list_min (hd 0 diffs) diffs).
    set (big0 := ib && (big_threshold <? 1 + length (filter (fun d => d <? even_down ws + 2) diffs))).
    set (w0 := if big0 then even_down ws else ws).
    destruct (w0 <? s_from s); [discriminate|].
    destruct (negb (o_inner o1) && (max_step <? N.of_nat (w0 - s_from s))%N); [discriminate|].
    destruct (negb (o_inner o2) && (max_step <? N.of_nat (w0 - s_from s))%N); [discriminate|].
    intros H1 H2. inversion H1; inversion H2; subst. cbn [desc_shape]. auto.
Qed.

Lemma process_level_shape o1 o2 : forall ss ib ds1 b1 ds2 b2,
  process_level o1 ib ss = Ok (ds1, b1) -> process_level o2 ib ss = Ok (ds2, b2) ->
  Forall2 desc_shape ds1 ds2 /\ b1 = b2.
Proof.
  induction ss as [|s r IH]; intros ib ds1 b1 ds2 b2 H1 H2; cbn [process_level] in H1, H2.
  - inversion H1; inversion H2; subst. split; [constructor|reflexivity].
  - unfold bind in H1, H2.
    destruct (process_subset o1 ib s) as [[d1 c1]|] eqn:E1; [|discriminate].
    destruct (process_subset o2 ib s) as [[d2 c2]|] eqn:E2; [|discriminate].
    destruct (process_subset_shape _ _ _ _ _ _ _ _ E1 E2) as [Hd ->].
    destruct (process_level o1 c2 r) as [[ds1' c1']|] eqn:E3; [|discriminate].
    destruct (process_level o2 c2 r) as [[ds2' c2']|] eqn:E4; [|discriminate].
    destruct (IH _ _ _ _ _ E3 E4) as [Hds ->].
    inversion H1; inversion H2; subst. split; [constructor; assumption|reflexivity].
Qed.

Lemma desc_shape_flat ds1 ds2 : Forall2 desc_shape ds1 ds2 ->
  flat_map kids_of ds1 = flat_map kids_of ds2 /\ flat_map leaf_idx_of ds1 = flat_map leaf_idx_of ds2 /\
  length ds1 = length ds2.
Proof.
  induction 1 as [|d1 d2 ds1 ds2 Hd _ (IH1 & IH2 & IH3)]; [auto|].
  cbn [flat_map length]. rewrite IH1, IH2, IH3.
  destruct d1, d2; cbn [desc_shape] in Hd; try contradiction.
  - subst. auto.
  - destruct Hd as (_ & _ & ->). auto.
Qed.

Lemma assemble_shape : forall ds1 ds2, Forall2 desc_shape ds1 ds2 ->
  forall id cid lord f1 f2, Forall2 same_shape f1 f2 ->
  Forall2 same_shape (assemble ds1 id cid lord f1) (assemble ds2 id cid lord f2).
Proof.
  induction 1 as [|d1 d2 ds1 ds2 Hd _ IH]; intros id cid lord f1 f2 Hf; [constructor|].
  destruct d1 as [t1 e1|bg1 st1 p1 l1 k1], d2 as [t2 e2|bg2 st2 p2 l2 k2]; cbn [desc_shape] in Hd; try contradiction.
  - subst. cbn [assemble]. constructor; [cbn [same_shape]; auto|apply IH; exact Hf].
  - destruct Hd as (-> & -> & ->). cbn [assemble]. constructor.
    + cbn [same_shape]. repeat split. apply ch_match_combine. apply Forall2_firstn. exact Hf.
    + apply IH. apply Forall2_skipn. exact Hf.
Qed.

Lemma build_levels_shape o1 o2 : forall fuel ib base lbase ss f1 l1 f2 l2,
  build_levels fuel o1 ib base lbase ss = Ok (f1, l1) ->
  build_levels fuel o2 ib base lbase ss = Ok (f2, l2) ->
  Forall2 same_shape f1 f2 /\ l1 = l2.
Proof.
  induction fuel as [|f IH]; intros ib base lbase ss f1 l1 f2 l2 H1 H2.
  - destruct ss; cbn in H1, H2; [|discriminate]. inversion H1; inversion H2; subst. split; [constructor|reflexivity].
  - destruct ss as [|s0 ss0]; [cbn in H1, H2; inversion H1; inversion H2; subst; split; [constructor|reflexivity]|].
    remember (s0 :: ss0) as ss eqn:Ess.
    assert (forall o, build_levels (S f) o ib base lbase ss =
            (do (ds, b) <- process_level o ib ss;
             let lidx := flat_map leaf_idx_of ds in
             let cbase := base + length ss in
             do (forest, lidx') <- build_levels f o b cbase (lbase + length lidx) (flat_map kids_of ds);
             Ok (assemble ds base cbase lbase forest, lidx ++ lidx'))) as Hunf.
    { intros o. rewrite Ess. reflexivity. }
    rewrite Hunf in H1, H2. clear Hunf. unfold bind in H1, H2.
    destruct (process_level o1 ib ss) as [[ds1 b1]|] eqn:E1; [|discriminate].
    destruct (process_level o2 ib ss) as [[ds2 b2]|] eqn:E2; [|discriminate].
    destruct (process_level_shape _ _ _ _ _ _ _ _ E1 E2) as [Hds ->].
    destruct (desc_shape_flat _ _ Hds) as (Hk & Hl & _).
    cbv zeta in H1, H2. rewrite Hk, Hl in H1.
    destruct (build_levels f o1 b2 _ _ _) as [[f1' l1']|] eqn:E3; [|discriminate].
    destruct (build_levels f o2 b2 _ _ _) as [[f2' l2']|] eqn:E4; [|discriminate].
    destruct (IH _ _ _ _ _ _ _ _ E3 E4) as [Hf ->].
    inversion H1; inversion H2; subst. split; [|reflexivity].
    apply assemble_shape; assumption.
Qed.

(* ---------- two builds of the same input ---------- *)
Lemma to_keep_dedup o1 o2 n vals : o_dedup o1 = o_dedup o2 -> to_keep o1 n vals = to_keep o2 n vals.
Proof. intros H. unfold to_keep. rewrite H. reflexivity. Qed.

Lemma build_pair o1 o2 keys vals T1 T2 :
  o_dedup o1 = o_dedup o2 -> keys <> [] ->
  build o1 keys vals = Ok T1 -> build o2 keys vals = Ok T2 ->
  exists r1 r2 lidx,
    Built o1 keys vals T1 r1 lidx /\ Built o2 keys vals T2 r2 lidx /\ same_shape r1 r2 /\
    root_subset o1 keys vals = root_subset o2 keys vals.
Proof.
  intros Hd Hne H1 H2. rewrite build_unfold in H1, H2 by exact Hne.
  destruct (check_order keys) as [i|] eqn:Ec; [discriminate|]. cbv zeta in H1, H2. unfold bind in H1, H2.
  rewrite (to_keep_dedup o1 o2 _ _ Hd) in H1.
  destruct (build_levels _ o1 true 0 0 _) as [[f1 l1]|] eqn:E1; [|discriminate].
  destruct (build_levels _ o2 true 0 0 _) as [[f2 l2]|] eqn:E2; [|discriminate].
  destruct (build_levels_shape _ _ _ _ _ _ _ _ _ _ _ E1 E2) as [Hf ->].
  destruct f1 as [|r1 [|? ?]]; try discriminate. destruct f2 as [|r2 [|? ?]]; try discriminate.
  inversion H1; inversion H2; subst T1 T2. clear H1 H2.
  inversion Hf as [|? ? ? ? Hr _]; subst.
  assert (root_subset o1 keys vals = root_subset o2 keys vals) as Hroot.
  { unfold root_subset. rewrite (to_keep_dedup o1 o2 _ _ Hd). reflexivity. }
  exists r1, r2, l2. split; [|split; [|split; [exact Hr|exact Hroot]]].
  - pose proof (build_levels_ok _ _ _ _ _ _ _ _ E1) as [HT HL].
    inversion HT as [|? ? ? ? Ht _]; subst. inversion HL as [|? ? Hl _]; subst.
    constructor; cbn [t_root t_leaves t_leafpfx t_innerpfx]; try reflexivity; try assumption.
    + apply check_order_none. exact Ec.
    + rewrite Hroot. exact Ht.
  - pose proof (build_levels_ok _ _ _ _ _ _ _ _ E2) as [HT HL].
    inversion HT as [|? ? ? ? Ht _]; subst. inversion HL as [|? ? Hl _]; subst.
    constructor; cbn [t_root t_leaves t_leafpfx t_innerpfx]; try reflexivity; try assumption.
    apply check_order_none. exact Ec.
Qed.

(* ---------- paired children of two inner nodes over the same subset ---------- *)
Lemma inner_facts_same o1 o2 s big l1 k1 l2 k2 :
  InnerFacts o1 s big l1 k1 -> InnerFacts o2 s big l2 k2 -> l1 = l2 /\ k1 = k2.
Proof.
  intros F1 F2. assert (l1 = l2) as -> by (rewrite (if_labels _ _ _ _ _ F1), (if_labels _ _ _ _ _ F2); reflexivity).
  split; [reflexivity|]. rewrite (if_kids _ _ _ _ _ F1), (if_kids _ _ _ _ _ F2). reflexivity.
Qed.

Lemma paired_child o1 o2 s big labels kids ch1 ch2 n lb c1 c2 :
  SubInv s -> InnerFacts o1 s big labels kids -> InnerFacts o2 s big labels kids ->
  map fst ch1 = labels -> map fst ch2 = labels ->
  kids_match (trie_of o1) ch1 kids -> kids_match (trie_of o2) ch2 kids ->
  nth_error ch1 n = Some (lb, c1) -> nth_error ch2 n = Some (lb, c2) ->
  exists k, trie_of o1 c1 k /\ trie_of o2 c2 k /\ SubInv k /\
            s_from k = sub_w big s + label_width big lb /\ (lb = 0 -> exists e, s_ents k = [e]).
Proof.
  intros I F1 F2 Hf1 Hf2 Hk1 Hk2 Hn1 Hn2.
  assert (nth_error labels n = Some lb) as Hl by (rewrite <- Hf1, nth_error_map, Hn1; reflexivity).
  assert (exists k, nth_error kids n = Some k) as (k & Hk).
  { pose proof (kids_match_length _ _ _ Hk1) as L.
    destruct (nth_error kids n) eqn:E; [eauto|]. apply nth_error_None in E.
    assert (n < length ch1) by (apply nth_error_Some; rewrite Hn1; discriminate). lia. }
  exists k. split; [eapply kids_match_nth; eassumption|]. split; [eapply kids_match_nth; eassumption|].
  split; [eapply kids_inv; [exact I|exact F1|eapply nth_error_In; exact Hk]|].
  pose proof Hk as Hk'. rewrite (if_kids _ _ _ _ _ F1), nth_error_map, Hl in Hk'. cbn in Hk'. inversion Hk' as [Ek].
  split; [reflexivity|]. intros ->. rewrite Ek. eapply label0_singleton; [exact I|exact F1|exact Hl|exact Hk].
Qed.

(* ---------- the descent ---------- *)
Section Descent.
  Variables o1 o2 : opts.
  Variable q : key.
  Let qn := nibs q.
  Let l := length qn.

  (* the poorer mode's advance over the same stretch cannot reject when the richer mode's did not *)
  Lemma advance_mono isb1 isb2 s big st1 p1 st2 p2 labels kids b1 b2 i1 :
    SubInv s -> inner_le o1 o2 ->
    process_subset o1 isb1 s = Ok (DInner big st1 p1 labels kids, b1) ->
    process_subset o2 isb2 s = Ok (DInner big st2 p2 labels kids, b2) ->
    advance qn l (s_from s) st2 p2 = Some i1 ->
    advance qn l (s_from s) st1 p1 = Some i1.
  Proof.
    intros I Hle Hp1 Hp2 Ha.
    destruct (advance_pos _ _ _ _ _ _ _ _ _ _ _ _ I Hp2 Ha) as [Ei Hil].
    pose proof (process_inner_inv _ _ _ _ _ _ _ _ _ Hp1) as H1. cbv zeta in H1.
    pose proof (process_inner_inv _ _ _ _ _ _ _ _ _ Hp2) as H2. cbv zeta in H2.
    destruct H1 as ((e0 & e1 & r & Es & Hpf1) & Hw & _ & _ & Hst1 & _).
    destruct H2 as ((e0' & e1' & r' & Es' & Hpf2) & _ & _ & _ & Hst2 & _).
    rewrite Es in Es'. inversion Es'; subst e0' e1' r'. clear Es'.
    destruct (o_inner o1) eqn:Ei1.
    - rewrite (Hle Ei1) in Hpf2, Hst2. rewrite <- Hpf1 in Hpf2. subst p2 st2. subst st1. exact Ha.
    - cbn [andb] in Hpf1. subst p1 st1. unfold advance.
      replace (s_from s + (sub_w big s - s_from s)) with (sub_w big s) by lia.
      rewrite Ei. destruct (Nat.ltb_spec l (sub_w big s)); [lia|reflexivity].
  Qed.

  Lemma descend_mono : forall t2 t1 s,
    same_shape t1 t2 -> trie_of o1 t1 s -> trie_of o2 t2 s -> SubInv s ->
    forall c2 i v, descend qn l t2 (s_from s) = Some (c2, i, v) ->
    (inner_le o1 o2 \/ exists r1, descend qn l t1 (s_from s) = Some r1) ->
    exists c1 k, descend qn l t1 (s_from s) = Some (c1, i, v) /\
                 same_shape c1 c2 /\ trie_of o1 c1 k /\ trie_of o2 c2 k.
  Proof.
    induction t2 as [id2 ord2 tail2 eidx2|id2 big2 step2 pfx2 fc2 ch2 IH] using tree_ind';
      intros t1 s Hsh Ht1 Ht2 I c2 i v Hd Hside.
    - destruct t1 as [id1 ord1 tail1 eidx1|]; [|contradiction].
      cbn [descend] in Hd |- *. inversion Hd; subst. exists (Leaf id1 ord1 tail1 eidx1), s. auto.
    - destruct t1 as [|id1 big1 step1 pfx1 fc1 ch1]; [contradiction|].
      cbn [same_shape] in Hsh. destruct Hsh as (-> & -> & -> & Hch).
      cbn [trie_of] in Ht1, Ht2.
      destruct Ht1 as (ib1 & labels1 & kids1 & b1' & Hp1 & Hfst1 & Hkm1).
      destruct Ht2 as (ib2 & labels2 & kids2 & b2' & Hp2 & Hfst2 & Hkm2).
      pose proof (inner_facts _ _ _ _ _ _ _ _ _ I Hp1) as F1.
      pose proof (inner_facts _ _ _ _ _ _ _ _ _ I Hp2) as F2.
      destruct (inner_facts_same _ _ _ _ _ _ _ _ F1 F2) as [El Ek].
      rewrite <- El in Hp2, Hfst2, F2. rewrite <- Ek in Hp2, Hkm2, F2. clear El Ek labels2 kids2.
      rewrite descend_inner in Hd.
      destruct (advance qn l (s_from s) step2 pfx2) as [i1|] eqn:Ea2; [|discriminate].
      destruct (advance_pos _ _ _ _ _ _ _ _ _ _ _ _ I Hp2 Ea2) as [Ei1 Hle].
      assert (advance qn l (s_from s) step1 pfx1 = Some i1) as Ea1.
      { destruct Hside as [Hle12|(r1 & Hr1)].
        - eapply advance_mono; eassumption.
        - rewrite descend_inner in Hr1.
          destruct (advance qn l (s_from s) step1 pfx1) as [i1'|] eqn:Ea1; [|discriminate].
          destruct (advance_pos _ _ _ _ _ _ _ _ _ _ _ _ I Hp1 Ea1) as [Ei1' _]. congruence. }
      rewrite descend_inner, Ea1.
      set (lb := label_at big2 qn i1) in *.
      apply find_child_in in Hd. destruct Hd as (c2' & Hin2 & Hk2).
      apply In_nth_error in Hin2. destruct Hin2 as (n & Hn2).
      destruct (ch_match_nth_r _ _ _ _ _ _ Hch Hn2) as (c1' & Hn1 & Hsh').
      assert (NoDup (map fst ch1)) as Hnd by (rewrite Hfst1; apply SS_lt_NoDup; apply (if_asc _ _ _ _ _ F1)).
      rewrite (find_child_nth lb ch1 _ n c1' Hnd Hn1).
      destruct (paired_child o1 o2 s big2 labels1 kids1 ch1 ch2 n lb c1' c2' I F1 F2 Hfst1 Hfst2 Hkm1 Hkm2 Hn1 Hn2)
        as (k & Htc1 & Htc2 & Ik & Hfk & _).
      destruct (Nat.eqb_spec i1 l) as [Heq|Hne].
      + inversion Hk2; subst c2 i v. exists c1', k. auto.
      + assert (lb <> 0) as Hnz.
        { intros Hz0. apply Hne. apply (label_zero_iff big2 qn i1 Hle). exact Hz0. }
        assert (label_width big2 lb = wsize big2) as Hwd by (destruct lb; [congruence|reflexivity]).
        rewrite Hwd, <- Ei1 in Hfk. rewrite <- Hfk in Hk2 |- *.
        rewrite Forall_forall in IH.
        apply (IH (lb, c2') (nth_error_In _ _ Hn2) c1' k Hsh' Htc1 Htc2 Ik c2 i v Hk2).
        destruct Hside as [Hle12|(r1 & Hr1)]; [left; exact Hle12|right].
        rewrite descend_inner, Ea1 in Hr1. fold lb in Hr1.
        rewrite (find_child_nth lb ch1 _ n c1' Hnd Hn1) in Hr1.
        destruct (Nat.eqb_spec i1 l); [contradiction|]. rewrite Hfk. exists r1. exact Hr1.
  Qed.
End Descent.

(* ---------- GetID / Get on two builds ---------- *)
Lemma leaf_tail_le o1 o2 e f : o_leaf o1 = true -> o_leaf o2 = true -> leaf_tail o1 e f = leaf_tail o2 e f.
Proof. intros H1 H2. unfold leaf_tail. rewrite H1, H2. reflexivity. Qed.

Lemma getid_node_mono o1 o2 keys vals T1 T2 r1 r2 lidx q c2 :
  Built o1 keys vals T1 r1 lidx -> Built o2 keys vals T2 r2 lidx -> same_shape r1 r2 ->
  root_subset o1 keys vals = root_subset o2 keys vals ->
  getid_node T2 q = Some c2 ->
  (stores_le o1 o2 \/ exists c, getid_node T1 q = Some c) ->
  exists c1, getid_node T1 q = Some c1 /\ same_shape c1 c2 /\ is_leaf c2 = true.
Proof.
  intros B1 B2 Hsh Hroot Hg Hside.
  pose proof (root_inv o1 keys vals (bt_sorted _ _ _ _ _ _ B1) (bt_nonempty _ _ _ _ _ _ B1)) as I.
  pose proof (bt_trie _ _ _ _ _ _ B1) as Ht1. pose proof (bt_trie _ _ _ _ _ _ B2) as Ht2.
  rewrite <- Hroot in Ht2.
  unfold getid_node in Hg |- *. rewrite (bt_root _ _ _ _ _ _ B2) in Hg. rewrite (bt_root _ _ _ _ _ _ B1).
  cbv zeta in Hg |- *.
  destruct (descend (nibs q) (length (nibs q)) r2 0) as [[[c2' i] v]|] eqn:Ed2; [|discriminate].
  pose proof (descend_facts o2 q r2 _ Ht2 I (Nat.le_0_l _) c2' i v) as Hf.
  change (s_from (root_subset o1 keys vals)) with 0 in Hf. destruct (Hf Ed2) as (Hleaf & _ & _).
  assert (inner_le o1 o2 \/ exists r, descend (nibs q) (length (nibs q)) r1 0 = Some r) as Hside'.
  { destruct Hside as [[Hi _]|(c & Hc)]; [left; exact Hi|right].
    unfold getid_node in Hc. rewrite (bt_root _ _ _ _ _ _ B1) in Hc. cbv zeta in Hc.
    destruct (descend (nibs q) (length (nibs q)) r1 0) as [r|]; [eauto|discriminate]. }
  destruct (descend_mono o1 o2 q r2 r1 _ Hsh Ht1 Ht2 I c2' i v Ed2 Hside') as (c1' & k & Ed1 & Hsh' & Hk1 & Hk2).
  change (s_from (root_subset o1 keys vals)) with 0 in Ed1.
  (* the unique successful descent of T1 *)
  destruct Hside as [[_ Hll]|(c & Hc)].
  - (* ordered modes: the tail test of the poorer mode is the richer one's or none *)
    rewrite Ed1.
    destruct c2' as [id ord tail2 eidx|]; [|discriminate].
    destruct c1' as [id1 ord1 tail1 eidx1|]; [|contradiction].
    cbn [same_shape] in Hsh'. destruct Hsh' as (-> & -> & ->).
    cbn [trie_of] in Hk1, Hk2. destruct Hk1 as (e1 & Es1 & Htl1 & _). destruct Hk2 as (e2 & Es2 & Htl2 & _).
    rewrite Es1 in Es2. inversion Es2; subst e2.
    rewrite (bt_leafpfx _ _ _ _ _ _ B1). rewrite (bt_leafpfx _ _ _ _ _ _ B2) in Hg.
    destruct (o_leaf o1) eqn:El1.
    + rewrite (Hll El1) in Hg.
      assert (tail1 = tail2) as -> by (rewrite Htl1, Htl2; apply leaf_tail_le; [exact El1|exact (Hll El1)]).
      destruct (sess_tail (Leaf id ord tail2 eidx) v) as [t|].
      * destruct (Nat.eqb i (length (nibs q))); [discriminate|]. destruct (bytes_eqb t _); [|discriminate].
        inversion Hg; subst. eexists. split; [reflexivity|]. split; [cbn; auto|reflexivity].
      * destruct (Nat.eqb i (length (nibs q))); [|discriminate].
        inversion Hg; subst. eexists. split; [reflexivity|]. split; [cbn; auto|reflexivity].
    + assert (c2 = Leaf id ord tail2 eidx) as ->.
      { destruct (o_leaf o2); [|inversion Hg; reflexivity].
        destruct (sess_tail (Leaf id ord tail2 eidx) v) as [t|].
        - destruct (Nat.eqb i (length (nibs q))); [discriminate|]. destruct (bytes_eqb t _); [|discriminate]. inversion Hg; reflexivity.
        - destruct (Nat.eqb i (length (nibs q))); [|discriminate]. inversion Hg; reflexivity. }
      eexists. split; [reflexivity|]. split; [cbn; auto|reflexivity].
  - (* T1 is known to answer: it answers with the node of the same descent *)
    assert (c2 = c2') as ->.
    { destruct (t_leafpfx T2); [|inversion Hg; reflexivity].
      destruct (sess_tail c2' v) as [t|].
      - destruct (Nat.eqb i (length (nibs q))); [discriminate|]. destruct (bytes_eqb t _); [|discriminate]. inversion Hg; reflexivity.
      - destruct (Nat.eqb i (length (nibs q))); [|discriminate]. inversion Hg; reflexivity. }
    unfold getid_node in Hc. rewrite (bt_root _ _ _ _ _ _ B1) in Hc. cbv zeta in Hc. rewrite Ed1 in Hc.
    rewrite Ed1.
    assert (c = c1') as ->.
    { destruct (t_leafpfx T1); [|inversion Hc; reflexivity].
      destruct (sess_tail c1' v) as [t|].
      - destruct (Nat.eqb i (length (nibs q))); [discriminate|]. destruct (bytes_eqb t _); [|discriminate]. inversion Hc; reflexivity.
      - destruct (Nat.eqb i (length (nibs q))); [|discriminate]. inversion Hc; reflexivity. }
    exists c1'. split; [exact Hc|]. split; [exact Hsh'|exact Hleaf].
Qed.

Lemma same_shape_leaf_value T1 T2 c1 c2 :
  t_leaves T1 = t_leaves T2 -> same_shape c1 c2 -> is_leaf c2 = true ->
  leaf_value T1 c1 = leaf_value T2 c2 /\ tree_id c1 = tree_id c2.
Proof.
  intros HL Hsh Hleaf. destruct c2 as [id ord tail eidx|]; [|discriminate].
  destruct c1 as [id1 ord1 tail1 eidx1|]; [|contradiction].
  cbn [same_shape] in Hsh. destruct Hsh as (-> & -> & ->).
  cbn [leaf_value tree_id]. rewrite HL. auto.
Qed.

(* the general form: T2 reports found; T1 stores no more than T2, or T1 is known to report found *)
Lemma get_mono_gen o1 o2 keys vals T1 T2 q v :
  o_dedup o1 = o_dedup o2 ->
  build o1 keys vals = Ok T1 -> build o2 keys vals = Ok T2 ->
  get T2 q = Ok (Found v) ->
  (stores_le o1 o2 \/ exists id, getid T1 q = Some id) ->
  get T1 q = Ok (Found v) /\ getid T1 q = getid T2 q.
Proof.
  intros Hd H1 H2 Hg Hside.
  destruct keys as [|k0 kr].
  { inversion H2; subst T2. cbn in Hg. discriminate. }
  destruct (build_pair o1 o2 (k0 :: kr) vals T1 T2 Hd ltac:(discriminate) H1 H2) as (r1 & r2 & lidx & B1 & B2 & Hsh & Hroot).
  unfold get in Hg. destruct (getid_node T2 q) as [c2|] eqn:Eg2; [|discriminate].
  assert (stores_le o1 o2 \/ exists c, getid_node T1 q = Some c) as Hside'.
  { destruct Hside as [H|(id & Hid)]; [left; exact H|right].
    unfold getid in Hid. destruct (getid_node T1 q) as [c|]; [eauto|discriminate]. }
  destruct (getid_node_mono o1 o2 _ vals T1 T2 r1 r2 lidx q c2 B1 B2 Hsh Hroot Eg2 Hside') as (c1 & Eg1 & Hsh' & Hleaf).
  assert (t_leaves T1 = t_leaves T2) as HL by (rewrite (bt_leaves _ _ _ _ _ _ B1), (bt_leaves _ _ _ _ _ _ B2); reflexivity).
  destruct (same_shape_leaf_value T1 T2 c1 c2 HL Hsh' Hleaf) as [Hv Hid].
  unfold get, getid. rewrite Eg1, Eg2, Hv. cbn [option_map]. rewrite Hid. split; [exact Hg|reflexivity].
Qed.

(* C13, first clause: found in the richer mode => found with the same value (and node id) in the poorer mode *)
Theorem richer_found_poorer_found o1 o2 keys vals T1 T2 q v :
  o_dedup o1 = o_dedup o2 -> stores_le o1 o2 ->
  build o1 keys vals = Ok T1 -> build o2 keys vals = Ok T2 ->
  get T2 q = Ok (Found v) ->
  get T1 q = Ok (Found v) /\ getid T1 q = getid T2 q.
Proof. intros Hd Hle H1 H2 Hg. eapply get_mono_gen; eauto. Qed.

(* C13, third clause: every two modes give identical answers for a retained key *)
Theorem retained_key_same_answer o1 o2 keys vals T1 T2 i k :
  o_dedup o1 = o_dedup o2 ->
  build o1 keys vals = Ok T1 -> build o2 keys vals = Ok T2 ->
  nth_error keys i = Some k -> retained o1 keys vals i = true ->
  exists v id, get T1 k = Ok (Found v) /\ get T2 k = Ok (Found v) /\
               getid T1 k = Some id /\ getid T2 k = Some id /\
               val_bytes v = supplied vals i /\ (vals = None -> v = None).
Proof.
  intros Hd H1 H2 Hk Hret.
  assert (retained o2 keys vals i = true) as Hret2.
  { unfold retained in *. rewrite <- (to_keep_dedup o1 o2 _ _ Hd). exact Hret. }
  destruct (kept_key_found o1 keys vals T1 i k H1 Hk Hret) as [(id1 & Hid1) _].
  destruct (kept_key_found o2 keys vals T2 i k H2 Hk Hret2) as [(id2 & Hid2) (v & Hg2 & Hvb & Hvn)].
  destruct (get_mono_gen o1 o2 keys vals T1 T2 k v Hd H1 H2 Hg2 (or_intror (ex_intro _ id1 Hid1))) as [Hg1 Hids].
  exists v, id1. rewrite Hid1 in Hids. repeat split; auto.
Qed.
