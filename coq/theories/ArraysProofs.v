(* ArraysProofs.v - proofs about the array model (Arrays.v): a compacted array built from a
   strictly ascending index list is a sparse map, its three accessors agree, invalid input
   is rejected without building anything, and the field-level message round trip is the
   identity.  Uses the reusable rank lemmas of BitmapRankProofs.v. *)
From Coq Require Import List Arith Bool NArith ZArith Lia Sorted.
From Coq.Strings Require Import Byte.
From Slim Require Import BitmapRank BitmapRankProofs Arrays.
Import ListNotations.
Local Open Scope N_scope.

(* ---------- slices of the element buffer ---------- *)

Lemma dropN_0 : forall {A} (l : list A), dropN l 0 = Some l.
Proof. intros A [|x r]; reflexivity. Qed.

Lemma dropN_app : forall {A} (a b : list A) n, dropN (a ++ b) (N.of_nat (length a) + n) = dropN b n.
Proof.
  induction a as [|x a IH]; intros b n.
  - cbn [length app N.of_nat]. rewrite N.add_0_l. reflexivity.
  - cbn [app dropN]. destruct (N.eqb_spec (N.of_nat (length (x :: a)) + n) 0) as [E|_].
    + cbn [length] in E. lia.
    + replace (N.pred (N.of_nat (length (x :: a)) + n)) with (N.of_nat (length a) + n)
        by (cbn [length]; lia).
      apply IH.
Qed.

Lemma take_exact_app : forall {A} (a b : list A), take_exact (a ++ b) (length a) = Some a.
Proof.
  induction a as [|x a IH]; intros b; [reflexivity|].
  cbn [app length take_exact]. rewrite IH. reflexivity.
Qed.

Lemma take_exact_length : forall {A} (l t : list A) n, take_exact l n = Some t -> length t = n.
Proof.
  intros A l t n. revert l t. induction n as [|n IH]; intros l t H.
  - injection H as <-. reflexivity.
  - destruct l as [|x r]; [discriminate|]. cbn [take_exact] in H.
    destruct (take_exact r n) eqn:E; [|discriminate]. injection H as <-.
    cbn [length]. f_equal. eapply IH; eassumption.
Qed.

Lemma slice_length : forall l st n t, slice l st n = Some t -> length t = n.
Proof.
  intros l st n t H. unfold slice in H. destruct (dropN l st); [|discriminate].
  eapply take_exact_length; eassumption.
Qed.

Lemma slice_concat : forall w es j,
  Forall (fun e => length e = w) es -> (j < length es)%nat ->
  slice (concat es) (N.of_nat w * N.of_nat j) w = Some (nth j es []).
Proof.
  intros w es. induction es as [|e r IH]; intros j Hall Hj; [cbn in Hj; lia|].
  inversion Hall as [|? ? He Hr]; subst.
  destruct j as [|j]; cbn [concat nth].
  - unfold slice. rewrite N.mul_0_r, dropN_0. apply take_exact_app.
  - replace (N.of_nat (length e) * N.of_nat (S j))
      with (N.of_nat (length e) + N.of_nat (length e) * N.of_nat j) by lia.
    unfold slice. rewrite dropN_app. apply IH; [assumption|cbn [length] in Hj; lia].
Qed.

(* ---------- little-endian integers ---------- *)

Lemma byte_of_to_N : forall n, Byte.to_N (byte_of n) = n mod 256.
Proof.
  intros n. unfold byte_of. destruct (Byte.of_N (n mod 256)) eqn:E.
  - apply Byte.to_of_N. assumption.
  - apply Byte.of_N_None_iff in E. pose proof (N.mod_lt n 256). lia.
Qed.

Lemma le_encode_length : forall w n, length (le_encode w n) = w.
Proof. induction w; intros; cbn [le_encode length]; auto. Qed.

Lemma le_decode_encode : forall w n, le_decode (le_encode w n) = n mod 256 ^ N.of_nat w.
Proof.
  induction w as [|w IH]; intros n.
  - cbn [le_encode le_decode N.of_nat]. rewrite N.pow_0_r, N.mod_1_r. reflexivity.
  - cbn [le_encode le_decode]. rewrite byte_of_to_N, IH, Nat2N.inj_succ, N.pow_succ_r'.
    rewrite N.mod_mul_r; [reflexivity|lia|]. apply N.pow_nonzero. lia.
Qed.

Lemma pow256 : forall b, 256 ^ N.of_nat b = 2 ^ (8 * N.of_nat b).
Proof. intros b. rewrite N.pow_mul_r. reflexivity. Qed.

Lemma encode_int_length : forall k z, length (encode_int k z) = k_bytes k.
Proof. intros. apply le_encode_length. Qed.

Lemma decode_encode_int : forall k z, int_ok k z -> decode_int k (encode_int k z) = z.
Proof.
  intros k z [Hpos Hr]. unfold decode_int, encode_int, int_ok in *.
  rewrite le_decode_encode, pow256. fold (k_bits k).
  assert (Hbits : k_bits k = N.succ (k_bits k - 1)) by (unfold k_bits; lia).
  assert (Hm : (0 < Z.of_N (2 ^ k_bits k))%Z).
  { pose proof (N.pow_nonzero 2 (k_bits k)). lia. }
  assert (Hlt : of_int (k_bits k) z < 2 ^ k_bits k).
  { unfold of_int. pose proof (Z.mod_pos_bound z (Z.of_N (2 ^ k_bits k)) Hm). lia. }
  rewrite N.mod_small by assumption.
  set (B := Z.of_N (2 ^ (k_bits k - 1))) in *.
  assert (HB : Z.of_N (2 ^ k_bits k) = (2 * B)%Z).
  { unfold B. rewrite Hbits at 1. rewrite N.pow_succ_r'. lia. }
  destruct (k_signed k).
  - unfold to_signed, of_int. rewrite HB.
    destruct (Z.neg_nonneg_cases z) as [Hneg|Hnn].
    + assert (E : (z mod (2 * B) = z + 2 * B)%Z).
      { replace z with ((z + 2 * B) + (-1) * (2 * B))%Z at 1 by lia.
        rewrite Z.mod_add by lia. apply Z.mod_small. lia. }
      rewrite E.
      destruct (N.ltb_spec (Z.to_N (z + 2 * B)) (2 ^ (k_bits k - 1))); lia.
    + rewrite Z.mod_small by lia.
      destruct (N.ltb_spec (Z.to_N z) (2 ^ (k_bits k - 1))); lia.
  - unfold of_int. rewrite Z.mod_small by lia. lia.
Qed.

Lemma firstn_skipn_app : forall {A} (a b : list A) n,
  length a = n -> firstn n (a ++ b) = a /\ skipn n (a ++ b) = b.
Proof.
  intros A a b n <-. split.
  - rewrite firstn_app, Nat.sub_diag, firstn_all. cbn [firstn]. apply app_nil_r.
  - rewrite skipn_app, Nat.sub_diag, skipn_all. reflexivity.
Qed.

Lemma encode_fields_length : forall e v, value_ok e v -> length (encode_fields e v) = enc_size e.
Proof.
  intros e v H. induction H; [reflexivity|].
  cbn [encode_fields enc_size]. rewrite app_length, encode_int_length. lia.
Qed.

Lemma decode_encode_fields : forall e v, value_ok e v -> decode_fields e (encode_fields e v) = v.
Proof.
  intros e v H. induction H as [|k e z v Hz Hv IH]; [reflexivity|].
  cbn [encode_fields decode_fields].
  destruct (firstn_skipn_app (encode_int k z) (encode_fields e v) (k_bytes k) (encode_int_length k z)) as [-> ->].
  rewrite decode_encode_int, IH by assumption. reflexivity.
Qed.

(* ---------- offsets with the empty-word quirk ---------- *)

Lemma fix_empty_length : forall ws offs, length (fix_empty ws offs) = length offs.
Proof.
  induction ws as [|w ws IH]; intros [|o offs]; cbn [fix_empty length]; auto.
Qed.

Lemma offsets_of_length : forall ws, length (offsets_of ws) = length ws.
Proof. intros. unfold offsets_of. rewrite fix_empty_length. apply index_rank64_length. Qed.

Lemma fix_empty_nth : forall ws offs w x o,
  nthN ws w = Some x -> nthN offs w = Some o ->
  nthN (fix_empty ws offs) w = Some (if x =? 0 then 0 else o).
Proof.
  induction ws as [|w0 ws IH]; intros offs w x o Hx Ho; [discriminate|].
  destruct offs as [|o0 offs]; [discriminate|].
  cbn [fix_empty]. destruct (N.eqb_spec w 0) as [->|Hw].
  - cbn in Hx, Ho. injection Hx as <-. injection Ho as <-. reflexivity.
  - replace w with (N.succ (N.pred w)) in * by lia.
    rewrite nthN_cons_succ in *. apply IH; assumption.
Qed.

(* for a word with a set bit the stored offset is the true rank before the word *)
Lemma rank64_offsets_nonzero : forall ws i x,
  nthN ws (word_of i) = Some x -> x <> 0 ->
  rank64 ws (offsets_of ws) i = rank64 ws (index_rank64 ws 0) i.
Proof.
  intros ws i x Hx Hne. unfold rank64.
  destruct (nthN_lt_Some (index_rank64 ws 0) (word_of i)) as [o Ho].
  { rewrite index_rank64_length. eapply nthN_Some_lt; eassumption. }
  unfold offsets_of. rewrite (fix_empty_nth _ _ _ _ _ Hx Ho), Ho.
  destruct (N.eqb_spec x 0); [contradiction|reflexivity].
Qed.

(* for an empty word the stored offset is 0 (the quirk); harmless, every bit test fails *)
Lemma rank64_offsets_zero : forall ws i,
  nthN ws (word_of i) = Some 0 -> rank64 ws (offsets_of ws) i = Val (0, 0).
Proof.
  intros ws i Hx. unfold rank64.
  destruct (nthN_lt_Some (index_rank64 ws 0) (word_of i)) as [o Ho].
  { rewrite index_rank64_length. eapply nthN_Some_lt; eassumption. }
  unfold offsets_of. rewrite (fix_empty_nth _ _ _ _ _ Hx Ho), Hx.
  rewrite N.land_0_l, N.shiftr_0_l, N.land_0_l. reflexivity.
Qed.

(* ---------- a built array ---------- *)

(* what Init establishes: the bitmap holds exactly the listed positions, the offsets are the
   quirky rank index, and the buffer is the concatenation of the encoded elements *)
Definition built_from (a : array32) (idx : list N) (es : list (list byte)) (w : nat) : Prop :=
  StronglySorted N.lt idx /\ words_ok (Bitmaps a) /\
  (forall k, bm_get (Bitmaps a) k = true <-> In k idx) /\
  Offsets a = offsets_of (Bitmaps a) /\
  Elts a = concat es /\ Forall (fun e => length e = w) es /\ length es = length idx.

Lemma span_word : forall a i, i < span a <-> word_of i < N.of_nat (length (Bitmaps a)).
Proof.
  intros a i. unfold span. pose proof (pos_split i). pose proof (bit_of_lt i). split; intros; nia.
Qed.

Lemma get_bytes_listed : forall a idx es w j,
  built_from a idx es w -> (j < length idx)%nat ->
  nth j idx 0 < span a /\
  get_bytes a (nth j idx 0) w = Val (Some (nth j es [])).
Proof.
  intros a idx es w j (Hs & Hok & Hbm & Hoff & Helts & Hlen & Hn) Hj.
  set (i := nth j idx 0).
  assert (Hin : In i idx) by (apply nth_In; assumption).
  pose proof (proj2 (Hbm i) Hin) as Hget.
  split; [unfold span; apply bm_get_true_lt; assumption|].
  unfold bm_get in Hget. destruct (nthN (Bitmaps a) (word_of i)) as [x|] eqn:Ex; [|discriminate].
  assert (Hx : x <> 0) by (intros ->; rewrite N.bits_0 in Hget; discriminate).
  unfold get_bytes. rewrite Hoff, (rank64_offsets_nonzero _ _ _ Ex Hx).
  destruct (rank64 (Bitmaps a) (index_rank64 (Bitmaps a) 0) i) as [[r bit]|] eqn:Er.
  - destruct (rank64_correct _ _ _ _ Hok Er) as [-> ->].
    assert (Hg : bm_get (Bitmaps a) i = true) by (apply Hbm; assumption).
    rewrite Hg. cbn [N.b2n N.eqb Pos.eqb].
    unfold i at 1. rewrite (rank_of_listed _ _ _ Hs Hbm Hj), Helts.
    rewrite slice_concat by (try assumption; lia). reflexivity.
  - apply rank64_panic_iff in Er. rewrite index_rank64_length in Er.
    apply nthN_Some_lt in Ex. lia.
Qed.

Lemma get_bytes_unlisted : forall a idx es w i,
  built_from a idx es w -> i < span a -> ~ In i idx -> get_bytes a i w = Val None.
Proof.
  intros a idx es w i (Hs & Hok & Hbm & Hoff & _) Hi Hnot.
  apply span_word in Hi.
  destruct (nthN_lt_Some _ _ Hi) as [x Ex].
  assert (Hg : bm_get (Bitmaps a) i = false).
  { destruct (bm_get (Bitmaps a) i) eqn:E; [|reflexivity]. apply Hbm in E. contradiction. }
  unfold get_bytes. rewrite Hoff.
  destruct (N.eq_dec x 0) as [->|Hx].
  - rewrite (rank64_offsets_zero _ _ Ex). reflexivity.
  - rewrite (rank64_offsets_nonzero _ _ _ Ex Hx).
    destruct (rank64 (Bitmaps a) (index_rank64 (Bitmaps a) 0) i) as [[r bit]|] eqn:Er.
    + destruct (rank64_correct _ _ _ _ Hok Er) as [_ ->]. rewrite Hg. reflexivity.
    + apply rank64_panic_iff in Er. rewrite index_rank64_length in Er. lia.
Qed.

Lemma get_bytes_outside : forall a i w,
  length (Offsets a) = length (Bitmaps a) -> span a <= i -> get_bytes a i w = Panic.
Proof.
  intros a i w Hlen Hi. unfold get_bytes.
  assert (H : rank64 (Bitmaps a) (Offsets a) i = Panic).
  { apply rank64_panic_iff. right.
    destruct (N.le_gt_cases (N.of_nat (length (Bitmaps a))) (word_of i)); [assumption|].
    apply span_word in H. lia. }
  rewrite H. reflexivity.
Qed.

(* ---------- the accessors agree ---------- *)

Theorem typed_eq_raw : forall k a i,
  length (Offsets a) = length (Bitmaps a) ->
  typed_get k a i = typed_of_raw k (get_bytes a i (k_bytes k)).
Proof.
  intros k a i Hlen. unfold typed_get, get_bytes, rank64.
  destruct (nthN (Bitmaps a) (word_of i)) as [x|] eqn:Ex.
  - destruct (nthN_lt_Some (Offsets a) (word_of i)) as [o Eo].
    { rewrite Hlen. eapply nthN_Some_lt; eassumption. }
    rewrite Eo. destruct (N.land (N.shiftr x (bit_of i)) 1 =? 0); [reflexivity|].
    replace (o * N.of_nat (k_bytes k) + popcount (N.land x (N.ones (bit_of i))) * N.of_nat (k_bytes k))
      with (N.of_nat (k_bytes k) * (o + popcount (N.land x (N.ones (bit_of i))))) by lia.
    destruct (slice _ _ _); reflexivity.
  - apply nthN_None_iff in Ex. rewrite <- Hlen in Ex. apply nthN_None_iff in Ex. rewrite Ex. reflexivity.
Qed.

Theorem generic_eq_raw : forall e a i,
  base_get {| arr := a; enc := Some e |} i = generic_of_raw e (get_bytes a i (enc_size e)).
Proof. reflexivity. Qed.

Theorem generic_eq_typed : forall k a i,
  length (Offsets a) = length (Bitmaps a) ->
  base_get {| arr := a; enc := Some [k] |} i = generic_of_typed (typed_get k a i).
Proof.
  intros k a i Hlen. rewrite generic_eq_raw, (typed_eq_raw k a i Hlen).
  cbn [enc_size]. rewrite Nat.add_0_r.
  unfold get_bytes. destruct (rank64 _ _ i) as [[r b]|]; [|reflexivity].
  destruct (b =? 0); [reflexivity|].
  destruct (slice _ _ _) as [bs|] eqn:E; [|reflexivity].
  cbn [generic_of_raw typed_of_raw generic_of_typed decode_fields].
  apply slice_length in E. rewrite <- E, firstn_all. reflexivity.
Qed.

(* ---------- building ---------- *)

Lemma init_index_ok : forall a idx,
  ascending idx = true -> idx_ok idx ->
  exists ws,
    init_index a idx =
    Val ({| Cnt := N.of_nat (length idx); Bitmaps := ws; Offsets := offsets_of ws; Elts := Elts a;
            Flags := Flags a; EltWidth := EltWidth a; BMElts := BMElts a |}, None)
    /\ words_ok ws /\ (forall k, bm_get ws k = true <-> In k idx)
    /\ N.of_nat (length ws) = span_words idx.
Proof.
  intros a idx Hasc Hok. unfold init_index. rewrite Hasc. cbn [negb].
  destruct (bm_of_spec idx (proj1 (ascending_sorted idx) Hasc) Hok) as (ws & -> & H1 & H2 & H3).
  exists ws. auto.
Qed.

Lemma init_index_notasc : forall a idx,
  ascending idx = false -> init_index a idx = Val (a, Some ErrIndexNotAscending).
Proof. intros a idx H. unfold init_index. rewrite H. reflexivity. Qed.

Definition effective (b : base) (ty : encoder) : encoder :=
  match enc b with Some e => e | None => ty end.

Lemma base_init_ok : forall b ty idx vs,
  ascending idx = true -> idx_ok idx -> length vs = length idx ->
  Forall (value_ok (effective b ty)) vs ->
  (idx <> [] \/ Elts (arr b) = []) ->
  exists a,
    base_init b ty idx vs = Val ({| arr := a; enc := enc b |}, None)
    /\ built_from a idx (map (encode_fields (effective b ty)) vs) (enc_size (effective b ty))
    /\ Cnt a = N.of_nat (length idx)
    /\ span a = 64 * span_words idx
    /\ Flags a = Flags (arr b) /\ EltWidth a = EltWidth (arr b) /\ BMElts a = BMElts (arr b).
Proof.
  intros b ty idx vs Hasc Hok Hlen Hvs Hne. unfold base_init.
  rewrite <- Hlen, Nat.eqb_refl. cbn [negb].
  destruct (init_index_ok (arr b) idx Hasc Hok) as (ws & -> & Hw & Hbm & Hsp).
  pose proof (proj1 (ascending_sorted idx) Hasc) as Hs.
  assert (Hes : Forall (fun e => length e = enc_size (effective b ty)) (map (encode_fields (effective b ty)) vs)).
  { rewrite Forall_map. eapply Forall_impl; [|exact Hvs]. intros v. apply encode_fields_length. }
  destruct idx as [|i0 idx'].
  - destruct vs; [|discriminate]. destruct Hne as [Hne|Hne]; [congruence|].
    eexists. split; [reflexivity|]. cbn [Bitmaps Offsets Elts Cnt Flags EltWidth BMElts].
    unfold built_from, span. cbn [Bitmaps Offsets Elts map concat].
    repeat split; auto; try apply Hbm. lia.
  - eexists. split; [reflexivity|]. unfold built_from, span, set_elts, effective in *.
    cbn [Bitmaps Offsets Elts Cnt Flags EltWidth BMElts].
    repeat split; auto; try apply Hbm; try lia. rewrite map_length. assumption.
Qed.

Lemma base_init_len : forall b ty idx vs,
  length idx <> length vs -> base_init b ty idx vs = Val (b, Some ErrIndexLen).
Proof.
  intros b ty idx vs H. unfold base_init.
  destruct (Nat.eqb_spec (length idx) (length vs)); [contradiction|reflexivity].
Qed.

Lemma base_init_notasc : forall b ty idx vs,
  length idx = length vs -> ascending idx = false ->
  base_init b ty idx vs = Val (b, Some ErrIndexNotAscending).
Proof.
  intros b ty idx vs Hl H. unfold base_init. rewrite Hl, Nat.eqb_refl. cbn [negb].
  rewrite (init_index_notasc _ _ H). reflexivity.
Qed.

(* strictly ascending = no equal or descending neighbours at any position *)
Lemma ascending_neighbours : forall idx,
  ascending idx = true <-> forall p, (S p < length idx)%nat -> nth p idx 0 < nth (S p) idx 0.
Proof.
  induction idx as [|x r IH]; [split; [cbn; intros; lia|reflexivity]|].
  destruct r as [|y r'].
  - split; [cbn; intros; lia|reflexivity].
  - change (ascending (x :: y :: r')) with ((x <? y) && ascending (y :: r')).
    rewrite andb_true_iff, IH, N.ltb_lt. split.
    + intros [Hxy Hr] [|p] Hp; [exact Hxy|]. apply (Hr p). cbn [length] in *. lia.
    + intros H. split; [apply (H 0%nat); cbn [length]; lia|].
      intros p Hp. apply (H (S p)). cbn [length] in *. lia.
Qed.

(* ---------- the property, typed arrays ---------- *)

Lemma built_lengths : forall a idx es w, built_from a idx es w -> length (Offsets a) = length (Bitmaps a).
Proof. intros a idx es w (_ & _ & _ & -> & _). apply offsets_of_length. Qed.

Lemma value_ok_scalar : forall k z, int_ok k z -> value_ok [k] [z].
Proof. intros. constructor; [assumption|constructor]. Qed.

Lemma encode_fields_scalar : forall k z, encode_fields [k] [z] = encode_int k z.
Proof. intros. cbn [encode_fields]. apply app_nil_r. Qed.

Lemma sparse_typed_of_built : forall k a idx zs,
  built_from a idx (map (encode_fields [k]) (map (fun z => [z]) zs)) (enc_size [k]) ->
  length zs = length idx -> Forall (int_ok k) zs ->
  span a = 64 * span_words idx ->
  sparse_map_typed k {| arr := a; enc := None |} idx zs.
Proof.
  intros k a idx zs Hb Hlen Hzs Hsp. pose proof (built_lengths _ _ _ _ Hb) as HL.
  assert (Hw : enc_size [k] = k_bytes k) by (cbn [enc_size]; lia).
  rewrite Hw in Hb.
  unfold sparse_map_typed. cbn [arr]. split; [assumption|]. split; [|split].
  - intros j Hj. destruct (get_bytes_listed _ _ _ _ j Hb Hj) as [Hin Hg].
    assert (Hnth : nth j (map (encode_fields [k]) (map (fun z => [z]) zs)) [] = encode_int k (nth j zs 0%Z)).
    { rewrite map_map. rewrite (nth_indep _ [] (encode_fields [k] [0%Z])) by (rewrite map_length; lia).
      rewrite (map_nth (fun z => encode_fields [k] [z]) zs 0%Z j). apply encode_fields_scalar. }
    rewrite Hnth in Hg. split; [assumption|]. split; [|assumption].
    rewrite (typed_eq_raw k a _ HL), Hg. cbn [typed_of_raw].
    rewrite decode_encode_int; [reflexivity|].
    rewrite Forall_forall in Hzs. apply Hzs, nth_In. lia.
  - intros i Hi Hnot. pose proof (get_bytes_unlisted _ _ _ _ i Hb Hi Hnot) as Hg.
    split; [|assumption]. rewrite (typed_eq_raw k a _ HL), Hg. reflexivity.
  - intros i Hi. pose proof (get_bytes_outside a i (k_bytes k) HL Hi) as Hg.
    split; [|assumption]. rewrite (typed_eq_raw k a _ HL), Hg. reflexivity.
Qed.

Theorem typed_array_sparse_map : forall k idx zs,
  ascending idx = true -> idx_ok idx -> length zs = length idx -> Forall (int_ok k) zs ->
  elts_fit [k] idx ->
  exists b, new_typed k idx zs = Val (Built b) /\ enc b = None /\
            Cnt (arr b) = N.of_nat (length idx) /\ sparse_map_typed k b idx zs.
Proof.
  intros k idx zs Hasc Hok Hlen Hzs _. unfold new_typed.
  destruct (base_init_ok empty_base [k] idx (map (fun z => [z]) zs) Hasc Hok) as (a & -> & Hb & Hc & Hsp & _).
  - rewrite map_length. assumption.
  - rewrite Forall_map. eapply Forall_impl; [|exact Hzs]. intros z. apply value_ok_scalar.
  - right. reflexivity.
  - cbn [finish enc empty_base]. eexists. split; [reflexivity|]. split; [reflexivity|].
    split; [assumption|]. apply sparse_typed_of_built; assumption.
Qed.

(* ---------- the property, generic arrays ---------- *)

Lemma sparse_generic_of_built : forall e a idx vs,
  built_from a idx (map (encode_fields e) vs) (enc_size e) ->
  length vs = length idx -> Forall (value_ok e) vs ->
  span a = 64 * span_words idx ->
  sparse_map_generic e {| arr := a; enc := Some e |} idx vs.
Proof.
  intros e a idx vs Hb Hlen Hvs Hsp. pose proof (built_lengths _ _ _ _ Hb) as HL.
  unfold sparse_map_generic. cbn [arr]. split; [assumption|]. split; [|split].
  - intros j Hj. destruct (get_bytes_listed _ _ _ _ j Hb Hj) as [Hin Hg].
    assert (Hnth : nth j (map (encode_fields e) vs) [] = encode_fields e (nth j vs [])).
    { rewrite (nth_indep _ [] (encode_fields e [])) by (rewrite map_length; lia).
      apply (map_nth (encode_fields e)). }
    rewrite Hnth in Hg. split; [assumption|]. split; [|assumption].
    rewrite generic_eq_raw, Hg. cbn [generic_of_raw].
    rewrite decode_encode_fields; [reflexivity|].
    rewrite Forall_forall in Hvs. apply Hvs, nth_In. lia.
  - intros i Hi Hnot. pose proof (get_bytes_unlisted _ _ _ _ i Hb Hi Hnot) as Hg.
    split; [|assumption]. rewrite generic_eq_raw, Hg. reflexivity.
  - intros i Hi. pose proof (get_bytes_outside a i (enc_size e) HL Hi) as Hg.
    split; [|assumption]. rewrite generic_eq_raw, Hg. reflexivity.
Qed.

(* array.New: with no element the array keeps a nil encoder (every Get panics, and the span
   is empty); otherwise the type encoder is remembered *)
Theorem generic_array_sparse_map : forall ty idx vs,
  ascending idx = true -> idx_ok idx -> length vs = length idx -> Forall (value_ok ty) vs ->
  elts_fit ty idx ->
  exists b, new_generic ty idx vs = Val (Built b) /\
            enc b = (match idx with [] => None | _ => Some ty end) /\
            Cnt (arr b) = N.of_nat (length idx) /\
            (idx <> [] -> sparse_map_generic ty b idx vs) /\
            (idx = [] -> span (arr b) = 0 /\ forall i, base_get b i = Panic).
Proof.
  intros ty idx vs Hasc Hok Hlen Hvs _. unfold new_generic, array_init.
  destruct (base_init_ok empty_base ty idx vs Hasc Hok Hlen Hvs) as (a & -> & Hb & Hc & Hsp & _).
  - right. reflexivity.
  - cbn [enc empty_base arr]. rewrite Hc.
    destruct idx as [|i0 idx'].
    + cbn [length N.of_nat N.ltb N.compare finish]. eexists. split; [reflexivity|].
      split; [reflexivity|]. split; [assumption|]. split; [congruence|].
      intros _. split; [cbn [arr]; rewrite Hsp; reflexivity|]. intros i. reflexivity.
    + destruct (N.ltb_spec 0 (N.of_nat (length (i0 :: idx')))) as [_|H]; [|cbn [length] in H; lia].
      cbn [finish]. eexists. split; [reflexivity|]. split; [reflexivity|]. split; [assumption|].
      split; [|discriminate]. intros _. apply sparse_generic_of_built; assumption.
Qed.

Theorem encoder_array_sparse_map : forall e idx vs,
  ascending idx = true -> idx_ok idx -> length vs = length idx -> Forall (value_ok e) vs ->
  elts_fit e idx ->
  exists b, new_with_encoder e idx vs = Val (Built b) /\ enc b = Some e /\
            Cnt (arr b) = N.of_nat (length idx) /\ sparse_map_generic e b idx vs.
Proof.
  intros e idx vs Hasc Hok Hlen Hvs _. unfold new_with_encoder, array_init.
  destruct (base_init_ok {| arr := empty_array32; enc := Some e |} e idx vs Hasc Hok Hlen Hvs)
    as (a & -> & Hb & Hc & Hsp & _).
  - right. reflexivity.
  - cbn [enc arr finish]. eexists. split; [reflexivity|]. split; [reflexivity|]. split; [assumption|].
    apply sparse_generic_of_built; assumption.
Qed.

(* ---------- rejection ---------- *)

Theorem rejects_length : forall b ty idx vs,
  length idx <> length vs ->
  base_init b ty idx vs = Val (b, Some ErrIndexLen) /\
  array_init b ty idx vs = Val (b, Some ErrIndexLen).
Proof.
  intros b ty idx vs H. unfold array_init. rewrite (base_init_len b ty idx vs H). auto.
Qed.

Theorem rejects_order : forall b ty idx vs,
  length idx = length vs -> ascending idx = false ->
  base_init b ty idx vs = Val (b, Some ErrIndexNotAscending) /\
  array_init b ty idx vs = Val (b, Some ErrIndexNotAscending).
Proof.
  intros b ty idx vs Hl H. unfold array_init. rewrite (base_init_notasc b ty idx vs Hl H). auto.
Qed.

Theorem constructors_reject : forall k ty idx (zs : list Z) (vs : list value),
  (length idx <> length zs -> new_typed k idx zs = Val (Rejected ErrIndexLen)) /\
  (length idx <> length vs -> new_generic ty idx vs = Val (Rejected ErrIndexLen)
                              /\ new_with_encoder ty idx vs = Val (Rejected ErrIndexLen)) /\
  (length idx = length zs -> ascending idx = false -> new_typed k idx zs = Val (Rejected ErrIndexNotAscending)) /\
  (length idx = length vs -> ascending idx = false ->
   new_generic ty idx vs = Val (Rejected ErrIndexNotAscending)
   /\ new_with_encoder ty idx vs = Val (Rejected ErrIndexNotAscending)).
Proof.
  intros k ty idx zs vs. unfold new_typed, new_generic, new_with_encoder. repeat split.
  - intros H.
    assert (H' : length idx <> length (map (fun z : Z => [z]) zs)) by (rewrite map_length; exact H).
    rewrite (proj1 (rejects_length empty_base [k] idx _ H')). reflexivity.
  - rewrite (proj2 (rejects_length _ _ _ _ H)). reflexivity.
  - rewrite (proj2 (rejects_length _ _ _ _ H)). reflexivity.
  - intros Hl H.
    assert (H' : length idx = length (map (fun z : Z => [z]) zs)) by (rewrite map_length; exact Hl).
    rewrite (proj1 (rejects_order empty_base [k] idx _ H' H)). reflexivity.
  - rewrite (proj2 (rejects_order _ _ _ _ H H0)). reflexivity.
  - rewrite (proj2 (rejects_order _ _ _ _ H H0)). reflexivity.
Qed.

(* bitmap.Of on position MaxInt32: the constructors panic (outside the property's domain) *)
Theorem maxint32_panics : forall k z, new_typed k [int32_max] [z] = Panic.
Proof. reflexivity. Qed.

(* ---------- serialization, field level ---------- *)

Theorem roundtrip_typed : forall b, enc b = None -> of_msg_typed (to_msg b) = b.
Proof. intros [a e] H. cbn in *. subst. reflexivity. Qed.

Theorem roundtrip_generic : forall b ty, enc b = Some ty -> of_msg_generic ty (to_msg b) = b.
Proof. intros [a e] ty H. cbn in *. subst. reflexivity. Qed.

Theorem roundtrip_fields : forall b ty,
  arr (of_msg_typed (to_msg b)) = arr b /\ arr (of_msg_generic ty (to_msg b)) = arr b.
Proof. intros. split; reflexivity. Qed.

(* a typed array reloaded as a generic array of the same element type, and back *)
Theorem reload_typed_as_generic : forall k b,
  length (Offsets (arr b)) = length (Bitmaps (arr b)) ->
  forall i, base_get (of_msg_generic [k] (to_msg b)) i = generic_of_typed (typed_get k (arr b) i).
Proof.
  intros k b HL i. unfold of_msg_generic, to_msg. apply generic_eq_typed. assumption.
Qed.

Theorem reload_generic_as_typed : forall k b,
  length (Offsets (arr b)) = length (Bitmaps (arr b)) ->
  forall i, generic_of_typed (typed_get k (arr (of_msg_typed (to_msg b))) i)
            = base_get {| arr := arr b; enc := Some [k] |} i.
Proof.
  intros k b HL i. unfold of_msg_typed, to_msg. cbn [arr]. symmetry. apply generic_eq_typed. assumption.
Qed.
