(* Legacy510QueryProofs.v - the loaded 0.5.10 / 0.5.11 message answers like the tree.

   The loader leaves the select indexes of InnerPrefixes.PositionBM and LeafPrefixes.PositionBM
   as the old writer stored them (Legacy510.old_sel_msg).  Section OldSel: for every message m
   whose position bitmaps carry the indexes of IndexSelect32R64 (pos_ok), get_node / get_view /
   ith_leaf_bytes and every query of Msg.v return on old_sel_msg m exactly what they return on
   m, for ALL arguments.  loaded510_answers composes this with Legacy510Proofs.conv510_built
   and the MsgProofs theorems. *)
From Coq Require Import List Arith Bool NArith ZArith Lia Sorted.
From Slim Require Import Base Keys Model BitmapRank BitmapRankProofs BitmapRank2 BitmapRank2Proofs
     BitmapSelectProofs Bits BitsVlenProofs BitsWfProofs BitsFlatProofs FlatProofs Msg MsgProofs
     Legacy510 Legacy510Proofs.
From Slim Require BuildProofs GetIntProofs.
Import ListNotations.
Local Open Scope N_scope.
(* ---------- a message whose position bitmaps carry the indexes of IndexSelect32R64 ---------- *)
Definition sel_ok (b : bitmap) : Prop := exists ws, words_ok ws /\ b = index_bm ws S32.
Definition vl_ok (v : option vlen) : Prop :=
  match v with
  | Some v => match v_position v with Some ps => sel_ok ps | None => True end
  | None => True
  end.
Definition pos_ok (m : msg) : Prop := vl_ok (m_innerpfx m) /\ vl_ok (m_leafpfx m).

Lemma var_elt_old_sel ps bytes ith : sel_ok ps ->
  vlen_var_elt (old_sel ps) bytes ith = vlen_var_elt ps bytes ith.
Proof.
  intros (ws & Hok & ->). unfold vlen_var_elt. cbn [old_sel index_bm b_words b_sel b_rank].
  rewrite (select_shift ws ith Hok). reflexivity.
Qed.

Section OldSel.
  Variable m : msg.
  Hypothesis Hpos : pos_ok m.
  Let m' := old_sel_msg m.

  Lemma get_leaf_prefix_old id ith : get_leaf_prefix m' id ith = get_leaf_prefix m id ith.
  Proof.
    unfold get_leaf_prefix, m'. cbn [old_sel_msg m_leafpfx]. destruct Hpos as [_ Hl].
    destruct (m_leafpfx m) as [lp|]; cbn [option_map]; [|reflexivity].
    cbn [vl_ok] in Hl. unfold old_sel_vl. cbn [v_presence v_position v_bytes].
    destruct (v_presence lp) as [pres|]; [|reflexivity].
    destruct (get_bit (b_words pres) (id - ith)) as [has|]; cbn [obind]; [|reflexivity].
    destruct (negb has); [reflexivity|].
    destruct (rank64 (b_words pres) (b_rank pres) (id - ith)) as [[ithpref bit]|]; cbn [obind]; [|reflexivity].
    destruct (v_position lp) as [ps|]; cbn [option_map]; [|reflexivity].
    rewrite (var_elt_old_sel ps _ _ Hl). reflexivity.
  Qed.

  Lemma inner_prefix_old ith : inner_prefix m' ith = inner_prefix m ith.
  Proof.
    unfold inner_prefix, m'. cbn [old_sel_msg m_innerpfx]. destruct Hpos as [Hi _].
    destruct (m_innerpfx m) as [ips|]; cbn [option_map]; [|reflexivity].
    cbn [vl_ok] in Hi. unfold old_sel_vl. cbn [v_presence v_position v_bytes v_eltcnt].
    destruct (v_eltcnt ips =? 0); [reflexivity|].
    destruct (v_presence ips) as [inn|]; [|reflexivity].
    destruct (get_bit (b_words inn) ith) as [has|]; cbn [obind]; [|reflexivity].
    destruct (negb has); [reflexivity|].
    destruct (rank128 (b_words inn) (b_rank inn) ith) as [[ithpref bit]|]; cbn [obind]; [|reflexivity].
    destruct (v_position ips) as [ps|]; cbn [option_map]; [|reflexivity].
    rewrite (var_elt_old_sel ps _ _ Hi). reflexivity.
  Qed.

  Lemma get_node_old vs id : get_node m' vs id = get_node m vs id.
  Proof.
    unfold get_node. change (m_nodetype m') with (m_nodetype m).
    destruct (m_nodetype m) as [nt|]; [|reflexivity].
    destruct (rank64 (b_words nt) (b_rank nt) id) as [[ith isinner]|]; cbn [obind]; [|reflexivity].
    destruct (isinner =? 0); [apply get_leaf_prefix_old|].
    change (inner_range m' vs ith) with (inner_range m vs ith). rewrite inner_prefix_old. reflexivity.
  Qed.

  Lemma get_view_old vs id : get_view m' vs id = get_view m vs id.
  Proof. unfold get_view. rewrite get_node_old. reflexivity. Qed.

  Lemma ith_leaf_bytes_old ith : ith_leaf_bytes m' ith = ith_leaf_bytes m ith.
  Proof. reflexivity. Qed.

  Lemma init_vars_old : init_vars m' = init_vars m.
  Proof. reflexivity. Qed.

  Lemma leafpfx_old_none : (m_leafpfx m' = None) <-> (m_leafpfx m = None).
  Proof. unfold m'. cbn [old_sel_msg m_leafpfx]. destruct (m_leafpfx m); cbn [option_map]; split; congruence. Qed.

  Lemma mdescend_old vs qn l : forall fuel id i, mdescend fuel m' vs qn l id i = mdescend fuel m vs qn l id i.
  Proof.
    induction fuel as [|f IH]; intros id i; [reflexivity|]. cbn [mdescend].
    rewrite get_node_old, get_view_old.
    destruct (get_node m vs (N.of_nat id)) as [[ith tail|ith wsz from to bm plen pfx]|]; [reflexivity| |reflexivity].
    destruct (get_view m vs (N.of_nat id)) as [[? ? ?|vid big step vpfx fc labels]|]; [reflexivity| |reflexivity].
    destruct (advance qn l i step vpfx) as [i1|]; [|reflexivity].
    change (left_child m' from to bm (N.of_nat (label_at big qn i1))) with (left_child m from to bm (N.of_nat (label_at big qn i1))).
    destruct (left_child m from to bm (N.of_nat (label_at big qn i1))) as [[lch has]|]; [|reflexivity].
    destruct (N.eqb has 0); [reflexivity|]. destruct (Nat.eqb i1 l); [reflexivity|]. apply IH.
  Qed.

  Lemma msess_tail_old vs id v : msess_tail m' vs id v = msess_tail m vs id v.
  Proof. unfold msess_tail. rewrite get_node_old. reflexivity. Qed.

  Lemma mgetid_old fuel vs q : mgetid fuel m' vs q = mgetid fuel m vs q.
  Proof.
    unfold mgetid. change (m_nodetype m') with (m_nodetype m). destruct (m_nodetype m); [|reflexivity].
    cbv zeta. rewrite mdescend_old. destruct (mdescend fuel m vs (nibs q) (length (nibs q)) 0 0) as [[[[id i] v]|]|]; cbn [bind]; try reflexivity.
    unfold m' at 1. cbn [old_sel_msg m_leafpfx]. destruct (m_leafpfx m); cbn [option_map]; [|reflexivity].
    fold m'. rewrite msess_tail_old. reflexivity.
  Qed.

  Lemma mget_old fuel vs q : mget fuel m' vs q = mget fuel m vs q.
  Proof.
    unfold mget. rewrite mgetid_old. destruct (mgetid fuel m vs q) as [[id|]|]; cbn [bind]; try reflexivity.
    rewrite get_node_old. reflexivity.
  Qed.

  Lemma mleftmost_old vs : forall fuel id, mleftmost fuel m' vs id = mleftmost fuel m vs id.
  Proof.
    induction fuel as [|f IH]; intros id; [reflexivity|]. cbn [mleftmost]. rewrite get_node_old.
    destruct (get_node m vs (N.of_nat id)) as [[ith tail|ith wsz from to bm plen pfx]|]; try reflexivity.
    change (first_child m' from) with (first_child m from). destruct (first_child m from); [apply IH|reflexivity].
  Qed.

  Lemma mrightmost_old vs : forall fuel id, mrightmost fuel m' vs id = mrightmost fuel m vs id.
  Proof.
    induction fuel as [|f IH]; intros id; [reflexivity|]. cbn [mrightmost]. rewrite get_node_old.
    destruct (get_node m vs (N.of_nat id)) as [[ith tail|ith wsz from to bm plen pfx]|]; try reflexivity.
    change (last_child m' to) with (last_child m to). destruct (last_child m to); [apply IH|reflexivity].
  Qed.

  Lemma msearch_down_old vs qn l : forall fuel id i lc rc,
    msearch_down fuel m' vs qn l id i lc rc = msearch_down fuel m vs qn l id i lc rc.
  Proof.
    induction fuel as [|f IH]; intros id i lc rc; [reflexivity|]. cbn [msearch_down].
    rewrite get_node_old, get_view_old.
    destruct (get_node m vs (N.of_nat id)) as [[ith tail|ith wsz from to bm plen pfx]|]; [reflexivity| |reflexivity].
    destruct (get_view m vs (N.of_nat id)) as [[? ? ?|vid big step vpfx fc labels]|]; [reflexivity| |reflexivity].
    destruct (advance3 qn l i step vpfx) as [i1| |]; [|reflexivity|reflexivity].
    change (left_child m' from to bm (N.of_nat (label_at big qn i1))) with (left_child m from to bm (N.of_nat (label_at big qn i1))).
    change (first_child m' from) with (first_child m from). change (last_child m' to) with (last_child m to).
    destruct (left_child m from to bm (N.of_nat (label_at big qn i1))) as [[lch has]|]; [|reflexivity].
    destruct (first_child m from) as [lm|]; [|reflexivity]. destruct (last_child m to) as [rm|]; [|reflexivity].
    cbv zeta. destruct (N.eqb has 0); [reflexivity|]. destruct (Nat.eqb i1 l); [reflexivity|]. apply IH.
  Qed.

  Lemma msearchid_old fuel vs q : msearchid fuel m' vs q = msearchid fuel m vs q.
  Proof.
    unfold msearchid. change (m_nodetype m') with (m_nodetype m). destruct (m_nodetype m); [|reflexivity].
    cbv zeta. rewrite msearch_down_old.
    destruct (msearch_down fuel m vs (nibs q) (length (nibs q)) 0 0 None None) as [[[lc eq] rc]|]; cbn [bind]; [|reflexivity].
    assert (Hd2 :
      match eq with
      | Some (id, i, visited) =>
        if (i <=? length (nibs q))%nat
        then
          do cmp <- match m_leafpfx m' with
                    | Some _ => do t <- msess_tail m' vs id visited;
                                Ok (bytes_cmp (skipn (i / 2) q) match t with Some t0 => t0 | None => [] end)
                    | None => Ok Eq
                    end;
          match cmp with Eq => Ok (lc, Some id, rc) | Lt => Ok (lc, None, Some id) | Gt => Ok (Some id, None, rc) end
        else Ok (lc, Some id, rc)
      | None => Ok (lc, None, rc)
      end =
      match eq with
      | Some (id, i, visited) =>
        if (i <=? length (nibs q))%nat
        then
          do cmp <- match m_leafpfx m with
                    | Some _ => do t <- msess_tail m vs id visited;
                                Ok (bytes_cmp (skipn (i / 2) q) match t with Some t0 => t0 | None => [] end)
                    | None => Ok Eq
                    end;
          match cmp with Eq => Ok (lc, Some id, rc) | Lt => Ok (lc, None, Some id) | Gt => Ok (Some id, None, rc) end
        else Ok (lc, Some id, rc)
      | None => Ok (lc, None, rc)
      end).
    { destruct eq as [[[id i] visited]|]; [|reflexivity]. destruct (i <=? length (nibs q))%nat; [|reflexivity].
      unfold m' at 1. cbn [old_sel_msg m_leafpfx]. destruct (m_leafpfx m); cbn [option_map]; [|reflexivity].
      fold m'. rewrite msess_tail_old. reflexivity. }
    rewrite Hd2. clear Hd2.
    match goal with |- bind ?x _ = bind ?x _ => destruct x as [[[lc2 eq2] rc2]|]; cbn [bind]; [|reflexivity] end.
    destruct lc2 as [x|]; [rewrite mrightmost_old|]; destruct rc2 as [y|]; try rewrite mleftmost_old; reflexivity.
  Qed.

  Lemma mleaf_value_old vs id : mleaf_value m' vs id = mleaf_value m vs id.
  Proof. unfold mleaf_value. rewrite get_node_old. reflexivity. Qed.

  Lemma mopt_leaf_value_old vs c : mopt_leaf_value m' vs c = mopt_leaf_value m vs c.
  Proof. destruct c; cbn [mopt_leaf_value]; [rewrite mleaf_value_old|]; reflexivity. Qed.

  Lemma msearch_old fuel vs q : msearch fuel m' vs q = msearch fuel m vs q.
  Proof.
    unfold msearch. rewrite msearchid_old. destruct (msearchid fuel m vs q) as [[[l e] r]|]; cbn [bind]; [|reflexivity].
    rewrite !mopt_leaf_value_old. reflexivity.
  Qed.

  Lemma mrangeget_old fuel vs q : mrangeget fuel m' vs q = mrangeget fuel m vs q.
  Proof.
    unfold mrangeget. rewrite msearchid_old. destruct (msearchid fuel m vs q) as [[[l e] r]|]; cbn [bind]; [|reflexivity].
    destruct e; [rewrite mleaf_value_old; reflexivity|]. destruct l; [rewrite mleaf_value_old|]; reflexivity.
  Qed.
End OldSel.

(* the message of a trie has such position bitmaps *)
Lemma new_bm_sel_ok sizes ps : new_bm (step_to_pos 0 sizes) 0 S32 = Val ps -> sel_ok ps.
Proof.
  intros E0. destruct (step_to_pos_sorted_le sizes 0) as [Hsle _].
  destruct (new_bm_sorted (step_to_pos 0 sizes) 0 S32 Hsle) as (ws & E & _ & O & _).
  rewrite E in E0. injection E0 as <-. exists ws. split; [exact O|reflexivity].
Qed.

Lemma encoded_pos_ok T M : encode_trie T = Val M -> pos_ok M.
Proof.
  unfold encode_trie. destruct (t_root T) as [r|]; [|intros [= <-]; split; exact I].
  intros Em. destruct (encode_msg_parts _ _ _ _ _ Em) as (Hip & Hlp & _). split.
  - destruct (t_innerpfx T).
    + destruct Hip as (n & ppres & pos & Epos & ->). cbn [vl_ok v_position]. eapply new_bm_sel_ok; exact Epos.
    + destruct Hip as (v & -> & Hv). cbn [vl_ok]. rewrite Hv. exact I.
  - destruct (t_leafpfx T).
    + destruct Hlp as (pres & pos & Epos & ->). cbn [vl_ok v_position]. eapply new_bm_sel_ok; exact Epos.
    + rewrite Hlp. exact I.
Qed.

Lemma built_encodes o keys vals T : build o keys vals = Ok T ->
  exists M vs, encode_trie T = Val M /\ init_vars M = Val vs.
Proof.
  intros Hb. destruct (t_root T) as [r|] eqn:Hr.
  - destruct (built_trie_refinement o keys vals T r Hb Hr) as (m & vs & Em & Ev & _). eauto.
  - unfold encode_trie. rewrite Hr. eexists _, _. split; reflexivity.
Qed.

(* ---------- an 0.5.10 / 0.5.11 stream of a built trie, loaded, answers like the tree ---------- *)
Theorem loaded510_answers : forall o keys vals T esize,
  build o keys vals = Ok T -> leaves_fixed esize T ->
  exists Om M L vs,
    encode_0510 T = Val Om /\ encode_trie T = Val M /\
    load510 esize Om = Ok L /\ L = old_sel_msg M /\ init_vars L = Val vs /\
    forall q fuel, (trie_height T <= fuel)%nat ->
      mgetid (S fuel) L vs q = Ok (getid T q) /\
      mget (S fuel) L vs q = get T q /\
      msearchid (S fuel) L vs q = Ok (let '(l, e, rr) := searchid T q in (oid l, oid e, oid rr)) /\
      msearch (S fuel) L vs q = search T q /\
      mrangeget (S fuel) L vs q = rangeget T q.
Proof.
  intros o keys vals T esize Hb Hlv.
  destruct (built_encodes o keys vals T Hb) as (M & vs & Em & Ev).
  destruct (conv510_built o keys vals T esize M Hb Em Hlv) as (Om & Eo & El).
  pose proof (encoded_pos_ok T M Em) as Hp.
  exists Om, M, (old_sel_msg M), vs. repeat split; try assumption; try reflexivity.
  - rewrite (mgetid_old M Hp). apply (mgetid_getid o keys vals T M vs q fuel Hb Em Ev H).
  - rewrite (mget_old M Hp). apply (mget_get o keys vals T M vs q fuel Hb Em Ev H).
  - rewrite (msearchid_old M Hp). apply (msearchid_searchid o keys vals T M vs q fuel Hb Em Ev H).
  - rewrite (msearch_old M Hp). apply (msearch_search o keys vals T M vs q fuel Hb Em Ev H).
  - rewrite (mrangeget_old M Hp). apply (mrangeget_rangeget o keys vals T M vs q fuel Hb Em Ev H).
Qed.

(* ---------- the hypothesis on the leaves holds for fixed-size values ---------- *)
Lemma built_leaves_fixed : forall o keys vals T esize,
  build o keys vals = Ok T ->
  match vals with
  | Some vs => length vs = length keys /\ Forall (fun v => blen v = esize) vs
  | None => True
  end ->
  leaves_fixed esize T.
Proof.
  intros o keys vals T esize Hb Hv. unfold leaves_fixed.
  destruct keys as [|k0 kr] eqn:Ek.
  - destruct (BuildProofs.build_ok _ _ _ _ Hb) as [[_ ->]|(r & lidx & B)]; [exact I|].
    exfalso. exact (BuildProofs.bt_nonempty _ _ _ _ _ _ B eq_refl).
  - rewrite <- Ek in *.
    destruct (GetIntProofs.build_ok_lidx o keys vals T Hb ltac:(rewrite Ek; discriminate)) as (r & lidx & B & Hl).
    rewrite (BuildProofs.bt_leaves _ _ _ _ _ _ B). unfold select_leaves.
    destruct vals as [vs|]; [|exact I]. destruct Hv as [Hlen Hall].
    destruct (total_size _ =? 0)%nat; [exact I|].
    rewrite Forall_map. revert Hl. apply Forall_impl. intros i Hi.
    rewrite Forall_forall in Hall. apply Hall. apply nth_In. lia.
Qed.
