(* TrieInv.v - the structural invariant of built tries: [trie_of o t s] says that
   tree [t] is what newSlim builds for the key subset [s]; [SubInv s] is the
   invariant of subsets on the BFS queue. *)
From Slim Require Import Base Keys KeysProofs ListFacts Model.
From Coq Require Import Sorting.Sorted ZifyNat ZifyBool.

Arguments Nat.div : simpl never.
Arguments Nat.modulo : simpl never.

(* ---------- induction over trees ---------- *)
Lemma tree_ind' (P : tree -> Prop) :
  (forall id ord tail eidx, P (Leaf id ord tail eidx)) ->
  (forall id big step pfx fc ch, Forall (fun p => P (snd p)) ch -> P (Inner id big step pfx fc ch)) ->
  forall t, P t.
Proof.
  intros HL HI. fix IH 1. intros [id ord tail eidx|id big step pfx fc ch]; [apply HL|].
  apply HI. induction ch as [|[x c] r IHr]; constructor; [apply IH|exact IHr].
Qed.

(* ---------- subsets ---------- *)
Definition ent_ok (e : ent) : Prop := e_nibs e = nibs (e_key e).
Definition ent_lt (a b : ent) : Prop := lex_cmp (e_nibs a) (e_nibs b) = Lt.

Record SubInv (s : subset) : Prop := {
  si_ok : Forall ent_ok (s_ents s);
  si_sorted : StronglySorted ent_lt (s_ents s);
  si_prefix : forall a b, In a (s_ents s) -> In b (s_ents s) ->
                          firstn (s_from s) (e_nibs a) = firstn (s_from s) (e_nibs b);
  si_len : forall a, In a (s_ents s) -> s_from s <= length (e_nibs a);
  si_kept : exists e, In e (s_ents s) /\ e_keep e = true
}.

Lemma ent_ok_lt16 e : ent_ok e -> Forall (fun x => x < 16) (e_nibs e).
Proof. intros H. rewrite H. apply nibs_lt. Qed.

Lemma ent_ok_even e : ent_ok e -> Nat.even (length (e_nibs e)) = true.
Proof. intros H. rewrite H, nibs_length. apply Nat.even_spec. exists (length (e_key e)). lia. Qed.

(* ---------- the relation between trees and subsets ---------- *)
Definition kids_match (P : tree -> subset -> Prop) : list (nat * tree) -> list subset -> Prop :=
  fix all2 ch kids :=
    match ch, kids with
    | [], [] => True
    | (_, c) :: ch', k :: kids' => P c k /\ all2 ch' kids'
    | _, _ => False
    end.

Fixpoint trie_of (o : opts) (t : tree) (s : subset) {struct t} : Prop :=
  match t with
  | Leaf id ord tail eidx =>
      exists e, s_ents s = [e] /\ tail = leaf_tail o e (s_from s) /\ eidx = e_idx e
  | Inner id big step pfx fc ch =>
      exists isbig labels kids b',
        process_subset o isbig s = Ok (DInner big step pfx labels kids, b') /\
        map fst ch = labels /\
        kids_match (trie_of o) ch kids
  end.

Lemma kids_match_Forall2 P ch kids : kids_match P ch kids <-> Forall2 P (map snd ch) kids.
Proof.
  revert kids; induction ch as [|[x c] ch IH]; intros [|k kids]; cbn.
  - split; [constructor|trivial].
  - split; [intros []|intros H; inversion H].
  - split; [intros []|intros H; inversion H].
  - rewrite IH. split; [intros [H1 H2]; constructor; assumption|intros H; inversion H; subst; split; assumption].
Qed.

Lemma kids_match_length P ch kids : kids_match P ch kids -> length ch = length kids.
Proof. intros H. apply kids_match_Forall2 in H. apply Forall2_length_eq in H. rewrite map_length in H. exact H. Qed.

Lemma kids_match_nth P ch kids n x c k :
  kids_match P ch kids -> nth_error ch n = Some (x, c) -> nth_error kids n = Some k -> P c k.
Proof.
  intros H Hc Hk. apply kids_match_Forall2 in H.
  eapply Forall2_nth; [exact H| |exact Hk]. rewrite nth_error_map, Hc. reflexivity.
Qed.

(* ---------- process_subset, inverted ---------- *)
Definition sub_ws (s : subset) : nat :=
  let diffs := adj_lcps (map e_nibs (s_ents s)) in list_min (hd 0 diffs) diffs.
Definition sub_w (big : bool) (s : subset) : nat := if big then even_down (sub_ws s) else sub_ws s.

Lemma process_inner_inv o isbig s big step pfx labels kids b' :
  process_subset o isbig s = Ok (DInner big step pfx labels kids, b') ->
  let w := sub_w big s in
  (exists e0 e1 r, s_ents s = e0 :: e1 :: r /\
     pfx = (if o_inner o && (0 <? w - s_from s)
            then Some (firstn (w - even_down (s_from s)) (skipn (even_down (s_from s)) (e_nibs e0)))
            else None)) /\
  s_from s <= w /\
  labels = dedup_adj (map (ent_label big w) (filter e_keep (s_ents s))) /\
  kids = split_kids big w labels (s_ents s) /\
  step = (if o_inner o then 0 else w - s_from s) /\
  (o_inner o = false -> (N.of_nat (w - s_from s) <= max_step)%N) /\
  (big = true -> isbig = true).
Proof.
  unfold process_subset, sub_w, sub_ws.
  destruct (s_ents s) as [|e0 [|e1 r]] eqn:E; try discriminate.
  cbv zeta.
  set (diffs := adj_lcps (map e_nibs (e0 :: e1 :: r))).
  set (ws := list_min (hd 0 diffs) diffs).
  set (big0 := isbig && (big_threshold <? 1 + length (filter (fun d => d <? even_down ws + 2) diffs))).
  set (w0 := if big0 then even_down ws else ws).
  destruct (w0 <? s_from s) eqn:Ew; [discriminate|].
  destruct (negb (o_inner o) && (max_step <? N.of_nat (w0 - s_from s))%N) eqn:Es; [discriminate|].
  intros H. inversion H; subst big step pfx labels kids b'. clear H.
  fold w0. repeat split.
  - exists e0, e1, r. split; reflexivity.
  - apply Nat.ltb_ge in Ew. exact Ew.
  - intros Hi. rewrite Hi in Es. cbn in Es. apply N.ltb_ge in Es. exact Es.
  - unfold big0. intros Hb. apply andb_true_iff in Hb. tauto.
Qed.

Lemma process_leaf_inv o isbig s tail eidx b' :
  process_subset o isbig s = Ok (DLeaf tail eidx, b') ->
  exists e, s_ents s = [e] /\ tail = leaf_tail o e (s_from s) /\ eidx = e_idx e.
Proof.
  unfold process_subset. destruct (s_ents s) as [|e0 [|e1 r]]; try discriminate.
  - intros H. inversion H. exists e0. auto.
  - cbv zeta. repeat match goal with |- context [if ?c then _ else _] => destruct c end; discriminate.
Qed.

(* ---------- agreement on the common prefix ---------- *)
Lemma adj_lcps_agree n (l : list (list nat)) :
  Forall (fun d => n <= d) (adj_lcps l) ->
  forall a b, In a l -> In b l -> firstn n a = firstn n b.
Proof.
  intros Hf.
  assert (forall x, hd_error l = Some x -> forall a, In a l -> firstn n a = firstn n x) as Hhd.
  { induction l as [|x l IH]; [intros ? [=]|].
    intros x0 [= <-] a Ha. destruct Ha as [<-|Ha]; [reflexivity|].
    destruct l as [|y l']; [destruct Ha|].
    cbn [adj_lcps] in Hf. inversion Hf as [|? ? Hxy Hf']; subst.
    transitivity (firstn n y).
    - apply (IH Hf' y eq_refl a Ha).
    - symmetry. apply lcp_firstn. exact Hxy. }
  intros a b Ha Hb. destruct l as [|x l]; [destruct Ha|].
  rewrite (Hhd x eq_refl a Ha), (Hhd x eq_refl b Hb). reflexivity.
Qed.

Lemma adj_lcps_len n (l : list (list nat)) :
  2 <= length l -> Forall (fun d => n <= d) (adj_lcps l) -> forall a, In a l -> n <= length a.
Proof.
  induction l as [|x l IH]; cbn [length]; [lia|].
  intros Hl Hf a Ha. destruct l as [|y l']; [cbn in Hl; lia|].
  cbn [adj_lcps] in Hf. inversion Hf as [|? ? Hxy Hf']; subst.
  destruct Ha as [<-|Ha].
  - pose proof (lcp_le_l x y). lia.
  - destruct l' as [|z l''].
    + destruct Ha as [<-|[]]. pose proof (lcp_le_r x y). lia.
    + apply IH; [cbn; lia|exact Hf'|exact Ha].
Qed.

Lemma sub_ws_le s : Forall (fun d => sub_ws s <= d) (adj_lcps (map e_nibs (s_ents s))).
Proof. unfold sub_ws. cbv zeta. apply list_min_le. Qed.

Lemma sub_w_le big s : sub_w big s <= sub_ws s.
Proof. unfold sub_w. destruct big; [apply even_down_le|lia]. Qed.

Lemma sub_w_agree big s a b :
  In a (s_ents s) -> In b (s_ents s) ->
  firstn (sub_w big s) (e_nibs a) = firstn (sub_w big s) (e_nibs b).
Proof.
  intros Ha Hb. apply (adj_lcps_agree (sub_w big s) (map e_nibs (s_ents s))).
  - eapply Forall_impl; [|apply sub_ws_le]. intros d Hd. cbn beta in Hd. pose proof (sub_w_le big s). lia.
  - apply in_map; exact Ha.
  - apply in_map; exact Hb.
Qed.

Lemma sub_w_len big s a :
  2 <= length (s_ents s) -> In a (s_ents s) -> sub_w big s <= length (e_nibs a).
Proof.
  intros Hl Ha. apply (adj_lcps_len (sub_w big s) (map e_nibs (s_ents s))).
  - rewrite map_length. exact Hl.
  - eapply Forall_impl; [|apply sub_ws_le]. intros d Hd. cbn beta in Hd. pose proof (sub_w_le big s). lia.
  - apply in_map; exact Ha.
Qed.

Lemma sub_w_even s : Nat.even (sub_w true s) = true.
Proof. apply even_down_even. Qed.

(* ---------- labels are monotone along a subset ---------- *)
Lemma labels_mono big s :
  SubInv s -> 2 <= length (s_ents s) ->
  StronglySorted (fun a b => ent_label big (sub_w big s) a <= ent_label big (sub_w big s) b) (s_ents s).
Proof.
  intros I Hl. eapply SS_impl; [|apply (si_sorted s I)].
  intros a b Ha Hb Hlt. unfold ent_label.
  pose proof (si_ok s I) as Hok. rewrite Forall_forall in Hok.
  apply label_mono; [apply ent_ok_lt16; auto|apply ent_ok_lt16; auto|apply sub_w_agree; assumption|exact Hlt].
Qed.

(* ---------- split_kids computes the filter by label ---------- *)
Section Split.
  Variables (big : bool) (w : nat).
  Local Notation lab := (ent_label big w).

  Lemma split_kids_spec labels es :
    StronglySorted (fun a b => lab a <= lab b) es ->
    StronglySorted lt labels ->
    (forall lb, In lb labels -> exists e, In e es /\ lab e = lb) ->
    split_kids big w labels es =
    map (fun lb => {| s_ents := filter (fun e => Nat.eqb (lab e) lb) es; s_from := w + label_width big lb |}) labels.
  Proof.
    revert es; induction labels as [|lb r IH]; intros es Hmono Hasc Hocc; [reflexivity|].
    cbn [split_kids map].
    set (same := fun e => Nat.eqb (lab e) lb).
    set (nsame := fun e => negb (Nat.eqb (lab e) lb)).
    pose proof (take_drop_while nsame es) as Hsplit1.
    destruct (drop_while nsame es) as [|e rest] eqn:Ed.
    { (* impossible: lb occurs in es *)
      exfalso. destruct (Hocc lb (or_introl eq_refl)) as (e & He & Hle).
      apply drop_while_nil in Ed. rewrite Forall_forall in Ed. specialize (Ed e He).
      unfold nsame, same in Ed. rewrite Hle, Nat.eqb_refl in Ed. discriminate. }
    assert (same e = true) as Hse.
    { apply drop_while_head in Ed. unfold nsame in Ed. unfold same. destruct (lab e =? lb); [reflexivity|discriminate]. }
    pose proof (take_drop_while same rest) as Hsplit2.
    pose proof (take_while_all nsame es) as HallA.
    pose proof (take_while_all same rest) as HallB.
    assert (forall c C', drop_while same rest = c :: C' -> same c = false) as HheadC
      by (intros c C' Hc; eapply drop_while_head; exact Hc).
    remember (take_while nsame es) as A eqn:EA.
    remember (take_while same rest) as B eqn:EB.
    remember (drop_while same rest) as C eqn:EC.
    clear EA EB EC.
    assert (es = A ++ (e :: B) ++ C) as Hes.
    { rewrite <- Hsplit1. cbn [app]. rewrite Hsplit2. reflexivity. }
    clear Hsplit1 Hsplit2 Ed.
    (* order facts *)
    rewrite Hes in Hmono. apply SS_app_inv in Hmono. destruct Hmono as (HA & HBC & HABC).
    apply SS_app_inv in HBC. destruct HBC as (HB & HC & HBC').
    assert (Forall (fun x => lab x < lb) A) as HAlt.
    { rewrite Forall_forall. intros x Hx.
      assert (lab x <= lab e) as H1 by (apply HABC; [exact Hx|apply in_or_app; left; left; reflexivity]).
      cbn beta in H1. rewrite Forall_forall in HallA.
      specialize (HallA x Hx). unfold nsame, same in HallA, Hse.
      apply Nat.eqb_eq in Hse. destruct (Nat.eqb_spec (lab x) lb); [discriminate|]. lia. }
    assert (Forall (fun x => lab x = lb) (e :: B)) as HBeq.
    { constructor; [apply Nat.eqb_eq; exact Hse|].
      eapply Forall_impl; [|exact HallB]. intros x Hx. apply Nat.eqb_eq. exact Hx. }
    assert (Forall (fun x => lb < lab x) C) as HCgt.
    { destruct C as [|c C']; [constructor|].
      assert (same c = false) as Hc by (eapply HheadC; reflexivity).
      assert (lb <= lab c) as H1.
      { apply Nat.eqb_eq in Hse. rewrite <- Hse. apply (HBC' e c); [left; reflexivity|left; reflexivity]. }
      assert (lb < lab c) as H2.
      { unfold same in Hc. destruct (Nat.eqb_spec (lab c) lb); [discriminate|]. lia. }
      constructor; [exact H2|].
      inversion HC as [|? ? _ Hf]; subst. eapply Forall_impl; [|exact Hf]. cbn. intros x Hx. lia. }
    (* the head subset *)
    assert (filter same es = e :: B) as Hfil.
    { rewrite Hes, !filter_app.
      rewrite (filter_all_false same A).
      2:{ eapply Forall_impl; [|exact HAlt]. intros x Hx. cbn beta in Hx. unfold same. apply Nat.eqb_neq. lia. }
      rewrite (filter_all_true same (e :: B)).
      2:{ eapply Forall_impl; [|exact HBeq]. intros x Hx. cbn beta in Hx. unfold same. apply Nat.eqb_eq. exact Hx. }
      rewrite (filter_all_false same C).
      2:{ eapply Forall_impl; [|exact HCgt]. intros x Hx. cbn beta in Hx. unfold same. apply Nat.eqb_neq. lia. }
      rewrite app_nil_r. reflexivity. }
    f_equal.
    - rewrite Hfil. reflexivity.
    - (* the remaining labels only see C *)
      apply StronglySorted_inv in Hasc. destruct Hasc as [Hasc' Hgt]. rewrite Forall_forall in Hgt.
      rewrite (IH C HC Hasc').
      + apply map_ext_in. intros lb' Hlb'. f_equal.
        specialize (Hgt lb' Hlb').
        rewrite Hes, !filter_app.
        rewrite (filter_all_false _ A).
        2:{ eapply Forall_impl; [|exact HAlt]. intros x Hx. apply Nat.eqb_neq. cbn in Hx. lia. }
        rewrite (filter_all_false _ (e :: B)).
        2:{ eapply Forall_impl; [|exact HBeq]. intros x Hx. apply Nat.eqb_neq. cbn in Hx. lia. }
        reflexivity.
      + intros lb' Hlb'. specialize (Hgt lb' Hlb').
        destruct (Hocc lb' (or_intror Hlb')) as (x & Hx & Hlx).
        exists x. split; [|exact Hlx].
        rewrite Hes in Hx. apply in_app_or in Hx. destruct Hx as [Hx|Hx].
        { rewrite Forall_forall in HAlt. specialize (HAlt x Hx). lia. }
        apply in_app_or in Hx. destruct Hx as [Hx|Hx]; [|exact Hx].
        rewrite Forall_forall in HBeq. specialize (HBeq x Hx). lia.
  Qed.
End Split.

(* ---------- what an inner node of a valid subset looks like ---------- *)
Record InnerFacts (o : opts) (s : subset) (big : bool) (labels : list nat) (kids : list subset) : Prop := {
  if_two : 2 <= length (s_ents s);
  if_w : s_from s <= sub_w big s;
  if_labels : labels = dedup_adj (map (ent_label big (sub_w big s)) (filter e_keep (s_ents s)));
  if_asc : StronglySorted lt labels;
  if_kids : kids = map (fun lb => {| s_ents := filter (fun e => Nat.eqb (ent_label big (sub_w big s) e) lb) (s_ents s);
                                     s_from := sub_w big s + label_width big lb |}) labels;
  if_nonempty : labels <> []
}.

Lemma inner_facts o isbig s big step pfx labels kids b' :
  SubInv s ->
  process_subset o isbig s = Ok (DInner big step pfx labels kids, b') ->
  InnerFacts o s big labels kids.
Proof.
  intros I H. pose proof (process_inner_inv _ _ _ _ _ _ _ _ _ H) as Hinv. cbv zeta in Hinv.
  destruct Hinv as ((e0 & e1 & r & Es & _) & Hw & Hlab & Hkids & _).
  assert (2 <= length (s_ents s)) as Htwo by (rewrite Es; cbn; lia).
  pose proof (labels_mono big s I Htwo) as Hmono.
  assert (StronglySorted lt labels) as Hasc.
  { rewrite Hlab. apply dedup_adj_sorted.
    eapply (SS_map (fun a b => ent_label big (sub_w big s) a <= ent_label big (sub_w big s) b)); [intros ? ? Hxy; exact Hxy|].
    apply SS_filter. exact Hmono. }
  assert (forall lb, In lb labels -> exists e, In e (s_ents s) /\ e_keep e = true /\ ent_label big (sub_w big s) e = lb) as Hocc.
  { intros lb Hlb. rewrite Hlab in Hlb. apply (proj1 (dedup_adj_In _ _)) in Hlb. apply in_map_iff in Hlb.
    destruct Hlb as (e & He & Hin). apply filter_In in Hin. exists e. tauto. }
  constructor; try assumption.
  - rewrite Hkids. apply split_kids_spec; [exact Hmono|exact Hasc|].
    intros lb Hlb. destruct (Hocc lb Hlb) as (e & ? & ? & ?). exists e. tauto.
  - rewrite Hlab. apply dedup_adj_nonempty.
    destruct (si_kept s I) as (e & He & Hk).
    intros E. assert (In (ent_label big (sub_w big s) e) (map (ent_label big (sub_w big s)) (filter e_keep (s_ents s)))) as Hin.
    { apply in_map. apply filter_In. tauto. }
    rewrite E in Hin. exact Hin.
Qed.

(* the child subset of a label, and its invariant *)
Lemma kid_inv o s big labels kids lb :
  SubInv s -> InnerFacts o s big labels kids -> In lb labels ->
  SubInv {| s_ents := filter (fun e => Nat.eqb (ent_label big (sub_w big s) e) lb) (s_ents s);
            s_from := sub_w big s + label_width big lb |}.
Proof.
  intros I F Hlb. set (w := sub_w big s).
  pose proof (si_ok s I) as Hok. rewrite Forall_forall in Hok.
  constructor; cbn [s_ents s_from].
  - rewrite Forall_forall. intros e He. apply filter_In in He. apply Hok. tauto.
  - apply SS_filter. apply (si_sorted s I).
  - intros a b Ha Hb. apply filter_In in Ha, Hb. destruct Ha as [Ha La], Hb as [Hb Lb].
    apply Nat.eqb_eq in La, Lb.
    destruct lb as [|lb'].
    + cbn [label_width]. rewrite Nat.add_0_r. apply sub_w_agree; assumption.
    + cbn [label_width].
      apply (label_eq_firstn big (e_nibs a) (e_nibs b) w).
      * apply ent_ok_lt16; auto.
      * apply ent_ok_lt16; auto.
      * apply sub_w_agree; assumption.
      * intros ->. pose proof (sub_w_even s). fold w in H.
        pose proof (ent_ok_even a (Hok a Ha)). pose proof (ent_ok_even b (Hok b Hb)).
        pose proof (sub_w_len true s a (if_two _ _ _ _ _ F) Ha). pose proof (sub_w_len true s b (if_two _ _ _ _ _ F) Hb).
        fold w in H2, H3. rewrite !Nat.even_sub by assumption. rewrite H, H0, H1. split; reflexivity.
      * unfold ent_label in La, Lb. fold w. congruence.
      * unfold ent_label in La. fold w. lia.
  - intros a Ha. apply filter_In in Ha. destruct Ha as [Ha La]. apply Nat.eqb_eq in La.
    pose proof (sub_w_len big s a (if_two _ _ _ _ _ F) Ha) as Hlen. fold w in Hlen.
    destruct lb as [|lb'].
    + cbn [label_width]. lia.
    + cbn [label_width].
      assert (In a (s_ents s)) as Ha' by exact Ha.
      pose proof (label_eq_firstn big (e_nibs a) (e_nibs a) w (ent_ok_lt16 a (Hok a Ha)) (ent_ok_lt16 a (Hok a Ha)) eq_refl) as Hx.
      destruct Hx as (_ & Hx & _); [| reflexivity | unfold ent_label in La; fold w; lia | exact Hx].
      intros ->. pose proof (sub_w_even s). fold w in H. pose proof (ent_ok_even a (Hok a Ha)).
      rewrite !Nat.even_sub by assumption. rewrite H, H0. split; reflexivity.
  - rewrite (if_labels _ _ _ _ _ F) in Hlb. apply (proj1 (dedup_adj_In _ _)) in Hlb. apply in_map_iff in Hlb.
    destruct Hlb as (e & He & Hin). apply filter_In in Hin. exists e. split; [|tauto].
    apply filter_In. split; [tauto|]. apply Nat.eqb_eq. exact He.
Qed.

Lemma kids_inv o s big labels kids k :
  SubInv s -> InnerFacts o s big labels kids -> In k kids -> SubInv k.
Proof.
  intros I F Hk. rewrite (if_kids _ _ _ _ _ F) in Hk. apply in_map_iff in Hk.
  destruct Hk as (lb & <- & Hlb). eapply kid_inv; eassumption.
Qed.

(* a kept entry lies in the child of its own label *)
Lemma kept_member o s big labels kids e :
  SubInv s -> InnerFacts o s big labels kids -> In e (s_ents s) -> e_keep e = true ->
  exists n k, nth_error labels n = Some (ent_label big (sub_w big s) e) /\
              nth_error kids n = Some k /\ In e (s_ents k) /\
              s_from k = sub_w big s + label_width big (ent_label big (sub_w big s) e).
Proof.
  intros I F He Hk. set (lb := ent_label big (sub_w big s) e).
  assert (In lb labels) as Hlb.
  { rewrite (if_labels _ _ _ _ _ F). apply (proj2 (dedup_adj_In _ _)). apply in_map. apply filter_In. tauto. }
  apply In_nth_error in Hlb. destruct Hlb as (n & Hn). exists n.
  exists {| s_ents := filter (fun e0 => Nat.eqb (ent_label big (sub_w big s) e0) lb) (s_ents s);
            s_from := sub_w big s + label_width big lb |}.
  split; [exact Hn|]. split.
  - rewrite (if_kids _ _ _ _ _ F). rewrite nth_error_map, Hn. reflexivity.
  - cbn [s_ents s_from]. split; [|reflexivity]. apply filter_In. split; [exact He|]. apply Nat.eqb_refl.
Qed.

(* the child for the end-of-key label holds exactly one entry *)
Lemma label0_singleton o s big labels kids k n :
  SubInv s -> InnerFacts o s big labels kids ->
  nth_error labels n = Some 0 -> nth_error kids n = Some k -> exists e, s_ents k = [e].
Proof.
  intros I F Hn Hk. rewrite (if_kids _ _ _ _ _ F) in Hk. rewrite nth_error_map, Hn in Hk. cbn in Hk.
  inversion Hk; subst k. cbn [s_ents]. clear Hk.
  set (w := sub_w big s).
  assert (forall a, In a (filter (fun e => ent_label big w e =? 0) (s_ents s)) -> length (e_nibs a) = w) as Hlen.
  { intros a Ha. apply filter_In in Ha. destruct Ha as [Ha La]. apply Nat.eqb_eq in La.
    symmetry. apply (label_zero_iff big (e_nibs a) w); [|exact La].
    apply sub_w_len; [apply (if_two _ _ _ _ _ F)|exact Ha]. }
  pose proof (SS_filter ent_lt (fun e => ent_label big w e =? 0) (s_ents s) (si_sorted s I)) as Hs.
  assert (In 0 labels) as H0 by (eapply nth_error_In; exact Hn).
  pose proof (kid_inv o s big labels kids 0 I F H0) as Ik. destruct (si_kept _ Ik) as (e & He & _). cbn [s_ents] in He. fold w in He.
  destruct (filter (fun e => ent_label big w e =? 0) (s_ents s)) as [|a [|b r]] eqn:Ef; [destruct He|exists a; reflexivity|].
  exfalso. inversion Hs as [|? ? _ Hf]; subst. inversion Hf as [|? ? Hab _]; subst.
  assert (firstn w (e_nibs a) = firstn w (e_nibs b)) as Hag.
  { assert (In a (s_ents s) /\ In b (s_ents s)) as [Ha Hb].
    { split; [apply (proj1 (filter_In (fun e => ent_label big w e =? 0) a (s_ents s)))|apply (proj1 (filter_In (fun e => ent_label big w e =? 0) b (s_ents s)))]; rewrite Ef; cbn; auto. }
    apply sub_w_agree; assumption. }
  pose proof (Hlen a (or_introl eq_refl)) as La. pose proof (Hlen b (or_intror (or_introl eq_refl))) as Lb.
  assert (e_nibs a = e_nibs b) as Eab.
  { rewrite <- (firstn_all (e_nibs a)), <- (firstn_all (e_nibs b)), La, Lb. exact Hag. }
  unfold ent_lt in Hab. rewrite Eab, lex_cmp_refl in Hab. discriminate.
Qed.
