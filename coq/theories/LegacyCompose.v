(* LegacyCompose.v - what the trie theorems say about a legacy-loaded trie.
   By the node-view correspondence of check C06 a trie loaded from a three-array
   stream (0.5.0-0.5.9) is [build_gen false o keys vals] with
   o = {dedup := false; inner := false; leaf := false} (the conversion runs the
   creator with isBig = false), and a trie loaded from a 0.5.10/0.5.11 stream is
   [build_gen true o keys vals] with the stream's prefix options and dedup := false.
   On every such trie every indexed key is answered exactly. *)
From Slim Require Import Base Keys KeysProofs ListFacts Model TrieInv BuildProofs QueryProofs ConsistProofs OrderProofs SearchProofs StatProofs.

Lemma all_retained o keys vals i : o_dedup o = false -> i < length keys -> retained o keys vals i = true.
Proof.
  intros Hd Hi. pose proof (retained_spec o keys vals i Hi) as H. destruct vals as [vs|]; [|exact H].
  unfold retained, to_keep. rewrite Hd.
  destruct (nth_in_or_default i (repeat true (length keys)) true) as [H1|H1]; [apply repeat_spec in H1|]; exact H1.
Qed.

Lemma retained_idx_all o keys vals : o_dedup o = false -> retained_idx o keys vals = List.seq 0 (length keys).
Proof.
  intros Hd. unfold retained_idx. apply filter_all_true. rewrite Forall_forall. intros i Hi. apply in_seq in Hi.
  apply all_retained; [exact Hd|lia].
Qed.

Lemma seq_split_at n i : i < n -> List.seq 0 n = List.seq 0 i ++ i :: List.seq (S i) (n - S i).
Proof.
  intros Hi. replace n with (i + S (n - S i)) at 1 by lia. rewrite seq_app. cbn [List.seq Nat.add]. reflexivity.
Qed.

Lemma last_seq i : last_opt (List.seq 0 i) = match i with 0 => None | S j => Some j end.
Proof.
  destruct i as [|j]; [reflexivity|]. replace (S j) with (j + 1) by lia. rewrite seq_app. cbn [List.seq Nat.add].
  rewrite last_opt_app by discriminate. reflexivity.
Qed.

Theorem legacy_answers b o keys vs T i k :
  o_dedup o = false -> length vs = length keys ->
  build_gen b o keys (Some vs) = Ok T -> nth_error keys i = Some k ->
  (exists id, getid T k = Some id) /\
  (exists v, get T k = Ok (Found v) /\ val_bytes v = nth i vs []) /\
  (exists v, rangeget T k = Ok (Found v) /\ val_bytes v = nth i vs []) /\
  search T k = Ok (match i with 0 => None | S j => Some (stored T (Some vs) j) end,
                   Some (stored T (Some vs) i),
                   if S i <? length keys then Some (stored T (Some vs) (S i)) else None).
Proof.
  intros Hd Hl Hb Hk.
  assert (i < length keys) as Hi by (apply nth_error_Some; rewrite Hk; discriminate).
  pose proof (all_retained o keys (Some vs) i Hd Hi) as Hr.
  destruct (kept_key_found_gen b o keys (Some vs) T i k Hb Hk Hr) as (Hid & v & Hg & Hv & _).
  destruct (rangeget_indexed_gen b o keys (Some vs) T i k Hb Hk Hl) as (v2 & Hrg & Hv2 & _).
  split; [exact Hid|]. split; [exists v; split; [exact Hg|exact Hv]|]. split; [exists v2; split; [exact Hrg|exact Hv2]|].
  rewrite (search_retained_gen b o keys (Some vs) T i k (List.seq 0 i) (List.seq (S i) (length keys - S i)) Hb Hk).
  - rewrite last_seq. f_equal. f_equal; [destruct i; reflexivity|].
    destruct (Nat.ltb_spec (S i) (length keys)) as [H|H].
    + replace (length keys - S i) with (S (length keys - S (S i))) by lia. reflexivity.
    + replace (length keys - S i) with 0 by lia. reflexivity.
  - rewrite root_kept_idx, (retained_idx_all o keys (Some vs) Hd). apply seq_split_at. exact Hi.
Qed.
