(* LegacyBytesConvProofs.v - the conversion loop (LegacyConv.convert) does not look at
   WHICH key a leaf carries: two tables that agree on labels, steps and on where the
   leaves are convert to the same node view, and their leaf lists correspond.  Applied to
   a table and its renumbering (LegacyBytes.renumbered: leaves numbered in id order, the
   values re-ordered accordingly), the loaded leaf values are the same. *)
From Coq Require Import List Arith Bool NArith ZArith Lia.
From Slim Require Import Base Keys Model LegacyConv ListFacts LegacyBytes.
Import ListNotations.
Local Open Scope nat_scope.

Section Sim.
  Variables vals lv : list (list byte).

  Definition node_sim (n n' : old_node) : Prop :=
    on_bm n' = on_bm n /\ on_step n' = on_step n /\
    match on_leaf n with
    | None => on_leaf n' = None
    | Some a => exists b, on_leaf n' = Some b /\ nth b lv [] = nth a vals []
    end.

  Definition leaf_sim (a b : nat) : Prop := nth b lv [] = nth a vals [].

  Variables ot ot' : old_trie.
  Hypothesis H : forall i, node_sim (old_at ot i) (old_at ot' i).

  Lemma conv_step_sim i : conv_step_of (old_at ot' i) = conv_step_of (old_at ot i).
  Proof. unfold conv_step_of. destruct (H i) as (_ & -> & _). reflexivity. Qed.

  Lemma conv_node_sim q nx :
    match conv_node ot q nx with
    | Ok (CLeaf a) => exists b, conv_node ot' q nx = Ok (CLeaf b) /\ leaf_sim a b
    | Ok (CInner st labels nk kids) => conv_node ot' q nx = Ok (CInner st labels nk kids)
    | Err e => conv_node ot' q nx = Err e
    end.
  Proof.
    unfold conv_node. cbv zeta. destruct (H (ce_old q)) as (Hb & _ & Hl). rewrite Hb.
    assert (is_some (on_leaf (old_at ot' (ce_old q))) = is_some (on_leaf (old_at ot (ce_old q)))) as Hs.
    { destruct (on_leaf (old_at ot (ce_old q))) as [a|]; [destruct Hl as (b & -> & _)|rewrite Hl]; reflexivity. }
    rewrite Hs.
    assert (map (fun j => {| ce_old := nx + j; ce_step := conv_step_of (old_at ot' (nx + j)); ce_leafonly := false |})
                (List.seq 0 (length (on_bm (old_at ot (ce_old q))))) =
            map (fun j => {| ce_old := nx + j; ce_step := conv_step_of (old_at ot (nx + j)); ce_leafonly := false |})
                (List.seq 0 (length (on_bm (old_at ot (ce_old q)))))) as Hk.
    { apply map_ext. intros j. rewrite conv_step_sim. reflexivity. }
    rewrite Hk.
    destruct (ce_leafonly q || (negb (negb (is_nil (on_bm (old_at ot (ce_old q))))) && is_some (on_leaf (old_at ot (ce_old q))))).
    - destruct (on_leaf (old_at ot (ce_old q))) as [a|]; [|rewrite Hl; reflexivity].
      destruct Hl as (b & -> & Hv). exists b. split; [reflexivity|exact Hv].
    - destruct (negb (negb (is_nil (on_bm (old_at ot (ce_old q)))))); reflexivity.
  Qed.

  Lemma conv_loop_sim : forall fuel queue newid nextold lord views lidx,
    conv_loop fuel ot queue newid nextold lord = Ok (views, lidx) ->
    exists lidx', conv_loop fuel ot' queue newid nextold lord = Ok (views, lidx') /\
                  Forall2 leaf_sim lidx lidx'.
  Proof.
    induction fuel as [|f IH]; intros queue newid nextold lord views lidx E.
    - destruct queue; cbn [conv_loop] in *; [|discriminate]. injection E as <- <-. exists []. split; [reflexivity|constructor].
    - destruct queue as [|q rest]; cbn [conv_loop] in *.
      { injection E as <- <-. exists []. split; [reflexivity|constructor]. }
      pose proof (conv_node_sim q nextold) as Hn.
      destruct (conv_node ot q nextold) as [[a|st labels nk kids]|e]; cbn [bind] in E; [| |discriminate].
      + destruct Hn as (b & -> & Hab). cbn [bind].
        destruct (conv_loop f ot rest (S newid) nextold (S lord)) as [[vs lf]|e] eqn:El; cbn [bind] in E; [|discriminate].
        injection E as <- <-. destruct (IH _ _ _ _ _ _ El) as (lf' & -> & Hf). cbn [bind].
        exists (b :: lf'). split; [reflexivity|constructor; assumption].
      + rewrite Hn. cbn [bind].
        destruct (conv_loop f ot (rest ++ kids) (S newid) (nextold + nk) lord) as [[vs lf]|e] eqn:El; cbn [bind] in E; [|discriminate].
        injection E as <- <-. destruct (IH _ _ _ _ _ _ El) as (lf' & -> & Hf). cbn [bind].
        exists lf'. split; [reflexivity|exact Hf].
  Qed.

  Hypothesis Hlen : length ot' = length ot.

  Lemma convert_sim : forall views lidx,
    convert ot = Ok (views, lidx) ->
    exists lidx', convert ot' = Ok (views, lidx') /\ Forall2 leaf_sim lidx lidx'.
  Proof.
    intros views lidx E. unfold convert in *.
    destruct ot as [|n r] eqn:Eo; destruct ot' as [|n' r'] eqn:Eo'; try (cbn in Hlen; discriminate).
    - injection E as <- <-. exists []. split; [reflexivity|constructor].
    - rewrite <- Eo, <- Eo' in *. rewrite Hlen, conv_step_sim. apply conv_loop_sim. exact E.
  Qed.

  Lemma select_leaves_sim : forall lidx lidx', Forall2 leaf_sim lidx lidx' ->
    select_leaves (Some lv) lidx' = select_leaves (Some vals) lidx.
  Proof.
    intros lidx lidx' Hf. unfold select_leaves.
    assert (map (fun i => nth i lv []) lidx' = map (fun i => nth i vals []) lidx) as ->; [|reflexivity].
    induction Hf as [|a b la lb Hab _ IH]; [reflexivity|]. cbn [map]. rewrite IH, Hab. reflexivity.
  Qed.
End Sim.

(* ---- a table and its renumbering ------------------------------------------------ *)
Lemma node_sim_no_node vals lv : node_sim vals lv no_node no_node.
Proof. repeat split. Qed.

Lemma table_of_sim vals : forall ot k pre ot' lv,
  table_of (map (rnode_of vals) ot) k = (ot', lv) -> length pre = k ->
  Forall2 (node_sim vals (pre ++ lv)) ot ot'.
Proof.
  induction ot as [|n r IH]; intros k pre ot' lv E Hk.
  - cbn in E. injection E as <- <-. constructor.
  - cbn [map table_of] in E. unfold rnode_of at 1 in E. cbn [rn_leaf rn_bm rn_step] in E.
    destruct (on_leaf n) as [a|] eqn:Ea.
    + destruct (table_of (map (rnode_of vals) r) (S k)) as [ot1 vs1] eqn:Et.
      injection E as <- <-. constructor.
      * split; [reflexivity|]. split; [reflexivity|]. rewrite Ea. exists k. split; [reflexivity|].
        rewrite app_nth2 by lia. replace (k - length pre) with 0 by lia. reflexivity.
      * specialize (IH (S k) (pre ++ [nth a vals []]) ot1 vs1 Et ltac:(rewrite app_length; cbn; lia)).
        rewrite <- app_assoc in IH. exact IH.
    + destruct (table_of (map (rnode_of vals) r) k) as [ot1 vs1] eqn:Et.
      injection E as <- <-. constructor.
      * split; [reflexivity|]. split; [reflexivity|]. rewrite Ea. reflexivity.
      * apply (IH k pre ot1 vs1 Et Hk).
Qed.

Lemma Forall2_old_at vals lv : forall ot ot', Forall2 (node_sim vals lv) ot ot' ->
  forall i, node_sim vals lv (old_at ot i) (old_at ot' i).
Proof.
  induction 1 as [|n n' r r' Hn _ IH]; intros i; unfold old_at in *.
  - destruct i; apply node_sim_no_node.
  - destruct i as [|i]; [exact Hn|apply IH].
Qed.

(* converting the renumbered table = converting the table, with the same loaded leaves *)
Theorem convert_renumbered : forall ot vals views lidx ot' lv,
  convert ot = Ok (views, lidx) -> renumbered ot vals = (ot', lv) ->
  exists lidx', convert ot' = Ok (views, lidx') /\
                select_leaves (Some lv) lidx' = select_leaves (Some vals) lidx.
Proof.
  intros ot vals views lidx ot' lv Ec Er. unfold renumbered in Er.
  pose proof (table_of_sim vals ot 0 [] ot' lv Er eq_refl) as Hf. cbn [app] in Hf.
  destruct (convert_sim vals lv ot ot' (Forall2_old_at _ _ _ _ Hf)
              (eq_sym (Forall2_length_eq _ _ _ Hf)) views lidx Ec) as (lidx' & E' & Hl).
  exists lidx'. split; [exact E'|]. apply select_leaves_sim. exact Hl.
Qed.
