(* LegacyConv.v - the three-array legacy trie (0.5.0 - 0.5.9) and its conversion by
   the loader (trie/slimtrie_marshal.go: before000510ToNewChildrenArray).
   Definitions only; the proofs are in LegacyConvProofs.v / LegacyConvSimProofs.v /
   LegacyConvMainProofs.v, the closing theorems in props/C06c.v.

   [old_write]  the Coq twin of the reference legacy writer harness/c06_writers.go:
                c06BuildOld (which reproduces the archived fixtures): the node table
                of the path-compressed 16-ary nibble trie in OLD node ids.
   [convert]    the queue loop of before000510ToNewChildrenArray on that table; the
                result is the node view (Model.nview, in new id order) of the trie the
                creator is fed with, plus the key indexes of the leaves in new leaf order.

   Positions and steps are counted in nibbles (Go: old steps in nibbles, new steps in
   bits = 4 * nibbles). *)
From Slim Require Import Base Keys Model.

(* ------------------------------------------------------------------ *)
(* 1. the old node table                                                *)
(* ------------------------------------------------------------------ *)

(* one old node, as the three arrays describe it at its old id:
   on_bm    children array: the nibble labels (0..15, ascending) of its children;
            [] = the id is not in the children array (not an inner node)
   on_step  steps array: the stored uint16, 0 = the id is not in the steps array
   on_leaf  leaves array: Some i = the id is in the leaves array and carries the
            value of key number i *)
Record old_node := { on_bm : list nat; on_step : nat; on_leaf : option nat }.
Definition old_trie := list old_node.      (* position = old node id *)

Definition no_node : old_node := {| on_bm := []; on_step := 0; on_leaf := None |}.

(* bmhas / bitmap.SafeGet1: an id beyond the bitmaps is in none of the arrays *)
Definition old_at (ot : old_trie) (i : nat) : old_node := nth i ot no_node.

(* the old first-child numbering: the children of the inner nodes are numbered
   consecutively in id order, starting at 1 (<= 0.5.3 stores it in the high half of
   the children element; the loader recomputes it: nextOldID) *)
Fixpoint old_first_children (next : nat) (ot : old_trie) : list (option nat) :=
  match ot with
  | [] => []
  | n :: r =>
      match on_bm n with
      | [] => None :: old_first_children next r
      | _ => Some next :: old_first_children (next + length (on_bm n)) r
      end
  end.

(* ------------------------------------------------------------------ *)
(* 2. the reference writer (c06BuildOld)                                *)
(* ------------------------------------------------------------------ *)

Definition nib_at (p : nat) (e : ent) : nat := nth p (e_nibs e) 0.

(* the inner loop of c06BuildOld: maximal runs of adjacent keys with the same
   nibble at position p *)
Fixpoint old_runs (p : nat) (es : list ent) : list (nat * list ent) :=
  match es with
  | [] => []
  | e :: r =>
      match old_runs p r with
      | (nb, g) :: gs =>
          if Nat.eqb (nib_at p e) nb then (nb, e :: g) :: gs
          else (nib_at p e, [e]) :: (nb, g) :: gs
      | [] => [(nib_at p e, [e])]
      end
  end.

(* addStep: stored only when > 1 *)
Definition stored_step (st : nat) : nat := if 1 <? st then st else 0.

(* one queue entry of c06BuildOld.  [s_from s] is the writer's [from]: one more than
   the position of the nibble the parent branches on (0 for the root), so that
   p - (from - 1) = p + 1 - from.  [ls]: the 0.5.0 layout also stores a step on
   leaves (distance to the end of the key). *)
Definition old_process (ls : bool) (s : subset) : res (old_node * list subset) :=
  match s_ents s with
  | [] => Err (EPanic 640)                 (* never queued *)
  | [e] =>
      Ok ({| on_bm := [];
             on_step := if ls then stored_step (length (e_nibs e) + 1 - s_from s) else 0;
             on_leaf := Some (e_idx e) |}, [])
  | e0 :: rest =>
      let diffs := adj_lcps (map e_nibs (s_ents s)) in
      (* longest common prefix of the subset: c06BuildOld takes lcp(first key, last key),
         which for ascending keys is the minimum over adjacent pairs (sigbits, as newSlim) *)
      let p := list_min (hd 0 diffs) diffs in
      let ends := Nat.eqb (length (e_nibs e0)) p in    (* the first key ends at p: stored on this node *)
      let runs := old_runs p (if ends then rest else s_ents s) in
      Ok ({| on_bm := map fst runs;
             on_step := stored_step (p + 1 - s_from s);
             on_leaf := if ends then Some (e_idx e0) else None |},
          map (fun r => {| s_ents := snd r; s_from := p + 1 |}) runs)
  end.

Fixpoint old_level (ls : bool) (ss : list subset) : res (list old_node * list subset) :=
  match ss with
  | [] => Ok ([], [])
  | s :: r =>
      do (n, k) <- old_process ls s;
      do (ns, ks) <- old_level ls r;
      Ok (n :: ns, k ++ ks)
  end.

(* the queue of c06BuildOld, one breadth-first level at a time *)
Fixpoint old_levels (fuel : nat) (ls : bool) (ss : list subset) : res old_trie :=
  match ss with
  | [] => Ok []
  | _ =>
      match fuel with
      | 0 => Err EFuel
      | S f =>
          do (ns, kids) <- old_level ls ss;
          do rest <- old_levels f ls kids;
          Ok (ns ++ rest)
      end
  end.

Definition old_root (keys : list key) : subset := {| s_ents := mk_ents 0 keys []; s_from := 0 |}.

(* without the 16-bit limit of the steps array *)
Definition old_write_raw (ls : bool) (keys : list key) : res old_trie :=
  match keys with
  | [] => Ok []
  | _ => old_levels (max_nibs keys + 3) ls [old_root keys]
  end.

(* a step is a uint16 *)
Definition old_fits (ot : old_trie) : bool :=
  forallb (fun n => (N.of_nat (on_step n) <=? 65535)%N) ot.

(* c06BuildOld: the node table, or the error "step does not fit 16 bits" *)
Definition old_write (ls : bool) (keys : list key) : res old_trie :=
  do ot <- old_write_raw ls keys;
  if old_fits ot then Ok ot else Err EStepTooLong.

(* ------------------------------------------------------------------ *)
(* 3. before000510ToNewChildrenArray                                    *)
(* ------------------------------------------------------------------ *)

(* eltType *)
Record celt := { ce_old : nat; ce_step : nat; ce_leafonly : bool }.

(* getStepBefore000510, in nibbles: absent -> 0, stored v -> v - 1 (the Go code
   multiplies by 4: bits) *)
Definition conv_step_of (n : old_node) : nat := match on_step n with 0 => 0 | S k => k end.

Inductive cout :=
| CLeaf (keyidx : nat)
| CInner (step : nat) (labels : list nat) (nkids : nat) (kids : list celt).

Definition is_nil {A} (l : list A) : bool := match l with [] => true | _ => false end.
Definition is_some {A} (o : option A) : bool := match o with Some _ => true | None => false end.

(* the body of the loop for queue entry q; nextold = nextOldID.
   Sites: 641  neither in the children nor in the leaves array: must.Be.True(hasInner
               || hasLeaf || ..) - an assertion of debug builds; a release build skips
               the entry and builds an inconsistent node table.  Outside the model.
          642  leaf entry whose id is not in the leaves array (must.Be.True(found)) *)
Definition conv_node (ot : old_trie) (q : celt) (nextold : nat) : res cout :=
  let n := old_at ot (ce_old q) in
  let has_inner := negb (is_nil (on_bm n)) in
  let has_leaf := is_some (on_leaf n) in
  if ce_leafonly q || (negb has_inner && has_leaf) then
    match on_leaf n with
    | Some i => Ok (CLeaf i)                                   (* c.addLeaf(newid, lv) *)
    | None => Err (EPanic 642)
    end
  else if negb has_inner then Err (EPanic 641)
  else
    let own := if has_leaf
               then [{| ce_old := ce_old q; ce_step := 0; ce_leafonly := true |}]
               else [] in
    let kids := map (fun j => {| ce_old := nextold + j;
                                 ce_step := conv_step_of (old_at ot (nextold + j));
                                 ce_leafonly := false |})
                    (List.seq 0 (length (on_bm n))) in
    (* bm << 1, bm |= 1 when hasLeaf: label b -> b + 1, the empty label 0 first *)
    let labels := (if has_leaf then [0] else []) ++ map S (on_bm n) in
    Ok (CInner (ce_step q) labels (length (on_bm n)) (own ++ kids)).

(* for newid := 0; newid < len(queue); newid++ { .. }.  [queue] is the part of the
   queue from position newid on, so len(queue) = newid + length queue; an inner node
   added at that moment gets its children right behind the current end of the queue.
   lord = number of leaves added so far (c.leaves).  The three-array streams have no
   big nodes (c.isBig = false), no stored prefixes (InnerPrefix false: the step is kept
   as a length), no leaf prefixes. *)
Fixpoint conv_loop (fuel : nat) (ot : old_trie) (queue : list celt) (newid nextold lord : nat)
  : res (list nview * list nat) :=
  match queue with
  | [] => Ok ([], [])
  | q :: rest =>
      match fuel with
      | 0 => Err EFuel
      | S f =>
          do c <- conv_node ot q nextold;
          match c with
          | CLeaf i =>
              do (vs, lf) <- conv_loop f ot rest (S newid) nextold (S lord);
              Ok (VLeaf newid lord None :: vs, i :: lf)
          | CInner st labels nk kids =>
              do (vs, lf) <- conv_loop f ot (rest ++ kids) (S newid) (nextold + nk) lord;
              Ok (VInner newid false st None (S newid + length rest) labels :: vs, lf)
          end
      end
  end.

(* the node view (new id order) and the key indexes of the leaves (new leaf order).
   An empty table is the empty trie (the loop runs once and adds nothing).  Every old
   node gives at most two new nodes. *)
Definition convert (ot : old_trie) : res (list nview * list nat) :=
  match ot with
  | [] => Ok ([], [])
  | _ => conv_loop (2 * length ot + 1) ot
           [{| ce_old := 0; ce_step := conv_step_of (old_at ot 0); ce_leafonly := false |}] 0 1 0
  end.

(* c.buildLeaves(nil) = newVLenArray(c.leaves) *)
Definition loaded_leaves (vals : list (list byte)) (lidx : list nat) : option (list (list byte)) :=
  select_leaves (Some vals) lidx.

(* ------------------------------------------------------------------ *)
(* 4. the node view of a model trie in id order                         *)
(* ------------------------------------------------------------------ *)

Definition nv_id (v : nview) : nat :=
  match v with VLeaf id _ _ => id | VInner id _ _ _ _ _ => id end.

(* the options of a three-array stream: no de-duplication, no prefixes *)
Definition legacy_opts : opts := {| o_dedup := false; o_inner := false; o_leaf := false |}.
