(* KeysProofs.v - facts about nibble views, lexicographic order, lcp and labels. *)
From Slim Require Import Base Keys.
From Coq Require Import ZifyNat ZifyN ZifyBool Sorting.Sorted.
Ltac Zify.zify_post_hook ::= Z.div_mod_to_equations.

Arguments Nat.div : simpl never.
Arguments Nat.modulo : simpl never.

Lemma cons_eq_inv {A} (a b : A) l m : a :: l = b :: m -> a = b /\ l = m.
Proof. intros H; inversion H; auto. Qed.

(* ---------- nibbles ---------- *)
Lemma byte_to_nat_lt b : Byte.to_nat b < 256.
Proof.
  pose proof (Byte.to_nat_bounded b) as H. lia.
Qed.

Lemma nibs_of_byte_lt b : Forall (fun x => x < 16) (nibs_of_byte b).
Proof.
  pose proof (byte_to_nat_lt b). unfold nibs_of_byte. constructor; [lia|constructor; [lia|constructor]].
Qed.

Lemma nibs_lt k : Forall (fun x => x < 16) (nibs k).
Proof.
  induction k as [|b k IH]; cbn [nibs flat_map]; [constructor|].
  apply Forall_app; split; [apply nibs_of_byte_lt | exact IH].
Qed.

Lemma nibs_length k : length (nibs k) = 2 * length k.
Proof.
  induction k as [|b k IH]; cbn [nibs flat_map length]; [reflexivity|].
  rewrite app_length. fold (nibs k). rewrite IH. cbn. lia.
Qed.

Lemma nibs_cons b k : nibs (b :: k) = Byte.to_nat b / 16 :: Byte.to_nat b mod 16 :: nibs k.
Proof. reflexivity. Qed.

Lemma skipn_nibs n k : skipn (2 * n) (nibs k) = nibs (skipn n k).
Proof.
  revert k; induction n as [|n IH]; intros k; [reflexivity|].
  destruct k as [|b k]; [reflexivity|].
  replace (2 * S n) with (S (S (2 * n))) by lia.
  rewrite nibs_cons. cbn [skipn]. apply IH.
Qed.

Lemma nibs_nil_inv k : nibs k = [] -> k = [].
Proof. destruct k; [reflexivity|]. rewrite nibs_cons. discriminate. Qed.

(* ---------- lex_cmp ---------- *)
Lemma lex_cmp_refl a : lex_cmp a a = Eq.
Proof. induction a as [|x a IH]; cbn; [reflexivity|]. rewrite Nat.compare_refl. exact IH. Qed.

Lemma lex_cmp_eq a b : lex_cmp a b = Eq -> a = b.
Proof.
  revert b; induction a as [|x a IH]; intros [|y b] H; cbn in H; try discriminate; [reflexivity|].
  destruct (Nat.compare_spec x y) as [E|E|E]; try discriminate. subst. f_equal. apply IH. exact H.
Qed.

Lemma lex_cmp_antisym a b : lex_cmp b a = CompOpp (lex_cmp a b).
Proof.
  revert b; induction a as [|x a IH]; intros [|y b]; cbn; try reflexivity.
  rewrite (Nat.compare_antisym x y). destruct (Nat.compare x y); cbn; auto.
Qed.

Lemma lex_lt_trans a b c : lex_cmp a b = Lt -> lex_cmp b c = Lt -> lex_cmp a c = Lt.
Proof.
  revert b c; induction a as [|x a IH]; intros [|y b] [|z c] H1 H2; cbn in *; try discriminate; try reflexivity.
  destruct (Nat.compare_spec x y) as [E1|E1|E1]; try discriminate;
  destruct (Nat.compare_spec y z) as [E2|E2|E2]; try discriminate;
  destruct (Nat.compare_spec x z) as [E3|E3|E3]; try lia; try reflexivity.
  eapply IH; eassumption.
Qed.

Lemma lex_cmp_app p a b : lex_cmp (p ++ a) (p ++ b) = lex_cmp a b.
Proof. induction p as [|x p IH]; cbn; [reflexivity|]. rewrite Nat.compare_refl. exact IH. Qed.

Lemma lex_cmp_skipn w a b :
  firstn w a = firstn w b -> lex_cmp a b = lex_cmp (skipn w a) (skipn w b).
Proof.
  intros H. rewrite <- (firstn_skipn w a) at 1. rewrite <- (firstn_skipn w b) at 1.
  rewrite H. apply lex_cmp_app.
Qed.

(* bytes order = nibble order *)
Lemma compare_divmod x y :
  Nat.compare x y = match Nat.compare (x / 16) (y / 16) with
                    | Eq => Nat.compare (x mod 16) (y mod 16)
                    | c => c
                    end.
Proof.
  destruct (Nat.compare_spec (x / 16) (y / 16)) as [E|E|E].
  - destruct (Nat.compare_spec (x mod 16) (y mod 16)) as [F|F|F].
    + apply Nat.compare_eq_iff. lia.
    + apply Nat.compare_lt_iff. lia.
    + apply Nat.compare_gt_iff. lia.
  - apply Nat.compare_lt_iff. lia.
  - apply Nat.compare_gt_iff. lia.
Qed.

Lemma bytes_cmp_nibs a b : bytes_cmp a b = lex_cmp (nibs a) (nibs b).
Proof.
  unfold bytes_cmp. revert b; induction a as [|x a IH]; intros [|y b]; try reflexivity.
  rewrite !nibs_cons. cbn [map lex_cmp]. rewrite (compare_divmod (Byte.to_nat x) (Byte.to_nat y)).
  destruct (Nat.compare (Byte.to_nat x / 16) (Byte.to_nat y / 16)); try reflexivity.
  destruct (Nat.compare (Byte.to_nat x mod 16) (Byte.to_nat y mod 16)); try reflexivity.
  apply IH.
Qed.

Lemma byte_to_nat_inj x y : Byte.to_nat x = Byte.to_nat y -> x = y.
Proof.
  intros H.
  assert (Some x = Some y) as E; [|inversion E; reflexivity].
  rewrite <- (Byte.of_to_nat x), <- (Byte.of_to_nat y). rewrite H. reflexivity.
Qed.

Lemma nibs_inj a b : nibs a = nibs b -> a = b.
Proof.
  revert b; induction a as [|x a IH]; intros [|y b] H; try reflexivity; try (rewrite nibs_cons in H; discriminate).
  rewrite !nibs_cons in H. apply cons_eq_inv in H. destruct H as [H1 H]. apply cons_eq_inv in H. destruct H as [H2 H3].
  f_equal; [|apply IH; exact H3].
  apply byte_to_nat_inj. lia.
Qed.

(* ---------- lcp ---------- *)
Lemma lcp_le_l a b : lcp a b <= length a.
Proof.
  revert b; induction a as [|x a IH]; intros [|y b]; cbn; try lia.
  destruct (Nat.eqb x y); cbn; [specialize (IH b)|]; lia.
Qed.

Lemma lcp_le_r a b : lcp a b <= length b.
Proof.
  revert b; induction a as [|x a IH]; intros [|y b]; cbn; try lia.
  destruct (Nat.eqb x y); cbn; [specialize (IH b)|]; lia.
Qed.

Lemma lcp_firstn a b n : n <= lcp a b -> firstn n a = firstn n b.
Proof.
  revert a b; induction n as [|n IH]; intros a b H; [reflexivity|].
  destruct a as [|x a], b as [|y b]; cbn in H; try lia.
  destruct (Nat.eqb_spec x y) as [E|E]; [|lia]. subst. cbn. f_equal. apply IH. lia.
Qed.

Lemma firstn_lcp a b n : firstn n a = firstn n b -> n <= length a -> n <= length b -> n <= lcp a b.
Proof.
  revert a b; induction n as [|n IH]; intros a b H Ha Hb; [lia|].
  destruct a as [|x a], b as [|y b]; cbn in Ha, Hb; try lia.
  cbn in H. inversion H; subst. cbn. rewrite Nat.eqb_refl. apply le_n_S. apply IH; [assumption|lia|lia].
Qed.

(* ---------- labels ---------- *)
Lemma label_at_skipn big ns w :
  label_at big ns w = match skipn w ns with
                      | [] => 0
                      | a :: r => if big then match r with b :: _ => 1 + (a * 16 + b) | [] => 1 + a * 16 end
                                  else 1 + a
                      end.
Proof. reflexivity. Qed.

Lemma label_zero_iff big ns w : w <= length ns -> (label_at big ns w = 0 <-> w = length ns).
Proof.
  intros Hw. unfold label_at. split.
  - destruct (skipn w ns) as [|a r] eqn:E.
    + intros _. assert (length (skipn w ns) = 0) as L by (rewrite E; reflexivity).
      rewrite skipn_length in L. lia.
    + destruct big; [destruct r|]; discriminate.
  - intros ->. rewrite skipn_all. reflexivity.
Qed.

(* even/odd bookkeeping *)
Lemma even_down_even i : Nat.even (even_down i) = true.
Proof. unfold even_down. rewrite Nat.even_spec. exists (i / 2). lia. Qed.

Lemma even_down_le i : even_down i <= i.
Proof. unfold even_down. lia. Qed.

Lemma even_down_id i : Nat.even i = true -> even_down i = i.
Proof. intros H. apply Nat.even_spec in H. destruct H as [k ->]. unfold even_down. lia. Qed.

Lemma even_down_half i : even_down i = 2 * (i / 2).
Proof. unfold even_down. lia. Qed.

(* monotonicity of labels along the order, for lists that agree on the first w elements *)
Lemma label_mono big a b w :
  Forall (fun x => x < 16) a -> Forall (fun x => x < 16) b ->
  firstn w a = firstn w b -> lex_cmp a b = Lt ->
  label_at big a w <= label_at big b w.
Proof.
  intros Fa Fb Hp Hlt. rewrite (lex_cmp_skipn w a b Hp) in Hlt.
  unfold label_at.
  assert (Forall (fun x => x < 16) (skipn w a)) as Fa'.
  { rewrite <- (firstn_skipn w a) in Fa. apply Forall_app in Fa. tauto. }
  assert (Forall (fun x => x < 16) (skipn w b)) as Fb'.
  { rewrite <- (firstn_skipn w b) in Fb. apply Forall_app in Fb. tauto. }
  destruct (skipn w a) as [|x ra]; [lia|].
  destruct (skipn w b) as [|y rb]; [cbn in Hlt; discriminate|].
  cbn in Hlt. inversion Fa' as [|? ? Hx Fra]; inversion Fb' as [|? ? Hy Frb]; subst.
  destruct (Nat.compare_spec x y) as [E|E|E]; try discriminate.
  - subst. destruct big; [|lia].
    destruct ra as [|x' ra'], rb as [|y' rb']; cbn in Hlt; try discriminate; try lia.
    destruct (Nat.compare_spec x' y'); try discriminate; lia.
  - destruct big; [|lia].
    destruct ra as [|x' ra'], rb as [|y' rb']; try lia.
    + inversion Fra; subst. lia.
    + inversion Fra; inversion Frb; subst. lia.
Qed.

Lemma firstn_add {A} w n (l : list A) : firstn (w + n) l = firstn w l ++ firstn n (skipn w l).
Proof.
  revert l; induction w as [|w IH]; intros l; [reflexivity|].
  destruct l as [|x l]; cbn [Nat.add firstn skipn app]; [rewrite firstn_nil; reflexivity|].
  f_equal. apply IH.
Qed.

(* entries with the same non-zero label agree one word further *)
Lemma label_eq_firstn big a b w :
  Forall (fun x => x < 16) a -> Forall (fun x => x < 16) b ->
  firstn w a = firstn w b ->
  (big = true -> Nat.even (length a - w) = true /\ Nat.even (length b - w) = true) ->
  label_at big a w = label_at big b w -> label_at big a w <> 0 ->
  firstn (w + wsize big) a = firstn (w + wsize big) b /\ w + wsize big <= length a /\ w + wsize big <= length b.
Proof.
  intros Fa Fb Hp Hev Hl Hnz.
  assert (Forall (fun x => x < 16) (skipn w a)) as Fa'.
  { rewrite <- (firstn_skipn w a) in Fa. apply Forall_app in Fa. tauto. }
  assert (Forall (fun x => x < 16) (skipn w b)) as Fb'.
  { rewrite <- (firstn_skipn w b) in Fb. apply Forall_app in Fb. tauto. }
  assert (length (skipn w a) = length a - w) as La by apply skipn_length.
  assert (length (skipn w b) = length b - w) as Lb by apply skipn_length.
  unfold label_at in Hl, Hnz.
  rewrite !firstn_add. rewrite Hp.
  destruct (skipn w a) as [|x ra]; [congruence|].
  destruct (skipn w b) as [|y rb].
  { destruct big; [destruct ra|]; discriminate. }
  inversion Fa' as [|? ? Hx Fra]; inversion Fb' as [|? ? Hy Frb]; subst.
  destruct big; cbn [wsize].
  - destruct (Hev eq_refl) as [Ea Eb]. rewrite <- La in Ea. rewrite <- Lb in Eb.
    destruct ra as [|x' ra']; [cbn in Ea; discriminate|].
    destruct rb as [|y' rb']; [cbn in Eb; discriminate|].
    inversion Fra; inversion Frb; subst.
    assert (x = y /\ x' = y') as [-> ->] by lia.
    cbn [length] in La, Lb. split; [reflexivity|]. lia.
  - assert (x = y) as -> by lia. cbn [length] in La, Lb. split; [reflexivity|]. lia.
Qed.

(* ---------- order check ---------- *)
Definition key_lt (a b : key) : Prop := lex_cmp (nibs a) (nibs b) = Lt.

Lemma bytes_ltb_lt a b : bytes_ltb a b = true <-> key_lt a b.
Proof.
  unfold bytes_ltb, key_lt. rewrite bytes_cmp_nibs. destruct (lex_cmp (nibs a) (nibs b)); split; congruence.
Qed.

Lemma key_lt_trans a b c : key_lt a b -> key_lt b c -> key_lt a c.
Proof. unfold key_lt. apply lex_lt_trans. Qed.

Lemma key_lt_irrefl a : ~ key_lt a a.
Proof. unfold key_lt. rewrite lex_cmp_refl. discriminate. Qed.

(* adjacent strict order: what newSlim checks *)
Inductive AdjSorted : list key -> Prop :=
| AS_nil : AdjSorted []
| AS_one k : AdjSorted [k]
| AS_cons a b r : key_lt a b -> AdjSorted (b :: r) -> AdjSorted (a :: b :: r).

Lemma check_order_from_none i l : check_order_from i l = None <-> AdjSorted l.
Proof.
  revert i; induction l as [|a r IH]; intros i; cbn.
  - split; [constructor|reflexivity].
  - destruct r as [|b r'].
    + split; [constructor|reflexivity].
    + destruct (bytes_ltb a b) eqn:E.
      * rewrite (IH (S i)). split.
        -- intros H. constructor; [apply bytes_ltb_lt; exact E|exact H].
        -- intros H. inversion H; assumption.
      * split; [discriminate|]. intros H. inversion H as [| |? ? ? Hlt]; subst.
        apply bytes_ltb_lt in Hlt. congruence.
Qed.

Lemma check_order_none l : check_order l = None <-> AdjSorted l.
Proof. apply check_order_from_none. Qed.

Lemma check_order_from_some i l j :
  check_order_from i l = Some j ->
  i <= j /\ exists a b, nth_error l (j - i) = Some a /\ nth_error l (S (j - i)) = Some b /\ ~ key_lt a b /\
  AdjSorted (firstn (S (j - i)) l).
Proof.
  revert i; induction l as [|a r IH]; intros i; cbn; [discriminate|].
  destruct r as [|b r']; [discriminate|].
  destruct (bytes_ltb a b) eqn:E.
  - intros H. destruct (IH (S i) H) as (Hle & x & y & Hx & Hy & Hn & Hs).
    split; [lia|]. exists x, y.
    replace (j - i) with (S (j - S i)) by lia. cbn [nth_error]. repeat split; try assumption.
    change (firstn (S (S (j - S i))) (a :: b :: r')) with (a :: firstn (S (j - S i)) (b :: r')).
    cbn [firstn] in Hs |- *. constructor; [apply bytes_ltb_lt; exact E|exact Hs].
  - intros H. inversion H; subst. split; [lia|]. exists a, b. rewrite Nat.sub_diag. cbn.
    repeat split; try reflexivity; [|constructor].
    intros Hlt. apply bytes_ltb_lt in Hlt. congruence.
Qed.

Lemma AdjSorted_strong l : AdjSorted l -> StronglySorted key_lt l.
Proof.
  induction 1 as [| |a b r Hab Hs IH]; [constructor|constructor; constructor|].
  constructor; [exact IH|].
  inversion IH as [|? ? Hs' Hf]; subst. constructor; [exact Hab|].
  eapply Forall_impl; [|exact Hf]. intros c Hc. eapply key_lt_trans; eassumption.
Qed.
