(* Legacy510.v - the single-section layouts 0.5.10 / 0.5.11 at MESSAGE level:

     encode_0510 T      the message an 0.5.10 / 0.5.11 release laid out for the trie T, as the
                        record Bits.msg + the three since-removed scalar fields 12/13/15
                        (twin of the reference writer harness/c06_writers.go:c06WriteSlim,
                        which reproduces the archived 0.5.10 files).  It is today's message
                        Bits.encode_trie T except
                          - InnerPrefixes.Bytes (stored-prefix mode only): every element is
                            "control byte + text" instead of "text + trailing mask byte";
                          - InnerPrefixes.PositionBM.SelectIndex and
                            LeafPrefixes.PositionBM.SelectIndex hold the index of the 64-bit
                            WORD of every 32nd set bit (today: the bit position);
                          - Leaves carries Bytes only (no N / EltCnt / FixedSize / PresenceBM);
                          - fields 12 BigInnerOffset, 13 ShortMinusInner, 15 ShortMask (today
                            recomputed by initVars) are present.
                        0.5.10 and 0.5.11 share this body; they differ in the version string
                        of the section header only (both satisfy "<0.5.12", so both are
                        converted).  The prefix options are those of T itself
                        (t_innerpfx / t_leafpfx), hence no further layout flag.
     parse510           what protobuf hands to the loader: fields 12/13/15 are unknown to
                        today's slim.proto and dropped.
     conv510_msg esize  trie/slimtrie_marshal.go: before000512InnerPrefixTobitstr followed by
                        before000512FixLeafSize on the parsed message, in place, the way the
                        Go code does it: the loop over i with Select32R64 on PositionBM (with
                        the STORED select index), old := Bytes[from:to], the control-byte
                        decoding + bitstr.New + copy (Legacy.conv_prefix, the element-level
                        model of C06), until to = len(Bytes); Leaves without PresenceBM get
                        FixedSize = esize = st.encoder.GetEncodedSize(nil), N = EltCnt =
                        len(Bytes) / FixedSize and a full r64 PresenceBM.
                        NOT touched by the loader: the two SelectIndex arrays (old_sel_msg).

   Every Go panic is [Err (EPanic site)], fuel exhaustion of the conversion loop is
   [Err EFuel] (Legacy510Proofs.conv510_never_fuel: never returned).  Sites:
     651 Select32R64 (selectIndex / rankIndex / words index out of range, lookup table)
     652 ips.Bytes[from:to] out of range
     603/601/602 old[0] of an empty element, bitstr.New (Legacy.conv_prefix)
     653 before000512FixLeafSize: explicit panic "FixedSize is non-zero while PresenceBM is nil"
     631 before000512FixLeafSize: integer divide by zero (encoder size 0)
     654 newBM (bitmap.Of) index out of range
   Definitions only; proofs in Legacy510Proofs.v, closing theorems in coq/props/C06d.v. *)
From Slim Require Import Base Keys Model BitmapRank BitmapRank2 Bits.
From Slim Require Legacy.
Local Open Scope N_scope.

(* ====================================================================== *)
(* 1. What 0.5.10 / 0.5.11 wrote                                           *)
(* ====================================================================== *)

(* one inner prefix (a nibble string; its bit length is a multiple of 4) in the control-byte
   form (trie/slim.proto of 0.5.10): byte 0 = 0 and the packed bytes when the bit length is a
   multiple of 8; byte 0 = 1 and the packed bytes with the bit after the last payload bit set
   (here: 0x08 in the low half of the last byte) otherwise *)
Definition ctl_of_nibs (p : list nat) : list byte :=
  if Nat.even (length p) then "000"%byte :: pack_nibs p
  else "001"%byte :: pack_nibs (p ++ [8%nat]).

Definition prefix_ctls (ins : list inner_rec) : list (list byte) :=
  flat_map (fun i => match i_pfx i with Some p => [ctl_of_nibs p] | None => [] end) ins.

(* SelectIndex of 0.5.10: word index (bit position >> 6) of every 32nd set bit *)
Definition old_sel (b : bitmap) : bitmap :=
  mkBM (b_words b) (b_rank b) (map word_of (b_sel b)).

Definition old_sel_vl (v : vlen) : vlen :=
  mkVL (v_n v) (v_eltcnt v) (v_presence v) (option_map old_sel (v_position v)) (v_fixed v) (v_bytes v).

(* today's message with the two old select indexes: what the loader ends up with *)
Definition old_sel_msg (m : msg) : msg :=
  mkMsg (m_bigcnt m) (m_shortsize m) (m_nodetype m) (m_inners m) (m_shortbm m) (m_shorttable m)
        (option_map old_sel_vl (m_innerpfx m)) (option_map old_sel_vl (m_leafpfx m)) (m_leaves m).

(* InnerPrefixes of 0.5.10: the step-only mode (PositionBM = nil) is today's; the stored-prefix
   mode has control-byte elements (same element sizes, hence the same PositionBM words) *)
Definition old_innerpfx (ins : list inner_rec) (v : vlen) : vlen :=
  match v_position v with
  | None => v
  | Some ps =>
    mkVL (v_n v) (v_eltcnt v) (v_presence v) (Some (old_sel ps)) (v_fixed v) (concat (prefix_ctls ins))
  end.

(* Leaves of 0.5.10: &VLenArray{Bytes: ...} *)
Definition old_leaves (v : vlen) : vlen := mkVL 0 0 None None 0 (v_bytes v).

Record msg510 := mkOld {
  o_msg : msg;          (* the fields today's slim.proto still has *)
  o_bigoff : N;         (* 12 BigInnerOffset  = (257 - 17) * BigInnerCnt *)
  o_shortminus : Z;     (* 13 ShortMinusInner = ShortSize - 17 (int32, negative) *)
  o_mask : N }.         (* 15 ShortMask       = 2^ShortSize - 1 *)

Definition encode_0510 (T : trie) : out msg510 :=
  doo m <- encode_trie T;
  match t_root T with
  | None => Val (mkOld empty_msg 0 0%Z 0)             (* the zero message *)
  | Some r =>
    let ins := inners_of (flat_nodes r) in
    Val (mkOld
           (mkMsg (m_bigcnt m) (m_shortsize m) (m_nodetype m) (m_inners m) (m_shortbm m) (m_shorttable m)
                  (option_map (old_innerpfx ins) (m_innerpfx m))
                  (option_map old_sel_vl (m_leafpfx m))
                  (option_map old_leaves (m_leaves m)))
           (240 * m_bigcnt m) (Z.of_N (m_shortsize m) - 17)%Z (N.ones (m_shortsize m)))
  end.

(* protobuf: unknown fields are skipped *)
Definition parse510 (o : msg510) : msg := o_msg o.

(* ====================================================================== *)
(* 2. The loader's conversion                                              *)
(* ====================================================================== *)

Definition z_of_byte (b : byte) : Z := Z.of_N (Byte.to_N b).
Definition byte_of_z (z : Z) : byte := byte_of (Z.to_N z).

(* the loop body on old = ips.Bytes[from:to]: the new content of that region *)
Definition conv_elt (old : list byte) : res (list byte) :=
  match Legacy.conv_prefix (map z_of_byte old) with
  | Ok l => Ok (map byte_of_z l)
  | Err e => Err e
  end.

(* for i := 0; ; i++ { from, to := Select32R64(..., i); old := Bytes[from:to]; ...
                       copy(old, newPref); if to == len(Bytes) { break } } *)
Fixpoint conv_loop (fuel : nat) (ps : bitmap) (bytes : list byte) (i : N) : res (list byte) :=
  match fuel with
  | O => Err EFuel
  | S f =>
    match select32_r64 (b_words ps) (b_sel ps) (b_rank ps) i with
    | Panic => Err (EPanic 651)
    | Val (from, to) =>
      match slice_bytes bytes from to with
      | Panic => Err (EPanic 652)
      | Val old =>
        do new <- conv_elt old;
        let bytes' := firstn (N.to_nat from) bytes ++ new ++ skipn (N.to_nat to) bytes in
        if to =? blen bytes then Ok bytes' else conv_loop f ps bytes' (N.succ i)
      end
    end
  end.

(* Select32R64 panics on selectIndex[i>>5] once i >= 32 * len(selectIndex): the loop cannot run
   longer than this *)
Definition conv_fuel (ps : bitmap) : nat := S (32 * length (b_sel ps)).

(* before000512InnerPrefixTobitstr *)
Definition conv_innerpfx (ip : option vlen) : res (option vlen) :=
  match ip with
  | None => Ok None
  | Some v =>
    match v_position v with
    | None => Ok (Some v)
    | Some ps =>
      match v_bytes v with
      | [] => Ok (Some v)
      | _ :: _ =>
        do bytes <- conv_loop (conv_fuel ps) ps (v_bytes v) 0;
        Ok (Some (mkVL (v_n v) (v_eltcnt v) (v_presence v) (Some ps) (v_fixed v) bytes))
      end
    end
  end.

(* before000512FixLeafSize *)
Definition fix_leaves (esize : N) (lv : option vlen) : res (option vlen) :=
  match lv with
  | None => Ok None
  | Some v =>
    match v_presence v with
    | Some _ => Ok (Some v)
    | None =>
      if negb (v_fixed v =? 0) then Err (EPanic 653)
      else if esize =? 0 then Err (EPanic 631)
      else
        let n := blen (v_bytes v) / esize in
        match new_bm (nseq 0 (N.to_nat n)) n R64 with
        | Panic => Err (EPanic 654)
        | Val pres => Ok (Some (mkVL n n (Some pres) (v_position v) esize (v_bytes v)))
        end
    end
  end.

Definition conv510_msg (esize : N) (m : msg) : res msg :=
  do ip <- conv_innerpfx (m_innerpfx m);
  do lv <- fix_leaves esize (m_leaves m);
  Ok (mkMsg (m_bigcnt m) (m_shortsize m) (m_nodetype m) (m_inners m) (m_shortbm m) (m_shorttable m)
            ip (m_leafpfx m) lv).

(* Unmarshal of an 0.5.10 / 0.5.11 section: parse, convert *)
Definition load510 (esize : N) (o : msg510) : res msg := conv510_msg esize (parse510 o).

(* the leaves an 0.5.10 writer could store: every value has the encoder's fixed size *)
Definition leaves_fixed (esize : N) (T : trie) : Prop :=
  match t_leaves T with
  | None => True
  | Some elts => Forall (fun e => blen e = esize) elts
  end.
