(* EndToEndLegacyWireProofs.v - the byte level of the 0.5.10 / 0.5.11 branch and the dispatch of
   the instance machine:
   1. proto.Unmarshal(&Slim{}) of the bytes an 0.5.10 writer produced (today's fields with the
      removed scalars 12 / 13 / 15 interleaved in tag order) yields the known fields and keeps
      12 / 13 / 15 verbatim in XXX_unrecognized (parse_old_slim);
   2. SlimTrie.Unmarshal's reading part on such a section with header "0.5.10" / "0.5.11" and
      the constants regenerated from /repo takes the OLegacy510 branch with exactly that
      message (unmarshal_0510);
   3. whatever the state and the history, the instance after an Unmarshal that is dispatched
      to a legacy branch is installed (conv ...): inner, vars and levels all re-initialised
      (run_legacy510 / run_legacy3). *)
From Coq Require Import List NArith ZArith Bool Lia.
From Coq Require Import ZifyN ZifyNat ZifyBool.
From Coq.Strings Require Import Byte.
From Slim Require Import Varint VarintProofs Proto ProtoProofs Semver Frame FrameProofs
     Instance InstanceProofs Wire WireProofs EndToEnd EndToEndProofs EndToEndLegacy.
From Slim Require Legacy510.
Import ListNotations.
Open Scope N_scope.

(* ---- set_unk ------------------------------------------------------------------------ *)
Lemma of_wire_set_unk s u : of_wire (set_unk s u) = of_wire s.
Proof. reflexivity. Qed.

Lemma set_unk_same s : set_unk s (s_unk s) = s.
Proof. destruct s; reflexivity. Qed.

Lemma s_unknown_set_unk m t : s_unknown m t = set_unk m (s_unk m ++ ser_tok t).
Proof. reflexivity. Qed.

(* ---- token groups --------------------------------------------------------------------- *)
Lemma canon_tk_u64 : forall tag v, tag_ok tag -> v < two64 -> Forall canon (tk_u64 tag v).
Proof.
  intros tag v Ht Hv. unfold tk_u64. destruct (v =? 0); [constructor|].
  constructor; [|constructor]. cbn [mk_var canon]. auto.
Qed.

(* a varint field whose number today's Slim does not know *)
Definition unk_var (t : tok) : Prop :=
  match t with
  | TVar tag _ _ => (tag =? 11) || (tag =? 14) || (tag =? 32) = false
  | _ => False
  end.

Lemma fold_unk_toks : forall ts m, Forall unk_var ts ->
  fold_opt step_slim ts m = Some (set_unk m (s_unk m ++ ser_toks ts)).
Proof.
  induction ts as [|t ts IH]; intros m H.
  - cbn [fold_opt]. unfold ser_toks. cbn [map concat]. rewrite app_nil_r, set_unk_same. reflexivity.
  - inversion H as [|t' ts' Ht Hts]; subst. cbn [fold_opt].
    assert (E : step_slim m t = Some (s_unknown m t)).
    { destruct t as [tag v raw| |]; cbn [unk_var] in Ht; try contradiction.
      apply orb_false_iff in Ht. destruct Ht as [Ht H32]. apply orb_false_iff in Ht. destruct Ht as [H11 H14].
      cbn [step_slim]. rewrite H11, H14, H32. reflexivity. }
    rewrite E, (IH _ Hts). f_equal. rewrite s_unknown_set_unk. unfold set_unk at 1 2 3.
    cbn [s_bigcnt s_shortsize s_nodetype s_inners s_shortbm s_shorttable s_innerpref s_leafpref s_leaves s_unk].
    unfold set_unk. f_equal. unfold ser_toks. cbn [map concat]. rewrite app_assoc. reflexivity.
Qed.

Lemma unk_tk_int32 tag z : (tag =? 11) || (tag =? 14) || (tag =? 32) = false -> Forall unk_var (tk_int32 tag z).
Proof. intros H. unfold tk_int32. destruct (z =? 0)%Z; constructor; [exact H|constructor]. Qed.

Lemma unk_tk_u64 tag v : (tag =? 11) || (tag =? 14) || (tag =? 32) = false -> Forall unk_var (tk_u64 tag v).
Proof. intros H. unfold tk_u64. destruct (v =? 0); constructor; [exact H|constructor]. Qed.

(* ---- the known fields, one group at a time, from ANY state of the other fields --------- *)
Section Groups.
  Variables (big sh : Z) (nt inn sb : option bitmap) (tab : list N) (ip lp lv : option vlen) (u : list byte).

  Lemma fold_11 : int32_ok big = true ->
    fold_opt step_slim (tk_int32 11 big) (mkSlim 0 sh nt inn sb tab ip lp lv u) = Some (mkSlim big sh nt inn sb tab ip lp lv u).
  Proof.
    intros H. unfold tk_int32. destruct (big =? 0)%Z eqn:Ez; [apply Z.eqb_eq in Ez; subst; reflexivity|].
    cbn [fold_opt step_slim mk_var]. red_tags. rewrite int32_roundtrip by exact H. reflexivity.
  Qed.

  Lemma fold_14 : int32_ok sh = true ->
    fold_opt step_slim (tk_int32 14 sh) (mkSlim big 0 nt inn sb tab ip lp lv u) = Some (mkSlim big sh nt inn sb tab ip lp lv u).
  Proof.
    intros H. unfold tk_int32. destruct (sh =? 0)%Z eqn:Ez; [apply Z.eqb_eq in Ez; subst; reflexivity|].
    cbn [fold_opt step_slim mk_var]. red_tags. rewrite int32_roundtrip by exact H. reflexivity.
  Qed.

  Lemma fold_20 : opt_all wf_bitmap nt = true ->
    fold_opt step_slim (tk_msg ser_bitmap 20 nt) (mkSlim big sh None inn sb tab ip lp lv u) = Some (mkSlim big sh nt inn sb tab ip lp lv u).
  Proof.
    intros H. unfold tk_msg. destruct nt as [b|]; [|reflexivity].
    cbn [fold_opt step_slim mk_bytes]. unfold s_is_bitmap, s_get_bitmap, s_set_bitmap. red_tags.
    cbn [s_nodetype or_empty_bitmap]. rewrite parse_bitmap_ser by exact H. reflexivity.
  Qed.

  Lemma fold_30 : opt_all wf_bitmap inn = true ->
    fold_opt step_slim (tk_msg ser_bitmap 30 inn) (mkSlim big sh nt None sb tab ip lp lv u) = Some (mkSlim big sh nt inn sb tab ip lp lv u).
  Proof.
    intros H. unfold tk_msg. destruct inn as [b|]; [|reflexivity].
    cbn [fold_opt step_slim mk_bytes]. unfold s_is_bitmap, s_get_bitmap, s_set_bitmap. red_tags.
    cbn [s_inners or_empty_bitmap]. rewrite parse_bitmap_ser by exact H. reflexivity.
  Qed.

  Lemma fold_31 : opt_all wf_bitmap sb = true ->
    fold_opt step_slim (tk_msg ser_bitmap 31 sb) (mkSlim big sh nt inn None tab ip lp lv u) = Some (mkSlim big sh nt inn sb tab ip lp lv u).
  Proof.
    intros H. unfold tk_msg. destruct sb as [b|]; [|reflexivity].
    cbn [fold_opt step_slim mk_bytes]. unfold s_is_bitmap, s_get_bitmap, s_set_bitmap. red_tags.
    cbn [s_shortbm or_empty_bitmap]. rewrite parse_bitmap_ser by exact H. reflexivity.
  Qed.

  Lemma fold_32 : forallb u32_ok tab = true ->
    fold_opt step_slim (tk_packed 32 tab) (mkSlim big sh nt inn sb [] ip lp lv u) = Some (mkSlim big sh nt inn sb tab ip lp lv u).
  Proof.
    intros H. unfold tk_packed. destruct tab as [|t tab']; [reflexivity|].
    set (tl := t :: tab') in *.
    cbn [fold_opt step_slim mk_bytes]. unfold s_is_bitmap. red_tags.
    rewrite unpack_payload by (apply forallb_u32_lt; exact H).
    unfold s_add_shorttable.
    cbn [s_bigcnt s_shortsize s_nodetype s_inners s_shortbm s_shorttable s_innerpref s_leafpref s_leaves s_unk app].
    rewrite map_uint32_roundtrip by exact H. reflexivity.
  Qed.

  Lemma fold_38 : opt_all wf_vlen ip = true ->
    fold_opt step_slim (tk_msg ser_vlen 38 ip) (mkSlim big sh nt inn sb tab None lp lv u) = Some (mkSlim big sh nt inn sb tab ip lp lv u).
  Proof.
    intros H. unfold tk_msg. destruct ip as [a|]; [|reflexivity].
    cbn [fold_opt step_slim mk_bytes]. unfold s_is_bitmap, s_is_vlen, s_get_vlen, s_set_vlen. red_tags.
    cbn [s_innerpref or_empty_vlen]. rewrite parse_vlen_ser by exact H. reflexivity.
  Qed.

  Lemma fold_58 : opt_all wf_vlen lp = true ->
    fold_opt step_slim (tk_msg ser_vlen 58 lp) (mkSlim big sh nt inn sb tab ip None lv u) = Some (mkSlim big sh nt inn sb tab ip lp lv u).
  Proof.
    intros H. unfold tk_msg. destruct lp as [a|]; [|reflexivity].
    cbn [fold_opt step_slim mk_bytes]. unfold s_is_bitmap, s_is_vlen, s_get_vlen, s_set_vlen. red_tags.
    cbn [s_leafpref or_empty_vlen]. rewrite parse_vlen_ser by exact H. reflexivity.
  Qed.

  Lemma fold_60 : opt_all wf_vlen lv = true ->
    fold_opt step_slim (tk_msg ser_vlen 60 lv) (mkSlim big sh nt inn sb tab ip lp None u) = Some (mkSlim big sh nt inn sb tab ip lp lv u).
  Proof.
    intros H. unfold tk_msg. destruct lv as [a|]; [|reflexivity].
    cbn [fold_opt step_slim mk_bytes]. unfold s_is_bitmap, s_is_vlen, s_get_vlen, s_set_vlen. red_tags.
    cbn [s_leaves or_empty_vlen]. rewrite parse_vlen_ser by exact H. reflexivity.
  Qed.
End Groups.

(* ---- 1. proto.Unmarshal of the 0.5.10 bytes --------------------------------------------- *)
Theorem parse_old_slim : forall s z12 z13 v15,
  wf_slim s = true -> v15 < two64 ->
  parse_slim (ser_toks (toks_old_slim s z12 z13 v15)) = Some (set_unk s (ser_toks (toks_removed z12 z13 v15))).
Proof.
  intros [big short nt inn sb tab ip lp lv unk] z12 z13 v15 H Hv. unfold wf_slim in H.
  cbn [s_bigcnt s_shortsize s_nodetype s_inners s_shortbm s_shorttable s_innerpref s_leafpref s_leaves s_unk] in H.
  apply andb_true_iff in H. destruct H as [H Hu].
  apply andb_true_iff in H. destruct H as [H Hllv].
  apply andb_true_iff in H. destruct H as [H Hllp].
  apply andb_true_iff in H. destruct H as [H Hlip].
  apply andb_true_iff in H. destruct H as [H Hwlv].
  apply andb_true_iff in H. destruct H as [H Hwlp].
  apply andb_true_iff in H. destruct H as [H Hwip].
  apply andb_true_iff in H. destruct H as [H Hltab].
  apply andb_true_iff in H. destruct H as [H Htab].
  apply andb_true_iff in H. destruct H as [H Hlsb].
  apply andb_true_iff in H. destruct H as [H Hlinn].
  apply andb_true_iff in H. destruct H as [H Hlnt].
  apply andb_true_iff in H. destruct H as [H Hwsb].
  apply andb_true_iff in H. destruct H as [H Hwinn].
  apply andb_true_iff in H. destruct H as [H Hwnt].
  apply andb_true_iff in H. destruct H as [Hbig Hshort].
  apply nil_bytes_nil in Hu. subst unk.
  unfold parse_slim, parse_slim_into.
  rewrite tokenize_ser_len.
  2:{ unfold toks_old_slim.
      cbn [s_bigcnt s_shortsize s_nodetype s_inners s_shortbm s_shorttable s_innerpref s_leafpref s_leaves].
      apply Forall_app; split; [apply canon_tk_int32; tag_ok_tac|].
      apply Forall_app; split; [apply canon_tk_int32; tag_ok_tac|].
      apply Forall_app; split; [apply canon_tk_int32; tag_ok_tac|].
      apply Forall_app; split; [apply canon_tk_int32; tag_ok_tac|].
      apply Forall_app; split; [apply canon_tk_u64; [tag_ok_tac|exact Hv]|].
      apply Forall_app; split; [apply canon_tk_msg; [tag_ok_tac|exact Hlnt]|].
      apply Forall_app; split; [apply canon_tk_msg; [tag_ok_tac|exact Hlinn]|].
      apply Forall_app; split; [apply canon_tk_msg; [tag_ok_tac|exact Hlsb]|].
      apply Forall_app; split; [apply canon_tk_packed; [tag_ok_tac|exact Hltab]|].
      apply Forall_app; split; [apply canon_tk_msg; [tag_ok_tac|exact Hlip]|].
      apply Forall_app; split; [apply canon_tk_msg; [tag_ok_tac|exact Hllp]|].
      apply canon_tk_msg; [tag_ok_tac|exact Hllv]. }
  unfold toks_old_slim.
  cbn [s_bigcnt s_shortsize s_nodetype s_inners s_shortbm s_shorttable s_innerpref s_leafpref s_leaves].
  unfold empty_slim.
  rewrite fold_opt_app, fold_11 by exact Hbig. cbv beta iota.
  rewrite fold_opt_app, (fold_unk_toks (tk_int32 12 z12)) by (apply unk_tk_int32; reflexivity). cbv beta iota.
  rewrite fold_opt_app, (fold_unk_toks (tk_int32 13 z13)) by (apply unk_tk_int32; reflexivity). cbv beta iota.
  unfold set_unk.
  cbn [s_bigcnt s_shortsize s_nodetype s_inners s_shortbm s_shorttable s_innerpref s_leafpref s_leaves s_unk].
  rewrite fold_opt_app, fold_14 by exact Hshort. cbv beta iota.
  rewrite fold_opt_app, (fold_unk_toks (tk_u64 15 v15)) by (apply unk_tk_u64; reflexivity). cbv beta iota.
  unfold set_unk.
  cbn [s_bigcnt s_shortsize s_nodetype s_inners s_shortbm s_shorttable s_innerpref s_leafpref s_leaves s_unk].
  rewrite fold_opt_app, fold_20 by exact Hwnt. cbv beta iota.
  rewrite fold_opt_app, fold_30 by exact Hwinn. cbv beta iota.
  rewrite fold_opt_app, fold_31 by exact Hwsb. cbv beta iota.
  rewrite fold_opt_app, fold_32 by exact Htab. cbv beta iota.
  rewrite fold_opt_app, fold_38 by exact Hwip. cbv beta iota.
  rewrite fold_opt_app, fold_58 by exact Hwlp. cbv beta iota.
  rewrite fold_60 by exact Hwlv.
  f_equal. f_equal. unfold toks_removed. rewrite !ser_toks_app. cbn [app]. rewrite <- app_assoc. reflexivity.
Qed.

Lemma wf_0510_elim : forall o, wf_0510 o = true ->
  wf_slim (to_wire (Legacy510.o_msg o)) = true /\ Legacy510.o_mask o < two64 /\ blen (ser_0510 o) < two63.
Proof.
  intros o H. unfold wf_0510 in H.
  apply andb_true_iff in H. destruct H as [H Hb].
  apply andb_true_iff in H. destruct H as [H Hm].
  apply andb_true_iff in H. destruct H as [H _].
  apply andb_true_iff in H. destruct H as [H _].
  split; [exact H|]. split; [apply u64_ok_lt; exact Hm|apply N.ltb_lt; exact Hb].
Qed.

Theorem parse_0510 : forall o, wf_0510 o = true -> parse_slim (ser_0510 o) = Some (wire_0510 o).
Proof.
  intros o H. destruct (wf_0510_elim o H) as (Hw & Hm & _).
  unfold ser_0510, wire_0510, unk_0510. apply parse_old_slim; assumption.
Qed.

(* the loader sees the fields of Legacy510.parse510: fields 12 / 13 / 15 do not reach them *)
Lemma of_wire_0510 : forall o, of_wire (wire_0510 o) = Legacy510.parse510 o.
Proof. intros o. unfold wire_0510. rewrite of_wire_set_unk, of_to_wire. reflexivity. Qed.

(* ---- 2. the version gate and the section ------------------------------------------------- *)
Definition old_single (ver : list byte) : Prop := ver = ver_0_5_10 \/ ver = ver_0_5_11.

Lemma old_single_gate : forall ver, old_single ver ->
  strip_nul ver = ver /\ (length ver <= 16)%nat /\
  is_compatible ver compat_gen = Some true /\
  is_compatible ver [cur_gen; v0_5_10; v0_5_11] = Some true /\
  is_compatible ver [cur_gen] = Some false.
Proof.
  intros ver [-> | ->]; (split; [reflexivity|]); (split; [cbn; lia|]); repeat split; vm_compute; reflexivity.
Qed.

Lemma marshal_0510_total : forall ver o, old_single ver -> exists s, marshal_0510 ver o = Some s.
Proof.
  intros ver o Hv. destruct (old_single_gate ver Hv) as (_ & Hl & _).
  unfold marshal_0510, frame. destruct (Nat.ltb_spec 16 (length ver)); [lia|]. eexists; reflexivity.
Qed.

Theorem unmarshal_0510 : forall ver o s,
  old_single ver -> wf_0510 o = true -> marshal_0510 ver o = Some s ->
  unmarshal compat_gen cur_gen s = OLegacy510 (wire_0510 o).
Proof.
  intros ver o s Hv Hwf Hm.
  destruct (old_single_gate ver Hv) as (Hclean & _ & G1 & G2 & G3).
  destruct (wf_0510_elim o Hwf) as (_ & _ & Hb).
  unfold marshal_0510 in Hm.
  pose proof (read_section_complete parse_slim ver (ser_0510 o) s [] Hm Hb) as RS.
  rewrite app_nil_r in RS.
  pose proof Hm as Hm'. apply frame_shape in Hm'. destruct Hm' as [Hlv Hs].
  unfold unmarshal.
  rewrite Hs at 1. rewrite read_header_hdr by (try exact Hlv; apply two63_lt_two64; exact Hb).
  cbn [h_version]. rewrite Hclean, G1, G2.
  rewrite RS. rewrite parse_0510 by exact Hwf.
  cbn [lift_stage]. rewrite G3. reflexivity.
Qed.

(* ---- 3. the instance machine on a stream dispatched to a legacy branch ------------------- *)
Section Dispatch.
  Variable compat : list str.
  Variable cur : str.
  Variables Vars Levels : Type.
  Variable init_vars : slim -> Vars.
  Variable init_levels : slim -> Levels.
  Variable reset_levels : Levels.
  Variable conv510 : slim -> slim.
  Variable conv3 : list byte -> list byte -> list byte -> slim.
  Local Notation run := (Instance.run compat cur Vars Levels init_vars init_levels reset_levels conv510 conv3).
  Local Notation installed := (Instance.installed Vars Levels init_vars init_levels).

  Theorem run_legacy510 : forall (h : list op) (st : inst Vars Levels) b w,
    unmarshal compat cur b = OLegacy510 w ->
    run st (h ++ [OpUnmarshal b]) = installed (conv510 w).
  Proof.
    intros h st b w H. rewrite (run_app compat cur Vars Levels init_vars init_levels reset_levels conv510 conv3).
    cbn [Instance.run]. unfold Instance.step. rewrite H. reflexivity.
  Qed.

  Theorem run_legacy3 : forall (h : list op) (st : inst Vars Levels) b c s l,
    unmarshal compat cur b = OLegacy3 c s l ->
    run st (h ++ [OpUnmarshal b]) = installed (conv3 c s l).
  Proof.
    intros h st b c s l H. rewrite (run_app compat cur Vars Levels init_vars init_levels reset_levels conv510 conv3).
    cbn [Instance.run]. unfold Instance.step. rewrite H. reflexivity.
  Qed.
End Dispatch.
