(* Base.v - outcomes, small list utilities. Model files contain no proofs. *)
From Coq Require Export List Arith Bool NArith ZArith Lia.
From Coq.Strings Require Export Byte.
Export ListNotations.

(* Every partial operation of the Go code (index out of range, explicit panic)
   is the outcome [Panic]; fuel exhaustion is a separate outcome.  Theorems
   exclude both explicitly, they are never folded into a normal-looking value. *)
Inductive err :=
| EOutOfOrder (i : nat)      (* trie.ErrKeyOutOfOrder, first offending index *)
| EStepTooLong               (* trie.ErrStepTooLong (fix adeeffc) *)
| EPanic (code : nat)        (* a Go panic; code identifies the site *)
| EFuel.                     (* model fuel exhausted *)

Inductive res (A : Type) :=
| Ok (a : A)
| Err (e : err).
Arguments Ok {A} a.
Arguments Err {A} e.

Definition bind {A B} (r : res A) (f : A -> res B) : res B :=
  match r with Ok a => f a | Err e => Err e end.
Notation "'do' x <- r ; k" := (bind r (fun x => k)) (at level 200, x pattern, r at level 100, k at level 200).

Definition is_ok {A} (r : res A) : bool := match r with Ok _ => true | Err _ => false end.

Fixpoint take_while {A} (f : A -> bool) (l : list A) : list A :=
  match l with
  | [] => []
  | x :: r => if f x then x :: take_while f r else []
  end.

Fixpoint drop_while {A} (f : A -> bool) (l : list A) : list A :=
  match l with
  | [] => []
  | x :: r => if f x then drop_while f r else l
  end.

Fixpoint last_opt {A} (l : list A) : option A :=
  match l with
  | [] => None
  | [x] => Some x
  | _ :: r => last_opt r
  end.

Definition hd_opt {A} (l : list A) : option A :=
  match l with [] => None | x :: _ => Some x end.

Fixpoint list_eqb {A} (eqb : A -> A -> bool) (a b : list A) : bool :=
  match a, b with
  | [], [] => true
  | x :: a', y :: b' => eqb x y && list_eqb eqb a' b'
  | _, _ => false
  end.

Definition bytes_eqb := list_eqb Byte.eqb.

Fixpoint sum_list (l : list nat) : nat :=
  match l with [] => 0 | x :: r => x + sum_list r end.

(* adjacent de-duplication, as bmtree.PathsOf(.., dedup=true) *)
Fixpoint dedup_adj (l : list nat) : list nat :=
  match l with
  | [] => []
  | x :: r => match r with
              | [] => [x]
              | y :: _ => if Nat.eqb x y then dedup_adj r else x :: dedup_adj r
              end
  end.
