(* GetInt.v - executable model of trie/slimtrie_getint.go: GetI8, GetI16, GetI32,
   GetI64 (C14).  Definitions only; proofs in GetIntProofs.v.

   The four Go functions are one function of the width w (1, 2, 4, 8 bytes):

       eqID := st.GetID(key);  if eqID == -1 { return 0, false }
       ith, _ := st.getLeafIndex(eqID)            -- nodeid - rank of inner nodes
       stIdx := ith << log2 w                     -- ith * w
       b := st.inner.Leaves.Bytes[stIdx : stIdx+w]
       v := intN(b[0]) | intN(b[1])<<8 | ... | intN(b[w-1])<<(8(w-1))

   Leaves.Bytes is the concatenation of all leaf elements in leaf order
   (newVLenArray packs every element, empty ones contribute nothing).
   Partial operations are explicit outcomes: a nil Leaves is a nil-pointer
   dereference (EPanic 20), a slice or index beyond the buffer a run-time panic
   (EPanic 21).  Go's conversions and shifts on the signed type intN wrap
   modulo 2^(8w): [sint].  The buffer's capacity is taken to be its length (true
   for a built trie: make([]byte, 0, totalSize) filled exactly). *)
From Slim Require Import Base Keys Model.
From Slim Require Encoders.
Local Open Scope nat_scope.

(* intN(z): the value of the w-byte signed type congruent to z *)
Definition sint (w : nat) (z : Z) : Z := Encoders.unwrap true w (Encoders.wrap w z).

(* the operands of the | expression: intN(b[i]) << (8 i), evaluated in intN *)
Fixpoint or_terms (w : nat) (i : nat) (bs : list byte) : list Z :=
  match bs with
  | [] => []
  | b :: r => sint w (Z.shiftl (sint w (Encoders.Z_of_byte b)) (8 * Z.of_nat i)) :: or_terms w (S i) r
  end.

(* Go's | on signed integers is the bitwise or of the two's complement
   representations, which is Z.lor on the mathematical values *)
Definition geti_value (w : nat) (bs : list byte) : Z := fold_left Z.lor (or_terms w 0 bs) 0%Z.

Fixpoint leaf_ids (t : tree) : list nat :=
  match t with
  | Leaf id _ _ _ => [id]
  | Inner _ _ _ _ _ ch =>
      (fix go (ch : list (nat * tree)) : list nat :=
         match ch with [] => [] | (_, c) :: r => leaf_ids c ++ go r end) ch
  end.

(* getLeafIndex: node id minus the number of inner nodes before it = the number
   of leaves before it; for a leaf this is its ordinal *)
Definition leaf_index (T : trie) (c : tree) : nat :=
  match c with
  | Leaf _ ord _ _ => ord
  | Inner id _ _ _ _ _ =>
      match t_root T with
      | Some r => length (filter (fun x => x <? id) (leaf_ids r))
      | None => 0
      end
  end.

Definition geti (w : nat) (T : trie) (q : key) : res (Z * bool) :=
  match getid_node T q with
  | None => Ok (0%Z, false)
  | Some c =>
      let ith := leaf_index T c in
      match t_leaves T with
      | None => Err (EPanic 20)
      | Some ls =>
          let buf := concat ls in
          let st := ith * w in
          if length buf <? st + w then Err (EPanic 21)
          else Ok (geti_value w (firstn w (skipn st buf)), true)
      end
  end.

(* what Get's caller computes from the found bytes with the matching decoder:
   encode.I{8,16,32,64}.Decode = intN(binary.LittleEndian.UintN(b)) *)
Definition le_signed (w : nat) (b : list byte) : Z := Encoders.unwrap true w (Encoders.le_value b).

(* Get, followed by the decoder: the reference GetI is compared with *)
Definition get_then_decode (w : nat) (T : trie) (q : key) : res (Z * bool) :=
  match get T q with
  | Err e => Err e
  | Ok NotFound => Ok (0%Z, false)
  | Ok (Found None) => Err (EPanic 22)          (* nil interface asserted to intN *)
  | Ok (Found (Some b)) =>
      if length b <? w then Err (EPanic 23)      (* Decode: b[:size] out of range *)
      else Ok (le_signed w (firstn w b), true)
  end.

(* printing helper for the driver: the 8 big-endian bytes of z as int64 *)
Definition z_be8 (z : Z) : list byte := rev (Encoders.le_bytes 8 (Encoders.wrap 8 z)).

(* stable names for the driver (Byte.of_N / Byte.to_N clash with Z.of_N in the extracted file) *)
Definition byte_of_N : N -> option byte := Byte.of_N.
Definition byte_to_N : byte -> N := Byte.to_N.
