(* AcceptProofs.v - C08: the order check rejects exactly the lists that are not
   strictly ascending, and every strictly ascending list whose keys respect the
   step limit is accepted (no panic, no fuel exhaustion in the model of newSlim). *)
From Slim Require Import Base Keys KeysProofs ListFacts Model TrieInv BuildProofs.
From Coq Require Import Sorting.Sorted ZifyNat ZifyN ZifyBool.

Arguments Nat.div : simpl never.
Arguments Nat.modulo : simpl never.

(* ---------- rejection ---------- *)
Lemma build_order_error o keys vals i :
  build o keys vals = Err (EOutOfOrder i) <-> check_order keys = Some i.
Proof.
  destruct keys as [|k0 kr]; [cbn; split; discriminate|].
  rewrite build_unfold by discriminate.
  destruct (check_order (k0 :: kr)) as [j|] eqn:Ec.
  - split; intros H; inversion H; reflexivity.
  - split; [|discriminate]. cbv zeta. unfold bind.
    destruct (build_levels _ o true 0 0 _) as [[forest lidx]|e] eqn:Eb.
    + destruct forest as [|r [|r2 rest]]; discriminate.
    + (* build_levels never reports an order error *)
      intros H. inversion H; subst. exfalso. clear - Eb.
      assert (forall fuel isbig base lbase ss j, build_levels fuel o isbig base lbase ss <> Err (EOutOfOrder j)) as Hn.
      { assert (forall isbig s j, process_subset o isbig s <> Err (EOutOfOrder j)) as Hps.
        { intros isbig s j. unfold process_subset. destruct (s_ents s) as [|e0 [|e1 r]]; try discriminate.
          cbv zeta. repeat match goal with |- context [if ?c then _ else _] => destruct c end; discriminate. }
        assert (forall ss isbig j, process_level o isbig ss <> Err (EOutOfOrder j)) as Hpl.
        { induction ss as [|s r IH]; intros isbig j; cbn [process_level]; [discriminate|]. unfold bind.
          destruct (process_subset o isbig s) as [[d b]|e] eqn:E; [|intros H; inversion H; subst; eapply Hps; exact E].
          destruct (process_level o b r) as [[ds b']|e] eqn:E2; [discriminate|].
          intros H; inversion H; subst. eapply IH; exact E2. }
        induction fuel as [|f IH]; intros isbig base lbase ss j; destruct ss as [|s0 ss0]; cbn [build_levels]; try discriminate.
        unfold bind. destruct (process_level o isbig (s0 :: ss0)) as [[ds b]|e] eqn:E; [|intros H; inversion H; subst; eapply Hpl; exact E].
        cbv zeta. match goal with |- context [build_levels f o b ?x ?y ?z] => destruct (build_levels f o b x y z) as [[fo li]|e] eqn:E2 end; [discriminate|].
        intros H; inversion H; subst. eapply IH; exact E2. }
      eapply Hn; exact Eb.
Qed.

Theorem build_rejects_unsorted o keys vals :
  (exists i, build o keys vals = Err (EOutOfOrder i)) <-> ~ AdjSorted keys.
Proof.
  split.
  - intros (i & H). apply build_order_error in H. intros Hs. apply check_order_none in Hs. congruence.
  - intros Hn. destruct (check_order keys) as [i|] eqn:Ec.
    + exists i. apply build_order_error. exact Ec.
    + exfalso. apply Hn. apply check_order_none. exact Ec.
Qed.

(* the reported index is the first violation *)
Theorem build_order_error_first o keys vals i :
  build o keys vals = Err (EOutOfOrder i) ->
  exists a b, nth_error keys i = Some a /\ nth_error keys (S i) = Some b /\ ~ key_lt a b /\
              AdjSorted (firstn (S i) keys).
Proof.
  intros H. apply build_order_error in H. apply check_order_from_some in H.
  destruct H as (_ & a & b & Ha & Hb & Hn & Hs). rewrite Nat.sub_0_r in *. exists a, b. auto.
Qed.

(* ---------- acceptance ---------- *)
Section Accept.
  Variable o : opts.
  Variable M : nat.          (* bound on the nibble length of every key *)
  Hypothesis limit : o_inner o = false -> (N.of_nat M <= max_step)%N.

  Definition bounded (s : subset) : Prop := forall e, In e (s_ents s) -> length (e_nibs e) <= M.
  Definition even_from (s : subset) : Prop := Nat.even (s_from s) = true.

  Lemma lcps_ge_from s :
    SubInv s -> Forall (fun d => s_from s <= d) (adj_lcps (map e_nibs (s_ents s))).
  Proof.
    intros I.
    assert (forall l : list ent, (forall a b, In a l -> In b l -> firstn (s_from s) (e_nibs a) = firstn (s_from s) (e_nibs b)) ->
                                 (forall a, In a l -> s_from s <= length (e_nibs a)) ->
                                 Forall (fun d => s_from s <= d) (adj_lcps (map e_nibs l))) as H.
    { induction l as [|a l IH]; intros Hp Hl; [constructor|].
      destruct l as [|b l']; [constructor|]. cbn [map adj_lcps]. constructor.
      - apply firstn_lcp; [apply Hp; cbn; auto|apply Hl; cbn; auto|apply Hl; cbn; auto].
      - apply IH; [intros; apply Hp; cbn; auto|intros; apply Hl; cbn; auto]. }
    apply H; [apply (si_prefix s I)|apply (si_len s I)].
  Qed.

  Lemma sub_ws_ge_from s : SubInv s -> 2 <= length (s_ents s) -> s_from s <= sub_ws s.
  Proof.
    intros I Htwo. unfold sub_ws. cbv zeta. pose proof (lcps_ge_from s I) as Hf.
    destruct (s_ents s) as [|a [|b r]]; cbn [length] in Htwo; try lia.
    cbn [map adj_lcps hd] in *. inversion Hf; subst. apply list_min_ge; [assumption|constructor; assumption].
  Qed.

  Lemma process_subset_succeeds ib s :
    SubInv s -> bounded s -> (ib = true -> even_from s) ->
    exists d b2, process_subset o ib s = Ok (d, b2) /\
      match d with
      | DLeaf _ _ => length (s_ents s) = 1 /\ b2 = ib
      | DInner big _ _ labels kids => b2 = big /\ (big = true -> ib = true) /\ InnerFacts o s big labels kids
      end.
  Proof.
    intros I Hb Hev.
    destruct (s_ents s) as [|e0 [|e1 r]] eqn:Es.
    - destruct (si_kept s I) as (e & He & _). rewrite Es in He. destruct He.
    - unfold process_subset. rewrite Es. eexists _, _. split; [reflexivity|]. cbn. split; reflexivity.
    - assert (2 <= length (s_ents s)) as Htwo by (rewrite Es; cbn; lia).
      pose proof (sub_ws_ge_from s I Htwo) as Hws.
      set (diffs := adj_lcps (map e_nibs (e0 :: e1 :: r))).
      set (ws := list_min (hd 0 diffs) diffs).
      assert (ws = sub_ws s) as Ews by (unfold sub_ws; rewrite Es; reflexivity).
      set (big0 := ib && (big_threshold <? 1 + length (filter (fun d => d <? even_down ws + 2) diffs))).
      set (w0 := if big0 then even_down ws else ws).
      assert (s_from s <= w0) as Hw0.
      { unfold w0. destruct big0 eqn:Eb; [|lia].
        unfold big0 in Eb. apply andb_true_iff in Eb. destruct Eb as [Eib _].
        specialize (Hev Eib). unfold even_from in Hev. apply Nat.even_spec in Hev. destruct Hev as [k Hk].
        rewrite even_down_half. rewrite Hk in Hws |- *. rewrite <- Ews in Hws. lia. }
      assert (w0 <= M) as HwM.
      { assert (w0 = sub_w big0 s) as -> by (unfold w0, sub_w; rewrite Ews; reflexivity).
        pose proof (sub_w_len big0 s e0 Htwo) as H. rewrite Es in H. specialize (H (or_introl eq_refl)).
        specialize (Hb e0). rewrite Es in Hb. specialize (Hb (or_introl eq_refl)). lia. }
      assert (negb (o_inner o) && (max_step <? N.of_nat (w0 - s_from s))%N = false) as Hlim.
      { destruct (o_inner o) eqn:Ei; [reflexivity|]. cbn [negb andb]. apply N.ltb_ge. specialize (limit eq_refl). lia. }
      assert (exists step pfx labels kids, process_subset o ib s = Ok (DInner big0 step pfx labels kids, big0)) as (st & pf & lb & kd & Hproc).
      { unfold process_subset. rewrite Es. cbv zeta. fold diffs ws big0 w0.
        destruct (Nat.ltb_spec w0 (s_from s)); [lia|]. rewrite Hlim. eexists _, _, _, _. reflexivity. }
      exists (DInner big0 st pf lb kd), big0. split; [exact Hproc|].
      split; [reflexivity|]. split; [unfold big0; intros H; apply andb_true_iff in H; tauto|].
      eapply inner_facts; eassumption.
  Qed.

  (* the children of an accepted inner node *)
  Lemma kids_facts s big labels kids k :
    SubInv s -> bounded s -> InnerFacts o s big labels kids -> In k kids ->
    SubInv k /\ bounded k /\ (big = true -> even_from k) /\
    (2 <= length (s_ents k) -> s_from s + 1 <= s_from k) /\ s_from k <= M.
  Proof.
    intros I Hb F Hk. pose proof (kids_inv o s big labels kids k I F Hk) as Ik.
    rewrite (if_kids _ _ _ _ _ F) in Hk. apply in_map_iff in Hk. destruct Hk as (lb & <- & Hlb).
    split; [exact Ik|]. split.
    { intros e He. cbn [s_ents] in He. apply filter_In in He. apply Hb. tauto. }
    cbn [s_from s_ents]. split.
    { intros ->. unfold even_from. cbn [s_from]. rewrite Nat.even_add. rewrite sub_w_even.
      destruct lb; reflexivity. }
    split.
    - intros Htwo. destruct lb as [|lb'].
      + exfalso. apply In_nth_error in Hlb. destruct Hlb as (n & Hn).
        destruct (label0_singleton o s big labels kids
                    {| s_ents := filter (fun e => ent_label big (sub_w big s) e =? 0) (s_ents s); s_from := sub_w big s + label_width big 0 |}
                    n I F Hn) as (e & He).
        * rewrite (if_kids _ _ _ _ _ F), nth_error_map, Hn. reflexivity.
        * cbn [s_ents] in He. rewrite He in Htwo. cbn in Htwo. lia.
      + pose proof (if_w _ _ _ _ _ F). cbn [label_width]. destruct big; cbn [wsize]; lia.
    - destruct (si_kept _ Ik) as (e & He & _). pose proof (si_len _ Ik e He) as Hl. cbn [s_from s_ents] in *.
      apply filter_In in He. specialize (Hb e (proj1 He)). lia.
  Qed.

  Definition level_ok (isbig : bool) (fuel : nat) (ss : list subset) : Prop :=
    Forall SubInv ss /\ Forall bounded ss /\ (isbig = true -> Forall even_from ss) /\
    Forall (fun s => 2 <= length (s_ents s) -> M + 2 <= fuel + s_from s) ss /\
    Forall (fun s => s_from s <= M) ss.

  Lemma process_level_succeeds : forall ss isbig fuel,
    level_ok isbig (S fuel) ss ->
    exists ds b', process_level o isbig ss = Ok (ds, b') /\ level_ok b' fuel (flat_map kids_of ds) /\
                  (b' = true -> isbig = true) /\
                  (flat_map kids_of ds <> [] -> 1 <= fuel).
  Proof.
    induction ss as [|s r IH]; intros isbig fuel (HI & HB & HE & HF & HM).
    - exists [], isbig. split; [reflexivity|]. split; [repeat split; try constructor; intros; constructor|]. split; [auto|]. intros H; contradiction.
    - inversion HI as [|? ? Is HIr]; inversion HB as [|? ? Bs HBr]; inversion HF as [|? ? Fs HFr]; inversion HM as [|? ? Ms HMr]; subst.
      destruct (process_subset_succeeds isbig s Is Bs) as (d & b2 & Hp & Hd).
      { intros Hib. specialize (HE Hib). inversion HE; assumption. }
      assert (b2 = true -> isbig = true) as Hb2.
      { destruct d as [|big ? ? ? ?]; [destruct Hd as [_ ->]; auto|destruct Hd as (-> & Hbi & _); exact Hbi]. }
      destruct (IH b2 fuel) as (ds & b' & Hpl & Hlv & Hb' & Hfu).
      { repeat split; try assumption. intros Hb. specialize (HE (Hb2 Hb)). inversion HE; assumption. }
      exists (d :: ds), b'. cbn [process_level]. unfold bind. rewrite Hp, Hpl. split; [reflexivity|].
      cbn [flat_map]. destruct Hlv as (LI & LB & LE & LF & LM).
      destruct d as [tail eidx|big step pfx labels kids]; cbn [kids_of app].
      + split; [repeat split; assumption|]. split; [auto|exact Hfu].
      + destruct Hd as (-> & Hbi & F).
        assert (forall k, In k kids -> SubInv k /\ bounded k /\ (big = true -> even_from k) /\
                                      (2 <= length (s_ents k) -> s_from s + 1 <= s_from k) /\ s_from k <= M) as Hk
          by (intros k Hk; eapply kids_facts; eassumption).
        assert (2 <= length (s_ents s)) as Htwo by apply (if_two _ _ _ _ _ F).
        specialize (Fs Htwo).
        split; [|split].
        * repeat split; try (apply Forall_app; split; [|assumption]); try (rewrite Forall_forall; intros k Hin; apply Hk; exact Hin).
          -- intros Hb. apply Forall_app. split; [|apply LE; exact Hb].
             rewrite Forall_forall. intros k Hin. apply (Hk k Hin). apply Hb'. exact Hb.
          -- rewrite Forall_forall. intros k Hin H2. destruct (Hk k Hin) as (_ & _ & _ & Hfr & _). specialize (Hfr H2). lia.
        * intros Hb. apply Hbi. apply Hb'. exact Hb.
        * intros _. lia.
  Qed.

  Lemma build_levels_succeeds : forall fuel isbig base lbase ss,
    level_ok isbig fuel ss -> (ss <> [] -> 1 <= fuel) ->
    exists forest lidx, build_levels fuel o isbig base lbase ss = Ok (forest, lidx).
  Proof.
    induction fuel as [|f IH]; intros isbig base lbase ss Hl Hne.
    - destruct ss; [eexists _, _; reflexivity|]. assert (1 <= 0) by (apply Hne; discriminate). lia.
    - destruct ss as [|s0 ss0]; [eexists _, _; reflexivity|].
      remember (s0 :: ss0) as ss eqn:Ess.
      destruct (process_level_succeeds ss isbig f Hl) as (ds & b' & Hpl & Hlv & _ & Hfu).
      assert (build_levels (S f) o isbig base lbase ss =
              (do (ds, b) <- process_level o isbig ss;
               let lidx := flat_map leaf_idx_of ds in
               let cbase := base + length ss in
               do (forest, lidx') <- build_levels f o b cbase (lbase + length lidx) (flat_map kids_of ds);
               Ok (assemble ds base cbase lbase forest, lidx ++ lidx'))) as -> by (rewrite Ess; reflexivity).
      unfold bind. rewrite Hpl. cbv zeta.
      destruct (IH b' (base + length ss) (lbase + length (flat_map leaf_idx_of ds)) (flat_map kids_of ds) Hlv Hfu) as (forest & lidx & ->).
      eexists _, _. reflexivity.
  Qed.
End Accept.

Lemma max_nibs_fold : forall (keys : list key) m, m <= fold_left (fun m (k : key) => Nat.max m (2 * length k)) keys m /\
  forall k, In k keys -> 2 * length k <= fold_left (fun m (k : key) => Nat.max m (2 * length k)) keys m.
Proof.
  induction keys as [|k0 r IH]; intros m; cbn [fold_left]; [split; [lia|intros ? []]|].
  destruct (IH (Nat.max m (2 * length k0))) as [H1 H2]. split; [lia|].
  intros k [<-|Hk]; [lia|apply H2; exact Hk].
Qed.

Lemma max_nibs_bound keys k : In k keys -> length (nibs k) <= max_nibs keys.
Proof. intros H. rewrite nibs_length. apply (proj2 (max_nibs_fold keys 0)). exact H. Qed.

(* every strictly ascending list is accepted, unless a length-only step would overflow *)
Theorem build_accepts_sorted o keys vals :
  AdjSorted keys ->
  (o_inner o = false -> (N.of_nat (max_nibs keys) <= max_step)%N) ->
  exists T, build o keys vals = Ok T.
Proof.
  intros Hs Hlim. destruct keys as [|k0 kr]; [exists empty_trie; reflexivity|].
  set (keys := k0 :: kr) in *.
  rewrite build_unfold by discriminate.
  rewrite (proj2 (check_order_none keys) Hs). cbv zeta. unfold bind.
  pose proof (root_inv o keys vals Hs ltac:(discriminate)) as I.
  destruct (build_levels_succeeds o (max_nibs keys) Hlim (max_nibs keys + 3) true 0 0 [root_subset o keys vals]) as (forest & lidx & Hb).
  - unfold level_ok. split; [constructor; [exact I|constructor]|].
    split.
    { constructor; [|constructor]. intros e He. cbn [root_subset s_ents] in He.
      destruct (mk_ents_in _ _ _ _ He) as [Hok Hin]. rewrite Hok. apply max_nibs_bound. exact Hin. }
    split; [intros _; constructor; [reflexivity|constructor]|].
    split; [constructor; [|constructor]; cbn [root_subset s_from]; intros _; lia|].
    constructor; [cbn [root_subset s_from]; lia|constructor].
  - intros _. lia.
  - change [{| s_ents := mk_ents 0 keys (to_keep o (length keys) vals); s_from := 0 |}] with [root_subset o keys vals].
    rewrite Hb. pose proof (build_levels_ok _ _ _ _ _ _ _ _ Hb) as [HT _].
    inversion HT as [|? ? ? ? _ HT']; subst. inversion HT'; subst. eexists; reflexivity.
Qed.

(* within the documented key length (16 KiB) the step limit cannot be hit *)
Lemma documented_limit_fits : (2 * 16384 <= max_step)%N.
Proof. vm_compute. discriminate. Qed.

Lemma max_nibs_le (keys : list key) B : (forall k, In k keys -> length k <= B) -> max_nibs keys <= 2 * B.
Proof.
  intros H. unfold max_nibs.
  assert (forall (l : list key) m, m <= 2 * B -> (forall k, In k l -> length k <= B) ->
                      fold_left (fun m (k : key) => Nat.max m (2 * length k)) l m <= 2 * B) as Hf.
  { induction l as [|k r IH]; intros m Hm Hl; cbn [fold_left]; [exact Hm|].
    apply IH; [|intros; apply Hl; right; assumption]. specialize (Hl k (or_introl eq_refl)). lia. }
  apply Hf; [lia|exact H].
Qed.

Theorem build_accepts_documented o keys vals :
  AdjSorted keys ->
  (forall k, In k keys -> (N.of_nat (length k) <= 16384)%N) ->
  exists T, build o keys vals = Ok T.
Proof.
  intros Hs Hlen. apply build_accepts_sorted; [exact Hs|]. intros _.
  pose proof documented_limit_fits as Hd.
  assert (max_nibs keys <= 2 * N.to_nat 16384) as Hm.
  { apply max_nibs_le. intros k Hk. specialize (Hlen k Hk). lia. }
  lia.
Qed.
