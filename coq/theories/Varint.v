(* Varint.v - bytes, base-128 varints and little-endian 64-bit words as
   golang/protobuf 1.3.1 (proto/table_unmarshal.go: decodeVarint, encodeVarint)
   and encoding/binary (LittleEndian.PutUint64) produce and consume them.
   Model file: definitions only.  Proofs: VarintProofs.v.

   Conventions of the whole wire model (Varint, Proto, Semver, Frame, Instance):
   bytes are [Coq.Strings.Byte.byte], byte strings are [list byte], 64-bit
   quantities are [N] (theorems carry the bound < 2^64 as a hypothesis), signed
   32-bit quantities are [Z]; lengths and fuel are [nat]. *)
From Coq Require Import List NArith ZArith Bool.
From Coq.Strings Require Import Byte.
Import ListNotations.
Open Scope N_scope.

Definition two64 : N := 18446744073709551616.   (* 2^64 *)
Definition two63 : N := 9223372036854775808.    (* 2^63 *)
Definition two32 : N := 4294967296.
Definition two31 : N := 2147483648.

(* byte(n): Go's conversion of an unsigned integer to a byte keeps the low 8 bits.
   The [None] branch is unreachable (n mod 256 < 256, see VarintProofs.byte_of_N_to_N). *)
Definition byte_of_N (n : N) : byte :=
  match Byte.of_N (n mod 256) with Some b => b | None => x00 end.

Definition blen (l : list byte) : N := N.of_nat (length l).

(* ---- encodeVarint --------------------------------------------------------
   for x >= 1<<7 { b = append(b, byte(x&0x7f|0x80)); x >>= 7 }; append(b, byte(x))
   A uint64 needs at most 10 bytes; the fuel is the number of bytes still
   allowed.  The [O] branch is unreachable for n < 2^(7*fuel); every theorem
   about [encode_varint] assumes n < 2^64 and uses fuel 10. *)
Fixpoint enc_var (fuel : nat) (n : N) : list byte :=
  match fuel with
  | O => []
  | S f => if n <? 128 then [byte_of_N n]
           else byte_of_N (n mod 128 + 128) :: enc_var f (n / 128)
  end.

Definition encode_varint (n : N) : list byte := enc_var 10 n.

(* number of bytes of the varint, computed without building it (proto.SizeVarint) *)
Fixpoint size_var (fuel : nat) (n : N) : N :=
  match fuel with
  | O => 0
  | S f => if n <? 128 then 1 else 1 + size_var f (n / 128)
  end.
Definition size_varint (n : N) : N := size_var 10 n.

(* ---- decodeVarint --------------------------------------------------------
   Reads up to 10 bytes; byte i (0-based) contributes its low 7 bits at bit
   position 7*i; the 10th byte must be 0 or 1 ("y < 2"), anything else - and a
   truncated input - is the failure (0,0) of the Go function, here [None].
   Result: the value and the unread rest.  No wrap-around can occur: bytes 0..8
   contribute below 2^63 and the 10th at most 2^63. *)
Fixpoint dec_var (fuel : nat) (shift acc : N) (b : list byte) : option (N * list byte) :=
  match fuel with
  | O => None
  | S f =>
    match b with
    | [] => None
    | x :: r =>
      let v := Byte.to_N x in
      match f with
      | O => if v <? 2 then Some (acc + v * 2 ^ shift, r) else None
      | S _ => if v <? 128 then Some (acc + v * 2 ^ shift, r)
               else dec_var f (shift + 7) (acc + (v - 128) * 2 ^ shift) r
      end
    end
  end.

Definition decode_varint (b : list byte) : option (N * list byte) := dec_var 10 0 0 b.

(* ---- fixed-width little endian (encoding/binary) ------------------------- *)
Fixpoint le_bytes (k : nat) (n : N) : list byte :=
  match k with
  | O => []
  | S k' => byte_of_N n :: le_bytes k' (n / 256)
  end.
Definition le64 (n : N) : list byte := le_bytes 8 n.

Fixpoint le_value (b : list byte) : N :=
  match b with
  | [] => 0
  | x :: r => Byte.to_N x + 256 * le_value r
  end.

(* ---- conversions of decoded varints to the Go field types ---------------- *)
(* int32(x) for x uint64: low 32 bits, two's complement *)
Definition int32_of_u64 (x : N) : Z :=
  let y := x mod two32 in
  if y <? two31 then Z.of_N y else (Z.of_N y - Z.of_N two32)%Z.
(* uint64(v) for v int32: sign extension to 64 bits (negative values: 10-byte varints) *)
Definition u64_of_int32 (z : Z) : N := Z.to_N (z mod Z.of_N two64)%Z.
Definition uint32_of_u64 (x : N) : N := x mod two32.

Definition int32_ok (z : Z) : bool := ((- Z.of_N two31 <=? z) && (z <? Z.of_N two31))%Z.
Definition u64_ok (n : N) : bool := n <? two64.
Definition u32_ok (n : N) : bool := n <? two32.

(* split after the first n elements; None when fewer are available *)
Fixpoint take_exact {A} (n : nat) (l : list A) : option (list A * list A) :=
  match n with
  | O => Some ([], l)
  | S n' => match l with
            | [] => None
            | x :: r => match take_exact n' r with
                        | Some (a, b) => Some (x :: a, b)
                        | None => None
                        end
            end
  end.

(* take a length given as a (possibly huge) 64-bit number: compared with the
   available length before any conversion to nat *)
Definition take_N {A} (n : N) (l : list A) : option (list A * list A) :=
  if N.of_nat (length l) <? n then None else take_exact (N.to_nat n) l.
