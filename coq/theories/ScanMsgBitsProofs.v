(* ScanMsgBitsProofs.v - scanStackElt.nextLabelBit's bit loop (ScanMsgBits.mnext_label_bit:
   Inners.Words[i>>6] & Bit[i&63] for 17/257-bit nodes, bm & Bit[labelBit] for short-table
   nodes) returns the element n places further in the list of set bits Bits.node_labels
   decodes from the same words; updateLabel's width is Keys.label_width on the decoded word
   size.  For EVERY message (no encoding hypothesis beyond "the label list is not empty"). *)
From Slim Require Import Base Keys KeysProofs ListFacts Model BitmapRank BitmapRankProofs BitmapRank2 BitmapRank2Proofs
  BitmapSelectProofs Bits BitsVlenProofs ScanMsgBits.
From Coq Require Import Sorting.Sorted ZifyNat ZifyN ZifyBool.
Local Open Scope N_scope.

(* ---------- the loop over an abstract bit test ---------- *)
Fixpoint nlb (fuel : nat) (test : N -> bool) (size next : N) (n : nat) : option (option N) :=
  match n with
  | O => Some (if next =? 0 then None else Some (next - 1))
  | S n' =>
      match fuel with
      | O => None
      | S f =>
          if next =? size then Some None
          else if test next then nlb f test size (next + 1) n'
          else nlb f test size (next + 1) n
      end
  end.

Lemma nlb_zero fuel test size next : nlb fuel test size next 0 = Some (if next =? 0 then None else Some (next - 1)).
Proof. destruct fuel; reflexivity. Qed.

Definition lift (x : option (option N)) : res (option N) :=
  match x with Some r => Ok r | None => Err EFuel end.

Lemma sorted_app_r {A} (R : A -> A -> Prop) : forall a b, StronglySorted R (a ++ b) -> StronglySorted R b.
Proof. induction a as [|x a IH]; intros b H; [exact H|]. inversion H; subst. apply IH. assumption. Qed.

Lemma nth_error_skipn_hd {A} : forall (l : list A) j x rest, skipn j l = x :: rest -> nth_error l j = Some x.
Proof.
  induction l as [|y l IH]; intros j x rest H; [destruct j; discriminate|].
  destruct j; [cbn in H; inversion H; reflexivity|]. cbn [skipn] in H. cbn [nth_error]. eapply IH. exact H.
Qed.

Lemma firstn_S_skipn {A} : forall (l : list A) j x rest, skipn j l = x :: rest ->
  firstn (S j) l = firstn j l ++ [x] /\ skipn (S j) l = rest.
Proof.
  induction l as [|y l IH]; intros j x rest H; [destruct j; discriminate|].
  destruct j.
  - cbn in H. inversion H; subst. split; reflexivity.
  - cbn [skipn] in H. destruct (IH j x rest H) as [H1 H2]. split.
    + change (firstn (S (S j)) (y :: l)) with (y :: firstn (S j) l). rewrite H1. reflexivity.
    + exact H2.
Qed.

Lemma nlb_spec test size L :
  StronglySorted N.lt L ->
  (forall p, In p L <-> p < size /\ test p = true) ->
  forall fuel next j n,
    next <= size -> (N.to_nat (size - next) < fuel)%nat ->
    (forall p, In p (firstn j L) -> p < next) ->
    (forall p, In p (skipn j L) -> next <= p) ->
    nlb fuel test size next (S n) = Some (nth_error L (j + n)).
Proof.
  intros Hs Hin. induction fuel as [|f IH]; intros next j n Hle Hfuel Hlo Hhi; [lia|].
  cbn [nlb].
  assert (StronglySorted N.lt (skipn j L)) as Hss by (apply (sorted_app_r N.lt (firstn j L)); rewrite firstn_skipn; exact Hs).
  destruct (N.eqb_spec next size) as [->|Hne].
  - (* the end of the bitmap: nothing is left *)
    assert (skipn j L = []) as Hnil.
    { destruct (skipn j L) as [|h rest] eqn:E; [reflexivity|]. exfalso.
      assert (In h L) as HL by (rewrite <- (firstn_skipn j L), E; apply in_or_app; right; left; reflexivity).
      apply Hin in HL. specialize (Hhi h (or_introl eq_refl)). lia. }
    f_equal. symmetry. apply nth_error_None.
    assert (length L <= j)%nat.
    { destruct (Nat.le_gt_cases (length L) j) as [H|H]; [exact H|].
      assert (length (skipn j L) = (length L - j)%nat) as Hl by apply skipn_length. rewrite Hnil in Hl. cbn in Hl. lia. }
    lia.
  - destruct (test next) eqn:Et.
    + (* a set bit: it is the next element of the list *)
      assert (In next L) as HL by (apply Hin; split; [lia|exact Et]).
      assert (exists rest, skipn j L = next :: rest) as (rest & E).
      { rewrite <- (firstn_skipn j L) in HL. apply in_app_or in HL. destruct HL as [HL|HL]; [specialize (Hlo _ HL); lia|].
        destruct (skipn j L) as [|h rest] eqn:E; [destruct HL|]. exists rest. f_equal.
        destruct HL as [->|HL]; [reflexivity|].
        inversion Hss as [|? ? _ Hall]; subst. rewrite Forall_forall in Hall. specialize (Hall _ HL).
        specialize (Hhi h (or_introl eq_refl)). lia. }
      destruct (firstn_S_skipn L j next rest E) as [F1 F2].
      destruct n as [|n'].
      * rewrite nlb_zero. assert ((next + 1 =? 0) = false) as -> by (apply N.eqb_neq; lia).
        rewrite Nat.add_0_r. rewrite (nth_error_skipn_hd L j next rest E). do 2 f_equal. lia.
      * rewrite (IH (next + 1) (S j) n'); [f_equal; f_equal; lia|lia|lia| |].
        -- intros p Hp. rewrite F1 in Hp. apply in_app_or in Hp. destruct Hp as [Hp|[<-|[]]]; [specialize (Hlo _ Hp); lia|lia].
        -- intros p Hp. rewrite F2 in Hp. rewrite E in Hss. inversion Hss as [|? ? _ Hall]; subst.
           rewrite Forall_forall in Hall. specialize (Hall _ Hp). lia.
    + (* a clear bit *)
      apply (IH (next + 1) j n); [lia|lia| |].
      * intros p Hp. specialize (Hlo _ Hp). lia.
      * intros p Hp. specialize (Hhi _ Hp).
        assert (p <> next); [|lia]. intros ->.
        assert (In next L) as HL by (rewrite <- (firstn_skipn j L); apply in_or_app; right; exact Hp).
        apply Hin in HL. destruct HL as [_ HL]. congruence.
Qed.

(* the cursor after the j-th label: labelBit = labels[j-1] (or -1) *)
Definition cursor_next (L : list N) (j : nat) : N :=
  match j with O => 0 | S i => nth i L 0 + 1 end.

Lemma cursor_split : forall L, StronglySorted N.lt L -> forall j, (j <= length L)%nat ->
  (forall p, In p (firstn j L) -> p < cursor_next L j) /\ (forall p, In p (skipn j L) -> cursor_next L j <= p).
Proof.
  induction L as [|x r IH]; intros Hs j Hj.
  - cbn [length] in Hj. assert (j = 0%nat) as -> by lia. cbn. split; [intros p []|intros p []].
  - inversion Hs as [|? ? Hs' Hall]; subst. rewrite Forall_forall in Hall.
    destruct j as [|i]; [cbn [firstn skipn cursor_next]; split; [intros p []|intros; lia]|].
    cbn [length] in Hj. change (firstn (S i) (x :: r)) with (x :: firstn i r). change (skipn (S i) (x :: r)) with (skipn i r).
    destruct i as [|i'].
    + cbn [cursor_next nth firstn skipn]. split; [intros p [<-|[]]; lia|intros p Hp; specialize (Hall _ Hp); lia].
    + change (cursor_next (x :: r) (S (S i'))) with (cursor_next r (S i')).
      destruct (IH Hs' (S i') ltac:(lia)) as [H1 H2]. split; [|exact H2].
      intros p [<-|Hp]; [|apply H1; exact Hp].
      cbn [cursor_next]. assert (In (nth i' r 0) r) as Hn by (apply nth_In; lia). specialize (Hall _ Hn). lia.
Qed.

(* ---------- the two bitmap kinds ---------- *)
Lemma mnlb_short ws from to vbm : vbm <> 0 -> forall fuel next n, next <= 17 ->
  mnext_label_bit fuel ws from to vbm next n = lift (nlb fuel (N.testbit vbm) 17 next n).
Proof.
  intros Hnz. induction fuel as [|f IH]; intros next n Hle.
  - destruct n; reflexivity.
  - destruct n as [|n']; [reflexivity|]. cbn [mnext_label_bit nlb].
    assert ((vbm =? 0) = false) as -> by (apply N.eqb_neq; exact Hnz). cbn [negb].
    destruct (N.eqb_spec next 17) as [->|Hne]; [reflexivity|].
    assert ((64 <=? next) = false) as -> by (apply N.leb_gt; lia).
    rewrite land_bit_test. destruct (N.testbit vbm next); apply IH; lia.
Qed.

Lemma mnlb_words ws from to test :
  (forall p, p < to - from -> get_bit ws (from + p) = Val (test p)) ->
  forall fuel next n, next <= to - from ->
  mnext_label_bit fuel ws from to 0 next n = lift (nlb fuel test (to - from) next n).
Proof.
  intros Hg. induction fuel as [|f IH]; intros next n Hle.
  - destruct n; reflexivity.
  - destruct n as [|n']; [reflexivity|]. cbn [mnext_label_bit nlb]. cbn [N.eqb negb].
    destruct (N.eqb_spec next (to - from)) as [->|Hne]; [reflexivity|].
    rewrite (Hg next) by lia. destruct (test next); apply IH; lia.
Qed.

Lemma get_bits_val : forall n ws from l, get_bits ws from n = Val l ->
  length l = n /\ forall j, (j < n)%nat -> get_bit ws (from + N.of_nat j) = Val (nth j l false).
Proof.
  induction n as [|n IH]; intros ws from l H.
  - cbn in H. injection H as <-. split; [reflexivity|]. intros; lia.
  - cbn [get_bits] in H. destruct (nthN ws (word_of from)) as [w|] eqn:Ew; [|discriminate].
    destruct (get_bits ws (N.succ from) n) as [l'|] eqn:E; [|discriminate]. injection H as <-.
    destruct (IH ws (N.succ from) l' E) as [Hl Hg]. split; [cbn [length]; lia|].
    intros [|j] Hj.
    + cbn [nth]. rewrite N.add_0_r. unfold get_bit, nth_word, obind. rewrite Ew. f_equal. apply land_bit_test.
    + cbn [nth]. rewrite <- (Hg j) by lia. f_equal. lia.
Qed.

(* ---------- nextLabelBit = the next element of the decoded label list ---------- *)
Theorem next_label_bit_labels m from to bm ws ri labels :
  inner_words m = Val (ws, ri) ->
  node_labels m from to bm = Val labels ->
  ((to - from =? m_shortsize m) = true -> bm <> 0) ->
  StronglySorted N.lt labels /\
  forall j n fuel, (j <= length labels)%nat ->
    (N.to_nat (if to - from =? m_shortsize m then 17 else to - from)%N < fuel)%nat ->
    mnext_label_bit fuel ws from to (frame_bm m from to bm) (cursor_next labels j) (S n) =
    Ok (nth_error labels (j + n)).
Proof.
  intros Hw Hl Hnz. unfold node_labels in Hl. unfold frame_bm.
  destruct (to - from =? m_shortsize m) eqn:Es.
  - assert (labels = word_bits 17 bm 0) as HL by congruence. clear Hl. specialize (Hnz eq_refl).
    pose proof (word_bits_spec 17 bm 0) as [Hs Hin]. rewrite <- HL in Hs, Hin. clear HL. split; [exact Hs|].
    intros j n fuel Hj Hfuel.
    destruct (cursor_split _ Hs j Hj) as [Hlo Hhi].
    assert (cursor_next labels j <= 17) as Hc.
    { destruct j as [|i]; [cbn [cursor_next]; lia|]. cbn [cursor_next].
      assert (In (nth i labels 0) labels) as Hn by (apply nth_In; lia).
      apply Hin in Hn. lia. }
    rewrite (mnlb_short ws from to bm Hnz fuel _ (S n) Hc).
    rewrite (nlb_spec (N.testbit bm) 17 labels Hs) with (j := j); [reflexivity| |exact Hc|lia|exact Hlo|exact Hhi].
    intros p. rewrite Hin. rewrite N.sub_0_r. split; [intros (_ & A & B); split; [lia|exact B]|intros (A & B); split; [lia|split; [lia|exact B]]].
  - rewrite Hw in Hl. cbn [obind] in Hl.
    destruct (get_bits ws from (N.to_nat (to - from))) as [l|] eqn:Eg; cbn [obind] in Hl; [|discriminate].
    assert (labels = true_pos l 0) as HL by congruence. clear Hl.
    destruct (get_bits_val _ _ _ _ Eg) as [Hlen Hget].
    pose proof (true_pos_spec l 0) as [Hs Hin]. rewrite <- HL in Hs, Hin. clear HL. split; [exact Hs|].
    intros j n fuel Hj Hfuel.
    destruct (cursor_split _ Hs j Hj) as [Hlo Hhi].
    assert (cursor_next labels j <= to - from) as Hc.
    { destruct j as [|i]; [cbn [cursor_next]; lia|]. cbn [cursor_next].
      assert (In (nth i labels 0) labels) as Hn by (apply nth_In; lia).
      apply Hin in Hn. lia. }
    set (test := fun p => nth (N.to_nat p) l false).
    assert (forall p, p < to - from -> get_bit ws (from + p) = Val (test p)) as Hg.
    { intros p Hp. unfold test. rewrite <- (Hget (N.to_nat p)) by lia. f_equal. lia. }
    rewrite (mnlb_words ws from to test Hg fuel _ (S n) Hc).
    rewrite (nlb_spec test (to - from) labels Hs) with (j := j); [reflexivity| |exact Hc|lia|exact Hlo|exact Hhi].
    intros p. rewrite Hin. rewrite N.sub_0_r. unfold test.
    split; [intros (_ & A & B); split; [lia|exact B]|intros (A & B); split; [lia|split; [lia|exact B]]].
Qed.

(* ---------- updateLabel's width ---------- *)
(* the ranges getNode can produce, for any message *)
Lemma inner_range_shape m vs ith wsz from to bm :
  inner_range m vs ith = Val (wsz, from, to, bm) ->
  (wsz = 8 /\ to - from = 257 /\ bm = 0) \/ (wsz = 4 /\ to - from = 17 /\ bm = 0) \/ (wsz = 4 /\ to - from = m_shortsize m).
Proof.
  unfold inner_range. intros H.
  destruct (ith <? m_bigcnt m).
  - injection H as <- <- <- <-. left. repeat split. lia.
  - destruct (m_shortbm m) as [sb|]; [|discriminate].
    destruct (rank64 (b_words sb) (b_rank sb) ith) as [[ithshort isshort]|]; cbn [obind] in H; [|discriminate].
    destruct (_ <? 0)%Z; [discriminate|].
    destruct (isshort =? 0).
    + injection H as <- <- <- <-. right. left. repeat split. lia.
    + destruct (m_inners m) as [inn|]; [|discriminate].
      destruct (nth_word (b_words inn) _) as [w|]; cbn [obind] in H; [|discriminate].
      match type of H with obind ?x _ = _ => destruct x as [bmv|]; cbn [obind] in H; [|discriminate] end.
      destruct (nthN (m_shorttable m) bmv) as [t|]; [|discriminate].
      injection H as <- <- <- <-. right. right. split; [reflexivity|]. lia.
Qed.

Theorem label_width_bits m vs id ith wsz from to bm plen pfx lbit :
  get_node m vs id = Val (DnInner ith wsz from to bm plen pfx) ->
  m_shortsize m <= 64 ->
  ((to - from =? m_shortsize m) = true -> bm <> 0) ->
  mlabel_width_bits (frame_bm m from to bm) from to lbit = Ok (label_width (wsz =? 8) (N.to_nat lbit)).
Proof.
  intros Hg Hss Hnz. unfold get_node in Hg.
  destruct (m_nodetype m) as [nt|]; [|discriminate].
  destruct (rank64 (b_words nt) (b_rank nt) id) as [[ith' isinner]|]; cbn [obind] in Hg; [|discriminate].
  destruct (isinner =? 0).
  { unfold get_leaf_prefix in Hg. destruct (m_leafpfx m) as [lp|]; [|discriminate].
    destruct (v_presence lp) as [pres|]; [|discriminate].
    destruct (get_bit (b_words pres) (id - ith')) as [has|]; cbn [obind] in Hg; [|discriminate].
    destruct (negb has); [discriminate|].
    destruct (rank64 (b_words pres) (b_rank pres) (id - ith')) as [[a b]|]; cbn [obind] in Hg; [|discriminate].
    destruct (v_position lp) as [ps|]; [|discriminate].
    destruct (vlen_var_elt ps (v_bytes lp) a); cbn [obind] in Hg; discriminate. }
  destruct (inner_range m vs ith') as [[[[wsz' from'] to'] bm']|] eqn:Er; cbn [obind] in Hg; [|discriminate].
  destruct (inner_prefix m ith') as [[plen' pfx']|]; cbn [obind] in Hg; [|discriminate].
  injection Hg as <- <- <- <- <- <- <-.
  unfold mlabel_width_bits, frame_bm, label_width.
  destruct (N.eqb_spec lbit 0) as [->|Hl0]; [reflexivity|].
  assert (exists k, N.to_nat lbit = S k) as (k & ->) by (exists (pred (N.to_nat lbit)); lia).
  destruct (inner_range_shape _ _ _ _ _ _ _ Er) as [(-> & Hsz & ->)|[(-> & Hsz & ->)|(-> & Hsz)]].
  - destruct (to' - from' =? m_shortsize m) eqn:Es; cbn [N.eqb negb]; rewrite Hsz; reflexivity.
  - destruct (to' - from' =? m_shortsize m) eqn:Es; cbn [N.eqb negb]; rewrite Hsz; reflexivity.
  - assert ((to' - from' =? m_shortsize m) = true) as Es by (apply N.eqb_eq; exact Hsz).
    rewrite Es. specialize (Hnz Es).
    assert ((bm' =? 0) = false) as -> by (apply N.eqb_neq; exact Hnz). reflexivity.
Qed.
