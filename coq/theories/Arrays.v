(* Arrays.v - executable model of package array of openacid/slim (array/base.go, array.go,
   int.go, errors.go and the message type of array.pb.go).  Definitions only; proofs are in
   ArraysProofs.v.

   What corresponds to what:
     array32            the protobuf message array.Array32 (Cnt, Bitmaps, Offsets, Elts, Flags,
                        EltWidth, BMElts); int32/uint32/uint64 fields are N
     base               array.Base = Array32 + EltEncoder (None = nil interface)
     init_index         Base.InitIndex        base_init   Base.Init + InitElts
     array_init         Array.Init            new_typed   NewU16 .. NewI64
     new_generic        array.New                get_bytes   Base.GetBytes
     base_get           Base.Get              typed_get   U16.Get .. I64.Get
     to_msg/of_msg_*    what proto.Marshal reads / what proto.Unmarshal fills (field level;
                        the wire format is not modelled here)
   Element values are lists of integers (one per struct field, a scalar is a one-field
   value); an encoder is the list of the fields' integer kinds and encodes them packed,
   little endian - the behaviour of encode.TypeEncoder (encoding/binary) on fixed-size
   integer structs, and of the harness' hand-written struct encoder.

   Arithmetic is unbounded N.  It coincides with Go's int32 arithmetic as long as every
   position is < MaxInt32 and the element buffer is shorter than 2^31 bytes ([elts_fit]);
   the one place where the code meets the int32 boundary on small inputs (bitmap.Of on
   position MaxInt32) is modelled as the panic it is. *)
From Coq Require Import List Arith Bool NArith ZArith.
From Coq.Strings Require Import Byte.
From Slim Require Import BitmapRank.
Import ListNotations.
Local Open Scope N_scope.

(* ---------- integers and encoders ---------- *)

Record ikind := { k_signed : bool; k_bytes : nat }.
Definition U8  := {| k_signed := false; k_bytes := 1 |}.
Definition U16 := {| k_signed := false; k_bytes := 2 |}.
Definition U32 := {| k_signed := false; k_bytes := 4 |}.
Definition U64 := {| k_signed := false; k_bytes := 8 |}.
Definition I8  := {| k_signed := true; k_bytes := 1 |}.
Definition I16 := {| k_signed := true; k_bytes := 2 |}.
Definition I32 := {| k_signed := true; k_bytes := 4 |}.
Definition I64 := {| k_signed := true; k_bytes := 8 |}.

Definition k_bits (k : ikind) : N := 8 * N.of_nat (k_bytes k).

Definition byte_of (n : N) : byte :=
  match Byte.of_N (n mod 256) with Some b => b | None => x00 end.

Fixpoint le_encode (w : nat) (n : N) : list byte :=
  match w with
  | O => []
  | S w' => byte_of n :: le_encode w' (n / 256)
  end.

Fixpoint le_decode (bs : list byte) : N :=
  match bs with
  | [] => 0
  | b :: r => Byte.to_N b + 256 * le_decode r
  end.

(* Go conversion uintN -> intN *)
Definition to_signed (bits : N) (n : N) : Z :=
  if n <? 2 ^ (bits - 1) then Z.of_N n else (Z.of_N n - Z.of_N (2 ^ bits))%Z.

(* Go conversion (u)intN -> uintN: two's complement *)
Definition of_int (bits : N) (z : Z) : N := Z.to_N (z mod Z.of_N (2 ^ bits))%Z.

Definition decode_int (k : ikind) (bs : list byte) : Z :=
  if k_signed k then to_signed (k_bits k) (le_decode bs) else Z.of_N (le_decode bs).

Definition encode_int (k : ikind) (z : Z) : list byte :=
  le_encode (k_bytes k) (of_int (k_bits k) z).

(* values a variable of that Go type can hold (a Go integer type has at least one byte) *)
Definition int_ok (k : ikind) (z : Z) : Prop :=
  (0 < k_bytes k)%nat /\
  if k_signed k
  then (- Z.of_N (2 ^ (k_bits k - 1)) <= z < Z.of_N (2 ^ (k_bits k - 1)))%Z
  else (0 <= z < Z.of_N (2 ^ k_bits k))%Z.

Definition encoder := list ikind.     (* field kinds, in declaration order *)
Definition value := list Z.           (* one integer per field *)

Fixpoint enc_size (e : encoder) : nat :=
  match e with [] => O | k :: r => (k_bytes k + enc_size r)%nat end.

Fixpoint encode_fields (e : encoder) (v : value) : list byte :=
  match e, v with
  | k :: e', z :: v' => encode_int k z ++ encode_fields e' v'
  | _, _ => []
  end.

Fixpoint decode_fields (e : encoder) (bs : list byte) : value :=
  match e with
  | [] => []
  | k :: e' => decode_int k (firstn (k_bytes k) bs) :: decode_fields e' (skipn (k_bytes k) bs)
  end.

Inductive value_ok : encoder -> value -> Prop :=
| vok_nil : value_ok [] []
| vok_cons k e z v : int_ok k z -> value_ok e v -> value_ok (k :: e) (z :: v).

(* ---------- the message and the array types ---------- *)

Record bits := { b_flags : N; b_n : N; b_words : list N; b_rankindex : list N }.

Record array32 := {
  Cnt : N;
  Bitmaps : list N;
  Offsets : list N;
  Elts : list byte;
  Flags : N;
  EltWidth : N;
  BMElts : option bits
}.

Definition empty_array32 : array32 :=
  {| Cnt := 0; Bitmaps := []; Offsets := []; Elts := []; Flags := 0; EltWidth := 0; BMElts := None |}.

Record base := { arr : array32; enc : option encoder }.

Definition empty_base : base := {| arr := empty_array32; enc := None |}.

Inductive aerr := ErrIndexNotAscending | ErrIndexLen.

(* ---------- building ---------- *)

(* the compatibility quirk of InitIndex: the offset stored for an empty word is 0, not the
   rank before it *)
Fixpoint fix_empty (ws offs : list N) : list N :=
  match ws, offs with
  | w :: ws', o :: offs' => (if w =? 0 then 0 else o) :: fix_empty ws' offs'
  | _, _ => offs
  end.

Definition offsets_of (ws : list N) : list N := fix_empty ws (index_rank64 ws 0).

(* Base.InitIndex: returns the array and the error; on an error nothing is assigned.
   A panic inside bitmap.Of happens before the first assignment. *)
Definition init_index (a : array32) (idx : list N) : out (array32 * option aerr) :=
  if negb (ascending idx) then Val (a, Some ErrIndexNotAscending)
  else match bm_of idx with
       | Panic => Panic
       | Val ws =>
         Val ({| Cnt := N.of_nat (length idx); Bitmaps := ws; Offsets := offsets_of ws;
                 Elts := Elts a; Flags := Flags a; EltWidth := EltWidth a; BMElts := BMElts a |},
              None)
       end.

Definition set_elts (a : array32) (bs : list byte) : array32 :=
  {| Cnt := Cnt a; Bitmaps := Bitmaps a; Offsets := Offsets a; Elts := bs;
     Flags := Flags a; EltWidth := EltWidth a; BMElts := BMElts a |}.

(* Base.Init(indexes, elts) followed by InitElts.  [ty] is the static element type of
   the Go slice [elts] (the type encoder is derived from it when EltEncoder is nil).  The
   length check comes first; with no index the function returns before touching Elts. *)
Definition base_init (b : base) (ty : encoder) (idx : list N) (elts : list value)
  : out (base * option aerr) :=
  if negb (length idx =? length elts)%nat then Val (b, Some ErrIndexLen)
  else match init_index (arr b) idx with
       | Panic => Panic
       | Val (_, Some e) => Val (b, Some e)
       | Val (a, None) =>
         match idx with
         | [] => Val ({| arr := a; enc := enc b |}, None)
         | _ :: _ =>
           let e := match enc b with Some e => e | None => ty end in
           Val ({| arr := set_elts a (concat (map (encode_fields e) elts)); enc := enc b |}, None)
         end
       end.

(* Array.Init: Base.Init, then remember the type encoder if something was stored *)
Definition array_init (b : base) (ty : encoder) (idx : list N) (elts : list value)
  : out (base * option aerr) :=
  match base_init b ty idx elts with
  | Panic => Panic
  | Val (b', Some e) => Val (b', Some e)
  | Val (b', None) =>
    match enc b' with
    | None => if 0 <? Cnt (arr b') then Val ({| arr := arr b'; enc := Some ty |}, None)
              else Val (b', None)
    | Some _ => Val (b', None)
    end
  end.

Inductive built := Built (b : base) | Rejected (e : aerr).

Definition finish (r : out (base * option aerr)) : out built :=
  match r with
  | Panic => Panic
  | Val (_, Some e) => Val (Rejected e)        (* the constructors return a nil array *)
  | Val (b, None) => Val (Built b)
  end.

(* NewU16 .. NewI64 *)
Definition new_typed (k : ikind) (idx : list N) (zs : list Z) : out built :=
  finish (base_init empty_base [k] idx (map (fun z => [z]) zs)).

(* array.New(indexes, []T) *)
Definition new_generic (ty : encoder) (idx : list N) (vs : list value) : out built :=
  finish (array_init empty_base ty idx vs).

(* a := &array.Array{}; a.EltEncoder = e; a.Init(indexes, elts) *)
Definition new_with_encoder (e : encoder) (idx : list N) (vs : list value) : out built :=
  finish (array_init {| arr := empty_array32; enc := Some e |} e idx vs).

(* ---------- reading ---------- *)

Fixpoint dropN {A} (l : list A) (n : N) : option (list A) :=
  if n =? 0 then Some l
  else match l with
       | [] => None
       | _ :: r => dropN r (N.pred n)
       end.

Fixpoint take_exact {A} (l : list A) (n : nat) {struct n} : option (list A) :=
  match n with
  | O => Some []
  | S n' => match l with
            | [] => None
            | x :: r => match take_exact r n' with Some t => Some (x :: t) | None => None end
            end
  end.

(* s[st : st+n] with Go's bounds check against the length *)
Definition slice (l : list byte) (st : N) (n : nat) : option (list byte) :=
  match dropN l st with
  | None => None
  | Some t => take_exact t n
  end.

(* Base.GetBytes(idx, eltsize): Val None is (nil, false) *)
Definition get_bytes (a : array32) (i : N) (eltsize : nat) : out (option (list byte)) :=
  match rank64 (Bitmaps a) (Offsets a) i with
  | Panic => Panic
  | Val (r, b) =>
    if b =? 0 then Val None
    else match slice (Elts a) (N.of_nat eltsize * r) eltsize with
         | None => Panic
         | Some bs => Val (Some bs)
         end
  end.

(* Base.Get(idx): a nil EltEncoder is a nil-interface method call *)
Definition base_get (b : base) (i : N) : out (option value) :=
  match enc b with
  | None => Panic
  | Some e =>
    match get_bytes (arr b) i (enc_size e) with
    | Panic => Panic
    | Val None => Val None
    | Val (Some bs) => Val (Some (decode_fields e bs))
    end
  end.

(* U16.Get .. I64.Get: Bitmaps[iBm] is read first, Offsets[iBm] only for a set bit;
   endian.UintN(a.Elts[stIdx:]) panics when fewer than N/8 bytes are left.
   (uint64(1) << iBit) - 1 is N.ones iBit by definition of N.ones. *)
Definition typed_get (k : ikind) (a : array32) (i : N) : out (Z * bool) :=
  let iBm := word_of i in
  let iBit := bit_of i in
  match nthN (Bitmaps a) iBm with
  | None => Panic
  | Some n =>
    if N.land (N.shiftr n iBit) 1 =? 0 then Val (0%Z, false)
    else
      let cnt1 := popcount (N.land n (N.ones iBit)) in
      match nthN (Offsets a) iBm with
      | None => Panic
      | Some off =>
        let w := N.of_nat (k_bytes k) in
        match slice (Elts a) (off * w + cnt1 * w) (k_bytes k) with
        | None => Panic
        | Some bs => Val (decode_int k bs, true)
        end
      end
  end.

(* a probe is an int32; a negative one indexes Bitmaps/Offsets with a negative number *)
Definition probe {A} (f : N -> out A) (i : Z) : out A :=
  if (i <? 0)%Z then Panic else f (Z.to_N i).

(* the three accessors seen through one lens: what the raw-bytes answer means for the
   typed and for the generic accessor *)
Definition typed_of_raw (k : ikind) (r : out (option (list byte))) : out (Z * bool) :=
  match r with
  | Panic => Panic
  | Val None => Val (0%Z, false)
  | Val (Some bs) => Val (decode_int k bs, true)
  end.

Definition generic_of_raw (e : encoder) (r : out (option (list byte))) : out (option value) :=
  match r with
  | Panic => Panic
  | Val None => Val None
  | Val (Some bs) => Val (Some (decode_fields e bs))
  end.

Definition generic_of_typed (r : out (Z * bool)) : out (option value) :=
  match r with
  | Panic => Panic
  | Val (_, false) => Val None
  | Val (z, true) => Val (Some [z])
  end.

(* ---------- serialization, at the level of message fields ---------- *)

(* proto.Marshal(a) serializes the embedded Array32; proto.Unmarshal(buf, t) resets and
   refills the embedded Array32 of the target and leaves its EltEncoder alone.  The wire
   format itself (varints, packed fields, omission of zero fields) is not modelled here;
   Marshal/Unmarshal are taken to preserve the seven fields (nil and empty slices are the
   same list). *)
Definition to_msg (b : base) : array32 := arr b.
Definition of_msg_typed (m : array32) : base := {| arr := m; enc := None |}.               (* into &array.U16{} etc. *)
Definition of_msg_generic (ty : encoder) (m : array32) : base := {| arr := m; enc := Some ty |}.  (* into array.NewEmpty(zero) *)

(* ---------- hypotheses of the theorems ---------- *)

Definition span (a : array32) : N := 64 * N.of_nat (length (Bitmaps a)).

Definition idx_ok (idx : list N) : Prop := Forall (fun i => i < int32_max) idx.

Definition elts_fit (e : encoder) (idx : list N) : Prop :=
  N.of_nat (enc_size e) * N.of_nat (length idx) <= int32_max.

(* ---------- the specification: a built array is a sparse map ---------- *)

(* typed array: listed positions give (element, true) through the typed accessor and the
   element's bytes through GetBytes; other positions within the span give (0, false) and
   (nil, false); beyond the span both accessors panic (index out of range) *)
Definition sparse_map_typed (k : ikind) (b : base) (idx : list N) (zs : list Z) : Prop :=
  span (arr b) = 64 * span_words idx /\
  (forall j, (j < length idx)%nat ->
     nth j idx 0 < span (arr b) /\
     typed_get k (arr b) (nth j idx 0) = Val (nth j zs 0%Z, true) /\
     get_bytes (arr b) (nth j idx 0) (k_bytes k) = Val (Some (encode_int k (nth j zs 0%Z)))) /\
  (forall i, i < span (arr b) -> ~ In i idx ->
     typed_get k (arr b) i = Val (0%Z, false) /\ get_bytes (arr b) i (k_bytes k) = Val None) /\
  (forall i, span (arr b) <= i ->
     typed_get k (arr b) i = Panic /\ get_bytes (arr b) i (k_bytes k) = Panic).

Definition sparse_map_generic (e : encoder) (b : base) (idx : list N) (vs : list value) : Prop :=
  span (arr b) = 64 * span_words idx /\
  (forall j, (j < length idx)%nat ->
     nth j idx 0 < span (arr b) /\
     base_get b (nth j idx 0) = Val (Some (nth j vs [])) /\
     get_bytes (arr b) (nth j idx 0) (enc_size e) = Val (Some (encode_fields e (nth j vs [])))) /\
  (forall i, i < span (arr b) -> ~ In i idx ->
     base_get b i = Val None /\ get_bytes (arr b) i (enc_size e) = Val None) /\
  (forall i, span (arr b) <= i ->
     base_get b i = Panic /\ get_bytes (arr b) i (enc_size e) = Panic).
