(* EndToEndScan.v - the scanners run over an instance state (inner message + vars), as in
   EndToEnd.v for the point queries.  getGEPath tests st.inner.NodeTypeBM == nil before
   anything else and then yields the empty path: no node is read, vars is not touched. *)
From Coq Require Import List NArith Bool.
From Coq.Strings Require Import Byte.
From Slim Require Import Base Keys Model BitmapRank Scan Msg ScanMsg.
From Slim Require Bits.
From Slim Require Import Varint Proto Semver Frame Instance Wire EndToEnd.
Import ListNotations.

Section Scans.
  Variable Levels : Type.
  Definition inst_iter_all (st : inst VarsT Levels) (fuel lfuel : nat) (start : key) (incl withv : bool) (extra : nat)
    : res (list kv * list (option kv)) :=
    with_msg Levels st ([], repeat None extra) (fun m vs => miter_all fuel lfuel m vs start incl withv extra).
  Definition inst_scan_from (st : inst VarsT Levels) (fuel lfuel : nat) (start : key) (incl withv : bool) (fn : callback)
    : res (list kv) :=
    with_msg Levels st [] (fun m vs => mscan_from fuel lfuel m vs start incl withv fn).
  Definition inst_scan_from_to (st : inst VarsT Levels) (fuel lfuel : nat) (start : key) (incl : bool) (e : key)
             (incle withv : bool) (fn : callback) : res (list kv) :=
    with_msg Levels st [] (fun m vs => mscan_from_to fuel lfuel m vs start incl e incle withv fn).
End Scans.
