(* TypedProofs.v - the typed view of Get: NewSlimTrie stores e.Encode(v_i) for every value, Get
   hands the stored bytes to e.Decode.  Composition of C01 (the stored bytes of a retained key
   are the bytes supplied for it) with C15 (Decode inverts Encode for every encoder). *)
From Coq Require Import List Arith Lia.
From Coq.Strings Require Import Byte.
From Slim Require Import Base Keys Model QueryProofs Encoders EncodersProofs.
Import ListNotations.

Lemma Forall2_nth_error {A B} (R : A -> B -> Prop) l1 l2 i a :
  Forall2 R l1 l2 -> nth_error l1 i = Some a -> exists b, nth_error l2 i = Some b /\ R a b.
Proof.
  intros H; revert i. induction H as [|x y l1 l2 Hxy _ IH]; intros i Hn; [destruct i; discriminate|].
  destruct i as [|i]; cbn in *.
  - injection Hn as <-. exists y. split; [reflexivity|exact Hxy].
  - apply IH. exact Hn.
Qed.

Theorem typed_value_found (e : encoder) o keys (tvals : list value) (encs : list (list byte)) T i k tv :
  Forall (in_domain e) tvals ->
  Forall2 (fun v b => enc_encode e v = DOk b) tvals encs ->
  build o keys (Some encs) = Ok T ->
  nth_error keys i = Some k -> nth_error tvals i = Some tv ->
  retained o keys (Some encs) i = true ->
  exists v, get T k = Ok (Found v) /\ enc_decode e (val_bytes v) = DOk (length (val_bytes v), tv).
Proof.
  intros Hd He Hb Hk Ht Hr.
  destruct (kept_key_found o keys (Some encs) T i k Hb Hk Hr) as (_ & v & Hg & Hv & _).
  exists v. split; [exact Hg|].
  destruct (Forall2_nth_error _ _ _ _ _ He Ht) as (b & Hnb & Heb).
  assert (val_bytes v = b) as ->.
  { rewrite Hv. unfold supplied. apply nth_error_nth. exact Hnb. }
  assert (in_domain e tv) as Hdom by (rewrite Forall_forall in Hd; apply Hd; eapply nth_error_In; exact Ht).
  destruct (enc_roundtrip e tv [] Hdom) as (enc & H1 & H2 & _).
  rewrite Heb in H1. injection H1 as <-. rewrite app_nil_r in H2. exact H2.
Qed.
