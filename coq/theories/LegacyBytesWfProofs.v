(* LegacyBytesWfProofs.v - every node table the old writer (LegacyConv.old_write) produces is
   well formed in the sense of LegacyBytes.table_wf: strictly ascending nibble labels below
   16, every id is an inner node or a leaf, steps fit 16 bits, leaves carry the index of one
   of the keys.  Same induction over the breadth-first levels as LegacyConvMainProofs
   (old_level_total / old_levels_total), whose subset invariant sub_ok is re-used. *)
From Coq Require Import List Arith Bool NArith ZArith Lia Sorted.
From Slim Require Import Base Keys KeysProofs ListFacts Model TrieInv BuildProofs
     LegacyConv LegacyConvProofs LegacyConvSimProofs LegacyConvMainProofs.
From Slim Require Import BitmapRank LegacyBytes.
Import ListNotations.
Local Open Scope nat_scope.

Definition lab_ok (l : list nat) : Prop := StronglySorted lt l /\ Forall (fun b => b < 16) l.

Definition node_pre (K : nat) (n : old_node) : Prop :=
  lab_ok (on_bm n) /\ (is_inner n || has_leaf n = true) /\ (forall k, on_leaf n = Some k -> k < K).

Definition idx_lt (K : nat) (s : subset) : Prop := Forall (fun e => e_idx e < K) (s_ents s).

Lemma SS_map_S_inv : forall l, StronglySorted lt (map S l) -> StronglySorted lt l.
Proof.
  induction l as [|a l IH]; intros H; [constructor|].
  cbn [map] in H. inversion H as [|? ? Hs Hf]; subst. constructor; [apply IH; exact Hs|].
  rewrite Forall_forall in *. intros x Hx. specialize (Hf (S x) (in_map S _ _ Hx)). lia.
Qed.

Lemma nib_at_lt16 : forall w e, ent_ok e -> nib_at w e < 16.
Proof.
  intros w e H. unfold nib_at. pose proof (ent_ok_lt16 e H) as Hf. rewrite Forall_forall in Hf.
  destruct (Nat.lt_ge_cases w (length (e_nibs e))) as [L|L].
  - apply Hf. apply nth_In. exact L.
  - rewrite nth_overflow by exact L. lia.
Qed.

Lemma old_level_pre ls K M f : forall ss,
  Forall (sub_ok M (S f)) ss -> Forall (idx_lt K) ss ->
  forall ns ks, old_level ls ss = Ok (ns, ks) ->
  Forall (node_pre K) ns /\ Forall (idx_lt K) ks.
Proof.
  induction ss as [|s r IH]; intros Hs Hi ns ks E.
  - cbn in E. injection E as <- <-. split; constructor.
  - inversion Hs as [|? ? Hs0 Hsr]; subst. inversion Hi as [|? ? Hi0 Hir]; subst.
    cbn [old_level] in E.
    destruct (old_process ls s) as [[n k]|e] eqn:Ep; cbn [bind] in E; [|discriminate].
    destruct (old_level ls r) as [[ns' ks']|e] eqn:El; cbn [bind] in E; [|discriminate].
    injection E as <- <-. destruct (IH Hsr Hir _ _ eq_refl) as [Hn Hk].
    assert (node_pre K n /\ Forall (idx_lt K) k) as [Hn0 Hk0]; [|split; [constructor; assumption|apply Forall_app; split; assumption]].
    destruct Hs0 as (I & Kp & _). unfold idx_lt in Hi0.
    destruct (s_ents s) as [|e0 [|e1 r']] eqn:Es.
    + destruct (si_kept s I) as (e & He & _). rewrite Es in He. destruct He.
    + unfold old_process in Ep. rewrite Es in Ep. injection Ep as <- <-. split; [|constructor].
      split; [split; constructor|]. split; [reflexivity|].
      cbn [on_leaf]. intros k0 Hk0'. injection Hk0' as <-. inversion Hi0; assumption.
    + rewrite (node_old_process ls s I e0 e1 r' Es) in Ep. injection Ep as <- <-.
      assert (Hsub : forall a, In a (node_R s e0 e1 r') -> In a (e0 :: e1 :: r')).
      { intros a Ha. rewrite <- Es. apply (node_R_sub s e0 e1 r' Es). exact Ha. }
      split.
      * split; [|split].
        -- cbn [node_old on_bm]. split.
           ++ pose proof (node_labels_asc s I e0 e1 r' Es) as Hl. unfold node_labels in Hl.
              apply SS_app_inv in Hl. destruct Hl as (_ & Hl & _). apply SS_map_S_inv. exact Hl.
           ++ apply Forall_forall. intros x Hx. unfold node_bm in Hx. apply (proj1 (dedup_adj_In _ _)) in Hx.
              apply in_map_iff in Hx. destruct Hx as (e & <- & He). apply nib_at_lt16.
              pose proof (si_ok s I) as Hok. rewrite Forall_forall in Hok. apply Hok. rewrite Es. apply Hsub. exact He.
        -- unfold is_inner. cbn [node_old on_bm]. pose proof (node_bm_nonempty s e0 e1 r') as Hne.
           destruct (node_bm s e0 e1 r'); [congruence|reflexivity].
        -- cbn [node_old on_leaf]. intros k0 Hk0'. destruct (node_ends s e0); [|discriminate].
           injection Hk0' as <-. inversion Hi0; assumption.
      * apply Forall_forall. intros kd Hkd. unfold node_okids in Hkd. apply in_map_iff in Hkd.
        destruct Hkd as (lb & <- & _). unfold idx_lt. cbn [s_ents].
        apply Forall_forall. intros e He. apply filter_In in He. destruct He as [He _].
        rewrite Forall_forall in Hi0. apply Hi0. apply Hsub. exact He.
Qed.

Lemma old_levels_pre ls K M : forall f ss,
  Forall (sub_ok M f) ss -> (ss <> [] -> 1 <= f) -> Forall (idx_lt K) ss ->
  forall ot, old_levels f ls ss = Ok ot -> Forall (node_pre K) ot.
Proof.
  induction f as [|f IH]; intros ss Hs Hne Hi ot E.
  - destruct ss; [cbn in E; injection E as <-; constructor|specialize (Hne ltac:(discriminate)); lia].
  - rewrite old_levels_unfold in E.
    destruct (old_level_total ls M f ss Hs) as (ns & ks & El & Hk & Hf & _).
    rewrite El in E. cbn [bind] in E.
    destruct (old_level_pre ls K M f ss Hs Hi ns ks El) as [Hn Hik].
    destruct (old_levels f ls ks) as [rest|e] eqn:Er; cbn [bind] in E; [|discriminate].
    injection E as <-. apply Forall_app. split; [exact Hn|]. apply (IH ks Hk Hf Hik rest Er).
Qed.

Lemma mk_ents_idx : forall keys i keep e, In e (mk_ents i keys keep) -> i <= e_idx e < i + length keys.
Proof.
  induction keys as [|k r IH]; intros i keep e H; cbn [mk_ents] in H; [destruct H|].
  destruct H as [<-|H]; [cbn; lia|]. specialize (IH _ _ _ H). cbn [length]. lia.
Qed.

Lemma lab_ok_okb : forall l, lab_ok l -> labels_okb l = true.
Proof.
  intros l [Hs Hb]. induction l as [|a r IH]; [reflexivity|].
  inversion Hs as [|? ? Hs' Har]; subst. inversion Hb as [|? ? Ha Hb']; subst.
  cbn [labels_okb]. rewrite (IH Hs' Hb'), andb_true_r. apply andb_true_iff. split; [apply Nat.ltb_lt; exact Ha|].
  destruct r as [|b r']; [reflexivity|]. inversion Har; subst. apply Nat.ltb_lt. assumption.
Qed.

(* every node of a written table is well formed *)
Theorem old_write_nodes_wf : forall ls keys ot,
  AdjSorted keys -> old_write ls keys = Ok ot ->
  forallb (node_wf (length keys)) ot = true.
Proof.
  intros ls keys ot Hs E. unfold old_write in E.
  destruct (old_write_raw ls keys) as [ot0|e] eqn:Er; cbn [bind] in E; [|discriminate].
  destruct (old_fits ot0) eqn:Ef; [|discriminate]. injection E as <-.
  assert (Forall (node_pre (length keys)) ot0) as Hp.
  { destruct keys as [|k0 kr] eqn:Ek; [cbn in Er; injection Er as <-; constructor|]. rewrite <- Ek in *.
    unfold old_write_raw in Er. rewrite Ek in Er. rewrite <- Ek in Er.
    eapply (old_levels_pre ls (length keys) (max_nibs keys)); [| | |exact Er].
    - constructor; [apply old_root_ok; [exact Hs|rewrite Ek; discriminate]|constructor].
    - intros _. lia.
    - constructor; [|constructor]. unfold idx_lt, old_root. cbn [s_ents].
      apply Forall_forall. intros e He. apply mk_ents_idx in He. lia. }
  apply forallb_forall. intros n Hn. rewrite Forall_forall in Hp. destruct (Hp n Hn) as (Hl & Hil & Hk).
  unfold old_fits in Ef. rewrite forallb_forall in Ef. specialize (Ef n Hn).
  unfold node_wf. rewrite (lab_ok_okb _ Hl), Hil, Ef. cbn [andb].
  destruct (on_leaf n) as [k|]; [|reflexivity]. apply Nat.ltb_lt. apply Hk. reflexivity.
Qed.
