(* IndexRangeProofs.v - C12, sparse index: RangeGet + reader = the record map.
   Hits by C02 (SearchProofs.rangeget_indexed: RangeGet on every indexed key,
   retained or de-duplicated away, returns the bytes supplied for it), misses
   by IndexProofs.rangeget_supplied. *)
From Slim Require Import Base Keys KeysProofs ListFacts Model TrieInv BuildProofs QueryProofs ConsistProofs OrderProofs SearchProofs.
From Slim Require Import Index IndexProofs.
Local Open Scope nat_scope.

Theorem index_rangeget_exact rs T q :
  offs_in_range rs = true ->
  index_build rs = Ok T ->
  index_rangeget T (table_reader rs) q = Ok (lookup rs q).
Proof.
  intros Hr Hb. pose proof (sorted_of_build rs T Hb) as Hs.
  rewrite index_build_eq in Hb. unfold index_rangeget.
  destruct (key_in_or_not rs q) as [(r & Hin & Hk)|Hno].
  - apply In_nth_error in Hin. destruct Hin as (i & Hn).
    destruct (rangeget_indexed iopts (ikeys rs) (ivals rs) T i (r_key r) Hb (ikeys_nth rs i r Hn) (ivals_length rs))
      as (v & Hg & Hv & _).
    subst q. rewrite Hg. cbn [bind].
    rewrite (read_supplied rs i r v (r_key r) Hr Hn Hv).
    destruct (reader_hit rs r Hs (nth_error_In _ _ Hn)) as [H1 H2]. rewrite H1, H2. reflexivity.
  - destruct (reader_miss rs 0%Z q Hno) as [_ Hl]. rewrite Hl.
    destruct (lookups_total_consistent iopts (ikeys rs) (ivals rs) T q Hb) as (_ & (f & Hf) & _).
    rewrite Hf. cbn [bind]. destruct f as [|v]; [reflexivity|].
    destruct (rangeget_supplied iopts (ikeys rs) (ivals rs) T q v Hb Hf) as (i & Hi & Hv).
    unfold ikeys in Hi. rewrite map_length in Hi.
    destruct (nth_error rs i) as [r|] eqn:Hn; [|apply nth_error_None in Hn; lia].
    rewrite (read_supplied rs i r v q Hr Hn Hv).
    destruct (reader_miss rs (r_off r) q Hno) as [H1 _]. rewrite H1. reflexivity.
Qed.

(* as the property states it: block offsets (adjacent keys share an offset, offsets do not decrease) *)
Corollary index_rangeget_exact_blocks rs T q :
  offs_in_range rs = true -> offs_nondecreasing rs = true ->
  index_build rs = Ok T ->
  index_rangeget T (table_reader rs) q = Ok (lookup rs q).
Proof. intros Hr _. apply index_rangeget_exact. exact Hr. Qed.
