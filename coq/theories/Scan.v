(* Scan.v - executable model of the scan APIs of trie/slimtrie_scan.go on the
   tree model of Model.v: getGEPath, newIter / the two closures it returns,
   next, scanStackElt.{init,nextLabel,updateLabel,appendLabel,appendInnerPrefix,
   appendLeafPrefix}, ScanFrom, ScanFromTo, NewIter.

   Positions are counted in nibbles (the Go code counts bits; every position it
   uses is a multiple of 4).  The key buffer is a list of nibbles: the Go buffer
   is the byte packing of it (an odd trailing nibble is the high half of a byte
   whose low half is never read before it is overwritten or cut off: the three
   append* functions cut the buffer at prefixStart>>3, (prefixEnd+7)>>3 and
   labelEnd>>3 bytes and every key handed out ends with appendLeafPrefix, i.e.
   at a byte boundary).  The correspondence check compares the yielded keys
   byte for byte with the implementation.

   Outcomes [Err (EPanic c)]:
     c = 20      the explicit panic of getGEPath on an incomplete trie;
     c = 10, 11  as in Model.leaf_value (value of a non-leaf / ordinal out of range);
     c >= 40     states the nibble abstraction does not follow (a path element
                 that is not a child of its predecessor, a buffer shorter than a
                 cursor - Go would expose stale capacity bytes -, an 8-bit label
                 at an odd nibble, a nibble >= 16).  ScanProofs shows that none of
                 them is reachable on a trie built with complete keys; on the
                 implementation side any difference shows up in the correspondence.
   No proofs in this file. *)
From Slim Require Import Base Keys Model.

Definition kv : Type := (key * option (list byte))%type.

(* ---- nibble buffer -> bytes ---- *)
Definition byte_of_nibs (a b : nat) : option byte :=
  if (a <? 16) && (b <? 16) then Byte.of_nat (a * 16 + b) else None.

Fixpoint pack (ns : list nat) : option (list byte) :=
  match ns with
  | [] => Some []
  | a :: r =>
      match r with
      | [] => match byte_of_nibs a 0 with Some x => Some [x] | None => None end
      | b :: r' =>
          match byte_of_nibs a b, pack r' with
          | Some x, Some y => Some (x :: y)
          | _, _ => None
          end
      end
  end.

Definition pack_res (ns : list nat) : res key :=
  match pack ns with Some k => Ok k | None => Err (EPanic 46) end.

Definition tail_nibs (tail : option (list byte)) : list nat :=
  match tail with Some t => nibs t | None => [] end.

(* the nibbles of the label with index [lb]: none for the end-of-key label *)
Definition label_nibs (big : bool) (lb : nat) : list nat :=
  match lb with
  | 0 => []
  | S v => if big then [v / 16; v mod 16] else [v]
  end.

(* ---- getGEPath ---- *)
Fixpoint leftmost_path (t : tree) : list tree :=
  t :: match t with
       | Leaf _ _ _ _ => []
       | Inner _ _ _ _ _ ch => match ch with (_, c) :: _ => leftmost_path c | [] => [] end
       end.

(* the prefix comparison of getGEPath's loop; NOTE: unlike GetID/searchID there
   is no "i += innerPrefixLen" when the node stores only a step *)
Inductive pcmp := PEq (i1 : nat) | PLt | PGt.

Definition ge_advance (qn : list nat) (i : nat) (pfx : option (list nat)) : pcmp :=
  match pfx with
  | Some p =>
      match cmp_upto (skipn (even_down i) qn) p with
      | Eq => PEq (even_down i + length p)
      | Lt => PLt
      | Gt => PGt
      end
  | None => PEq i
  end.

(* loop state at exit: path, eqID (node, position, whether getNode visited it),
   (rID, rightPathLen) *)
Definition gstate : Type := (list tree * option (tree * nat * bool) * option (tree * nat))%type.

Fixpoint ge_down (qn : list nat) (l : nat) (t : tree) (i : nat) (path : list tree)
         (rc : option (tree * nat)) {struct t} : gstate :=
  match t with
  | Leaf _ _ _ _ => (path, Some (t, i, true), rc)
  | Inner _ big _ pfx _ ch =>
      match ge_advance qn i pfx with
      | PLt => (path, None, Some (t, length path))
      | PGt => (path, None, rc)
      | PEq i1 =>
          let path1 := path ++ [t] in
          let lb := label_at big qn i1 in
          (fix go (ch : list (nat * tree)) : gstate :=
             match ch with
             | [] => (path1, None, rc)
             | (x, c) :: rest =>
                 if x <? lb then go rest
                 else if Nat.eqb x lb then
                   let rc' := match rest with (_, c') :: _ => Some (c', length path1) | [] => rc end in
                   if Nat.eqb i1 l then (path1, Some (c, i1, false), rc')
                   else ge_down qn l c (i1 + wsize big) path1 rc'
                 else (path1, None, Some (c, length path1))
             end) ch
      end
  end.

(* the code after the loop *)
Definition ge_finish (leafpfx : bool) (q : key) (st : gstate) : list tree * bool :=
  let '(path, eq, rc) := st in
  let fallback :=
      match rc with
      | None => ([], false)
      | Some (rid, rpl) => (firstn rpl path ++ leftmost_path rid, false)
      end in
  match eq with
  | Some (c, i, visited) =>
      let cmp := if leafpfx
                 then bytes_cmp (skipn (i / 2) q)
                                (match sess_tail c visited with Some t => t | None => [] end)
                 else Eq in
      match cmp with
      | Gt => fallback
      | Eq => (path ++ [c], true)
      | Lt => (path ++ [c], false)
      end
  | None => fallback
  end.

Definition ge_path (T : trie) (q : key) : res (list tree * bool) :=
  match t_root T with
  | None => Ok ([], false)
  | Some r =>
      if t_innerpfx T && t_leafpfx T then
        let qn := nibs q in
        Ok (ge_finish (t_leafpfx T) q (ge_down qn (length qn) r 0 [] None))
      else Err (EPanic 20)
  end.

(* ---- scanStackElt ---- *)
Record frame := {
  f_big : bool;                   (* bitTo - bitFrom = 257 *)
  f_ch : list (nat * tree);       (* the label bitmap with the children it points to *)
  f_idx : nat;                    (* ithLabel *)
  f_ps : nat; f_pe : nat; f_le : nat   (* prefixStart, prefixEnd, labelEnd *)
}.

Definition node_pfx (t : tree) : option (list nat) :=
  match t with Leaf _ _ _ _ => None | Inner _ _ _ pfx _ _ => pfx end.

(* init: child = Some c for "childId = id of c", None for "childId = -1" *)
Definition init_frame (t : tree) (child : option tree) (bufidx : nat) : res frame :=
  match t with
  | Leaf _ _ _ _ => Err (EPanic 45)
  | Inner _ big _ pfx fc ch =>
      let pe := match pfx with Some p => even_down bufidx + length p | None => bufidx end in
      do idx <- match child with
                | None => Ok 0
                | Some c => if tree_id c <? fc then Err (EPanic 40) else Ok (tree_id c - fc)
                end;
      match nth_error ch idx with
      | None => Err (EPanic 43)
      | Some (lb, _) =>
          Ok {| f_big := big; f_ch := ch; f_idx := idx; f_ps := bufidx; f_pe := pe;
                f_le := pe + label_width big lb |}
      end
  end.

Definition append_inner_prefix (f : frame) (pfx : option (list nat)) (buf : list nat) : res (list nat) :=
  match pfx with
  | None => Ok buf
  | Some p =>
      if length buf <? even_down (f_ps f) then Err (EPanic 41)
      else Ok (firstn (even_down (f_ps f)) buf ++ p)
  end.

Definition append_label (f : frame) (buf : list nat) : res (list nat) :=
  match nth_error (f_ch f) (f_idx f) with
  | None => Err (EPanic 43)
  | Some (lb, _) =>
      if length buf <? f_pe f then Err (EPanic 41)
      else if f_big f && negb (Nat.even (f_pe f)) && negb (Nat.eqb lb 0) then Err (EPanic 42)
      else Ok (firstn (f_pe f) buf ++ label_nibs (f_big f) lb)
  end.

Definition append_leaf_prefix (f : frame) (tail : option (list byte)) (buf : list nat) : res (list nat) :=
  if length buf <? even_down (f_le f) then Err (EPanic 41)
  else Ok (firstn (even_down (f_le f)) buf ++ tail_nibs tail).

(* next(): advance the top frame to its next label, popping exhausted frames *)
Fixpoint next_stack (stk : list frame) : list frame :=
  match stk with
  | [] => []
  | f :: r =>
      match nth_error (f_ch f) (S (f_idx f)) with
      | Some (lb, _) =>
          {| f_big := f_big f; f_ch := f_ch f; f_idx := S (f_idx f); f_ps := f_ps f; f_pe := f_pe f;
             f_le := f_pe f + label_width (f_big f) lb |} :: r
      | None => next_stack r
      end
  end.

(* the inner loop of the iterator closure below the top frame: the node [c] is
   the current child of [last]; walk along first children to a leaf, pushing a
   frame per inner node *)
Fixpoint descend_first (c : tree) (last : frame) (buf : list nat) (stk : list frame) {struct c}
  : res (list frame * list nat * tree) :=
  match c with
  | Leaf _ _ tail _ =>
      do buf' <- append_leaf_prefix last tail buf;
      Ok (stk, buf', c)
  | Inner _ big _ pfx _ ch =>
      do f <- init_frame c None (f_le last);
      do buf1 <- append_inner_prefix f pfx buf;
      do buf2 <- append_label f buf1;
      match ch with
      | (_, c0) :: _ => descend_first c0 f buf2 (f :: stk)
      | [] => Err (EPanic 43)
      end
  end.

(* ---- the iterator ---- *)
Inductive imode :=
| MNormal
| MSingle (c : tree) (consumed : bool).     (* "SlimTrie is built with only one key" *)

Record iter := {
  it_mode : imode;
  it_stack : list frame;          (* top first; [] is stackIdx = -1 *)
  it_buf : list nat;
  it_withv : bool
}.

Definition leaf_val (T : trie) (withv : bool) (c : tree) : res (option (list byte)) :=
  if withv then leaf_value T c else Ok None.

(* the loop of newIter over path[0 .. len-2] *)
Fixpoint init_frames (path : list tree) (bufidx : nat) (buf : list nat) (stk : list frame) {struct path}
  : res (list frame * list nat) :=
  match path with
  | [] => Ok (stk, buf)
  | t :: rest =>
      match rest with
      | [] => Ok (stk, buf)
      | c :: _ =>
          do f <- init_frame t (Some c) bufidx;
          do buf1 <- append_inner_prefix f (node_pfx t) buf;
          do buf2 <- append_label f buf1;
          init_frames rest (f_le f) buf2 (f :: stk)
      end
  end.

Definition new_iter (path : list tree) (skip withv : bool) : res iter :=
  do (stk, buf) <- init_frames path 0 [] [];
  if skip then
    Ok {| it_mode := MNormal; it_stack := next_stack stk; it_buf := buf; it_withv := withv |}
  else
    match path with
    | [c] => Ok {| it_mode := MSingle c false; it_stack := stk; it_buf := buf; it_withv := withv |}
    | _ => Ok {| it_mode := MNormal; it_stack := stk; it_buf := buf; it_withv := withv |}
    end.

(* NewIter *)
Definition iter_init (T : trie) (start : key) (incl withv : bool) : res iter :=
  do (path, eq) <- ge_path T start;
  new_iter path (eq && negb incl) withv.

(* one call of the returned closure; None = (nil, nil) *)
Definition iter_next (T : trie) (it : iter) : res (option kv * iter) :=
  match it_mode it with
  | MSingle c consumed =>
      if consumed then Ok (None, it)
      else
        match c with
        | Inner _ _ _ _ _ _ => Err (EPanic 44)
        | Leaf _ _ tail _ =>
            let buf' := it_buf it ++ tail_nibs tail in
            do k <- pack_res buf';
            do v <- leaf_val T (it_withv it) c;
            Ok (Some (k, v),
                {| it_mode := MSingle c true; it_stack := it_stack it; it_buf := buf'; it_withv := it_withv it |})
        end
  | MNormal =>
      match it_stack it with
      | [] => Ok (None, it)
      | top :: rest =>
          do buf1 <- append_label top (it_buf it);
          match nth_error (f_ch top) (f_idx top) with
          | None => Err (EPanic 43)
          | Some (_, c) =>
              do (sb, leaf) <- descend_first c top buf1 (top :: rest);
              do k <- pack_res (snd sb);
              do v <- leaf_val T (it_withv it) leaf;
              Ok (Some (k, v),
                  {| it_mode := MNormal; it_stack := next_stack (fst sb); it_buf := snd sb;
                     it_withv := it_withv it |})
          end
      end
  end.

(* n consecutive calls *)
Fixpoint iter_run (n : nat) (T : trie) (it : iter) : res (list (option kv)) :=
  match n with
  | 0 => Ok []
  | S m =>
      do (r, it') <- iter_next T it;
      do rs <- iter_run m T it';
      Ok (r :: rs)
  end.

Fixpoint leaf_count (t : tree) : nat :=
  match t with
  | Leaf _ _ _ _ => 1
  | Inner _ _ _ _ _ ch =>
      (fix go (ch : list (nat * tree)) : nat :=
         match ch with [] => 0 | (_, c) :: r => leaf_count c + go r end) ch
  end.

Definition scan_fuel (T : trie) : nat :=
  match t_root T with None => 1 | Some r => S (leaf_count r) end.

(* calls until the first nil, then [extra] more calls *)
Fixpoint iter_drain (fuel : nat) (T : trie) (it : iter) : res (list kv * iter) :=
  match fuel with
  | 0 => Err EFuel
  | S f =>
      do (r, it') <- iter_next T it;
      match r with
      | None => Ok ([], it')
      | Some x => do (xs, it'') <- iter_drain f T it'; Ok (x :: xs, it'')
      end
  end.

Definition iter_all (T : trie) (start : key) (incl withv : bool) (extra : nat) : res (list kv * list (option kv)) :=
  do it <- iter_init T start incl withv;
  do (xs, it') <- iter_drain (scan_fuel T) T it;
  do more <- iter_run extra T it';
  Ok (xs, more).

(* ---- ScanFrom / ScanFromTo ----
   A callback is a function of the number of earlier invocations and the pair it
   is handed (the pairs are a function of the trie and the start, so this covers
   every deterministic callback).  The result is the list of pairs the USER's
   callback was invoked on, in order. *)
Definition callback := nat -> kv -> bool.

(* [wrap i x] = (continue?, was the user's callback invoked) *)
Fixpoint scan_loop (fuel : nat) (T : trie) (it : iter) (wrap : nat -> kv -> bool * bool) (i : nat)
  : res (list kv) :=
  match fuel with
  | 0 => Err EFuel
  | S f =>
      do (r, it') <- iter_next T it;
      match r with
      | None => Ok []
      | Some x =>
          let '(cont, delivered) := wrap i x in
          if cont then
            do xs <- scan_loop f T it' wrap (S i);
            Ok (if delivered then x :: xs else xs)
          else Ok (if delivered then [x] else [])
      end
  end.

Definition scan_from (T : trie) (start : key) (incl withv : bool) (fn : callback) : res (list kv) :=
  do it <- iter_init T start incl withv;
  scan_loop (scan_fuel T) T it (fun i x => (fn i x, true)) 0.

(* the end bound is tested before the user's callback *)
Definition beyond (e : key) (incle : bool) (k : key) : bool :=
  match bytes_cmp k e with
  | Eq => negb incle
  | Gt => true
  | Lt => false
  end.

Definition scan_from_to (T : trie) (start : key) (incl : bool) (e : key) (incle : bool) (withv : bool)
           (fn : callback) : res (list kv) :=
  do it <- iter_init T start incl withv;
  scan_loop (scan_fuel T) T it
            (fun i x => if beyond e incle (fst x) then (false, false) else (fn i x, true)) 0.

(* the callback used by the correspondence: true on the first [stops] invocations, then false *)
Definition stop_at (stops : nat) : callback := fun i _ => negb (Nat.eqb i stops).

Definition never_stop : callback := fun _ _ => true.
