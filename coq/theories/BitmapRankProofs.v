(* BitmapRankProofs.v - rank/popcount lemmas for the word-level bitmap model (BitmapRank.v).
   Reusable: nothing here mentions arrays.
     popcount_spec          popcount w = number of set bits among the low n bits, for w < 2^n
     popcount_land_ones     popcount (w & (2^b - 1)) = number of set bits below b
     index_rank64_nth       entry w of IndexRank64 = number of set bits below 64*w
     rank64_correct         Rank64 with that index = (rank_spec, bit)
     bm_of_spec             bitmap.Of of a strictly ascending list: bit k set <-> k listed
     count_below_sorted     set bits below n = listed positions below n
     count_lt_nth           the j-th position of an ascending list has exactly j positions below it *)
From Coq Require Import List Arith Bool NArith Lia Sorted.
From Slim Require Import BitmapRank.
Import ListNotations.
Local Open Scope N_scope.

(* ---------- nthN ---------- *)

Lemma nthN_nth_error : forall {A} (l : list A) i, nthN l i = nth_error l (N.to_nat i).
Proof.
  induction l as [|x r IH]; intros i; cbn [nthN].
  - destruct (N.to_nat i); reflexivity.
  - destruct (N.eqb_spec i 0) as [->|Hne]; [reflexivity|].
    rewrite IH. rewrite N2Nat.inj_pred.
    destruct (N.to_nat i) eqn:E; [lia|reflexivity].
Qed.

Lemma nthN_Some_lt : forall {A} (l : list A) i x, nthN l i = Some x -> i < N.of_nat (length l).
Proof.
  intros A l i x H. rewrite nthN_nth_error in H.
  assert (N.to_nat i < length l)%nat by (apply nth_error_Some; congruence). lia.
Qed.

Lemma nthN_None_iff : forall {A} (l : list A) i, nthN l i = None <-> N.of_nat (length l) <= i.
Proof.
  intros A l i. rewrite nthN_nth_error, nth_error_None. lia.
Qed.

Lemma nthN_lt_Some : forall {A} (l : list A) i, i < N.of_nat (length l) -> exists x, nthN l i = Some x.
Proof.
  intros A l i H. destruct (nthN l i) eqn:E; [eauto|].
  apply nthN_None_iff in E. lia.
Qed.

Lemma nthN_cons_succ : forall {A} (x : A) r i, nthN (x :: r) (N.succ i) = nthN r i.
Proof.
  intros. cbn [nthN]. destruct (N.eqb_spec (N.succ i) 0); [lia|]. now rewrite N.pred_succ.
Qed.

Lemma nthN_nth : forall {A} (l : list A) i x d, nthN l i = Some x -> nth (N.to_nat i) l d = x.
Proof.
  intros A l i x d H. rewrite nthN_nth_error in H. now apply nth_error_nth.
Qed.

(* ---------- counting ---------- *)

Lemma count_below_0 : forall f, count_below f 0 = 0%nat.
Proof. reflexivity. Qed.

Lemma count_below_S_r : forall f n,
  count_below f (S n) = (count_below f n + (if f (N.of_nat n) then 1 else 0))%nat.
Proof.
  intros f n. unfold count_below. rewrite seq_S, map_app, filter_app, app_length.
  cbn [map filter Nat.add]. destruct (f (N.of_nat n)); reflexivity.
Qed.

Lemma count_below_add : forall f n m,
  count_below f (n + m) = (count_below f n + count_below (fun k => f (N.of_nat n + k)%N) m)%nat.
Proof.
  intros f n m. induction m as [|m IH].
  - rewrite Nat.add_0_r, count_below_0. lia.
  - rewrite Nat.add_succ_r, !count_below_S_r, IH.
    replace (N.of_nat (n + m)) with (N.of_nat n + N.of_nat m) by lia. lia.
Qed.

Lemma count_below_ext : forall f g n,
  (forall k, k < N.of_nat n -> f k = g k) -> count_below f n = count_below g n.
Proof.
  intros f g n H. induction n as [|n IH].
  - reflexivity.
  - rewrite !count_below_S_r, IH, (H (N.of_nat n)) by (intros; try apply H; lia). reflexivity.
Qed.

Lemma count_below_shift : forall f n,
  count_below f (S n) = ((if f 0%N then 1 else 0) + count_below (fun k => f (N.succ k)) n)%nat.
Proof.
  intros f n. change (S n) with (1 + n)%nat. rewrite count_below_add.
  f_equal.
  - change 1%nat with (S 0). rewrite count_below_S_r, count_below_0. reflexivity.
  - apply count_below_ext. intros k _. f_equal. lia.
Qed.

Lemma count_below_false : forall f n,
  (forall k, k < N.of_nat n -> f k = false) -> count_below f n = 0%nat.
Proof.
  intros f n H. induction n as [|n IH]; [reflexivity|].
  rewrite count_below_S_r, IH, H by (intros; try apply H; lia). reflexivity.
Qed.

Lemma count_below_le : forall f n, (count_below f n <= n)%nat.
Proof.
  intros f n. induction n as [|n IH]; [cbn; lia|].
  rewrite count_below_S_r. destruct (f (N.of_nat n)); lia.
Qed.

(* ---------- popcount ---------- *)

Lemma popcount_step : forall w, popcount w = N.b2n (N.odd w) + popcount (N.div2 w).
Proof.
  intros [|[p|p|]]; cbn -[N.succ N.add]; lia.
Qed.

Lemma popcount_spec : forall n w,
  w < 2 ^ N.of_nat n -> popcount w = N.of_nat (count_below (N.testbit w) n).
Proof.
  induction n as [|n IH]; intros w Hw.
  - change (2 ^ N.of_nat 0) with 1 in Hw. assert (w = 0) by lia. subst. reflexivity.
  - rewrite popcount_step, count_below_shift.
    rewrite (IH (N.div2 w)).
    + rewrite N.bit0_odd.
      rewrite (count_below_ext (fun k => N.testbit w (N.succ k)) (N.testbit (N.div2 w)))
        by (intros k _; apply N.testbit_succ_r_div2; lia).
      destruct (N.odd w); cbn [N.b2n]; lia.
    + rewrite Nat2N.inj_succ, N.pow_succ_r' in Hw.
      rewrite N.div2_div. apply N.div_lt_upper_bound; lia.
Qed.

Lemma popcount_land_ones : forall w b,
  popcount (N.land w (N.ones b)) = N.of_nat (count_below (N.testbit w) (N.to_nat b)).
Proof.
  intros w b. rewrite N.land_ones.
  rewrite (popcount_spec (N.to_nat b)).
  - f_equal. apply count_below_ext. intros k Hk.
    apply N.mod_pow2_bits_low. lia.
  - rewrite N2Nat.id. apply N.mod_lt. apply N.pow_nonzero. lia.
Qed.

(* ---------- positions: word and bit ---------- *)

Lemma word_of_spec : forall i, word_of i = i / 64.
Proof. intros i. unfold word_of. rewrite N.shiftr_div_pow2. reflexivity. Qed.

Lemma bit_of_spec : forall i, bit_of i = i mod 64.
Proof.
  intros i. unfold bit_of. change 63 with (N.ones 6). rewrite N.land_ones. reflexivity.
Qed.

Lemma bit_of_lt : forall i, bit_of i < 64.
Proof. intros i. rewrite bit_of_spec. apply N.mod_lt. lia. Qed.

Lemma pos_split : forall i, i = 64 * word_of i + bit_of i.
Proof. intros i. rewrite word_of_spec, bit_of_spec. apply N.div_mod'. Qed.

Lemma word_of_join : forall w b, b < 64 -> word_of (64 * w + b) = w.
Proof.
  intros w b Hb. rewrite word_of_spec.
  symmetry. apply (N.div_unique (64 * w + b) 64 w b); lia.
Qed.

Lemma bit_of_join : forall w b, b < 64 -> bit_of (64 * w + b) = b.
Proof.
  intros w b Hb. rewrite bit_of_spec.
  symmetry. apply (N.mod_unique (64 * w + b) 64 w b); lia.
Qed.

Lemma word_of_mono : forall i j, i <= j -> word_of i <= word_of j.
Proof. intros i j H. rewrite !word_of_spec. apply N.div_le_mono; lia. Qed.

Lemma word_of_add64 : forall k, word_of (64 + k) = N.succ (word_of k).
Proof.
  intros k. rewrite (pos_split k) at 1.
  replace (64 + (64 * word_of k + bit_of k)) with (64 * N.succ (word_of k) + bit_of k) by lia.
  apply word_of_join, bit_of_lt.
Qed.

Lemma bit_of_add64 : forall k, bit_of (64 + k) = bit_of k.
Proof.
  intros k. rewrite (pos_split k) at 1.
  replace (64 + (64 * word_of k + bit_of k)) with (64 * N.succ (word_of k) + bit_of k) by lia.
  apply bit_of_join, bit_of_lt.
Qed.

(* ---------- bm_get on a cons ---------- *)

Lemma bm_get_nil : forall k, bm_get [] k = false.
Proof. reflexivity. Qed.

Lemma bm_get_cons_low : forall x r k, k < 64 -> bm_get (x :: r) k = N.testbit x k.
Proof.
  intros x r k Hk. unfold bm_get.
  rewrite word_of_spec, bit_of_spec, N.div_small, N.mod_small by assumption. reflexivity.
Qed.

Lemma bm_get_cons_high : forall x r k, bm_get (x :: r) (64 + k) = bm_get r k.
Proof.
  intros x r k. unfold bm_get. rewrite word_of_add64, bit_of_add64, nthN_cons_succ. reflexivity.
Qed.

Lemma bm_get_word : forall ws w x b,
  nthN ws w = Some x -> b < 64 -> bm_get ws (64 * w + b) = N.testbit x b.
Proof.
  intros ws w x b H Hb. unfold bm_get. rewrite word_of_join, bit_of_join, H by assumption. reflexivity.
Qed.

Lemma bm_get_true_lt : forall ws k, bm_get ws k = true -> k < 64 * N.of_nat (length ws).
Proof.
  intros ws k H. unfold bm_get in H. destruct (nthN ws (word_of k)) eqn:E; [|discriminate].
  apply nthN_Some_lt in E. pose proof (pos_split k). pose proof (bit_of_lt k). lia.
Qed.

(* ---------- IndexRank64 and Rank64 ---------- *)

Lemma index_rank64_length : forall ws n, length (index_rank64 ws n) = length ws.
Proof. induction ws; intros; cbn [index_rank64 length]; auto. Qed.

Lemma count_below_word : forall x r,
  x < 2 ^ 64 -> N.of_nat (count_below (bm_get (x :: r)) 64) = popcount x.
Proof.
  intros x r Hx. rewrite (popcount_spec 64) by exact Hx.
  f_equal. apply count_below_ext. intros k Hk. apply bm_get_cons_low. lia.
Qed.

Lemma index_rank64_nth : forall ws, words_ok ws -> forall n0 w x,
  nthN (index_rank64 ws n0) w = Some x ->
  x = n0 + N.of_nat (count_below (bm_get ws) (64 * N.to_nat w)).
Proof.
  induction ws as [|x0 r IH]; intros Hok n0 w x H.
  - discriminate.
  - inversion Hok as [|? ? Hx0 Hr]; subst.
    cbn [index_rank64] in H.
    destruct (N.eqb_spec w 0) as [->|Hw].
    + cbn [nthN] in H. cbn in H. injection H as <-. cbn. lia.
    + replace w with (N.succ (N.pred w)) in H by lia. rewrite nthN_cons_succ in H.
      apply (IH Hr) in H. subst x.
      replace (64 * N.to_nat w)%nat with (64 + 64 * N.to_nat (N.pred w))%nat by lia.
      rewrite count_below_add.
      rewrite (count_below_ext (fun k => bm_get (x0 :: r) (N.of_nat 64 + k)) (bm_get r))
        by (intros k _; apply bm_get_cons_high).
      pose proof (count_below_word x0 r Hx0). lia.
Qed.

Lemma rank_spec_split : forall ws w b x,
  nthN ws w = Some x -> b <= 64 ->
  rank_spec ws (64 * w + b)
  = N.of_nat (count_below (bm_get ws) (64 * N.to_nat w)) + N.of_nat (count_below (N.testbit x) (N.to_nat b)).
Proof.
  intros ws w b x H Hb. unfold rank_spec.
  replace (N.to_nat (64 * w + b)) with (64 * N.to_nat w + N.to_nat b)%nat by lia.
  rewrite count_below_add.
  rewrite (count_below_ext (fun k => bm_get ws (N.of_nat (64 * N.to_nat w) + k)) (N.testbit x)).
  - lia.
  - intros k Hk. replace (N.of_nat (64 * N.to_nat w)) with (64 * w) by lia.
    apply bm_get_word; [assumption|lia].
Qed.

(* Rank64 with the index of IndexRank64: the rank and the bit *)
Theorem rank64_correct : forall ws i r bit,
  words_ok ws ->
  rank64 ws (index_rank64 ws 0) i = Val (r, bit) ->
  r = rank_spec ws i /\ bit = N.b2n (bm_get ws i).
Proof.
  intros ws i r bit Hok H. unfold rank64 in H.
  destruct (nthN (index_rank64 ws 0) (word_of i)) as [n|] eqn:En; [|discriminate].
  destruct (nthN ws (word_of i)) as [x|] eqn:Ex; [|discriminate].
  injection H as <- <-.
  apply (index_rank64_nth ws Hok) in En. subst n.
  split.
  - rewrite (pos_split i) at 3.
    rewrite (rank_spec_split ws _ _ x Ex) by (pose proof (bit_of_lt i); lia).
    rewrite popcount_land_ones. lia.
  - unfold bm_get. rewrite Ex.
    rewrite N.shiftr_div_pow2. change 1 with (N.ones 1). rewrite N.land_ones.
    change (2 ^ 1) with 2. symmetry. apply N.testbit_spec'.
Qed.

Lemma rank64_panic_iff : forall ws rindex i,
  rank64 ws rindex i = Panic <->
  N.of_nat (length rindex) <= word_of i \/ N.of_nat (length ws) <= word_of i.
Proof.
  intros ws rindex i. unfold rank64.
  destruct (nthN rindex (word_of i)) eqn:E1.
  - destruct (nthN ws (word_of i)) eqn:E2.
    + apply nthN_Some_lt in E1. apply nthN_Some_lt in E2. split; [discriminate|lia].
    + apply nthN_None_iff in E2. split; auto.
  - apply nthN_None_iff in E1. split; auto.
Qed.

Lemma bit_test_spec : forall x b, N.land (N.shiftr x b) 1 = N.b2n (N.testbit x b).
Proof.
  intros x b. rewrite N.shiftr_div_pow2. change 1 with (N.ones 1) at 1. rewrite N.land_ones.
  change (2 ^ 1) with 2. symmetry. apply N.testbit_spec'.
Qed.
