(* BitmapRankProofs.v - rank/popcount lemmas for the word-level bitmap model (BitmapRank.v).
   Reusable: nothing here mentions arrays.
     popcount_spec          popcount w = number of set bits among the low n bits, for w < 2^n
     popcount_land_ones     popcount (w & (2^b - 1)) = number of set bits below b
     index_rank64_nth       entry w of IndexRank64 = number of set bits below 64*w
     rank64_correct         Rank64 with that index = (rank_spec, bit)
     bm_of_spec             bitmap.Of of a strictly ascending list: bit k set <-> k listed
     count_below_sorted     set bits below n = listed positions below n
     count_lt_nth           the j-th position of an ascending list has exactly j positions below it *)
From Coq Require Import List Arith Bool NArith Lia Sorted.
From Slim Require Import BitmapRank.
Import ListNotations.
Local Open Scope N_scope.

(* ---------- nthN ---------- *)

Lemma nthN_nth_error : forall {A} (l : list A) i, nthN l i = nth_error l (N.to_nat i).
Proof.
  induction l as [|x r IH]; intros i; cbn [nthN].
  - destruct (N.to_nat i); reflexivity.
  - destruct (N.eqb_spec i 0) as [->|Hne]; [reflexivity|].
    rewrite IH. rewrite N2Nat.inj_pred.
    destruct (N.to_nat i) eqn:E; [lia|reflexivity].
Qed.

Lemma nthN_Some_lt : forall {A} (l : list A) i x, nthN l i = Some x -> i < N.of_nat (length l).
Proof.
  intros A l i x H. rewrite nthN_nth_error in H.
  assert (N.to_nat i < length l)%nat by (apply nth_error_Some; congruence). lia.
Qed.

Lemma nthN_None_iff : forall {A} (l : list A) i, nthN l i = None <-> N.of_nat (length l) <= i.
Proof.
  intros A l i. rewrite nthN_nth_error, nth_error_None. lia.
Qed.

Lemma nthN_lt_Some : forall {A} (l : list A) i, i < N.of_nat (length l) -> exists x, nthN l i = Some x.
Proof.
  intros A l i H. destruct (nthN l i) eqn:E; [eauto|].
  apply nthN_None_iff in E. lia.
Qed.

Lemma nthN_cons_succ : forall {A} (x : A) r i, nthN (x :: r) (N.succ i) = nthN r i.
Proof.
  intros. cbn [nthN]. destruct (N.eqb_spec (N.succ i) 0); [lia|]. now rewrite N.pred_succ.
Qed.

Lemma nthN_nth : forall {A} (l : list A) i x d, nthN l i = Some x -> nth (N.to_nat i) l d = x.
Proof.
  intros A l i x d H. rewrite nthN_nth_error in H. now apply nth_error_nth.
Qed.

(* ---------- counting ---------- *)

Lemma count_below_0 : forall f, count_below f 0 = 0%nat.
Proof. reflexivity. Qed.

Lemma count_below_S_r : forall f n,
  count_below f (S n) = (count_below f n + (if f (N.of_nat n) then 1 else 0))%nat.
Proof.
  intros f n. unfold count_below. rewrite seq_S, map_app, filter_app, app_length.
  cbn [map filter Nat.add]. destruct (f (N.of_nat n)); reflexivity.
Qed.

Lemma count_below_add : forall f n m,
  count_below f (n + m) = (count_below f n + count_below (fun k => f (N.of_nat n + k)%N) m)%nat.
Proof.
  intros f n m. induction m as [|m IH].
  - rewrite Nat.add_0_r, count_below_0. lia.
  - rewrite Nat.add_succ_r, !count_below_S_r, IH.
    replace (N.of_nat (n + m)) with (N.of_nat n + N.of_nat m) by lia. lia.
Qed.

Lemma count_below_ext : forall f g n,
  (forall k, k < N.of_nat n -> f k = g k) -> count_below f n = count_below g n.
Proof.
  intros f g n H. induction n as [|n IH].
  - reflexivity.
  - rewrite !count_below_S_r, IH, (H (N.of_nat n)) by (intros; try apply H; lia). reflexivity.
Qed.

Lemma count_below_shift : forall f n,
  count_below f (S n) = ((if f 0%N then 1 else 0) + count_below (fun k => f (N.succ k)) n)%nat.
Proof.
  intros f n. change (S n) with (1 + n)%nat. rewrite count_below_add.
  f_equal.
  - change 1%nat with (S 0). rewrite count_below_S_r, count_below_0. reflexivity.
  - apply count_below_ext. intros k _. f_equal. lia.
Qed.

Lemma count_below_false : forall f n,
  (forall k, k < N.of_nat n -> f k = false) -> count_below f n = 0%nat.
Proof.
  intros f n H. induction n as [|n IH]; [reflexivity|].
  rewrite count_below_S_r, IH, H by (intros; try apply H; lia). reflexivity.
Qed.

Lemma count_below_le : forall f n, (count_below f n <= n)%nat.
Proof.
  intros f n. induction n as [|n IH]; [cbn; lia|].
  rewrite count_below_S_r. destruct (f (N.of_nat n)); lia.
Qed.

(* ---------- popcount ---------- *)

Lemma popcount_step : forall w, popcount w = N.b2n (N.odd w) + popcount (N.div2 w).
Proof.
  intros [|[p|p|]]; cbn -[N.succ N.add]; lia.
Qed.

Lemma popcount_spec : forall n w,
  w < 2 ^ N.of_nat n -> popcount w = N.of_nat (count_below (N.testbit w) n).
Proof.
  induction n as [|n IH]; intros w Hw.
  - change (2 ^ N.of_nat 0) with 1 in Hw. assert (w = 0) by lia. subst. reflexivity.
  - rewrite popcount_step, count_below_shift.
    rewrite (IH (N.div2 w)).
    + rewrite N.bit0_odd.
      rewrite (count_below_ext (fun k => N.testbit w (N.succ k)) (N.testbit (N.div2 w)))
        by (intros k _; apply N.testbit_succ_r_div2; lia).
      destruct (N.odd w); cbn [N.b2n]; lia.
    + rewrite Nat2N.inj_succ, N.pow_succ_r' in Hw.
      rewrite N.div2_div. apply N.div_lt_upper_bound; lia.
Qed.

Lemma popcount_land_ones : forall w b,
  popcount (N.land w (N.ones b)) = N.of_nat (count_below (N.testbit w) (N.to_nat b)).
Proof.
  intros w b. rewrite N.land_ones.
  rewrite (popcount_spec (N.to_nat b)).
  - rewrite (count_below_ext (N.testbit (w mod 2 ^ b)) (N.testbit w) (N.to_nat b)); [reflexivity|].
    intros k Hk. apply N.mod_pow2_bits_low. lia.
  - rewrite N2Nat.id. apply N.mod_lt. apply N.pow_nonzero. lia.
Qed.

(* ---------- positions: word and bit ---------- *)

Lemma word_of_spec : forall i, word_of i = i / 64.
Proof. intros i. unfold word_of. rewrite N.shiftr_div_pow2. reflexivity. Qed.

Lemma bit_of_spec : forall i, bit_of i = i mod 64.
Proof.
  intros i. unfold bit_of. change 63 with (N.ones 6). rewrite N.land_ones. reflexivity.
Qed.

Lemma bit_of_lt : forall i, bit_of i < 64.
Proof. intros i. rewrite bit_of_spec. apply N.mod_lt. lia. Qed.

Lemma pos_split : forall i, i = 64 * word_of i + bit_of i.
Proof. intros i. rewrite word_of_spec, bit_of_spec. apply N.div_mod'. Qed.

Lemma word_of_join : forall w b, b < 64 -> word_of (64 * w + b) = w.
Proof.
  intros w b Hb. rewrite word_of_spec.
  symmetry. apply (N.div_unique (64 * w + b) 64 w b); lia.
Qed.

Lemma bit_of_join : forall w b, b < 64 -> bit_of (64 * w + b) = b.
Proof.
  intros w b Hb. rewrite bit_of_spec.
  symmetry. apply (N.mod_unique (64 * w + b) 64 w b); lia.
Qed.

Lemma word_of_mono : forall i j, i <= j -> word_of i <= word_of j.
Proof. intros i j H. rewrite !word_of_spec. apply N.div_le_mono; lia. Qed.

Lemma word_of_add64 : forall k, word_of (64 + k) = N.succ (word_of k).
Proof.
  intros k. rewrite (pos_split k) at 1.
  replace (64 + (64 * word_of k + bit_of k)) with (64 * N.succ (word_of k) + bit_of k) by lia.
  apply word_of_join, bit_of_lt.
Qed.

Lemma bit_of_add64 : forall k, bit_of (64 + k) = bit_of k.
Proof.
  intros k. rewrite (pos_split k) at 1.
  replace (64 + (64 * word_of k + bit_of k)) with (64 * N.succ (word_of k) + bit_of k) by lia.
  apply bit_of_join, bit_of_lt.
Qed.

(* ---------- bm_get on a cons ---------- *)

Lemma bm_get_nil : forall k, bm_get [] k = false.
Proof. reflexivity. Qed.

Lemma bm_get_cons_low : forall x r k, k < 64 -> bm_get (x :: r) k = N.testbit x k.
Proof.
  intros x r k Hk. unfold bm_get.
  rewrite word_of_spec, bit_of_spec, N.div_small, N.mod_small by assumption. reflexivity.
Qed.

Lemma bm_get_cons_high : forall x r k, bm_get (x :: r) (64 + k) = bm_get r k.
Proof.
  intros x r k. unfold bm_get. rewrite word_of_add64, bit_of_add64, nthN_cons_succ. reflexivity.
Qed.

Lemma bm_get_word : forall ws w x b,
  nthN ws w = Some x -> b < 64 -> bm_get ws (64 * w + b) = N.testbit x b.
Proof.
  intros ws w x b H Hb. unfold bm_get. rewrite word_of_join, bit_of_join, H by assumption. reflexivity.
Qed.

Lemma bm_get_true_lt : forall ws k, bm_get ws k = true -> k < 64 * N.of_nat (length ws).
Proof.
  intros ws k H. unfold bm_get in H. destruct (nthN ws (word_of k)) eqn:E; [|discriminate].
  apply nthN_Some_lt in E. pose proof (pos_split k). pose proof (bit_of_lt k). lia.
Qed.

(* ---------- IndexRank64 and Rank64 ---------- *)

Lemma index_rank64_length : forall ws n, length (index_rank64 ws n) = length ws.
Proof. induction ws; intros; cbn [index_rank64 length]; auto. Qed.

Lemma count_below_word : forall x r,
  x < 2 ^ 64 -> N.of_nat (count_below (bm_get (x :: r)) 64) = popcount x.
Proof.
  intros x r Hx. rewrite (popcount_spec 64) by exact Hx.
  rewrite (count_below_ext (bm_get (x :: r)) (N.testbit x) 64); [reflexivity|].
  intros k Hk. apply bm_get_cons_low. exact Hk.
Qed.

Lemma index_rank64_nth : forall ws, words_ok ws -> forall n0 w x,
  nthN (index_rank64 ws n0) w = Some x ->
  x = n0 + N.of_nat (count_below (bm_get ws) (64 * N.to_nat w)).
Proof.
  induction ws as [|x0 r IH]; intros Hok n0 w x H.
  - discriminate.
  - inversion Hok as [|? ? Hx0 Hr]; subst.
    cbn [index_rank64] in H.
    destruct (N.eqb_spec w 0) as [->|Hw].
    + cbn [nthN] in H. cbn in H. injection H as <-. cbn. lia.
    + replace w with (N.succ (N.pred w)) in H by lia. rewrite nthN_cons_succ in H.
      apply (IH Hr) in H. subst x.
      replace (64 * N.to_nat w)%nat with (64 + 64 * N.to_nat (N.pred w))%nat by lia.
      rewrite count_below_add.
      rewrite (count_below_ext (fun k => bm_get (x0 :: r) (N.of_nat 64 + k)) (bm_get r))
        by (intros k _; apply bm_get_cons_high).
      pose proof (count_below_word x0 r Hx0). lia.
Qed.

Lemma rank_spec_split : forall ws w b x,
  nthN ws w = Some x -> b <= 64 ->
  rank_spec ws (64 * w + b)
  = N.of_nat (count_below (bm_get ws) (64 * N.to_nat w)) + N.of_nat (count_below (N.testbit x) (N.to_nat b)).
Proof.
  intros ws w b x H Hb. unfold rank_spec.
  replace (N.to_nat (64 * w + b)) with (64 * N.to_nat w + N.to_nat b)%nat by lia.
  rewrite count_below_add.
  rewrite (count_below_ext (fun k => bm_get ws (N.of_nat (64 * N.to_nat w) + k)) (N.testbit x)).
  - lia.
  - intros k Hk. replace (N.of_nat (64 * N.to_nat w)) with (64 * w) by lia.
    apply bm_get_word; [assumption|lia].
Qed.

(* Rank64 with the index of IndexRank64: the rank and the bit *)
Theorem rank64_correct : forall ws i r bit,
  words_ok ws ->
  rank64 ws (index_rank64 ws 0) i = Val (r, bit) ->
  r = rank_spec ws i /\ bit = N.b2n (bm_get ws i).
Proof.
  intros ws i r bit Hok H. unfold rank64 in H.
  destruct (nthN (index_rank64 ws 0) (word_of i)) as [n|] eqn:En; [|discriminate].
  destruct (nthN ws (word_of i)) as [x|] eqn:Ex; [|discriminate].
  injection H as <- <-.
  apply (index_rank64_nth ws Hok) in En. subst n.
  split.
  - rewrite (pos_split i) at 3.
    rewrite (rank_spec_split ws _ _ x Ex) by (pose proof (bit_of_lt i); lia).
    rewrite popcount_land_ones. lia.
  - unfold bm_get. rewrite Ex.
    rewrite N.shiftr_div_pow2. change 1 with (N.ones 1). rewrite N.land_ones.
    change (2 ^ 1) with 2. symmetry. apply N.testbit_spec'.
Qed.

Lemma rank64_panic_iff : forall ws rindex i,
  rank64 ws rindex i = Panic <->
  N.of_nat (length rindex) <= word_of i \/ N.of_nat (length ws) <= word_of i.
Proof.
  intros ws rindex i. unfold rank64.
  destruct (nthN rindex (word_of i)) eqn:E1.
  - destruct (nthN ws (word_of i)) eqn:E2.
    + apply nthN_Some_lt in E1. apply nthN_Some_lt in E2. split; [discriminate|lia].
    + apply nthN_None_iff in E2. split; auto.
  - apply nthN_None_iff in E1. split; auto.
Qed.

Lemma bit_test_spec : forall x b, N.land (N.shiftr x b) 1 = N.b2n (N.testbit x b).
Proof.
  intros x b. rewrite N.shiftr_div_pow2. change 1 with (N.ones 1) at 1. rewrite N.land_ones.
  change (2 ^ 1) with 2. symmetry. apply N.testbit_spec'.
Qed.

(* ---------- strictly ascending lists ---------- *)

Lemma ascending_sorted : forall idx, ascending idx = true <-> StronglySorted N.lt idx.
Proof.
  induction idx as [|x r IH]; [split; [constructor|reflexivity]|].
  destruct r as [|y r'].
  - split; [intros _; repeat constructor|reflexivity].
  - change (ascending (x :: y :: r')) with ((x <? y) && ascending (y :: r')).
    rewrite andb_true_iff, IH, N.ltb_lt. split.
    + intros [Hxy Hs]. constructor; [assumption|].
      inversion Hs as [|? ? Hs' Hall]; subst.
      constructor; [assumption|].
      eapply Forall_impl; [|exact Hall]. cbv beta. intros. lia.
    + intros Hs. inversion Hs as [|? ? Hs' Hall]; subst. split; [|assumption].
      inversion Hall; assumption.
Qed.

Lemma sorted_tail_words : forall i r w,
  Forall (N.lt i) r -> N.succ w <= word_of i -> Forall (fun j => N.succ w <= word_of j) r.
Proof.
  intros i r w Hall Hw. eapply Forall_impl; [|exact Hall]. cbv beta. intros j Hj.
  pose proof (word_of_mono i j). lia.
Qed.

(* ---------- bitmap.Of ---------- *)

Lemma lor_lt_64 : forall a b, a < 2 ^ 64 -> b < 2 ^ 64 -> N.lor a b < 2 ^ 64.
Proof.
  intros a b Ha Hb.
  destruct (N.eq_dec (N.lor a b) 0) as [->|Hne]; [reflexivity|].
  apply N.log2_lt_pow2; [lia|]. rewrite N.log2_lor.
  destruct (N.eq_dec a 0) as [->|Ha0]; destruct (N.eq_dec b 0) as [->|Hb0].
  - cbn. lia.
  - apply N.max_lub_lt; [cbn; lia|apply N.log2_lt_pow2; lia].
  - apply N.max_lub_lt; [apply N.log2_lt_pow2; lia|cbn; lia].
  - apply N.max_lub_lt; apply N.log2_lt_pow2; lia.
Qed.

Lemma bit_lt_64 : forall b, b < 64 -> N.shiftl 1 b < 2 ^ 64.
Proof. intros b Hb. rewrite N.shiftl_1_l. apply N.pow_lt_mono_r; lia. Qed.

Lemma testbit_set : forall acc b c,
  N.testbit (N.lor acc (N.shiftl 1 b)) c = N.testbit acc c || (b =? c).
Proof.
  intros. rewrite N.lor_spec, N.shiftl_1_l, N.pow2_bits_eqb. reflexivity.
Qed.

Lemma take_word_spec : forall w idx acc x r,
  StronglySorted N.lt idx ->
  Forall (fun i => w <= word_of i) idx ->
  take_word w idx acc = (x, r) ->
  (forall b, b < 64 -> (N.testbit x b = true <-> N.testbit acc b = true \/ In (64 * w + b) idx))
  /\ StronglySorted N.lt r
  /\ Forall (fun i => N.succ w <= word_of i) r
  /\ (forall k, word_of k <> w -> (In k idx <-> In k r))
  /\ (acc < 2 ^ 64 -> x < 2 ^ 64).
Proof.
  intros w idx. induction idx as [|i r0 IH]; intros acc x r Hs Hge H.
  - cbn in H. injection H as <- <-. repeat split; auto; try tauto.
    intros [?|[]]; assumption.
  - inversion Hs as [|? ? Hs0 Hall]; subst. inversion Hge as [|? ? Hi Hge0]; subst.
    cbn [take_word] in H. destruct (N.eqb_spec (word_of i) w) as [Ew|Ew].
    + destruct (IH _ _ _ Hs0 Hge0 H) as (Ha & Hb & Hc & Hd & He).
      repeat split; try assumption.
      * intros Hx. apply Ha in Hx; [|assumption]. rewrite testbit_set, orb_true_iff, N.eqb_eq in Hx.
        destruct Hx as [[Hx|Hx]|Hx]; auto.
        right. left. rewrite (pos_split i), Ew, Hx. reflexivity.
        right. right. assumption.
      * intros Hx. apply Ha; [assumption|]. rewrite testbit_set, orb_true_iff, N.eqb_eq.
        destruct Hx as [Hx|[Hx|Hx]]; auto.
        left. right. rewrite Hx. apply bit_of_join. assumption.
      * intros Hk. apply Hd; [assumption|]. destruct Hk as [Hk|Hk]; [congruence|assumption].
      * intros Hk. right. apply Hd; assumption.
      * intros Hacc. apply He. apply lor_lt_64; [assumption|apply bit_lt_64, bit_of_lt].
    + injection H as <- <-.
      assert (Hall' : Forall (fun j => N.succ w <= word_of j) (i :: r0)).
      { constructor; [lia|]. apply (sorted_tail_words i); [assumption|lia]. }
      repeat split; auto; try tauto.
      intros [Hx|Hx]; [assumption|]. exfalso.
      rewrite Forall_forall in Hall'. apply Hall' in Hx.
      rewrite word_of_join in Hx by assumption. lia.
Qed.

Lemma bm_words_spec : forall n w0 idx,
  StronglySorted N.lt idx ->
  Forall (fun i => w0 <= word_of i) idx ->
  Forall (fun i => word_of i < w0 + N.of_nat n) idx ->
  length (bm_words n w0 idx) = n /\ words_ok (bm_words n w0 idx) /\
  forall k, bm_get (bm_words n w0 idx) k = true <-> In (64 * w0 + k) idx.
Proof.
  induction n as [|n IH]; intros w0 idx Hs Hge Hlt.
  - cbn [bm_words]. repeat split; [constructor| |].
    + intros H. discriminate.
    + intros H. exfalso. rewrite Forall_forall in Hge, Hlt.
      pose proof (Hge _ H). pose proof (Hlt _ H). cbn in *. lia.
  - cbn [bm_words]. destruct (take_word w0 idx 0) as [x r] eqn:E.
    destruct (take_word_spec _ _ _ _ _ Hs Hge E) as (Ha & Hb & Hc & Hd & He).
    assert (Hlt' : Forall (fun i => word_of i < N.succ w0 + N.of_nat n) r).
    { rewrite Forall_forall in *. intros i Hi.
      assert (word_of i <> w0) by (pose proof (Hc _ Hi); cbn in *; lia).
      apply Hd in Hi; [|assumption]. apply Hlt in Hi. lia. }
    destruct (IH (N.succ w0) r Hb Hc Hlt') as (IHa & IHb & IHc).
    repeat split.
    + cbn [length]. congruence.
    + constructor; [apply He; reflexivity|assumption].
    + intros H. destruct (N.lt_ge_cases k 64) as [Hk|Hk].
      * rewrite bm_get_cons_low in H by assumption. apply Ha in H; [|assumption].
        destruct H as [H|H]; [rewrite N.bits_0 in H; discriminate|assumption].
      * replace k with (64 + (k - 64)) in H by lia. rewrite bm_get_cons_high in H.
        apply IHc in H. apply Hd.
        -- pose proof (word_of_mono (64 * N.succ w0 + 0) (64 * w0 + k)).
           rewrite word_of_join in H0 by lia. lia.
        -- replace (64 * w0 + k) with (64 * N.succ w0 + (k - 64)) by lia. assumption.
    + intros H. destruct (N.lt_ge_cases k 64) as [Hk|Hk].
      * rewrite bm_get_cons_low by assumption. apply Ha; auto.
      * replace k with (64 + (k - 64)) by lia. rewrite bm_get_cons_high.
        apply IHc. replace (64 * N.succ w0 + (k - 64)) with (64 * w0 + k) by lia.
        apply Hd; [|assumption].
        pose proof (word_of_mono (64 * N.succ w0 + 0) (64 * w0 + k)).
        rewrite word_of_join in H0 by lia. lia.
Qed.

Lemma last_N_spec : forall idx m,
  last_N idx = Some m -> In m idx /\ (StronglySorted N.lt idx -> Forall (fun i => i <= m) idx).
Proof.
  induction idx as [|x r IH]; intros m H; [discriminate|].
  destruct r as [|y r'].
  - injection H as <-. split; [left; reflexivity|]. intros _. constructor; [lia|constructor].
  - change (last_N (x :: y :: r')) with (last_N (y :: r')) in H.
    destruct (IH _ H) as [Hin Hle]. split; [right; assumption|].
    intros Hs. inversion Hs as [|? ? Hs' Hall]; subst.
    constructor; [|auto].
    rewrite Forall_forall in Hall. apply Hall in Hin. lia.
Qed.

Lemma last_N_None : forall idx, last_N idx = None -> idx = [].
Proof.
  induction idx as [|x r IH]; [reflexivity|]. destruct r; [discriminate|].
  intros H. change (last_N (x :: n :: r)) with (last_N (n :: r)) in H. apply IH in H. discriminate.
Qed.

Theorem bm_of_spec : forall idx,
  StronglySorted N.lt idx -> Forall (fun i => i < int32_max) idx ->
  exists ws, bm_of idx = Val ws /\ words_ok ws /\
             (forall k, bm_get ws k = true <-> In k idx) /\
             N.of_nat (length ws) = span_words idx.
Proof.
  intros idx Hs Hok. unfold bm_of, span_words. destruct (last_N idx) as [m|] eqn:El.
  - destruct (last_N_spec _ _ El) as [Hin Hle]. specialize (Hle Hs).
    rewrite Forall_forall in Hok. pose proof (Hok _ Hin) as Hm.
    destruct (N.leb_spec int32_max m) as [Hbad|_]; [lia|].
    assert (Hn : N.shiftr (m + 1 + 63) 6 = word_of m + 1).
    { rewrite N.shiftr_div_pow2, word_of_spec. change (2 ^ 6) with 64.
      replace (m + 1 + 63) with (m + 1 * 64) by lia. rewrite N.div_add by lia. reflexivity. }
    rewrite Hn.
    destruct (bm_words_spec (N.to_nat (word_of m + 1)) 0 idx Hs) as (Ha & Hb & Hc).
    + rewrite Forall_forall. intros. lia.
    + rewrite Forall_forall in *. intros i Hi. pose proof (Hle _ Hi).
      pose proof (word_of_mono i m). lia.
    + eexists. split; [reflexivity|]. split; [assumption|]. split; [|lia].
      intros k. rewrite Hc. replace (64 * 0 + k) with k by lia. reflexivity.
  - apply last_N_None in El. subst. exists []. repeat split; try constructor.
    + intros H. discriminate.
    + intros [].
Qed.

Lemma bm_of_maxint32 : forall idx m, last_N idx = Some m -> int32_max <= m -> bm_of idx = Panic.
Proof.
  intros idx m H Hm. unfold bm_of. rewrite H.
  destruct (N.leb_spec int32_max m); [reflexivity|lia].
Qed.

(* ---------- counting listed positions ---------- *)

Lemma count_lt_none : forall idx n, Forall (fun i => n <= i) idx -> count_lt idx n = 0%nat.
Proof.
  induction idx as [|x r IH]; intros n H; [reflexivity|].
  inversion H; subst. unfold count_lt in *. cbn [filter].
  destruct (N.ltb_spec x n); [lia|]. auto.
Qed.

Lemma count_lt_succ : forall idx n,
  StronglySorted N.lt idx ->
  count_lt idx (N.succ n) = (count_lt idx n + (if existsb (N.eqb n) idx then 1 else 0))%nat.
Proof.
  induction idx as [|x r IH]; intros n Hs; [reflexivity|].
  inversion Hs as [|? ? Hs' Hall]; subst.
  unfold count_lt in *. cbn [filter existsb].
  destruct (N.ltb_spec x (N.succ n)), (N.ltb_spec x n); try lia.
  - cbn [length]. rewrite (IH n Hs').
    destruct (N.eqb_spec n x); [lia|]. cbn [orb]. lia.
  - assert (x = n) by lia. subst x.
    assert (H1 : Forall (fun i => N.succ n <= i) r) by (eapply Forall_impl; [|exact Hall]; cbv beta; intros; lia).
    assert (H2 : Forall (fun i => n <= i) r) by (eapply Forall_impl; [|exact Hall]; cbv beta; intros; lia).
    pose proof (count_lt_none r _ H1) as C1. pose proof (count_lt_none r _ H2) as C2.
    unfold count_lt in C1, C2. cbn [length]. rewrite C1, C2, N.eqb_refl. reflexivity.
  - destruct (N.eqb_spec n x); [lia|]. cbn [orb]. apply (IH n Hs').
Qed.

Lemma count_below_sorted : forall f idx,
  StronglySorted N.lt idx -> (forall k, f k = true <-> In k idx) ->
  forall n, count_below f n = count_lt idx (N.of_nat n).
Proof.
  intros f idx Hs Hf. induction n as [|n IH].
  - cbn. symmetry. apply count_lt_none. rewrite Forall_forall. intros. lia.
  - rewrite count_below_S_r, Nat2N.inj_succ, count_lt_succ, IH by assumption.
    assert (E : f (N.of_nat n) = existsb (N.eqb (N.of_nat n)) idx).
    { apply eq_true_iff_eq. rewrite Hf, existsb_exists. split.
      - intros H. exists (N.of_nat n). split; [assumption|apply N.eqb_refl].
      - intros (y & Hy & Ey). apply N.eqb_eq in Ey. congruence. }
    rewrite E. reflexivity.
Qed.

Lemma count_lt_nth : forall idx j,
  StronglySorted N.lt idx -> (j < length idx)%nat -> count_lt idx (nth j idx 0) = j.
Proof.
  induction idx as [|x r IH]; intros j Hs Hj; [cbn in Hj; lia|].
  inversion Hs as [|? ? Hs' Hall]; subst.
  destruct j as [|j].
  - cbn [nth]. apply count_lt_none. constructor; [lia|].
    eapply Forall_impl; [|exact Hall]. cbv beta. intros. lia.
  - cbn [nth]. cbn [length] in Hj.
    assert (Hin : In (nth j r 0) r) by (apply nth_In; lia).
    rewrite Forall_forall in Hall. apply Hall in Hin.
    unfold count_lt in *. cbn [filter]. destruct (N.ltb_spec x (nth j r 0)); [|lia].
    cbn [length]. f_equal. apply IH; [assumption|lia].
Qed.

(* rank of a listed position in the bitmap built from the list *)
Theorem rank_of_listed : forall ws idx j,
  StronglySorted N.lt idx -> (forall k, bm_get ws k = true <-> In k idx) ->
  (j < length idx)%nat -> rank_spec ws (nth j idx 0) = N.of_nat j.
Proof.
  intros ws idx j Hs Hf Hj. unfold rank_spec.
  rewrite (count_below_sorted _ idx Hs Hf), N2Nat.id, count_lt_nth by assumption. reflexivity.
Qed.
