(* ScanIterProofs.v - the iterator state machine of Scan.v yields, call by call,
   the in-order listing [items] of the unexplored part of the tree, with the key
   buffer rebuilt from stored prefixes, labels and leaf tails.  Purely
   structural: no build invariant is used here, only the positional
   well-formedness [scan_wf] of the tree. *)
From Slim Require Import Base Keys KeysProofs ListFacts Model TrieInv Scan ScanBasicProofs.
From Coq Require Import Sorting.Sorted ZifyNat ZifyBool.

Arguments Nat.div : simpl never.
Arguments Nat.modulo : simpl never.

(* ---------- the in-order listing with reconstructed keys ---------- *)
Definition item : Type := (list nat * tree)%type.

Definition pe_of (pfx : option (list nat)) (from : nat) : nat :=
  match pfx with Some p => even_down from + length p | None => from end.

Definition b1_of (pfx : option (list nat)) (from : nat) (buf : list nat) : list nat :=
  match pfx with Some p => firstn (even_down from) buf ++ p | None => firstn from buf end.

Fixpoint items (c : tree) (buf : list nat) (from : nat) {struct c} : list item :=
  match c with
  | Leaf _ _ tail _ => [(firstn (even_down from) buf ++ tail_nibs tail, c)]
  | Inner _ big _ pfx _ ch =>
      let b1 := b1_of pfx from buf in
      let pe := pe_of pfx from in
      (fix go (ch : list (nat * tree)) : list item :=
         match ch with
         | [] => []
         | (lb, c') :: r => items c' (b1 ++ label_nibs big lb) (pe + label_width big lb) ++ go r
         end) ch
  end.

Definition kids_items (big : bool) (b1 : list nat) (pe : nat) (ch : list (nat * tree)) : list item :=
  flat_map (fun p => items (snd p) (b1 ++ label_nibs big (fst p)) (pe + label_width big (fst p))) ch.

Lemma items_inner id big step pfx fc ch buf from :
  items (Inner id big step pfx fc ch) buf from = kids_items big (b1_of pfx from buf) (pe_of pfx from) ch.
Proof.
  cbn [items]. unfold kids_items. induction ch as [|[lb c] r IH]; [reflexivity|].
  cbn [flat_map fst snd]. rewrite IH. reflexivity.
Qed.

(* ---------- positional well-formedness ---------- *)
Fixpoint scan_wf (c : tree) (from : nat) {struct c} : Prop :=
  match c with
  | Leaf _ _ _ _ => True
  | Inner _ big _ pfx _ ch =>
      let pe := pe_of pfx from in
      ch <> [] /\ from <= pe /\ (big = true -> Nat.even pe = true) /\
      (fix all (ch : list (nat * tree)) : Prop :=
         match ch with
         | [] => True
         | (lb, c') :: r => ((lb = 0 -> Nat.even pe = true) /\ scan_wf c' (pe + label_width big lb)) /\ all r
         end) ch
  end.

Definition kid_wf (big : bool) (pe : nat) (p : nat * tree) : Prop :=
  (fst p = 0 -> Nat.even pe = true) /\ scan_wf (snd p) (pe + label_width big (fst p)).

Lemma scan_wf_inner id big step pfx fc ch from :
  scan_wf (Inner id big step pfx fc ch) from <->
  ch <> [] /\ from <= pe_of pfx from /\ (big = true -> Nat.even (pe_of pfx from) = true) /\
  Forall (kid_wf big (pe_of pfx from)) ch.
Proof.
  cbn [scan_wf]. set (pe := pe_of pfx from).
  assert ((fix all (ch : list (nat * tree)) : Prop :=
             match ch with
             | [] => True
             | (lb, c') :: r => ((lb = 0 -> Nat.even pe = true) /\ scan_wf c' (pe + label_width big lb)) /\ all r
             end) ch <-> Forall (kid_wf big pe) ch) as E.
  { induction ch as [|[lb c] r IH]; [split; [constructor|trivial]|].
    split.
    - intros [H1 H2]. constructor; [exact H1|apply IH; exact H2].
    - intros H. inversion H as [|? ? H1 H2]; subst. split; [exact H1|apply IH; exact H2]. }
  rewrite E. tauto.
Qed.

(* ---------- small list facts ---------- *)
Lemma skipn_nth_cons {A} (l : list A) n x : nth_error l n = Some x -> skipn n l = x :: skipn (S n) l.
Proof.
  revert n; induction l as [|y l IH]; intros [|n] H; cbn in *; try discriminate.
  - inversion H; reflexivity.
  - apply IH; exact H.
Qed.

Lemma firstn_firstn_le {A} n m (l : list A) : n <= m -> firstn n (firstn m l) = firstn n l.
Proof. intros H. rewrite firstn_firstn. f_equal. lia. Qed.

Lemma firstn_app_le {A} n (a b : list A) : n <= length a -> firstn n (a ++ b) = firstn n a.
Proof. intros H. rewrite firstn_app. replace (n - length a) with 0 by lia. cbn. apply app_nil_r. Qed.

Lemma firstn_eq_length {A} n (a b : list A) : firstn n a = firstn n b -> n <= length b -> n <= length a.
Proof.
  intros H Hb. assert (length (firstn n a) = length (firstn n b)) as L by (rewrite H; reflexivity).
  rewrite !firstn_length in L. lia.
Qed.

Lemma label_nibs_length big lb : length (label_nibs big lb) = label_width big lb.
Proof. destruct lb; [reflexivity|]. cbn. destruct big; reflexivity. Qed.

Lemma even_down_mono a b : a <= b -> even_down a <= even_down b.
Proof. unfold even_down. intros H. lia. Qed.

Lemma even_down_add_width big pe lb :
  (lb = 0 -> Nat.even pe = true) -> (big = true -> Nat.even pe = true) ->
  pe <= even_down (pe + label_width big lb).
Proof.
  intros H0 Hb. destruct lb as [|v].
  - cbn [label_width]. rewrite Nat.add_0_r. rewrite even_down_id by auto. lia.
  - cbn [label_width]. destruct big; cbn [wsize].
    + specialize (Hb eq_refl). apply Nat.even_spec in Hb. destruct Hb as [k ->]. unfold even_down. lia.
    + unfold even_down. lia.
Qed.

(* [items] reads the buffer only below [from] *)
Lemma b1_of_ext pfx from buf buf' :
  firstn from buf = firstn from buf' -> b1_of pfx from buf = b1_of pfx from buf'.
Proof.
  intros H. unfold b1_of. destruct pfx as [p|]; [|exact H]. f_equal.
  pose proof (even_down_le from) as Hle.
  rewrite <- (firstn_firstn_le (even_down from) from buf Hle), <- (firstn_firstn_le (even_down from) from buf' Hle), H.
  reflexivity.
Qed.

Lemma items_ext c buf buf' from :
  firstn from buf = firstn from buf' -> items c buf from = items c buf' from.
Proof.
  intros H. destruct c as [id ord tail eidx|id big step pfx fc ch].
  - cbn [items]. pose proof (even_down_le from) as Hle.
    rewrite <- (firstn_firstn_le (even_down from) from buf Hle), <- (firstn_firstn_le (even_down from) from buf' Hle), H.
    reflexivity.
  - rewrite !items_inner. rewrite (b1_of_ext pfx from buf buf' H). reflexivity.
Qed.

(* ---------- frames ---------- *)
Record frame_ok (f : frame) : Prop := {
  fo_idx : f_idx f < length (f_ch f);
  fo_le : forall lb c, nth_error (f_ch f) (f_idx f) = Some (lb, c) -> f_le f = f_pe f + label_width (f_big f) lb;
  fo_big : f_big f = true -> Nat.even (f_pe f) = true;
  fo_kids : Forall (kid_wf (f_big f) (f_pe f)) (f_ch f)
}.

Definition frame_items (f : frame) (buf : list nat) (n : nat) : list item :=
  kids_items (f_big f) (firstn (f_pe f) buf) (f_pe f) (skipn n (f_ch f)).

Definition below_all (stk : list frame) (buf : list nat) : list item :=
  flat_map (fun g => frame_items g buf (S (f_idx g))) stk.

Definition rem (stk : list frame) (buf : list nat) : list item :=
  match stk with
  | [] => []
  | top :: rest => frame_items top buf (f_idx top) ++ below_all rest buf
  end.

Definition pe_sorted (stk : list frame) : Prop := StronglySorted (fun upper lower => f_pe lower <= f_pe upper) stk.

Definition stack_ok (stk : list frame) (buf : list nat) : Prop :=
  Forall frame_ok stk /\ pe_sorted stk /\ Forall (fun g => f_pe g <= length buf) stk.

Lemma frame_items_ext f buf buf' n :
  firstn (f_pe f) buf = firstn (f_pe f) buf' -> frame_items f buf n = frame_items f buf' n.
Proof. intros H. unfold frame_items. rewrite H. reflexivity. Qed.

Lemma below_all_ext stk buf buf' :
  Forall (fun g => firstn (f_pe g) buf = firstn (f_pe g) buf') stk -> below_all stk buf = below_all stk buf'.
Proof.
  unfold below_all. induction 1 as [|g r Hg _ IH]; [reflexivity|]. cbn [flat_map].
  rewrite IH, (frame_items_ext g buf buf' _ Hg). reflexivity.
Qed.

Lemma below_all_app a b buf : below_all (a ++ b) buf = below_all a buf ++ below_all b buf.
Proof. unfold below_all. apply flat_map_app. Qed.

(* ---------- next ---------- *)
Lemma next_stack_rem : forall stk buf, rem (next_stack stk) buf = below_all stk buf.
Proof.
  induction stk as [|f r IH]; intros buf; [reflexivity|].
  cbn [next_stack]. destruct (nth_error (f_ch f) (S (f_idx f))) as [[lb c]|] eqn:E.
  - reflexivity.
  - rewrite IH. unfold below_all at 2. cbn [flat_map]. unfold frame_items at 1.
    apply nth_error_None in E. rewrite skipn_all2 by exact E. reflexivity.
Qed.

Lemma next_stack_ok : forall stk buf, stack_ok stk buf -> stack_ok (next_stack stk) buf.
Proof.
  induction stk as [|f r IH]; intros buf (Hf & Hs & Hl); [repeat split; constructor|].
  inversion Hf as [|? ? Hf1 Hf2]; subst. inversion Hs as [|? ? Hs1 Hs2]; subst. inversion Hl as [|? ? Hl1 Hl2]; subst.
  cbn [next_stack]. destruct (nth_error (f_ch f) (S (f_idx f))) as [[lb c]|] eqn:E.
  - repeat split.
    + constructor; [|exact Hf2]. constructor; cbn [f_idx f_ch f_le f_pe f_big].
      * apply nth_error_Some. rewrite E. discriminate.
      * intros lb' c' H. rewrite E in H. inversion H; subst. reflexivity.
      * apply (fo_big _ Hf1).
      * apply (fo_kids _ Hf1).
    + constructor; [exact Hs1|exact Hs2].
    + constructor; [exact Hl1|exact Hl2].
  - apply IH. repeat split; assumption.
Qed.

(* ---------- every well-formed subtree lists at least one leaf ---------- *)
Lemma items_nonempty : forall c buf from, scan_wf c from -> items c buf from <> [].
Proof.
  induction c as [id ord tail eidx|id big step pfx fc ch IH] using tree_ind'; intros buf from H; [discriminate|].
  apply scan_wf_inner in H. destruct H as (Hne & _ & _ & Hk). rewrite items_inner.
  destruct ch as [|[lb c] r]; [congruence|]. unfold kids_items. cbn [flat_map fst snd].
  inversion IH as [|? ? IHc _]; subst. inversion Hk as [|? ? [_ Hc] _]; subst. cbn [fst snd] in *.
  intros E. apply app_eq_nil in E. destruct E as [E _]. eapply IHc; eassumption.
Qed.

(* ---------- the walk down to the next leaf ---------- *)
Lemma b1_of_length pfx from buf : from <= length buf -> length (b1_of pfx from buf) = pe_of pfx from.
Proof.
  intros H. unfold b1_of, pe_of. pose proof (even_down_le from). destruct pfx as [p|].
  - rewrite app_length, firstn_length. lia.
  - rewrite firstn_length. lia.
Qed.

Lemma b1_of_firstn pfx from buf n :
  from <= length buf -> n <= even_down from -> firstn n (b1_of pfx from buf) = firstn n buf.
Proof.
  intros H Hn. pose proof (even_down_le from). unfold b1_of. destruct pfx as [p|].
  - rewrite firstn_app_le by (rewrite firstn_length; lia). apply firstn_firstn_le. exact Hn.
  - apply firstn_firstn_le. lia.
Qed.

Lemma descend_spec : forall c last buf stk,
  scan_wf c (f_le last) -> f_le last <= length buf ->
  exists pushed buf' leaf,
    descend_first c last buf stk = Ok (pushed ++ stk, buf', leaf) /\
    items c buf (f_le last) = (buf', leaf) :: below_all pushed buf' /\
    (forall n, n <= even_down (f_le last) -> firstn n buf' = firstn n buf) /\
    Forall frame_ok pushed /\ Forall (fun g => f_le last <= f_pe g) pushed /\ pe_sorted pushed /\
    Forall (fun g => f_pe g <= length buf') pushed.
Proof.
  induction c as [id ord tail eidx|id big step pfx fc ch IH] using tree_ind'; intros last buf stk Hwf Hlen.
  - exists [], (firstn (even_down (f_le last)) buf ++ tail_nibs tail), (Leaf id ord tail eidx).
    pose proof (even_down_le (f_le last)) as Hle.
    cbn [descend_first]. unfold append_leaf_prefix.
    destruct (Nat.ltb_spec (length buf) (even_down (f_le last))) as [|_]; [lia|]. cbn [bind app].
    repeat split; try constructor.
    intros n Hn. rewrite firstn_app_le by (rewrite firstn_length; lia). apply firstn_firstn_le. exact Hn.
  - apply scan_wf_inner in Hwf. destruct Hwf as (Hne & Hfrom & Hbig & Hk).
    destruct ch as [|[lb0 c0] chr]; [congruence|].
    set (le := f_le last) in *. set (pe := pe_of pfx le) in *.
    set (f := {| f_big := big; f_ch := (lb0, c0) :: chr; f_idx := 0; f_ps := le; f_pe := pe;
                 f_le := pe + label_width big lb0 |}).
    inversion Hk as [|? ? [Hz Hc0] Hkr]; subst. cbn [fst snd] in Hz, Hc0.
    inversion IH as [|? ? IH0 _]; subst. cbn [snd] in IH0.
    pose proof (even_down_le le) as Hed.
    set (b1 := b1_of pfx le buf).
    assert (length b1 = pe) as Lb1 by (apply b1_of_length; exact Hlen).
    set (buf2 := b1 ++ label_nibs big lb0).
    assert (length buf2 = f_le f) as Lbuf2.
    { unfold buf2. rewrite app_length, Lb1, label_nibs_length. reflexivity. }
    assert (pe <= even_down (f_le f)) as Hpe_ed by (apply even_down_add_width; assumption).
    destruct (IH0 f buf2 (f :: stk) Hc0 (ltac:(rewrite Lbuf2; lia))) as (pushed0 & buf' & leaf & Hd & Hit & Hpres & Hfo & Hge & Hso & Hln).
    exists (pushed0 ++ [f]), buf', leaf.
    assert (descend_first (Inner id big step pfx fc ((lb0, c0) :: chr)) last buf stk = descend_first c0 f buf2 (f :: stk)) as Hstep.
    { cbn [descend_first init_frame bind nth_error]. fold le. fold pe. fold f.
      unfold append_inner_prefix. cbn [f_ps f].
      assert ((match pfx with
               | Some p => if length buf <? even_down le then Err (EPanic 41) else Ok (firstn (even_down le) buf ++ p)
               | None => Ok buf
               end) = Ok (match pfx with Some p => firstn (even_down le) buf ++ p | None => buf end)) as E1.
      { destruct pfx; [|reflexivity]. destruct (Nat.ltb_spec (length buf) (even_down le)); [lia|reflexivity]. }
      rewrite E1. cbn [bind]. unfold append_label. cbn [f_ch f_idx f_pe f_big f nth_error].
      set (bufx := match pfx with Some p => firstn (even_down le) buf ++ p | None => buf end).
      assert (pe <= length bufx /\ firstn pe bufx = b1) as [Hx1 Hx2].
      { unfold bufx, b1, b1_of, pe, pe_of. destruct pfx as [p|].
        - rewrite app_length, firstn_length. split; [lia|].
          rewrite firstn_all2; [reflexivity|]. rewrite app_length, firstn_length. lia.
        - split; [lia|reflexivity]. }
      change (match pfx with Some p => even_down le + length p | None => le end) with pe.
      fold f.
      destruct (Nat.ltb_spec (length bufx) pe) as [|_]; [lia|].
      assert (big && negb (Nat.even pe) && negb (lb0 =? 0) = false) as E2.
      { destruct big; [|reflexivity]. rewrite (Hbig eq_refl). reflexivity. }
      rewrite E2, Hx2. cbn [bind]. reflexivity. }
    rewrite Hstep, Hd. rewrite <- app_assoc. cbn [app].
    split; [reflexivity|].
    assert (firstn pe buf' = b1) as Hb1'.
    { rewrite (Hpres pe Hpe_ed). unfold buf2. rewrite firstn_app_le by lia. rewrite firstn_all2 by lia. reflexivity. }
    split.
    { rewrite items_inner. fold le pe b1. unfold kids_items. cbn [flat_map fst snd]. fold buf2.
      change (pe + label_width big lb0) with (f_le f). rewrite Hit. cbn [app]. f_equal.
      rewrite below_all_app. f_equal. unfold below_all. cbn [flat_map]. rewrite app_nil_r.
      unfold frame_items. cbn [f_big f_pe f_ch f_idx f skipn]. rewrite Hb1'. reflexivity. }
    split.
    { intros n Hn. rewrite (Hpres n) by lia. unfold buf2. rewrite firstn_app_le by lia.
      apply b1_of_firstn; assumption. }
    split.
    { apply Forall_app. split; [exact Hfo|]. constructor; [|constructor]. constructor; cbn [f_idx f_ch f_le f_pe f_big f].
      - cbn. lia.
      - intros lb c H. cbn in H. inversion H; subst. reflexivity.
      - exact Hbig.
      - exact Hk. }
    split.
    { apply Forall_app. split.
      - eapply Forall_impl; [|exact Hge]. intros g Hg. cbn beta in Hg. cbn [f_le f] in Hg. lia.
      - constructor; [|constructor]. exact Hfrom. }
    split.
    { unfold pe_sorted. clear - Hso Hge. induction pushed0 as [|g r IHr]; [constructor; constructor|].
      inversion Hso as [|? ? Hs1 Hs2]; subst. inversion Hge as [|? ? Hg1 Hg2]; subst.
      cbn [app]. constructor; [apply IHr; assumption|].
      apply Forall_app. split; [exact Hs2|]. constructor; [|constructor]. cbn [f_le f_pe f] in *. lia. }
    apply Forall_app. split; [exact Hln|]. constructor; [|constructor]. cbn [f_pe f].
    apply (firstn_eq_length pe buf' buf2); [rewrite Hb1'; unfold buf2; rewrite firstn_app_le by lia; rewrite firstn_all2 by lia; reflexivity|].
    rewrite Lbuf2. cbn [f_le f]. lia.
Qed.

(* ---------- one call of the iterator closure ---------- *)
Definition iter_rem (it : iter) : list item :=
  match it_mode it with
  | MNormal => rem (it_stack it) (it_buf it)
  | MSingle c consumed =>
      if consumed then []
      else match c with
           | Leaf _ _ tail _ => [(it_buf it ++ tail_nibs tail, c)]
           | Inner _ _ _ _ _ _ => []
           end
  end.

Definition iter_ok (it : iter) : Prop :=
  match it_mode it with
  | MNormal => stack_ok (it_stack it) (it_buf it)
  | MSingle c _ => match c with Leaf _ _ _ _ => True | Inner _ _ _ _ _ _ => False end
  end.

Lemma stack_top_nonempty top rest buf : stack_ok (top :: rest) buf -> rem (top :: rest) buf <> [].
Proof.
  intros (Hf & _ & _). inversion Hf as [|? ? Hf1 _]; subst.
  pose proof (fo_idx _ Hf1) as Hi.
  destruct (nth_error (f_ch top) (f_idx top)) as [[lb c]|] eqn:E; [|apply nth_error_None in E; lia].
  cbn [rem]. unfold frame_items. rewrite (skipn_nth_cons _ _ _ E). unfold kids_items. cbn [flat_map fst snd].
  pose proof (fo_kids _ Hf1) as Hk. rewrite Forall_forall in Hk.
  destruct (Hk _ (nth_error_In _ _ E)) as [_ Hwf]. cbn [fst snd] in Hwf.
  intros H. apply app_eq_nil in H. destruct H as [H _]. apply app_eq_nil in H. destruct H as [H _].
  eapply items_nonempty; eassumption.
Qed.

Theorem iter_step T it nb leaf R k v :
  iter_ok it -> iter_rem it = (nb, leaf) :: R ->
  pack nb = Some k -> leaf_val T (it_withv it) leaf = Ok v ->
  exists it', iter_next T it = Ok (Some (k, v), it') /\ iter_ok it' /\ iter_rem it' = R /\
              it_withv it' = it_withv it.
Proof.
  intros Hok Hrem Hk Hv. unfold iter_next, iter_ok, iter_rem in *.
  destruct (it_mode it) as [|c consumed].
  - destruct (it_stack it) as [|top rest] eqn:Estk; [discriminate|].
    set (buf := it_buf it) in *.
    destruct Hok as (Hf & Hs & Hl).
    inversion Hf as [|? ? Hf1 Hf2]; subst. inversion Hs as [|? ? Hs1 Hs2]; subst. inversion Hl as [|? ? Hl1 Hl2]; subst.
    pose proof (fo_idx _ Hf1) as Hi.
    destruct (nth_error (f_ch top) (f_idx top)) as [[lb c]|] eqn:E; [|apply nth_error_None in E; lia].
    pose proof (fo_le _ Hf1 lb c E) as Hle.
    pose proof (fo_kids _ Hf1) as Hkids. rewrite Forall_forall in Hkids.
    destruct (Hkids _ (nth_error_In _ _ E)) as [Hz Hwf]. cbn [fst snd] in Hz, Hwf.
    assert (f_big top && negb (Nat.even (f_pe top)) && negb (lb =? 0) = false) as E2.
    { destruct (f_big top) eqn:Eb; [|reflexivity]. rewrite (fo_big _ Hf1 Eb). reflexivity. }
    set (pe := f_pe top) in *. set (big := f_big top) in *.
    set (buf1 := firstn pe buf ++ label_nibs big lb).
    assert (append_label top buf = Ok buf1) as Hal.
    { unfold append_label. rewrite E. fold pe big.
      destruct (Nat.ltb_spec (length buf) pe) as [|_]; [lia|].
      rewrite E2. reflexivity. }
    rewrite Hal. cbn [bind].
    assert (length buf1 = f_le top) as Lb1.
    { unfold buf1. rewrite app_length, firstn_length, label_nibs_length. lia. }
    rewrite <- Hle in Hwf.
    destruct (descend_spec c top buf1 (top :: rest) Hwf (ltac:(lia))) as (pushed & buf' & lf & Hd & Hit & Hpres & Hfo & Hge & Hso & Hln).
    rewrite Hd. cbn [bind fst snd].
    assert (pe <= even_down (f_le top)) as Hpe_ed.
    { rewrite Hle. apply even_down_add_width; [exact Hz|apply (fo_big _ Hf1)]. }
    (* the buffer below the top frame's prefix end is untouched *)
    assert (forall n, n <= pe -> firstn n buf' = firstn n buf) as Hold.
    { intros n Hn. rewrite (Hpres n) by lia. unfold buf1. rewrite firstn_app_le by (rewrite firstn_length; lia).
      apply firstn_firstn_le. exact Hn. }
    (* the remaining listing *)
    assert (rem (top :: rest) buf = (buf', lf) :: below_all (pushed ++ top :: rest) buf') as Hrem'.
    { cbn [rem]. unfold frame_items at 1. rewrite (skipn_nth_cons _ _ _ E).
      unfold kids_items. cbn [flat_map fst snd]. fold big pe. fold buf1. rewrite <- Hle, Hit.
      cbn [app]. f_equal. rewrite below_all_app, <- app_assoc. f_equal.
      change (below_all (top :: rest) buf') with (frame_items top buf' (S (f_idx top)) ++ below_all rest buf').
      f_equal.
      - apply frame_items_ext. fold pe. symmetry. apply Hold. lia.
      - apply below_all_ext. rewrite Forall_forall in Hs2 |- *. intros g Hg. symmetry. apply Hold. apply Hs2. exact Hg. }
    rewrite Hrem' in Hrem. inversion Hrem; subst nb leaf R. clear Hrem.
    unfold pack_res. rewrite Hk. cbn [bind]. rewrite Hv. cbn [bind].
    eexists. split; [reflexivity|]. cbn [it_mode it_stack it_buf it_withv].
    split; [|split; [apply next_stack_rem|reflexivity]].
    apply next_stack_ok. repeat split.
    + apply Forall_app. split; [exact Hfo|exact Hf].
    + unfold pe_sorted. clear - Hso Hge Hs Hpe_ed. 
      assert (forall g, In g (top :: rest) -> f_pe g <= f_pe top) as Hall.
      { intros g [<-|Hg]; [lia|]. inversion Hs as [|? ? _ H2]; subst. rewrite Forall_forall in H2. auto. }
      induction pushed as [|g r IHr]; [exact Hs|].
      inversion Hso as [|? ? Hs1' Hs2']; subst. inversion Hge as [|? ? Hg1 Hg2]; subst.
      cbn [app]. constructor; [apply IHr; assumption|].
      apply Forall_app. split; [exact Hs2'|]. rewrite Forall_forall. intros x Hx.
      specialize (Hall x Hx). pose proof (even_down_le (f_le top)). lia.
    + apply Forall_app. split; [exact Hln|].
      assert (pe <= length buf') as Hpl.
      { apply (firstn_eq_length pe buf' buf); [apply Hold; lia|exact Hl1]. }
      constructor; [exact Hpl|]. rewrite Forall_forall in Hs2 |- *. intros g Hg. specialize (Hs2 g Hg). fold pe in Hs2. lia.
  - destruct consumed; [discriminate|]. destruct c as [id ord tail eidx|]; [|discriminate].
    inversion Hrem; subst nb leaf R. unfold pack_res. rewrite Hk. cbn [bind]. rewrite Hv. cbn [bind].
    eexists. split; [reflexivity|]. cbn [it_mode it_withv]. repeat split.
Qed.

Theorem iter_end T it : iter_ok it -> iter_rem it = [] -> iter_next T it = Ok (None, it).
Proof.
  unfold iter_ok, iter_rem, iter_next. destruct (it_mode it) as [|c consumed].
  - destruct (it_stack it) as [|top rest]; [reflexivity|].
    intros Hok Hrem. exfalso. eapply stack_top_nonempty; eassumption.
  - destruct consumed; [reflexivity|]. destruct c; [discriminate|]. intros [].
Qed.

(* the relation between the listed items and what the closure hands out *)
Definition out_of (T : trie) (withv : bool) (x : item) (o : kv) : Prop :=
  pack (fst x) = Some (fst o) /\ leaf_val T withv (snd x) = Ok (snd o).

Lemma firstn_pad {A} (l : list A) d n : firstn n (l ++ repeat d (S n)) = firstn n (l ++ repeat d n).
Proof.
  cbn [repeat]. rewrite repeat_cons, app_assoc. apply firstn_app_le. rewrite app_length, repeat_length. lia.
Qed.

Theorem iter_run_spec T : forall outs it,
  iter_ok it -> Forall2 (out_of T (it_withv it)) (iter_rem it) outs ->
  forall n, iter_run n T it = Ok (firstn n (map Some outs ++ repeat None n)).
Proof.
  induction outs as [|o outs IH]; intros it Hok HF n.
  - inversion HF as [E|]; subst. symmetry in E. pose proof (iter_end T it Hok E) as He.
    cbn [map app]. rewrite firstn_all2 by (rewrite repeat_length; lia).
    destruct n as [|n]; [reflexivity|]. cbn [iter_run]. rewrite He. cbn [bind].
    rewrite (run_after_exhaustion T it it n He). reflexivity.
  - inversion HF as [|x ? R ? [Hp Hv] HF' E]; subst. symmetry in E. destruct x as [nb leaf]. destruct o as [k v].
    cbn [fst snd] in Hp, Hv.
    destruct (iter_step T it nb leaf R k v Hok E Hp Hv) as (it' & Hn & Hok' & Hrem' & Hw).
    destruct n as [|n]; [reflexivity|]. cbn [iter_run map app firstn]. rewrite Hn. cbn [bind].
    rewrite (IH it' Hok'); [|rewrite Hrem', Hw; exact HF'].
    cbn [bind]. f_equal. f_equal.
    symmetry. apply firstn_pad.
Qed.

Theorem iter_drain_spec T : forall outs it fuel,
  iter_ok it -> Forall2 (out_of T (it_withv it)) (iter_rem it) outs -> length outs < fuel ->
  exists it', iter_drain fuel T it = Ok (outs, it') /\ iter_next T it' = Ok (None, it').
Proof.
  induction outs as [|o outs IH]; intros it fuel Hok HF Hfuel.
  - inversion HF as [E|]; subst. symmetry in E. pose proof (iter_end T it Hok E) as He.
    destruct fuel as [|f]; [cbn in Hfuel; lia|]. cbn [iter_drain]. rewrite He. cbn [bind]. eauto.
  - inversion HF as [|x ? R ? [Hp Hv] HF' E]; subst. symmetry in E. destruct x as [nb leaf]. destruct o as [k v].
    cbn [fst snd] in Hp, Hv.
    destruct (iter_step T it nb leaf R k v Hok E Hp Hv) as (it' & Hn & Hok' & Hrem' & Hw).
    destruct fuel as [|f]; [cbn in Hfuel; lia|]. cbn [iter_drain]. rewrite Hn. cbn [bind].
    destruct (IH it' f Hok') as (it'' & Hd & He); [rewrite Hrem', Hw; exact HF'|cbn [length] in Hfuel; lia|].
    rewrite Hd. cbn [bind]. eauto.
Qed.
