(* LegacyBytesFitProofs.v - the three messages the old writer lays out are representable
   (LegacyBytes.arrays_fit: every field fits its Go type, every section body is shorter
   than 2^63 bytes) whenever the table has at most 2^26 nodes and the value size fits an
   int32: crude size bounds on the protobuf encoding (a varint has at most 10 bytes). *)
From Coq Require Import List Arith Bool NArith ZArith Lia Sorted.
From Coq Require Import ZifyN ZifyNat ZifyBool.
From Coq.Strings Require Import Byte.
From Slim Require Import Base Keys Model LegacyConv.
From Slim Require Import Varint VarintProofs Proto ProtoProofs BitmapRank BitmapRankProofs BitmapRank2
     BitmapRank2Proofs Arrays ArraysProofs ArrWire ArrWireProofs ListFacts LegacyBytes LegacyBytesProofs.
Import ListNotations.
Local Open Scope N_scope.

(* ---- sizes ---------------------------------------------------------------------------- *)
Lemma size_var_le : forall f n, size_var f n <= N.of_nat f.
Proof.
  induction f as [|f IH]; intro n; cbn [size_var]; [lia|].
  destruct (n <? 128); [lia|]. specialize (IH (n / 128)). lia.
Qed.
Lemma size_varint_le : forall n, size_varint n <= 10.
Proof. intro n. unfold size_varint. pose proof (size_var_le 10 n). lia. Qed.

Lemma sum_sizes_le : forall vs, sum_N (map size_varint vs) <= 10 * N.of_nat (length vs).
Proof.
  induction vs as [|v vs IH]; [cbn; lia|]. cbn [map sum_N length]. pose proof (size_varint_le v). lia.
Qed.

Lemma sz_lenfield_le : forall tag n, sz_lenfield tag n <= 20 + n.
Proof. intros. unfold sz_lenfield. pose proof (size_varint_le (tag * 8 + 2)). pose proof (size_varint_le n). lia. Qed.
Lemma sz_packed_le : forall tag vs, sz_packed tag vs <= 20 + 10 * N.of_nat (length vs).
Proof.
  intros tag vs. unfold sz_packed. destruct vs as [|v r]; [lia|].
  pose proof (sz_lenfield_le tag (sum_N (map size_varint (v :: r)))). pose proof (sum_sizes_le (v :: r)). lia.
Qed.
Lemma sz_int32_le : forall tag z, sz_int32 tag z <= 20.
Proof.
  intros. unfold sz_int32. destruct (z =? 0)%Z; [lia|].
  pose proof (size_varint_le (tag * 8)). pose proof (size_varint_le (u64_of_int32 z)). lia.
Qed.
Lemma sz_uint32_le : forall tag v, sz_uint32 tag v <= 20.
Proof.
  intros. unfold sz_uint32. destruct (v =? 0); [lia|].
  pose proof (size_varint_le (tag * 8)). pose proof (size_varint_le v). lia.
Qed.
Lemma sz_bytes_le : forall tag p, sz_bytes tag p <= 20 + blen p.
Proof. intros. unfold sz_bytes. destruct p; [lia|]. apply sz_lenfield_le. Qed.

Lemma size_bits_le : forall b,
  size_bits b <= 80 + 10 * N.of_nat (length (wb_words b)) + 10 * N.of_nat (length (wb_rank b)) + blen (wb_unk b).
Proof.
  intro b. unfold size_bits.
  pose proof (sz_uint32_le 1 (wb_flags b)). pose proof (sz_int32_le 10 (wb_n b)).
  pose proof (sz_packed_le 20 (wb_words b)). pose proof (sz_packed_le 30 (map u64_of_int32 (wb_rank b))).
  rewrite map_length in *. lia.
Qed.

Lemma size_array32_le : forall a,
  size_array32 a <= 140 + 10 * N.of_nat (length (wa_bitmaps a)) + 10 * N.of_nat (length (wa_offsets a)) +
                    blen (wa_elts a) + match wa_bmelts a with None => 0 | Some b => size_bits b end + blen (wa_unk a).
Proof.
  intro a. unfold size_array32.
  pose proof (sz_int32_le 1 (wa_cnt a)). pose proof (sz_packed_le 2 (wa_bitmaps a)).
  pose proof (sz_packed_le 3 (map u64_of_int32 (wa_offsets a))). rewrite map_length in *.
  pose proof (sz_bytes_le 4 (wa_elts a)). pose proof (sz_uint32_le 10 (wa_flags a)).
  pose proof (sz_int32_le 20 (wa_eltwidth a)).
  assert (sz_msg size_bits 30 (wa_bmelts a) <= 20 + match wa_bmelts a with None => 0 | Some b => size_bits b end).
  { unfold sz_msg. destruct (wa_bmelts a); [apply sz_lenfield_le|lia]. }
  lia.
Qed.

(* ---- values ---------------------------------------------------------------------------- *)
Lemma index_rank128_bound : forall n (ws : list N), (length ws <= n)%nat -> words_ok ws -> forall n0,
  Forall (fun x => x <= n0 + 64 * N.of_nat (length ws)) (index_rank128 ws n0).
Proof.
  induction n as [|n IH]; intros ws Hlen Hok n0.
  - destruct ws; [constructor; [cbn; lia|constructor]|cbn in Hlen; lia].
  - destruct ws as [|w1 [|w2 r]]; [constructor; [cbn; lia|constructor]|constructor; [cbn [length]; lia|constructor]|].
    inversion Hok as [|? ? H1 Hok1]; subst. inversion Hok1 as [|? ? H2 Hok2]; subst.
    cbn [index_rank128]. constructor; [cbn [length]; lia|].
    specialize (IH r ltac:(cbn [length] in Hlen; lia) Hok2 (n0 + popcount w1 + popcount w2)).
    eapply Forall_impl; [|exact IH]. cbv beta. intros a Ha.
    pose proof (popcount_le_64 w1 H1). pose proof (popcount_le_64 w2 H2). cbn [length]. lia.
Qed.

Lemma forallb_int32_of_small : forall l, Forall (fun x => x < two31) l -> forallb int32_ok (map Z.of_N l) = true.
Proof.
  intros l H. apply forallb_int32_of_N. apply forallb_of_Forall. eapply Forall_impl; [|exact H]. cbv beta.
  intros x Hx. unfold n31_ok. apply N.ltb_lt. exact Hx.
Qed.

Lemma words_ok_u64 : forall ws, words_ok ws -> forallb u64_ok ws = true.
Proof.
  intros ws H. apply forallb_of_Forall. unfold words_ok in H. eapply Forall_impl; [|exact H]. cbv beta.
  intros x Hx. unfold u64_ok, two64. change (2 ^ 64) with 18446744073709551616 in Hx. lia.
Qed.

Lemma len_ok_small : forall l : list byte, blen l < two63 -> len_ok l = true.
Proof. intros l H. unfold len_ok. apply N.ltb_lt. unfold two63, two64 in *. lia. Qed.

Lemma u64_map_of_N : forall l, Forall (fun x => x < two31) l -> map u64_of_int32 (map Z.of_N l) = l.
Proof.
  intros l H. apply map_u64_of_N. apply forallb_of_Forall. eapply Forall_impl; [|exact H]. cbv beta.
  intros x Hx. unfold n31_ok. apply N.ltb_lt. exact Hx.
Qed.

(* one array built by mk_array *)
Lemma mk_array_fit : forall idx pad elts fl ew bme a,
  StronglySorted N.lt idx -> idx_ok idx -> pad <= int32_max ->
  mk_array idx pad elts fl ew bme = Val a ->
  blen elts < 2 ^ 60 -> u32_ok fl = true -> int32_ok ew = true ->
  opt_all wf_bits bme = true ->
  match bme with None => True | Some b => size_bits b < 2 ^ 60 end ->
  wf_array32 a = true /\ blen (ser_array32 a) < two63.
Proof.
  intros idx pad elts fl ew bme a Hs Hok Hpad E Helts Hfl Hew Hwb Hsb.
  destruct (mk_array_ok idx pad elts fl ew bme Hs Hok) as (ws & E' & (_ & Hwok & _ & _) & Hlen).
  rewrite E in E'. injection E' as ->.
  assert (Hlw : N.of_nat (length ws) <= 33554432).
  { pose proof (span_words_bound idx Hok). unfold nwords_for in Hlen.
    assert (N.shiftr (pad + 63) 6 <= 33554432).
    { rewrite N.shiftr_div_pow2. change (2 ^ 6) with 64. unfold int32_max in Hpad. lia. }
    lia. }
  assert (Hoffs : Forall (fun x => x < two31) (offsets_of ws)).
  { unfold offsets_of. apply fix_empty_Forall; [reflexivity|].
    pose proof (index_rank64_bound ws 0 Hwok) as Hb. eapply Forall_impl; [|exact Hb]. cbv beta.
    intros x Hx. unfold two31. lia. }
  assert (Hli : N.of_nat (length idx) <= int32_max).
  { pose proof (sorted_length_bound idx 0 int32_max Hs) as Hb. rewrite N.add_0_l in Hb. apply Hb.
    - apply Forall_forall. intros. lia.
    - exact Hok.
    - unfold int32_max. lia. }
  split.
  - unfold wf_array32. cbn [wa_cnt wa_bitmaps wa_offsets wa_elts wa_flags wa_eltwidth wa_bmelts wa_unk nil_bytes].
    rewrite (words_ok_u64 _ Hwok), (forallb_int32_of_small _ Hoffs), Hfl, Hew, Hwb.
    rewrite (u64_map_of_N _ Hoffs).
    rewrite (len_ok_packed_small ws Hlw).
    rewrite (len_ok_packed_small (offsets_of ws)) by (rewrite offsets_of_length; exact Hlw).
    assert (int32_ok (Z.of_nat (length idx)) = true) as ->.
    { unfold int32_ok. apply andb_true_iff. unfold two31. unfold int32_max in Hli. split; [apply Z.leb_le|apply Z.ltb_lt]; lia. }
    assert (len_ok elts = true) as -> by (apply len_ok_small; unfold two63; change (2 ^ 60) with 1152921504606846976 in Helts; lia).
    cbn [andb]. destruct bme as [b|]; cbn [opt_all]; [|reflexivity].
    rewrite !andb_true_r. apply len_ok_small. rewrite size_bits_length. unfold two63. change (2 ^ 60) with 1152921504606846976 in Hsb. lia.
  - rewrite size_array32_length.
    pose proof (size_array32_le (mkWArray (Z.of_nat (length idx)) ws (map Z.of_N (offsets_of ws)) elts fl ew bme [])) as Hle.
    cbn [wa_bitmaps wa_offsets wa_elts wa_bmelts wa_unk] in Hle. rewrite map_length, offsets_of_length in Hle.
    change (blen []) with 0 in Hle. unfold two63. change (2 ^ 60) with 1152921504606846976 in *.
    destruct bme as [b|]; lia.
Qed.

(* ---- the three arrays of a table ---------------------------------------------------------- *)
Lemma filter_length_le : forall {A} (f : A -> bool) l, (length (filter f l) <= length l)%nat.
Proof. intros A f l. induction l as [|x r IH]; [cbn; lia|]. cbn [filter]. destruct (f x); cbn [length]; lia. Qed.

Lemma concat_length_le : forall (es : list (list byte)) w,
  Forall (fun e => (length e <= w)%nat) es -> (length (concat es) <= w * length es)%nat.
Proof.
  induction es as [|e es IH]; intros w H; [cbn; lia|].
  inversion H; subst. cbn [concat length]. rewrite app_length. specialize (IH w H3). lia.
Qed.

Lemma last_in_nonempty : forall (l : list nat) d, l <> [] -> In (last l d) l.
Proof.
  induction l as [|x r IH]; intros d H; [congruence|].
  destruct r as [|y r']; [left; reflexivity|]. right. apply IH. discriminate.
Qed.

Theorem written_arrays_fit : forall l ot vals esz a,
  table_wf (length vals) ot = true -> vals_ok esz vals = true ->
  N.of_nat (length ot) <= 2 ^ 26 -> N.of_nat esz < 2 ^ 31 ->
  arrays_of_old l ot vals = Val a -> arrays_fit a = true.
Proof.
  intros l ot vals esz a Hwf Hv Hn He E.
  destruct (table_wf_nodes _ _ Hwf) as [Hnodes _].
  assert (Hlen : N.of_nat (length ot) <= int32_max) by (unfold int32_max; change (2 ^ 26) with 67108864 in Hn; lia).
  assert (Hpad : (if l_pad l then N.of_nat (length ot) else 0) <= int32_max) by (destruct (l_pad l); [exact Hlen|unfold int32_max; lia]).
  set (pad := if l_pad l then N.of_nat (length ot) else 0) in *.
  unfold arrays_of_old in E. fold pad in E.
  destruct (children_array l ot pad) as [ch|] eqn:Ech; [|discriminate].
  destruct (steps_array ot pad) as [st|] eqn:Est; [|discriminate].
  destruct (leaves_array ot vals pad) as [lv|] eqn:Elv; [|discriminate].
  injection E as <-. change (2 ^ 26) with 67108864 in Hn. change (2 ^ 31) with 2147483648 in He.
  assert (Hfl : forall p, N.of_nat (length (filter p ot)) <= 67108864).
  { intros p. pose proof (filter_length_le p ot). lia. }
  (* steps *)
  assert (wf_array32 st = true /\ blen (ser_array32 st) < two63) as [Ws Bs].
  { unfold steps_array in Est.
    eapply mk_array_fit; try exact Est; try apply ids_where_sorted; try (apply ids_where_idx_ok; exact Hlen);
      try exact Hpad; try reflexivity; try exact I.
    unfold blen. pose proof (concat_length_le (map step_elt (filter has_step ot)) 2) as Hc.
    rewrite map_length in Hc. specialize (Hfl has_step). change (2 ^ 60) with 1152921504606846976.
    assert (length (concat (map step_elt (filter has_step ot))) <= 2 * length (filter has_step ot))%nat; [|lia].
    apply Hc. apply Forall_forall. intros e Hin. apply in_map_iff in Hin. destruct Hin as (n & <- & _).
    unfold step_elt. rewrite encode_int_length. cbn. lia. }
  (* leaves *)
  assert (wf_array32 lv = true /\ blen (ser_array32 lv) < two63) as [Wl Bl].
  { unfold leaves_array in Elv.
    eapply mk_array_fit; try exact Elv; try apply ids_where_sorted; try (apply ids_where_idx_ok; exact Hlen);
      try exact Hpad; try reflexivity; try exact I.
    unfold blen. pose proof (concat_length_le (map (leaf_elt vals) (filter has_leaf ot)) esz) as Hc.
    rewrite map_length in Hc. specialize (Hfl has_leaf). change (2 ^ 60) with 1152921504606846976.
    assert (length (concat (map (leaf_elt vals) (filter has_leaf ot))) <= esz * length (filter has_leaf ot))%nat; [|nia].
    apply Hc. apply Forall_forall. intros e Hin. apply in_map_iff in Hin. destruct Hin as (n & <- & _).
    unfold leaf_elt. destruct (on_leaf n) as [k|]; [|cbn; lia].
    destruct (Nat.lt_ge_cases k (length vals)) as [L|L].
    - unfold vals_ok in Hv. rewrite forallb_forall in Hv. specialize (Hv _ (nth_In vals [] L)).
      apply Nat.eqb_eq in Hv. lia.
    - rewrite nth_overflow by exact L. cbn. lia. }
  (* children *)
  assert (wf_array32 ch = true /\ blen (ser_array32 ch) < two63) as [Wc Bc].
  { unfold children_array in Ech.
    destruct (negb (l_bmchildren l)).
    - eapply mk_array_fit; try exact Ech; try apply ids_where_sorted; try (apply ids_where_idx_ok; exact Hlen);
        try exact Hpad; try reflexivity; try exact I.
      unfold blen, u32_elts. set (es := map u32_elt (combine (filter is_inner ot) (first_children 1 ot))).
      pose proof (concat_length_le es 4) as Hc.
      assert (length es <= length (filter is_inner ot))%nat by (unfold es; rewrite map_length, combine_length; lia).
      specialize (Hfl is_inner). change (2 ^ 60) with 1152921504606846976.
      assert (length (concat es) <= 4 * length es)%nat; [|lia].
      apply Hc. apply Forall_forall. intros e Hin. apply in_map_iff in Hin. destruct Hin as (n & <- & _).
      unfold u32_elt. rewrite le_encode_length. lia.
    - destruct (negb (is_nil (ids_where is_inner 0 ot)) || l_emptybmhead l).
      + unfold bm_elts in Ech. destruct (of_many (bm_segs ot)) as [wsm|] eqn:Em; [|discriminate].
        assert (Hlab : Forall (fun n => labels_ok (on_bm n)) (filter is_inner ot)).
        { apply filter_Forall. eapply Forall_impl; [|exact Hnodes]. cbv beta. intros n H. apply (node_wf_parts _ _ H). }
        destruct (bm_segs_ok ot Hlab) as [Hok H16].
        destruct (of_many_spec _ Hok) as (ws' & E' & Hwok & Hwl & _). rewrite Em in E'. injection E' as <-.
        rewrite (seg_off_16 _ _ H16 (le_n _)) in Hwl. unfold bm_segs in Hwl. rewrite map_length in Hwl.
        specialize (Hfl is_inner).
        assert (Hwn : N.of_nat (length wsm) <= 16777217).
        { rewrite Hwl. unfold nwords_for. rewrite N.shiftr_div_pow2. change (2 ^ 6) with 64. lia. }
        pose proof (index_rank128_length _ wsm (le_n _) 0) as Hrl.
        pose proof (index_rank128_bound _ wsm (le_n _) Hwok 0) as Hrb.
        assert (Hrs : Forall (fun x => x < two31) (index_rank128 wsm 0)).
        { eapply Forall_impl; [|exact Hrb]. cbv beta. intros x Hx. unfold two31. lia. }
        assert (Hrn : N.of_nat (length (index_rank128 wsm 0)) <= 16777218).
        { rewrite Hrl. pose proof (Nat.div_le_upper_bound (length wsm) 2 (length wsm)). 
          assert (length wsm / 2 <= length wsm)%nat by (apply Nat.div_le_upper_bound; lia). lia. }
        assert (Hbn : (0 <= bits_n ot < 2147483648)%Z).
        { unfold bits_n. destruct (last_opt (filter is_inner ot)) as [n|] eqn:El; [|lia].
          assert (In n (filter is_inner ot)) as Hin.
          { clear - El. induction (filter is_inner ot) as [|x r IH]; [discriminate|].
            destruct r as [|y r']; [injection El as <-; left; reflexivity|right; apply IH; exact El]. }
          rewrite Forall_forall in Hlab. destruct (Hlab n Hin) as [_ Hb].
          assert (last (on_bm n) 0%nat < 16)%nat.
          { destruct (on_bm n) as [|b r] eqn:Eb; [cbn; lia|]. rewrite Forall_forall in Hb. apply Hb.
            apply last_in_nonempty. discriminate. }
          destruct (filter is_inner ot); [discriminate|]. cbn [length] in *. lia. }
        eapply mk_array_fit; try exact Ech; try apply ids_where_sorted; try (apply ids_where_idx_ok; exact Hlen);
          try exact Hpad; try reflexivity.
        * cbn [opt_all]. unfold wf_bits. cbn [wb_flags wb_n wb_words wb_rank wb_unk nil_bytes].
          rewrite (words_ok_u64 _ Hwok), (forallb_int32_of_small _ Hrs), (u64_map_of_N _ Hrs).
          rewrite (len_ok_packed_small wsm) by lia. rewrite (len_ok_packed_small (index_rank128 wsm 0)) by lia.
          assert (int32_ok (bits_n ot) = true) as ->.
          { unfold int32_ok. apply andb_true_iff. unfold two31. split; [apply Z.leb_le|apply Z.ltb_lt]; lia. }
          reflexivity.
        * pose proof (size_bits_le (mkWBits 0 (bits_n ot) wsm (map Z.of_N (index_rank128 wsm 0)) [])) as Hle.
          cbn [wb_words wb_rank wb_unk] in Hle. rewrite map_length in Hle. change (blen []) with 0 in Hle.
          cbv beta iota. change (2 ^ 60) with 1152921504606846976. lia.
      + eapply mk_array_fit; try exact Ech; try apply ids_where_sorted; try (apply ids_where_idx_ok; exact Hlen);
          try exact Hpad; try reflexivity; try exact I. }
  unfold arrays_fit. rewrite Wc, Ws, Wl. cbn [andb].
  apply N.ltb_lt in Bc, Bs, Bl. rewrite Bc, Bs, Bl. reflexivity.
Qed.
