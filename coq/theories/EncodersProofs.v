(* EncodersProofs.v - proofs about the model in Encoders.v (C15).
   Everything is arithmetic over Z / structural induction; nothing is proved by
   enumerating values. *)
From Coq Require Import List ZArith NArith Bool Lia.
From Coq.Strings Require Import Byte.
From Slim Require Import Encoders.
Import ListNotations.
Open Scope Z_scope.

(* ---------- bytes ---------- *)
Lemma Z_of_byte_range b : 0 <= Z_of_byte b < 256.
Proof. unfold Z_of_byte. pose proof (Byte.to_N_bounded b). lia. Qed.

Lemma Z_of_byte_of_Z z : Z_of_byte (byte_of_Z z) = z mod 256.
Proof.
  unfold byte_of_Z, Z_of_byte.
  assert (H : 0 <= z mod 256 < 256) by (apply Z.mod_pos_bound; lia).
  destruct (Byte.of_N (Z.to_N (z mod 256))) eqn:E.
  - apply Byte.to_of_N in E. rewrite E. lia.
  - apply Byte.of_N_None_iff in E. lia.
Qed.

Lemma byte_of_Z_of_byte b : byte_of_Z (Z_of_byte b) = b.
Proof.
  unfold byte_of_Z. rewrite Z.mod_small by apply Z_of_byte_range.
  unfold Z_of_byte. rewrite N2Z.id, Byte.of_to_N. reflexivity.
Qed.

(* ---------- modulus ---------- *)
Lemma modulus_0 : modulus 0 = 1.
Proof. reflexivity. Qed.

Lemma modulus_S w : modulus (S w) = 256 * modulus w.
Proof.
  unfold modulus. rewrite Nat2Z.inj_succ.
  replace (8 * Z.succ (Z.of_nat w)) with (8 + 8 * Z.of_nat w) by lia.
  rewrite Z.pow_add_r by lia. reflexivity.
Qed.

Lemma modulus_pos w : 0 < modulus w.
Proof. unfold modulus. apply Z.pow_pos_nonneg; lia. Qed.

(* ---------- little endian core ---------- *)
Lemma le_bytes_length w x : length (le_bytes w x) = w.
Proof. revert x. induction w; intros x; cbn [le_bytes length]; [reflexivity | now rewrite IHw]. Qed.

(* the core: decoding the w little-endian bytes of x gives x mod 2^(8w) *)
Lemma le_value_le_bytes w x : le_value (le_bytes w x) = x mod modulus w.
Proof.
  revert x. induction w; intros x.
  - rewrite modulus_0, Z.mod_1_r. reflexivity.
  - cbn [le_bytes le_value]. rewrite Z_of_byte_of_Z, IHw, modulus_S.
    pose proof (modulus_pos w).
    rewrite Z.rem_mul_r by lia. reflexivity.
Qed.

Lemma le_decode_encode w x : 0 <= x < modulus w -> le_value (le_bytes w x) = x.
Proof. intros H. rewrite le_value_le_bytes. apply Z.mod_small. exact H. Qed.

Lemma le_value_range bs : 0 <= le_value bs < modulus (length bs).
Proof.
  induction bs as [|b r IH].
  - cbn [length le_value]. rewrite modulus_0. lia.
  - cbn [le_value length]. rewrite modulus_S. pose proof (Z_of_byte_range b). lia.
Qed.

(* every byte string of length w is the encoding of its value *)
Lemma le_bytes_le_value bs : le_bytes (length bs) (le_value bs) = bs.
Proof.
  induction bs as [|b r IH]; [reflexivity|].
  cbn [length le_value le_bytes].
  pose proof (Z_of_byte_range b).
  f_equal.
  - replace (Z_of_byte b + 256 * le_value r) with (Z_of_byte b + le_value r * 256) by lia.
    unfold byte_of_Z. rewrite Z.mod_add by lia. rewrite Z.mod_small by lia.
    unfold Z_of_byte. rewrite N2Z.id, Byte.of_to_N. reflexivity.
  - replace (Z_of_byte b + 256 * le_value r) with (Z_of_byte b + le_value r * 256) by lia.
    rewrite Z.div_add by lia. rewrite Z.div_small by lia. exact IH.
Qed.

(* layout: byte i of the little-endian encoding *)
Lemma le_bytes_nth w x i :
  (i < w)%nat -> Z_of_byte (nth i (le_bytes w x) x00) = (x / 2 ^ (8 * Z.of_nat i)) mod 256.
Proof.
  revert x i. induction w; intros x i Hi; [lia|].
  destruct i as [|i].
  - cbn [le_bytes nth]. rewrite Z_of_byte_of_Z. cbn. rewrite Z.div_1_r. reflexivity.
  - cbn [le_bytes nth]. rewrite IHw by lia.
    rewrite Nat2Z.inj_succ.
    replace (8 * Z.succ (Z.of_nat i)) with (8 + 8 * Z.of_nat i) by lia.
    rewrite Z.pow_add_r by lia.
    rewrite Z.div_div; [reflexivity | lia | apply Z.pow_pos_nonneg; lia].
Qed.

(* ---------- both byte orders ---------- *)
Lemma ord_bytes_length big w x : length (ord_bytes big w x) = w.
Proof. unfold ord_bytes. destruct big; [rewrite rev_length|]; apply le_bytes_length. Qed.

Lemma ord_value_ord_bytes big w x : ord_value big (ord_bytes big w x) = x mod modulus w.
Proof.
  unfold ord_value, ord_bytes. destruct big; [rewrite rev_involutive|]; apply le_value_le_bytes.
Qed.

(* layout in the configured order: little endian byte i has weight 2^(8i),
   big endian byte i has weight 2^(8(w-1-i)) *)
Lemma ord_bytes_nth big w x i :
  (i < w)%nat ->
  Z_of_byte (nth i (ord_bytes big w x) x00) =
  (x / 2 ^ (8 * Z.of_nat (if big then w - 1 - i else i))) mod 256.
Proof.
  intros Hi. unfold ord_bytes. destruct big.
  - rewrite rev_nth by (rewrite le_bytes_length; exact Hi).
    rewrite le_bytes_length.
    replace (w - S i)%nat with (w - 1 - i)%nat by lia.
    apply le_bytes_nth. lia.
  - apply le_bytes_nth. exact Hi.
Qed.

(* ---------- two's complement ---------- *)
Lemma wrap_range w v : 0 <= wrap w v < modulus w.
Proof. unfold wrap. apply Z.mod_pos_bound. apply modulus_pos. Qed.

Lemma wrap_idem w v : wrap w v mod modulus w = wrap w v.
Proof. apply Z.mod_small. apply wrap_range. Qed.

Lemma in_rangeb_iff signed w v : in_rangeb signed w v = true <-> in_range signed w v.
Proof.
  unfold in_rangeb, in_range. destruct signed; rewrite andb_true_iff, Z.leb_le, Z.ltb_lt; tauto.
Qed.

(* signed = unsigned + wrap: converting to the unsigned type and back *)
Lemma unwrap_wrap signed w v : in_range signed w v -> unwrap signed w (wrap w v) = v.
Proof.
  unfold in_range, unwrap, wrap. pose proof (modulus_pos w) as HM.
  destruct signed; intros [H1 H2]; cbn [andb].
  - destruct (Z_lt_le_dec v 0) as [Hneg | Hpos].
    + assert (E : v mod modulus w = v + modulus w).
      { symmetry. apply (Z.mod_unique_pos v (modulus w) (-1) (v + modulus w)); lia. }
      rewrite E.
      destruct (Z.leb_spec (modulus w) (2 * (v + modulus w))); lia.
    + rewrite Z.mod_small by lia.
      destruct (Z.leb_spec (modulus w) (2 * v)); lia.
  - apply Z.mod_small. lia.
Qed.

(* wrap is the two's-complement bit pattern: v for v >= 0, v + 2^(8w) below *)
Lemma wrap_twos_complement signed w v :
  in_range signed w v -> wrap w v = if v <? 0 then v + modulus w else v.
Proof.
  unfold in_range, wrap. pose proof (modulus_pos w) as HM.
  intros H. destruct (Z.ltb_spec v 0).
  - destruct signed; [|lia].
    symmetry. apply (Z.mod_unique_pos v (modulus w) (-1) (v + modulus w)); lia.
  - apply Z.mod_small. destruct signed; lia.
Qed.

(* ---------- take ---------- *)
Lemma take_app a r : take (length a) (a ++ r) = DOk a.
Proof.
  unfold take. rewrite app_length.
  destruct (Nat.ltb_spec (length a + length r) (length a)); [lia|].
  rewrite firstn_app, Nat.sub_diag, firstn_all. cbn [firstn]. now rewrite app_nil_r.
Qed.

Lemma take_short n bs : (length bs < n)%nat -> take n bs = DPanic.
Proof. intros H. unfold take. destruct (Nat.ltb_spec (length bs) n); [reflexivity | lia]. Qed.

(* ---------- integer codecs ---------- *)
Lemma int_encode_length c v : length (int_encode c v) = ic_width c.
Proof. apply ord_bytes_length. Qed.

Lemma int_roundtrip c v rest :
  in_range (ic_signed c) (ic_width c) v ->
  int_decode c (int_encode c v ++ rest) = DOk (length (int_encode c v), v).
Proof.
  intros H. unfold int_decode.
  rewrite <- (int_encode_length c v) at 1. rewrite take_app. cbn [dbind].
  rewrite int_encode_length. unfold int_encode.
  rewrite ord_value_ord_bytes, wrap_idem, unwrap_wrap by exact H. reflexivity.
Qed.

Lemma int_decode_short c bs : (length bs < ic_width c)%nat -> int_decode c bs = DPanic.
Proof. intros H. unfold int_decode. rewrite take_short by exact H. reflexivity. Qed.

Lemma int_sizes c v rest :
  length (int_encode c v) = int_get_size c /\
  int_get_encoded_size c (int_encode c v ++ rest) = length (int_encode c v).
Proof. rewrite int_encode_length. split; reflexivity. Qed.

Lemma int_layout c v i :
  (i < ic_width c)%nat ->
  Z_of_byte (nth i (int_encode c v) x00) =
  (wrap (ic_width c) v / 2 ^ (8 * Z.of_nat (if ic_big c then ic_width c - 1 - i else i))) mod 256.
Proof. intros H. unfold int_encode. apply ord_bytes_nth. exact H. Qed.

(* little-endian two's complement, spelled out *)
Lemma int_layout_le c v i :
  ic_big c = false -> in_range (ic_signed c) (ic_width c) v -> (i < ic_width c)%nat ->
  Z_of_byte (nth i (int_encode c v) x00) =
  ((if v <? 0 then v + 2 ^ (8 * Z.of_nat (ic_width c)) else v) / 2 ^ (8 * Z.of_nat i)) mod 256.
Proof.
  intros Hb Hr Hi. rewrite int_layout by exact Hi. rewrite Hb.
  rewrite (wrap_twos_complement _ _ _ Hr). reflexivity.
Qed.

(* decoding is also injective on the other side: every w-byte string is the
   encoding of the value it decodes to (no two byte strings share a value) *)
Lemma int_decode_encode c bs v n :
  length bs = ic_width c -> int_decode c bs = DOk (n, v) ->
  int_encode c v = bs /\ in_range (ic_signed c) (ic_width c) v.
Proof.
  intros Hl. unfold int_decode. rewrite <- Hl.
  pose proof (take_app bs []) as Ht. rewrite app_nil_r in Ht. rewrite Ht. cbn [dbind].
  intros E. injection E as _ E. subst v.
  set (u := ord_value (ic_big c) bs).
  assert (Hu : 0 <= u < modulus (length bs)).
  { unfold u, ord_value. destruct (ic_big c).
    - rewrite <- (rev_length bs). apply le_value_range.
    - apply le_value_range. }
  assert (Hb : ord_bytes (ic_big c) (length bs) u = bs).
  { unfold u, ord_bytes, ord_value. destruct (ic_big c).
    - rewrite <- (rev_length bs), le_bytes_le_value. apply rev_involutive.
    - apply le_bytes_le_value. }
  pose proof (modulus_pos (length bs)) as HM.
  unfold int_encode, unwrap, in_range, wrap. rewrite <- Hl.
  destruct (ic_signed c); cbn [andb].
  - destruct (Z.leb_spec (modulus (length bs)) (2 * u)).
    + split; [|lia].
      replace ((u - modulus (length bs)) mod modulus (length bs)) with u; [exact Hb|].
      apply (Z.mod_unique_pos _ (modulus (length bs)) (-1) u); lia.
    + split; [|lia]. rewrite Z.mod_small by lia. exact Hb.
  - split; [|lia]. rewrite Z.mod_small by lia. exact Hb.
Qed.

(* ---------- String16 ---------- *)
Lemma s16_prefix_len (s : list byte) :
  Z.of_nat (length s) <= 65535 ->
  s16_len (byte_of_Z (Z.of_nat (length s) / 256)) (byte_of_Z (Z.of_nat (length s))) = length s.
Proof.
  intros H. unfold s16_len. rewrite !Z_of_byte_of_Z.
  set (l := Z.of_nat (length s)) in *.
  assert (Hl : 0 <= l) by (unfold l; lia).
  rewrite (Z.mod_small (l / 256)).
  2:{ split; [apply Z.div_pos; lia | apply Z.div_lt_upper_bound; lia]. }
  rewrite Z.mul_comm, <- Z.div_mod by lia.
  unfold l. apply Nat2Z.id.
Qed.

(* what the code does for any length: the prefix holds the length mod 65536 *)
Lemma s16_prefix_len_any (s : list byte) :
  Z.of_nat (s16_len (byte_of_Z (Z.of_nat (length s) / 256)) (byte_of_Z (Z.of_nat (length s)))) =
  Z.of_nat (length s) mod 65536.
Proof.
  unfold s16_len. rewrite !Z_of_byte_of_Z.
  set (l := Z.of_nat (length s)).
  assert (Hl : 0 <= l) by (unfold l; lia).
  pose proof (Z.mod_pos_bound (l / 256) 256 ltac:(lia)).
  pose proof (Z.mod_pos_bound l 256 ltac:(lia)).
  rewrite Z2Nat.id by lia.
  change 65536 with (256 * 256).
  rewrite Z.rem_mul_r by lia. lia.
Qed.

Lemma s16_roundtrip s rest :
  Z.of_nat (length s) <= 65535 ->
  s16_decode (s16_encode s ++ rest) = DOk (length (s16_encode s), s).
Proof.
  intros H. unfold s16_encode. cbn [app s16_decode length].
  rewrite s16_prefix_len by exact H.
  rewrite app_length.
  destruct (Nat.ltb_spec (length s + length rest) (length s)); [lia|].
  rewrite firstn_app, Nat.sub_diag, firstn_all. cbn [firstn]. rewrite app_nil_r.
  reflexivity.
Qed.

Lemma s16_sizes s rest :
  Z.of_nat (length s) <= 65535 ->
  length (s16_encode s) = s16_get_size s /\
  s16_get_encoded_size (s16_encode s ++ rest) = DOk (length (s16_encode s)).
Proof.
  intros H. split; [reflexivity|].
  unfold s16_encode. cbn [app s16_get_encoded_size length].
  rewrite s16_prefix_len by exact H. reflexivity.
Qed.

(* layout: big-endian 16-bit length, then the bytes *)
Lemma s16_layout s :
  Z.of_nat (length s) <= 65535 ->
  exists b0 b1, s16_encode s = b0 :: b1 :: s /\
                Z_of_byte b0 * 256 + Z_of_byte b1 = Z.of_nat (length s) /\
                [b0; b1] = ord_bytes true 2 (Z.of_nat (length s)).
Proof.
  intros H. exists (byte_of_Z (Z.of_nat (length s) / 256)), (byte_of_Z (Z.of_nat (length s))).
  split; [reflexivity|]. split.
  - pose proof (s16_prefix_len s H) as E. unfold s16_len in E.
    pose proof (Z_of_byte_range (byte_of_Z (Z.of_nat (length s) / 256))).
    pose proof (Z_of_byte_range (byte_of_Z (Z.of_nat (length s)))).
    lia.
  - reflexivity.
Qed.

Lemma s16_decode_short bs : (length bs < 2)%nat -> s16_decode bs = DPanic.
Proof. destruct bs as [|a [|b r]]; cbn [length]; intros; [reflexivity | reflexivity | lia]. Qed.

(* ---------- Bytes ---------- *)
Lemma bytes_roundtrip n v rest :
  length v = n -> bytes_decode n (bytes_encode n v ++ rest) = DOk (length (bytes_encode n v), v).
Proof. intros H. unfold bytes_decode, bytes_encode. subst n. rewrite take_app. reflexivity. Qed.

Lemma bytes_sizes n v rest :
  length v = n ->
  length (bytes_encode n v) = bytes_get_size n /\
  bytes_get_encoded_size n (bytes_encode n v ++ rest) = length (bytes_encode n v).
Proof. intros H. unfold bytes_encode, bytes_get_size, bytes_get_encoded_size. now split. Qed.

(* ---------- TypeEncoder ---------- *)
Fixpoint ty_ind' (P : ty -> Prop)
         (Hp : forall p, P (TPrim p))
         (Ha : forall n t, P t -> P (TArray n t))
         (Hs : forall ts, Forall P ts -> P (TStruct ts))
         (t : ty) : P t :=
  match t with
  | TPrim p => Hp p
  | TArray n t' => Ha n t' (ty_ind' P Hp Ha Hs t')
  | TStruct ts =>
      Hs ts ((fix go (ts : list ty) : Forall P ts :=
                match ts with
                | [] => Forall_nil P
                | t1 :: tr => Forall_cons t1 (ty_ind' P Hp Ha Hs t1) (go tr)
                end) ts)
  end.

Lemma val_ok_struct_cons t1 tr v1 vr :
  val_ok (TStruct (t1 :: tr)) (VSeq (v1 :: vr)) = val_ok t1 v1 && val_ok (TStruct tr) (VSeq vr).
Proof. reflexivity. Qed.

Lemma te_bytes_struct_cons big t1 tr v1 vr :
  te_bytes big (TStruct (t1 :: tr)) (VSeq (v1 :: vr)) =
  te_bytes big t1 v1 ++ te_bytes big (TStruct tr) (VSeq vr).
Proof. reflexivity. Qed.

Lemma leaves_struct_cons t1 tr v1 vr :
  leaves (TStruct (t1 :: tr)) (VSeq (v1 :: vr)) = leaves t1 v1 ++ leaves (TStruct tr) (VSeq vr).
Proof. reflexivity. Qed.

Lemma te_bytes_length big t : forall v, val_ok t v = true -> length (te_bytes big t v) = te_size t.
Proof.
  induction t as [p | n t IH | ts IH] using ty_ind'; intros v Hv.
  - destruct v; try discriminate. cbn [te_bytes te_size]. apply ord_bytes_length.
  - destruct v as [|vs| |]; try discriminate. cbn [val_ok] in Hv.
    apply andb_true_iff in Hv. destruct Hv as [Hn Hall]. apply Nat.eqb_eq in Hn. subst n.
    cbn [te_bytes te_size].
    induction vs as [|v vs IHvs]; [reflexivity|].
    cbn [forallb] in Hall. apply andb_true_iff in Hall. destruct Hall as [H1 H2].
    cbn [flat_map length]. rewrite app_length, IH, IHvs by assumption. reflexivity.
  - destruct v as [|vs| |]; try discriminate.
    revert vs Hv. induction IH as [|t1 tr H1 _ IHr]; intros vs Hv.
    + destruct vs; [reflexivity | discriminate].
    + destruct vs as [|v1 vr]; [discriminate|].
      rewrite val_ok_struct_cons in Hv. apply andb_true_iff in Hv. destruct Hv as [Ha Hb].
      rewrite te_bytes_struct_cons, app_length, H1, IHr by assumption. reflexivity.
Qed.

(* reading back what was written, with unrelated bytes behind it *)
Lemma te_read_bytes big t :
  forall v rest, val_ok t v = true -> te_read big t (te_bytes big t v ++ rest) = DOk (v, rest).
Proof.
  induction t as [p | n t IH | ts IH] using ty_ind'; intros v rest Hv.
  - destruct v as [z| | |]; try discriminate. cbn [val_ok] in Hv. apply in_rangeb_iff in Hv.
    cbn [te_bytes te_read].
    set (enc := ord_bytes big (prim_width p) (wrap (prim_width p) z)).
    assert (Hl : length enc = prim_width p) by apply ord_bytes_length.
    rewrite app_length.
    destruct (Nat.ltb_spec (length enc + length rest) (prim_width p)); [lia|].
    rewrite <- Hl at 2 3.
    rewrite firstn_app, Nat.sub_diag, firstn_all. cbn [firstn]. rewrite app_nil_r.
    rewrite skipn_app, Nat.sub_diag, skipn_all. cbn [skipn app].
    unfold enc. rewrite ord_value_ord_bytes, wrap_idem, unwrap_wrap by exact Hv. reflexivity.
  - destruct v as [|vs| |]; try discriminate. cbn [val_ok] in Hv.
    apply andb_true_iff in Hv. destruct Hv as [Hn Hall]. apply Nat.eqb_eq in Hn. subst n.
    cbn [te_bytes te_read].
    assert (E : dec_many (te_read big t) (length vs) (flat_map (te_bytes big t) vs ++ rest)
                = DOk (vs, rest)).
    { induction vs as [|v vs IHvs]; [reflexivity|].
      cbn [forallb] in Hall. apply andb_true_iff in Hall. destruct Hall as [H1 H2].
      cbn [flat_map length dec_many]. rewrite <- app_assoc, IH by exact H1.
      rewrite IHvs by exact H2. reflexivity. }
    rewrite E. reflexivity.
  - destruct v as [|vs| |]; try discriminate.
    cbn [te_read].
    assert (E : dec_seq (map (te_read big) ts) (te_bytes big (TStruct ts) (VSeq vs) ++ rest)
                = DOk (vs, rest)).
    { revert vs Hv. induction IH as [|t1 tr H1 _ IHr]; intros vs Hv.
      - destruct vs; [reflexivity | discriminate].
      - destruct vs as [|v1 vr]; [discriminate|].
        rewrite val_ok_struct_cons in Hv. apply andb_true_iff in Hv. destruct Hv as [Ha Hb].
        rewrite te_bytes_struct_cons, <- app_assoc. cbn [map dec_seq].
        rewrite H1 by exact Ha. rewrite IHr by exact Hb. reflexivity. }
    rewrite E. reflexivity.
Qed.

Lemma te_roundtrip big t v rest :
  val_ok t v = true ->
  te_encode big t v = DOk (te_bytes big t v) /\
  te_decode big t (te_bytes big t v ++ rest) = DOk (length (te_bytes big t v), v).
Proof.
  intros Hv. unfold te_encode, te_decode. rewrite Hv. split; [reflexivity|].
  pose proof (te_bytes_length big t v Hv) as Hl.
  rewrite <- Hl at 1. rewrite take_app. cbn [dbind].
  rewrite <- (app_nil_r (te_bytes big t v)) at 1.
  rewrite te_read_bytes by exact Hv. cbn [dbind fst]. rewrite Hl. reflexivity.
Qed.

Lemma te_decode_short big t bs : (length bs < te_size t)%nat -> te_decode big t bs = DPanic.
Proof. intros H. unfold te_decode. rewrite take_short by exact H. reflexivity. Qed.

(* layout: the concatenation, in declared order, of the fixed-width encodings
   of the integer leaves in the configured byte order *)
Definition leaf_bytes (big : bool) (pz : prim * Z) : list byte :=
  ord_bytes big (prim_width (fst pz)) (wrap (prim_width (fst pz)) (snd pz)).

Lemma te_layout big t : forall v, te_bytes big t v = flat_map (leaf_bytes big) (leaves t v).
Proof.
  induction t as [p | n t IH | ts IH] using ty_ind'; intros v.
  - destruct v; try reflexivity. cbn [te_bytes leaves flat_map leaf_bytes fst snd].
    now rewrite app_nil_r.
  - destruct v as [|vs| |]; try reflexivity. cbn [te_bytes leaves].
    induction vs as [|v vs IHvs]; [reflexivity|].
    cbn [flat_map]. rewrite flat_map_app, IH, IHvs. reflexivity.
  - destruct v as [|vs| |]; try reflexivity.
    revert vs. induction IH as [|t1 tr H1 _ IHr]; intros vs.
    + destruct vs; reflexivity.
    + destruct vs as [|v1 vr]; [reflexivity|].
      rewrite te_bytes_struct_cons, leaves_struct_cons, flat_map_app, H1, IHr. reflexivity.
Qed.

(* struct = its fields one after the other; array = its elements *)
Lemma te_layout_struct big ts vs :
  length ts = length vs ->
  te_bytes big (TStruct ts) (VSeq vs) =
  concat (map (fun tv => te_bytes big (fst tv) (snd tv)) (combine ts vs)).
Proof.
  revert vs. induction ts as [|t1 tr IH]; intros vs Hl.
  - destruct vs; [reflexivity | discriminate].
  - destruct vs as [|v1 vr]; [discriminate|].
    rewrite te_bytes_struct_cons. cbn [combine map concat fst snd].
    rewrite IH by (cbn in Hl; lia). reflexivity.
Qed.

Lemma te_layout_array big n t vs :
  te_bytes big (TArray n t) (VSeq vs) = concat (map (te_bytes big t) vs).
Proof. cbn [te_bytes]. apply flat_map_concat_map. Qed.

Lemma te_layout_prim big p z i :
  (i < prim_width p)%nat ->
  Z_of_byte (nth i (te_bytes big (TPrim p) (VInt z)) x00) =
  (wrap (prim_width p) z / 2 ^ (8 * Z.of_nat (if big then prim_width p - 1 - i else i))) mod 256.
Proof. intros H. cbn [te_bytes]. apply ord_bytes_nth. exact H. Qed.

(* ---------- the Encoder interface ---------- *)
Lemma enc_roundtrip e v rest : in_domain e v -> roundtrip_ok e v rest.
Proof.
  unfold roundtrip_ok. destruct e as [c | | n | | big t]; cbn [in_domain]; intros H.
  - destruct v as [z| | |]; try contradiction.
    exists (int_encode c z). cbn [enc_encode enc_decode enc_get_size enc_get_encoded_size].
    rewrite (proj2 (in_rangeb_iff _ _ _) H).
    rewrite int_roundtrip by exact H. cbn [dbind fst snd].
    rewrite int_encode_length. repeat split; reflexivity.
  - destruct v as [| |s|]; try contradiction.
    exists (s16_encode s). cbn [enc_encode enc_decode enc_get_size enc_get_encoded_size].
    rewrite s16_roundtrip by exact H. cbn [dbind fst snd].
    destruct (s16_sizes s rest H) as [_ E]. rewrite E. repeat split; reflexivity.
  - destruct v as [| |s|]; try contradiction.
    exists s. cbn [enc_encode enc_decode enc_get_size enc_get_encoded_size].
    unfold bytes_encode. pose proof (bytes_roundtrip n s rest H) as E.
    unfold bytes_encode in E. rewrite E. cbn [dbind fst snd].
    unfold bytes_get_size, bytes_get_encoded_size. rewrite H. repeat split; reflexivity.
  - destruct v; try contradiction.
    exists []. repeat split; reflexivity.
  - exists (te_bytes big t v). cbn [enc_encode enc_decode enc_get_size enc_get_encoded_size].
    destruct (te_roundtrip big t v rest H) as [E1 E2]. rewrite E1, E2.
    rewrite (te_bytes_length big t v H). repeat split; reflexivity.
Qed.

(* ---------- per-encoder summaries (closed by props/C15.v) ---------- *)
Lemma int_all :
  forall (c : icodec) (v : Z) (rest : list byte),
    in_range (ic_signed c) (ic_width c) v ->
    int_decode c (int_encode c v ++ rest) = DOk (length (int_encode c v), v) /\
    length (int_encode c v) = int_get_size c /\
    int_get_encoded_size c (int_encode c v ++ rest) = length (int_encode c v) /\
    (forall i, (i < ic_width c)%nat ->
       Z_of_byte (nth i (int_encode c v) x00) =
       (wrap (ic_width c) v / 2 ^ (8 * Z.of_nat (if ic_big c then ic_width c - 1 - i else i))) mod 256).
Proof.
  intros c v rest H. split; [apply int_roundtrip; exact H|].
  destruct (int_sizes c v rest) as [E1 E2]. split; [exact E1|]. split; [exact E2|].
  intros i Hi. apply int_layout. exact Hi.
Qed.

Lemma s16_all :
  forall (s rest : list byte),
    Z.of_nat (length s) <= 65535 ->
    s16_decode (s16_encode s ++ rest) = DOk (length (s16_encode s), s) /\
    length (s16_encode s) = s16_get_size s /\
    s16_get_encoded_size (s16_encode s ++ rest) = DOk (length (s16_encode s)) /\
    (exists b0 b1, s16_encode s = b0 :: b1 :: s /\
                   Z_of_byte b0 * 256 + Z_of_byte b1 = Z.of_nat (length s) /\
                   [b0; b1] = ord_bytes true 2 (Z.of_nat (length s))).
Proof.
  intros s rest H. split; [apply s16_roundtrip; exact H|].
  destruct (s16_sizes s rest H) as [E1 E2]. split; [exact E1|]. split; [exact E2|].
  apply s16_layout. exact H.
Qed.

Lemma bytes_all :
  forall (n : nat) (v rest : list byte),
    length v = n ->
    bytes_decode n (bytes_encode n v ++ rest) = DOk (length (bytes_encode n v), v) /\
    length (bytes_encode n v) = bytes_get_size n /\
    bytes_get_encoded_size n (bytes_encode n v ++ rest) = length (bytes_encode n v) /\
    bytes_encode n v = v.
Proof.
  intros n v rest H. split; [apply bytes_roundtrip; exact H|].
  destruct (bytes_sizes n v rest H) as [E1 E2]. split; [exact E1|]. split; [exact E2|]. reflexivity.
Qed.

Lemma te_all :
  forall (big : bool) (t : ty) (v : value) (rest : list byte),
    val_ok t v = true ->
    te_encode big t v = DOk (te_bytes big t v) /\
    te_decode big t (te_bytes big t v ++ rest) = DOk (length (te_bytes big t v), v) /\
    length (te_bytes big t v) = te_size t /\
    te_bytes big t v = flat_map (leaf_bytes big) (leaves t v).
Proof.
  intros big t v rest H. destruct (te_roundtrip big t v rest H) as [E1 E2].
  split; [exact E1|]. split; [exact E2|]. split; [apply te_bytes_length; exact H | apply te_layout].
Qed.

Lemma te_layout_all :
  (forall big ts vs, length ts = length vs ->
     te_bytes big (TStruct ts) (VSeq vs) =
     concat (map (fun tv => te_bytes big (fst tv) (snd tv)) (combine ts vs))) /\
  (forall big n t vs, te_bytes big (TArray n t) (VSeq vs) = concat (map (te_bytes big t) vs)) /\
  (forall big p z i, (i < prim_width p)%nat ->
     Z_of_byte (nth i (te_bytes big (TPrim p) (VInt z)) x00) =
     (wrap (prim_width p) z / 2 ^ (8 * Z.of_nat (if big then prim_width p - 1 - i else i))) mod 256).
Proof. split; [exact te_layout_struct|]. split; [exact te_layout_array | exact te_layout_prim]. Qed.

(* ---------- the codec table read from the source ---------- *)
(* reflection: the boolean check on one table row gives the statement for all
   values of that codec *)
Definition codec_ok (g : src_codec) : Prop :=
  let c := codec_of_src g in
  ic_big c = false /\
  ic_width c = N.to_nat (sc_valbits g / 8) /\
  forall v rest, in_range (ic_signed c) (ic_width c) v ->
    int_decode c (int_encode c v ++ rest) = DOk (length (int_encode c v), v) /\
    length (int_encode c v) = int_get_size c /\
    int_get_encoded_size c (int_encode c v ++ rest) = length (int_encode c v) /\
    forall i, (i < ic_width c)%nat ->
      Z_of_byte (nth i (int_encode c v) x00) =
      ((if v <? 0 then v + 2 ^ (8 * Z.of_nat (ic_width c)) else v) / 2 ^ (8 * Z.of_nat i)) mod 256.

Lemma codec_ok_reflect g : src_codec_wf g && src_codec_le g = true -> codec_ok g.
Proof.
  intros H. apply andb_true_iff in H. destruct H as [Hwf Hle].
  unfold src_codec_le in Hle. apply andb_true_iff in Hle. destruct Hle as [Hle _].
  apply negb_true_iff in Hle.
  unfold src_codec_wf in Hwf. repeat (apply andb_true_iff in Hwf; destruct Hwf as [Hwf ?]).
  apply N.eqb_eq in Hwf.
  unfold codec_ok. cbn zeta. split; [exact Hle|]. split.
  - cbn [codec_of_src ic_width]. rewrite Hwf. f_equal.
    rewrite N.mul_comm, N.div_mul by discriminate. reflexivity.
  - intros v rest Hr. split; [apply int_roundtrip; exact Hr|].
    destruct (int_sizes (codec_of_src g) v rest) as [E1 E2].
    split; [exact E1|]. split; [exact E2|].
    intros i Hi. apply int_layout_le; assumption.
Qed.

Lemma codec_table_ok tbl :
  forallb (fun g => src_codec_wf g && src_codec_le g) tbl = true -> Forall codec_ok tbl.
Proof.
  intros H. rewrite forallb_forall in H. apply Forall_forall. intros g Hg.
  apply codec_ok_reflect. apply H. exact Hg.
Qed.
