(* Bits.v - layer L3: the protobuf message `Slim` as data (64-bit words, rank / select
   indexes, packed label bitmaps, short-node table, VLenArrays, bitstr prefixes), the
   encoder creator.build / buildLeaves / newVLenArray (trie/slimtrie_create.go,
   trie/slimtrie_vlen_array.go, trie/bitmap.go) and the decoder getNode / getLeafPrefix /
   getLeftChildID / VLenArray.get (trie/slimtrie_query.go, slimtrie_vars.go) at word level.
   Definitions only; proofs in BitsProofs*.v; closing theorems in coq/props/L3.v.

   Input of the encoder: the flat node list in id order ([nview] of Model.v: position = id),
   the two "prefix stored" flags and the leaf values in BFS leaf order.
   Every read through an index (slice element, sub-slice, nil message) that can fail is the
   explicit outcome [Panic].  Numbers are unbounded N (Z where Go's value can be negative):
   the model equals Go's int32 arithmetic as long as no bit position, byte offset or node id
   reaches 2^31 (assumption of every theorem; see checks/L3.json).

   Places where the model is deliberately more eager to panic than the code (never on an
   encoded message, theorem L3_no_panic): Go bounds sub-slices by capacity, the model by
   length; a negative label-bitmap offset is a panic at once. *)
From Slim Require Import Base Keys Model BitmapRank BitmapRank2.
Local Open Scope N_scope.

Definition obind {A B} (r : out A) (f : A -> out B) : out B :=
  match r with Val a => f a | Panic => Panic end.
Notation "'doo' x <- r ; k" := (obind r (fun x => k))
  (at level 200, x pattern, r at level 100, k at level 200).

Definition blen {A} (l : list A) : N := N.of_nat (length l).

Definition byte_of (n : N) : byte :=
  match Byte.of_N (n mod 256) with Some b => b | None => "000"%byte end.

Fixpoint nseq (start : N) (n : nat) : list N :=
  match n with O => [] | S n' => start :: nseq (N.succ start) n' end.

(* ====================================================================== *)
(* The message                                                             *)
(* ====================================================================== *)
(* slices: nil and empty are identified (neither the decoder nor protobuf tells them apart);
   sub-messages: [None] = nil pointer *)
Record bitmap := mkBM { b_words : list N; b_rank : list N; b_sel : list N }.

Record vlen := mkVL {
  v_n : N; v_eltcnt : N;
  v_presence : option bitmap;
  v_position : option bitmap;
  v_fixed : N;
  v_bytes : list byte }.

Record msg := mkMsg {
  m_bigcnt : N;
  m_shortsize : N;
  m_nodetype : option bitmap;
  m_inners : option bitmap;
  m_shortbm : option bitmap;
  m_shorttable : list N;
  m_innerpfx : option vlen;
  m_leafpfx : option vlen;
  m_leaves : option vlen }.

Definition empty_msg : msg := mkMsg 0 0 None None None [] None None None.

(* ====================================================================== *)
(* Encoder                                                                 *)
(* ====================================================================== *)

(* trie/bitmap.go: newBM + indexit *)
Inductive ikind := R64 | R128 | S32.

Definition index_bm (ws : list N) (k : ikind) : bitmap :=
  match k with
  | R64 => mkBM ws (index_rank64 ws 0) []
  | R128 => mkBM ws (index_rank128 ws 0) []
  | S32 => mkBM ws (index_rank64_t ws 0) (index_select32 ws)
  end.

Definition new_bm (idx : list N) (cap : N) (k : ikind) : out bitmap :=
  doo ws <- of_cap idx cap; Val (index_bm ws k).

(* stepToPos(steps, 0): cumulative positions, one more than steps *)
Fixpoint step_to_pos (p : N) (steps : list N) : list N :=
  match steps with
  | [] => [p]
  | s :: r => p :: step_to_pos (p + s) r
  end.

Fixpoint sumN (l : list N) : N := match l with [] => 0 | x :: r => x + sumN r end.

(* ---- newVLenArray ---- *)
Fixpoint nonzero_idx (i : N) (sizes : list N) : list N :=
  match sizes with
  | [] => []
  | s :: r => (if s =? 0 then [] else [i]) ++ nonzero_idx (N.succ i) r
  end.

(* prevSize (None = -1) and allEqual after the scan *)
Fixpoint scan_sizes (prev : option N) (alleq : bool) (sizes : list N) : option N * bool :=
  match sizes with
  | [] => (prev, alleq)
  | s :: r =>
    if s =? 0 then scan_sizes prev alleq r
    else scan_sizes (Some s)
                    (match prev with Some p => alleq && (p =? s) | None => alleq end) r
  end.

Definition new_vlen (elts : list (list byte)) : out (option vlen) :=
  let sizes := map blen elts in
  if sumN sizes =? 0 then Val None else
  let ne := nonzero_idx 0 sizes in
  doo pres <- new_bm ne (blen elts) R64;
  let '(prev, alleq) := scan_sizes None true sizes in
  if alleq then
    (* prev = None is impossible here: the total is not zero *)
    Val (Some (mkVL (blen sizes) (blen ne) (Some pres) None
                    (match prev with Some p => p | None => 0 end) (concat elts)))
  else
    doo pos <- new_bm (step_to_pos 0 sizes) 0 S32;
    Val (Some (mkVL (blen sizes) (blen ne) (Some pres) (Some pos) 0 (concat elts))).

(* ---- the creator's per-node records ---- *)
Record inner_rec := mkIR {
  i_id : N; i_big : bool; i_step : N; i_pfx : option (list nat); i_labels : list N }.

Fixpoint inners_of (nodes : list nview) : list inner_rec :=
  match nodes with
  | [] => []
  | VLeaf _ _ _ :: r => inners_of r
  | VInner id big step pfx _ labels :: r =>
    mkIR (N.of_nat id) big (N.of_nat step) pfx (map N.of_nat labels) :: inners_of r
  end.

Fixpoint tails_of (nodes : list nview) : list (option (list byte)) :=
  match nodes with
  | [] => []
  | VLeaf _ _ tail :: r => tail :: tails_of r
  | VInner _ _ _ _ _ _ :: r => tails_of r
  end.

(* ---- encStep / bitstr.New ---- *)
(* step in units of 4 bits: []byte{byte(step >> 8), byte(step & 0xff)} *)
Definition enc_step (step : N) : list byte := [byte_of (N.shiftr step 8); byte_of (N.land step 255)].

(* bitstr.New(key, from, to) on the nibbles of key[from>>3 ..] up to bit `to`: the bytes,
   the last one masked, then the mask byte (0xff: ends on a byte boundary, 0xf0: mid-byte) *)
Fixpoint pack_nibs (p : list nat) : list byte :=
  match p with
  | [] => []
  | [a] => [byte_of (16 * N.of_nat a)]
  | a :: b :: r => byte_of (16 * N.of_nat a + N.of_nat b) :: pack_nibs r
  end.

Definition bitstr_of_nibs (p : list nat) : list byte :=
  pack_nibs p ++ [if Nat.even (length p) then "255"%byte else "240"%byte].

(* ---- short-node table: sortedBMCounts, memIncrOfShortSize, findMinShortSize ---- *)

(* get17bitmap / bitmap.Of(bmindex)[0] *)
Definition bm17 (labels : list N) : out N :=
  doo ws <- of_cap labels 0;
  match ws with w :: _ => Val w | [] => Panic end.

(* innerBMCnt[nbit][bm]++ : the maps as one association list keyed by (nbit, bm) *)
Fixpoint cnt_incr (cs : list (N * N * N)) (nbit bm : N) : list (N * N * N) :=
  match cs with
  | [] => [(nbit, bm, 1)]
  | (n, b, c) :: r =>
    if (n =? nbit) && (b =? bm) then (n, b, c + 1) :: r else (n, b, c) :: cnt_incr r nbit bm
  end.

(* addInner: only non-big nodes with at most maxShortSize labels are counted *)
Fixpoint count_bms (ins : list inner_rec) (cs : list (N * N * N)) : out (list (N * N * N)) :=
  match ins with
  | [] => Val cs
  | i :: r =>
    if i_big i then count_bms r cs
    else
      let nbit := blen (i_labels i) in
      if nbit <? 11 then
        doo bm <- (match i_labels i with [] => Val 0 | _ => bm17 (i_labels i) end);
        count_bms r (cnt_incr cs nbit bm)
      else count_bms r cs
  end.

(* the comparator of sortedBMCounts: more used first, ties by greater bitmap first *)
Definition cnt_before (a b : N * N) : bool :=
  if snd a =? snd b then fst b <? fst a else snd b <? snd a.

Fixpoint cnt_insert (x : N * N) (l : list (N * N)) : list (N * N) :=
  match l with
  | [] => [x]
  | y :: r => if cnt_before x y then x :: l else y :: cnt_insert x r
  end.

Fixpoint cnt_sort (l : list (N * N)) : list (N * N) :=
  match l with [] => [] | x :: r => cnt_insert x (cnt_sort r) end.

(* sorted[nbit] for nbit = 0 .. maxShortSize; entries are (bitmap17, cnt) *)
Definition sorted_counts (cs : list (N * N * N)) : list (list (N * N)) :=
  map (fun nbit =>
         cnt_sort (map (fun e => (snd (fst e), snd e))
                       (filter (fun e => fst (fst e) =? nbit) cs)))
      (nseq 0 11).

(* sorted[nbit][0] and sorted with that entry removed; None: the list is empty
   (nbit = OnesCount(short) <= ShortSize <= 10 is always a valid index) *)
Fixpoint pop_nth (sorted : list (list (N * N))) (nbit : nat) : option (N * N * list (list (N * N))) :=
  match sorted, nbit with
  | [], _ => None
  | l :: r, O => match l with [] => None | x :: l' => Some (x, l' :: r) end
  | l :: r, S n => match pop_nth r n with Some (x, r') => Some (x, l :: r') | None => None end
  end.

(* memIncrOfShortSize: for short = 0 .. 2^s - 1 take the next most used bitmap with
   OnesCount(short) bits, if there is one *)
Fixpoint mem_loop (s : N) (shorts : list N) (sorted : list (list (N * N))) (mem : Z) : Z :=
  match shorts with
  | [] => mem
  | sh :: r =>
    match pop_nth sorted (N.to_nat (popcount sh)) with
    | Some ((_, cnt), sorted') => mem_loop s r sorted' (mem - (17 - Z.of_N s) * Z.of_N cnt)
    | None => mem_loop s r sorted mem
    end
  end.

Definition shorts_of (s : N) : list N := nseq 0 (N.to_nat (2 ^ s)).

Definition mem_incr (sorted : list (list (N * N))) (s : N) : Z :=
  mem_loop s (shorts_of s) sorted (Z.of_N (2 ^ s * 64)).

(* findMinShortSize: the smallest size with the least cost *)
Fixpoint find_min (sorted : list (list (N * N))) (sizes : list N) (sz : N) (mincost : Z) : N :=
  match sizes with
  | [] => sz
  | s :: r =>
    let c := mem_incr sorted s in
    if (c <? mincost)%Z then find_min sorted r s c else find_min sorted r sz mincost
  end.

Definition find_min_short_size (sorted : list (list (N * N))) : N :=
  find_min sorted (nseq 1 10) 0 (mem_incr sorted 0).

(* the loop of build that fills ShortTable and mostUsed (a later assignment to the same
   key overrides: new pairs go to the front, lookup takes the first) *)
Fixpoint table_loop (shorts : list N) (sorted : list (list (N * N)))
         (most : list (N * N)) : list N * list (N * N) :=
  match shorts with
  | [] => ([], most)
  | sh :: r =>
    match pop_nth sorted (N.to_nat (popcount sh)) with
    | Some ((bm, _), sorted') =>
      let '(t, m) := table_loop r sorted' ((bm, sh) :: most) in (bm :: t, m)
    | None =>
      let '(t, m) := table_loop r sorted most in (0 :: t, m)
    end
  end.

Fixpoint most_lookup (most : list (N * N)) (bm : N) : option N :=
  match most with
  | [] => None
  | (b, sh) :: r => if b =? bm then Some sh else most_lookup r bm
  end.

(* "convert most used node bitmap to short": the (sub-bitmap, size) of every inner node and
   the indexes (among inner nodes) of the short ones *)
Fixpoint inner_segs (ins : list inner_rec) (ith : N) (shortsize : N) (most : list (N * N))
  : out (list (list N * N) * list N) :=
  match ins with
  | [] => Val ([], [])
  | i :: r =>
    if i_big i then
      doo (segs, sh) <- inner_segs r (N.succ ith) shortsize most;
      Val ((i_labels i, 257) :: segs, sh)
    else
      doo bm <- bm17 (i_labels i);
      match most_lookup most bm with
      | Some short =>
        doo (segs, sh) <- inner_segs r (N.succ ith) shortsize most;
        Val ((to_array [short], shortsize) :: segs, ith :: sh)
      | None =>
        doo (segs, sh) <- inner_segs r (N.succ ith) shortsize most;
        Val ((i_labels i, 17) :: segs, sh)
      end
  end.

(* setPrefix: which inner nodes record a prefix (prefixBitLen != 0) *)
Definition has_prefix (ipfx : bool) (i : inner_rec) : bool :=
  if ipfx then match i_pfx i with Some _ => true | None => false end
  else negb (i_step i =? 0).

Fixpoint prefix_idx (ipfx : bool) (ins : list inner_rec) (ith : N) : list N :=
  match ins with
  | [] => []
  | i :: r => (if has_prefix ipfx i then [ith] else []) ++ prefix_idx ipfx r (N.succ ith)
  end.

Definition prefix_bitstrs (ins : list inner_rec) : list (list byte) :=
  flat_map (fun i => match i_pfx i with Some p => [bitstr_of_nibs p] | None => [] end) ins.

Definition prefix_steps (ins : list inner_rec) : list byte :=
  flat_map (fun i => if i_step i =? 0 then [] else enc_step (i_step i)) ins.

(* setLeafPrefix: leaves with a non-empty tail *)
Fixpoint tail_idx (tails : list (option (list byte))) (ith : N) : list N :=
  match tails with
  | [] => []
  | t :: r => (match t with Some (_ :: _) => [ith] | _ => [] end) ++ tail_idx r (N.succ ith)
  end.

Definition tail_bytes (tails : list (option (list byte))) : list (list byte) :=
  flat_map (fun t => match t with Some (b :: r) => [b :: r] | _ => [] end) tails.

Definition count_big (ins : list inner_rec) : N := blen (filter i_big ins).

(* creator.build (+ buildLeaves) for a non-empty node list *)
Definition encode_msg (nodes : list nview) (ipfx lpfx : bool)
           (leaves : option (list (list byte))) : out msg :=
  let ins := inners_of nodes in
  let tails := tails_of nodes in
  let nodecnt := blen nodes in
  let innercnt := blen ins in
  doo cs <- count_bms ins [];
  let sorted := sorted_counts cs in
  let shortsize := find_min_short_size sorted in
  let '(table, most) := table_loop (shorts_of shortsize) sorted [] in
  let bigcnt := count_big ins in
  doo (segs, shortidx) <- inner_segs ins 0 shortsize most;
  doo shortbm <- new_bm shortidx innercnt R64;
  doo nodetype <- (if nodecnt =? 0 then Val None
                   else doo b <- new_bm (map i_id ins) nodecnt R64; Val (Some b));
  doo iw <- of_many segs;
  let inners := index_bm iw R128 in
  let pidx := prefix_idx ipfx ins 0 in
  doo ppres <- new_bm pidx innercnt R128;
  doo ip <- (if ipfx then
               let bs := prefix_bitstrs ins in
               doo pos <- new_bm (step_to_pos 0 (map blen bs)) 0 S32;
               Val (mkVL 0 (blen pidx) (Some ppres) (Some pos) 0 (concat bs))
             else Val (mkVL 0 (blen pidx) (Some ppres) None 2 (prefix_steps ins)));
  doo lp <- (if lpfx then
               let ts := tail_bytes tails in
               doo pres <- new_bm (tail_idx tails 0) (nodecnt - innercnt) R64;
               doo pos <- new_bm (step_to_pos 0 (map blen ts)) 0 S32;
               Val (Some (mkVL 0 0 (Some pres) (Some pos) 0 (concat ts)))
             else Val None);
  doo lv <- (match leaves with None => Val None | Some elts => new_vlen elts end);
  Val (mkMsg bigcnt shortsize nodetype (Some inners) (Some shortbm) table (Some ip) lp lv).

(* ====================================================================== *)
(* Decoder                                                                 *)
(* ====================================================================== *)

(* trie/slimtrie_vars.go: initVars *)
Record vars := mkVars { var_bigoff : N; var_shortminus : Z; var_mask : N }.

Definition init_vars (m : msg) : out vars :=
  if 64 <? m_shortsize m then Panic      (* bitmap.Mask[ns.ShortSize] *)
  else Val (mkVars (240 * m_bigcnt m) (Z.of_N (m_shortsize m) - 17) (N.ones (m_shortsize m))).

Definition nth_word (ws : list N) (i : N) : out N :=
  match nthN ws i with Some w => Val w | None => Panic end.

(* words[i>>6] & Bit[i&63] != 0 *)
Definition get_bit (ws : list N) (i : N) : out bool :=
  doo w <- nth_word ws (word_of i);
  Val (negb (N.land w (N.shiftl 1 (bit_of i)) =? 0)).

(* s[from:to] *)
Definition slice_bytes (bs : list byte) (from to : N) : out (list byte) :=
  if (from <=? to) && (to <=? blen bs)
  then Val (firstn (N.to_nat (to - from)) (skipn (N.to_nat from) bs))
  else Panic.

Definition byte_at (bs : list byte) (i : N) : out N :=
  match nth_error bs (N.to_nat i) with Some b => Val (Byte.to_N b) | None => Panic end.

(* bitstr.Len: len*8 - 16 + OnesCount8(last) *)
Definition bitstr_len (bs : list byte) : out N :=
  match last_opt bs with
  | None => Panic
  | Some b => Val (8 * blen bs + popcount (Byte.to_N b) - 16)
  end.

(* the position bitmap of a VLenArray: ith element = Bytes[from:to] *)
Definition vlen_var_elt (ps : bitmap) (bytes : list byte) (ith : N) : out (list byte) :=
  doo (from, to) <- select32_r64 (b_words ps) (b_sel ps) (b_rank ps) ith;
  slice_bytes bytes from to.

(* VLenArray.get *)
Definition vlen_get (va : vlen) (index : N) : out (list byte) :=
  if v_n va <=? index then Panic else                          (* panic("out of bound") *)
  match v_presence va with
  | None => Panic
  | Some pres =>
    doo has <- get_bit (b_words pres) index;
    if negb has then Val []
    else
      doo (ith, _) <- rank64 (b_words pres) (b_rank pres) index;
      match v_position va with
      | None => let from := ith * v_fixed va in slice_bytes (v_bytes va) from (from + v_fixed va)
      | Some ps => vlen_var_elt ps (v_bytes va) ith
      end
  end.

(* getIthLeafBytes: nil when Leaves == nil *)
Definition ith_leaf_bytes (m : msg) (ith : N) : out (option (list byte)) :=
  match m_leaves m with
  | None => Val None
  | Some va => doo b <- vlen_get va ith; Val (Some b)
  end.

(* what a querySession holds after getNode *)
Inductive dnode :=
| DnLeaf (ith : N) (tail : option (list byte))
| DnInner (ith wsz from to : N)
         (bm : N)                       (* qr.bm: meaningful iff to - from = ShortSize *)
         (plen : N)                     (* innerPrefixLen, in bits *)
         (pfx : option (list byte)).    (* innerPrefix (a bitstr) when hasInnerPrefix *)

(* getLeafPrefix *)
Definition get_leaf_prefix (m : msg) (id ith_inner : N) : out dnode :=
  let ith := id - ith_inner in
  match m_leafpfx m with
  | None => Val (DnLeaf ith None)
  | Some lp =>
    match v_presence lp with
    | None => Panic
    | Some pres =>
      doo has <- get_bit (b_words pres) ith;
      if negb has then Val (DnLeaf ith None)
      else
        doo (ithpref, _) <- rank64 (b_words pres) (b_rank pres) ith;
        match v_position lp with
        | None => Panic
        | Some ps =>
          doo bs <- vlen_var_elt ps (v_bytes lp) ithpref;
          Val (DnLeaf ith (Some bs))
        end
    end
  end.

(* the label-bitmap range of the ith inner node, and the short bitmap when it is short *)
Definition inner_range (m : msg) (vs : vars) (ith : N) : out (N * N * N * N) :=
  if ith <? m_bigcnt m then Val (8, ith * 257, ith * 257 + 257, 0)
  else
    match m_shortbm m with
    | None => Panic
    | Some sb =>
      doo (ithshort, isshort) <- rank64 (b_words sb) (b_rank sb) ith;
      let fromz := (Z.of_N (var_bigoff vs) + 17 * Z.of_N ith + var_shortminus vs * Z.of_N ithshort)%Z in
      if (fromz <? 0)%Z then Panic else
      let from := Z.to_N fromz in
      if isshort =? 0 then Val (4, from, from + 17, 0)
      else
        match m_inners m with
        | None => Panic
        | Some inn =>
          let s := m_shortsize m in
          let to := from + s in
          let j := bit_of from in
          doo w <- nth_word (b_words inn) (word_of from);
          doo bm <- (if j + s <=? 64
                     then Val (N.land (N.shiftr w j) (var_mask vs))
                     else doo w2 <- nth_word (b_words inn) (word_of to);
                          Val (N.lor (N.shiftr w j)
                                     (N.land (N.shiftl w2 (64 - j) mod 2 ^ 64) (var_mask vs))));
          match nthN (m_shorttable m) bm with
          | None => Panic
          | Some t => Val (4, from, to, t)
          end
        end
    end.

(* the prefix part of getNode *)
Definition inner_prefix (m : msg) (ith : N) : out (N * option (list byte)) :=
  match m_innerpfx m with
  | None => Panic
  | Some ips =>
    if v_eltcnt ips =? 0 then Val (0, None)
    else
      match v_presence ips with
      | None => Panic
      | Some inn =>
        doo has <- get_bit (b_words inn) ith;
        if negb has then Val (0, None)
        else
          doo (ithpref, _) <- rank128 (b_words inn) (b_rank inn) ith;
          match v_position ips with
          | Some ps =>
            doo bs <- vlen_var_elt ps (v_bytes ips) ithpref;
            doo l <- bitstr_len bs;
            Val (l, Some bs)
          | None =>
            (* decStep(ips.Bytes[ithPref<<1:]) *)
            doo b0 <- byte_at (v_bytes ips) (2 * ithpref);
            doo b1 <- byte_at (v_bytes ips) (2 * ithpref + 1);
            Val (4 * (256 * b0 + b1), None)
          end
      end
  end.

(* getNode *)
Definition get_node (m : msg) (vs : vars) (id : N) : out dnode :=
  match m_nodetype m with
  | None => Panic
  | Some nt =>
    doo (ith, isinner) <- rank64 (b_words nt) (b_rank nt) id;
    if isinner =? 0 then get_leaf_prefix m id ith
    else
      doo (wsz, from, to, bm) <- inner_range m vs ith;
      doo (plen, pfx) <- inner_prefix m ith;
      Val (DnInner ith wsz from to bm plen pfx)
  end.

Definition inner_words (m : msg) : out (list N * list N) :=
  match m_inners m with Some b => Val (b_words b, b_rank b) | None => Panic end.

(* the set label bits of an inner node (trie/verif_hooks.go VerifDump; getInnerBM/Slice) *)
Definition node_labels (m : msg) (from to bm : N) : out (list N) :=
  if to - from =? m_shortsize m then Val (word_bits 17 bm 0)
  else
    doo (ws, _) <- inner_words m;
    doo l <- get_bits ws from (N.to_nat (to - from));
    Val (true_pos l 0).

(* leftMost: Rank128(Inners, from) + 1 *)
Definition first_child (m : msg) (from : N) : out N :=
  doo (ws, ri) <- inner_words m;
  doo (r, _) <- rank128 ws ri from;
  Val (r + 1).

(* rightMost: Rank128(Inners, to-1) + bit *)
Definition last_child (m : msg) (to : N) : out N :=
  doo (ws, ri) <- inner_words m;
  doo (r, b) <- rank128 ws ri (to - 1);
  Val (r + b).

(* getLeftChildID for label bit ithbit *)
Definition left_child (m : msg) (from to bm ithbit : N) : out (N * N) :=
  doo (ws, ri) <- inner_words m;
  if to - from =? m_shortsize m then
    if 64 <? ithbit then Panic else                        (* bitmap.Mask[ithBit] *)
    doo (r0, _) <- rank128 ws ri from;
    Val (r0 + popcount (N.land bm (N.ones ithbit)), N.land (N.shiftr bm ithbit) 1)
  else rank128 ws ri (from + ithbit).

(* nibbles of a bitstr of bit length plen (harness: nibsOfBitstr) *)
Definition nibs_of_bytes (bs : list byte) : list nat :=
  flat_map (fun b => let n := Byte.to_N b in [N.to_nat (n / 16); N.to_nat (n mod 16)]) bs.

(* the node view the decoder yields for node id *)
Definition get_view (m : msg) (vs : vars) (id : N) : out nview :=
  doo d <- get_node m vs id;
  match d with
  | DnLeaf ith tail => Val (VLeaf (N.to_nat id) (N.to_nat ith) tail)
  | DnInner _ wsz from to bm plen pfx =>
    doo labels <- node_labels m from to bm;
    doo fc <- first_child m from;
    Val (VInner (N.to_nat id) (wsz =? 8)
                (match pfx with Some _ => O | None => N.to_nat (plen / 4) end)
                (match pfx with
                 | Some bs => Some (firstn (N.to_nat (plen / 4)) (nibs_of_bytes bs))
                 | None => None
                 end)
                (N.to_nat fc) (map N.to_nat labels))
  end.

(* VerifNodeCnt: 1 + number of label bits *)
Definition node_count (m : msg) : N :=
  match m_nodetype m with
  | None => 0
  | Some _ =>
    match m_inners m with
    | None => 1
    | Some b => 1 + sumN (map popcount (b_words b))
    end
  end.

(* ====================================================================== *)
(* From the tree model to the flat list                                    *)
(* ====================================================================== *)
Local Close Scope N_scope.
Definition view_of_tree (t : tree) : nview :=
  match t with
  | Leaf id ord tail _ => VLeaf id ord tail
  | Inner id big step pfx fc ch => VInner id big step pfx fc (map fst ch)
  end.

Definition tree_kids (t : tree) : list tree :=
  match t with Leaf _ _ _ _ => [] | Inner _ _ _ _ _ ch => map snd ch end.

(* breadth-first: the forest of one depth, then the next depth *)
Fixpoint bfs_trees (fuel : nat) (F : list tree) : list tree :=
  match fuel with
  | O => []
  | S f => F ++ bfs_trees f (flat_map tree_kids F)
  end.

Fixpoint tree_height (t : tree) : nat :=
  match t with
  | Leaf _ _ _ _ => 1
  | Inner _ _ _ _ _ ch =>
    S ((fix go (ch : list (nat * tree)) : nat :=
          match ch with [] => 0 | (_, c) :: r => Nat.max (tree_height c) (go r) end) ch)
  end.

Definition flat_nodes (r : tree) : list nview :=
  map view_of_tree (bfs_trees (tree_height r) [r]).

(* well-formedness of a flat node list, as a checker:
   id = position; first child = 1 + labels of the inner nodes before; leaf ordinal = leaves
   before; big nodes form a prefix of the inner nodes; labels non-empty, ascending, below
   17 / 257; prefix data fit the storage mode *)
Fixpoint ascending_nat (l : list nat) : bool :=
  match l with
  | a :: (b :: _) as r => (a <? b)%nat && ascending_nat r
  | _ => true
  end.

Definition labels_ok (big : bool) (labels : list nat) : bool :=
  negb (match labels with [] => true | _ => false end) &&
  ascending_nat labels &&
  forallb (fun x => (x <? (if big then 257 else 17))%nat) labels.

Definition pfx_ok (ipfx : bool) (step : nat) (pfx : option (list nat)) : bool :=
  if ipfx then
    (step =? 0)%nat &&
    match pfx with
    | Some p => negb (match p with [] => true | _ => false end) && forallb (fun x => (x <? 16)%nat) p
    | None => true
    end
  else
    (N.of_nat step <=? 65535)%N && match pfx with None => true | Some _ => false end.

Definition tail_ok (lpfx : bool) (tail : option (list byte)) : bool :=
  match tail with
  | None => true
  | Some t => lpfx && negb (match t with [] => true | _ => false end)
  end.

Fixpoint wf_from (ipfx lpfx : bool) (nodes : list nview) (pos nlab nleaf : nat) (bigok : bool) : bool :=
  match nodes with
  | [] => true
  | VLeaf id ord tail :: r =>
    (id =? pos)%nat && (ord =? nleaf)%nat && tail_ok lpfx tail &&
    wf_from ipfx lpfx r (S pos) nlab (S nleaf) bigok
  | VInner id big step pfx fc labels :: r =>
    (id =? pos)%nat && (fc =? 1 + nlab)%nat && implb big bigok &&
    labels_ok big labels && pfx_ok ipfx step pfx &&
    wf_from ipfx lpfx r (S pos) (nlab + length labels) nleaf (bigok && big)
  end.

Definition leaves_ok (nodes : list nview) (leaves : option (list (list byte))) : bool :=
  match leaves with
  | None => true
  | Some l => (length l =? length (tails_of nodes))%nat
  end.

Definition flat_wf (ipfx lpfx : bool) (nodes : list nview) (leaves : option (list (list byte))) : bool :=
  wf_from ipfx lpfx nodes 0 0 0 true && leaves_ok nodes leaves.

(* newSlim + creator.build for a case of the harness: the message of a built trie *)
Definition encode_trie (T : trie) : out msg :=
  match t_root T with
  | None => Val empty_msg
  | Some r => encode_msg (flat_nodes r) (t_innerpfx T) (t_leafpfx T) (t_leaves T)
  end.

Definition trie_wf (T : trie) : bool :=
  match t_root T with
  | None => true
  | Some r => flat_wf (t_innerpfx T) (t_leafpfx T) (flat_nodes r) (t_leaves T)
  end.

(* ====================================================================== *)
(* Function-level twins used by the correspondence                         *)
(* ====================================================================== *)
Local Open Scope N_scope.

(* bmtree.PathToIndex(bitmapSize, path) for the two sizes in use (17: levels 0 and 4; 257:
   levels 0 and 8): path = searching bits << 32 | level mask; index 0 for the empty path,
   1 + bits for a full-length one *)
Definition path_len (path : N) : N := popcount (N.land path (N.ones 32)).
Definition path_to_index (path : N) : N :=
  if path_len path =? 0 then 0 else 1 + N.shiftr path 32.

(* bmtree.Decode(size, bm) for an index list: the path of every set index *)
Definition index_to_path (height idx : N) : N :=
  if idx =? 0 then 0 else N.lor (N.shiftl (idx - 1) 32) (N.ones height).

(* all set positions below n of a bitmap *)
Definition set_bits_below (ws : list N) (n : N) : list N :=
  filter (fun i => i <? n) (to_array ws).
