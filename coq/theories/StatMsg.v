(* StatMsg.v - initLevels / Stat() and String() computed from the bit-level MESSAGE, the way
   the Go code computes them (trie/slimtrie_level.go: initLevels; trie/slimtrie_stat.go: Stat;
   trie/slimtrie_getnode.go: getIthInnerFrom; trie/slimtrie_str.go: String and the callbacks
   of slimTrieStringly handed to low/tree.String).  StatMsgProofs.v shows that on the message
   of every built trie they return what Stat.levels / Stat.stat / Str.render return on the
   tree, and that this is also what an instance answers after Unmarshal (Marshal t).
   No proofs in this file.

   What is read from the message:
     initLevels  NodeTypeBM (Rank64 at the last bit position: number of inner nodes; Rank64 at
                 the first id of every level), Inners (Rank128 at the last bit position: number
                 of label bits; Rank128 at the offset of a label bitmap: its first child),
                 BigInnerCnt, ShortBM (rank of the short nodes) and the vars derived from
                 BigInnerCnt / ShortSize (getIthInnerFrom).
     Stat        the level table kept in the instance and NodeTypeBM == nil.
     String      ToArray(NodeTypeBM.Words) (the inner node ids), getNode + getLabels +
                 Rank128(Inners, from) for every inner node (the label -> child table),
                 then, per printed node: bitmap.Get(NodeTypeBM), getNode (innerPrefixLen),
                 getLeafIndex (Rank64 on NodeTypeBM), getIthLeaf (Leaves).
   Counts are computed in N and reported as [nat] (the type of Stat.v); Go uses int32.
   Outcomes: a Go panic is [Err (EPanic c)] with a site code c >= 50.  Two codes do not stand
   for a panic but for "outside the model", never reached on the message of a built trie:
     53  a rank above the position (Go would store a negative leaf count)
     62  a label bitmap whose size is neither 17 nor 257 (bmtree.Decode / PathStr of another
         tree shape is not modelled).
   Like Bits.inner_range, a negative label-bitmap offset is a panic at once (Go panics at the
   following Rank128). *)
From Slim Require Import Base Keys Model BitmapRank BitmapRank2 Bits Stat Str.

(* bitmap.Rank64(ns.NodeTypeBM.Words, ns.NodeTypeBM.RankIndex, id) *)
Definition rank_nt (m : msg) (id : N) : out (N * N) :=
  match m_nodetype m with
  | None => Panic
  | Some nt => rank64 (b_words nt) (b_rank nt) id
  end.

(* getIthInnerFrom: the offset of the label bitmap of the ith inner node.  For a node that is
   not big it reads ShortBM.RankIndex[ith>>6] and ShortBM.Words[ith>>6] (the rank part of
   Rank64) and the vars *)
Definition ith_inner_from (m : msg) (vs : vars) (ith : N) : out N :=
  if (ith <? m_bigcnt m)%N then Val (ith * 257)%N
  else
    match m_shortbm m with
    | None => Panic
    | Some sb =>
      doo (ithshort, _) <- rank64 (b_words sb) (b_rank sb) ith;
      let fromz := (Z.of_N (var_bigoff vs) + 17 * Z.of_N ith + var_shortminus vs * Z.of_N ithshort)%Z in
      if (fromz <? 0)%Z then Panic else Val (Z.to_N fromz)
    end.

(* int32(len(words)*64-1): with no words the position is -1 and the rank call panics *)
Definition last_pos (ws : list N) : out N :=
  if (blen ws =? 0)%N then Panic else Val (64 * blen ws - 1)%N.

(* totalInner, b := Rank64(NodeTypeBM, last); totalInner += b *)
Definition total_inner (m : msg) : out N :=
  match m_nodetype m with
  | None => Panic
  | Some nt =>
    doo i <- last_pos (b_words nt);
    doo (r, b) <- rank64 (b_words nt) (b_rank nt) i;
    Val (r + b)%N
  end.

(* total := 1; if totalInner > 0 { total, b = Rank128(Inners, last); total += b + 1 } *)
Definition total_nodes (m : msg) (ti : N) : out N :=
  if (ti =? 0)%N then Val 1%N
  else
    match m_inners m with
    | None => Panic
    | Some inn =>
      doo i <- last_pos (b_words inn);
      doo (r, b) <- rank128 (b_words inn) (b_rank inn) i;
      Val (r + b + 1)%N
    end.

(* the loop of initLevels: [cur] is the first node id of the current level *)
Fixpoint mwalk (fuel : nat) (m : msg) (vs : vars) (ti cur : N) : res (list (nat * nat * nat)) :=
  match rank_nt m cur with
  | Panic => Err (EPanic 50)
  | Val (ni, _) =>
    if (cur <? ni)%N then Err (EPanic 53)
    else
      let e := (N.to_nat cur, N.to_nat ni, N.to_nat cur - N.to_nat ni) in
      if (ni =? ti)%N then Ok [e]
      else
        match fuel with
        | 0 => Err EFuel
        | S f =>
          match ith_inner_from m vs ni with
          | Panic => Err (EPanic 51)
          | Val from =>
            match Bits.first_child m from with     (* Rank128(Inners, qr.from) + 1 *)
            | Panic => Err (EPanic 52)
            | Val c => do rest <- mwalk f m vs ti c; Ok (e :: rest)
            end
          end
        end
  end.

(* initLevels with the vars of initVars; the loop visits every level once, so the node count
   bounds the number of rounds *)
Definition mlevels (m : msg) (vs : vars) : res (list (nat * nat * nat)) :=
  match m_nodetype m with
  | None => Ok [(0, 0, 0)]
  | Some _ =>
    match total_inner m with
    | Panic => Err (EPanic 54)
    | Val ti =>
      match total_nodes m ti with
      | Panic => Err (EPanic 55)
      | Val total =>
        if (total <? ti)%N then Err (EPanic 53)
        else
          do ls <- mwalk (N.to_nat total) m vs ti 0%N;
          Ok (ls ++ [(N.to_nat total, N.to_nat ti, N.to_nat total - N.to_nat ti)])
      end
    end
  end.

(* st.init(): initVars, then initLevels *)
Definition minit_levels (m : msg) : res (list (nat * nat * nat)) :=
  match init_vars m with
  | Panic => Err (EPanic 56)
  | Val vs => mlevels m vs
  end.

(* Stat(): from the level table the instance holds and NodeTypeBM == nil *)
Definition mstat (m : msg) (lv : res (list (nat * nat * nat))) : res stat_record :=
  do ls <- lv;
  match last_opt ls with
  | None => Err (EPanic 20)
  | Some e =>
      Ok {| st_keycnt := match m_nodetype m with None => 0 | Some _ => lv_leaf e end;
            st_nodecnt := lv_total e;
            st_levelcnt := length ls;
            st_levels := ls |}
  end.

(* ---------------------------------------------------------------------- *)
(* String()                                                                *)
(* ---------------------------------------------------------------------- *)

(* getInnerBM: a short node is decoded with the size of a normal one *)
Definition label_size (m : msg) (from to : N) : N :=
  if (to - from =? m_shortsize m)%N then 17%N else (to - from)%N.

(* bmtree.Decode(size, bm) yields the paths of the set indexes in index order; PathStr prints
   "" for index 0 and the bits of (index - 1) in 4 (size 17) or 8 (size 257) digits *)
Definition path_width (size : N) : option nat :=
  if (size =? 17)%N then Some 4 else if (size =? 257)%N then Some 8 else None.

Definition path_bits (w : nat) (k : N) : list bool :=
  if (k =? 0)%N then [] else bits_of w (N.to_nat (k - 1)).

Fixpoint number_from {A} (c : N) (l : list A) : list (A * N) :=
  match l with [] => [] | x :: r => (x, c) :: number_from (N.succ c) r end.

(* one round of the loop of String(): s.labels[nid] as the list (label text, child id) in
   label-index order.  The ids come from the set bits of NodeTypeBM, so getNode takes the
   inner branch; the leaf branch (61) is unreachable *)
Definition mnode_entries (m : msg) (vs : vars) (nid : N) : res (list (list bool * N)) :=
  match get_node m vs nid with
  | Panic => Err (EPanic 60)
  | Val (DnLeaf _ _) => Err (EPanic 61)
  | Val (DnInner _ _ from to bm _ _) =>
    match path_width (label_size m from to) with
    | None => Err (EPanic 62)
    | Some w =>
      match node_labels m from to bm, Bits.first_child m from with
      | Val labels, Val fc => Ok (number_from fc (map (path_bits w) labels))
      | _, _ => Err (EPanic 63)
      end
    end
  end.

Fixpoint mtable (m : msg) (vs : vars) (ids : list N) : res (list (N * list (list bool * N))) :=
  match ids with
  | [] => Ok []
  | nid :: r => do e <- mnode_entries m vs nid; do t <- mtable m vs r; Ok ((nid, e) :: t)
  end.

Fixpoint assocN {A} (k : N) (l : list (N * A)) : option A :=
  match l with
  | [] => None
  | (k', a) :: r => if (k' =? k)%N then Some a else assocN k r
  end.

Fixpoint concat_res {A B} (f : A -> res (list B)) (l : list A) : res (list B) :=
  match l with
  | [] => Ok []
  | x :: r => do a <- f x; do b <- concat_res f r; Ok (a ++ b)
  end.

(* low/tree.toStrings over the callbacks of slimTrieStringly.  Labels(node) sorts the label
   texts; texts of one node have one width and come in index order, which is that order.
   A node without an entry in s.labels (a leaf) has no labels. *)
Fixpoint mrender_node (fuel : nat) (m : msg) (vs : vars) (nt : bitmap)
         (tbl : list (N * list (list bool * N))) (ind : nat) (lbl : option (list bool)) (id : N)
  : res (list line) :=
  match fuel with
  | 0 => Err EFuel
  | S f =>
    let labels := match assocN id tbl with Some l => l | None => [] end in
    (* NodeInfo: bitmap.Get(NodeTypeBM.Words, nid) != 0 -> getNode -> innerPrefixLen *)
    do step <- match get_bit (b_words nt) id with
               | Panic => Err (EPanic 64)
               | Val false => Ok 0%N
               | Val true =>
                 match get_node m vs id with
                 | Val (DnInner _ _ _ _ _ plen _) => Ok plen
                 | Val (DnLeaf _ _) => Ok 0%N
                 | Panic => Err (EPanic 65)
                 end
               end;
    (* LeafVal: getLeafIndex, getIthLeaf *)
    do v <- match rank64 (b_words nt) (b_rank nt) id with
            | Panic => Err (EPanic 66)
            | Val (r, ty) =>
              if (ty =? 1)%N then Ok None
              else match ith_leaf_bytes m (id - r)%N with
                   | Val v => Ok (Some v)
                   | Panic => Err (EPanic 11)
                   end
            end;
    let n := N.to_nat id in
    let ind' := ind + label_width_txt lbl + 1 + id_width n in
    do sub <- concat_res (fun e : list bool * N => mrender_node f m vs nt tbl ind' (Some (fst e)) (snd e)) labels;
    Ok ({| l_indent := ind; l_label := lbl; l_id := n; l_step := N.to_nat step;
           l_fan := (if 1 <? length labels then length labels else 0); l_val := v |} :: sub)
  end.

(* String(): "" for NodeTypeBM == nil; [fuel] bounds the depth *)
Definition mrender (fuel : nat) (m : msg) (vs : vars) : res (list line) :=
  match m_nodetype m with
  | None => Ok []
  | Some nt =>
    do tbl <- mtable m vs (to_array (b_words nt));
    mrender_node fuel m vs nt tbl 0 None 0%N
  end.
