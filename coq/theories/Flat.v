(* Flat.v - the id-addressed view of the trie and GetID as the Go code runs it:
   a loop over node ids in which the next node is "first child id + rank of the
   label among the node's labels" (trie/slimtrie_query.go: GetID, getNode,
   getLeftChildID).  [node_at r id] plays the part of getNode; FlatProofs.v shows
   that this loop computes what the structural recursion [Model.descend] /
   [Model.getid] computes on every built trie.  No proofs in this file. *)
From Slim Require Import Base Keys Model.

(* every node of the tree, pre-order *)
Fixpoint nodes_of (t : tree) : list tree :=
  t :: match t with
       | Leaf _ _ _ _ => []
       | Inner _ _ _ _ _ ch =>
           (fix go (ch : list (nat * tree)) : list tree :=
              match ch with [] => [] | (_, c) :: r => nodes_of c ++ go r end) ch
       end.

(* getNode: the node with a given id *)
Definition node_at (r : tree) (id : nat) : option tree :=
  find (fun t => Nat.eqb (tree_id t) id) (nodes_of r).

(* position of a label in the ascending label list = number of set bits below it
   in the node's label bitmap (what Rank128 returns), when the bit is set *)
Fixpoint label_rank (lb : nat) (labels : list nat) : option nat :=
  match labels with
  | [] => None
  | x :: r => if Nat.eqb x lb then Some 0 else option_map S (label_rank lb r)
  end.

(* GetID's loop over ids. Result: the id the loop stopped at, the position and
   whether getNode was called on it (see Model.descend) *)
Fixpoint fdescend (fuel : nat) (r : tree) (qn : list nat) (l id i : nat) : res (option (nat * nat * bool)) :=
  match fuel with
  | 0 => Err EFuel
  | S f =>
      match node_at r id with
      | None => Err (EPanic 20)                      (* getNode on an id that is not a node *)
      | Some (Leaf _ _ _ _) => Ok (Some (id, i, true))
      | Some (Inner _ big step pfx fc ch) =>
          match advance qn l i step pfx with
          | None => Ok None
          | Some i1 =>
              match label_rank (label_at big qn i1) (map fst ch) with
              | None => Ok None
              | Some j =>
                  if Nat.eqb i1 l then Ok (Some (fc + j, i1, false))
                  else fdescend f r qn l (fc + j) (i1 + wsize big)
              end
          end
      end
  end.

Fixpoint height (t : tree) : nat :=
  match t with
  | Leaf _ _ _ _ => 1
  | Inner _ _ _ _ _ ch =>
      S ((fix go (ch : list (nat * tree)) : nat :=
            match ch with [] => 0 | (_, c) :: r => Nat.max (height c) (go r) end) ch)
  end.

(* GetID on ids: -1 is None *)
Definition fgetid (T : trie) (q : key) : res (option nat) :=
  match t_root T with
  | None => Ok None
  | Some r =>
      let qn := nibs q in
      let l := length qn in
      do d <- fdescend (S (height r)) r qn l 0 0;
      match d with
      | None => Ok None
      | Some (id, i, visited) =>
          if t_leafpfx T then
            match node_at r id with
            | None => Err (EPanic 21)
            | Some c =>
                match sess_tail c visited with
                | None => Ok (if Nat.eqb i l then Some id else None)
                | Some tail =>
                    Ok (if Nat.eqb i l then None
                        else if bytes_eqb tail (skipn (i / 2) q) then Some id else None)
                end
            end
          else Ok (Some id)
      end
  end.

(* ---- searchID on ids (trie/slimtrie_query.go: searchID, leftMost, rightMost) ---- *)

(* number of labels below [lb] and whether [lb] itself is a label: Rank128 on the label bitmap *)
Fixpoint label_rank_lt (lb : nat) (labels : list nat) : nat * bool :=
  match labels with
  | [] => (0, false)
  | x :: r => if x <? lb then let '(n, h) := label_rank_lt lb r in (S n, h)
              else (0, Nat.eqb x lb)
  end.

Fixpoint fleftmost (fuel : nat) (r : tree) (id : nat) : res nat :=
  match fuel with
  | 0 => Err EFuel
  | S f => match node_at r id with
           | None => Err (EPanic 22)
           | Some (Leaf _ _ _ _) => Ok id
           | Some (Inner _ _ _ _ fc _) => fleftmost f r fc
           end
  end.

Fixpoint frightmost (fuel : nat) (r : tree) (id : nat) : res nat :=
  match fuel with
  | 0 => Err EFuel
  | S f => match node_at r id with
           | None => Err (EPanic 23)
           | Some (Leaf _ _ _ _) => Ok id
           | Some (Inner _ _ _ _ fc ch) => frightmost f r (fc + length ch - 1)
           end
  end.

(* searchID's loop: (lID, eq (id, position, visited), rID); -1 is None *)
Fixpoint fsearch_down (fuel : nat) (r : tree) (qn : list nat) (l id i : nat) (lc rc : option nat)
  : res (option nat * option (nat * nat * bool) * option nat) :=
  match fuel with
  | 0 => Err EFuel
  | S f =>
      match node_at r id with
      | None => Err (EPanic 24)
      | Some (Leaf _ _ _ _) => Ok (lc, Some (id, i, true), rc)
      | Some (Inner _ big step pfx fc ch) =>
          match advance3 qn l i step pfx with
          | ALt => Ok (lc, None, Some id)
          | AGt => Ok (Some id, None, rc)
          | AEq i1 =>
              let '(n, has) := label_rank_lt (label_at big qn i1) (map fst ch) in
              (* leftChild = fc + n - 1, chID = leftChild + has, rightChild = chID + 1;
                 candidates are kept when they lie within [fc, fc + |ch| - 1] *)
              let lc' := if 0 <? n then Some (fc + n - 1) else lc in
              let right := if has then fc + n + 1 else fc + n in
              let rc' := if right <? fc + length ch then Some right else rc in
              if has then
                if Nat.eqb i1 l then Ok (lc', Some (fc + n, i1, false), rc')
                else fsearch_down f r qn l (fc + n) (i1 + wsize big) lc' rc'
              else Ok (lc', None, rc')
          end
      end
  end.

Definition fsearchid (T : trie) (q : key) : res (option nat * option nat * option nat) :=
  match t_root T with
  | None => Ok (None, None, None)
  | Some r =>
      let qn := nibs q in
      let l := length qn in
      let h := S (height r) in
      do d <- fsearch_down h r qn l 0 0 None None;
      let '(lc, eq, rc) := d in
      do d2 <-
        match eq with
        | None => Ok (lc, None, rc)
        | Some (id, i, visited) =>
            if i <=? l then
              match node_at r id with
              | None => Err (EPanic 25)
              | Some c =>
                  let cmp := if t_leafpfx T
                             then bytes_cmp (skipn (i / 2) q) (match sess_tail c visited with Some t => t | None => [] end)
                             else Eq in
                  match cmp with
                  | Lt => Ok (lc, None, Some id)
                  | Gt => Ok (Some id, None, rc)
                  | Eq => Ok (lc, Some id, rc)
                  end
              end
            else Ok (lc, Some id, rc)
        end;
      let '(lc2, eq2, rc2) := d2 in
      do lres <- match lc2 with None => Ok None | Some x => do y <- frightmost h r x; Ok (Some y) end;
      do rres <- match rc2 with None => Ok None | Some x => do y <- fleftmost h r x; Ok (Some y) end;
      Ok (lres, eq2, rres)
  end.
