(* Legacy.v - model of the conversions the loader applies to data written by
   older versions (trie/slimtrie_marshal.go).  Definitions only; the proofs are
   in LegacyProofs.v, the closing theorems in props/C06.v.

   Numbers are Z: a byte is a Z in [0,256), a bitmap word a Z in [0,2^64), Go
   int32 lengths/positions are Z (no wrap-around is modelled: the code does not
   rely on it; a prefix or leaf buffer of 2^28 bytes or more is outside the
   model).  Every Go index-out-of-range / slice-bounds / divide-by-zero panic
   is an explicit [Err (EPanic site)].

   Sites: 601 bitstr.New with a negative bit count (make/slice/index panic)
          602 bitstr.New s[0:toByte] beyond the string
          603 before000512InnerPrefixTobitstr old[0] of an empty element
          611 bitmap.Rank64 rindex[wordI]     612 bitmap.Rank64 words[wordI]
          621 getBM16Child ch.Elts[eltIdx*4:] shorter than 4 bytes
          622 bitmap.Getw words[i>>6]
          631 before000512FixLeafSize division by a zero FixedSize
          632 VLenArray.get "out of bound"     633 PresenceBM.Words[wordI] / RankIndex[wordI]
          634 Bytes[from:to] *)
From Slim Require Import Base.
Open Scope Z_scope.

(* ------------------------------------------------------------------ *)
(* 1. bit strings and their two byte encodings                          *)
(* ------------------------------------------------------------------ *)

Definition b2z (b : bool) : Z := if b then 1 else 0.

(* value of a bit list, most significant bit first *)
Fixpoint bits_val_acc (acc : Z) (l : list bool) {struct l} : Z :=
  match l with
  | [] => acc
  | b :: r => bits_val_acc (2 * acc + b2z b) r
  end.
Definition bits_val (l : list bool) : Z := bits_val_acc 0 l.

(* the byte that starts with the (at most 8) bits l; the unused low bits are 0 *)
Definition byte_of (l : list bool) : Z := bits_val l * 2 ^ (8 - Z.of_nat (length l)).

(* bytes of a bit string, first bit = bit 7 of byte 0, last byte zero padded *)
Fixpoint pack (l : list bool) : list Z :=
  match l with
  | [] => []
  | b7 :: b6 :: b5 :: b4 :: b3 :: b2 :: b1 :: b0 :: r =>
      byte_of [b7; b6; b5; b4; b3; b2; b1; b0] :: pack r
  | _ => [byte_of l]
  end.

Definition bit_of_byte (b : Z) (i : Z) : bool := Z.odd (b / 2 ^ i).
Definition unpack_byte (b : Z) : list bool :=
  [bit_of_byte b 7; bit_of_byte b 6; bit_of_byte b 5; bit_of_byte b 4;
   bit_of_byte b 3; bit_of_byte b 2; bit_of_byte b 1; bit_of_byte b 0].
Definition unpack (bs : list Z) : list bool := flat_map unpack_byte bs.

(* low/bitstr: payload bytes followed by one trailing byte whose set bits mark
   the effective bits of the last payload byte (0xff when all 8 are). *)
Definition mask_of (r : Z) : Z := if r =? 0 then 255 else 256 - 2 ^ (8 - r).
Definition bitstr_of_bits (bits : list bool) : list Z :=
  pack bits ++ [mask_of (Z.of_nat (length bits) mod 8)].

(* 0.5.10/0.5.11 inner prefix: control byte 0 + payload when the bit length is
   a multiple of 8; control byte 1 + payload where the bit after the last
   payload bit is 1 and the rest 0 otherwise (trie/slim.proto, InnerPrefixes). *)
Definition ctl_of_bits (bits : list bool) : list Z :=
  if Z.of_nat (length bits) mod 8 =? 0 then 0 :: pack bits
  else 1 :: pack (bits ++ [true]).

(* low/bitstr.Len *)
Fixpoint pop_fuel (n : nat) (w : Z) {struct n} : Z :=
  match n with
  | O => 0
  | S m => w mod 2 + pop_fuel m (w / 2)
  end.
Definition popcount8 (b : Z) : Z := pop_fuel 8 b.
Definition bitstr_len (bs : list Z) : Z :=
  Z.shiftl (Z.of_nat (length bs)) 3 - 16 + popcount8 (last bs 0).

(* the payload bits a reader of the bitstr form sees *)
Definition bitstr_bits (bs : list Z) : list bool :=
  firstn (Z.to_nat (bitstr_len bs)) (unpack (removelast bs)).

(* ------------------------------------------------------------------ *)
(* 2. before000512InnerPrefixTobitstr on one element                    *)
(* ------------------------------------------------------------------ *)

(* math/bits.TrailingZeros8 (8 for 0) *)
Fixpoint tz_fuel (n : nat) (b : Z) {struct n} : Z :=
  match n with
  | O => 0
  | S m => if Z.odd b then 0 else 1 + tz_fuel m (b / 2)
  end.
Definition tz8 (b : Z) : Z := tz_fuel 8 b.

(* byte(bitmap.RMask[i]) : the low 8 bits of ^(2^i - 1) *)
Definition rmask8 (i : Z) : Z := Z.land (Z.lnot (Z.ones i)) 255.

Fixpoint upd_last (f : Z -> Z) (l : list Z) : list Z :=
  match l with
  | [] => []
  | [x] => [f x]
  | x :: r => x :: upd_last f r
  end.

(* bitstr.New(s, 0, toBit).  toBit < 0: every path panics (toByte <= 0, then
   either s[0:toByte] with a negative bound or bitStr[l-1] with l = 0). *)
Definition bitstr_new (s : list Z) (toBit : Z) : res (list Z) :=
  if toBit =? 0 then Ok [255]
  else if toBit <? 0 then Err (EPanic 601)
  else
    let toByte := Z.shiftr (toBit + 7) 3 in
    if Z.of_nat (length s) <? toByte then Err (EPanic 602)
    else
      let body := firstn (Z.to_nat toByte) s in
      let mask := rmask8 (Z.land (8 - toBit) 7) in
      Ok (upd_last (fun x => Z.land x mask) body ++ [mask]).

(* Go copy(dst, src): overwrites the first min(len dst, len src) bytes of dst *)
Definition copy_into (dst src : list Z) : list Z :=
  firstn (length dst) src ++ skipn (length src) dst.

(* the loop body of before000512InnerPrefixTobitstr on old = ips.Bytes[from:to] *)
Definition conv_prefix (old : list Z) : res (list Z) :=
  match old with
  | [] => Err (EPanic 603)
  | c :: body =>
      let pl := Z.of_nat (length body) in
      let bitLen :=
        if Z.land c 1 =? 0 then Z.shiftl pl 3
        else Z.shiftl pl 3 - tz8 (nth (length body) old 0) - 1 in
      do np <- bitstr_new body bitLen;
      Ok (copy_into old np)
  end.

Fixpoint conv_all (olds : list (list Z)) : res (list (list Z)) :=
  match olds with
  | [] => Ok []
  | o :: r => do n <- conv_prefix o; do nr <- conv_all r; Ok (n :: nr)
  end.

(* ------------------------------------------------------------------ *)
(* 3. getStepBefore000510                                               *)
(* ------------------------------------------------------------------ *)

(* what the old writer stored for a node whose branch position is [step]
   nibbles after its parent's (root: parent position -1): only steps > 1 *)
Definition old_step (step : Z) : option Z := if 1 <? step then Some step else None.

(* steps.Get gives a uint16; stp-- wraps in uint16; int32(stp) * 4 *)
Definition step_new (stored : option Z) : Z :=
  match stored with
  | None => 0
  | Some v => ((v - 1) mod 65536) * 4
  end.

(* ------------------------------------------------------------------ *)
(* 4. array index: Bitmaps / Offsets with the empty-word quirk, Rank64  *)
(* ------------------------------------------------------------------ *)

Definition popcount64 (w : Z) : Z := pop_fuel 64 w.

(* bitmap.IndexRank64: rank before every word *)
Fixpoint offsets_from (acc : Z) (words : list Z) {struct words} : list Z :=
  match words with
  | [] => []
  | w :: r => acc :: offsets_from (acc + popcount64 w) r
  end.
Definition offsets_true (words : list Z) : list Z := offsets_from 0 words.

(* array.InitIndex: the same, but 0 for an empty word (kept since v0.2.0) *)
Fixpoint quirk (words offs : list Z) : list Z :=
  match words, offs with
  | w :: wr, o :: orr => (if w =? 0 then 0 else o) :: quirk wr orr
  | _, _ => []
  end.
Definition offsets_quirk (words : list Z) : list Z := quirk words (offsets_true words).

Definition nth_res (site : nat) (l : list Z) (i : Z) : res Z :=
  if (i <? 0) || (Z.of_nat (length l) <=? i) then Err (EPanic site)
  else Ok (nth (Z.to_nat i) l 0).

(* bitmap.Rank64(words, rindex, i) = (rank, bit) *)
Definition rank64 (words rindex : list Z) (i : Z) : res (Z * Z) :=
  let wordI := Z.shiftr i 6 in
  let j := Z.land i 63 in
  do n <- nth_res 611 rindex wordI;
  do w <- nth_res 612 words wordI;
  Ok (n + popcount64 (Z.land w (Z.ones j)), Z.land (Z.shiftr w j) 1).

(* the specification of rank: number of set bits at positions below i *)
Definition bit_at (words : list Z) (p : Z) : bool :=
  Z.testbit (nth (Z.to_nat (p / 64)) words 0) (p mod 64).
Fixpoint count_below (words : list Z) (i : nat) : Z :=
  match i with
  | O => 0
  | S m => count_below words m + b2z (bit_at words (Z.of_nat m))
  end.

(* bmhas / bitmap.SafeGet1 *)
Definition bmhas (words : list Z) (i : Z) : bool :=
  let wordI := Z.shiftr i 6 in
  if (wordI <? 0) || (Z.of_nat (length words) <=? wordI) then false
  else Z.land (Z.shiftr (nth (Z.to_nat wordI) words 0) (Z.land i 63)) 1 =? 1.

(* ------------------------------------------------------------------ *)
(* 5. getBM16Child under both encodings of the children elements        *)
(* ------------------------------------------------------------------ *)

(* a 16-bit label bitmap of an old inner node *)
Definition bm16 (b : Z) : Prop := 0 <= b < 65536.

Definition le32 (v : Z) : list Z :=
  [v mod 256; (v / 256) mod 256; (v / 65536) mod 256; (v / 16777216) mod 256].

(* <= 0.5.3: uint32 LE per inner node, low half = label bitmap, high half =
   id of the first child (mod 2^16) *)
Fixpoint enc_u32 (bms fcs : list Z) : list Z :=
  match bms, fcs with
  | b :: br, f :: fr => le32 (b + 65536 * (f mod 65536)) ++ enc_u32 br fr
  | _, _ => []
  end.

(* >= 0.5.4: the 16-bit bitmaps packed four to a 64-bit word *)
Fixpoint enc_bm (bms : list Z) : list Z :=
  match bms with
  | [] => []
  | [a] => [a]
  | [a; b] => [a + b * 2 ^ 16]
  | [a; b; c] => [a + b * 2 ^ 16 + c * 2 ^ 32]
  | a :: b :: c :: d :: r => (a + b * 2 ^ 16 + c * 2 ^ 32 + d * 2 ^ 48) :: enc_bm r
  end.

(* binary.LittleEndian.Uint32(ch.Elts[eltIdx*4:]) & 0xffff, then << 1.
   encoding/binary is modelled by its documented meaning (the little-endian
   value of four bytes), not by its shifts and ors. *)
Definition le32_dec (b0 b1 b2 b3 : Z) : Z := b0 + 256 * b1 + 65536 * b2 + 16777216 * b3.
Definition child_u32 (elts : list Z) (eltIdx : Z) : res Z :=
  if eltIdx <? 0 then Err (EPanic 621) else
  match skipn (Z.to_nat (eltIdx * 4)) elts with
  | b0 :: b1 :: b2 :: b3 :: _ => Ok (Z.shiftl (Z.land (le32_dec b0 b1 b2 b3) 65535) 1)
  | _ => Err (EPanic 621)
  end.

(* bitmap.Getw(words, eltIdx, 16) << 1 *)
Definition child_bm (words : list Z) (eltIdx : Z) : res Z :=
  let i := eltIdx * 16 in
  do w <- nth_res 622 words (Z.shiftr i 6);
  Ok (Z.shiftl (Z.land (Z.shiftr w (Z.land i 63)) (Z.ones 16)) 1).

(* getBM16Child(ch, idx): is_bm = ch.Flags & ArrayFlagIsBitmap != 0 *)
Definition get_bm16_child (is_bm : bool) (bitmaps offsets elts bmwords : list Z) (idx : Z) : res Z :=
  do rb <- rank64 bitmaps offsets idx;
  if is_bm then child_bm bmwords (fst rb) else child_u32 elts (fst rb).

(* ------------------------------------------------------------------ *)
(* 6. before000512FixLeafSize and VLenArray.get on its result           *)
(* ------------------------------------------------------------------ *)

Record vlen := { va_n : Z; va_eltcnt : Z; va_fixed : Z;
                 va_words : list Z; va_rank : list Z; va_bytes : list Z }.

(* bitmap.Of([0..n-1], n): ceil(n/64) words, the first n bits set *)
Fixpoint full_words (k : nat) (n : Z) {struct k} : list Z :=
  match k with
  | O => []
  | S m => (if 64 <=? n then Z.ones 64 else Z.ones n) :: full_words m (n - 64)
  end.

(* Leaves carried Bytes only; size = st.encoder.GetEncodedSize(nil) *)
Definition fix_leaf (bytes : list Z) (size : Z) : res vlen :=
  if size =? 0 then Err (EPanic 631)
  else
    let n := Z.of_nat (length bytes) / size in
    let words := full_words (Z.to_nat ((n + 63) / 64)) n in
    Ok {| va_n := n; va_eltcnt := n; va_fixed := size;
          va_words := words; va_rank := offsets_true words; va_bytes := bytes |}.

(* VLenArray.get for a fixed-size array (PositionBM == nil) *)
Definition vlen_get (va : vlen) (index : Z) : res (list Z) :=
  if va_n va <=? index then Err (EPanic 632)
  else
    let wordI := Z.shiftr index 6 in
    let bitI := Z.land index 63 in
    do w <- nth_res 633 (va_words va) wordI;
    if Z.land w (Z.shiftl 1 bitI) =? 0 then Ok []
    else
      do r <- nth_res 633 (va_rank va) wordI;
      let ith := r + popcount64 (Z.land w (Z.ones bitI)) in
      let from := ith * va_fixed va in
      let to := from + va_fixed va in
      if (from <? 0) || (to <? from) || (Z.of_nat (length (va_bytes va)) <? to) then Err (EPanic 634)
      else Ok (firstn (Z.to_nat (va_fixed va)) (skipn (Z.to_nat from) (va_bytes va))).
