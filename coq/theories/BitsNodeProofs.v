(* BitsNodeProofs.v - L3: node type bitmap, leaf ordinals, leaf prefixes, inner prefixes
   (stored bitstr or 2-byte step), bitstr round trip. *)
From Coq Require Import List Arith Bool NArith ZArith Lia Sorted.
From Coq Require Import ZifyN ZifyNat ZifyBool.
From Coq.Strings Require Import Byte.
From Slim Require Import Base Keys Model BitmapRank BitmapRankProofs BitmapRank2 BitmapRank2Proofs
     BitmapSelectProofs Bits BitsWfProofs BitsVlenProofs BitsEncProofs BitsDecProofs ListFacts.
Import ListNotations.
Local Open Scope N_scope.
Ltac Zify.zify_post_hook ::= Z.div_mod_to_equations.

(* ---------- items present at some positions of a list ---------- *)
Section Present.
  Context {A B : Type} (f : A -> option B).
  Definition pind (a : A) : N := match f a with Some _ => 1 | None => 0 end.
  Definition pitems (l : list A) : list B :=
    flat_map (fun a => match f a with Some b => [b] | None => [] end) l.

  Lemma present_nth : forall l j a b,
    nth_error l j = Some a -> f a = Some b ->
    nth_error (pitems l) (cnt_nz (firstn j (map pind l))) = Some b.
  Proof.
    induction l as [|x r IH]; intros j a b Hj Hf; [destruct j; discriminate|].
    destruct j as [|j].
    - cbn in Hj. injection Hj as ->. unfold pitems. cbn [flat_map firstn]. rewrite Hf. reflexivity.
    - cbn [nth_error] in Hj. unfold pitems, cnt_nz. cbn [flat_map map firstn filter]. unfold pind at 1.
      destruct (f x) as [bx|]; cbn [nz N.eqb negb length app nth_error]; apply (IH j a b Hj Hf).
  Qed.

  Lemma pitems_length : forall l, length (pitems l) = cnt_nz (map pind l).
  Proof.
    induction l as [|x r IH]; [reflexivity|]. unfold pitems, cnt_nz in *. cbn [flat_map map filter]. unfold pind at 1.
    destruct (f x); cbn [nz N.eqb negb length app]; rewrite <- IH; reflexivity.
  Qed.
End Present.

Lemma cnt_nz_all : forall l r, Forall (fun x => x <> 0) l -> (r <= length l)%nat -> cnt_nz (firstn r l) = r.
Proof.
  induction l as [|x t IH]; intros r H Hr; [destruct r; [reflexivity|cbn in Hr; lia]|].
  destruct r as [|r]; [reflexivity|]. inversion H; subst. unfold cnt_nz. cbn [firstn filter].
  rewrite (nz_true x) by assumption. cbn [length]. f_equal. apply IH; [assumption|cbn [length] in Hr; lia].
Qed.

(* the r-th item of a packed array of non-empty items *)
Lemma packed_item : forall (items : list (list byte)) r,
  Forall (fun b => b <> []) items -> (r < length items)%nat ->
  exists ps, new_bm (step_to_pos 0 (map blen items)) 0 S32 = Val ps /\
             vlen_var_elt ps (concat items) (N.of_nat r) = Val (nth r items []).
Proof.
  intros items r Hne Hr.
  assert (Hnth : nth r items [] <> []) by (rewrite Forall_forall in Hne; apply Hne; apply nth_In; exact Hr).
  destruct (var_elt_correct items r Hr Hnth) as (ps & E & G). exists ps. split; [exact E|].
  rewrite cnt_nz_all in G; [exact G| |rewrite map_length; lia].
  rewrite Forall_map. eapply Forall_impl; [|exact Hne]. intros b Hb. unfold blen. destruct b; [congruence|cbn; lia].
Qed.

Lemma packed_bm_total : forall (items : list (list byte)),
  exists ps, new_bm (step_to_pos 0 (map blen items)) 0 S32 = Val ps.
Proof.
  intros items. destruct (step_to_pos_sorted_le (map blen items) 0) as [Hs _].
  destruct (new_bm_sorted _ 0 S32 Hs) as (ws & E & _). eauto.
Qed.

(* a presence bitmap built by newBM from the positions with a non-zero indicator *)
Lemma presence_bm : forall sizes cap k,
  cap = N.of_nat (length sizes) ->
  exists ws, new_bm (nonzero_idx 0 sizes) cap k = Val (index_bm ws k) /\ words_ok ws /\
    N.of_nat (length ws) = nwords_for (N.of_nat (length sizes)) /\
    (forall p, bm_get ws p = true <-> In p (nonzero_idx 0 sizes)).
Proof.
  intros sizes cap k ->. destruct (nonzero_idx_spec sizes 0) as [Hs _].
  destruct (new_bm_sorted (nonzero_idx 0 sizes) (N.of_nat (length sizes)) k (sorted_lt_le _ Hs)) as (ws & E & L & O & G).
  exists ws. rewrite bits_cap_eq in L by apply nonzero_idx_bound. auto.
Qed.

(* ---------- tails ---------- *)
Definition ftail (t : option (list byte)) : option (list byte) :=
  match t with Some (b :: r) => Some (b :: r) | _ => None end.

Lemma tail_idx_eq : forall tails ith, tail_idx tails ith = nonzero_idx ith (map (pind ftail) tails).
Proof.
  induction tails as [|t r IH]; intros ith; [reflexivity|]. cbn [tail_idx map nonzero_idx]. rewrite IH.
  unfold pind, ftail. destruct t as [[|b x]|]; reflexivity.
Qed.

Lemma tail_bytes_eq : forall tails, tail_bytes tails = pitems ftail tails.
Proof.
  intros tails. unfold tail_bytes, pitems. apply flat_map_ext. intros [[|b x]|]; reflexivity.
Qed.

Lemma tail_items_nonempty : forall tails, Forall (fun b : list byte => b <> []) (pitems ftail tails).
Proof.
  intros tails. rewrite Forall_forall. intros b Hb. unfold pitems in Hb. apply in_flat_map in Hb.
  destruct Hb as (t & _ & Hb). destruct t as [[|c x]|]; cbn in Hb; try contradiction.
  destruct Hb as [<-|[]]. discriminate.
Qed.

Section LeafPrefix.
  Variables (tails : list (option (list byte))) (pw : list N) (ps : bitmap).
  Variables (bigcnt ss : N) (nt inn sb : option bitmap) (tb : list N) (ip lv : option vlen).
  Hypothesis Hpw_ok : words_ok pw.
  Hypothesis Hpw_len : N.of_nat (length pw) = nwords_for (N.of_nat (length tails)).
  Hypothesis Hpw : forall p, bm_get pw p = true <-> In p (tail_idx tails 0).
  Hypothesis Hps : new_bm (step_to_pos 0 (map blen (tail_bytes tails))) 0 S32 = Val ps.
  Hypothesis Htails : Forall (fun t => tail_ok true t = true) tails.

  Let lp := mkVL 0 0 (Some (index_bm pw R64)) (Some ps) 0 (concat (tail_bytes tails)).
  Let m := mkMsg bigcnt ss nt inn sb tb ip (Some lp) lv.

  Theorem leaf_prefix_correct : forall l t id ith,
    nth_error tails l = Some t -> id - ith = N.of_nat l ->
    get_leaf_prefix m id ith = Val (DnLeaf (N.of_nat l) t).
  Proof.
    intros l t id ith Hl Hid. unfold get_leaf_prefix. rewrite Hid. cbn [m m_leafpfx lp v_presence v_position v_bytes].
    cbn [index_bm b_words b_rank].
    assert (Hll : (l < length tails)%nat) by (apply nth_error_Some; congruence).
    rewrite tail_idx_eq in Hpw.
    assert (Hlen' : N.of_nat (length pw) = nwords_for (N.of_nat (length (map (pind ftail) tails)))) by (rewrite map_length; exact Hpw_len).
    destruct (presence_lookup (map (pind ftail) tails) pw l Hpw_ok Hlen' Hpw ltac:(rewrite map_length; exact Hll)) as [Hbit _].
    rewrite Hbit. cbn [obind].
    rewrite (indicator_rank64 (map (pind ftail) tails) pw l Hpw_ok Hlen' Hpw) by (rewrite map_length; exact Hll).
    assert (Hnth : nth l (map (pind ftail) tails) 0 = pind ftail t).
    { apply nth_error_nth. apply (nth_error_map_some (pind ftail) tails l t Hl). }
    rewrite Hnth. rewrite Forall_forall in Htails. pose proof (Htails t (nth_error_In _ _ Hl)) as Hok.
    destruct t as [[|b x]|]; cbn in Hok; try discriminate.
    - (* a stored tail *)
      change (nz (pind ftail (Some (b :: x)))) with true. cbn [negb obind].
      pose proof (present_nth ftail tails l (Some (b :: x)) (b :: x) Hl eq_refl) as Hp.
      set (r := cnt_nz (firstn l (map (pind ftail) tails))) in *.
      rewrite tail_bytes_eq in *.
      assert (Hr : (r < length (pitems ftail tails))%nat) by (apply nth_error_Some; congruence).
      destruct (packed_item (pitems ftail tails) r (tail_items_nonempty tails) Hr) as (ps' & Eps & G).
      rewrite Hps in Eps. injection Eps as <-. rewrite G. cbn [obind].
      rewrite (nth_error_nth _ _ [] Hp). reflexivity.
    - change (nz (pind ftail None)) with false. reflexivity.
  Qed.
End LeafPrefix.

(* ---------- bytes, bitstr ---------- *)
Lemma byte_of_to_N : forall n, Byte.to_N (byte_of n) = n mod 256.
Proof.
  intros n. unfold byte_of. destruct (Byte.of_N (n mod 256)) as [b|] eqn:E.
  - apply Byte.to_of_N. exact E.
  - apply Byte.of_N_None_iff in E. assert (n mod 256 < 256) by (apply N.mod_lt; discriminate). lia.
Qed.

Lemma pack_nibs_length : forall n (p : list nat), (length p <= n)%nat -> length (pack_nibs p) = ((length p + 1) / 2)%nat.
Proof.
  induction n as [|n IH]; intros p H; [destruct p; [reflexivity|cbn in H; lia]|].
  destruct p as [|a [|b r]]; [reflexivity|reflexivity|]. cbn [pack_nibs length].
  rewrite (IH r) by (cbn [length] in H; lia).
  replace (S (S (length r)) + 1)%nat with (length r + 1 + 1 * 2)%nat by lia. rewrite Nat.div_add by lia. lia.
Qed.

Lemma nibs_pack : forall n (p : list nat), (length p <= n)%nat -> Forall (fun x => (x < 16)%nat) p ->
  nibs_of_bytes (pack_nibs p) = p ++ (if Nat.even (length p) then [] else [0%nat]).
Proof.
  induction n as [|n IH]; intros p H Hb; [destruct p; [reflexivity|cbn in H; lia]|].
  destruct p as [|a [|b r]]; [reflexivity| |].
  - inversion Hb; subst. cbn [pack_nibs nibs_of_bytes flat_map length Nat.even app]. rewrite byte_of_to_N.
    replace ((16 * N.of_nat a) mod 256) with (16 * N.of_nat a) by lia.
    replace (16 * N.of_nat a / 16) with (N.of_nat a) by lia. replace ((16 * N.of_nat a) mod 16) with 0 by lia.
    rewrite Nat2N.id. reflexivity.
  - inversion Hb as [|? ? Ha Hb']; subst. inversion Hb' as [|? ? Hbb Hr]; subst.
    cbn [pack_nibs length]. unfold nibs_of_bytes in *. cbn [flat_map]. rewrite (IH r) by (try assumption; cbn [length] in H; lia).
    rewrite byte_of_to_N. replace ((16 * N.of_nat a + N.of_nat b) mod 256) with (16 * N.of_nat a + N.of_nat b) by lia.
    replace ((16 * N.of_nat a + N.of_nat b) / 16) with (N.of_nat a) by lia.
    replace ((16 * N.of_nat a + N.of_nat b) mod 16) with (N.of_nat b) by lia.
    rewrite !Nat2N.id. cbn [Nat.even app]. reflexivity.
Qed.

Lemma last_opt_app : forall {A} (l : list A) x, last_opt (l ++ [x]) = Some x.
Proof.
  induction l as [|a r IH]; intros x; [reflexivity|]. cbn [app last_opt].
  destruct (r ++ [x]) eqn:E; [destruct r; discriminate|]. rewrite <- E. apply IH.
Qed.

Lemma bitstr_roundtrip : forall p, p <> [] -> Forall (fun x => (x < 16)%nat) p ->
  bitstr_len (bitstr_of_nibs p) = Val (4 * N.of_nat (length p)) /\
  firstn (length p) (nibs_of_bytes (bitstr_of_nibs p)) = p.
Proof.
  intros p Hne Hb. unfold bitstr_of_nibs. split.
  - unfold bitstr_len. rewrite last_opt_app. f_equal. unfold blen. rewrite app_length.
    rewrite (pack_nibs_length (length p) p (le_n _)). cbn [length].
    assert (Hl : (0 < length p)%nat) by (destruct p; [congruence|cbn; lia]).
    destruct (Nat.even (length p)) eqn:Ee.
    + apply Nat.even_spec in Ee. destruct Ee as [k Ek]. rewrite Ek.
      replace ((2 * k + 1) / 2)%nat with k by lia. change (popcount (Byte.to_N "255"%byte)) with 8. lia.
    + assert (Nat.odd (length p) = true) by (rewrite <- Nat.negb_even, Ee; reflexivity).
      apply Nat.odd_spec in H. destruct H as [k Ek]. rewrite Ek.
      replace ((2 * k + 1 + 1) / 2)%nat with (k + 1)%nat by lia. change (popcount (Byte.to_N "240"%byte)) with 4. lia.
  - unfold nibs_of_bytes. rewrite flat_map_app. fold (nibs_of_bytes (pack_nibs p)).
    rewrite (nibs_pack (length p) p (le_n _) Hb). rewrite <- app_assoc. rewrite firstn_app, Nat.sub_diag, firstn_all, firstn_O, app_nil_r.
    reflexivity.
Qed.

(* ---------- inner prefixes ---------- *)
Definition fpfx (i : inner_rec) : option (list byte) := option_map bitstr_of_nibs (i_pfx i).
Definition fstep (i : inner_rec) : option (list byte) := if i_step i =? 0 then None else Some (enc_step (i_step i)).

Lemma prefix_idx_eq_pfx : forall ins ith, prefix_idx true ins ith = nonzero_idx ith (map (pind fpfx) ins).
Proof.
  induction ins as [|i r IH]; intros ith; [reflexivity|]. cbn [prefix_idx map nonzero_idx]. rewrite IH.
  unfold has_prefix, pind, fpfx. destruct (i_pfx i); reflexivity.
Qed.

Lemma prefix_idx_eq_step : forall ins ith, prefix_idx false ins ith = nonzero_idx ith (map (pind fstep) ins).
Proof.
  induction ins as [|i r IH]; intros ith; [reflexivity|]. cbn [prefix_idx map nonzero_idx]. rewrite IH.
  unfold has_prefix, pind, fstep. destruct (i_step i =? 0); reflexivity.
Qed.

Lemma prefix_bitstrs_eq : forall ins, prefix_bitstrs ins = pitems fpfx ins.
Proof.
  intros ins. unfold prefix_bitstrs, pitems. apply flat_map_ext. intros i. unfold fpfx. destruct (i_pfx i); reflexivity.
Qed.

Lemma prefix_steps_eq : forall ins, prefix_steps ins = concat (pitems fstep ins).
Proof.
  induction ins as [|i r IH]; [reflexivity|]. unfold prefix_steps, pitems in *. cbn [flat_map]. rewrite IH.
  unfold fstep. destruct (i_step i =? 0); [reflexivity|]. cbn [enc_step app concat]. reflexivity.
Qed.

Lemma bitstr_items_nonempty : forall ins, Forall (fun b : list byte => b <> []) (pitems fpfx ins).
Proof.
  intros ins. rewrite Forall_forall. intros b Hb. unfold pitems in Hb. apply in_flat_map in Hb.
  destruct Hb as (i & _ & Hb). unfold fpfx in Hb. destruct (i_pfx i) as [p|]; cbn in Hb; [|contradiction].
  destruct Hb as [<-|[]]. unfold bitstr_of_nibs. destruct (pack_nibs p); discriminate.
Qed.

(* the bytes of the r-th 2-byte item *)
Lemma pair_items : forall (items : list (list byte)) r b0 b1,
  Forall (fun b => length b = 2%nat) items -> nth_error items r = Some [b0; b1] ->
  byte_at (concat items) (2 * N.of_nat r) = Val (Byte.to_N b0) /\
  byte_at (concat items) (2 * N.of_nat r + 1) = Val (Byte.to_N b1).
Proof.
  induction items as [|x t IH]; intros r b0 b1 H Hr; [destruct r; discriminate|].
  inversion H as [|? ? Hx Ht]; subst. destruct r as [|r].
  - cbn in Hr. injection Hr as ->. unfold byte_at. cbn. auto.
  - cbn [nth_error] in Hr. destruct (IH r b0 b1 Ht Hr) as [A B].
    destruct x as [|c0 [|c1 [|]]]; cbn [length] in Hx; try lia.
    unfold byte_at in *. cbn [concat app].
    replace (N.to_nat (2 * N.of_nat (S r))) with (S (S (N.to_nat (2 * N.of_nat r)))) by lia.
    replace (N.to_nat (2 * N.of_nat (S r) + 1)) with (S (S (N.to_nat (2 * N.of_nat r + 1)))) by lia.
    cbn [nth_error]. auto.
Qed.

Lemma step_items_pairs : forall ins, Forall (fun b : list byte => length b = 2%nat) (pitems fstep ins).
Proof.
  intros ins. rewrite Forall_forall. intros b Hb. unfold pitems in Hb. apply in_flat_map in Hb.
  destruct Hb as (i & _ & Hb). unfold fstep in Hb. destruct (i_step i =? 0); cbn in Hb; [contradiction|].
  destruct Hb as [<-|[]]. reflexivity.
Qed.

Section InnerPrefix.
  Variables (ins : list inner_rec) (ipfx : bool) (ppw : list N).
  Variables (bigcnt ss : N) (nt inn sb : option bitmap) (tb : list N) (lp lv : option vlen).
  Hypothesis Hpp_ok : words_ok ppw.
  Hypothesis Hpp_len : N.of_nat (length ppw) = nwords_for (N.of_nat (length ins)).
  Hypothesis Hpp : forall p, bm_get ppw p = true <-> In p (prefix_idx ipfx ins 0).

  (* what the record says the decoder must yield *)
  Definition expect_prefix (i : inner_rec) : N * option (list byte) :=
    if ipfx then
      match i_pfx i with
      | Some p => (4 * N.of_nat (length p), Some (bitstr_of_nibs p))
      | None => (0, None)
      end
    else (4 * i_step i, None).

  Definition prec_ok (i : inner_rec) : Prop :=
    if ipfx then match i_pfx i with Some p => p <> [] /\ Forall (fun x => (x < 16)%nat) p | None => True end
    else i_step i <= 65535.
  Hypothesis Hprec : Forall prec_ok ins.

  Section Stored.
    Variable ps : bitmap.
    Hypothesis Hipfx : ipfx = true.
    Hypothesis Hps : new_bm (step_to_pos 0 (map blen (prefix_bitstrs ins))) 0 S32 = Val ps.
    Let ip := mkVL 0 (blen (prefix_idx ipfx ins 0)) (Some (index_bm ppw R128)) (Some ps) 0 (concat (prefix_bitstrs ins)).
    Let m := mkMsg bigcnt ss nt inn sb tb (Some ip) lp lv.

    Theorem inner_prefix_stored : forall j i,
      nth_error ins j = Some i -> inner_prefix m (N.of_nat j) = Val (expect_prefix i).
    Proof.
      intros j i Hj. unfold inner_prefix, expect_prefix.
      cbn [m m_innerpfx ip v_eltcnt v_presence v_position v_bytes index_bm b_words b_rank].
      rewrite Hipfx in *.
      assert (Hjl : (j < length ins)%nat) by (apply nth_error_Some; congruence).
      rewrite prefix_idx_eq_pfx in *.
      assert (Hlen' : N.of_nat (length ppw) = nwords_for (N.of_nat (length (map (pind fpfx) ins)))) by (rewrite map_length; exact Hpp_len).
      assert (Hjl' : (j < length (map (pind fpfx) ins))%nat) by (rewrite map_length; exact Hjl).
      destruct (presence_lookup (map (pind fpfx) ins) ppw j Hpp_ok Hlen' Hpp Hjl') as [Hbit _].
      assert (Hnth : nth j (map (pind fpfx) ins) 0 = pind fpfx i).
      { apply nth_error_nth. apply (nth_error_map_some (pind fpfx) ins j i Hj). }
      rewrite Hnth in Hbit.
      destruct (nonzero_idx_spec (map (pind fpfx) ins) 0) as [Hsort Hin].
      destruct (N.eqb_spec (blen (nonzero_idx 0 (map (pind fpfx) ins))) 0) as [Hz|Hnz].
      - (* no node has a prefix *)
        destruct (i_pfx i) as [p|] eqn:Ep; [|reflexivity]. exfalso.
        assert (In (N.of_nat j) (nonzero_idx 0 (map (pind fpfx) ins))).
        { apply Hin. split; [lia|]. split; [lia|]. rewrite N.sub_0_r, Nat2N.id, Hnth. unfold pind, fpfx. rewrite Ep. cbn [option_map]. discriminate. }
        unfold blen in Hz. destruct (nonzero_idx 0 (map (pind fpfx) ins)); [contradiction|cbn in Hz; lia].
      - rewrite Hbit. cbn [obind]. unfold pind at 1, fpfx at 1. destruct (i_pfx i) as [p|] eqn:Ep; cbn [option_map nz N.eqb negb]; [|reflexivity].
        assert (Hb : N.of_nat j < 64 * N.of_nat (length ppw)) by (rewrite Hpp_len; apply nwords_bound; lia).
        destruct (rank128_total ppw _ Hb) as (r & bit & Er). rewrite Er. cbn [obind].
        destruct (rank128_correct ppw _ _ _ Hpp_ok Er) as [-> _].
        rewrite (rank_spec_listed ppw _ _ Hsort Hpp).
        rewrite <- (N.add_0_l (N.of_nat j)). rewrite (count_lt_nonzero_idx _ 0 j) by lia.
        assert (Hf : fpfx i = Some (bitstr_of_nibs p)) by (unfold fpfx; rewrite Ep; reflexivity).
        pose proof (present_nth fpfx ins j i _ Hj Hf) as Hp.
        set (r := cnt_nz (firstn j (map (pind fpfx) ins))) in *.
        rewrite prefix_bitstrs_eq in *.
        assert (Hr : (r < length (pitems fpfx ins))%nat) by (apply nth_error_Some; congruence).
        destruct (packed_item (pitems fpfx ins) r (bitstr_items_nonempty ins) Hr) as (ps' & Eps & G).
        rewrite Hps in Eps. injection Eps as <-. rewrite G. cbn [obind].
        rewrite (nth_error_nth _ _ [] Hp).
        rewrite Forall_forall in Hprec. pose proof (Hprec i (nth_error_In _ _ Hj)) as Hpi.
        unfold prec_ok in Hpi. rewrite Hipfx, Ep in Hpi. destruct Hpi as [Hne Hb16].
        destruct (bitstr_roundtrip p Hne Hb16) as [El _]. rewrite El. reflexivity.
    Qed.
  End Stored.

  Section Steps.
    Hypothesis Hipfx : ipfx = false.
    Let ip := mkVL 0 (blen (prefix_idx ipfx ins 0)) (Some (index_bm ppw R128)) None 2 (prefix_steps ins).
    Let m := mkMsg bigcnt ss nt inn sb tb (Some ip) lp lv.

    Theorem inner_prefix_steps : forall j i,
      nth_error ins j = Some i -> inner_prefix m (N.of_nat j) = Val (expect_prefix i).
    Proof.
      intros j i Hj. unfold inner_prefix, expect_prefix.
      cbn [m m_innerpfx ip v_eltcnt v_presence v_position v_bytes index_bm b_words b_rank].
      rewrite Hipfx in *.
      assert (Hjl : (j < length ins)%nat) by (apply nth_error_Some; congruence).
      rewrite prefix_idx_eq_step in *.
      assert (Hlen' : N.of_nat (length ppw) = nwords_for (N.of_nat (length (map (pind fstep) ins)))) by (rewrite map_length; exact Hpp_len).
      assert (Hjl' : (j < length (map (pind fstep) ins))%nat) by (rewrite map_length; exact Hjl).
      destruct (presence_lookup (map (pind fstep) ins) ppw j Hpp_ok Hlen' Hpp Hjl') as [Hbit _].
      assert (Hnth : nth j (map (pind fstep) ins) 0 = pind fstep i).
      { apply nth_error_nth. apply (nth_error_map_some (pind fstep) ins j i Hj). }
      rewrite Hnth in Hbit.
      destruct (nonzero_idx_spec (map (pind fstep) ins) 0) as [Hsort Hin].
      destruct (N.eqb_spec (blen (nonzero_idx 0 (map (pind fstep) ins))) 0) as [Hz|Hnz].
      - destruct (N.eq_dec (i_step i) 0) as [->|Hs0]; [reflexivity|]. exfalso.
        assert (In (N.of_nat j) (nonzero_idx 0 (map (pind fstep) ins))).
        { apply Hin. split; [lia|]. split; [lia|]. rewrite N.sub_0_r, Nat2N.id, Hnth. unfold pind, fstep.
          destruct (N.eqb_spec (i_step i) 0); [congruence|]. discriminate. }
        unfold blen in Hz. destruct (nonzero_idx 0 (map (pind fstep) ins)); [contradiction|cbn in Hz; lia].
      - rewrite Hbit. cbn [obind]. unfold pind at 1, fstep at 1.
        destruct (N.eqb_spec (i_step i) 0) as [E0|Hs0]; cbn [nz N.eqb negb]; [rewrite E0; reflexivity|].
        assert (Hb : N.of_nat j < 64 * N.of_nat (length ppw)) by (rewrite Hpp_len; apply nwords_bound; lia).
        destruct (rank128_total ppw _ Hb) as (r & bit & Er). rewrite Er. cbn [obind].
        destruct (rank128_correct ppw _ _ _ Hpp_ok Er) as [-> _].
        rewrite (rank_spec_listed ppw _ _ Hsort Hpp).
        rewrite <- (N.add_0_l (N.of_nat j)). rewrite (count_lt_nonzero_idx _ 0 j) by lia.
        assert (Hf : fstep i = Some (enc_step (i_step i))).
        { unfold fstep. destruct (N.eqb_spec (i_step i) 0); [congruence|reflexivity]. }
        pose proof (present_nth fstep ins j i _ Hj Hf) as Hp.
        set (r := cnt_nz (firstn j (map (pind fstep) ins))) in *.
        rewrite prefix_steps_eq. unfold enc_step in Hp.
        destruct (pair_items _ r _ _ (step_items_pairs ins) Hp) as [A B]. rewrite A, B. cbn [obind].
        rewrite !byte_of_to_N. rewrite Forall_forall in Hprec. pose proof (Hprec i (nth_error_In _ _ Hj)) as Hpi.
        unfold prec_ok in Hpi. rewrite Hipfx in Hpi. rewrite N.shiftr_div_pow2. change (2 ^ 8) with 256.
        change 255 with (N.ones 8). rewrite N.land_ones. change (2 ^ 8) with 256. f_equal. f_equal. lia.
    Qed.
  End Steps.
End InnerPrefix.
