(* BitmapRank.v - word-level model of the bitmap helpers of github.com/openacid/low/bitmap
   that package array relies on (Of, IndexRank64, Rank64, bits.OnesCount64), plus the
   specification-side notions (bit lookup, counting) the rank lemmas are stated with.
   Definitions only; the proofs are in BitmapRankProofs.v.

   A bitmap is a [list N] of 64-bit words (every word < 2^64), bit [i] of the bitmap is
   bit [i mod 64] of word [i / 64].  Positions and ranks are [N]; list lengths are [nat]. *)
From Coq Require Import List NArith.
Import ListNotations.
Local Open Scope N_scope.

(* Outcome of an operation that may hit a Go run-time panic (index out of range, nil
   dereference).  A panic is never folded into a normal-looking value. *)
Inductive out (A : Type) :=
| Val (a : A)
| Panic.
Arguments Val {A} a.
Arguments Panic {A}.

(* math/bits.OnesCount64 on a word < 2^64 *)
Fixpoint pop_pos (p : positive) : N :=
  match p with
  | xH => 1
  | xO q => pop_pos q
  | xI q => N.succ (pop_pos q)
  end.
Definition popcount (n : N) : N :=
  match n with N0 => 0 | Npos p => pop_pos p end.

(* l[i] with Go's bounds check: None = index out of range.  Structural on the list so that
   a far out-of-range index costs nothing. *)
Fixpoint nthN {A} (l : list A) (i : N) : option A :=
  match l with
  | [] => None
  | x :: r => if i =? 0 then Some x else nthN r (N.pred i)
  end.

Definition word_of (i : N) : N := N.shiftr i 6.   (* i >> 6 *)
Definition bit_of (i : N) : N := N.land i 63.     (* i & 63 *)

Fixpoint last_N (l : list N) : option N :=
  match l with
  | [] => None
  | [x] => Some x
  | _ :: r => last_N r
  end.

(* bitmap.Of(bitPositions): nWords = (last+1+63)>>6 words, bit i set for every listed i.
   Modelled for position lists whose word numbers are non-decreasing (package array calls
   Of only after its strictly-ascending check): word w is assembled from the leading run
   of positions that fall into word w.  [take_word w idx acc] ORs that run into [acc] and
   returns the rest of the list. *)
Fixpoint take_word (w : N) (idx : list N) (acc : N) : N * list N :=
  match idx with
  | [] => (acc, [])
  | i :: r => if word_of i =? w
              then take_word w r (N.lor acc (N.shiftl 1 (bit_of i)))
              else (acc, idx)
  end.

Fixpoint bm_words (n : nat) (w : N) (idx : list N) : list N :=
  match n with
  | O => []
  | S n' => let '(x, r) := take_word w idx 0 in x :: bm_words n' (N.succ w) r
  end.

Definition int32_max : N := 2147483647.

(* [max := last + 1] is computed in int32: for last = MaxInt32 it wraps to MinInt32, the
   bitmap gets 0 words and the first [words[wordI] |= ..] panics.  Positions are
   non-negative int32, i.e. < 2^31; anything at or above MaxInt32 is the panic outcome. *)
Definition bm_of (idx : list N) : out (list N) :=
  match last_N idx with
  | None => Val []
  | Some m =>
    if int32_max <=? m then Panic
    else Val (bm_words (N.to_nat (N.shiftr (m + 1 + 63) 6)) 0 idx)
  end.

(* bitmap.IndexRank64(words): entry w = number of 1 bits in words[0..w) *)
Fixpoint index_rank64 (ws : list N) (n : N) : list N :=
  match ws with
  | [] => []
  | w :: r => n :: index_rank64 r (n + popcount w)
  end.

(* bitmap.Rank64(words, rindex, i) = (rindex[i>>6] + OnesCount64(w & Mask[i&63]), (w>>(i&63))&1);
   Mask[j] = (1<<j)-1 = N.ones j.  rindex is read before words, either read may panic. *)
Definition rank64 (ws rindex : list N) (i : N) : out (N * N) :=
  let wi := word_of i in
  let j := bit_of i in
  match nthN rindex wi with
  | None => Panic
  | Some n =>
    match nthN ws wi with
    | None => Panic
    | Some w => Val (n + popcount (N.land w (N.ones j)), N.land (N.shiftr w j) 1)
    end
  end.

(* ---- specification side ---- *)

(* bit i of the bitmap (false beyond the last word) *)
Definition bm_get (ws : list N) (i : N) : bool :=
  match nthN ws (word_of i) with
  | Some w => N.testbit w (bit_of i)
  | None => false
  end.

(* number of k < n with f k *)
Definition count_below (f : N -> bool) (n : nat) : nat :=
  length (filter f (map N.of_nat (seq 0 n))).

(* rank(i): number of set bits strictly below position i *)
Definition rank_spec (ws : list N) (i : N) : N :=
  N.of_nat (count_below (bm_get ws) (N.to_nat i)).

Definition words_ok (ws : list N) : Prop := Forall (fun w => w < 2 ^ 64) ws.

(* number of listed positions strictly below i *)
Definition count_lt (idx : list N) (i : N) : nat :=
  length (filter (fun k => k <? i) idx).

(* number of words of bitmap.Of(idx): enough for the last position *)
Definition span_words (idx : list N) : N :=
  match last_N idx with None => 0 | Some m => word_of m + 1 end.

Fixpoint ascending (idx : list N) : bool :=
  match idx with
  | a :: (b :: _) as r => (a <? b) && ascending r
  | _ => true
  end.
