(* SizeBitsProofs.v - the two models of creator.build agree.

   Size.encode_root (filter mode, used by C17) and Bits.encode_trie followed by
   EndToEnd.to_wire (every mode, used by L3 and the end-to-end theorems) produce THE SAME
   wire record for every well-formed trie without stored prefixes and without values, in
   particular for every trie returned by Model.build in filter mode:

     encode_agree          on a well-formed flat node list
     encoders_agree        on a trie (trie_wf)
     built_encoders_agree  on  build o keys None = Ok T,  o_inner o = o_leaf o = false
     size_is_marshal_length / bound_marshal_bytes   C17's size is the length of the bytes
                           Wire.marshal_gen produces for the end-to-end message

   Parts: SizeBitsWordsProofs.v (bitmaps and rank indexes), SizeBitsTableProofs.v (the
   short-node table). *)
From Coq Require Import List Arith Bool NArith ZArith Lia Sorted.
From Coq Require Import ZifyN ZifyNat ZifyBool.
From Coq.Strings Require Import Byte.
From Slim Require Import Base Keys Model TrieInv BuildProofs BitmapRank BitmapRankProofs BitmapRank2 BitmapRank2Proofs.
From Slim Require Varint Proto Size SizeProofs.
From Slim Require Bits BitsWfProofs BitsEncProofs BitsNodeProofs BitsProofs BitsFlatProofs.
From Slim Require EndToEnd Wire WireProofs.
From Slim Require Import ListFacts SizeBitsWordsProofs SizeBitsTableProofs.
Import ListNotations.
Local Open Scope N_scope.

Import BitsWfProofs BitsEncProofs.

(* ====================================================================== *)
(* Records                                                                 *)
(* ====================================================================== *)
Lemma big_split : forall (J : list Bits.inner_rec) c d,
  map Bits.i_big J = repeat true c ++ repeat false d ->
  Forall (fun j => Bits.i_big j = true) (firstn c J) /\
  Forall (fun j => Bits.i_big j = false) (skipn c J) /\
  length (filter Bits.i_big J) = c.
Proof.
  induction J as [|j r IH]; intros c d H.
  - destruct c; [|discriminate]. cbn. repeat split; constructor.
  - destruct c as [|c].
    + cbn [repeat app] in H. destruct d as [|d]; [discriminate|]. cbn [repeat map] in H. injection H as Hj Hr.
      destruct (IH 0%nat d Hr) as (_ & H2 & H3). cbn [firstn skipn] in *. split; [constructor|]. split.
      * constructor; assumption.
      * cbn [filter]. rewrite Hj. exact H3.
    + cbn [repeat app map] in H. injection H as Hj Hr. destruct (IH c d Hr) as (H1 & H2 & H3).
      cbn [firstn skipn filter]. rewrite Hj. cbn [length]. repeat split; [constructor; assumption|assumption|lia].
Qed.

Lemma count_bms_big_app : forall A B cs, Forall (fun j => Bits.i_big j = true) A ->
  Bits.count_bms (A ++ B) cs = Bits.count_bms B cs.
Proof.
  induction A as [|a A IH]; intros B cs H; [reflexivity|]. inversion H as [|? ? Ha Hr]; subst.
  cbn [app Bits.count_bms]. rewrite Ha. apply IH. exact Hr.
Qed.

Lemma big_count_ino : forall J, Size.big_count (map ino J) = length (filter Bits.i_big J).
Proof.
  intros J. unfold Size.big_count. induction J as [|j r IH]; [reflexivity|].
  cbn [map filter ino Size.in_big]. destruct (Bits.i_big j); cbn [length]; rewrite IH; reflexivity.
Qed.

(* ====================================================================== *)
(* Position lists as true bits                                             *)
(* ====================================================================== *)
Lemma nonzero_true_pos : forall (f : Bits.inner_rec -> bool) J k,
  Bits.nonzero_idx k (map (fun j => ind (f j)) J) = true_pos (map f J) k.
Proof.
  intros f. induction J as [|j r IH]; intros k; [reflexivity|].
  cbn [map Bits.nonzero_idx true_pos]. rewrite IH. destruct (f j); reflexivity.
Qed.

Lemma has_step_ino : forall j, Bits.has_prefix false j = Size.has_step (ino j).
Proof.
  intros j. unfold Bits.has_prefix, Size.has_step. cbn [ino Size.in_step].
  destruct (N.eqb_spec (Bits.i_step j) 0), (Nat.eqb_spec (N.to_nat (Bits.i_step j)) 0); try reflexivity; lia.
Qed.

Lemma prefix_true_pos : forall J k,
  Bits.prefix_idx false J k = true_pos (map Size.has_step (map ino J)) k.
Proof.
  induction J as [|j r IH]; intros k; [reflexivity|].
  cbn [Bits.prefix_idx map true_pos]. rewrite IH, has_step_ino. reflexivity.
Qed.

Lemma prefix_idx_length : forall J k,
  length (Bits.prefix_idx false J k) = length (filter Size.has_step (map ino J)).
Proof.
  induction J as [|j r IH]; intros k; [reflexivity|].
  cbn [Bits.prefix_idx map filter]. rewrite app_length, IH, has_step_ino.
  destruct (Size.has_step (ino j)); reflexivity.
Qed.

Lemma ids_true_pos : forall ipfx lpfx nodes pos nlab nleaf bigok,
  Bits.wf_from ipfx lpfx nodes pos nlab nleaf bigok = true ->
  map Bits.i_id (Bits.inners_of nodes) = true_pos (map is_inner_v nodes) (N.of_nat pos).
Proof.
  intros ipfx lpfx. induction nodes as [|n r IH]; intros pos nlab nleaf bigok H; [reflexivity|].
  destruct n as [id ord tail|id big step pfx fc labels]; cbn [Bits.wf_from] in H; bsplit;
    cbn [Bits.inners_of map is_inner_v true_pos app Bits.i_id]; rewrite <- Nat2N.inj_succ.
  - eapply IH; eassumption.
  - subst id. f_equal. eapply IH; eassumption.
Qed.

Lemma new_bm_pack : forall bs cap k, cap = N.of_nat (length bs) ->
  Bits.new_bm (true_pos bs 0) cap k = Val (Bits.index_bm (pack bs) k).
Proof. intros bs cap k H. unfold Bits.new_bm. rewrite (of_cap_pack bs cap H). reflexivity. Qed.

(* ====================================================================== *)
(* The wire form of an indexed bitmap                                      *)
(* ====================================================================== *)
Lemma bm_wire64 : forall bs, EndToEnd.bm_to_wire (Bits.index_bm (pack bs) Bits.R64) = Size.mk_bm false bs.
Proof.
  intros bs. unfold EndToEnd.bm_to_wire, Size.mk_bm, Bits.index_bm. cbn [Bits.b_words Bits.b_rank Bits.b_sel map].
  unfold pack. change 0 with (N.of_nat 0). rewrite rank64_eq, map_ZN_nat. reflexivity.
Qed.

Lemma bm_wire128 : forall bs, EndToEnd.bm_to_wire (Bits.index_bm (pack bs) Bits.R128) = Size.mk_bm true bs.
Proof.
  intros bs. unfold EndToEnd.bm_to_wire, Size.mk_bm, Bits.index_bm. cbn [Bits.b_words Bits.b_rank Bits.b_sel map].
  unfold pack. change 0 with (N.of_nat 0). rewrite (rank128_eq _ _ _ (le_n _)), map_ZN_nat. reflexivity.
Qed.

(* ====================================================================== *)
(* Steps                                                                   *)
(* ====================================================================== *)
Lemma byte_of_eq : forall n, Bits.byte_of n = Varint.byte_of_N n.
Proof. reflexivity. Qed.

Lemma byte_low_eq : forall x, Varint.byte_of_N (N.land x 255) = Varint.byte_of_N x.
Proof.
  intros x. unfold Varint.byte_of_N. change 255 with (N.ones 8). rewrite N.land_ones.
  change (2 ^ 8) with 256. rewrite N.mod_mod by discriminate. reflexivity.
Qed.

Lemma enc_step_eq : forall x, Bits.enc_step x = Size.enc_step (N.to_nat x).
Proof.
  intros x. unfold Bits.enc_step, Size.enc_step. rewrite N2Nat.id, !byte_of_eq, byte_low_eq.
  rewrite N.shiftr_div_pow2. reflexivity.
Qed.

Lemma prefix_steps_eq : forall J,
  Bits.prefix_steps J = flat_map (fun i => Size.enc_step (Size.in_step i)) (filter Size.has_step (map ino J)).
Proof.
  induction J as [|j r IH]; [reflexivity|].
  unfold Bits.prefix_steps in *. cbn [flat_map map filter]. rewrite IH, <- has_step_ino.
  unfold Bits.has_prefix. destruct (Bits.i_step j =? 0); cbn [negb flat_map app]; [reflexivity|].
  rewrite enc_step_eq. reflexivity.
Qed.

(* ====================================================================== *)
(* Short nodes                                                             *)
(* ====================================================================== *)
Lemma code_eq : forall mu j, NoDup (map fst mu) -> rec_ok j -> Bits.i_big j = false ->
  code_of (rev mu) j = Size.lookup (Size.bm17 (Size.in_labels (ino j))) mu.
Proof.
  intros mu j Hn Hok Hb. unfold code_of. rewrite (bm17_ino j Hok Hb). apply lookup_rev. exact Hn.
Qed.

Lemma is_short_eq : forall mu j, NoDup (map fst mu) -> rec_ok j ->
  is_short (rev mu) j = match Size.node_short mu (ino j) with Some _ => true | None => false end.
Proof.
  intros mu j Hn Hok. unfold is_short, Size.node_short. cbn [ino Size.in_big].
  destruct (Bits.i_big j) eqn:Hb; [reflexivity|]. cbn [negb andb].
  rewrite (code_eq mu j Hn Hok Hb). reflexivity.
Qed.

Lemma lookup_in : forall mu bm sh, Size.lookup bm mu = Some sh -> In (bm, sh) mu.
Proof.
  induction mu as [|[b s] r IH]; intros bm sh H; [discriminate|]. cbn [Size.lookup] in H.
  destruct (N.eqb_spec b bm) as [->|]; [injection H as <-; left; reflexivity|right; apply IH; exact H].
Qed.

Lemma mu_pairs_shs : forall shs a bm sh, In (bm, sh) (mu_pairs a shs) -> In sh shs.
Proof.
  induction shs as [|s r IH]; intros a bm sh H.
  - destruct a; cbn in H; destruct H.
  - destruct a as [|[[b c]|] a]; [destruct H| |].
    + rewrite mu_pairs_some in H. destruct H as [E|H]; [injection E as _ <-; left; reflexivity|right; eapply IH; exact H].
    + rewrite mu_pairs_none in H. right. eapply IH. exact H.
Qed.

Lemma most_used_code_lt : forall tbls ss bm sh,
  Size.lookup bm (Size.most_used tbls ss) = Some sh -> sh < 2 ^ N.of_nat ss.
Proof.
  intros tbls ss bm sh H. apply lookup_in in H. rewrite most_used_pairs in H. apply mu_pairs_shs in H.
  unfold Size.shorts in H. apply in_map_iff in H. destruct H as (k & <- & Hk). apply in_seq in Hk.
  rewrite pow2_nat. lia.
Qed.

Lemma seg_bits : forall tbls ss j,
  let mu := Size.most_used tbls ss in
  NoDup (map fst mu) -> (ss <= 10)%nat -> rec_ok j ->
  fst (seg_of (N.of_nat ss) (rev mu) j) = true_pos (Size.node_bits ss mu (ino j)) 0 /\
  snd (seg_of (N.of_nat ss) (rev mu) j) = N.of_nat (length (Size.node_bits ss mu (ino j))).
Proof.
  intros tbls ss j mu Hn Hss Hok. pose proof Hok as (Hne & Hs & Hb).
  unfold seg_of, Size.node_bits. cbn [ino Size.in_big]. fold (ino j).
  destruct (Bits.i_big j) eqn:Hbig.
  - cbn [fst snd]. rewrite SizeProofs.label_bits_length. split; [|reflexivity].
    rewrite <- (ino_labels j) at 1. apply labels_true_pos; rewrite ino_labels; assumption.
  - rewrite (code_eq mu j Hn Hok Hbig).
    destruct (Size.lookup (Size.bm17 (Size.in_labels (ino j))) mu) as [sh|] eqn:El; cbn [fst snd].
    + rewrite SizeProofs.short_bits_length. split; [|reflexivity].
      apply to_array_true_pos; [|lia]. eapply most_used_code_lt. exact El.
    + rewrite SizeProofs.label_bits_length. split; [|reflexivity].
      rewrite <- (ino_labels j) at 1. apply labels_true_pos; rewrite ino_labels; assumption.
Qed.

(* ====================================================================== *)
(* creator.build: the two messages                                         *)
(* ====================================================================== *)
Theorem encode_agree : forall nodes,
  Bits.wf_from false false nodes 0 0 0 true = true -> nodes <> [] ->
  exists m, Bits.encode_msg nodes false false None = Val m /\
            EndToEnd.to_wire m = SizeProofs.enc (map is_inner_v nodes) (map ino (Bits.inners_of nodes)).
Proof.
  intros nodes Hwf Hne.
  destruct (BitsProofs.wf_records _ _ _ _ _ _ _ Hwf) as (Hrec & _ & _ & _).
  destruct (wf_from_bigs _ _ _ _ _ _ _ Hwf) as (c & d & Hbig & _).
  pose proof (ids_true_pos _ _ _ _ _ _ _ Hwf) as Hids. change (N.of_nat 0) with 0 in Hids.
  set (J := Bits.inners_of nodes) in *.
  destruct (big_split J c d Hbig) as (Hb1 & Hb2 & Hb3).
  set (I := map ino J).
  assert (Hbc : Size.big_count I = c) by (unfold I; rewrite big_count_ino; exact Hb3).
  assert (Hskip : map ino (skipn c J) = skipn (Size.big_count I) I) by (rewrite Hbc; unfold I; symmetry; apply skipn_map).
  assert (Hrec2 : Forall rec_ok (skipn c J)).
  { rewrite Forall_forall in *. intros j Hj. apply Hrec. eapply In_skipn_in. exact Hj. }
  destruct (table_agree (skipn c J) Hrec2 Hb2) as (cs & Ecs & Esorted & Hnd). rewrite Hskip in Esorted, Hnd.
  set (tbls := Size.sorted_tbls (Size.cands (skipn (Size.big_count I) I))) in *.
  set (ss := Size.find_short_size tbls). set (mu := Size.most_used tbls ss).
  pose proof (find_short_size_le tbls) as Hss. fold ss in Hss.
  assert (Hmu : NoDup (map fst mu)).
  { unfold mu. rewrite most_used_pairs. apply assign_keys. exact Hnd. }
  assert (Ecs' : Bits.count_bms J [] = Val cs).
  { rewrite <- (firstn_skipn c J). rewrite count_bms_big_app by exact Hb1. exact Ecs. }
  (* the pieces *)
  assert (Esb : Bits.new_bm (Bits.nonzero_idx 0 (map (fun i => ind (is_short (rev mu) i)) J)) (Bits.blen J) Bits.R64 =
                Val (Bits.index_bm (pack (map (is_short (rev mu)) J)) Bits.R64)).
  { rewrite nonzero_true_pos. apply new_bm_pack. unfold Bits.blen. rewrite map_length. reflexivity. }
  assert (Ent : Bits.new_bm (map Bits.i_id J) (Bits.blen nodes) Bits.R64 =
                Val (Bits.index_bm (pack (map is_inner_v nodes)) Bits.R64)).
  { rewrite Hids. apply new_bm_pack. unfold Bits.blen. rewrite map_length. reflexivity. }
  assert (Eiw : of_many (map (seg_of (N.of_nat ss) (rev mu)) J) =
                Val (pack (flat_map (fun j => Size.node_bits ss mu (ino j)) J))).
  { apply of_many_pack. rewrite Forall_forall in *. intros j Hj. apply (seg_bits tbls ss j Hmu Hss (Hrec j Hj)). }
  assert (Epp : Bits.new_bm (Bits.prefix_idx false J 0) (Bits.blen J) Bits.R128 =
                Val (Bits.index_bm (pack (map Size.has_step I)) Bits.R128)).
  { rewrite prefix_true_pos. apply new_bm_pack. unfold Bits.blen, I. rewrite !map_length. reflexivity. }
  assert (Hn0 : (Bits.blen nodes =? 0) = false).
  { unfold Bits.blen. destruct nodes; [congruence|]. reflexivity. }
  unfold Bits.encode_msg. fold J. rewrite Ecs'. cbn [Bits.obind].
  rewrite Esorted, find_short_size_eq. fold ss. rewrite shorts_of_eq, table_loop_eq, app_nil_r.
  rewrite <- most_used_pairs, <- short_table_entry. fold mu.
  rewrite (inner_segs_spec J 0 (N.of_nat ss) (rev mu) Hrec). cbn [Bits.obind].
  rewrite Esb. cbn [Bits.obind]. rewrite Hn0, Ent. cbn [Bits.obind].
  rewrite Eiw. cbn [Bits.obind]. rewrite Epp. cbn [Bits.obind].
  eexists. split; [reflexivity|].
  unfold EndToEnd.to_wire, SizeProofs.enc.
  cbn [Bits.m_bigcnt Bits.m_shortsize Bits.m_nodetype Bits.m_inners Bits.m_shortbm Bits.m_shorttable
       Bits.m_innerpfx Bits.m_leafpfx Bits.m_leaves option_map].
  fold I. fold tbls. fold ss. fold mu.
  rewrite !bm_wire64, bm_wire128. unfold EndToEnd.vl_to_wire.
  cbn [Bits.v_n Bits.v_eltcnt Bits.v_position Bits.v_fixed Bits.v_bytes Bits.v_presence option_map].
  rewrite bm_wire128, prefix_steps_eq. fold I.
  assert (E1 : Z.of_N (Bits.count_big J) = Z.of_nat (Size.big_count I)).
  { unfold Bits.count_big, Bits.blen, I. rewrite big_count_ino. apply nat_N_Z. }
  assert (E2 : Z.of_N (Bits.blen (Bits.prefix_idx false J 0)) = Z.of_nat (length (filter Size.has_step I))).
  { unfold Bits.blen, I. rewrite prefix_idx_length. apply nat_N_Z. }
  assert (E3 : map (is_short (rev mu)) J =
               map (fun i => match Size.node_short mu i with Some _ => true | None => false end) I).
  { unfold I. rewrite map_map. apply map_ext_in. intros j Hj. rewrite Forall_forall in Hrec.
    apply is_short_eq; [exact Hmu|apply Hrec; exact Hj]. }
  assert (E4 : flat_map (fun j => Size.node_bits ss mu (ino j)) J = flat_map (Size.node_bits ss mu) I).
  { unfold I. symmetry. apply flat_map_map. }
  rewrite E1, E2, E3, E4, nat_N_Z. reflexivity.
Qed.

(* ====================================================================== *)
(* From the tree to the flat list                                          *)
(* ====================================================================== *)
Lemma levels_bfs_trees : forall fuel F, Size.levels fuel F = Bits.bfs_trees fuel F.
Proof.
  induction fuel as [|f IH]; intros F; [reflexivity|]. cbn [Size.levels Bits.bfs_trees].
  destruct F as [|t F]; [rewrite BitsFlatProofs.bfs_trees_nil; reflexivity|].
  rewrite IH. reflexivity.
Qed.

Lemma tree_height_le : forall t, (Bits.tree_height t <= S (Size.height t))%nat.
Proof.
  induction t as [id ord tail eidx|id big step pfx fc ch IH] using tree_ind'; [cbn; lia|].
  cbn [Bits.tree_height Size.height]. apply le_n_S.
  induction ch as [|[x c] r IHr]; [lia|]. inversion IH as [|? ? Hc Hr]; subst. cbn [snd] in Hc.
  specialize (IHr Hr). lia.
Qed.

Lemma bfs_eq : forall r, Size.bfs r = Bits.bfs_trees (Bits.tree_height r) [r].
Proof.
  intros r. unfold Size.bfs. rewrite levels_bfs_trees. pose proof (tree_height_le r) as H.
  replace (S (Size.height r)) with (Bits.tree_height r + (S (Size.height r) - Bits.tree_height r))%nat by lia.
  apply BitsFlatProofs.bfs_trees_enough. cbn [BitsFlatProofs.forest_height fold_right]. lia.
Qed.

Lemma is_inner_view : forall L, map Size.is_inner L = map is_inner_v (map Bits.view_of_tree L).
Proof. intros L. rewrite map_map. apply map_ext. intros [|]; reflexivity. Qed.

Lemma inners_view : forall L, flat_map Size.inode_of L = map ino (Bits.inners_of (map Bits.view_of_tree L)).
Proof.
  induction L as [|t L IH]; [reflexivity|]. destruct t as [id ord tail eidx|id big step pfx fc ch];
    cbn [flat_map Size.inode_of map Bits.view_of_tree Bits.inners_of app]; [exact IH|].
  rewrite IH. f_equal. unfold ino. cbn [Bits.i_big Bits.i_step Bits.i_labels]. rewrite Nat2N.id. f_equal.
  rewrite map_map. rewrite <- (map_id (map fst ch)) at 1. apply map_ext. intros a. symmetry. apply Nat2N.id.
Qed.

Theorem encode_root_flat : forall r,
  Size.encode_root r =
  SizeProofs.enc (map is_inner_v (Bits.flat_nodes r)) (map ino (Bits.inners_of (Bits.flat_nodes r))).
Proof.
  intros r. rewrite SizeProofs.encode_root_enc. unfold Size.inners, Bits.flat_nodes. rewrite bfs_eq.
  rewrite is_inner_view, inners_view. reflexivity.
Qed.

Lemma flat_nodes_nonempty : forall r, Bits.flat_nodes r <> [].
Proof.
  intros r. unfold Bits.flat_nodes. pose proof (BitsFlatProofs.tree_height_pos r) as H.
  destruct (Bits.tree_height r); [lia|]. cbn [Bits.bfs_trees app map]. discriminate.
Qed.

(* ====================================================================== *)
(* Tries                                                                   *)
(* ====================================================================== *)
Theorem encoders_agree : forall T r,
  Bits.trie_wf T = true -> t_root T = Some r ->
  t_innerpfx T = false -> t_leafpfx T = false -> t_leaves T = None ->
  exists m, Bits.encode_trie T = Val m /\ EndToEnd.to_wire m = Size.encode_root r.
Proof.
  intros T r Hwf Hr Hi Hl Hv. unfold Bits.trie_wf, Bits.encode_trie in *. rewrite Hr, Hi, Hl, Hv in *.
  apply BitsFlatProofs.flat_wf_from in Hwf.
  destruct (encode_agree _ Hwf (flat_nodes_nonempty r)) as (m & E & W).
  exists m. split; [exact E|]. rewrite W. symmetry. apply encode_root_flat.
Qed.

Lemma built_filter_fields : forall o keys T,
  build o keys None = Ok T -> o_inner o = false -> o_leaf o = false ->
  t_innerpfx T = false /\ t_leafpfx T = false /\ t_leaves T = None.
Proof.
  intros o keys T Hb Hi Hl. destruct keys as [|k0 kr]; [injection Hb as <-; repeat split|].
  rewrite build_unfold in Hb by discriminate.
  destruct (check_order (k0 :: kr)) as [i|]; [discriminate|]. cbv zeta in Hb. unfold bind in Hb.
  destruct (build_levels _ o true 0 0 _) as [[forest lidx]|]; [|discriminate].
  destruct forest as [|r [|r2 rest]]; try discriminate. injection Hb as <-.
  cbn [t_innerpfx t_leafpfx t_leaves select_leaves]. auto.
Qed.

(* every filter-mode trie of the builder: the two encoders give the same wire record
   (the empty trie included: both give the empty message) *)
Theorem built_encoders_agree : forall o keys T,
  build o keys None = Ok T -> o_inner o = false -> o_leaf o = false ->
  exists m, Bits.encode_trie T = Val m /\ EndToEnd.to_wire m = Size.encode_trie T.
Proof.
  intros o keys T Hb Hi Hl. destruct (built_filter_fields o keys T Hb Hi Hl) as (F1 & F2 & F3).
  pose proof (BitsFlatProofs.built_trie_wf o keys None T Hb) as Hwf.
  destruct (t_root T) as [r|] eqn:Hr.
  - destruct (encoders_agree T r Hwf Hr F1 F2 F3) as (m & E & W). exists m. split; [exact E|].
    unfold Size.encode_trie. rewrite Hr. exact W.
  - exists Bits.empty_msg. unfold Bits.encode_trie, Size.encode_trie. rewrite Hr. split; reflexivity.
Qed.

Corollary built_encoders_agree_val : forall o keys T m,
  build o keys None = Ok T -> o_inner o = false -> o_leaf o = false ->
  Bits.encode_trie T = Val m -> EndToEnd.to_wire m = Size.encode_trie T.
Proof.
  intros o keys T m Hb Hi Hl E. destruct (built_encoders_agree o keys T Hb Hi Hl) as (m' & E' & W).
  rewrite E in E'. injection E' as <-. exact W.
Qed.

Corollary empty_encoders_agree : forall T, t_root T = None ->
  Bits.encode_trie T = Val Bits.empty_msg /\ Size.encode_trie T = Proto.empty_slim /\
  EndToEnd.to_wire Bits.empty_msg = Proto.empty_slim.
Proof. intros T H. unfold Bits.encode_trie, Size.encode_trie. rewrite H. repeat split. Qed.

(* C17's size is the length of the byte string the end-to-end model marshals *)
Theorem size_is_marshal_length : forall o keys T m s,
  build o keys None = Ok T -> o_inner o = false -> o_leaf o = false ->
  Bits.encode_trie T = Val m -> Wire.marshal_gen (EndToEnd.to_wire m) = Some s ->
  Size.marshal_size T = N.of_nat (length s).
Proof.
  intros o keys T m s Hb Hi Hl E Hm. rewrite (WireProofs.marshal_gen_length _ _ Hm).
  rewrite (built_encoders_agree_val o keys T m Hb Hi Hl E). reflexivity.
Qed.

Theorem bound_marshal_bytes : forall o keys T m s,
  build o keys None = Ok T -> o_inner o = false -> o_leaf o = false ->
  N.of_nat (length keys) < 67108864 ->
  Bits.encode_trie T = Val m -> Wire.marshal_gen (EndToEnd.to_wire m) = Some s ->
  N.of_nat (length s) <= 8 * N.of_nat (length keys) + 256.
Proof.
  intros o keys T m s Hb Hi Hl Hn E Hm. rewrite <- (size_is_marshal_length o keys T m s Hb Hi Hl E Hm).
  exact (SizeProofs.filter_size_bound o keys T Hi Hl Hb Hn).
Qed.
