(* BitsProofs.v - L3: the refinement between the flat node view and the message.
     encode_open          creator.build never panics on a well-formed flat list; the shape of every field
     get_view_correct     getNode (+ label extraction, first child) on the encoded message yields
                          exactly the node of the flat list: for leaves (ordinal, tail), big, normal
                          and short inner nodes, stored prefixes and 2-byte steps
     children_correct     getLeftChildID / leftMost / rightMost ranks on the encoded message
     leaves_correct       getIthLeafBytes on the encoded message
   All for every well-formed input, no size bound; the only arithmetic assumption is that no
   position reaches 2^31 (the model computes in N where Go computes in int32). *)
From Coq Require Import List Arith Bool NArith ZArith Lia Sorted.
From Coq Require Import ZifyN ZifyNat ZifyBool.
From Coq.Strings Require Import Byte.
From Slim Require Import Base Keys Model BitmapRank BitmapRankProofs BitmapRank2 BitmapRank2Proofs
     BitmapSelectProofs Bits BitsWfProofs BitsVlenProofs BitsEncProofs BitsDecProofs BitsNodeProofs ListFacts.
Import ListNotations.
Local Open Scope N_scope.
Ltac Zify.zify_post_hook ::= Z.div_mod_to_equations.

(* ---------- what wf gives for the creator's records ---------- *)
Definition pfx_mode_ok (ipfx : bool) (i : inner_rec) : Prop :=
  if ipfx then i_step i = 0 else i_pfx i = None.

Lemma wf_records : forall ipfx lpfx nodes pos nlab nleaf bigok,
  wf_from ipfx lpfx nodes pos nlab nleaf bigok = true ->
  Forall rec_ok (inners_of nodes) /\ Forall (prec_ok ipfx) (inners_of nodes) /\
  Forall (pfx_mode_ok ipfx) (inners_of nodes) /\
  Forall (fun t => tail_ok lpfx t = true) (tails_of nodes).
Proof.
  intros ipfx lpfx. induction nodes as [|n r IH]; intros pos nlab nleaf bigok H.
  - cbn. repeat split; constructor.
  - destruct n as [id ord tail|id big step pfx fc labels]; cbn [wf_from] in H; bsplit.
    + match goal with Hw : wf_from _ _ r _ _ _ _ = true |- _ => destruct (IH _ _ _ _ Hw) as (A & B & C & D) end.
      cbn [inners_of tails_of]. repeat split; try assumption. constructor; assumption.
    + match goal with Hw : wf_from _ _ r _ _ _ _ = true |- _ => destruct (IH _ _ _ _ Hw) as (A & B & C & D) end.
      cbn [inners_of tails_of].
      match goal with Hl : labels_ok _ _ = true |- _ => destruct (labels_ok_spec _ _ Hl) as (L1 & L2 & L3) end.
      match goal with Hp : pfx_ok _ _ _ = true |- _ => rename Hp into Hpfx end.
      repeat split; try assumption; constructor; try assumption.
      * unfold rec_ok. cbn [i_labels i_big]. split; [destruct labels; [congruence|discriminate]|]. split; assumption.
      * unfold prec_ok, pfx_ok in *. cbn [i_pfx i_step]. destruct ipfx.
        -- apply andb_true_iff in Hpfx. destruct Hpfx as [_ Hp]. destruct pfx as [p|]; [|exact I].
           apply andb_true_iff in Hp. destruct Hp as [Hp1 Hp2]. split; [destruct p; [discriminate|congruence]|].
           rewrite forallb_forall in Hp2. rewrite Forall_forall. intros x Hx. apply Hp2 in Hx. apply Nat.ltb_lt in Hx. exact Hx.
        -- apply andb_true_iff in Hpfx. destruct Hpfx as [Hp _]. apply N.leb_le in Hp. exact Hp.
      * unfold pfx_mode_ok, pfx_ok in *. cbn [i_pfx i_step]. destruct ipfx.
        -- apply andb_true_iff in Hpfx. destruct Hpfx as [Hp _]. apply Nat.eqb_eq in Hp. lia.
        -- apply andb_true_iff in Hpfx. destruct Hpfx as [_ Hp]. destruct pfx; [discriminate|reflexivity].
Qed.

Lemma cs_ok_nil : cs_ok [].
Proof. constructor. Qed.

(* ---------- creator.build on a well-formed list ---------- *)
Inductive enc_facts (nodes : list nview) (ipfx lpfx : bool) (leaves : option (list (list byte))) (m : msg) : Prop :=
| EncFacts : forall (ef_s : N) (ef_table : list N) (ef_most : list (N * N)) (ef_c : nat) (ef_d : nat) (ef_ntw : list N) (ef_sbw : list N) (ef_iw : list N) (ef_ppw : list N) (ef_ip : vlen) (ef_lp : option vlen) (ef_lv : option vlen),
    (m = mkMsg (count_big (inners_of nodes)) ef_s (Some (index_bm ef_ntw R64)) (Some (index_bm ef_iw R128))
                     (Some (index_bm ef_sbw R64)) ef_table (Some ef_ip) ef_lp ef_lv) ->
    (ef_s <= 10) ->
    (table_ok ef_s ef_table ef_most) ->
    (map i_big (inners_of nodes) = repeat true ef_c ++ repeat false ef_d) ->
    (of_many (map (seg_of ef_s ef_most) (inners_of nodes)) = Val ef_iw) ->
    (words_ok ef_sbw) ->
    (N.of_nat (length ef_sbw) = nwords_for (N.of_nat (length (inners_of nodes)))) ->
    (forall p, bm_get ef_sbw p = true <->
                         In p (nonzero_idx 0 (map (fun i => ind (is_short ef_most i)) (inners_of nodes)))) ->
    (words_ok ef_ntw) ->
    (N.of_nat (length ef_ntw) = nwords_for (N.of_nat (length nodes))) ->
    (forall p, bm_get ef_ntw p = true <-> In p (map i_id (inners_of nodes))) ->
    (words_ok ef_ppw) ->
    (N.of_nat (length ef_ppw) = nwords_for (N.of_nat (length (inners_of nodes)))) ->
    (forall p, bm_get ef_ppw p = true <-> In p (prefix_idx ipfx (inners_of nodes) 0)) ->
    (if ipfx then
      exists ps, new_bm (step_to_pos 0 (map blen (prefix_bitstrs (inners_of nodes)))) 0 S32 = Val ps /\
                 ef_ip = mkVL 0 (blen (prefix_idx ipfx (inners_of nodes) 0)) (Some (index_bm ef_ppw R128)) (Some ps) 0
                              (concat (prefix_bitstrs (inners_of nodes)))
    else ef_ip = mkVL 0 (blen (prefix_idx ipfx (inners_of nodes) 0)) (Some (index_bm ef_ppw R128)) None 2
                      (prefix_steps (inners_of nodes))) ->
    (if lpfx then
      exists pw ps, words_ok pw /\ N.of_nat (length pw) = nwords_for (N.of_nat (length (tails_of nodes))) /\
        (forall p, bm_get pw p = true <-> In p (tail_idx (tails_of nodes) 0)) /\
        new_bm (step_to_pos 0 (map blen (tail_bytes (tails_of nodes)))) 0 S32 = Val ps /\
        ef_lp = Some (mkVL 0 0 (Some (index_bm pw R64)) (Some ps) 0 (concat (tail_bytes (tails_of nodes))))
    else ef_lp = None) ->
    (match leaves with None => ef_lv = None | Some elts => new_vlen elts = Val ef_lv end) ->
    enc_facts nodes ipfx lpfx leaves m.


Theorem encode_open : forall nodes ipfx lpfx leaves,
  wf_from ipfx lpfx nodes 0 0 0 true = true -> nodes <> [] ->
  exists m, encode_msg nodes ipfx lpfx leaves = Val m /\ enc_facts nodes ipfx lpfx leaves m.
Proof.
  intros nodes ipfx lpfx leaves Hwf Hne.
  destruct (wf_records _ _ _ _ _ _ _ Hwf) as (Hrec & Hprec & Hmode & Htails).
  destruct (wf_from_bigs _ _ _ _ _ _ _ Hwf) as (c & d & Hbig & _).
  destruct (inner_ids_spec _ _ _ _ _ _ _ Hwf) as (Hids_sorted & Hids_b & _).
  unfold encode_msg. set (ins := inners_of nodes) in *. set (tails := tails_of nodes) in *.
  destruct (count_bms_spec ins [] Hrec cs_ok_nil) as (cs & Ecs & Hcs). rewrite Ecs. cbn [obind].
  set (sorted := sorted_counts cs). set (s := find_min_short_size sorted).
  destruct (table_loop (shorts_of s) sorted []) as [table most] eqn:Et.
  pose proof (table_loop_ok s sorted table most (sorted_counts_ok cs Hcs) Et) as Htab.
  pose proof (find_min_le sorted) as Hs. fold s in Hs.
  rewrite (inner_segs_spec ins 0 s most Hrec). cbn [obind].
  (* ShortBM *)
  destruct (presence_bm (map (fun i => ind (is_short most i)) ins) (blen ins) R64) as (sbw & Esb & Osb & Lsb & Gsb).
  { unfold blen. rewrite map_length. reflexivity. }
  rewrite Esb. cbn [obind]. rewrite map_length in Lsb.
  (* NodeTypeBM *)
  assert (Hn0 : (blen nodes =? 0) = false).
  { unfold blen. destruct nodes; [congruence|]. reflexivity. }
  rewrite Hn0.
  destruct (new_bm_sorted (map i_id ins) (blen nodes) R64 (sorted_lt_le _ Hids_sorted)) as (ntw & Ent & Lnt & Ont & Gnt).
  rewrite Ent. cbn [obind].
  rewrite bits_cap_eq in Lnt by (eapply Forall_impl; [|exact Hids_b]; cbv beta; unfold blen; intros; lia).
  (* Inners *)
  assert (Hsegs : Forall seg_ok (map (seg_of s most) ins)).
  { rewrite Forall_map. eapply Forall_impl; [|exact Hrec]. intros i Hi. apply (seg_of_ok s most table i Hs Htab Hi). }
  destruct (of_many_spec _ Hsegs) as (iw & Eiw & _). rewrite Eiw. cbn [obind].
  (* InnerPrefixes *)
  assert (Hpp : exists ppw, new_bm (prefix_idx ipfx ins 0) (blen ins) R128 = Val (index_bm ppw R128) /\ words_ok ppw /\
                 N.of_nat (length ppw) = nwords_for (N.of_nat (length ins)) /\
                 (forall p, bm_get ppw p = true <-> In p (prefix_idx ipfx ins 0))).
  { destruct ipfx.
    - rewrite prefix_idx_eq_pfx. destruct (presence_bm (map (pind fpfx) ins) (blen ins) R128) as (w & E & O & L & G).
      { unfold blen. rewrite map_length. reflexivity. } rewrite map_length in L. eauto.
    - rewrite prefix_idx_eq_step. destruct (presence_bm (map (pind fstep) ins) (blen ins) R128) as (w & E & O & L & G).
      { unfold blen. rewrite map_length. reflexivity. } rewrite map_length in L. eauto. }
  destruct Hpp as (ppw & Epp & Opp & Lpp & Gpp). rewrite Epp. cbn [obind].
  match goal with |- exists m0, obind ?X _ = Val m0 /\ _ => assert (Hip : exists ip, X = Val ip /\
    (if ipfx then
       exists ps, new_bm (step_to_pos 0 (map blen (prefix_bitstrs ins))) 0 S32 = Val ps /\
                  ip = mkVL 0 (blen (prefix_idx ipfx ins 0)) (Some (index_bm ppw R128)) (Some ps) 0 (concat (prefix_bitstrs ins))
     else ip = mkVL 0 (blen (prefix_idx ipfx ins 0)) (Some (index_bm ppw R128)) None 2 (prefix_steps ins))) end.
  { destruct ipfx.
    - destruct (packed_bm_total (prefix_bitstrs ins)) as (ps & Eps). cbv zeta. rewrite Eps. cbn [obind].
      eexists. split; [reflexivity|]. exists ps. split; reflexivity.
    - eexists. split; reflexivity. }
  destruct Hip as (ip & Eip & Hip). rewrite Eip. cbn [obind].
  (* LeafPrefixes *)
  assert (Hcnt : blen nodes - blen ins = N.of_nat (length tails)).
  { unfold blen, ins, tails. pose proof (count_total nodes). lia. }
  match goal with |- exists m0, obind ?X _ = Val m0 /\ _ => assert (Hlp : exists lpo, X = Val lpo /\
    (if lpfx then
      exists pw ps, words_ok pw /\ N.of_nat (length pw) = nwords_for (N.of_nat (length tails)) /\
        (forall p, bm_get pw p = true <-> In p (tail_idx tails 0)) /\
        new_bm (step_to_pos 0 (map blen (tail_bytes tails))) 0 S32 = Val ps /\
        lpo = Some (mkVL 0 0 (Some (index_bm pw R64)) (Some ps) 0 (concat (tail_bytes tails)))
     else lpo = None)) end.
  { destruct lpfx; [|eexists; split; reflexivity].
    rewrite Hcnt, tail_idx_eq.
    destruct (presence_bm (map (pind ftail) tails) (N.of_nat (length tails)) R64) as (pw & E & O & L & G).
    { rewrite map_length. reflexivity. }
    rewrite map_length in L. cbv zeta. rewrite E. cbn [obind].
    destruct (packed_bm_total (tail_bytes tails)) as (ps & Eps). rewrite Eps. cbn [obind].
    eexists. split; [reflexivity|]. exists pw, ps. repeat split; try assumption; try reflexivity; apply G. }
  destruct Hlp as (lpo & Elp & Hlp). rewrite Elp. cbn [obind].
  (* Leaves *)
  match goal with |- exists m0, obind ?X _ = Val m0 /\ _ => assert (Hlv : exists lv, X = Val lv /\
                           match leaves with None => lv = None | Some elts => new_vlen elts = Val lv end) end.
  { destruct leaves as [elts|]; [|eexists; split; reflexivity].
    destruct (new_vlen_total elts) as (r & E & _). exists r. split; assumption. }
  destruct Hlv as (lv & Elv & Hlv). rewrite Elv. cbn [obind].
  eexists. split; [reflexivity|].
  apply (EncFacts _ _ _ _ _ s table most c d ntw sbw iw ppw ip lpo lv); try assumption; try reflexivity.
Qed.

(* ---------- node type ---------- *)
Lemma node_type_rank : forall ipfx lpfx nodes ntw p v,
  wf_from ipfx lpfx nodes 0 0 0 true = true ->
  words_ok ntw -> N.of_nat (length ntw) = nwords_for (N.of_nat (length nodes)) ->
  (forall q, bm_get ntw q = true <-> In q (map i_id (inners_of nodes))) ->
  nth_error nodes p = Some v ->
  rank64 ntw (index_rank64 ntw 0) (N.of_nat p) =
  Val (N.of_nat (inners_before nodes p), N.b2n (is_inner_v v)).
Proof.
  intros ipfx lpfx nodes ntw p v Hwf O L G Hp.
  assert (Hpl : (p < length nodes)%nat) by (apply nth_error_Some; congruence).
  destruct (inner_ids_spec _ _ _ _ _ _ _ Hwf) as (Hs & _ & Hq). destruct (Hq p Hpl) as [Hin Hcnt].
  cbn [Nat.add] in Hin, Hcnt.
  assert (Hb : N.of_nat p < 64 * N.of_nat (length ntw)) by (rewrite L; apply nwords_bound; lia).
  destruct (rank64_total ntw _ Hb) as (r & b & E). rewrite E.
  destruct (rank64_correct ntw _ _ _ O E) as [-> ->]. f_equal. f_equal.
  - rewrite (rank_spec_listed ntw _ _ Hs G), Hcnt. reflexivity.
  - f_equal. apply eq_true_iff_eq. rewrite G, Hin. split.
    + intros (v' & Hv' & Hi). congruence.
    + intros Hi. exists v. auto.
Qed.

Lemma inners_of_firstn : forall nodes p,
  inners_of (firstn p nodes) = firstn (inners_before nodes p) (inners_of nodes).
Proof.
  intros nodes p. unfold inners_before. rewrite <- (firstn_skipn p nodes) at 3. rewrite inners_of_app.
  rewrite firstn_app, Nat.sub_diag, firstn_all, firstn_O, app_nil_r. reflexivity.
Qed.

Lemma labels_before_eq : forall nodes p,
  labels_before (inners_of nodes) (inners_before nodes p) = lab_before nodes p.
Proof.
  intros nodes p. unfold labels_before, lab_before. rewrite <- inners_of_firstn.
  induction (firstn p nodes) as [|[id ord tail|id big step pfx fc labels] r IH]; cbn [inners_of map nlabels sum_list fold_right i_labels]; [reflexivity|exact IH|].
  rewrite map_length, IH. reflexivity.
Qed.

Lemma map_to_nat_of_nat : forall l, map N.to_nat (map N.of_nat l) = l.
Proof. induction l as [|x r IH]; [reflexivity|]. cbn [map]. rewrite Nat2N.id, IH. reflexivity. Qed.

(* ---------- the refinement ---------- *)
Local Arguments N.mul : simpl never.
Local Arguments N.div : simpl never.
Local Arguments N.add : simpl never.
Local Arguments N.sub : simpl never.
Theorem get_view_correct : forall nodes ipfx lpfx leaves m vs,
  wf_from ipfx lpfx nodes 0 0 0 true = true ->
  encode_msg nodes ipfx lpfx leaves = Val m -> init_vars m = Val vs ->
  forall p v, nth_error nodes p = Some v -> get_view m vs (N.of_nat p) = Val v.
Proof.
  intros nodes ipfx lpfx leaves m vs Hwf Henc Hvs p v Hp.
  assert (Hne : nodes <> []) by (destruct nodes; [destruct p; discriminate|discriminate]).
  destruct (encode_open nodes ipfx lpfx leaves Hwf Hne) as (m' & Em' & F). rewrite Henc in Em'. injection Em' as <-.
  destruct F as [s table most c d ntw sbw iw ppw ip lpo lv Em Hs Htab Hbig Hiw Osb Lsb Gsb Ont Lnt Gnt Opp Lpp Gpp Hip Hlp Hlv].
  destruct (wf_records _ _ _ _ _ _ _ Hwf) as (Hrec & Hprec & Hmode & Htails).
  set (ins := inners_of nodes) in *. set (tails := tails_of nodes) in *.
  subst m.
  assert (Evs : vs = mkVars (240 * count_big ins) (Z.of_N s - 17) (N.ones s)).
  { rewrite (init_vars_m ins s table most iw sbw _ _ _ _ Hs Lsb Gsb) in Hvs. congruence. }
  subst vs.
  unfold get_view, get_node. cbn [m_nodetype].
  change (b_words (index_bm ntw R64)) with ntw. change (b_rank (index_bm ntw R64)) with (index_rank64 ntw 0).
  rewrite (node_type_rank ipfx lpfx nodes ntw p v Hwf Ont Lnt Gnt Hp). cbn [obind].
  pose proof (wf_from_nth _ _ _ _ _ _ _ p v Hwf Hp) as Hv.
  assert (Hpl : (p < length nodes)%nat) by (apply nth_error_Some; congruence).
  pose proof (before_total nodes p ltac:(lia)) as Hbt.
  destruct v as [id ord tail|id big step pfx fc labels]; cbn [is_inner_v N.b2n N.eqb].
  - (* leaf *)
    destruct Hv as (Hid & Hord & Htok). cbn [Nat.add] in Hid, Hord. subst id ord.
    pose proof (tails_of_nth nodes p _ _ _ Hp) as Ht. fold tails in Ht.
    destruct lpfx.
    + destruct Hlp as (pw & ps & Opw & Lpw & Gpw & Eps & ->).
      rewrite (leaf_prefix_correct tails pw ps _ _ _ _ _ _ _ _ Opw Lpw Gpw Eps Htails (leaves_before nodes p) tail) by (try assumption; lia).
      cbn [obind]. rewrite !Nat2N.id. reflexivity.
    + subst lpo. unfold get_leaf_prefix. cbn [m_leafpfx obind].
      rewrite Forall_forall in Htails. pose proof (Htails tail (nth_error_In _ _ Ht)) as Hok.
      destruct tail; [cbn in Hok; discriminate|].
      replace (N.of_nat p - N.of_nat (inners_before nodes p)) with (N.of_nat (leaves_before nodes p)) by lia.
      rewrite !Nat2N.id. reflexivity.
  - (* inner *)
    destruct Hv as (Hid & Hfc & Hlok & Hpok). cbn [Nat.add] in Hid, Hfc. subst id fc.
    pose proof (inners_of_nth nodes p _ _ _ _ _ _ Hp) as Hi. fold ins in Hi.
    set (j := inners_before nodes p) in *. set (i := rec_of p big step pfx labels) in *.
    destruct (inner_range_correct ins s table most iw sbw c d (Some (index_bm ntw R64)) (Some ip) lpo lv
                Hs Htab Hrec Hbig Hiw Osb Lsb Gsb j i Hi) as (bm & Erange & Hbm).
    rewrite Erange. cbn [obind].
    assert (Epfx : inner_prefix
       (mkMsg (count_big ins) s (Some (index_bm ntw R64)) (Some (index_bm iw R128)) (Some (index_bm sbw R64)) table (Some ip) lpo lv)
       (N.of_nat j) = Val (expect_prefix ipfx i)).
    { destruct ipfx.
      - destruct Hip as (ps & Eps & ->).
        apply (inner_prefix_stored ins true ppw _ _ _ _ _ _ _ _ Opp Lpp Gpp Hprec ps eq_refl Eps j i Hi).
      - subst ip. apply (inner_prefix_steps ins false ppw _ _ _ _ _ _ _ _ Opp Lpp Gpp Hprec eq_refl j i Hi). }
    rewrite Epfx. cbn [obind].
    destruct (expect_prefix ipfx i) as [plen pfxb] eqn:Eexp. cbn [obind].
    rewrite (node_labels_correct ins s table most iw sbw _ _ _ _ Hs Htab Hrec Hiw Lsb Gsb j i bm Hi Hbm). cbn [obind].
    rewrite (first_child_correct ins s table most iw sbw _ _ _ _ Hs Htab Hrec Hiw Lsb Gsb j i Hi). cbn [obind].
    change (labels_before ins j) with (labels_before (inners_of nodes) (inners_before nodes p)). rewrite labels_before_eq.
    rewrite Forall_forall in Hmode, Hprec.
    pose proof (Hmode i (nth_error_In _ _ Hi)) as Hmi. pose proof (Hprec i (nth_error_In _ _ Hi)) as Hpi.
    unfold pfx_mode_ok in Hmi. unfold prec_ok in Hpi. unfold expect_prefix in Eexp.
    cbn [i rec_of i_big i_labels i_pfx i_step] in *.
    rewrite map_to_nat_of_nat, Nat2N.id.
    replace (N.to_nat (N.of_nat (lab_before nodes p) + 1)) with (1 + lab_before nodes p)%nat by lia.
    assert (Ebig : ((if big then 8 else 4) =? 8) = big) by (destruct big; reflexivity). rewrite Ebig.
    destruct ipfx.
    + assert (step = 0%nat) by lia. subst step. destruct pfx as [q|].
      * injection Eexp as <- <-. destruct Hpi as [Hq Hq16].
        destruct (bitstr_roundtrip q Hq Hq16) as [_ Er].
        replace (N.to_nat (4 * N.of_nat (length q) / 4)) with (length q) by lia. rewrite Er. reflexivity.
      * injection Eexp as <- <-. reflexivity.
    + subst pfx. injection Eexp as <- <-.
      replace (N.to_nat (4 * N.of_nat step / 4)) with step by lia. reflexivity.
Qed.

(* getNode on an inner node, then getLeftChildID for every label bit and the last child:
   the child behind the label with index x in [labels] is node fc + x *)
Theorem children_correct : forall nodes ipfx lpfx leaves m vs,
  wf_from ipfx lpfx nodes 0 0 0 true = true ->
  encode_msg nodes ipfx lpfx leaves = Val m -> init_vars m = Val vs ->
  forall p id big step pfx fc labels,
    nth_error nodes p = Some (VInner id big step pfx fc labels) ->
    exists ith wsz from to bm plen pfxb,
      get_node m vs (N.of_nat p) = Val (DnInner ith wsz from to bm plen pfxb) /\
      first_child m from = Val (N.of_nat fc) /\
      last_child m to = Val (N.of_nat (fc + length labels - 1)) /\
      forall k, k < (if big then 257 else 17) ->
        left_child m from to bm k =
        Val (N.of_nat (fc - 1 + count_lt (map N.of_nat labels) k),
             N.b2n (existsb (N.eqb k) (map N.of_nat labels))).
Proof.
  intros nodes ipfx lpfx leaves m vs Hwf Henc Hvs p id big step pfx fc labels Hp.
  assert (Hne : nodes <> []) by (destruct nodes; [destruct p; discriminate|discriminate]).
  destruct (encode_open nodes ipfx lpfx leaves Hwf Hne) as (m' & Em' & F). rewrite Henc in Em'. injection Em' as <-.
  destruct F as [s table most c d ntw sbw iw ppw ip lpo lv Em Hs Htab Hbig Hiw Osb Lsb Gsb Ont Lnt Gnt Opp Lpp Gpp Hip Hlp Hlv].
  destruct (wf_records _ _ _ _ _ _ _ Hwf) as (Hrec & Hprec & Hmode & Htails).
  set (ins := inners_of nodes) in *.
  subst m.
  assert (Evs : vs = mkVars (240 * count_big ins) (Z.of_N s - 17) (N.ones s)).
  { rewrite (init_vars_m ins s table most iw sbw _ _ _ _ Hs Lsb Gsb) in Hvs. congruence. }
  subst vs.
  unfold get_node. cbn [m_nodetype].
  change (b_words (index_bm ntw R64)) with ntw. change (b_rank (index_bm ntw R64)) with (index_rank64 ntw 0).
  rewrite (node_type_rank ipfx lpfx nodes ntw p _ Hwf Ont Lnt Gnt Hp). cbn [obind is_inner_v N.b2n N.eqb].
  pose proof (wf_from_nth _ _ _ _ _ _ _ p _ Hwf Hp) as Hv.
  destruct Hv as (Hid & Hfc & Hlok & Hpok). cbn [Nat.add] in Hid, Hfc. subst id fc.
  pose proof (inners_of_nth nodes p _ _ _ _ _ _ Hp) as Hi. fold ins in Hi.
  set (j := inners_before nodes p) in *. set (i := rec_of p big step pfx labels) in *.
  destruct (inner_range_correct ins s table most iw sbw c d (Some (index_bm ntw R64)) (Some ip) lpo lv
              Hs Htab Hrec Hbig Hiw Osb Lsb Gsb j i Hi) as (bm & Erange & Hbm).
  rewrite Erange. cbn [obind].
  assert (Epfx : inner_prefix
     (mkMsg (count_big ins) s (Some (index_bm ntw R64)) (Some (index_bm iw R128)) (Some (index_bm sbw R64)) table (Some ip) lpo lv)
     (N.of_nat j) = Val (expect_prefix ipfx i)).
  { destruct ipfx.
    - destruct Hip as (ps & Eps & ->).
      apply (inner_prefix_stored ins true ppw _ _ _ _ _ _ _ _ Opp Lpp Gpp Hprec ps eq_refl Eps j i Hi).
    - subst ip. apply (inner_prefix_steps ins false ppw _ _ _ _ _ _ _ _ Opp Lpp Gpp Hprec eq_refl j i Hi). }
  rewrite Epfx. cbn [obind]. destruct (expect_prefix ipfx i) as [plen pfxb].
  do 7 eexists. split; [reflexivity|].
  assert (Elb : labels_before ins j = lab_before nodes p) by apply labels_before_eq.
  assert (Ell : length (i_labels i) = length labels) by (cbn [i rec_of i_labels]; apply map_length).
  split; [|split].
  - rewrite (first_child_correct ins s table most iw sbw _ _ _ _ Hs Htab Hrec Hiw Lsb Gsb j i Hi). rewrite Elb. f_equal. lia.
  - rewrite (last_child_correct ins s table most iw sbw _ _ _ _ Hs Htab Hrec Hiw Lsb Gsb j i Hi). rewrite Elb, Ell.
    f_equal. destruct (labels_ok_spec _ _ Hlok) as (Hn & _). destruct labels; [congruence|]. cbn [length]. lia.
  - intros k Hk.
    rewrite (left_child_correct ins s table most iw sbw _ _ _ _ Hs Htab Hrec Hiw Lsb Gsb j i bm k Hi Hbm Hk).
    rewrite Elb. cbn [i rec_of i_labels]. f_equal. f_equal. lia.
Qed.

(* getIthLeafBytes on the encoded message *)
Theorem leaves_correct : forall nodes ipfx lpfx leaves m,
  wf_from ipfx lpfx nodes 0 0 0 true = true -> nodes <> [] ->
  encode_msg nodes ipfx lpfx leaves = Val m ->
  match leaves with
  | None => forall l, ith_leaf_bytes m l = Val None
  | Some elts =>
    (Forall (fun e => e = []) elts -> forall l, ith_leaf_bytes m l = Val None) /\
    (~ Forall (fun e => e = []) elts ->
     (forall l, (l < length elts)%nat -> ith_leaf_bytes m (N.of_nat l) = Val (Some (nth l elts []))) /\
     (forall l, blen elts <= l -> ith_leaf_bytes m l = Panic))
  end.
Proof.
  intros nodes ipfx lpfx leaves m Hwf Hne Henc.
  destruct (encode_open nodes ipfx lpfx leaves Hwf Hne) as (m' & Em' & F). rewrite Henc in Em'. injection Em' as <-.
  destruct F as [s table most c d ntw sbw iw ppw ip lpo lv Em Hs Htab Hbig Hiw Osb Lsb Gsb Ont Lnt Gnt Opp Lpp Gpp Hip Hlp Hlv].
  subst m. unfold ith_leaf_bytes. cbn [m_leaves]. destruct leaves as [elts|].
  - destruct (new_vlen_total elts) as (r & Er & Hr). rewrite Hlv in Er. injection Er as <-. split.
    + intros Hall l. apply Hr in Hall. subst lv. reflexivity.
    + intros Hnot. destruct lv as [va|]; [|exfalso; apply Hnot, Hr; reflexivity]. split.
      * intros l Hl. rewrite (vlen_get_correct elts va l Hlv Hl). reflexivity.
      * intros l Hl. rewrite (vlen_get_out_of_bound elts va l Hlv Hl). reflexivity.
  - subst lv. reflexivity.
Qed.

(* creator.build and initVars never panic on a well-formed list *)
Theorem encode_total : forall nodes ipfx lpfx leaves,
  wf_from ipfx lpfx nodes 0 0 0 true = true -> nodes <> [] ->
  exists m vs, encode_msg nodes ipfx lpfx leaves = Val m /\ init_vars m = Val vs /\ m_shortsize m <= 10.
Proof.
  intros nodes ipfx lpfx leaves Hwf Hne.
  destruct (encode_open nodes ipfx lpfx leaves Hwf Hne) as (m & Em & F). exists m.
  destruct F as [s table most c d ntw sbw iw ppw ip lpo lv E Hs Htab Hbig Hiw Osb Lsb Gsb Ont Lnt Gnt Opp Lpp Gpp Hip Hlp Hlv].
  subst m. eexists. split; [exact Em|]. split; [|exact Hs].
  apply (init_vars_m (inners_of nodes) s table most iw sbw _ _ _ _ Hs Lsb Gsb).
Qed.

(* ---------- no panic is reachable in the decoder on an encoded message ---------- *)
Lemma obind_val : forall {A B} (r : out A) (f : A -> out B) b, obind r f = Val b -> exists a, r = Val a /\ f a = Val b.
Proof. intros A B [a|] f b H; [eauto|discriminate]. Qed.

Lemma all_nil_dec : forall elts : list (list byte),
  Forall (fun e => e = []) elts \/ ~ Forall (fun e => e = []) elts.
Proof.
  induction elts as [|e r IH]; [left; constructor|]. destruct e as [|b e'].
  - destruct IH as [IH|IH]; [left; constructor; [reflexivity|exact IH]|right; intros H; inversion H; contradiction].
  - right. intros H. inversion H. discriminate.
Qed.

Theorem decoder_no_panic : forall nodes ipfx lpfx leaves m vs,
  flat_wf ipfx lpfx nodes leaves = true ->
  encode_msg nodes ipfx lpfx leaves = Val m -> init_vars m = Val vs ->
  forall p v, nth_error nodes p = Some v ->
    (exists d, get_node m vs (N.of_nat p) = Val d) /\
    match v with
    | VLeaf _ ord _ => exists b, ith_leaf_bytes m (N.of_nat ord) = Val b
    | VInner _ big _ _ _ _ =>
      forall ith wsz from to bm plen pfxb,
        get_node m vs (N.of_nat p) = Val (DnInner ith wsz from to bm plen pfxb) ->
        (exists l, node_labels m from to bm = Val l) /\
        (exists c, first_child m from = Val c) /\ (exists c, last_child m to = Val c) /\
        (forall k, k < (if big then 257 else 17) -> exists r, left_child m from to bm k = Val r)
    end.
Proof.
  intros nodes ipfx lpfx leaves m vs Hfw Henc Hvs p v Hp.
  unfold flat_wf in Hfw. apply andb_true_iff in Hfw. destruct Hfw as [Hwf Hlv].
  pose proof (get_view_correct nodes ipfx lpfx leaves m vs Hwf Henc Hvs p v Hp) as Hview.
  unfold get_view in Hview. apply obind_val in Hview. destruct Hview as (d & Ed & Hd).
  split; [eauto|]. destruct v as [id ord tail|id big step pfx fc labels].
  - (* the leaf value *)
    assert (Hne : nodes <> []) by (destruct nodes; [destruct p; discriminate|discriminate]).
    pose proof (leaves_correct nodes ipfx lpfx leaves m Hwf Hne Henc) as Hl.
    pose proof (wf_from_nth _ _ _ _ _ _ _ p _ Hwf Hp) as (_ & Hord & _). cbn [Nat.add] in Hord.
    pose proof (tails_of_nth nodes p _ _ _ Hp) as Ht.
    assert (Hlt : (ord < length (tails_of nodes))%nat) by (subst ord; apply nth_error_Some; congruence).
    destruct leaves as [elts|]; [|eexists; apply Hl].
    unfold leaves_ok in Hlv. apply Nat.eqb_eq in Hlv. destruct Hl as [Hl1 Hl2].
    destruct (all_nil_dec elts) as [Ha|Hn].
    + eexists. apply Hl1. exact Ha.
    + eexists. apply (proj1 (Hl2 Hn)). lia.
  - intros ith wsz from to bm plen pfxb Hg.
    destruct (children_correct nodes ipfx lpfx leaves m vs Hwf Henc Hvs p _ _ _ _ _ _ Hp)
      as (ith' & wsz' & from' & to' & bm' & plen' & pfxb' & Hg' & Hfc & Hlc & Hch).
    rewrite Hg in Hg'. injection Hg' as <- <- <- <- <- <- <-.
    rewrite Ed in Hg. injection Hg as ->. apply obind_val in Hd. destruct Hd as (l & El & _).
    repeat split; eauto.
Qed.
