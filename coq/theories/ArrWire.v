(* ArrWire.v - the protobuf wire format of array/array.proto and array/bitmap.proto
   (messages array.Array32 and array.Bits) as golang/protobuf 1.3.1 writes and reads
   it, with the message AS DATA (records mirroring array.pb.go / bitmap.pb.go,
   including the retained unknown fields XXX_unrecognized).  Model file: definitions
   only; proofs are in ArrWireProofs.v.  The token machinery (tokenize, ser_toks,
   tk_int32, tk_packed, tk_bytes, tk_msg, unpack, fold_opt, the sz_ functions) is Proto.v's.

     message Bits    { uint32 Flags = 1; int32 N = 10;
                       repeated uint64 Words = 20; repeated int32 RankIndex = 30; }
     message Array32 { int32 Cnt = 1; repeated uint64 Bitmaps = 2;
                       repeated int32 Offsets = 3; bytes Elts = 4; uint32 Flags = 10;
                       int32 EltWidth = 20; Bits BMElts = 30; }

   Writing (proto/table_marshal.go): fields in ascending field-number order; proto3
   zero scalars, nil sub-message, empty repeated fields and empty bytes are omitted;
   repeated integers are packed; a non-nil sub-message is tag + length + content even
   when empty; int32 is written as uint64(int64(v)) (negative: 10 bytes), uint32 as
   uint64(v); XXX_unrecognized is appended verbatim after the known fields.

   Reading (proto/table_unmarshal.go): see Proto.v.  A scalar is overwritten by a
   later occurrence (int32(x) / uint32(x): low 32 bits), repeated fields are appended
   (packed or one varint), bytes are replaced, the sub-message is MERGED into the
   existing one; a known field number with an unexpected wire type and every unknown
   field number go to XXX_unrecognized as canonical tag ++ raw bytes.

   int32 fields are Z and uint32/uint64 fields are N here (as in Proto.v).  The
   word-level model of package array (Arrays.v) keeps every integer field as N
   (non-negative int32): [wire_of_array32] / [array32_of_wire] convert. *)
From Coq Require Import List NArith ZArith Bool.
From Coq.Strings Require Import Byte.
From Slim Require Import Varint Proto BitmapRank Arrays.
Import ListNotations.
Open Scope N_scope.

(* proto3 uint32 scalar: omitted when zero, otherwise one varint of uint64(v) *)
Definition tk_uint32 (tag : N) (v : N) : list tok :=
  if v =? 0 then [] else [mk_var tag v].
Definition sz_uint32 (tag : N) (v : N) : N :=
  if v =? 0 then 0 else size_varint (tag * 8) + size_varint v.

(* ---- message Bits ------------------------------------------------------------ *)
Record wbits := mkWBits {
  wb_flags : N;            (* uint32 Flags = 1 *)
  wb_n : Z;                (* int32 N = 10 *)
  wb_words : list N;       (* repeated uint64 Words = 20 *)
  wb_rank : list Z;        (* repeated int32 RankIndex = 30 *)
  wb_unk : list byte       (* XXX_unrecognized *)
}.
Definition empty_wbits : wbits := mkWBits 0 0 [] [] [].

Definition toks_bits (b : wbits) : list tok :=
  tk_uint32 1 (wb_flags b) ++
  tk_int32 10 (wb_n b) ++
  tk_packed 20 (wb_words b) ++
  tk_packed 30 (map u64_of_int32 (wb_rank b)).
Definition ser_bits (b : wbits) : list byte := ser_toks (toks_bits b) ++ wb_unk b.

Definition wb_unknown (m : wbits) (t : tok) : wbits :=
  mkWBits (wb_flags m) (wb_n m) (wb_words m) (wb_rank m) (wb_unk m ++ ser_tok t).
Definition wb_add_words (m : wbits) (vs : list N) : wbits :=
  mkWBits (wb_flags m) (wb_n m) (wb_words m ++ vs) (wb_rank m) (wb_unk m).
Definition wb_add_rank (m : wbits) (vs : list N) : wbits :=
  mkWBits (wb_flags m) (wb_n m) (wb_words m) (wb_rank m ++ map int32_of_u64 vs) (wb_unk m).

Definition step_bits (m : wbits) (t : tok) : option wbits :=
  match t with
  | TVar tag v _ =>
    if tag =? 1 then Some (mkWBits (uint32_of_u64 v) (wb_n m) (wb_words m) (wb_rank m) (wb_unk m))
    else if tag =? 10 then Some (mkWBits (wb_flags m) (int32_of_u64 v) (wb_words m) (wb_rank m) (wb_unk m))
    else if tag =? 20 then Some (wb_add_words m [v])
    else if tag =? 30 then Some (wb_add_rank m [v])
    else Some (wb_unknown m t)
  | TBytes tag p _ =>
    if tag =? 20 then
      match unpack p with None => None | Some vs => Some (wb_add_words m vs) end
    else if tag =? 30 then
      match unpack p with None => None | Some vs => Some (wb_add_rank m vs) end
    else Some (wb_unknown m t)
  | TOther _ _ _ => Some (wb_unknown m t)
  end.

Definition parse_bits_into (m : wbits) (b : list byte) : option wbits :=
  match tokenize (length b) b with
  | None => None
  | Some ts => fold_opt step_bits ts m
  end.
(* proto.Unmarshal(b, &array.Bits{}) *)
Definition parse_bits (b : list byte) : option wbits := parse_bits_into empty_wbits b.
Definition or_empty_wbits (o : option wbits) : wbits :=
  match o with Some b => b | None => empty_wbits end.

(* ---- message Array32 ------------------------------------------------------- *)
Record warray := mkWArray {
  wa_cnt : Z;                  (* int32 Cnt = 1 *)
  wa_bitmaps : list N;         (* repeated uint64 Bitmaps = 2 *)
  wa_offsets : list Z;         (* repeated int32 Offsets = 3 *)
  wa_elts : list byte;         (* bytes Elts = 4 *)
  wa_flags : N;                (* uint32 Flags = 10 *)
  wa_eltwidth : Z;             (* int32 EltWidth = 20 *)
  wa_bmelts : option wbits;    (* Bits BMElts = 30 *)
  wa_unk : list byte           (* XXX_unrecognized *)
}.
Definition empty_warray : warray := mkWArray 0 [] [] [] 0 0 None [].

Definition toks_array32 (a : warray) : list tok :=
  tk_int32 1 (wa_cnt a) ++
  tk_packed 2 (wa_bitmaps a) ++
  tk_packed 3 (map u64_of_int32 (wa_offsets a)) ++
  tk_bytes 4 (wa_elts a) ++
  tk_uint32 10 (wa_flags a) ++
  tk_int32 20 (wa_eltwidth a) ++
  tk_msg ser_bits 30 (wa_bmelts a).
(* proto.Marshal(a) *)
Definition ser_array32 (a : warray) : list byte := ser_toks (toks_array32 a) ++ wa_unk a.

Definition wa_unknown (m : warray) (t : tok) : warray :=
  mkWArray (wa_cnt m) (wa_bitmaps m) (wa_offsets m) (wa_elts m) (wa_flags m) (wa_eltwidth m)
           (wa_bmelts m) (wa_unk m ++ ser_tok t).
Definition wa_add_bitmaps (m : warray) (vs : list N) : warray :=
  mkWArray (wa_cnt m) (wa_bitmaps m ++ vs) (wa_offsets m) (wa_elts m) (wa_flags m) (wa_eltwidth m)
           (wa_bmelts m) (wa_unk m).
Definition wa_add_offsets (m : warray) (vs : list N) : warray :=
  mkWArray (wa_cnt m) (wa_bitmaps m) (wa_offsets m ++ map int32_of_u64 vs) (wa_elts m) (wa_flags m)
           (wa_eltwidth m) (wa_bmelts m) (wa_unk m).

Definition step_array32 (m : warray) (t : tok) : option warray :=
  match t with
  | TVar tag v _ =>
    if tag =? 1 then
      Some (mkWArray (int32_of_u64 v) (wa_bitmaps m) (wa_offsets m) (wa_elts m) (wa_flags m) (wa_eltwidth m) (wa_bmelts m) (wa_unk m))
    else if tag =? 2 then Some (wa_add_bitmaps m [v])
    else if tag =? 3 then Some (wa_add_offsets m [v])
    else if tag =? 10 then
      Some (mkWArray (wa_cnt m) (wa_bitmaps m) (wa_offsets m) (wa_elts m) (uint32_of_u64 v) (wa_eltwidth m) (wa_bmelts m) (wa_unk m))
    else if tag =? 20 then
      Some (mkWArray (wa_cnt m) (wa_bitmaps m) (wa_offsets m) (wa_elts m) (wa_flags m) (int32_of_u64 v) (wa_bmelts m) (wa_unk m))
    else Some (wa_unknown m t)
  | TBytes tag p _ =>
    if tag =? 2 then
      match unpack p with None => None | Some vs => Some (wa_add_bitmaps m vs) end
    else if tag =? 3 then
      match unpack p with None => None | Some vs => Some (wa_add_offsets m vs) end
    else if tag =? 4 then
      Some (mkWArray (wa_cnt m) (wa_bitmaps m) (wa_offsets m) p (wa_flags m) (wa_eltwidth m) (wa_bmelts m) (wa_unk m))
    else if tag =? 30 then
      match parse_bits_into (or_empty_wbits (wa_bmelts m)) p with
      | None => None
      | Some b =>
        Some (mkWArray (wa_cnt m) (wa_bitmaps m) (wa_offsets m) (wa_elts m) (wa_flags m) (wa_eltwidth m) (Some b) (wa_unk m))
      end
    else Some (wa_unknown m t)
  | TOther _ _ _ => Some (wa_unknown m t)
  end.

Definition parse_array32_into (m : warray) (b : list byte) : option warray :=
  match tokenize (length b) b with
  | None => None
  | Some ts => fold_opt step_array32 ts m
  end.
(* proto.Unmarshal(b, &array.Array32{}) (Unmarshal resets the target first);
   None = the one error of proto.Unmarshal *)
Definition parse_array32 (b : list byte) : option warray := parse_array32_into empty_warray b.

(* ---- proto.Size ---------------------------------------------------------------- *)
Definition size_bits (b : wbits) : N :=
  sz_uint32 1 (wb_flags b) + sz_int32 10 (wb_n b) + sz_packed 20 (wb_words b) +
  sz_packed 30 (map u64_of_int32 (wb_rank b)) + blen (wb_unk b).
Definition size_array32 (a : warray) : N :=
  sz_int32 1 (wa_cnt a) + sz_packed 2 (wa_bitmaps a) + sz_packed 3 (map u64_of_int32 (wa_offsets a)) +
  sz_bytes 4 (wa_elts a) + sz_uint32 10 (wa_flags a) + sz_int32 20 (wa_eltwidth a) +
  sz_msg size_bits 30 (wa_bmelts a) + blen (wa_unk a).

(* ---- well-formed messages: what the Go types can hold, no unknown fields ------- *)
Definition wf_bits (b : wbits) : bool :=
  u32_ok (wb_flags b) && int32_ok (wb_n b) &&
  forallb u64_ok (wb_words b) && forallb int32_ok (wb_rank b) &&
  nil_bytes (wb_unk b) &&
  len_ok (packed_payload (wb_words b)) &&
  len_ok (packed_payload (map u64_of_int32 (wb_rank b))).

Definition wf_array32 (a : warray) : bool :=
  int32_ok (wa_cnt a) && forallb u64_ok (wa_bitmaps a) && forallb int32_ok (wa_offsets a) &&
  len_ok (wa_elts a) && u32_ok (wa_flags a) && int32_ok (wa_eltwidth a) &&
  opt_all wf_bits (wa_bmelts a) &&
  opt_all (fun b => len_ok (ser_bits b)) (wa_bmelts a) &&
  nil_bytes (wa_unk a) &&
  len_ok (packed_payload (wa_bitmaps a)) &&
  len_ok (packed_payload (map u64_of_int32 (wa_offsets a))).

(* the scalar and repeated fields fit their Go types (no condition on lengths or on the
   retained unknown bytes): true of everything the reader yields, whatever the input *)
Definition fits_bits (b : wbits) : bool :=
  u32_ok (wb_flags b) && int32_ok (wb_n b) &&
  forallb u64_ok (wb_words b) && forallb int32_ok (wb_rank b).
Definition fits_array32 (a : warray) : bool :=
  int32_ok (wa_cnt a) && forallb u64_ok (wa_bitmaps a) && forallb int32_ok (wa_offsets a) &&
  u32_ok (wa_flags a) && int32_ok (wa_eltwidth a) && opt_all fits_bits (wa_bmelts a).

(* ---- acceptance only: does proto.Unmarshal return nil? ------------------------- *)
Definition tok_ok_bits (t : tok) : bool :=
  match t with
  | TBytes tag p _ => if (tag =? 20) || (tag =? 30) then ok_packed p else true
  | _ => true
  end.
Definition tok_ok_array32 (t : tok) : bool :=
  match t with
  | TBytes tag p _ =>
    if (tag =? 2) || (tag =? 3) then ok_packed p
    else if tag =? 30 then accepts_bits p
    else true
  | _ => true
  end.

(* ---- conversion to and from the word-level model of package array (Arrays.v) --- *)
Definition wire_of_bits (b : Arrays.bits) : wbits :=
  mkWBits (b_flags b) (Z.of_N (b_n b)) (b_words b) (map Z.of_N (b_rankindex b)) [].
Definition bits_of_wire (w : wbits) : Arrays.bits :=
  {| b_flags := wb_flags w; b_n := Z.to_N (wb_n w); b_words := wb_words w;
     b_rankindex := map Z.to_N (wb_rank w) |}.

(* what proto.Marshal reads from the embedded Array32 of an array *)
Definition wire_of_array32 (a : array32) : warray :=
  mkWArray (Z.of_N (Cnt a)) (Bitmaps a) (map Z.of_N (Offsets a)) (Elts a) (Flags a)
           (Z.of_N (EltWidth a))
           (match BMElts a with None => None | Some b => Some (wire_of_bits b) end) [].
(* the seven fields proto.Unmarshal fills (the word-level model has no negative int32:
   a negative field has no counterpart there, see [wire_nonneg]) *)
Definition array32_of_wire (w : warray) : array32 :=
  {| Cnt := Z.to_N (wa_cnt w); Bitmaps := wa_bitmaps w; Offsets := map Z.to_N (wa_offsets w);
     Elts := wa_elts w; Flags := wa_flags w; EltWidth := Z.to_N (wa_eltwidth w);
     BMElts := match wa_bmelts w with None => None | Some b => Some (bits_of_wire b) end |}.

Definition wire_nonneg (w : warray) : bool :=
  (0 <=? wa_cnt w)%Z && forallb (fun z => (0 <=? z)%Z) (wa_offsets w) && (0 <=? wa_eltwidth w)%Z &&
  opt_all (fun b => (0 <=? wb_n b)%Z && forallb (fun z => (0 <=? z)%Z) (wb_rank b)) (wa_bmelts w).

(* the values of a word-level array fit their Go field types and the length prefixes
   fit a uint64 (any array that exists in memory satisfies the latter) *)
Definition n31_ok (n : N) : bool := n <? two31.
Definition bits_wire_ok (b : Arrays.bits) : bool :=
  u32_ok (b_flags b) && n31_ok (b_n b) && forallb u64_ok (b_words b) && forallb n31_ok (b_rankindex b) &&
  len_ok (packed_payload (b_words b)) && len_ok (packed_payload (b_rankindex b)).
Definition array32_wire_ok (a : array32) : bool :=
  n31_ok (Cnt a) && forallb u64_ok (Bitmaps a) && forallb n31_ok (Offsets a) && len_ok (Elts a) &&
  u32_ok (Flags a) && n31_ok (EltWidth a) &&
  opt_all bits_wire_ok (BMElts a) &&
  opt_all (fun b => len_ok (ser_bits (wire_of_bits b))) (BMElts a) &&
  len_ok (packed_payload (Bitmaps a)) && len_ok (packed_payload (Offsets a)).

(* proto.Marshal of an array; proto.Unmarshal into a typed / a generic array (Unmarshal
   fills the embedded Array32 and leaves EltEncoder alone) *)
Definition marshal_array (b : base) : list byte := ser_array32 (wire_of_array32 (to_msg b)).
Definition unmarshal_typed (buf : list byte) : option base :=
  match parse_array32 buf with
  | None => None
  | Some w => Some (of_msg_typed (array32_of_wire w))
  end.
Definition unmarshal_generic (ty : encoder) (buf : list byte) : option base :=
  match parse_array32 buf with
  | None => None
  | Some w => Some (of_msg_generic ty (array32_of_wire w))
  end.
