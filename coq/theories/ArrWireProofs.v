(* ArrWireProofs.v - proofs about ArrWire.v: the reader of array.Array32 / array.Bits
   inverts the writer on every well-formed message, the size functions are the lengths
   of the outputs, the reader is total and accepts exactly what Proto.v's acceptance
   scan accepts, and the composition with the word-level model of package array. *)
From Coq Require Import List NArith ZArith Bool Lia.
From Coq Require Import ZifyN ZifyNat ZifyBool.
From Coq.Strings Require Import Byte.
From Slim Require Import Varint VarintProofs Proto ProtoProofs BitmapRank Arrays ArrWire.
Import ListNotations.
Open Scope N_scope.

Ltac Zify.zify_post_hook ::= Z.div_mod_to_equations.

(* ---- uint32 scalars ------------------------------------------------------------ *)
Lemma canon_tk_uint32 : forall tag v, tag_ok tag -> u32_ok v = true -> Forall canon (tk_uint32 tag v).
Proof.
  intros tag v Ht Hv. unfold tk_uint32. destruct (v =? 0); [constructor|].
  constructor; [|constructor]. cbn [mk_var canon].
  apply u32_ok_u64_ok in Hv. apply u64_ok_lt in Hv. auto.
Qed.

Lemma blen_tk_uint32 : forall tag v, blen (ser_toks (tk_uint32 tag v)) = sz_uint32 tag v.
Proof.
  intros tag v. unfold tk_uint32, sz_uint32. destruct (v =? 0); [reflexivity|].
  rewrite ser_toks_one, blen_mk_var. reflexivity.
Qed.

(* ---- Bits: the reader inverts the writer ----------------------------------------- *)
Theorem parse_bits_ser : forall b,
  wf_bits b = true -> parse_bits_into empty_wbits (ser_bits b) = Some b.
Proof.
  intros [fl n ws rs unk] H. unfold wf_bits in H. cbn [wb_flags wb_n wb_words wb_rank wb_unk] in H.
  apply andb_true_iff in H. destruct H as [H Hl2].
  apply andb_true_iff in H. destruct H as [H Hl1].
  apply andb_true_iff in H. destruct H as [H Hu].
  apply andb_true_iff in H. destruct H as [H Hr].
  apply andb_true_iff in H. destruct H as [H Hw].
  apply andb_true_iff in H. destruct H as [Hfl Hn].
  apply nil_bytes_nil in Hu. subst unk.
  unfold parse_bits_into, ser_bits. cbn [wb_unk]. rewrite app_nil_r.
  rewrite tokenize_ser_len.
  2:{ unfold toks_bits. cbn [wb_flags wb_n wb_words wb_rank].
      apply Forall_app; split; [apply canon_tk_uint32; [tag_ok_tac|exact Hfl]|].
      apply Forall_app; split; [apply canon_tk_int32; tag_ok_tac|].
      apply Forall_app; split; apply canon_tk_packed; try tag_ok_tac; assumption. }
  unfold toks_bits. cbn [wb_flags wb_n wb_words wb_rank].
  assert (E1 : fold_opt step_bits (tk_uint32 1 fl) empty_wbits = Some (mkWBits fl 0 [] [] [])).
  { unfold tk_uint32. destruct (fl =? 0) eqn:Ez; [apply N.eqb_eq in Ez; subst; reflexivity|].
    cbn [fold_opt step_bits mk_var]. red_tags. rewrite uint32_roundtrip by exact Hfl. reflexivity. }
  rewrite fold_opt_app, E1. cbv beta iota.
  assert (E2 : fold_opt step_bits (tk_int32 10 n) (mkWBits fl 0 [] [] []) = Some (mkWBits fl n [] [] [])).
  { unfold tk_int32. destruct (n =? 0)%Z eqn:Ez; [apply Z.eqb_eq in Ez; subst; reflexivity|].
    cbn [fold_opt step_bits mk_var]. red_tags. rewrite int32_roundtrip by exact Hn. reflexivity. }
  rewrite fold_opt_app, E2. cbv beta iota.
  assert (E3 : fold_opt step_bits (tk_packed 20 ws) (mkWBits fl n [] [] []) = Some (mkWBits fl n ws [] [])).
  { unfold tk_packed. destruct ws as [|w ws']; [reflexivity|].
    set (wl := w :: ws') in *.
    cbn [fold_opt step_bits mk_bytes]. red_tags.
    rewrite unpack_payload by (apply forallb_u64_lt; exact Hw). reflexivity. }
  rewrite fold_opt_app, E3. cbv beta iota.
  unfold tk_packed. destruct rs as [|r rs']; [reflexivity|].
  set (rl := r :: rs') in *. change (map u64_of_int32 rl) with (u64_of_int32 r :: map u64_of_int32 rs') at 1.
  cbv iota. change (u64_of_int32 r :: map u64_of_int32 rs') with (map u64_of_int32 rl).
  cbn [fold_opt step_bits mk_bytes]. red_tags.
  rewrite unpack_payload by apply map_u64_of_int32_lt.
  unfold wb_add_rank. cbn [wb_flags wb_n wb_words wb_rank wb_unk app].
  rewrite map_int32_roundtrip by exact Hr. reflexivity.
Qed.

(* ---- Array32: the reader inverts the writer ---------------------------------------- *)
Lemma canon_toks_array32 : forall a, wf_array32 a = true -> Forall canon (toks_array32 a).
Proof.
  intros [cnt bms offs elts fl ew bme unk] H. unfold wf_array32 in H.
  cbn [wa_cnt wa_bitmaps wa_offsets wa_elts wa_flags wa_eltwidth wa_bmelts wa_unk] in H.
  apply andb_true_iff in H. destruct H as [H Hloff].
  apply andb_true_iff in H. destruct H as [H Hlbm].
  apply andb_true_iff in H. destruct H as [H Hu].
  apply andb_true_iff in H. destruct H as [H Hlbme].
  apply andb_true_iff in H. destruct H as [H Hwbme].
  apply andb_true_iff in H. destruct H as [H Hew].
  apply andb_true_iff in H. destruct H as [H Hfl].
  apply andb_true_iff in H. destruct H as [H Hlelts].
  apply andb_true_iff in H. destruct H as [H Hoffs].
  apply andb_true_iff in H. destruct H as [Hcnt Hbms].
  apply nil_bytes_nil in Hu. subst unk.
  unfold toks_array32.
  cbn [wa_cnt wa_bitmaps wa_offsets wa_elts wa_flags wa_eltwidth wa_bmelts].
  apply Forall_app; split; [apply canon_tk_int32; tag_ok_tac|].
  apply Forall_app; split; [apply canon_tk_packed; [tag_ok_tac|exact Hlbm]|].
  apply Forall_app; split; [apply canon_tk_packed; [tag_ok_tac|exact Hloff]|].
  apply Forall_app; split; [apply canon_tk_bytes; [tag_ok_tac|exact Hlelts]|].
  apply Forall_app; split; [apply canon_tk_uint32; [tag_ok_tac|exact Hfl]|].
  apply Forall_app; split; [apply canon_tk_int32; tag_ok_tac|].
  apply canon_tk_msg; [tag_ok_tac|exact Hlbme].
Qed.

Lemma fold_toks_array32 : forall a,
  wf_array32 a = true -> fold_opt step_array32 (toks_array32 a) empty_warray = Some a.
Proof.
  intros [cnt bms offs elts fl ew bme unk] H. unfold wf_array32 in H.
  cbn [wa_cnt wa_bitmaps wa_offsets wa_elts wa_flags wa_eltwidth wa_bmelts wa_unk] in H.
  apply andb_true_iff in H. destruct H as [H Hloff].
  apply andb_true_iff in H. destruct H as [H Hlbm].
  apply andb_true_iff in H. destruct H as [H Hu].
  apply andb_true_iff in H. destruct H as [H Hlbme].
  apply andb_true_iff in H. destruct H as [H Hwbme].
  apply andb_true_iff in H. destruct H as [H Hew].
  apply andb_true_iff in H. destruct H as [H Hfl].
  apply andb_true_iff in H. destruct H as [H Hlelts].
  apply andb_true_iff in H. destruct H as [H Hoffs].
  apply andb_true_iff in H. destruct H as [Hcnt Hbms].
  apply nil_bytes_nil in Hu. subst unk.
  unfold toks_array32.
  cbn [wa_cnt wa_bitmaps wa_offsets wa_elts wa_flags wa_eltwidth wa_bmelts].
  assert (E1 : fold_opt step_array32 (tk_int32 1 cnt) empty_warray = Some (mkWArray cnt [] [] [] 0 0 None [])).
  { unfold tk_int32. destruct (cnt =? 0)%Z eqn:Ez; [apply Z.eqb_eq in Ez; subst; reflexivity|].
    cbn [fold_opt step_array32 mk_var]. red_tags. rewrite int32_roundtrip by exact Hcnt. reflexivity. }
  rewrite fold_opt_app, E1. cbv beta iota.
  assert (E2 : fold_opt step_array32 (tk_packed 2 bms) (mkWArray cnt [] [] [] 0 0 None [])
               = Some (mkWArray cnt bms [] [] 0 0 None [])).
  { unfold tk_packed. destruct bms as [|w ws']; [reflexivity|].
    set (wl := w :: ws') in *.
    cbn [fold_opt step_array32 mk_bytes]. red_tags.
    rewrite unpack_payload by (apply forallb_u64_lt; exact Hbms). reflexivity. }
  rewrite fold_opt_app, E2. cbv beta iota.
  assert (E3 : fold_opt step_array32 (tk_packed 3 (map u64_of_int32 offs)) (mkWArray cnt bms [] [] 0 0 None [])
               = Some (mkWArray cnt bms offs [] 0 0 None [])).
  { unfold tk_packed. destruct offs as [|r rs']; [reflexivity|].
    set (rl := r :: rs') in *. change (map u64_of_int32 rl) with (u64_of_int32 r :: map u64_of_int32 rs') at 1.
    cbv iota. change (u64_of_int32 r :: map u64_of_int32 rs') with (map u64_of_int32 rl).
    cbn [fold_opt step_array32 mk_bytes]. red_tags.
    rewrite unpack_payload by apply map_u64_of_int32_lt.
    unfold wa_add_offsets.
    cbn [wa_cnt wa_bitmaps wa_offsets wa_elts wa_flags wa_eltwidth wa_bmelts wa_unk app].
    rewrite map_int32_roundtrip by exact Hoffs. reflexivity. }
  rewrite fold_opt_app, E3. cbv beta iota.
  assert (E4 : fold_opt step_array32 (tk_bytes 4 elts) (mkWArray cnt bms offs [] 0 0 None [])
               = Some (mkWArray cnt bms offs elts 0 0 None [])).
  { unfold tk_bytes. destruct elts as [|x r]; [reflexivity|].
    cbn [fold_opt step_array32 mk_bytes]. red_tags. reflexivity. }
  rewrite fold_opt_app, E4. cbv beta iota.
  assert (E5 : fold_opt step_array32 (tk_uint32 10 fl) (mkWArray cnt bms offs elts 0 0 None [])
               = Some (mkWArray cnt bms offs elts fl 0 None [])).
  { unfold tk_uint32. destruct (fl =? 0) eqn:Ez; [apply N.eqb_eq in Ez; subst; reflexivity|].
    cbn [fold_opt step_array32 mk_var]. red_tags. rewrite uint32_roundtrip by exact Hfl. reflexivity. }
  rewrite fold_opt_app, E5. cbv beta iota.
  assert (E6 : fold_opt step_array32 (tk_int32 20 ew) (mkWArray cnt bms offs elts fl 0 None [])
               = Some (mkWArray cnt bms offs elts fl ew None [])).
  { unfold tk_int32. destruct (ew =? 0)%Z eqn:Ez; [apply Z.eqb_eq in Ez; subst; reflexivity|].
    cbn [fold_opt step_array32 mk_var]. red_tags. rewrite int32_roundtrip by exact Hew. reflexivity. }
  rewrite fold_opt_app, E6. cbv beta iota.
  unfold tk_msg. destruct bme as [b|]; [|reflexivity].
  cbn [fold_opt step_array32 mk_bytes]. red_tags. cbn [wa_bmelts or_empty_wbits].
  cbn [opt_all] in Hwbme. rewrite parse_bits_ser by exact Hwbme. reflexivity.
Qed.

Theorem parse_array32_ser : forall a,
  wf_array32 a = true -> parse_array32 (ser_array32 a) = Some a.
Proof.
  intros a H. unfold parse_array32, parse_array32_into, ser_array32.
  assert (Hu : wa_unk a = []).
  { unfold wf_array32 in H. repeat (apply andb_true_iff in H; destruct H as [H ?]).
    match goal with Hn : nil_bytes (wa_unk a) = true |- _ => apply nil_bytes_nil in Hn; exact Hn end. }
  rewrite Hu, app_nil_r.
  rewrite tokenize_ser_len by (apply canon_toks_array32; exact H).
  apply fold_toks_array32. exact H.
Qed.

(* ---- proto.Size --------------------------------------------------------------------- *)
Theorem size_bits_length : forall b, blen (ser_bits b) = size_bits b.
Proof.
  intro b. unfold ser_bits, toks_bits, size_bits.
  rewrite blen_app, !ser_toks_app, !blen_app, blen_tk_uint32, blen_tk_int32, !blen_tk_packed. lia.
Qed.

Theorem size_array32_length : forall a, blen (ser_array32 a) = size_array32 a.
Proof.
  intro a. unfold ser_array32, toks_array32, size_array32.
  rewrite blen_app, !ser_toks_app, !blen_app, !blen_tk_int32, !blen_tk_packed, blen_tk_bytes, blen_tk_uint32.
  rewrite (blen_tk_msg ser_bits size_bits) by apply size_bits_length. lia.
Qed.

(* ---- totality: the reader is a total function; it accepts exactly what the acceptance
        scan of Proto.v (used for the legacy three-section streams) accepts ------------- *)
Lemma step_bits_ok : forall m t, tok_ok_bits t = true -> exists m', step_bits m t = Some m'.
Proof.
  intros m [tag v raw|tag p raw|tag w raw] H; cbn [step_bits tok_ok_bits] in *.
  - destruct (tag =? 1); [eauto|]. destruct (tag =? 10); [eauto|].
    destruct (tag =? 20); [eauto|]. destruct (tag =? 30); eauto.
  - unfold ok_packed in H.
    destruct (tag =? 20); cbn [orb] in H.
    { destruct (unpack p); [eauto|discriminate]. }
    destruct (tag =? 30).
    { destruct (unpack p); [eauto|discriminate]. }
    eauto.
  - eauto.
Qed.

Lemma step_bits_bad : forall m t, tok_ok_bits t = false -> step_bits m t = None.
Proof.
  intros m [tag v raw|tag p raw|tag w raw] H; cbn [step_bits tok_ok_bits] in *; try discriminate.
  unfold ok_packed in H.
  destruct (tag =? 20); cbn [orb] in H.
  { destruct (unpack p); [discriminate|reflexivity]. }
  destruct (tag =? 30); [|discriminate].
  destruct (unpack p); [discriminate|reflexivity].
Qed.

Lemma fold_bits_accepts : forall ts m,
  (forallb tok_ok_bits ts = true -> exists m', fold_opt step_bits ts m = Some m') /\
  (forallb tok_ok_bits ts = false -> fold_opt step_bits ts m = None).
Proof.
  induction ts as [|t ts IH]; intro m; cbn [forallb fold_opt].
  - split; [eauto|discriminate].
  - destruct (tok_ok_bits t) eqn:Et; cbn [andb].
    + destruct (step_bits_ok m t Et) as [m1 ->]. apply IH.
    + rewrite (step_bits_bad m t Et). split; [discriminate|reflexivity].
Qed.

Theorem parse_bits_accepts : forall m b,
  (exists m', parse_bits_into m b = Some m') <-> accepts_bits b = true.
Proof.
  intros m b. unfold parse_bits_into, accepts_bits.
  destruct (tokenize (length b) b) as [ts|].
  - change (forallb _ ts) with (forallb tok_ok_bits ts).
    destruct (fold_bits_accepts ts m) as [H1 H2].
    destruct (forallb tok_ok_bits ts).
    + split; auto.
    + rewrite (H2 eq_refl). split; [intros [m' E]; discriminate|discriminate].
  - split; [intros [m' E]; discriminate|discriminate].
Qed.

Lemma step_array32_ok : forall m t, tok_ok_array32 t = true -> exists m', step_array32 m t = Some m'.
Proof.
  intros m [tag v raw|tag p raw|tag w raw] H; cbn [step_array32 tok_ok_array32] in *.
  - destruct (tag =? 1); [eauto|]. destruct (tag =? 2); [eauto|]. destruct (tag =? 3); [eauto|].
    destruct (tag =? 10); [eauto|]. destruct (tag =? 20); eauto.
  - unfold ok_packed in H.
    destruct (tag =? 2); cbn [orb] in H.
    { destruct (unpack p); [eauto|discriminate]. }
    destruct (tag =? 3).
    { destruct (unpack p); [eauto|discriminate]. }
    destruct (tag =? 4); [eauto|].
    destruct (tag =? 30); [|eauto].
    apply (parse_bits_accepts (or_empty_wbits (wa_bmelts m))) in H. destruct H as [b' ->]. eauto.
  - eauto.
Qed.

Lemma step_array32_bad : forall m t, tok_ok_array32 t = false -> step_array32 m t = None.
Proof.
  intros m [tag v raw|tag p raw|tag w raw] H; cbn [step_array32 tok_ok_array32] in *; try discriminate.
  unfold ok_packed in H.
  destruct (tag =? 2); cbn [orb] in H.
  { destruct (unpack p); [discriminate|reflexivity]. }
  destruct (tag =? 3).
  { destruct (unpack p); [discriminate|reflexivity]. }
  destruct (tag =? 4) eqn:E4.
  { apply N.eqb_eq in E4. subst tag. discriminate H. }
  destruct (tag =? 30); [|discriminate].
  destruct (parse_bits_into (or_empty_wbits (wa_bmelts m)) p) as [b'|] eqn:Eb; [|reflexivity].
  assert (A : accepts_bits p = true) by (apply (parse_bits_accepts (or_empty_wbits (wa_bmelts m))); eauto).
  congruence.
Qed.

Lemma fold_array32_accepts : forall ts m,
  (forallb tok_ok_array32 ts = true -> exists m', fold_opt step_array32 ts m = Some m') /\
  (forallb tok_ok_array32 ts = false -> fold_opt step_array32 ts m = None).
Proof.
  induction ts as [|t ts IH]; intro m; cbn [forallb fold_opt].
  - split; [eauto|discriminate].
  - destruct (tok_ok_array32 t) eqn:Et; cbn [andb].
    + destruct (step_array32_ok m t Et) as [m1 ->]. apply IH.
    + rewrite (step_array32_bad m t Et). split; [discriminate|reflexivity].
Qed.

Theorem parse_array32_into_accepts : forall m b,
  (exists m', parse_array32_into m b = Some m') <-> accepts_array32 b = true.
Proof.
  intros m b. unfold parse_array32_into, accepts_array32.
  destruct (tokenize (length b) b) as [ts|].
  - change (forallb _ ts) with (forallb tok_ok_array32 ts).
    destruct (fold_array32_accepts ts m) as [H1 H2].
    destruct (forallb tok_ok_array32 ts).
    + split; auto.
    + rewrite (H2 eq_refl). split; [intros [m' E]; discriminate|discriminate].
  - split; [intros [m' E]; discriminate|discriminate].
Qed.

(* proto.Unmarshal on ANY byte string either fails with its one error or yields a message:
   no third outcome (no panic), and which of the two is decided by the acceptance scan *)
Theorem parse_array32_total : forall b,
  (accepts_array32 b = true /\ exists a, parse_array32 b = Some a) \/
  (accepts_array32 b = false /\ parse_array32 b = None).
Proof.
  intro b. pose proof (parse_array32_into_accepts empty_warray b) as H. fold (parse_array32 b) in H.
  destruct (accepts_array32 b).
  - left. split; [reflexivity|]. apply H. reflexivity.
  - right. split; [reflexivity|]. destruct (parse_array32 b) as [a|]; [|reflexivity].
    assert (false = true) by (apply H; eauto). discriminate.
Qed.

(* ---- the word-level model of package array (Arrays.v) and the wire records ----------- *)
From Coq Require Import Sorted.
From Slim Require Import BitmapRankProofs ArraysProofs.

Lemma n31_lt : forall n, n31_ok n = true -> n < two31.
Proof. intros n H. unfold n31_ok in H. apply N.ltb_lt in H. exact H. Qed.

Lemma u64_of_int32_of_N : forall n, n < two31 -> u64_of_int32 (Z.of_N n) = n.
Proof.
  intros n H. unfold u64_of_int32. unfold two31 in H. unfold two64.
  rewrite Z.mod_small by lia. apply N2Z.id.
Qed.

Lemma int32_ok_of_N : forall n, n < two31 -> int32_ok (Z.of_N n) = true.
Proof. intros n H. unfold int32_ok. unfold two31 in *. lia. Qed.

Lemma map_to_of_N : forall l, map Z.to_N (map Z.of_N l) = l.
Proof. induction l as [|x l IH]; [reflexivity|]. cbn [map]. rewrite N2Z.id, IH. reflexivity. Qed.

Lemma map_u64_of_N : forall l, forallb n31_ok l = true -> map u64_of_int32 (map Z.of_N l) = l.
Proof.
  induction l as [|x l IH]; intro H; [reflexivity|].
  cbn [forallb] in H. apply andb_true_iff in H. destruct H as [H1 H2].
  cbn [map]. rewrite u64_of_int32_of_N by (apply n31_lt; exact H1). rewrite IH by exact H2. reflexivity.
Qed.

Lemma forallb_int32_of_N : forall l, forallb n31_ok l = true -> forallb int32_ok (map Z.of_N l) = true.
Proof.
  induction l as [|x l IH]; intro H; [reflexivity|].
  cbn [forallb] in H. apply andb_true_iff in H. destruct H as [H1 H2].
  cbn [map forallb]. rewrite int32_ok_of_N by (apply n31_lt; exact H1). rewrite IH by exact H2. reflexivity.
Qed.

Theorem bits_of_wire_of_bits : forall b, bits_of_wire (wire_of_bits b) = b.
Proof.
  intros [fl n ws rs]. unfold bits_of_wire, wire_of_bits.
  cbn [wb_flags wb_n wb_words wb_rank b_flags b_n b_words b_rankindex].
  rewrite N2Z.id, map_to_of_N. reflexivity.
Qed.

Theorem array32_of_wire_of_array32 : forall a, array32_of_wire (wire_of_array32 a) = a.
Proof.
  intros [cnt bms offs elts fl ew bme]. unfold array32_of_wire, wire_of_array32.
  cbn [wa_cnt wa_bitmaps wa_offsets wa_elts wa_flags wa_eltwidth wa_bmelts
       Cnt Bitmaps Offsets Elts Flags EltWidth BMElts].
  rewrite !N2Z.id, map_to_of_N.
  destruct bme as [b|]; [rewrite bits_of_wire_of_bits|]; reflexivity.
Qed.

Lemma wf_wire_of_bits : forall b, bits_wire_ok b = true -> wf_bits (wire_of_bits b) = true.
Proof.
  intros [fl n ws rs] H. unfold bits_wire_ok in H. cbn [b_flags b_n b_words b_rankindex] in H.
  apply andb_true_iff in H. destruct H as [H Hl2].
  apply andb_true_iff in H. destruct H as [H Hl1].
  apply andb_true_iff in H. destruct H as [H Hr].
  apply andb_true_iff in H. destruct H as [H Hw].
  apply andb_true_iff in H. destruct H as [Hfl Hn].
  unfold wf_bits, wire_of_bits.
  cbn [wb_flags wb_n wb_words wb_rank wb_unk nil_bytes b_flags b_n b_words b_rankindex].
  rewrite Hfl, Hw, Hl1, (int32_ok_of_N n (n31_lt n Hn)), (forallb_int32_of_N rs Hr), (map_u64_of_N rs Hr), Hl2.
  reflexivity.
Qed.

Theorem wf_wire_of_array32 : forall a, array32_wire_ok a = true -> wf_array32 (wire_of_array32 a) = true.
Proof.
  intros [cnt bms offs elts fl ew bme] H. unfold array32_wire_ok in H.
  cbn [Cnt Bitmaps Offsets Elts Flags EltWidth BMElts] in H.
  apply andb_true_iff in H. destruct H as [H Hloff].
  apply andb_true_iff in H. destruct H as [H Hlbm].
  apply andb_true_iff in H. destruct H as [H Hlbme].
  apply andb_true_iff in H. destruct H as [H Hwbme].
  apply andb_true_iff in H. destruct H as [H Hew].
  apply andb_true_iff in H. destruct H as [H Hfl].
  apply andb_true_iff in H. destruct H as [H Hlelts].
  apply andb_true_iff in H. destruct H as [H Hoffs].
  apply andb_true_iff in H. destruct H as [Hcnt Hbms].
  unfold wf_array32, wire_of_array32.
  cbn [wa_cnt wa_bitmaps wa_offsets wa_elts wa_flags wa_eltwidth wa_bmelts wa_unk nil_bytes
       Cnt Bitmaps Offsets Elts Flags EltWidth BMElts].
  rewrite (int32_ok_of_N cnt (n31_lt cnt Hcnt)), Hbms, (forallb_int32_of_N offs Hoffs), Hlelts, Hfl,
          (int32_ok_of_N ew (n31_lt ew Hew)), (map_u64_of_N offs Hoffs), Hlbm, Hloff.
  destruct bme as [b|]; cbn [opt_all] in *; [|reflexivity].
  rewrite (wf_wire_of_bits b Hwbme), Hlbme. reflexivity.
Qed.

(* Unmarshal(Marshal(a)) has the same seven fields *)
Theorem wire_roundtrip_fields : forall a,
  array32_wire_ok a = true ->
  parse_array32 (ser_array32 (wire_of_array32 a)) = Some (wire_of_array32 a) /\
  array32_of_wire (wire_of_array32 a) = a.
Proof.
  intros a H. split; [apply parse_array32_ser, wf_wire_of_array32; exact H|apply array32_of_wire_of_array32].
Qed.

Theorem unmarshal_marshal_typed : forall b,
  array32_wire_ok (arr b) = true -> unmarshal_typed (marshal_array b) = Some (of_msg_typed (to_msg b)).
Proof.
  intros b H. unfold unmarshal_typed, marshal_array, to_msg.
  destruct (wire_roundtrip_fields (arr b) H) as [-> ->]. reflexivity.
Qed.

Theorem unmarshal_marshal_generic : forall ty b,
  array32_wire_ok (arr b) = true ->
  unmarshal_generic ty (marshal_array b) = Some (of_msg_generic ty (to_msg b)).
Proof.
  intros ty b H. unfold unmarshal_generic, marshal_array, to_msg.
  destruct (wire_roundtrip_fields (arr b) H) as [-> ->]. reflexivity.
Qed.

Theorem marshal_array_size : forall b,
  blen (marshal_array b) = size_array32 (wire_of_array32 (arr b)).
Proof. intro b. unfold marshal_array, to_msg. apply size_array32_length. Qed.

(* ---- every array that Init builds from a valid input satisfies array32_wire_ok -------- *)
Lemma enc_var_length_le : forall f n, (length (enc_var f n) <= f)%nat.
Proof.
  induction f as [|f IH]; intro n; cbn [enc_var]; [cbn; lia|].
  destruct (n <? 128); cbn [length]; [lia|]. specialize (IH (n / 128)). lia.
Qed.

Lemma packed_payload_length_le : forall vs, (length (packed_payload vs) <= 10 * length vs)%nat.
Proof.
  induction vs as [|v vs IH]; [cbn; lia|].
  unfold packed_payload in *. cbn [map concat length]. rewrite app_length.
  pose proof (enc_var_length_le 10 v) as Hv. change (enc_var 10 v) with (encode_varint v) in Hv. lia.
Qed.

Lemma len_ok_packed_small : forall vs,
  N.of_nat (length vs) <= 33554432 -> len_ok (packed_payload vs) = true.
Proof.
  intros vs H. unfold len_ok, blen. apply N.ltb_lt. pose proof (packed_payload_length_le vs).
  unfold two64. lia.
Qed.

Lemma sorted_length_bound : forall idx lo M,
  StronglySorted N.lt idx -> Forall (fun i => lo <= i) idx -> Forall (fun i => i < M) idx -> lo <= M ->
  lo + N.of_nat (length idx) <= M.
Proof.
  induction idx as [|x r IH]; intros lo M Hs Hlo HM Hle; [cbn; lia|].
  inversion Hs as [|? ? Hs' Hx]; subst. inversion Hlo; subst. inversion HM; subst.
  assert (x + 1 + N.of_nat (length r) <= M).
  { apply IH; try assumption; [|lia].
    eapply Forall_impl; [|exact Hx]. cbv beta. intros a Ha. lia. }
  cbn [length]. lia.
Qed.

Lemma popcount_le_64 : forall w, w < 2 ^ 64 -> popcount w <= 64.
Proof.
  intros w H. rewrite (popcount_spec 64) by exact H.
  pose proof (count_below_le (N.testbit w) 64). lia.
Qed.

Lemma index_rank64_bound : forall ws n0,
  words_ok ws -> Forall (fun x => x + 64 <= n0 + 64 * N.of_nat (length ws)) (index_rank64 ws n0).
Proof.
  induction ws as [|w r IH]; intros n0 Hok; cbn [index_rank64]; [constructor|].
  inversion Hok as [|? ? Hw Hr]; subst. constructor.
  - cbn [length]. lia.
  - specialize (IH (n0 + popcount w) Hr). eapply Forall_impl; [|exact IH]. cbv beta.
    intros a Ha. pose proof (popcount_le_64 w Hw). cbn [length]. lia.
Qed.

Lemma fix_empty_Forall : forall (P : N -> Prop) ws offs,
  P 0 -> Forall P offs -> Forall P (fix_empty ws offs).
Proof.
  intros P. induction ws as [|w ws IH]; intros offs H0 H; [destruct offs; exact H|].
  destruct offs as [|o offs]; [exact H|]. inversion H; subst. cbn [fix_empty].
  constructor; [destruct (w =? 0); assumption|apply IH; assumption].
Qed.

Lemma span_words_bound : forall idx, idx_ok idx -> span_words idx <= 33554432.
Proof.
  intros idx Hok. unfold span_words. destruct (last_N idx) as [m|] eqn:El; [|lia].
  destruct (last_N_spec _ _ El) as [Hin _]. unfold idx_ok in Hok. rewrite Forall_forall in Hok.
  pose proof (Hok _ Hin) as Hm. unfold int32_max in Hm. rewrite word_of_spec. lia.
Qed.

Lemma forallb_of_Forall : forall (f : N -> bool) l, Forall (fun x => f x = true) l -> forallb f l = true.
Proof. intros f l H. apply forallb_forall. rewrite Forall_forall in H. exact H. Qed.

Lemma concat_length_uniform : forall (es : list (list byte)) w,
  Forall (fun e => length e = w) es -> length (concat es) = (w * length es)%nat.
Proof.
  induction es as [|e es IH]; intros w H; [cbn; lia|].
  inversion H; subst. cbn [concat length]. rewrite app_length, (IH _ H3). lia.
Qed.

Theorem built_wire_ok : forall a idx es w,
  built_from a idx es w -> idx_ok idx ->
  Cnt a = N.of_nat (length idx) -> span a = 64 * span_words idx ->
  N.of_nat w * N.of_nat (length idx) <= int32_max ->
  Flags a = 0 -> EltWidth a = 0 -> BMElts a = None ->
  array32_wire_ok a = true.
Proof.
  intros a idx es w (Hs & Hwok & Hbm & Hoff & Helts & Hlen & Hn) Hok Hcnt Hspan Hfit Hfl Hew Hbme.
  pose proof (span_words_bound idx Hok) as Hsw.
  assert (Hlw : N.of_nat (length (Bitmaps a)) <= 33554432) by (unfold span in Hspan; lia).
  assert (Hli : N.of_nat (length idx) <= int32_max).
  { pose proof (sorted_length_bound idx 0 int32_max Hs) as Hb. rewrite N.add_0_l in Hb. apply Hb.
    - apply Forall_forall. intros. lia.
    - exact Hok.
    - unfold int32_max. lia. }
  unfold array32_wire_ok. rewrite Hfl, Hew, Hbme, Hcnt. cbn [opt_all].
  repeat (apply andb_true_iff; split); try reflexivity.
  - unfold n31_ok, two31. unfold int32_max in Hli. lia.
  - apply forallb_of_Forall. unfold words_ok in Hwok. eapply Forall_impl; [|exact Hwok]. cbv beta.
    intros x Hx. unfold u64_ok, two64. change (2 ^ 64) with 18446744073709551616 in Hx. lia.
  - apply forallb_of_Forall. rewrite Hoff. unfold offsets_of. apply fix_empty_Forall; [reflexivity|].
    pose proof (index_rank64_bound (Bitmaps a) 0 Hwok) as Hb. eapply Forall_impl; [|exact Hb]. cbv beta.
    intros x Hx. unfold n31_ok, two31. lia.
  - unfold len_ok, blen. rewrite Helts, (concat_length_uniform es w Hlen), Hn.
    unfold two64. unfold int32_max in Hfit. lia.
  - apply len_ok_packed_small. exact Hlw.
  - apply len_ok_packed_small. rewrite Hoff, offsets_of_length. exact Hlw.
Qed.

Lemma base_init_wire_ok : forall b ty idx vs,
  ascending idx = true -> idx_ok idx -> length vs = length idx ->
  Forall (value_ok (effective b ty)) vs ->
  (idx <> [] \/ Elts (arr b) = []) ->
  elts_fit (effective b ty) idx ->
  Flags (arr b) = 0 -> EltWidth (arr b) = 0 -> BMElts (arr b) = None ->
  exists a, base_init b ty idx vs = Val ({| arr := a; enc := enc b |}, None) /\ array32_wire_ok a = true.
Proof.
  intros b ty idx vs Hasc Hok Hlen Hvs Hne Hfit Hf He Hm.
  destruct (base_init_ok b ty idx vs Hasc Hok Hlen Hvs Hne) as (a & E & Hb & Hc & Hsp & Hf' & He' & Hm').
  exists a. split; [exact E|].
  eapply built_wire_ok; try eassumption; congruence.
Qed.

(* the three constructors: what they build from a valid input can be marshalled *)
Theorem typed_array_wire_ok : forall k idx zs b,
  ascending idx = true -> idx_ok idx -> length zs = length idx -> Forall (int_ok k) zs ->
  elts_fit [k] idx ->
  new_typed k idx zs = Val (Built b) -> array32_wire_ok (arr b) = true.
Proof.
  intros k idx zs b Hasc Hok Hlen Hzs Hfit E. unfold new_typed in E.
  destruct (base_init_wire_ok empty_base [k] idx (map (fun z => [z]) zs) Hasc Hok) as (a & E' & Hw);
    try reflexivity; try exact Hfit.
  - rewrite map_length. assumption.
  - rewrite Forall_map. eapply Forall_impl; [|exact Hzs]. intros z. apply value_ok_scalar.
  - right. reflexivity.
  - rewrite E' in E. cbn [finish] in E. injection E as <-. exact Hw.
Qed.

Theorem generic_array_wire_ok : forall ty idx vs b,
  ascending idx = true -> idx_ok idx -> length vs = length idx -> Forall (value_ok ty) vs ->
  elts_fit ty idx ->
  new_generic ty idx vs = Val (Built b) -> array32_wire_ok (arr b) = true.
Proof.
  intros ty idx vs b Hasc Hok Hlen Hvs Hfit E. unfold new_generic, array_init in E.
  destruct (base_init_wire_ok empty_base ty idx vs Hasc Hok Hlen Hvs) as (a & E' & Hw);
    try reflexivity; try exact Hfit.
  - right. reflexivity.
  - rewrite E' in E. cbn [enc empty_base arr] in E.
    destruct (0 <? Cnt a); cbn [finish] in E; injection E as <-; exact Hw.
Qed.

Theorem encoder_array_wire_ok : forall e idx vs b,
  ascending idx = true -> idx_ok idx -> length vs = length idx -> Forall (value_ok e) vs ->
  elts_fit e idx ->
  new_with_encoder e idx vs = Val (Built b) -> array32_wire_ok (arr b) = true.
Proof.
  intros e idx vs b Hasc Hok Hlen Hvs Hfit E. unfold new_with_encoder, array_init in E.
  destruct (base_init_wire_ok {| arr := empty_array32; enc := Some e |} e idx vs Hasc Hok Hlen Hvs)
    as (a & E' & Hw); try reflexivity; try exact Hfit.
  - right. reflexivity.
  - rewrite E' in E. cbn [enc arr finish] in E. injection E as <-. exact Hw.
Qed.

(* ---- the composition: a built array survives the round trip THROUGH THE BYTES --------- *)
Theorem wire_roundtrip : forall b ty k,
  array32_wire_ok (arr b) = true ->
  (enc b = None -> unmarshal_typed (marshal_array b) = Some b) /\
  (enc b = Some ty -> unmarshal_generic ty (marshal_array b) = Some b) /\
  (exists bt bg,
     unmarshal_typed (marshal_array b) = Some bt /\ unmarshal_generic ty (marshal_array b) = Some bg /\
     arr bt = arr b /\ enc bt = None /\ arr bg = arr b /\ enc bg = Some ty) /\
  (length (Offsets (arr b)) = length (Bitmaps (arr b)) ->
   exists bg bt,
     unmarshal_generic [k] (marshal_array b) = Some bg /\ unmarshal_typed (marshal_array b) = Some bt /\
     forall i,
       base_get bg i = generic_of_typed (typed_get k (arr b) i) /\
       generic_of_typed (typed_get k (arr bt) i) = base_get {| arr := arr b; enc := Some [k] |} i).
Proof.
  intros b ty k H.
  rewrite (unmarshal_marshal_typed b H), (unmarshal_marshal_generic ty b H), (unmarshal_marshal_generic [k] b H).
  split; [intro E; f_equal; apply roundtrip_typed; exact E|].
  split; [intro E; f_equal; apply roundtrip_generic; exact E|].
  split.
  - eexists; eexists. repeat split.
  - intro HL. eexists; eexists. split; [reflexivity|]. split; [reflexivity|].
    intro i. split; [apply reload_typed_as_generic; exact HL|apply reload_generic_as_typed; exact HL].
Qed.

(* ---- retained unknown fields: a message carrying varint / length-delimited fields the
        schema does not know (what a newer writer may add) is reproduced exactly,
        XXX_unrecognized included ------------------------------------------------------- *)
Definition tok_tag (t : tok) : N :=
  match t with TVar tag _ _ => tag | TBytes tag _ _ => tag | TOther tag _ _ => tag end.
Definition arr_known (tag : N) : bool :=
  (tag =? 1) || (tag =? 2) || (tag =? 3) || (tag =? 4) || (tag =? 10) || (tag =? 20) || (tag =? 30).
Definition wa_with_unk (a : warray) (u : list byte) : warray :=
  mkWArray (wa_cnt a) (wa_bitmaps a) (wa_offsets a) (wa_elts a) (wa_flags a) (wa_eltwidth a) (wa_bmelts a) u.

Lemma step_array32_unknown : forall m t,
  arr_known (tok_tag t) = false -> step_array32 m t = Some (wa_unknown m t).
Proof.
  intros m [tag v raw|tag p raw|tag w raw] H; cbn [step_array32 tok_tag] in *; [| |reflexivity];
    unfold arr_known in H; repeat (apply orb_false_iff in H; destruct H as [H ?]);
    repeat match goal with E : (tag =? _) = false |- _ => rewrite E; clear E end; reflexivity.
Qed.

Lemma fold_array32_unknown : forall us m,
  Forall (fun t => arr_known (tok_tag t) = false) us ->
  fold_opt step_array32 us m = Some (wa_with_unk m (wa_unk m ++ ser_toks us)).
Proof.
  induction us as [|t us IH]; intros m H.
  - cbn [fold_opt]. unfold ser_toks. cbn [map concat]. rewrite app_nil_r. destruct m as [c bm o e f w b u]; reflexivity.
  - inversion H; subst. cbn [fold_opt]. rewrite step_array32_unknown by assumption.
    rewrite IH by assumption. unfold ser_toks. cbn [map concat]. fold (ser_toks us).
    destruct m as [c bm o e f w b u]. unfold wa_unknown, wa_with_unk.
    cbn [wa_cnt wa_bitmaps wa_offsets wa_elts wa_flags wa_eltwidth wa_bmelts wa_unk].
    rewrite <- app_assoc. reflexivity.
Qed.

Theorem parse_array32_ser_unknown : forall a us,
  wf_array32 a = true -> Forall canon us -> Forall (fun t => arr_known (tok_tag t) = false) us ->
  parse_array32 (ser_array32 (wa_with_unk a (ser_toks us))) = Some (wa_with_unk a (ser_toks us)).
Proof.
  intros a us H Hc Hk.
  assert (Hu : wa_unk a = []).
  { unfold wf_array32 in H. repeat (apply andb_true_iff in H; destruct H as [H ?]).
    match goal with Hn : nil_bytes (wa_unk a) = true |- _ => apply nil_bytes_nil in Hn; exact Hn end. }
  unfold parse_array32, parse_array32_into, ser_array32.
  replace (toks_array32 (wa_with_unk a (ser_toks us))) with (toks_array32 a) by (destruct a as [c bm o e f w b u]; reflexivity).
  replace (wa_unk (wa_with_unk a (ser_toks us))) with (ser_toks us) by reflexivity.
  rewrite <- ser_toks_app.
  rewrite tokenize_ser_len by (apply Forall_app; split; [apply canon_toks_array32; exact H|exact Hc]).
  rewrite fold_opt_app, (fold_toks_array32 a H), (fold_array32_unknown us a Hk), Hu. reflexivity.
Qed.

(* ---- end to end: build -> Marshal (bytes) -> Unmarshal -> the same sparse map ---------- *)
Lemma base_init_lengths : forall b ty idx vs,
  ascending idx = true -> idx_ok idx -> length vs = length idx ->
  Forall (value_ok (effective b ty)) vs ->
  (idx <> [] \/ Elts (arr b) = []) ->
  forall a e, base_init b ty idx vs = Val ({| arr := a; enc := e |}, None) ->
  length (Offsets a) = length (Bitmaps a).
Proof.
  intros b ty idx vs Hasc Hok Hlen Hvs Hne a e E.
  destruct (base_init_ok b ty idx vs Hasc Hok Hlen Hvs Hne) as (a' & E' & Hb & _).
  rewrite E' in E. injection E as <- _. eapply built_lengths. exact Hb.
Qed.

Theorem typed_array_survives_bytes : forall k idx zs,
  ascending idx = true -> idx_ok idx -> length zs = length idx -> Forall (int_ok k) zs ->
  elts_fit [k] idx ->
  exists b, new_typed k idx zs = Val (Built b) /\
    sparse_map_typed k b idx zs /\
    blen (marshal_array b) = size_array32 (wire_of_array32 (arr b)) /\
    unmarshal_typed (marshal_array b) = Some b /\
    unmarshal_generic [k] (marshal_array b) = Some {| arr := arr b; enc := Some [k] |} /\
    (forall i, base_get {| arr := arr b; enc := Some [k] |} i = generic_of_typed (typed_get k (arr b) i)).
Proof.
  intros k idx zs Hasc Hok Hlen Hzs Hfit.
  destruct (typed_array_sparse_map k idx zs Hasc Hok Hlen Hzs Hfit) as (b & E & Henc & _ & Hsp).
  pose proof (typed_array_wire_ok k idx zs b Hasc Hok Hlen Hzs Hfit E) as Hw.
  assert (HL : length (Offsets (arr b)) = length (Bitmaps (arr b))).
  { unfold new_typed in E.
    destruct (base_init empty_base [k] idx (map (fun z => [z]) zs)) as [[b' [e|]]|] eqn:Eb;
      cbn [finish] in E; try discriminate.
    injection E as ->. destruct b as [a e]. cbn [arr].
    eapply (base_init_lengths empty_base [k] idx (map (fun z => [z]) zs)); try eassumption.
    - rewrite map_length. assumption.
    - rewrite Forall_map. eapply Forall_impl; [|exact Hzs]. intros z. apply value_ok_scalar.
    - right. reflexivity. }
  exists b. split; [exact E|]. split; [exact Hsp|]. split; [apply marshal_array_size|].
  destruct (wire_roundtrip b [k] k Hw) as (R1 & _ & _ & _).
  split; [apply R1; exact Henc|].
  rewrite (unmarshal_marshal_generic [k] b Hw). split; [reflexivity|].
  intro i. apply generic_eq_typed. exact HL.
Qed.

Theorem generic_array_survives_bytes : forall ty idx vs,
  ascending idx = true -> idx_ok idx -> length vs = length idx -> Forall (value_ok ty) vs ->
  elts_fit ty idx -> idx <> [] ->
  exists b, new_generic ty idx vs = Val (Built b) /\
    sparse_map_generic ty b idx vs /\
    blen (marshal_array b) = size_array32 (wire_of_array32 (arr b)) /\
    unmarshal_generic ty (marshal_array b) = Some b /\
    unmarshal_typed (marshal_array b) = Some {| arr := arr b; enc := None |}.
Proof.
  intros ty idx vs Hasc Hok Hlen Hvs Hfit Hne.
  destruct (generic_array_sparse_map ty idx vs Hasc Hok Hlen Hvs Hfit) as (b & E & Henc & _ & Hsp & _).
  pose proof (generic_array_wire_ok ty idx vs b Hasc Hok Hlen Hvs Hfit E) as Hw.
  exists b. split; [exact E|]. split; [apply Hsp; exact Hne|]. split; [apply marshal_array_size|].
  destruct (wire_roundtrip b ty U8 Hw) as (_ & R2 & _ & _).
  split.
  - apply R2. rewrite Henc. destruct idx; [congruence|reflexivity].
  - rewrite (unmarshal_marshal_typed b Hw). reflexivity.
Qed.

(* ---- whatever the input, the fields the reader yields fit their Go types --------------- *)
Lemma dec_var_bound : forall f shift acc b v r,
  acc < 2 ^ shift -> shift + 7 * N.of_nat f = 70 ->
  dec_var f shift acc b = Some (v, r) -> v < two64.
Proof.
  induction f as [|f IH]; intros shift acc b v r Hacc Hsh H; [discriminate|].
  cbn [dec_var] in H. destruct b as [|x b']; [discriminate|].
  pose proof (to_N_lt_256 x) as Hx.
  destruct f as [|f'].
  - assert (shift = 63) by lia. subst shift.
    destruct (N.ltb_spec (Byte.to_N x) 2); [|discriminate]. injection H as <- _.
    change (2 ^ 63) with 9223372036854775808 in *. unfold two64. nia.
  - destruct (N.ltb_spec (Byte.to_N x) 128).
    + injection H as <- _. assert (Hs : shift <= 56) by lia.
      assert (Hp : 2 ^ shift <= 2 ^ 56) by (apply N.pow_le_mono_r; lia).
      change (2 ^ 56) with 72057594037927936 in Hp. unfold two64. nia.
    + apply IH in H; [exact H| |lia]. rewrite pow2_7. nia.
Qed.

Lemma decode_varint_bound : forall b v r, decode_varint b = Some (v, r) -> v < two64.
Proof.
  intros b v r H. unfold decode_varint in H. eapply dec_var_bound; [| |exact H].
  - change (2 ^ 0) with 1. lia.
  - reflexivity.
Qed.

Lemma parse_packed_bound : forall fuel b vs,
  parse_packed fuel b = Some vs -> forallb u64_ok vs = true.
Proof.
  induction fuel as [|f IH]; intros b vs H.
  - destruct b; cbn [parse_packed] in H; [injection H as <-; reflexivity|discriminate].
  - destruct b as [|x b']; cbn [parse_packed] in H; [injection H as <-; reflexivity|].
    destruct (decode_varint (x :: b')) as [[v r]|] eqn:Ed; [|discriminate].
    destruct (parse_packed f r) as [vs'|] eqn:Ep; [|discriminate]. injection H as <-.
    cbn [forallb]. rewrite (IH _ _ Ep). apply decode_varint_bound in Ed.
    unfold u64_ok. apply N.ltb_lt in Ed. rewrite Ed. reflexivity.
Qed.

Lemma unpack_bound : forall p vs, unpack p = Some vs -> forallb u64_ok vs = true.
Proof. intros p vs H. unfold unpack in H. eapply parse_packed_bound. exact H. Qed.

Lemma int32_of_u64_ok : forall x, int32_ok (int32_of_u64 x) = true.
Proof.
  intro x. unfold int32_ok, int32_of_u64. unfold two32, two31.
  assert (x mod 4294967296 < 4294967296) by (apply N.mod_lt; lia).
  destruct (N.ltb_spec (x mod 4294967296) 2147483648); lia.
Qed.

Lemma uint32_of_u64_ok : forall x, u32_ok (uint32_of_u64 x) = true.
Proof.
  intro x. unfold u32_ok, uint32_of_u64, two32. apply N.ltb_lt. apply N.mod_lt. lia.
Qed.

Lemma forallb_int32_of_u64 : forall vs, forallb int32_ok (map int32_of_u64 vs) = true.
Proof.
  induction vs as [|v vs IH]; [reflexivity|]. cbn [map forallb]. rewrite int32_of_u64_ok, IH. reflexivity.
Qed.

Definition tok_fits (t : tok) : Prop :=
  match t with TVar _ v _ => v < two64 | _ => True end.

Lemma read_field_fits : forall tag wire b t rest,
  read_field tag wire b = Some (t, rest) -> tok_fits t.
Proof.
  intros tag wire b t rest H. unfold read_field in H.
  destruct (wire =? 0).
  { destruct (decode_varint b) as [[v r]|] eqn:Ed; [|discriminate]. injection H as <- _.
    cbn [tok_fits]. eapply decode_varint_bound. exact Ed. }
  destruct (wire =? 1).
  { destruct (Varint.take_exact 8%nat b) as [[raw r]|]; [|discriminate]. injection H as <- _. exact I. }
  destruct (wire =? 5).
  { destruct (Varint.take_exact 4%nat b) as [[raw r]|]; [|discriminate]. injection H as <- _. exact I. }
  destruct (wire =? 2).
  { destruct (decode_varint b) as [[m b1]|]; [|discriminate].
    destruct (take_N m b1) as [[p r]|]; [|discriminate]. injection H as <- _. exact I. }
  destruct (wire =? 3); [|discriminate].
  destruct (skip_group (S (length b)) 1 b); [|discriminate]. injection H as <- _. exact I.
Qed.

Lemma tokenize_fits : forall fuel b ts, tokenize fuel b = Some ts -> Forall tok_fits ts.
Proof.
  induction fuel as [|f IH]; intros b ts H.
  - destruct b; cbn [tokenize] in H; [injection H as <-; constructor|discriminate].
  - destruct b as [|x b']; cbn [tokenize] in H; [injection H as <-; constructor|].
    destruct (decode_varint (x :: b')) as [[y b1]|]; [|discriminate].
    destruct (y / 8 =? 0); [discriminate|].
    destruct (read_field (y / 8) (y mod 8) b1) as [[t rest]|] eqn:Er; [|discriminate].
    destruct (tokenize f rest) as [ts'|] eqn:Et; [|discriminate]. injection H as <-.
    constructor; [eapply read_field_fits; exact Er|eapply IH; exact Et].
Qed.

Lemma forallb_app_true : forall {A} (f : A -> bool) a b,
  forallb f a = true -> forallb f b = true -> forallb f (a ++ b) = true.
Proof. intros. rewrite forallb_app. rewrite H, H0. reflexivity. Qed.

Lemma step_bits_fits : forall m t m',
  tok_fits t -> fits_bits m = true -> step_bits m t = Some m' -> fits_bits m' = true.
Proof.
  intros [fl n ws rs unk] t m' Ht Hm H. unfold fits_bits in Hm.
  cbn [wb_flags wb_n wb_words wb_rank] in Hm.
  apply andb_true_iff in Hm. destruct Hm as [Hm Hr].
  apply andb_true_iff in Hm. destruct Hm as [Hm Hw].
  apply andb_true_iff in Hm. destruct Hm as [Hfl Hn].
  destruct t as [tag v raw|tag p raw|tag w raw]; cbn [step_bits] in H.
  - cbn [tok_fits] in Ht. apply N.ltb_lt in Ht. fold (u64_ok v) in Ht.
    destruct (tag =? 1); [|destruct (tag =? 10); [|destruct (tag =? 20); [|destruct (tag =? 30)]]];
      injection H as <-; unfold fits_bits, wb_add_words, wb_add_rank, wb_unknown;
      cbn [wb_flags wb_n wb_words wb_rank map];
      rewrite ?uint32_of_u64_ok, ?int32_of_u64_ok, ?Hfl, ?Hn, ?Hw, ?Hr; cbn [andb]; try reflexivity.
    + rewrite (forallb_app_true u64_ok ws [v] Hw); [reflexivity|]. cbn [forallb]. rewrite Ht. reflexivity.
    + rewrite (forallb_app_true int32_ok rs [int32_of_u64 v] Hr); [reflexivity|].
      cbn [forallb]. rewrite int32_of_u64_ok. reflexivity.
  - destruct (tag =? 20).
    { destruct (unpack p) as [vs|] eqn:Eu; [|discriminate]. injection H as <-.
      unfold fits_bits, wb_add_words. cbn [wb_flags wb_n wb_words wb_rank].
      rewrite Hfl, Hn, Hr, (forallb_app_true u64_ok ws vs Hw (unpack_bound p vs Eu)). reflexivity. }
    destruct (tag =? 30).
    { destruct (unpack p) as [vs|] eqn:Eu; [|discriminate]. injection H as <-.
      unfold fits_bits, wb_add_rank. cbn [wb_flags wb_n wb_words wb_rank].
      rewrite Hfl, Hn, Hw, (forallb_app_true int32_ok rs _ Hr (forallb_int32_of_u64 vs)). reflexivity. }
    injection H as <-. unfold fits_bits, wb_unknown. cbn [wb_flags wb_n wb_words wb_rank].
    rewrite Hfl, Hn, Hw, Hr. reflexivity.
  - injection H as <-. unfold fits_bits, wb_unknown. cbn [wb_flags wb_n wb_words wb_rank].
    rewrite Hfl, Hn, Hw, Hr. reflexivity.
Qed.

Lemma fold_bits_fits : forall ts m m',
  Forall tok_fits ts -> fits_bits m = true -> fold_opt step_bits ts m = Some m' -> fits_bits m' = true.
Proof.
  induction ts as [|t ts IH]; intros m m' Ht Hm H; cbn [fold_opt] in H.
  - injection H as <-. exact Hm.
  - inversion Ht; subst. destruct (step_bits m t) as [m1|] eqn:E; [|discriminate].
    eapply IH; [eassumption| |exact H]. eapply step_bits_fits; eassumption.
Qed.

Lemma parse_bits_into_fits : forall m b m',
  fits_bits m = true -> parse_bits_into m b = Some m' -> fits_bits m' = true.
Proof.
  intros m b m' Hm H. unfold parse_bits_into in H.
  destruct (tokenize (length b) b) as [ts|] eqn:Et; [|discriminate].
  eapply fold_bits_fits; [eapply tokenize_fits; exact Et|exact Hm|exact H].
Qed.

Lemma step_array32_fits : forall m t m',
  tok_fits t -> fits_array32 m = true -> step_array32 m t = Some m' -> fits_array32 m' = true.
Proof.
  intros [cnt bms offs elts fl ew bme unk] t m' Ht Hm H. unfold fits_array32 in Hm.
  cbn [wa_cnt wa_bitmaps wa_offsets wa_flags wa_eltwidth wa_bmelts] in Hm.
  apply andb_true_iff in Hm. destruct Hm as [Hm Hbme].
  apply andb_true_iff in Hm. destruct Hm as [Hm Hew].
  apply andb_true_iff in Hm. destruct Hm as [Hm Hfl].
  apply andb_true_iff in Hm. destruct Hm as [Hm Hoffs].
  apply andb_true_iff in Hm. destruct Hm as [Hcnt Hbms].
  destruct t as [tag v raw|tag p raw|tag w raw]; cbn [step_array32] in H.
  - cbn [tok_fits] in Ht. apply N.ltb_lt in Ht. fold (u64_ok v) in Ht.
    destruct (tag =? 1); [|destruct (tag =? 2); [|destruct (tag =? 3); [|destruct (tag =? 10); [|destruct (tag =? 20)]]]];
      injection H as <-; unfold fits_array32, wa_add_bitmaps, wa_add_offsets, wa_unknown;
      cbn [wa_cnt wa_bitmaps wa_offsets wa_flags wa_eltwidth wa_bmelts map];
      rewrite ?uint32_of_u64_ok, ?int32_of_u64_ok, ?Hcnt, ?Hbms, ?Hoffs, ?Hfl, ?Hew, ?Hbme; cbn [andb]; try reflexivity.
    + rewrite (forallb_app_true u64_ok bms [v] Hbms); [reflexivity|]. cbn [forallb]. rewrite Ht. reflexivity.
    + rewrite (forallb_app_true int32_ok offs [int32_of_u64 v] Hoffs); [reflexivity|].
      cbn [forallb]. rewrite int32_of_u64_ok. reflexivity.
  - destruct (tag =? 2).
    { destruct (unpack p) as [vs|] eqn:Eu; [|discriminate]. injection H as <-.
      unfold fits_array32, wa_add_bitmaps. cbn [wa_cnt wa_bitmaps wa_offsets wa_flags wa_eltwidth wa_bmelts].
      rewrite Hcnt, Hoffs, Hfl, Hew, Hbme, (forallb_app_true u64_ok bms vs Hbms (unpack_bound p vs Eu)). reflexivity. }
    destruct (tag =? 3).
    { destruct (unpack p) as [vs|] eqn:Eu; [|discriminate]. injection H as <-.
      unfold fits_array32, wa_add_offsets. cbn [wa_cnt wa_bitmaps wa_offsets wa_flags wa_eltwidth wa_bmelts].
      rewrite Hcnt, Hbms, Hfl, Hew, Hbme, (forallb_app_true int32_ok offs _ Hoffs (forallb_int32_of_u64 vs)). reflexivity. }
    destruct (tag =? 4).
    { injection H as <-. unfold fits_array32. cbn [wa_cnt wa_bitmaps wa_offsets wa_flags wa_eltwidth wa_bmelts].
      rewrite Hcnt, Hbms, Hoffs, Hfl, Hew, Hbme. reflexivity. }
    destruct (tag =? 30).
    { cbn [wa_bmelts] in H.
      destruct (parse_bits_into (or_empty_wbits bme) p) as [b'|] eqn:Eb; [|discriminate]. injection H as <-.
      unfold fits_array32. cbn [wa_cnt wa_bitmaps wa_offsets wa_flags wa_eltwidth wa_bmelts opt_all].
      rewrite Hcnt, Hbms, Hoffs, Hfl, Hew. cbn [andb].
      eapply parse_bits_into_fits; [|exact Eb]. destruct bme as [b0|]; [exact Hbme|reflexivity]. }
    injection H as <-. unfold fits_array32, wa_unknown. cbn [wa_cnt wa_bitmaps wa_offsets wa_flags wa_eltwidth wa_bmelts].
    rewrite Hcnt, Hbms, Hoffs, Hfl, Hew, Hbme. reflexivity.
  - injection H as <-. unfold fits_array32, wa_unknown. cbn [wa_cnt wa_bitmaps wa_offsets wa_flags wa_eltwidth wa_bmelts].
    rewrite Hcnt, Hbms, Hoffs, Hfl, Hew, Hbme. reflexivity.
Qed.

Lemma fold_array32_fits : forall ts m m',
  Forall tok_fits ts -> fits_array32 m = true -> fold_opt step_array32 ts m = Some m' -> fits_array32 m' = true.
Proof.
  induction ts as [|t ts IH]; intros m m' Ht Hm H; cbn [fold_opt] in H.
  - injection H as <-. exact Hm.
  - inversion Ht; subst. destruct (step_array32 m t) as [m1|] eqn:E; [|discriminate].
    eapply IH; [eassumption| |exact H]. eapply step_array32_fits; eassumption.
Qed.

Theorem parse_array32_fits : forall b a, parse_array32 b = Some a -> fits_array32 a = true.
Proof.
  intros b a H. unfold parse_array32, parse_array32_into in H.
  destruct (tokenize (length b) b) as [ts|] eqn:Et; [|discriminate].
  eapply (fold_array32_fits ts empty_warray a); [eapply tokenize_fits; exact Et|reflexivity|exact H].
Qed.

Theorem parse_array32_total_fits : forall b,
  (accepts_array32 b = true /\ exists a, parse_array32 b = Some a /\ fits_array32 a = true) \/
  (accepts_array32 b = false /\ parse_array32 b = None).
Proof.
  intro b. destruct (parse_array32_total b) as [[H [a E]]|H]; [left|right; exact H].
  split; [exact H|]. exists a. split; [exact E|eapply parse_array32_fits; exact E].
Qed.
