(* LegacyConvSimProofs.v - level by level: the queue loop of the conversion
   (LegacyConv.conv_loop) on the table written by the reference legacy writer
   (LegacyConv.old_levels) against today's builder (Model.build_levels false) on the
   same key subsets.

   A level of today's builder is a list of subsets; each of them is tagged with
   where the conversion finds it in the OLD table: [None] = it is an old node of
   its own (the next unused old id), [Some p] = it is the explicit empty-label leaf
   child the conversion re-inserts for old node p (inner AND leaf). *)
From Slim Require Import Base Keys KeysProofs ListFacts Model TrieInv BuildProofs AcceptProofs OrderProofs
     QueryProofs Stat StatProofs LegacyConv LegacyConvProofs.
From Coq Require Import Sorting.Sorted Sorting.Permutation ZifyNat ZifyBool.

Arguments Nat.div : simpl never.
Arguments Nat.modulo : simpl never.

Definition tagged := (option nat * subset)%type.

Fixpoint olds (lv : list tagged) : list subset :=
  match lv with
  | [] => []
  | (None, s) :: r => s :: olds r
  | (Some _, _) :: r => olds r
  end.

Fixpoint n_none (tags : list (option nat)) : nat :=
  match tags with [] => 0 | None :: r => S (n_none r) | Some _ :: r => n_none r end.
Fixpoint n_some (tags : list (option nat)) : nat :=
  match tags with [] => 0 | None :: r => n_some r | Some _ :: r => S (n_some r) end.

(* the queue entries of a level; x = old id of the first untagged subset *)
Fixpoint celts_of (ot : old_trie) (x : nat) (tags : list (option nat)) : list celt :=
  match tags with
  | [] => []
  | Some p :: r => {| ce_old := p; ce_step := 0; ce_leafonly := true |} :: celts_of ot x r
  | None :: r => {| ce_old := x; ce_step := conv_step_of (old_at ot x); ce_leafonly := false |}
                   :: celts_of ot (S x) r
  end.

(* the node views of a level of today's builder (cf. Model.assemble) *)
Fixpoint views_of (ds : list desc) (id cid lord : nat) : list nview :=
  match ds with
  | [] => []
  | DLeaf tail _ :: r => VLeaf id lord tail :: views_of r (S id) cid (S lord)
  | DInner big step pfx labels kids :: r =>
      VInner id big step pfx cid labels :: views_of r (S id) (cid + length kids) lord
  end.

Definition view_of (t : tree) : nview :=
  match t with
  | Leaf id ord tail _ => VLeaf id ord tail
  | Inner id big step pfx fc ch => VInner id big step pfx fc (map fst ch)
  end.

(* what the conversion sees at a queue entry, against what today's builder made of
   the subset *)
Definition node_rel (ot : old_trie) (x : nat) (tg : option nat) (d : desc) : Prop :=
  match tg with
  | Some p => exists i, d = DLeaf None i /\ on_leaf (old_at ot p) = Some i
  | None =>
      let n := old_at ot x in
      match d with
      | DLeaf tail i => tail = None /\ on_bm n = [] /\ on_leaf n = Some i
      | DInner big st pfx labels kids =>
          big = false /\ pfx = None /\ on_bm n <> [] /\ conv_step_of n = st /\
          labels = (if is_some (on_leaf n) then [0] else []) ++ map S (on_bm n) /\
          length kids = length labels
      end
  end.

Definition next_x (x : nat) (tg : option nat) : nat := match tg with None => S x | Some _ => x end.

Fixpoint lv_rel (ot : old_trie) (x : nat) (tags : list (option nat)) (ds : list desc) : Prop :=
  match tags, ds with
  | [], [] => True
  | tg :: tr, d :: dr => node_rel ot x tg d /\ lv_rel ot (next_x x tg) tr dr
  | _, _ => False
  end.

Definition kid_tags (x : nat) (d : desc) : list (option nat) :=
  match d with
  | DLeaf _ _ => []
  | DInner _ _ _ labels _ => map (fun lb => if lb =? 0 then Some x else None) labels
  end.

Fixpoint next_tags (x : nat) (tags : list (option nat)) (ds : list desc) : list (option nat) :=
  match tags, ds with
  | tg :: tr, d :: dr =>
      match tg with
      | Some _ => next_tags x tr dr
      | None => kid_tags x d ++ next_tags (S x) tr dr
      end
  | _, _ => []
  end.

(* ---------- small facts ---------- *)
Lemma old_at_nth ot i n : nth_error ot i = Some n -> old_at ot i = n.
Proof. intros H. unfold old_at. apply nth_error_nth. exact H. Qed.

Lemma celts_of_app ot : forall a b x,
  celts_of ot x (a ++ b) = celts_of ot x a ++ celts_of ot (x + n_none a) b.
Proof.
  induction a as [|[p|] a IH]; intros b x; cbn [app celts_of n_none].
  - rewrite Nat.add_0_r. reflexivity.
  - rewrite IH. reflexivity.
  - rewrite IH. replace (S x + n_none a) with (x + S (n_none a)) by lia. reflexivity.
Qed.

Lemma celts_of_length ot : forall a x, length (celts_of ot x a) = length a.
Proof. induction a as [|[p|] a IH]; intros x; cbn [celts_of length]; [reflexivity|rewrite IH; reflexivity..]. Qed.

Lemma n_none_app a b : n_none (a ++ b) = n_none a + n_none b.
Proof. induction a as [|[p|] a IH]; cbn [app n_none]; lia. Qed.

Lemma n_some_app a b : n_some (a ++ b) = n_some a + n_some b.
Proof. induction a as [|[p|] a IH]; cbn [app n_some]; lia. Qed.

Lemma n_none_some tags : length tags = n_none tags + n_some tags.
Proof. induction tags as [|[p|] a IH]; cbn [length n_none n_some]; lia. Qed.

Lemma celts_of_nones ot : forall (l : list nat) y,
  celts_of ot y (map (fun _ : nat => @None nat) l) =
  map (fun j => {| ce_old := y + j; ce_step := conv_step_of (old_at ot (y + j)); ce_leafonly := false |})
      (List.seq 0 (length l)).
Proof.
  induction l as [|a l IH]; intros y; [reflexivity|].
  cbn [map celts_of length List.seq]. rewrite Nat.add_0_r. f_equal.
  rewrite IH, <- seq_shift, map_map. apply map_ext. intros j.
  replace (y + S j) with (S y + j) by lia. reflexivity.
Qed.

Lemma n_none_nones (l : list nat) : n_none (map (fun _ : nat => @None nat) l) = length l.
Proof. induction l as [|a l IH]; cbn [map n_none length]; [reflexivity|rewrite IH; reflexivity]. Qed.

Lemma n_some_nones (l : list nat) : n_some (map (fun _ : nat => @None nat) l) = 0.
Proof. induction l as [|a l IH]; cbn [map n_some]; [reflexivity|exact IH]. Qed.

Lemma kid_tags_split x (b : bool) (bm : list nat) :
  map (fun lb => if lb =? 0 then Some x else None) ((if b then [0] else []) ++ map S bm) =
  (if b then [Some x] else []) ++ map (fun _ : nat => @None nat) bm.
Proof. rewrite map_app, map_map. f_equal. destruct b; reflexivity. Qed.

Lemma bind_ok_eta {A} (r : res (list nview * A)) :
  (do (vs, lf) <- r; Ok (vs, lf)) = r.
Proof. destruct r as [[vs lf]|e]; reflexivity. Qed.

(* ====================================================================== *)
(* One level of the queue loop                                             *)
(* ====================================================================== *)
Lemma conv_level ot : forall tags ds x nxt newid nextold lord fuel,
  lv_rel ot x tags ds ->
  conv_loop (length tags + fuel) ot (celts_of ot x tags ++ nxt) newid nextold lord =
  (do (vs, lf) <- conv_loop fuel ot (nxt ++ celts_of ot nextold (next_tags x tags ds))
                    (newid + length tags) (nextold + n_none (next_tags x tags ds))
                    (lord + length (flat_map leaf_idx_of ds));
   Ok (views_of ds newid (newid + length tags + length nxt) lord ++ vs, flat_map leaf_idx_of ds ++ lf)).
Proof.
  induction tags as [|tg tr IH]; intros ds x nxt newid nextold lord fuel Hrel; destruct ds as [|d dr]; cbn [lv_rel] in Hrel; try contradiction.
  - cbn [celts_of app length next_tags n_none flat_map views_of]. rewrite app_nil_r, !Nat.add_0_r.
    cbn [Nat.add]. symmetry. apply bind_ok_eta.
  - destruct Hrel as [Hn Hrel].
    destruct tg as [p|]; cbn [node_rel next_x] in Hn, Hrel.
    + (* the re-inserted empty-label leaf child *)
      destruct Hn as (i & -> & Hl).
      cbn [celts_of app length Nat.add conv_loop]. unfold conv_node. cbn [ce_leafonly ce_old orb]. rewrite Hl. cbn [bind].
      rewrite (IH dr x nxt (S newid) nextold (S lord) fuel Hrel).
      cbn [next_tags flat_map leaf_idx_of app length views_of].
      replace (S newid + length tr) with (newid + S (length tr)) by lia.
      replace (S lord + length (flat_map leaf_idx_of dr)) with (lord + S (length (flat_map leaf_idx_of dr))) by lia.
      destruct (conv_loop fuel ot _ _ _ _) as [[vs lf]|e]; reflexivity.
    + destruct d as [tail i|big st pfx labels kids].
      * (* an old leaf *)
        destruct Hn as (-> & Hbm & Hl).
        cbn [celts_of app length Nat.add conv_loop]. unfold conv_node. cbn [ce_leafonly ce_old orb]. rewrite Hbm, Hl.
        cbn [is_nil is_some negb andb bind].
        rewrite (IH dr (S x) nxt (S newid) nextold (S lord) fuel Hrel).
        cbn [next_tags kid_tags flat_map leaf_idx_of app length views_of].
        replace (S newid + length tr) with (newid + S (length tr)) by lia.
        replace (S lord + length (flat_map leaf_idx_of dr)) with (lord + S (length (flat_map leaf_idx_of dr))) by lia.
        destruct (conv_loop fuel ot _ _ _ _) as [[vs lf]|e]; reflexivity.
      * (* an old inner node *)
        destruct Hn as (-> & -> & Hbm & Hst & Hlab & Hlen).
        cbn [celts_of app length Nat.add conv_loop]. unfold conv_node. cbn [ce_leafonly ce_old ce_step orb].
        assert (is_nil (on_bm (old_at ot x)) = false) as Hnil
          by (destruct (on_bm (old_at ot x)); [congruence|reflexivity]).
        rewrite Hnil. cbn [negb andb bind]. clear Hbm Hnil.
        set (n := old_at ot x) in *.
        set (own := if is_some (on_leaf n) then [{| ce_old := x; ce_step := 0; ce_leafonly := true |}] else []).
        set (kc := map (fun j => {| ce_old := nextold + j; ce_step := conv_step_of (old_at ot (nextold + j)); ce_leafonly := false |})
                       (List.seq 0 (length (on_bm n)))).
        assert (celts_of ot nextold (kid_tags x (DInner false st None labels kids)) = own ++ kc /\
                n_none (kid_tags x (DInner false st None labels kids)) = length (on_bm n) /\
                length (own ++ kc) = length kids) as (Hk1 & Hk2 & Hk3).
        { cbn [kid_tags]. rewrite Hlab, kid_tags_split. rewrite celts_of_app, n_none_app, n_none_nones, celts_of_nones.
          rewrite Hlen, Hlab. unfold own, kc. rewrite !app_length, !map_length, seq_length.
          destruct (is_some (on_leaf n)); cbn [celts_of n_none app length]; rewrite ?Nat.add_0_r; auto. }
        rewrite <- app_assoc.
        rewrite (IH dr (S x) (nxt ++ own ++ kc) (S newid) (nextold + length (on_bm n)) lord fuel Hrel).
        cbn [next_tags flat_map leaf_idx_of app views_of].
        rewrite celts_of_app, n_none_app, Hk1, Hk2, <- !app_assoc, Hst, <- Hlab.
        rewrite !app_length, celts_of_length. rewrite app_length in Hk3.
        replace (S newid + length tr) with (newid + S (length tr)) by lia.
        replace (nextold + length (on_bm n) + n_none (next_tags (S x) tr dr))
          with (nextold + (length (on_bm n) + n_none (next_tags (S x) tr dr))) by lia.
        replace (S newid + (length tr + length nxt)) with (newid + S (length tr) + length nxt) by lia.
        replace (S (newid + (length tr + length nxt))) with (newid + S (length tr) + length nxt) by lia.
        replace (newid + S (length tr) + (length nxt + (length own + length kc)))
          with (newid + S (length tr) + length nxt + length kids) by lia.
        destruct (conv_loop fuel ot _ _ _ _) as [[vs lf]|e]; reflexivity.
Qed.

(* ====================================================================== *)
(* One level: old writer, today's builder and the tags of the next level   *)
(* ====================================================================== *)
Definition sub_ok (M f : nat) (s : subset) : Prop :=
  SubInv s /\ all_kept s /\ bounded M s /\ s_from s <= M /\
  (2 <= length (s_ents s) -> M + 2 <= f + s_from s).

Definition tag_ok (ot : old_trie) (t : tagged) : Prop :=
  match fst t with
  | Some p => exists e, s_ents (snd t) = [e] /\ on_leaf (old_at ot p) = Some (e_idx e)
  | None => True
  end.

Fixpoint next_lv (x : nat) (lv : list tagged) (ds : list desc) : list tagged :=
  match lv, ds with
  | (tg, _) :: tr, d :: dr =>
      match tg with
      | Some _ => next_lv x tr dr
      | None => combine (kid_tags x d) (kids_of d) ++ next_lv (S x) tr dr
      end
  | _, _ => []
  end.

Lemma olds_app a b : olds (a ++ b) = olds a ++ olds b.
Proof. induction a as [|[[p|] s] a IH]; cbn [app olds]; [reflexivity|exact IH|rewrite IH; reflexivity]. Qed.

Lemma combine_app {A B} : forall (a b : list A) (c d : list B),
  length a = length c -> combine (a ++ b) (c ++ d) = combine a c ++ combine b d.
Proof.
  induction a as [|x a IH]; intros b [|y c] d H; cbn in H; try discriminate; [reflexivity|].
  cbn [app combine]. rewrite IH by lia. reflexivity.
Qed.

Lemma olds_nones : forall (l : list nat) (ks : list subset), length l = length ks ->
  olds (combine (map (fun _ : nat => @None nat) l) ks) = ks.
Proof.
  induction l as [|a l IH]; intros [|k ks] H; cbn in H; try discriminate; [reflexivity|].
  cbn [map combine olds]. rewrite IH by lia. reflexivity.
Qed.

Lemma nones_fst : forall (l : list nat) (ks : list subset),
  Forall (fun t : tagged => fst t = None) (combine (map (fun _ : nat => @None nat) l) ks).
Proof.
  induction l as [|a l IH]; intros [|k ks]; cbn [map combine]; constructor; [reflexivity|apply IH].
Qed.

Lemma n_none_olds lv : n_none (map fst lv) = length (olds lv).
Proof. induction lv as [|[[p|] s] lv IH]; cbn [map fst n_none olds length]; [reflexivity|exact IH|rewrite IH; reflexivity]. Qed.

Lemma kid_sub_ok M f s labels kids k :
  sub_ok M (S f) s -> InnerFacts optsT s false labels kids -> In k kids -> sub_ok M f k /\ 1 <= f.
Proof.
  intros (I & K & B & HM & HF) F Hk.
  destruct (kids_facts optsT M (limT M) s false labels kids k I B F Hk) as (Ik & Bk & _ & Hfr & HkM).
  pose proof (HF (if_two _ _ _ _ _ F)) as Hfu.
  split; [|lia].
  split; [exact Ik|]. split.
  { rewrite (if_kids _ _ _ _ _ F) in Hk. apply in_map_iff in Hk. destruct Hk as (lb & <- & _).
    unfold all_kept in *. cbn [s_ents]. rewrite Forall_forall in *. intros e He. apply filter_In in He. apply K. tauto. }
  split; [exact Bk|]. split; [exact HkM|]. intros H2. specialize (Hfr H2). lia.
Qed.

Lemma old_fits_cons n ns : old_fits (n :: ns) = true ->
  (N.of_nat (on_step n) <= 65535)%N /\ old_fits ns = true.
Proof.
  unfold old_fits. cbn [forallb]. intros H. apply andb_true_iff in H. destruct H as [H1 H2].
  split; [apply N.leb_le; exact H1|exact H2].
Qed.

Lemma max_step_ge : (65534 <= max_step)%N.
Proof. vm_compute. discriminate. Qed.

Lemma leaf_tail_legacy e f : leaf_tail legacy_opts e f = None.
Proof. reflexivity. Qed.

Lemma level_sim ls ot M f : forall lv x ns okids,
  Forall (fun t => sub_ok M (S f) (snd t)) lv -> Forall (tag_ok ot) lv ->
  old_level ls (olds lv) = Ok (ns, okids) ->
  (forall j, j < length ns -> nth_error ot (x + j) = nth_error ns j) ->
  old_fits ns = true ->
  exists ds,
    process_level legacy_opts false (map snd lv) = Ok (ds, false) /\
    lv_rel ot x (map fst lv) ds /\
    olds (next_lv x lv ds) = okids /\
    map fst (next_lv x lv ds) = next_tags x (map fst lv) ds /\
    map snd (next_lv x lv ds) = flat_map kids_of ds /\
    Forall (fun t => sub_ok M f (snd t)) (next_lv x lv ds) /\
    Forall (tag_ok ot) (next_lv x lv ds) /\
    (next_lv x lv ds <> [] -> 1 <= f) /\
    length ns = length (olds lv).
Proof.
  induction lv as [|[tg s] lv IH]; intros x ns okids Hok Htag Hold Hslice Hfit.
  - cbn in Hold. inversion Hold; subst. exists []. cbn. repeat split; try constructor. congruence.
  - inversion Hok as [|? ? Hs Hok']; subst. inversion Htag as [|? ? Ht Htag']; subst.
    cbn [snd] in Hs. pose proof Hs as Hsok. destruct Hs as (I & K & B & HM & HF).
    destruct tg as [p|].
    + (* the re-inserted leaf child *)
      unfold tag_ok in Ht. cbn [fst snd] in Ht. destruct Ht as (e & Es & Hl).
      cbn [olds] in Hold.
      destruct (IH x ns okids Hok' Htag' Hold Hslice Hfit) as (ds & Hp & Hrel & Ho & Hf1 & Hs1 & Hsub & Htg & Hne & Hlen).
      exists (DLeaf None (e_idx e) :: ds).
      assert (process_subset legacy_opts false s = Ok (DLeaf None (e_idx e), false)) as Hps
        by (unfold process_subset; rewrite Es; reflexivity).
      cbn [map fst snd process_level]. rewrite Hps. cbn [bind]. rewrite Hp. cbn [bind].
      split; [reflexivity|]. split.
      { cbn [lv_rel node_rel next_x]. split; [exists (e_idx e); auto|exact Hrel]. }
      cbn [next_lv next_tags flat_map kids_of app olds]. auto 10.
    + cbn [olds old_level] in Hold. unfold bind in Hold.
      destruct (old_process ls s) as [[n k]|] eqn:Eop; [|discriminate].
      destruct (old_level ls (olds lv)) as [[ns' ks']|] eqn:Eol; [|discriminate].
      inversion Hold; subst ns okids. clear Hold.
      apply old_fits_cons in Hfit. destruct Hfit as [Hfn Hfit'].
      assert (nth_error ot x = Some n) as Hat0.
      { specialize (Hslice 0 ltac:(cbn; lia)). rewrite Nat.add_0_r in Hslice. exact Hslice. }
      assert (forall j, j < length ns' -> nth_error ot (S x + j) = nth_error ns' j) as Hslice'.
      { intros j Hj. specialize (Hslice (S j) ltac:(cbn; lia)). replace (x + S j) with (S x + j) in Hslice by lia. exact Hslice. }
      destruct (IH (S x) ns' ks' Hok' Htag' eq_refl Hslice' Hfit') as (ds & Hp & Hrel & Ho & Hf1 & Hs1 & Hsub & Htg & Hne & Hlen).
      destruct (s_ents s) as [|e0 [|e1 r]] eqn:Es.
      * destruct (si_kept s I) as (e & He & _). rewrite Es in He. destruct He.
      * (* an old leaf *)
        unfold old_process in Eop. rewrite Es in Eop. inversion Eop; subst n k. clear Eop.
        pose proof (old_at_nth _ _ _ Hat0) as Hat.
        exists (DLeaf None (e_idx e0) :: ds).
        assert (process_subset legacy_opts false s = Ok (DLeaf None (e_idx e0), false)) as Hps
          by (unfold process_subset; rewrite Es; reflexivity).
        cbn [map fst snd process_level]. rewrite Hps. cbn [bind]. rewrite Hp. cbn [bind].
        split; [reflexivity|]. split.
        { cbn [lv_rel node_rel next_x]. rewrite Hat. cbn [on_bm on_leaf]. auto. }
        cbn [next_lv next_tags kid_tags kids_of combine flat_map app olds length]. rewrite Hlen. auto 10.
      * (* an old inner node *)
        rewrite (node_old_process ls s I e0 e1 r Es) in Eop. inversion Eop; subst n k. clear Eop.
        pose proof (old_at_nth _ _ _ Hat0) as Hat.
        pose proof (node_facts s I K e0 e1 r Es) as F.
        destruct (node_step s I e0 e1 r Es) as [Hst Hstep].
        assert ((max_step <? N.of_nat (sub_ws s - s_from s))%N = false) as Hlim.
        { apply N.ltb_ge. pose proof max_step_ge. destruct Hstep as [H0|H0]; rewrite H0 in Hfn; [|lia].
          unfold conv_step_of in Hst. rewrite H0 in Hst. lia. }
        pose proof (node_process s I K e0 e1 r Es) as Hps. rewrite Hlim in Hps.
        set (labels := node_labels s e0 e1 r) in *. set (kids := node_kids s e0 e1 r) in *.
        set (d := DInner false (sub_ws s - s_from s) None labels kids).
        exists (d :: ds).
        cbn [map fst snd process_level]. rewrite Hps. cbn [bind]. rewrite Hp. cbn [bind].
        split; [reflexivity|].
        assert (length kids = length labels) as Hkl.
        { rewrite (if_kids _ _ _ _ _ F). apply map_length. }
        assert (labels = (if node_ends s e0 then [0] else []) ++ map S (node_bm s e0 e1 r)) as Hlabs by reflexivity.
        assert (kids = (if node_ends s e0 then [{| s_ents := [e0]; s_from := sub_ws s |}] else []) ++ node_okids s e0 e1 r) as Hkids by reflexivity.
        assert (length (node_okids s e0 e1 r) = length (node_bm s e0 e1 r)) as Hokl by apply map_length.
        assert (kid_tags x d = (if node_ends s e0 then [Some x] else []) ++ map (fun _ : nat => @None nat) (node_bm s e0 e1 r)) as Hkt.
        { unfold d. cbn [kid_tags]. rewrite Hlabs. apply kid_tags_split. }
        assert (length (kid_tags x d) = length kids) as Hktl.
        { unfold d. cbn [kid_tags]. rewrite map_length. lia. }
        assert (combine (kid_tags x d) kids =
                (if node_ends s e0 then [(Some x, {| s_ents := [e0]; s_from := sub_ws s |})] else []) ++
                combine (map (fun _ : nat => @None nat) (node_bm s e0 e1 r)) (node_okids s e0 e1 r)) as Hcomb.
        { rewrite Hkt, Hkids. rewrite combine_app by (destruct (node_ends s e0); reflexivity).
          destruct (node_ends s e0); reflexivity. }
        split.
        { cbn [lv_rel node_rel next_x]. rewrite Hat. split; [|exact Hrel].
          unfold d. cbn [node_old on_bm on_leaf on_step].
          split; [reflexivity|]. split; [reflexivity|]. split; [apply node_bm_nonempty|].
          split; [exact Hst|]. split; [|exact Hkl].
          rewrite Hlabs. unfold node_old. cbn [on_leaf on_bm]. destruct (node_ends s e0); reflexivity. }
        cbn [next_lv next_tags flat_map kids_of olds length]. fold d.
        change (kids_of d) with kids.
        split.
        { rewrite olds_app, Ho. f_equal. rewrite Hcomb, olds_app, olds_nones by lia.
          destruct (node_ends s e0); reflexivity. }
        split.
        { rewrite map_app, Hf1. f_equal. apply map_fst_combine. exact Hktl. }
        split.
        { rewrite map_app, Hs1. f_equal. apply map_snd_combine. exact Hktl. }
        split.
        { apply Forall_app. split; [|exact Hsub]. rewrite Forall_forall. intros t Hin.
          destruct t as [tg k]. apply in_combine_r in Hin. cbn [snd].
          apply (kid_sub_ok M f s labels kids k Hsok F Hin). }
        split.
        { apply Forall_app. split; [|exact Htg]. rewrite Hcomb. apply Forall_app. split.
          - destruct (node_ends s e0) eqn:Ee; constructor; [|constructor].
            unfold tag_ok. cbn [fst snd]. exists e0. split; [reflexivity|].
            rewrite Hat. unfold node_old. cbn [on_leaf]. rewrite Ee. reflexivity.
          - eapply Forall_impl; [|apply nones_fst]. intros t Ht0. unfold tag_ok. rewrite Ht0. exact Logic.I. }
        split.
        { intros _. specialize (HF ltac:(cbn; lia)). lia. }
        rewrite Hlen. reflexivity.
Qed.

(* ====================================================================== *)
(* All levels                                                              *)
(* ====================================================================== *)
Lemma old_levels_nil f ls : old_levels f ls [] = Ok [].
Proof. destruct f; reflexivity. Qed.

Lemma old_levels_unfold f ls ss :
  old_levels (S f) ls ss =
  (do (ns, kids) <- old_level ls ss; do rest <- old_levels f ls kids; Ok (ns ++ rest)).
Proof. destruct ss; [cbn; rewrite old_levels_nil; reflexivity|reflexivity]. Qed.

Lemma n_some_next ot : forall tags ds x, lv_rel ot x tags ds -> n_some (next_tags x tags ds) <= n_none tags.
Proof.
  induction tags as [|tg tr IH]; intros ds x H; destruct ds as [|d dr]; cbn [lv_rel] in H; try contradiction; [cbn; lia|].
  destruct H as [Hn H]. destruct tg as [p|]; cbn [next_x] in H; cbn [next_tags n_none].
  - apply IH. exact H.
  - rewrite n_some_app. specialize (IH dr (S x) H).
    destruct d as [tail i|big st pfx labels kids]; cbn [kid_tags n_some]; [lia|].
    cbn [node_rel] in Hn. destruct Hn as (_ & _ & _ & _ & -> & _).
    rewrite kid_tags_split, n_some_app, n_some_nones. destruct (is_some _); cbn [n_some]; lia.
Qed.

Lemma view_assemble o : forall ss ds, Forall2 (produced o) ss ds ->
  forall id cid lord forest, length forest = length (flat_map kids_of ds) ->
  map view_of (assemble ds id cid lord forest) = views_of ds id cid lord.
Proof.
  induction 1 as [|s d ss ds Hsd _ IH]; intros id cid lord forest Hlen; [reflexivity|].
  destruct d as [tail eidx|big step pfx labels kidsd]; cbn [assemble views_of map view_of].
  - f_equal. apply IH. exact Hlen.
  - cbn [flat_map kids_of] in Hlen. rewrite app_length in Hlen.
    pose proof (produced_inner_lengths _ _ _ _ _ _ _ Hsd) as L2.
    f_equal.
    + f_equal. apply map_fst_combine. rewrite firstn_length. lia.
    + apply IH. rewrite skipn_length. lia.
Qed.

Lemma old_fits_app a b : old_fits (a ++ b) = true -> old_fits a = true /\ old_fits b = true.
Proof. unfold old_fits. rewrite forallb_app. intros H. apply andb_true_iff in H. exact H. Qed.

Lemma build_levels_unfold f o ib base lbase ss : ss <> [] ->
  build_levels (S f) o ib base lbase ss =
  (do (ds, b) <- process_level o ib ss;
   let lidx := flat_map leaf_idx_of ds in
   let cbase := base + length ss in
   do (forest, lidx') <- build_levels f o b cbase (lbase + length lidx) (flat_map kids_of ds);
   Ok (assemble ds base cbase lbase forest, lidx ++ lidx')).
Proof. destruct ss; [congruence|reflexivity]. Qed.

Lemma old_level_length ls : forall ss ns ks, old_level ls ss = Ok (ns, ks) -> length ns = length ss.
Proof.
  induction ss as [|s r IH]; intros ns ks H; cbn [old_level] in H; [inversion H; reflexivity|].
  unfold bind in H. destruct (old_process ls s) as [[n k]|]; [|discriminate].
  destruct (old_level ls r) as [[ns' ks']|] eqn:E; [|discriminate]. inversion H; subst.
  cbn [length]. rewrite (IH _ _ eq_refl). reflexivity.
Qed.

Lemma conv_loop_nil fuel ot a b c : conv_loop fuel ot [] a b c = Ok ([], []).
Proof. destruct fuel; reflexivity. Qed.

Lemma main_sim ls ot M : forall f lv pre onodes base lbase nfuel,
  Forall (fun t => sub_ok M f (snd t)) lv -> Forall (tag_ok ot) lv ->
  (lv <> [] -> 1 <= f) ->
  old_levels f ls (olds lv) = Ok onodes -> ot = pre ++ onodes -> old_fits onodes = true ->
  2 * length onodes + n_some (map fst lv) <= nfuel ->
  exists forest lidx,
    build_levels f legacy_opts false base lbase (map snd lv) = Ok (forest, lidx) /\
    conv_loop nfuel ot (celts_of ot (length pre) (map fst lv)) base (length pre + length (olds lv)) lbase
      = Ok (map view_of (nodes_bfs f forest), lidx).
Proof.
  induction f as [|f IH]; intros lv pre onodes base lbase nfuel Hok Htag Hne Hold Hot Hfit Hfuel.
  - destruct lv as [|t lv]; [|specialize (Hne ltac:(discriminate)); lia].
    exists [], []. split; [reflexivity|]. cbn [map celts_of]. rewrite conv_loop_nil. reflexivity.
  - destruct lv as [|t0 lv0].
    { exists [], []. split; [reflexivity|]. cbn [map celts_of]. rewrite conv_loop_nil, nodes_bfs_nil. reflexivity. }
    remember (t0 :: lv0) as lv eqn:Elv.
    rewrite old_levels_unfold in Hold. unfold bind in Hold.
    destruct (old_level ls (olds lv)) as [[ns okids]|] eqn:Eol; [|discriminate].
    destruct (old_levels f ls okids) as [rest|] eqn:Eor; [|discriminate].
    inversion Hold; subst onodes. clear Hold.
    apply old_fits_app in Hfit. destruct Hfit as [Hfit1 Hfit2].
    assert (forall j, j < length ns -> nth_error ot (length pre + j) = nth_error ns j) as Hslice.
    { intros j Hj. rewrite Hot, nth_error_app2 by lia. replace (length pre + j - length pre) with j by lia.
      apply nth_error_app1. exact Hj. }
    destruct (level_sim ls ot M f lv (length pre) ns okids Hok Htag Eol Hslice Hfit1)
      as (ds & Hp & Hrel & Ho & Hf1 & Hs1 & Hsub & Htg & Hne' & Hlen).
    set (lv' := next_lv (length pre) lv ds) in *.
    pose proof (n_some_next ot _ _ _ Hrel) as Hns. rewrite <- Hf1 in Hns.
    pose proof (n_none_some (map fst lv)) as Hcnt. rewrite map_length in Hcnt.
    rewrite n_none_olds in Hcnt, Hns.
    rewrite app_length in Hfuel.
    destruct (IH lv' (pre ++ ns) rest (base + length lv) (lbase + length (flat_map leaf_idx_of ds)) (nfuel - length lv))
      as (forest' & lidx' & Hb' & Hc'); try assumption.
    { rewrite Ho. exact Eor. }
    { rewrite Hot, <- app_assoc. reflexivity. }
    { lia. }
    exists (assemble ds base (base + length lv) lbase forest'), (flat_map leaf_idx_of ds ++ lidx').
    assert (map snd lv <> []) as Hss by (rewrite Elv; discriminate).
    pose proof (process_level_spec _ _ _ _ _ Hp) as Hprod.
    destruct (build_levels_bfs _ _ _ _ _ _ _ _ Hb') as [_ Hfl]. rewrite Hs1 in Hfl.
    split.
    + rewrite (build_levels_unfold f legacy_opts false base lbase (map snd lv) Hss).
      unfold bind. rewrite Hp. cbv zeta. rewrite map_length, <- Hs1, Hb'. reflexivity.
    + replace nfuel with (length (map fst lv) + (nfuel - length lv)) by (rewrite map_length; lia).
      rewrite <- (app_nil_r (celts_of ot (length pre) (map fst lv))).
      rewrite (conv_level ot (map fst lv) ds (length pre) [] base (length pre + length (olds lv)) lbase _ Hrel).
      cbn [app length]. rewrite <- Hf1, n_none_olds, map_length.
      rewrite app_length in Hc'. rewrite <- Hlen. rewrite Hc'. cbn [bind].
      rewrite Nat.add_0_r.
      destruct (assemble_bfs legacy_opts _ _ Hprod base (base + length lv) lbase forest' Hfl) as (_ & _ & H3 & _).
      cbn [nodes_bfs]. rewrite H3, map_app, (view_assemble legacy_opts _ _ Hprod _ _ _ _ Hfl). reflexivity.
Qed.
