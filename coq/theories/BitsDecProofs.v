(* BitsDecProofs.v - L3: the decoder on the pieces the encoder produces.
     read_short          the one- or two-word read of a short bitmap (incl. the straddling case and
                         the case ending exactly on a word boundary) returns the stored bits
     inner_range_correct getNode's from/to/wordSize/bm for big, normal and short nodes
     labels/children     label extraction, first child, getLeftChildID, last child *)
From Coq Require Import List Arith Bool NArith ZArith Lia Sorted.
From Coq Require Import ZifyN ZifyNat ZifyBool.
From Coq.Strings Require Import Byte.
From Slim Require Import Base Keys Model BitmapRank BitmapRankProofs BitmapRank2 BitmapRank2Proofs
     BitmapSelectProofs Bits BitsWfProofs BitsVlenProofs BitsEncProofs ListFacts.
Import ListNotations.
Local Open Scope N_scope.
Ltac Zify.zify_post_hook ::= Z.div_mod_to_equations.

(* ---------- reading a short bitmap ---------- *)
Lemma nth_word_some : forall ws i, i < N.of_nat (length ws) -> exists w, nth_word ws i = Val w /\ nthN ws i = Some w.
Proof.
  intros ws i H. destruct (nthN_lt_Some ws i H) as [w E]. exists w. unfold nth_word. rewrite E. auto.
Qed.

Lemma testbit_high_false : forall w k, w < 2 ^ 64 -> 64 <= k -> N.testbit w k = false.
Proof.
  intros w k Hw Hk. destruct (N.testbit w k) eqn:E; [|reflexivity].
  pose proof (testbit_true_lt _ _ _ Hw E). lia.
Qed.

(* the value v read for s bits at position from has exactly the stored bits *)
Lemma read_short : forall ws from s,
  words_ok ws -> 0 < s -> s <= 64 -> from + s <= 64 * N.of_nat (length ws) ->
  let j := bit_of from in
  exists w, nth_word ws (word_of from) = Val w /\
  exists v,
    (if j + s <=? 64
     then Val (N.land (N.shiftr w j) (N.ones s))
     else doo w2 <- nth_word ws (word_of (from + s));
          Val (N.lor (N.shiftr w j) (N.land (N.shiftl w2 (64 - j) mod 2 ^ 64) (N.ones s)))) = Val v /\
    forall k, N.testbit v k = (k <? s) && bm_get ws (from + k).
Proof.
  intros ws from s Hok Hs0 Hs Hlen j.
  pose proof (bit_of_lt from) as Hj. fold j in Hj. pose proof (pos_split from) as Hp. fold j in Hp.
  set (wi := word_of from) in *.
  assert (Hwi : wi < N.of_nat (length ws)) by lia.
  destruct (nth_word_some ws wi Hwi) as (w & Ew & Nw). exists w. split; [exact Ew|].
  pose proof (words_ok_nth _ _ _ Hok Nw) as Hw.
  assert (Hget : forall k, j + k < 64 -> bm_get ws (from + k) = N.testbit w (j + k)).
  { intros k Hk. rewrite Hp. replace (64 * wi + j + k) with (64 * wi + (j + k)) by lia.
    apply (bm_get_word ws wi w _ Nw). exact Hk. }
  destruct (N.leb_spec (j + s) 64) as [Hfit|Hcross].
  - eexists. split; [reflexivity|]. intros k. rewrite N.land_spec, N.shiftr_spec by lia.
    destruct (N.ltb_spec k s) as [Hk|Hk]; cbn [andb].
    + rewrite N.ones_spec_low by assumption. rewrite andb_true_r. rewrite Hget by lia. f_equal. lia.
    + rewrite N.ones_spec_high by assumption. apply andb_false_r.
  - assert (Hw2i : word_of (from + s) = wi + 1).
    { rewrite word_of_spec. lia. }
    rewrite Hw2i. destruct (nth_word_some ws (wi + 1)) as (w2 & Ew2 & Nw2); [lia|].
    rewrite Ew2. cbn [obind]. eexists. split; [reflexivity|].
    pose proof (words_ok_nth _ _ _ Hok Nw2) as Hw2.
    assert (Hget2 : forall k, 64 <= j + k -> j + k < 128 -> bm_get ws (from + k) = N.testbit w2 (j + k - 64)).
    { intros k Hk1 Hk2. rewrite Hp. replace (64 * wi + j + k) with (64 * (wi + 1) + (j + k - 64)) by lia.
      apply (bm_get_word ws (wi + 1) w2 _ Nw2). lia. }
    intros k. rewrite N.lor_spec, N.land_spec, N.shiftr_spec by lia.
    destruct (N.ltb_spec k s) as [Hk|Hk]; cbn [andb].
    + rewrite N.ones_spec_low by assumption. rewrite andb_true_r.
      destruct (N.lt_ge_cases (j + k) 64) as [Hlo|Hhi].
      * rewrite Hget by assumption. replace (k + j) with (j + k) by lia.
        rewrite N.mod_pow2_bits_low by lia. rewrite N.shiftl_spec_low by lia. apply orb_false_r.
      * rewrite (testbit_high_false w (k + j)) by (try assumption; lia). cbn [orb].
        rewrite N.mod_pow2_bits_low by lia. rewrite N.shiftl_spec_high by lia.
        rewrite Hget2 by lia. f_equal. lia.
    + rewrite N.ones_spec_high by assumption. rewrite andb_false_r, orb_false_r.
      apply testbit_high_false; [assumption|lia].
Qed.

Lemma bits_eq_below : forall a b s, a < 2 ^ s -> b < 2 ^ s ->
  (forall k, k < s -> N.testbit a k = N.testbit b k) -> a = b.
Proof.
  intros a b s Ha Hb H. apply N.bits_inj. intros k. destruct (N.lt_ge_cases k s) as [Hk|Hk]; [apply H; exact Hk|].
  destruct (N.testbit a k) eqn:Ea; destruct (N.testbit b k) eqn:Eb; try reflexivity.
  - pose proof (testbit_true_lt _ _ _ Ha Ea). lia.
  - pose proof (testbit_true_lt _ _ _ Hb Eb). lia.
Qed.

Lemma bits_lt_pow2 : forall v s, (forall k, s <= k -> N.testbit v k = false) -> v < 2 ^ s.
Proof.
  intros v s H. destruct (N.eq_dec v 0) as [->|Hv]; [apply N.neq_0_lt_0, N.pow_nonzero; lia|].
  apply N.log2_lt_pow2; [lia|]. destruct (N.lt_ge_cases (N.log2 v) s) as [|Hge]; [assumption|].
  pose proof (N.bit_log2 v Hv) as Hb. rewrite H in Hb by assumption. discriminate.
Qed.

(* ---------- rank in a bitmap listing the positions with a non-zero indicator ---------- *)
Lemma indicator_rank64 : forall sizes ws i,
  words_ok ws ->
  N.of_nat (length ws) = nwords_for (N.of_nat (length sizes)) ->
  (forall p, bm_get ws p = true <-> In p (nonzero_idx 0 sizes)) ->
  (i < length sizes)%nat ->
  rank64 ws (index_rank64 ws 0) (N.of_nat i) =
  Val (N.of_nat (cnt_nz (firstn i sizes)), N.b2n (nz (nth i sizes 0))).
Proof.
  intros sizes ws i O L G Hi.
  assert (Hb : N.of_nat i < 64 * N.of_nat (length ws)) by (rewrite L; apply nwords_bound; lia).
  destruct (presence_lookup sizes ws i O L G Hi) as [Hbit [bit Hrank]]. rewrite Hrank.
  destruct (rank64_correct ws _ _ _ O Hrank) as [_ ->].
  rewrite (get_bit_spec ws _ Hb) in Hbit. injection Hbit as ->. reflexivity.
Qed.

Lemma big_short_le : forall most (l : list inner_rec) j,
  (cnt_nz (firstn j (map (fun i => ind (i_big i)) l)) +
   cnt_nz (firstn j (map (fun i => ind (is_short most i)) l)) <= j)%nat.
Proof.
  intros most. induction l as [|x r IH]; intros j; [destruct j; cbn; lia|].
  destruct j as [|j]; [cbn; lia|]. cbn [map firstn]. unfold cnt_nz in *. cbn [filter]. specialize (IH j).
  destruct (is_short most x) eqn:E.
  - rewrite (is_short_not_big _ _ E). cbn [ind nz N.eqb negb length]. lia.
  - destruct (i_big x); cbn [ind nz N.eqb negb length]; lia.
Qed.

Lemma seg_off_step : forall segs j sub sz, nth_error segs j = Some (sub, sz) ->
  seg_off segs (S j) = seg_off segs j + sz.
Proof.
  induction segs as [|x r IH]; intros j sub sz H; [destruct j; discriminate|].
  destruct j as [|j].
  - cbn in H. injection H as ->. unfold seg_off. cbn [firstn fold_right snd]. lia.
  - cbn [nth_error] in H. specialize (IH j sub sz H). unfold seg_off in *.
    change (firstn (S (S j)) (x :: r)) with (x :: firstn (S j) r).
    change (firstn (S j) (x :: r)) with (x :: firstn j r). cbn [fold_right]. lia.
Qed.

Lemma seg_off_mono : forall segs j k, (j <= k)%nat -> seg_off segs j <= seg_off segs k.
Proof.
  induction segs as [|x r IH]; intros j k H.
  - destruct j, k; unfold seg_off; cbn; lia.
  - destruct j as [|j]; [unfold seg_off at 1; cbn [firstn fold_right]; lia|].
    destruct k as [|k]; [lia|]. unfold seg_off in *. cbn [firstn fold_right]. specialize (IH j k ltac:(lia)). lia.
Qed.

Lemma seg_off_all : forall segs k, (length segs <= k)%nat -> seg_off segs k = seg_off segs (length segs).
Proof. intros segs k H. unfold seg_off. rewrite !firstn_all2 by lia. reflexivity. Qed.

Lemma seg_end_le : forall segs j sub sz, nth_error segs j = Some (sub, sz) ->
  seg_off segs j + sz <= seg_off segs (length segs).
Proof.
  intros segs j sub sz H. rewrite <- (seg_off_step _ _ _ _ H).
  apply seg_off_mono. apply Nat.le_succ_l. apply nth_error_Some. congruence.
Qed.

Lemma nwords_cover : forall n, n <= 64 * nwords_for n.
Proof. intros n. unfold nwords_for. rewrite N.shiftr_div_pow2. change (2 ^ 6) with 64. lia. Qed.

Section Inner.
  Variables (ins : list inner_rec) (s : N) (table : list N) (most : list (N * N)) (iw sbw : list N) (c d : nat).
  Variables (nt : option bitmap) (ip lp lv : option vlen).
  Hypothesis Hs : s <= 10.
  Hypothesis Htab : table_ok s table most.
  Hypothesis Hrec : Forall rec_ok ins.
  Hypothesis Hbig : map i_big ins = repeat true c ++ repeat false d.
  Let segs := map (seg_of s most) ins.
  Hypothesis Hiw : of_many segs = Val iw.
  Hypothesis Hsbw_ok : words_ok sbw.
  Hypothesis Hsbw_len : N.of_nat (length sbw) = nwords_for (N.of_nat (length ins)).
  Hypothesis Hsbw : forall p, bm_get sbw p = true <-> In p (nonzero_idx 0 (map (fun i => ind (is_short most i)) ins)).

  Let m := mkMsg (count_big ins) s nt (Some (index_bm iw R128)) (Some (index_bm sbw R64)) table ip lp lv.
  Let vs := mkVars (240 * count_big ins) (Z.of_N s - 17) (N.ones s).

  Lemma init_vars_m : init_vars m = Val vs.
  Proof. unfold init_vars, m. cbn [m_shortsize m_bigcnt]. destruct (N.ltb_spec 64 s); [lia|reflexivity]. Qed.

  Lemma segs_ok : Forall seg_ok segs.
  Proof.
    unfold segs. rewrite Forall_map. eapply Forall_impl; [|exact Hrec]. intros i Hi.
    apply (seg_of_ok s most table i Hs Htab Hi).
  Qed.

  (* the facts about Inners.Words *)
  Lemma iw_facts :
    words_ok iw /\
    N.of_nat (length iw) = nwords_for (seg_off segs (length segs)) /\
    (forall i sub sz k, nth_error segs i = Some (sub, sz) -> k < sz ->
       (bm_get iw (seg_off segs i + k) = true <-> In k sub)) /\
    (forall i sub sz k, nth_error segs i = Some (sub, sz) -> k <= sz ->
       rank_spec iw (seg_off segs i + k) = N.of_nat (seg_cnt segs i + count_lt sub k)).
  Proof.
    destruct (of_many_spec segs segs_ok) as (ws & E & O & L & _ & G & R). rewrite Hiw in E. injection E as <-.
    auto.
  Qed.

  Lemma seg_nth : forall j i, nth_error ins j = Some i -> nth_error segs j = Some (seg_of s most i).
  Proof. intros j i H. unfold segs. apply nth_error_map_some. exact H. Qed.

  Lemma in_range : forall j i, nth_error ins j = Some i ->
    seg_off segs j + snd (seg_of s most i) <= 64 * N.of_nat (length iw).
  Proof.
    intros j i H. destruct iw_facts as (_ & L & _). rewrite L.
    pose proof (seg_nth j i H) as Hn. destruct (seg_of s most i) as [sub sz] eqn:Eseg. cbn [snd].
    pose proof (seg_end_le segs j _ _ Hn) as Hle.
    pose proof (nwords_cover (seg_off segs (length segs))). lia.
  Qed.

  Lemma rec_nth : forall j i, nth_error ins j = Some i -> rec_ok i.
  Proof. intros j i H. rewrite Forall_forall in Hrec. apply Hrec. eapply nth_error_In; exact H. Qed.

  Theorem inner_range_correct : forall j i,
    nth_error ins j = Some i ->
    exists bm,
      inner_range m vs (N.of_nat j) =
      Val (if i_big i then 8 else 4, seg_off segs j, seg_off segs j + snd (seg_of s most i), bm) /\
      (is_short most i = true -> bm17 (i_labels i) = Val bm).
  Proof.
    intros j i Hj. assert (Hjl : (j < length ins)%nat) by (apply nth_error_Some; congruence).
    destruct (big_prefix_count ins c d j Hbig) as (Hnb & Hc & Hbi). specialize (Hbi i Hj).
    pose proof (seg_off_formula s most ins j ltac:(lia)) as Hoff. fold segs in Hoff. rewrite Hnb in Hoff.
    pose proof (big_short_le most ins j) as Hle. rewrite Hnb in Hle.
    set (ns := cnt_nz (firstn j (map (fun i0 => ind (is_short most i0)) ins))) in *.
    unfold inner_range. cbn [m m_bigcnt m_shortbm m_inners m_shortsize m_shorttable].
    change (var_bigoff vs) with (240 * count_big ins). change (var_shortminus vs) with (Z.of_N s - 17)%Z.
    change (var_mask vs) with (N.ones s). rewrite Hc.
    rewrite seg_of_size. rewrite Hbi. destruct (Nat.ltb_spec j c) as [Hlt|Hge].
    - (* big *)
      destruct (N.ltb_spec (N.of_nat j) (N.of_nat c)); [|lia]. exists 0. split; [|intros Hsh; apply is_short_not_big in Hsh; congruence].
      assert (ns = 0%nat) by lia. assert (Ho : seg_off segs j = N.of_nat j * 257) by lia. rewrite Ho. reflexivity.
    - destruct (N.ltb_spec (N.of_nat j) (N.of_nat c)); [lia|].
      cbn [index_bm b_words b_rank].
      rewrite (indicator_rank64 (map (fun i0 => ind (is_short most i0)) ins) sbw j Hsbw_ok) by (rewrite ?map_length; assumption).
      cbn [obind]. fold ns.
      assert (Hnth : nth j (map (fun i0 => ind (is_short most i0)) ins) 0 = ind (is_short most i)).
      { apply nth_error_nth. apply (nth_error_map_some (fun i0 => ind (is_short most i0)) ins j i Hj). }
      rewrite Hnth.
      set (fromz := (Z.of_N (240 * N.of_nat c) + 17 * Z.of_N (N.of_nat j) + (Z.of_N s - 17) * Z.of_N (N.of_nat ns))%Z).
      assert (Hfrom : fromz = Z.of_N (seg_off segs j)).
      { unfold fromz. rewrite Hoff. replace (Nat.min j c) with c by lia. lia. }
      rewrite Hfrom. destruct (Z.ltb_spec (Z.of_N (seg_off segs j)) 0); [lia|]. rewrite N2Z.id.
      destruct (is_short most i) eqn:Esh; cbn [ind nz N.eqb negb N.b2n].
      + (* short *)
        unfold is_short in Esh. apply andb_true_iff in Esh. destruct Esh as [_ Ecode].
        unfold code_of in Ecode. destruct (rec_nth j i Hj) as (Hne & Hsort & Hb).
        assert (Hnb' : i_big i = false) by (rewrite Hbi; try reflexivity; apply Nat.ltb_ge; lia). rewrite Hnb' in Hb.
        destruct (bm17_spec (i_labels i) Hne Hsort (lt17_lt64 _ Hb)) as (bm & Ebm & Hbm & Hf & Hp).
        rewrite Ebm in Ecode. destruct (most_lookup most bm) as [sh|] eqn:El; [|discriminate].
        destruct Htab as [_ Ht]. destruct (Ht _ _ El) as (Hsh & Htb & Hpc).
        assert (Hs0 : 0 < s).
        { destruct (N.eq_dec s 0) as [->|]; [|lia]. assert (sh = 0) by (cbn in Hsh; lia). subst sh.
          cbn in Hpc. destruct (i_labels i); [congruence|cbn [length] in Hp; lia]. }
        pose proof (in_range j i Hj) as Hin. rewrite seg_of_size, Hnb' in Hin.
        assert (Eshort : is_short most i = true).
        { unfold is_short, code_of. rewrite Hnb', Ebm, El. reflexivity. }
        rewrite Eshort in Hin.
        destruct iw_facts as (Oiw & Liw & Giw & _).
        destruct (read_short iw (seg_off segs j) s Oiw Hs0 ltac:(lia) Hin) as (w & Ew & v & Ev & Hv).
        rewrite Ew. cbn [obind]. cbv zeta in Ev. rewrite Ev. cbn [obind].
        assert (Hseg : nth_error segs j = Some (to_array [sh], s)).
        { rewrite (seg_nth j i Hj). unfold seg_of, code_of. rewrite Hnb', Ebm, El. reflexivity. }
        destruct (to_array_single sh s Hsh ltac:(lia)) as (_ & _ & Tmem & _).
        assert (v = sh).
        { apply (bits_eq_below v sh s).
          - apply bits_lt_pow2. intros k Hk. rewrite Hv. destruct (N.ltb_spec k s); [lia|reflexivity].
          - exact Hsh.
          - intros k Hk. rewrite Hv. destruct (N.ltb_spec k s); [|lia]. cbn [andb].
            apply eq_true_iff_eq. rewrite (Giw j _ _ k Hseg Hk). apply Tmem. }
        subst v. rewrite Htb. exists bm. split; [reflexivity|]. intros _. exact Ebm.
      + exists 0. split; [reflexivity|discriminate].
  Qed.
  (* ---- labels, children ---- *)
  Lemma size_pos : forall i, rec_ok i -> 0 < snd (seg_of s most i).
  Proof.
    intros i Hi. destruct (seg_of_ok s most table i Hs Htab Hi) as [[_ Hb] L].
    destruct Hi as (Hne & _). destruct (fst (seg_of s most i)) as [|x r] eqn:E.
    - cbn [length] in L. destruct (i_labels i); [congruence|discriminate].
    - inversion Hb; subst. lia.
  Qed.

  Lemma short_iff_size : forall i, rec_ok i ->
    (snd (seg_of s most i) =? s) = is_short most i.
  Proof.
    intros i Hi. rewrite seg_of_size. destruct (i_big i) eqn:Eb.
    - unfold is_short. rewrite Eb. cbn [negb andb]. destruct (N.eqb_spec 257 s); [lia|reflexivity].
    - destruct (is_short most i); [apply N.eqb_refl|]. destruct (N.eqb_spec 17 s); [lia|reflexivity].
  Qed.

  Lemma labels_testbit : forall i bm, rec_ok i -> i_big i = false -> bm17 (i_labels i) = Val bm ->
    bm < 2 ^ 64 /\ (forall k, N.testbit bm k = true <-> In k (i_labels i)).
  Proof.
    intros i bm (Hne & Hsort & Hb) Eb E. rewrite Eb in Hb.
    destruct (bm17_spec (i_labels i) Hne Hsort (lt17_lt64 _ Hb)) as (w & Ew & Hw & Hf & _).
    rewrite E in Ew. injection Ew as <-. split; [exact Hw|]. intros k.
    destruct (N.lt_ge_cases k 64) as [Hk|Hk]; [apply Hf; exact Hk|]. split.
    - intros Ht. pose proof (testbit_true_lt _ _ _ Hw Ht). lia.
    - intros Hin. rewrite Forall_forall in Hb. apply Hb in Hin. lia.
  Qed.

  Theorem node_labels_correct : forall j i bm,
    nth_error ins j = Some i ->
    (is_short most i = true -> bm17 (i_labels i) = Val bm) ->
    node_labels m (seg_off segs j) (seg_off segs j + snd (seg_of s most i)) bm = Val (i_labels i).
  Proof.
    intros j i bm Hj Hbm. pose proof (rec_nth j i Hj) as Hi. unfold node_labels. cbn [m m_shortsize].
    replace (seg_off segs j + snd (seg_of s most i) - seg_off segs j) with (snd (seg_of s most i)) by lia.
    rewrite (short_iff_size i Hi). destruct (is_short most i) eqn:Esh.
    - f_equal. destruct (labels_testbit i bm Hi (is_short_not_big _ _ Esh) (Hbm eq_refl)) as [Hw Hf].
      destruct (word_bits_spec 17 bm 0) as [Hs1 Hi1]. destruct Hi as (_ & Hsort & Hb).
      rewrite (is_short_not_big _ _ Esh) in Hb.
      apply sorted_ext; [exact Hs1|exact Hsort|]. intros x. rewrite Hi1, N.sub_0_r. split.
      + intros (_ & _ & Ht). apply Hf. exact Ht.
      + intros Hin. split; [lia|]. split; [|apply Hf; exact Hin].
        rewrite Forall_forall in Hb. apply Hb in Hin. lia.
    - unfold inner_words. cbn [m m_inners index_bm b_words b_rank obind].
      pose proof (in_range j i Hj) as Hin.
      destruct (get_bits_spec (N.to_nat (snd (seg_of s most i))) iw (seg_off segs j)) as (l & E & L & G); [lia|].
      rewrite E. cbn [obind]. f_equal.
      destruct (true_pos_spec l 0) as [Hs1 Hi1]. destruct iw_facts as (_ & _ & Giw & _).
      pose proof (seg_nth j i Hj) as Hseg. destruct (seg_of_ok s most table i Hs Htab Hi) as [[Hsub Hbsub] _].
      assert (Efst : fst (seg_of s most i) = i_labels i).
      { unfold seg_of. unfold is_short in Esh. destruct (i_big i); [reflexivity|]. cbn [negb andb] in Esh.
        destruct (code_of most i); [discriminate|reflexivity]. }
      rewrite Efst in Hsub, Hbsub.
      apply sorted_ext; [exact Hs1|exact Hsub|]. intros x. rewrite Hi1, N.sub_0_r, L. split.
      + intros (_ & Hx & Hn). rewrite G in Hn by lia. rewrite N2Nat.id in Hn.
        rewrite <- Efst. apply (Giw j _ _ x (eq_trans Hseg (f_equal Some (surjective_pairing _)))); [lia|exact Hn].
      + intros Hx. assert (Hlt : x < snd (seg_of s most i)) by (rewrite Forall_forall in Hbsub; apply Hbsub; exact Hx).
        split; [lia|]. split; [lia|]. rewrite G by lia. rewrite N2Nat.id.
        apply (Giw j _ _ x (eq_trans Hseg (f_equal Some (surjective_pairing _)))); [exact Hlt|]. rewrite Efst. exact Hx.
  Qed.

  Lemma rank128_iw : forall p, p < 64 * N.of_nat (length iw) ->
    rank128 iw (index_rank128 iw 0) p = Val (rank_spec iw p, N.b2n (bm_get iw p)).
  Proof.
    intros p Hp. destruct (rank128_total iw p Hp) as (r & b & E). rewrite E.
    destruct iw_facts as (O & _). destruct (rank128_correct iw p r b O E) as [-> ->]. reflexivity.
  Qed.

  (* number of label bits before the j-th inner node *)
  Definition labels_before (j : nat) : nat :=
    fold_right (fun i a => (length (i_labels i) + a)%nat) 0%nat (firstn j ins).

  Theorem first_child_correct : forall j i,
    nth_error ins j = Some i ->
    first_child m (seg_off segs j) = Val (N.of_nat (labels_before j) + 1).
  Proof.
    intros j i Hj. pose proof (rec_nth j i Hj) as Hi. unfold first_child, inner_words.
    cbn [m m_inners index_bm b_words b_rank obind].
    pose proof (in_range j i Hj) as Hin. pose proof (size_pos i Hi) as Hpos.
    rewrite rank128_iw by lia. cbn [obind]. f_equal.
    destruct iw_facts as (_ & _ & _ & Riw). pose proof (seg_nth j i Hj) as Hseg.
    pose proof (Riw j _ _ 0 (eq_trans Hseg (f_equal Some (surjective_pairing _))) ltac:(lia)) as Hr.
    rewrite N.add_0_r in Hr. rewrite Hr.
    unfold segs. rewrite (seg_cnt_labels s most table ins j Hs Htab Hrec). unfold labels_before.
    rewrite (count_lt_none _ 0); [lia|]. rewrite Forall_forall. intros; lia.
  Qed.

  Lemma count_below_listed_lt : forall bm idx k,
    StronglySorted N.lt idx -> (forall x, N.testbit bm x = true <-> In x idx) ->
    popcount (N.land bm (N.ones k)) = N.of_nat (count_lt idx k).
  Proof.
    intros bm idx k Hsort Hf. rewrite popcount_land_ones. rewrite (count_below_sorted _ idx Hsort Hf).
    rewrite N2Nat.id. reflexivity.
  Qed.

  (* getLeftChildID: children before label bit k, and whether k is a label *)
  Theorem left_child_correct : forall j i bm k,
    nth_error ins j = Some i ->
    (is_short most i = true -> bm17 (i_labels i) = Val bm) ->
    k < (if i_big i then 257 else 17) ->
    left_child m (seg_off segs j) (seg_off segs j + snd (seg_of s most i)) bm k =
    Val (N.of_nat (labels_before j + count_lt (i_labels i) k), N.b2n (existsb (N.eqb k) (i_labels i))).
  Proof.
    intros j i bm k Hj Hbm Hk. pose proof (rec_nth j i Hj) as Hi. unfold left_child, inner_words.
    cbn [m m_inners m_shortsize index_bm b_words b_rank obind].
    replace (seg_off segs j + snd (seg_of s most i) - seg_off segs j) with (snd (seg_of s most i)) by lia.
    rewrite (short_iff_size i Hi).
    pose proof (in_range j i Hj) as Hin. pose proof (size_pos i Hi) as Hpos.
    destruct iw_facts as (_ & _ & Giw & Riw). pose proof (seg_nth j i Hj) as Hseg.
    assert (Hseg' : nth_error segs j = Some (fst (seg_of s most i), snd (seg_of s most i)))
      by (rewrite Hseg; f_equal; apply surjective_pairing).
    assert (Hcnt : seg_cnt segs j = labels_before j)
      by (unfold segs; apply (seg_cnt_labels s most table ins j Hs Htab Hrec)).
    destruct (is_short most i) eqn:Esh.
    - rewrite (is_short_not_big _ _ Esh) in Hk. destruct (N.ltb_spec 64 k); [lia|].
      rewrite rank128_iw by lia. cbn [obind].
      pose proof (Riw j _ _ 0 Hseg' ltac:(lia)) as Hr. rewrite N.add_0_r in Hr. rewrite Hr, Hcnt.
      rewrite (count_lt_none _ 0) by (rewrite Forall_forall; intros; lia).
      destruct (labels_testbit i bm Hi (is_short_not_big _ _ Esh) (Hbm eq_refl)) as [Hw Hf].
      destruct Hi as (_ & Hsort & _). rewrite (count_below_listed_lt bm _ k Hsort Hf).
      rewrite bit_test_spec. f_equal. f_equal; [lia|]. f_equal. apply eq_true_iff_eq.
      rewrite Hf. symmetry. apply existsb_eqb_In.
    - assert (Efst : fst (seg_of s most i) = i_labels i).
      { unfold seg_of. unfold is_short in Esh. destruct (i_big i); [reflexivity|]. cbn [negb andb] in Esh.
        destruct (code_of most i); [discriminate|reflexivity]. }
      assert (Esz : snd (seg_of s most i) = if i_big i then 257 else 17) by (rewrite seg_of_size, Esh; reflexivity).
      rewrite rank128_iw by lia.
      rewrite (Riw j _ _ k Hseg' ltac:(lia)), Hcnt, Efst. f_equal. f_equal. f_equal. apply eq_true_iff_eq.
      rewrite (Giw j _ _ k Hseg' ltac:(lia)), Efst. symmetry. apply existsb_eqb_In.
  Qed.

  (* rightMost: the last child *)
  Theorem last_child_correct : forall j i,
    nth_error ins j = Some i ->
    last_child m (seg_off segs j + snd (seg_of s most i)) =
    Val (N.of_nat (labels_before j + length (i_labels i))).
  Proof.
    intros j i Hj. pose proof (rec_nth j i Hj) as Hi. unfold last_child, inner_words.
    cbn [m m_inners index_bm b_words b_rank obind].
    pose proof (in_range j i Hj) as Hin. pose proof (size_pos i Hi) as Hpos.
    destruct iw_facts as (_ & _ & Giw & Riw). pose proof (seg_nth j i Hj) as Hseg.
    assert (Hseg' : nth_error segs j = Some (fst (seg_of s most i), snd (seg_of s most i)))
      by (rewrite Hseg; f_equal; apply surjective_pairing).
    assert (Hcnt : seg_cnt segs j = labels_before j)
      by (unfold segs; apply (seg_cnt_labels s most table ins j Hs Htab Hrec)).
    destruct (seg_of_ok s most table i Hs Htab Hi) as [[Hsub Hbsub] L].
    set (sz := snd (seg_of s most i)) in *. set (sub := fst (seg_of s most i)) in *.
    replace (seg_off segs j + sz - 1) with (seg_off segs j + (sz - 1)) by lia.
    rewrite rank128_iw by lia. cbn [obind]. f_equal.
    rewrite (Riw j _ _ (sz - 1) Hseg' ltac:(lia)), Hcnt.
    assert (Hall : count_lt sub sz = length sub) by (apply count_lt_all; exact Hbsub).
    replace sz with (N.succ (sz - 1)) in Hall at 1 by lia. rewrite (count_lt_succ _ _ Hsub) in Hall.
    assert (Eb : N.b2n (bm_get iw (seg_off segs j + (sz - 1))) = N.of_nat (if existsb (N.eqb (sz - 1)) sub then 1 else 0)).
    { destruct (existsb (N.eqb (sz - 1)) sub) eqn:Ee.
      - apply existsb_eqb_In in Ee. apply (Giw j _ _ (sz - 1) Hseg' ltac:(lia)) in Ee. rewrite Ee. reflexivity.
      - destruct (bm_get iw (seg_off segs j + (sz - 1))) eqn:Eg; [|reflexivity].
        apply (Giw j _ _ (sz - 1) Hseg' ltac:(lia)) in Eg. apply existsb_eqb_In in Eg. congruence. }
    rewrite Eb. lia.
  Qed.
End Inner.
