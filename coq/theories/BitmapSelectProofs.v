(* BitmapSelectProofs.v - correctness of the word-level helpers of BitmapRank2.v, part 2:
     to_array_spec        ToArray: ascending, lists exactly the set bits
     index_select32_nth   entry j of IndexSelect32 = position of the (32 j)-th set bit
     sel_word_correct     the 32/16/8 narrowing + select8Lookup finds the k-th set bit of a word
     select32_r64_correct Select32R64 with the indexes of IndexSelect32R64:
                          (position of the i-th set bit, position of the next set bit or the
                          end of the bitmap), never a panic for i below the number of set bits
     get_bits_spec        the label bits read by Slice / the hook *)
From Coq Require Import List Arith Bool NArith ZArith Lia Sorted.
From Coq Require Import ZifyN ZifyNat ZifyBool.
From Slim Require Import BitmapRank BitmapRankProofs BitmapRank2 BitmapRank2Proofs.
Import ListNotations.
Local Open Scope N_scope.
Ltac Zify.zify_post_hook ::= Z.div_mod_to_equations.

(* the k-th (0-based) set bit of a single word *)
Definition kth (w k a : N) : Prop :=
  N.testbit w a = true /\ N.of_nat (count_below (N.testbit w) (N.to_nat a)) = k.

(* set bits below 64*w *)
Definition Rk (ws : list N) (w : N) : N := N.of_nat (count_below (bm_get ws) (64 * N.to_nat w)).
Definition total_ones (ws : list N) : N := Rk ws (N.of_nat (length ws)).

(* ---------- ToArray ---------- *)
Lemma word_bits_spec : forall n w base,
  StronglySorted N.lt (word_bits n w base) /\
  (forall p, In p (word_bits n w base) <->
             base <= p /\ p < base + N.of_nat n /\ N.testbit w (p - base) = true).
Proof.
  induction n as [|n IH]; intros w base.
  - cbn [word_bits]. split; [constructor|]. intros p. split; [intros []|lia].
  - cbn [word_bits]. destruct (IH (N.div2 w) (N.succ base)) as [Hs Hi].
    assert (Hin : forall p, In p (word_bits n (N.div2 w) (N.succ base)) <->
                            N.succ base <= p /\ p < base + N.of_nat (S n) /\ N.testbit w (p - base) = true).
    { intros p. rewrite Hi. split; intros (A & B & C); (split; [lia|]); (split; [lia|]).
      - replace (p - base) with (N.succ (p - N.succ base)) by lia.
        rewrite N.testbit_succ_r_div2 by lia. exact C.
      - replace (p - base) with (N.succ (p - N.succ base)) in C by lia.
        rewrite N.testbit_succ_r_div2 in C by lia. exact C. }
    split.
    + destruct (N.odd w); cbn [app]; [|exact Hs]. constructor; [exact Hs|].
      rewrite Forall_forall. intros p Hp. apply Hin in Hp. lia.
    + intros p. rewrite in_app_iff, Hin. rewrite <- N.bit0_odd.
      destruct (N.testbit w 0) eqn:E0; cbn [In].
      * split.
        -- intros [[<-|[]]|H]; [|destruct H as (A & B & C); repeat split; try lia; exact C].
           rewrite N.sub_diag. repeat split; try lia. exact E0.
        -- intros (A & B & C). destruct (N.eq_dec p base) as [->|Hne]; [left; left; reflexivity|].
           right. repeat split; try lia. exact C.
      * split.
        -- intros [[]|H]. destruct H as (A & B & C). repeat split; try lia. exact C.
        -- intros (A & B & C). right. destruct (N.eq_dec p base) as [->|Hne].
           ++ rewrite N.sub_diag in C. congruence.
           ++ repeat split; try lia. exact C.
Qed.

Lemma to_array_from_spec : forall ws base,
  StronglySorted N.lt (to_array_from ws base) /\
  (forall p, In p (to_array_from ws base) <-> base <= p /\ bm_get ws (p - base) = true).
Proof.
  induction ws as [|w r IH]; intros base.
  - cbn [to_array_from]. split; [constructor|]. intros p. split; [intros []|]. intros [_ H]. discriminate.
  - cbn [to_array_from]. destruct (word_bits_spec 64 w base) as [Hs1 Hi1].
    destruct (IH (base + 64)) as [Hs2 Hi2]. split.
    + apply SS_app_intro; [exact Hs1|exact Hs2|].
      intros x y Hx Hy. apply Hi1 in Hx. apply Hi2 in Hy. lia.
    + intros p. rewrite in_app_iff, Hi1, Hi2. split.
      * intros [(A & B & C)|(A & B)].
        -- split; [lia|]. rewrite bm_get_cons_low by lia. exact C.
        -- split; [lia|]. rewrite bm_get_ge64 by lia. replace (p - base - 64) with (p - (base + 64)) by lia. exact B.
      * intros (A & B). destruct (N.lt_ge_cases (p - base) 64) as [Hlt|Hge].
        -- left. rewrite bm_get_cons_low in B by assumption. repeat split; try lia. exact B.
        -- right. rewrite bm_get_ge64 in B by assumption. split; [lia|].
           replace (p - (base + 64)) with (p - base - 64) by lia. exact B.
Qed.

Theorem to_array_spec : forall ws,
  StronglySorted N.lt (to_array ws) /\ (forall p, bm_get ws p = true <-> In p (to_array ws)).
Proof.
  intros ws. destruct (to_array_from_spec ws 0) as [Hs Hi]. split; [exact Hs|].
  intros p. unfold to_array. rewrite Hi, N.sub_0_r. split; [intros; split; [lia|assumption]|tauto].
Qed.

Lemma total_ones_to_array : forall ws, total_ones ws = N.of_nat (length (to_array ws)).
Proof.
  intros ws. destruct (to_array_spec ws) as [Hs Hi]. unfold total_ones, Rk.
  rewrite (count_below_sorted _ _ Hs Hi). f_equal. apply count_lt_all.
  rewrite Forall_forall. intros p Hp. apply Hi in Hp. apply bm_get_true_lt in Hp. lia.
Qed.

(* ---------- IndexSelect32 ---------- *)
Lemma pick32_nth : forall l c j, (c <= 31)%nat -> nth_error (pick32 l c) j = nth_error l (c + 32 * j).
Proof.
  induction l as [|x r IH]; intros c j Hc.
  - cbn [pick32]. destruct j; destruct (c + _)%nat; reflexivity.
  - cbn [pick32]. destruct c as [|c].
    + destruct j as [|j]; [reflexivity|]. cbn [nth_error]. rewrite IH by lia.
      replace (0 + 32 * S j)%nat with (S (31 + 32 * j)) by lia. reflexivity.
    + rewrite IH by lia. replace (S c + 32 * j)%nat with (S (c + 32 * j)) by lia. reflexivity.
Qed.

Lemma index_select32_nth : forall ws j s,
  nthN (index_select32 ws) j = Some s ->
  bm_get ws s = true /\ rank_spec ws s = 32 * j.
Proof.
  intros ws j s H. unfold index_select32 in H. rewrite nthN_nth_error, pick32_nth in H by lia.
  destruct (to_array_spec ws) as [Hs Hi]. cbn [Nat.add] in H.
  pose proof (nth_error_In _ _ H) as Hin. split; [apply Hi; exact Hin|].
  assert (Hlt : (32 * N.to_nat j < length (to_array ws))%nat) by (apply nth_error_Some; congruence).
  rewrite <- (nth_error_nth _ _ 0 H). rewrite (rank_of_listed ws _ _ Hs Hi Hlt). lia.
Qed.

Lemma index_select32_some : forall ws i,
  i < total_ones ws -> exists s, nthN (index_select32 ws) (N.shiftr i 5) = Some s.
Proof.
  intros ws i H. rewrite total_ones_to_array in H. unfold index_select32.
  rewrite nthN_nth_error, pick32_nth by lia. cbn [Nat.add].
  destruct (nth_error (to_array ws) (32 * N.to_nat (N.shiftr i 5))) eqn:E; [eauto|].
  apply nth_error_None in E. rewrite N.shiftr_div_pow2 in E. change (2 ^ 5) with 32 in E. lia.
Qed.

(* ---------- select within a byte: the table ---------- *)
Fixpoint kth_lin (n : nat) (w k pos : N) : N :=
  match n with
  | O => pos
  | S n' =>
    if N.odd w
    then if k =? 0 then pos else kth_lin n' (N.div2 w) (k - 1) (N.succ pos)
    else kth_lin n' (N.div2 w) k (N.succ pos)
  end.

Lemma kth_lin_spec : forall n w k pos,
  k < N.of_nat (count_below (N.testbit w) n) ->
  exists a, kth_lin n w k pos = pos + a /\ a < N.of_nat n /\ kth w k a.
Proof.
  induction n as [|n IH]; intros w k pos H; [cbn in H; lia|].
  rewrite count_below_shift in H. rewrite N.bit0_odd in H.
  rewrite (count_below_ext (fun j => N.testbit w (N.succ j)) (N.testbit (N.div2 w))) in H
    by (intros j _; apply N.testbit_succ_r_div2; lia).
  assert (Hstep : forall k' a', kth (N.div2 w) k' a' ->
                                kth w (N.of_nat (if N.odd w then 1 else 0) + k') (N.succ a')).
  { intros k' a' [T C]. split; [rewrite N.testbit_succ_r_div2 by lia; exact T|].
    rewrite N2Nat.inj_succ, count_below_shift, N.bit0_odd.
    rewrite (count_below_ext (fun j => N.testbit w (N.succ j)) (N.testbit (N.div2 w)))
      by (intros j _; apply N.testbit_succ_r_div2; lia).
    rewrite Nat2N.inj_add, C. reflexivity. }
  cbn [kth_lin]. destruct (N.odd w) eqn:Eo.
  - destruct (N.eqb_spec k 0) as [->|Hk].
    + exists 0. split; [lia|]. split; [lia|]. split; [rewrite N.bit0_odd; exact Eo|reflexivity].
    + destruct (IH (N.div2 w) (k - 1) (N.succ pos)) as (a & E & L & K); [lia|].
      exists (N.succ a). split; [lia|]. split; [lia|].
      apply Hstep in K. replace (N.of_nat 1 + (k - 1)) with k in K by lia. exact K.
  - destruct (IH (N.div2 w) k (N.succ pos)) as (a & E & L & K); [lia|].
    exists (N.succ a). split; [lia|]. split; [lia|].
    apply Hstep in K. replace (N.of_nat 0 + k) with k in K by lia. exact K.
Qed.

Definition bytes256 : list N := map N.of_nat (seq 0 256).
Definition idx8 : list N := map N.of_nat (seq 0 8).

Lemma in_bytes256 : forall b, b < 256 -> In b bytes256.
Proof. intros b H. unfold bytes256. apply in_map_iff. exists (N.to_nat b). split; [lia|apply in_seq; lia]. Qed.
Lemma in_idx8 : forall j, j < 8 -> In j idx8.
Proof. intros j H. unfold idx8. apply in_map_iff. exists (N.to_nat j). split; [lia|apply in_seq; lia]. Qed.

(* the table built by initSelectLookup is the linear scan: all 2048 entries *)
Lemma sel8_table : forallb (fun b => forallb (fun j => sel8 b (N.to_nat j) =? kth_lin 8 b j 0) idx8) bytes256 = true.
Proof. vm_compute. reflexivity. Qed.

Lemma sel8_kth_lin : forall b j, b < 256 -> j < 8 -> sel8 b (N.to_nat j) = kth_lin 8 b j 0.
Proof.
  intros b j Hb Hj. pose proof sel8_table as H. rewrite forallb_forall in H.
  specialize (H b (in_bytes256 b Hb)). rewrite forallb_forall in H.
  specialize (H j (in_idx8 j Hj)). apply N.eqb_eq in H. exact H.
Qed.

Lemma lookup_index : forallb (fun b => forallb (fun j => N.lor (N.shiftl b 3) j =? 8 * b + j) idx8) bytes256 = true.
Proof. vm_compute. reflexivity. Qed.

Lemma sel8_lookup_spec : forall b j, b < 256 -> j < 8 ->
  sel8_lookup (N.lor (N.shiftl b 3) j) = Val (sel8 b (N.to_nat j)).
Proof.
  intros b j Hb Hj. pose proof lookup_index as H. rewrite forallb_forall in H.
  specialize (H b (in_bytes256 b Hb)). rewrite forallb_forall in H.
  specialize (H j (in_idx8 j Hj)). apply N.eqb_eq in H. rewrite H. unfold sel8_lookup.
  destruct (N.ltb_spec (8 * b + j) 2048); [|lia].
  rewrite N.shiftr_div_pow2. change (2 ^ 3) with 8.
  change 7 with (N.ones 3). rewrite N.land_ones. change (2 ^ 3) with 8.
  replace ((8 * b + j) / 8) with b by lia. replace ((8 * b + j) mod 8) with j by lia. reflexivity.
Qed.

Lemma byte1_index : forall ww, N.land (N.shiftr ww 5) 2040 = N.shiftl (N.land (N.shiftr ww 8) 255) 3.
Proof.
  intros ww. apply N.bits_inj. intros n. change 2040 with (N.shiftl 255 3).
  rewrite N.land_spec, N.shiftr_spec by lia. destruct (N.lt_ge_cases n 3) as [H|H].
  - rewrite !N.shiftl_spec_low by assumption. apply andb_false_r.
  - rewrite !N.shiftl_spec_high by lia. rewrite N.land_spec, N.shiftr_spec by lia.
    replace (n - 3 + 8) with (n + 5) by lia. reflexivity.
Qed.

(* ---------- narrowing ---------- *)
Lemma popcount_split : forall ww h h',
  popcount (N.land ww (N.ones (h + h'))) =
  popcount (N.land ww (N.ones h)) + popcount (N.land (N.shiftr ww h) (N.ones h')).
Proof.
  intros ww h h'. rewrite !popcount_land_ones.
  replace (N.to_nat (h + h')) with (N.to_nat h + N.to_nat h')%nat by lia.
  rewrite count_below_add, Nat2N.inj_add. f_equal. f_equal.
  apply count_below_ext. intros k _. rewrite N.shiftr_spec by lia. f_equal. lia.
Qed.

Lemma kth_narrow_hi : forall ww h k' a',
  kth (N.shiftr ww h) k' a' -> kth ww (popcount (N.land ww (N.ones h)) + k') (h + a').
Proof.
  intros ww h k' a' [T C]. split.
  - rewrite N.shiftr_spec in T by lia. rewrite N.add_comm. exact T.
  - rewrite popcount_land_ones.
    replace (N.to_nat (h + a')) with (N.to_nat h + N.to_nat a')%nat by lia.
    rewrite count_below_add, Nat2N.inj_add. f_equal. rewrite <- C. f_equal.
    apply count_below_ext. intros k _. rewrite N.shiftr_spec by lia. f_equal. lia.
Qed.

Lemma kth_low : forall ww h k a, a < h -> kth (N.land ww (N.ones h)) k a -> kth ww k a.
Proof.
  intros ww h k a Ha [T C]. split.
  - rewrite N.land_spec in T. apply andb_true_iff in T. tauto.
  - rewrite <- C. f_equal. apply count_below_ext. intros j Hj.
    rewrite N.land_spec, N.ones_spec_low by lia. rewrite andb_true_r. reflexivity.
Qed.

(* one narrowing step: (k, ww) -> (k', ww') with the offset d *)
Lemma narrow_step : forall ww k h,
  k < popcount (N.land ww (N.ones (h + h))) ->
  let ones := popcount (N.land ww (N.ones h)) in
  let k' := if ones <=? k then k - ones else k in
  let ww' := if ones <=? k then N.shiftr ww h else ww in
  let d := if ones <=? k then h else 0 in
  k' < popcount (N.land ww' (N.ones h)) /\
  (forall a, kth ww' k' a -> kth ww k (d + a)).
Proof.
  intros ww k h H. cbv zeta. rewrite popcount_split in H.
  destruct (N.leb_spec (popcount (N.land ww (N.ones h))) k) as [Hle|Hgt].
  - split; [lia|]. intros a K. apply kth_narrow_hi in K.
    replace (popcount (N.land ww (N.ones h)) + (k - popcount (N.land ww (N.ones h)))) with k in K by lia. exact K.
  - split; [exact Hgt|]. intros a K. rewrite N.add_0_l. exact K.
Qed.

Lemma land_ones_small : forall w n, w < 2 ^ n -> N.land w (N.ones n) = w.
Proof. intros w n H. rewrite N.land_ones. apply N.mod_small. exact H. Qed.

Lemma popcount_full : forall w, w < 2 ^ 64 -> popcount w = N.of_nat (count_below (N.testbit w) 64).
Proof. intros w H. apply (popcount_spec 64). exact H. Qed.

Theorem sel_word_correct : forall w k,
  w < 2 ^ 64 -> k < popcount w ->
  exists a, sel_word w k = Val a /\ a < 64 /\ kth w k a.
Proof.
  intros w k Hw Hk. unfold sel_word.
  assert (H0 : k < popcount (N.land w (N.ones (32 + 32)))) by (rewrite land_ones_small; assumption).
  destruct (narrow_step w k 32 H0) as [I1 C1]. cbv zeta in I1, C1.
  set (o1 := popcount (N.land w (N.ones 32))) in *.
  set (k1 := if o1 <=? k then k - o1 else k) in *.
  set (w1 := if o1 <=? k then N.shiftr w 32 else w) in *.
  set (d1 := if o1 <=? k then 32 else 0) in *.
  replace (if o1 <=? k then (k - o1, 32, N.shiftr w 32) else (k, 0, w)) with (k1, d1, w1)
    by (unfold k1, d1, w1; destruct (o1 <=? k); reflexivity).
  destruct (narrow_step w1 k1 16 I1) as [I2 C2]. cbv zeta in I2, C2.
  set (o2 := popcount (N.land w1 (N.ones 16))) in *.
  set (k2 := if o2 <=? k1 then k1 - o2 else k1) in *.
  set (w2 := if o2 <=? k1 then N.shiftr w1 16 else w1) in *.
  set (d2 := if o2 <=? k1 then 16 else 0) in *.
  replace (if o2 <=? k1 then (k1 - o2, N.lor d1 16, N.shiftr w1 16) else (k1, d1, w1)) with (k2, d1 + d2, w2)
    by (unfold k2, d2, w2, d1; destruct (o2 <=? k1); destruct (o1 <=? k); reflexivity).
  destruct (narrow_step w2 k2 8 I2) as [I3 C3]. cbv zeta in I3, C3.
  set (o3 := popcount (N.land w2 (N.ones 8))) in *.
  assert (Hbyte : forall x, N.land x 255 < 256).
  { intros x. change 255 with (N.ones 8). rewrite N.land_ones. apply N.mod_lt. discriminate. }
  assert (Hsel : forall b j, b < 256 -> j < popcount b ->
                 exists a, sel8 b (N.to_nat j) = a /\ a < 8 /\ kth b j a).
  { intros b j Hb Hj. assert (Hj8 : j < 8).
    { rewrite (popcount_spec 8 b Hb) in Hj. pose proof (count_below_le (N.testbit b) 8). lia. }
    rewrite (sel8_kth_lin b j Hb Hj8). rewrite (popcount_spec 8 b Hb) in Hj.
    destruct (kth_lin_spec 8 b j 0 Hj) as (a & E & L & K). exists a. rewrite E. repeat split; try lia; apply K. }
  assert (Hd : d1 + d2 <= 48) by (unfold d1, d2; destruct (o1 <=? k); destruct (o2 <=? k1); lia).
  destruct (N.leb_spec o3 k2) as [Hle|Hgt].
  - (* second byte *)
    rewrite byte1_index.
    assert (Hp : k2 - o3 < popcount (N.land (N.shiftr w2 8) 255)) by exact I3.
    destruct (Hsel _ _ (Hbyte _) Hp) as (a & E & L & K).
    assert (Hj8 : k2 - o3 < 8).
    { rewrite (popcount_spec 8 _ (Hbyte _)) in Hp. pose proof (count_below_le (N.testbit (N.land (N.shiftr w2 8) 255)) 8). lia. }
    rewrite (sel8_lookup_spec _ _ (Hbyte _) Hj8), E.
    exists (a + (d1 + d2) + 8). split; [reflexivity|]. split; [lia|].
    apply (kth_low _ 8) in K; [|exact L]. apply C3 in K. apply C2 in K. apply C1 in K.
    replace (a + (d1 + d2) + 8) with (d1 + (d2 + (8 + a))) by lia. exact K.
  - assert (Hp : k2 < popcount (N.land w2 255)) by exact I3.
    destruct (Hsel _ _ (Hbyte _) Hp) as (a & E & L & K).
    assert (Hj8 : k2 < 8).
    { rewrite (popcount_spec 8 _ (Hbyte _)) in Hp. pose proof (count_below_le (N.testbit (N.land w2 255)) 8). lia. }
    rewrite (sel8_lookup_spec _ _ (Hbyte _) Hj8), E.
    exists (a + (d1 + d2)). split; [reflexivity|]. split; [lia|].
    apply (kth_low _ 8) in K; [|exact L]. apply C3 in K. apply C2 in K. apply C1 in K.
    replace (a + (d1 + d2)) with (d1 + (d2 + (0 + a))) by lia. exact K.
Qed.

(* ---------- skipN, Rk ---------- *)
Lemma skipN_0 : forall {A} (l : list A), skipN l 0 = l.
Proof. intros A l. destruct l; reflexivity. Qed.

Lemma skipN_cons_succ : forall {A} (x : A) r k, skipN (x :: r) (N.succ k) = skipN r k.
Proof. intros. cbn [skipN]. destruct (N.eqb_spec (N.succ k) 0); [lia|]. rewrite N.pred_succ. reflexivity. Qed.

Lemma skipN_length : forall {A} (l : list A) k, k <= N.of_nat (length l) ->
  N.of_nat (length (skipN l k)) = N.of_nat (length l) - k.
Proof.
  induction l as [|x r IH]; intros k H; [cbn in *; lia|].
  destruct (N.eq_dec k 0) as [->|Hk]; [rewrite skipN_0; lia|].
  replace k with (N.succ (N.pred k)) by lia. rewrite skipN_cons_succ, IH by (cbn [length] in H; lia).
  cbn [length]. lia.
Qed.

Lemma nthN_skipN : forall {A} (l : list A) k j, nthN (skipN l k) j = nthN l (k + j).
Proof.
  induction l as [|x r IH]; intros k j; [reflexivity|].
  destruct (N.eq_dec k 0) as [->|Hk]; [rewrite skipN_0, N.add_0_l; reflexivity|].
  replace k with (N.succ (N.pred k)) by lia. rewrite skipN_cons_succ, IH.
  replace (N.succ (N.pred k) + j) with (N.succ (N.pred k + j)) by lia. rewrite nthN_cons_succ. reflexivity.
Qed.

Lemma bm_get_skipN : forall ws k p, bm_get (skipN ws k) p = bm_get ws (64 * k + p).
Proof.
  induction ws as [|x r IH]; intros k p; [reflexivity|].
  destruct (N.eq_dec k 0) as [->|Hk]; [rewrite skipN_0; f_equal; lia|].
  replace k with (N.succ (N.pred k)) at 1 by lia. rewrite skipN_cons_succ, IH.
  rewrite (bm_get_ge64 x r (64 * k + p)) by lia. f_equal. lia.
Qed.

Lemma Rk_add : forall ws k j, Rk ws (k + j) = Rk ws k + Rk (skipN ws k) j.
Proof.
  intros ws k j. unfold Rk.
  replace (64 * N.to_nat (k + j))%nat with (64 * N.to_nat k + 64 * N.to_nat j)%nat by lia.
  rewrite count_below_add, Nat2N.inj_add. f_equal. f_equal.
  apply count_below_ext. intros p _. rewrite bm_get_skipN. f_equal. lia.
Qed.

Lemma Rk_0 : forall ws, Rk ws 0 = 0.
Proof. reflexivity. Qed.

Lemma Rk_succ : forall ws k w, words_ok ws -> nthN ws k = Some w -> Rk ws (N.succ k) = Rk ws k + popcount w.
Proof.
  intros ws k w Hok H. unfold Rk. rewrite <- (count_word_at ws k w Hok H). f_equal. f_equal. lia.
Qed.

Lemma words_ok_skipN : forall ws k, words_ok ws -> words_ok (skipN ws k).
Proof.
  induction ws as [|x r IH]; intros k H; [exact H|].
  destruct (N.eq_dec k 0) as [->|Hk]; [rewrite skipN_0; exact H|].
  replace k with (N.succ (N.pred k)) by lia. rewrite skipN_cons_succ. apply IH. inversion H; assumption.
Qed.

Lemma words_ok_nth : forall ws k w, words_ok ws -> nthN ws k = Some w -> w < 2 ^ 64.
Proof.
  intros ws k w Hok H. unfold words_ok in Hok. rewrite Forall_forall in Hok. apply Hok.
  rewrite nthN_nth_error in H. eapply nth_error_In; exact H.
Qed.

Lemma total_ones_split : forall ws k, k <= N.of_nat (length ws) ->
  total_ones ws = Rk ws k + total_ones (skipN ws k).
Proof.
  intros ws k H. unfold total_ones. rewrite skipN_length by assumption.
  replace (N.of_nat (length ws)) with (k + (N.of_nat (length ws) - k)) at 1 by lia. apply Rk_add.
Qed.

Lemma total_ones_cons : forall x r, words_ok (x :: r) -> total_ones (x :: r) = popcount x + total_ones r.
Proof.
  intros x r Hok. rewrite (total_ones_split (x :: r) 1) by (cbn [length]; lia).
  change 1 with (N.succ 0). rewrite (Rk_succ (x :: r) 0 x Hok) by reflexivity.
  rewrite Rk_0, skipN_cons_succ, skipN_0. lia.
Qed.

(* ---------- the scan over the rank index ---------- *)
Lemma index_rank64_t_hd : forall ws n, exists t, index_rank64_t ws n = n :: t.
Proof. intros [|w r] n; cbn [index_rank64_t]; eauto. Qed.

Lemma scan_rank_spec : forall ws n0 wi0 i,
  words_ok ws -> n0 <= i -> i < n0 + total_ones ws ->
  exists k w, scan_rank (tl (index_rank64_t ws n0)) wi0 i = Val (wi0 + k) /\ nthN ws k = Some w /\ n0 + Rk ws k <= i /\ i < n0 + Rk ws k + popcount w.
Proof.
  induction ws as [|x r IH]; intros n0 wi0 i Hok Hle Hlt.
  - unfold total_ones, Rk in Hlt. cbn in Hlt. lia.
  - rewrite (total_ones_cons x r Hok) in Hlt. inversion Hok as [|? ? Hx Hr]; subst.
    cbn [index_rank64_t tl]. destruct (index_rank64_t_hd r (n0 + popcount x)) as [t Et].
    rewrite Et. cbn [scan_rank]. destruct (N.leb_spec (n0 + popcount x) i) as [Hc|Hc].
    + destruct (IH (n0 + popcount x) (N.succ wi0) i Hr Hc) as (k & w & E & Hn & H1 & H2); [lia|].
      rewrite Et in E. cbn [tl] in E.
      exists (N.succ k), w. split; [rewrite E; f_equal; lia|]. split; [rewrite nthN_cons_succ; exact Hn|].
      assert (HR : Rk (x :: r) (N.succ k) = popcount x + Rk r k).
      { replace (N.succ k) with (1 + k) by lia. rewrite Rk_add. change 1 with (N.succ 0).
        rewrite (Rk_succ (x :: r) 0 x Hok) by reflexivity. rewrite Rk_0, skipN_cons_succ, skipN_0. lia. }
      rewrite HR. lia.
    + exists 0, x. split; [f_equal; lia|]. split; [reflexivity|]. rewrite Rk_0. lia.
Qed.

Lemma skipN_index_rank64_t : forall ws n0 k, words_ok ws -> k <= N.of_nat (length ws) ->
  skipN (index_rank64_t ws n0) (N.succ k) = tl (index_rank64_t (skipN ws k) (n0 + Rk ws k)).
Proof.
  induction ws as [|x r IH]; intros n0 k Hok Hk.
  - cbn [length] in Hk. assert (k = 0) by lia. subst. reflexivity.
  - inversion Hok as [|? ? Hx Hr]; subst. cbn [index_rank64_t]. rewrite skipN_cons_succ.
    destruct (N.eq_dec k 0) as [->|Hne].
    + rewrite !skipN_0, Rk_0, N.add_0_r. reflexivity.
    + replace k with (N.succ (N.pred k)) by lia. rewrite skipN_cons_succ.
      rewrite IH by (try assumption; cbn [length] in Hk; lia). f_equal. f_equal.
      replace (N.succ (N.pred k)) with (1 + N.pred k) by lia. rewrite Rk_add. change 1 with (N.succ 0).
      rewrite (Rk_succ (x :: r) 0 x Hok) by reflexivity. rewrite Rk_0, skipN_cons_succ, skipN_0. lia.
Qed.

(* ---------- trailing zeros, next set bit ---------- *)
Lemma ctz_pos_spec : forall p,
  N.testbit (N.pos p) (ctz_pos p) = true /\ forall j, j < ctz_pos p -> N.testbit (N.pos p) j = false.
Proof.
  induction p as [p IH|p IH|]; cbn [ctz_pos].
  - split; [reflexivity|]. intros j Hj. lia.
  - destruct IH as [T F]. split.
    + rewrite N.testbit_succ_r_div2 by lia. exact T.
    + intros j Hj. destruct (N.eq_dec j 0) as [->|Hne]; [reflexivity|].
      replace j with (N.succ (N.pred j)) by lia. rewrite N.testbit_succ_r_div2 by lia.
      apply F. lia.
  - split; [reflexivity|]. intros j Hj. lia.
Qed.

Lemma testbit_true_lt : forall w n b, w < 2 ^ n -> N.testbit w b = true -> b < n.
Proof.
  intros w n b Hw Hb. destruct (N.lt_ge_cases b n) as [|Hge]; [assumption|].
  rewrite <- (N.mod_small w (2 ^ n)) in Hb by assumption.
  rewrite N.mod_pow2_bits_high in Hb by assumption. discriminate.
Qed.

Lemma ctz_spec : forall w, w <> 0 -> w < 2 ^ 64 ->
  ctz 64 w < 64 /\ N.testbit w (ctz 64 w) = true /\ forall j, j < ctz 64 w -> N.testbit w j = false.
Proof.
  intros w Hw Hlt. destruct w as [|p]; [congruence|]. cbn [ctz].
  destruct (ctz_pos_spec p) as [T F]. split; [eapply testbit_true_lt; eassumption|]. split; assumption.
Qed.

Lemma shiftl6 : forall wi, N.shiftl wi 6 = 64 * wi.
Proof. intros. rewrite N.shiftl_mul_pow2. change (2 ^ 6) with 64. lia. Qed.

Lemma next_set_spec : forall ws wi,
  words_ok ws ->
  let b := next_set ws wi in
  64 * wi <= b /\ (forall c, c < b - 64 * wi -> bm_get ws c = false) /\ (bm_get ws (b - 64 * wi) = true \/ b = 64 * (wi + N.of_nat (length ws))).
Proof.
  induction ws as [|w r IH]; intros wi Hok; cbv zeta.
  - cbn [next_set length]. rewrite shiftl6. split; [lia|]. split; [intros; apply bm_get_nil|right; lia].
  - inversion Hok as [|? ? Hw Hr]; subst. cbn [next_set]. destruct (N.eqb_spec w 0) as [->|Hne].
    + destruct (IH (N.succ wi) Hr) as (H1 & H2 & H3). split; [lia|]. split.
      * intros c Hc. destruct (N.lt_ge_cases c 64) as [Hlt|Hge].
        -- rewrite bm_get_cons_low by assumption. apply N.bits_0.
        -- rewrite bm_get_ge64 by assumption. apply H2. lia.
      * destruct H3 as [H3|H3].
        -- left. rewrite bm_get_ge64 by lia.
           replace (next_set r (N.succ wi) - 64 * wi - 64) with (next_set r (N.succ wi) - 64 * N.succ wi) by lia. exact H3.
        -- right. rewrite H3. cbn [length]. lia.
    + rewrite shiftl6. destruct (ctz_spec w Hne Hw) as (C1 & C2 & C3). split; [lia|].
      replace (64 * wi + ctz 64 w - 64 * wi) with (ctz 64 w) by lia. split.
      * intros c Hc. rewrite bm_get_cons_low by lia. apply C3. exact Hc.
      * left. rewrite bm_get_cons_low by assumption. exact C2.
Qed.

(* ---------- Select32R64 ---------- *)
Theorem select32_r64_correct : forall ws i,
  words_ok ws -> i < total_ones ws ->
  exists a b, select32_r64 ws (index_select32 ws) (index_rank64_t ws 0) i = Val (a, b) /\ is_select ws i a /\ is_next ws a b.
Proof.
  intros ws i Hok Hi. unfold select32_r64.
  destruct (index_select32_some ws i Hi) as [s Es]. rewrite Es.
  destruct (index_select32_nth ws _ s Es) as [Gs Rs].
  pose proof (bm_get_true_lt ws s Gs) as Hs.
  set (k0 := word_of s).
  assert (Hk0 : k0 < N.of_nat (length ws)) by (unfold k0; rewrite word_of_spec; lia).
  assert (HR0 : Rk ws k0 <= i).
  { assert (Rk ws k0 = rank_spec ws (64 * k0)) by (unfold Rk, rank_spec; f_equal; f_equal; lia).
    pose proof (rank_spec_mono ws (64 * k0) s) as Hm.
    assert (64 * k0 <= s) by (unfold k0; rewrite word_of_spec; lia).
    rewrite N.shiftr_div_pow2 in Rs. change (2 ^ 5) with 32 in Rs. lia. }
  rewrite (skipN_index_rank64_t ws 0 k0 Hok) by lia. rewrite N.add_0_l.
  destruct (scan_rank_spec (skipN ws k0) (Rk ws k0) k0 i (words_ok_skipN _ _ Hok) HR0) as (k & w & Esc & Hn & H1 & H2).
  { rewrite <- total_ones_split by lia. exact Hi. }
  rewrite Esc. rewrite nthN_skipN in Hn. set (wi := k0 + k) in *. rewrite Hn.
  rewrite <- Rk_add in H1, H2. fold wi in H1, H2.
  pose proof (nthN_Some_lt _ _ _ Hn) as Hwi.
  destruct (nthN_lt_Some (index_rank64_t ws 0) wi) as [r0 Er0]; [rewrite index_rank64_t_length; lia|].
  rewrite Er0. apply (index_rank64_t_nth ws Hok) in Er0. rewrite N.add_0_l in Er0. fold (Rk ws wi) in Er0. subst r0.
  pose proof (words_ok_nth _ _ _ Hok Hn) as Hw.
  destruct (sel_word_correct w (i - Rk ws wi) Hw) as (a0 & Ea & La & [Ta Ca]); [lia|].
  rewrite Ea. rewrite shiftl6.
  assert (Hbit : bit_of (a0 + 64 * wi) = a0) by (rewrite N.add_comm; apply bit_of_join; assumption).
  rewrite Hbit.
  assert (Hsel : is_select ws i (a0 + 64 * wi)).
  { split.
    - rewrite N.add_comm. rewrite (bm_get_word ws wi w a0 Hn La). exact Ta.
    - rewrite N.add_comm. rewrite (rank_spec_split ws wi a0 w Hn) by lia.
      fold (Rk ws wi). rewrite Ca. lia. }
  set (w' := N.ldiff w (N.ones (N.succ a0))).
  assert (Hw'bit : forall j, N.testbit w' j = N.testbit w j && (a0 <? j)).
  { intros j. unfold w'. rewrite N.ldiff_spec. f_equal.
    destruct (N.ltb_spec a0 j).
    - rewrite N.ones_spec_high by lia. reflexivity.
    - rewrite N.ones_spec_low by lia. reflexivity. }
  assert (Hw'lt : w' < 2 ^ 64).
  { destruct (N.eq_dec w' 0) as [->|Hne]; [reflexivity|].
    apply N.log2_lt_pow2; [lia|]. 
    destruct (N.lt_ge_cases (N.log2 w') 64) as [|Hge]; [assumption|]. exfalso.
    pose proof (N.bit_log2 w' Hne) as Hb. rewrite Hw'bit in Hb. apply andb_true_iff in Hb. destruct Hb as [Hb _].
    pose proof (testbit_true_lt _ _ _ Hw Hb). lia. }
  destruct (N.eqb_spec w' 0) as [Hz|Hnz].
  - (* no further set bit in this word *)
    eexists _, _. split; [reflexivity|]. split; [exact Hsel|].
    pose proof (next_set_spec (skipN ws (N.succ wi)) (N.succ wi) (words_ok_skipN _ _ Hok)) as Hns.
    cbv zeta in Hns. destruct Hns as (N1 & N2 & N3).
    set (b := next_set (skipN ws (N.succ wi)) (N.succ wi)) in *.
    assert (Hclr : forall j, a0 < j -> j < 64 -> N.testbit w j = false).
    { intros j Hj _. pose proof (Hw'bit j) as Hb. rewrite Hz, N.bits_0 in Hb.
      destruct (N.ltb_spec a0 j); [|lia]. rewrite andb_true_r in Hb. congruence. }
    split; [lia|]. split.
    + intros c Hc1 Hc2. destruct (N.lt_ge_cases c (64 * N.succ wi)) as [Hlt|Hge].
      * replace c with (64 * wi + (c - 64 * wi)) by lia. rewrite (bm_get_word ws wi w _ Hn) by lia.
        apply Hclr; lia.
      * specialize (N2 (c - 64 * N.succ wi)). rewrite bm_get_skipN in N2.
        replace (64 * N.succ wi + (c - 64 * N.succ wi)) with c in N2 by lia. apply N2. lia.
    + destruct N3 as [N3|N3].
      * left. rewrite bm_get_skipN in N3. replace (64 * N.succ wi + (b - 64 * N.succ wi)) with b in N3 by lia. exact N3.
      * right. rewrite N3. rewrite skipN_length by lia. lia.
  - destruct (ctz_spec w' Hnz Hw'lt) as (C1 & C2 & C3).
    eexists _, _. split; [reflexivity|]. split; [exact Hsel|].
    rewrite Hw'bit in C2. apply andb_true_iff in C2. destruct C2 as [C2 C2'].
    apply N.ltb_lt in C2'. split; [lia|]. split.
    + intros c Hc1 Hc2. replace c with (64 * wi + (c - 64 * wi)) by lia.
      rewrite (bm_get_word ws wi w _ Hn) by lia.
      pose proof (C3 (c - 64 * wi)) as Hf. rewrite Hw'bit in Hf.
      destruct (N.ltb_spec a0 (c - 64 * wi)); [|lia]. rewrite andb_true_r in Hf. apply Hf. lia.
    + left. rewrite (bm_get_word ws wi w _ Hn) by assumption. exact C2.
Qed.

(* select on a bitmap whose set bits are a known ascending list *)
Theorem select_listed : forall ws P i a b,
  StronglySorted N.lt P -> (forall k, bm_get ws k = true <-> In k P) ->
  (S (N.to_nat i) < length P)%nat ->
  is_select ws i a -> is_next ws a b ->
  a = nth (N.to_nat i) P 0 /\ b = nth (S (N.to_nat i)) P 0.
Proof.
  intros ws P i a b Hs Hf Hi [Ga Ra] (Hab & Hclr & Hb).
  assert (Hnth : forall j, (j < length P)%nat -> rank_spec ws (nth j P 0) = N.of_nat j)
    by (intros j Hj; apply (rank_of_listed ws P j Hs Hf Hj)).
  assert (Hrank_inj : forall x, In x P -> forall j, (j < length P)%nat -> rank_spec ws x = N.of_nat j -> x = nth j P 0).
  { intros x Hx j Hj Hr. destruct (In_nth _ _ 0 Hx) as (jx & Hjx & <-).
    rewrite Hnth in Hr by assumption. f_equal. lia. }
  assert (Ea : a = nth (N.to_nat i) P 0).
  { apply Hrank_inj; [apply Hf; exact Ga|lia|rewrite Ra; lia]. }
  split; [exact Ea|].
  set (a1 := nth (S (N.to_nat i)) P 0).
  assert (Ha1 : In a1 P) by (apply nth_In; exact Hi).
  assert (Hlt : a < a1).
  { rewrite Ea. unfold a1. clear -Hs Hi. revert Hi. generalize (N.to_nat i) as j. revert Hs.
    induction P as [|x r IH]; intros Hs j Hj; [cbn in Hj; lia|].
    inversion Hs as [|? ? Hs' Hall]; subst. destruct j as [|j].
    - cbn [nth]. rewrite Forall_forall in Hall. apply Hall. apply nth_In. cbn [length] in Hj. lia.
    - cbn [nth]. apply IH; [assumption|cbn [length] in Hj; lia]. }
  destruct (N.lt_trichotomy b a1) as [Hc|[Hc|Hc]]; [|exact Hc|].
  - (* b < a1: b is set (it cannot be the end: a1 is set and beyond) -> a listed element strictly between *)
    exfalso. assert (Gb : bm_get ws b = true).
    { destruct Hb as [Hb|Hb]; [exact Hb|]. apply Hf in Ha1. apply bm_get_true_lt in Ha1. lia. }
    apply Hf in Gb. destruct (In_nth _ _ 0 Gb) as (jb & Hjb & Eb).
    assert (rank_spec ws b = N.of_nat jb) by (rewrite <- Eb; apply Hnth; exact Hjb).
    pose proof (rank_spec_mono ws a b ltac:(lia)). pose proof (rank_spec_mono ws b a1 ltac:(lia)).
    unfold a1 in *. rewrite Hnth in * by assumption.
    assert (jb = N.to_nat i \/ jb = S (N.to_nat i)) as [->| ->] by lia.
    + rewrite <- Ea in Eb. lia.
    + lia.
  - exfalso. apply Hf in Ha1. rewrite (Hclr a1 Hlt Hc) in Ha1. discriminate.
Qed.

(* ---------- get_bits ---------- *)
Lemma get_bits_spec : forall n ws from,
  from + N.of_nat n <= 64 * N.of_nat (length ws) ->
  exists l, get_bits ws from n = Val l /\ length l = n /\ forall j, (j < n)%nat -> nth j l false = bm_get ws (from + N.of_nat j).
Proof.
  induction n as [|n IH]; intros ws from H.
  - exists []. cbn. repeat split. intros; lia.
  - cbn [get_bits]. destruct (nthN_lt_Some ws (word_of from)) as [w Ew]; [rewrite word_of_spec; lia|].
    rewrite Ew. destruct (IH ws (N.succ from)) as (l & E & L & G); [lia|]. rewrite E.
    exists (N.testbit w (bit_of from) :: l). split; [reflexivity|]. split; [cbn [length]; lia|].
    intros [|j] Hj.
    + cbn [nth]. rewrite N.add_0_r. unfold bm_get. rewrite Ew. reflexivity.
    + cbn [nth]. rewrite G by lia. f_equal. lia.
Qed.

Lemma true_pos_spec : forall l k,
  StronglySorted N.lt (true_pos l k) /\ forall p, In p (true_pos l k) <-> k <= p /\ p < k + N.of_nat (length l) /\ nth (N.to_nat (p - k)) l false = true.
Proof.
  induction l as [|b r IH]; intros k.
  - cbn. split; [constructor|]. intros p. split; [intros []|lia].
  - cbn [true_pos]. destruct (IH (N.succ k)) as [Hs Hi]. split.
    + destruct b; cbn [app]; [|exact Hs]. constructor; [exact Hs|].
      rewrite Forall_forall. intros p Hp. apply Hi in Hp. lia.
    + intros p. rewrite in_app_iff, Hi. cbn [length]. split.
      * intros [Hp|(A & B & C)].
        -- destruct b; [|destruct Hp]. destruct Hp as [<-|[]]. rewrite N.sub_diag. cbn. lia.
        -- split; [lia|]. split; [lia|]. replace (N.to_nat (p - k)) with (S (N.to_nat (p - N.succ k))) by lia. exact C.
      * intros (A & B & C). destruct (N.eq_dec p k) as [->|Hne].
        -- left. rewrite N.sub_diag in C. cbn in C. subst b. left. reflexivity.
        -- right. split; [lia|]. split; [lia|].
           replace (N.to_nat (p - k)) with (S (N.to_nat (p - N.succ k))) in C by lia. exact C.
Qed.
