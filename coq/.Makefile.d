theories/Base.vo theories/Base.glob theories/Base.v.beautified theories/Base.required_vo: theories/Base.v 
theories/Base.vio: theories/Base.v 
theories/Base.vos theories/Base.vok theories/Base.required_vos: theories/Base.v 
theories/Keys.vo theories/Keys.glob theories/Keys.v.beautified theories/Keys.required_vo: theories/Keys.v theories/Base.vo
theories/Keys.vio: theories/Keys.v theories/Base.vio
theories/Keys.vos theories/Keys.vok theories/Keys.required_vos: theories/Keys.v theories/Base.vos
theories/Model.vo theories/Model.glob theories/Model.v.beautified theories/Model.required_vo: theories/Model.v theories/Base.vo theories/Keys.vo
theories/Model.vio: theories/Model.v theories/Base.vio theories/Keys.vio
theories/Model.vos theories/Model.vok theories/Model.required_vos: theories/Model.v theories/Base.vos theories/Keys.vos
