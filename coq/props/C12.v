(* C12 - closing theorems only. *)
From Slim Require Import Base Keys Model.
