(* C12 - SlimIndex plus a key-verifying reader behaves as an exact map.
   Closing theorems only; model in theories/Index.v, proofs in
   theories/IndexProofs.v (dense index, Get) and theories/IndexRangeProofs.v
   (sparse index, RangeGet).

   A record table [rs] is a list of (key, offset, value); [index_build rs] is
   index.NewSlimIndex: a SlimTrie with default options (values de-duplicated, no
   prefixes) over the keys and the I64-encoded offsets.  [table_reader rs] is a
   DataReader that honours the documented contract: it returns the record iff
   one of the records stored at the requested offset has exactly the requested
   key.  [index_get]/[index_rangeget] are SlimIndex.Get/RangeGet: the trie
   lookup, the int64 type assertion (a nil value is an explicit panic outcome),
   the reader.  [lookup rs] is the plain map from keys to record values.

   Hypotheses are boolean checks on the table: offsets are int64 values, and
   strictly increasing (dense) resp. non-decreasing, i.e. adjacent keys share
   the offset of their block (sparse; any block size).  Ascending keys are not
   a hypothesis: they follow from [index_build rs = Ok T].  The conclusions hold
   for EVERY query string.  The proofs need less than the property grants:
   Get is exact as soon as adjacent offsets differ, RangeGet for any offsets. *)
From Coq Require Import String.
From Slim Require Import Base Keys Model Index IndexProofs IndexRangeProofs.
From Slim Require Encoders.
From SlimGen Require Gen_IntCodecs.

Theorem C12_get_exact_with_one_offset_per_key :
  forall (rs : list rcd) (T : trie) (q : key),
    offs_in_range rs = true -> offs_increasing rs = true ->
    index_build rs = Ok T ->
    index_get T (table_reader rs) q = Ok (lookup rs q).
Proof. exact index_get_exact_increasing. Qed.
Print Assumptions C12_get_exact_with_one_offset_per_key.

Theorem C12_rangeget_exact_with_block_offsets :
  forall (rs : list rcd) (T : trie) (q : key),
    offs_in_range rs = true -> offs_nondecreasing rs = true ->
    index_build rs = Ok T ->
    index_rangeget T (table_reader rs) q = Ok (lookup rs q).
Proof. exact index_rangeget_exact_blocks. Qed.
Print Assumptions C12_rangeget_exact_with_block_offsets.

(* the general forms *)
Theorem C12_get_exact_adjacent_offsets_differ :
  forall (rs : list rcd) (T : trie) (q : key),
    offs_in_range rs = true -> offs_adjacent_distinct rs = true ->
    index_build rs = Ok T ->
    index_get T (table_reader rs) q = Ok (lookup rs q).
Proof. exact index_get_exact. Qed.
Print Assumptions C12_get_exact_adjacent_offsets_differ.

Theorem C12_rangeget_exact_any_offsets :
  forall (rs : list rcd) (T : trie) (q : key),
    offs_in_range rs = true -> index_build rs = Ok T ->
    index_rangeget T (table_reader rs) q = Ok (lookup rs q).
Proof. exact index_rangeget_exact. Qed.
Print Assumptions C12_rangeget_exact_any_offsets.

(* the reference map is a map: it returns the value of the record with that key, if any *)
Theorem C12_lookup_is_the_record_map :
  forall (rs : list rcd) (T : trie), index_build rs = Ok T ->
    (forall r, In r rs -> lookup rs (r_key r) = Some (r_val r)) /\
    (forall q, (forall r, In r rs -> r_key r <> q) -> lookup rs q = None).
Proof.
  intros rs T Hb. split.
  - intros r Hin. exact (proj2 (reader_hit rs r (sorted_of_build rs T Hb) Hin)).
  - intros q Hno. exact (proj2 (reader_miss rs 0%Z q Hno)).
Qed.
Print Assumptions C12_lookup_is_the_record_map.

(* the offset codec of the model is encode.I64 as read from the source *)
Example C12_i64_codec :
  match Encoders.find_src_codec "I64"%string Gen_IntCodecs.g_int_codecs with
  | Some g => Encoders.codec_of_src g = c_i64
  | None => False
  end.
Proof. vm_compute. reflexivity. Qed.

(* non-vacuity: the README table of index/example_range_test.go, as a sparse
   index (blocks at offsets 0 and 31) and as a dense one *)
Definition ex_block : list rcd :=
  [ {| r_key := ["065"; "097"]%byte; r_off := 0; r_val := ["049"]%byte |};
    {| r_key := ["065"; "103"]%byte; r_off := 0; r_val := ["050"]%byte |};
    {| r_key := ["065"; "108"]%byte; r_off := 0; r_val := ["051"]%byte |};
    {| r_key := ["065"; "108"; "098"]%byte; r_off := 0; r_val := []%byte |};
    {| r_key := ["065"; "108"; "101"]%byte; r_off := 31; r_val := ["053"]%byte |};
    {| r_key := ["065"; "108"; "105"]%byte; r_off := 31; r_val := ["056"]%byte |} ].
Example C12_block_example :
  offs_in_range ex_block = true /\ offs_nondecreasing ex_block = true /\
  exists T, index_build ex_block = Ok T /\
            index_rangeget T (table_reader ex_block) ["065"; "108"]%byte = Ok (Some ["051"]%byte) /\
            index_rangeget T (table_reader ex_block) ["065"; "108"; "098"]%byte = Ok (Some []) /\
            index_rangeget T (table_reader ex_block) ["065"; "108"; "099"]%byte = Ok None /\
            (* Get is not exact on a sparse index: "Ag" was de-duplicated away *)
            index_get T (table_reader ex_block) ["065"; "103"]%byte = Ok None.
Proof. split; [reflexivity|]. split; [reflexivity|]. eexists. split; [vm_compute; reflexivity|]. vm_compute. repeat split. Qed.

Definition ex_dense : list rcd :=
  [ {| r_key := ["065"; "097"]%byte; r_off := (-9223372036854775808); r_val := ["049"]%byte |};
    {| r_key := ["065"; "103"]%byte; r_off := (-1); r_val := ["050"]%byte |};
    {| r_key := ["065"; "108"]%byte; r_off := 17; r_val := ["051"]%byte |};
    {| r_key := ["065"; "108"; "098"]%byte; r_off := 9223372036854775807; r_val := ["052"]%byte |} ].
Example C12_dense_example :
  offs_in_range ex_dense = true /\ offs_increasing ex_dense = true /\
  exists T, index_build ex_dense = Ok T /\
            index_get T (table_reader ex_dense) ["065"; "097"]%byte = Ok (Some ["049"]%byte) /\
            index_get T (table_reader ex_dense) ["065"; "108"; "098"]%byte = Ok (Some ["052"]%byte) /\
            (* "Qa" reaches the leaf of "Aa" in the trie; the reader rejects it *)
            get T ["081"; "097"]%byte <> Ok NotFound /\
            index_get T (table_reader ex_dense) ["081"; "097"]%byte = Ok None.
Proof. split; [reflexivity|]. split; [reflexivity|]. eexists. split; [vm_compute; reflexivity|]. vm_compute. repeat split. intros H; discriminate H. Qed.

(* ------------------------------------------------------------------------------------
   C12 THROUGH THE BITMAPS (message level, L3).  [encode_trie T] is the protobuf message of
   the index's trie as data (Bits.v: 64-bit words with rank/select indexes, packed label
   bitmaps, short-node table, VLenArrays), [init_vars] is initVars.  [mindex_get] /
   [mindex_rangeget] (IndexMsg.v) are SlimIndex.Get / RangeGet with the trie lookup computed
   from that message the way the Go code does (Msg.mget / Msg.mrangeget: getNode,
   getLeftChildID, getLeafPrefix, searchID with leftMost/rightMost, VLenArray.get), followed
   by the same type assertion, I64 decode and reader as above.  The fuel bounds the number of
   nodes visited; any value from the height of the trie on will do.
   Proofs in theories/IndexMsgProofs.v (on top of MsgProofs.v and the L3 refinement). *)
From Slim Require Import BitmapRank BitmapRank2 Bits Msg MsgProofs IndexMsg IndexMsgProofs GetIntMsgProofs.

(* every index trie has a message and initVars accepts it: the hypotheses below are satisfiable *)
Theorem C12_message_exists :
  forall (rs : list rcd) (T : trie), index_build rs = Ok T ->
    exists m vs, encode_trie T = Val m /\ init_vars m = Val vs.
Proof. intros rs T Hb. exact (built_message_exists _ _ _ T Hb). Qed.
Print Assumptions C12_message_exists.

(* the index lookups computed from the message are those of the tree model, for any reader *)
Theorem C12_message_lookups_are_the_tree_lookups :
  forall (rs : list rcd) (T : trie) (m : msg) (vs : vars) (rd : reader) (q : key) (fuel : nat),
    index_build rs = Ok T -> encode_trie T = Val m -> init_vars m = Val vs -> trie_height T <= fuel ->
    mindex_get (S fuel) m vs rd q = index_get T rd q /\
    mindex_rangeget (S fuel) m vs rd q = index_rangeget T rd q.
Proof. exact mindex_eq. Qed.
Print Assumptions C12_message_lookups_are_the_tree_lookups.

(* the property, computed from the message: dense index + Get and sparse index + RangeGet,
   composed with the key-verifying reader, are the exact record map for every query string *)
Theorem C12_message_level :
  forall (rs : list rcd) (T : trie) (m : msg) (vs : vars) (q : key) (fuel : nat),
    offs_in_range rs = true -> index_build rs = Ok T ->
    encode_trie T = Val m -> init_vars m = Val vs -> trie_height T <= fuel ->
    (offs_increasing rs = true -> mindex_get (S fuel) m vs (table_reader rs) q = Ok (lookup rs q)) /\
    (offs_nondecreasing rs = true -> mindex_rangeget (S fuel) m vs (table_reader rs) q = Ok (lookup rs q)).
Proof. exact mindex_exact. Qed.
Print Assumptions C12_message_level.

(* the general forms *)
Theorem C12_message_level_general :
  forall (rs : list rcd) (T : trie) (m : msg) (vs : vars) (q : key) (fuel : nat),
    offs_in_range rs = true -> index_build rs = Ok T ->
    encode_trie T = Val m -> init_vars m = Val vs -> trie_height T <= fuel ->
    (offs_adjacent_distinct rs = true -> mindex_get (S fuel) m vs (table_reader rs) q = Ok (lookup rs q)) /\
    mindex_rangeget (S fuel) m vs (table_reader rs) q = Ok (lookup rs q).
Proof. exact mindex_exact_general. Qed.
Print Assumptions C12_message_level_general.

(* non-vacuity: the two example tables, the lookups computed from the message *)
Example C12_message_example :
  (exists T m vs, index_build ex_block = Ok T /\ encode_trie T = Val m /\ init_vars m = Val vs /\
     Nat.leb (trie_height T) 5 = true /\
     mindex_rangeget 6 m vs (table_reader ex_block) ["065"; "108"]%byte = Ok (Some ["051"]%byte) /\
     mindex_rangeget 6 m vs (table_reader ex_block) ["065"; "108"; "098"]%byte = Ok (Some []) /\
     mindex_rangeget 6 m vs (table_reader ex_block) ["065"; "108"; "099"]%byte = Ok None /\
     mindex_get 6 m vs (table_reader ex_block) ["065"; "103"]%byte = Ok None) /\
  (exists T m vs, index_build ex_dense = Ok T /\ encode_trie T = Val m /\ init_vars m = Val vs /\
     Nat.leb (trie_height T) 5 = true /\
     mindex_get 6 m vs (table_reader ex_dense) ["065"; "097"]%byte = Ok (Some ["049"]%byte) /\
     mindex_get 6 m vs (table_reader ex_dense) ["065"; "108"; "098"]%byte = Ok (Some ["052"]%byte) /\
     mget 6 m vs ["081"; "097"]%byte = Ok (Found (Some ["000"; "000"; "000"; "000"; "000"; "000"; "000"; "128"]%byte)) /\
     mindex_get 6 m vs (table_reader ex_dense) ["081"; "097"]%byte = Ok None).
Proof.
  split; (eexists; eexists; eexists; split; [vm_compute; reflexivity|]; split; [vm_compute; reflexivity|];
          split; [vm_compute; reflexivity|]; vm_compute; repeat split).
Qed.
