(* C19 - String() renders every trie faithfully and never panics.
   Closing theorems only; proofs are in theories/StrProofs.v (and the
   breadth-first id facts in theories/StatProofs.v).

   Model level: L2 (tree model with BFS ids, coq/theories/Model.v) plus
   coq/theories/Str.v ([render]: the lines of String() in structured form:
   indent, label text, node id, step, fan-out, value).  The harness parses
   st.String(), checks that formatting the parsed lines with the layout of
   low/tree.String reproduces the text byte for byte, and the correspondence
   check compares the lines with [render] on generated tries, fresh and
   reloaded, including tries with short-node tables of every size 1..10 and
   257-bit nodes.  The text layout itself is compared, not proved. *)
From Slim Require Import Base Keys KeysProofs Model QueryProofs Stat StatProofs Str StrProofs.
From Coq Require Import Sorting.Permutation.

(* For every trie built by NewSlimTrie: String() does not panic
   ([render T = Ok ls]); its lines are the nodes of the tree in pre-order, one
   line per node, each showing that node's id, step and fan-out, and for a leaf
   its stored value; the ids on the lines are pairwise distinct and are exactly
   0 .. NodeCnt-1, so every node is shown exactly once; the values on the leaf
   lines, top to bottom, are the values of the retained keys in key order. *)
Theorem C19_render :
  forall (ropt : raw_opt) (keys : list key) (vals : option (list (list byte))) (T : trie),
    build (normalize ropt) keys vals = Ok T ->
    exists ls, render T = Ok ls /\
      Forall2 (line_matches T) ls (nodes_of T) /\
      map l_id ls = map tree_id (nodes_of T) /\
      NoDup (map l_id ls) /\
      Permutation (map l_id ls) (List.seq 0 (length ls)) /\
      Forall2 (fun v i => val_bytes v = supplied vals i /\ (vals = None -> v = None))
              (leaf_vals ls)
              (filter (retained (normalize ropt) keys vals) (List.seq 0 (length keys))).
Proof. intros ropt keys vals T. exact (render_correct (normalize ropt) keys vals T). Qed.
Print Assumptions C19_render.

(* node ids of a built tree are assigned breadth-first, hence distinct and
   exactly 0 .. NodeCnt-1 (what "each node exactly once" rests on) *)
Theorem C19_node_ids_distinct :
  forall o keys vals T r,
    build o keys vals = Ok T -> t_root T = Some r ->
    NoDup (map tree_id (QueryProofs.subtrees r)) /\
    Permutation (map tree_id (QueryProofs.subtrees r)) (List.seq 0 (length (QueryProofs.subtrees r))).
Proof. exact built_ids. Qed.
Print Assumptions C19_node_ids_distinct.

(* the number of lines is Stat's NodeCnt *)
Theorem C19_line_count :
  forall o keys vals T ls s,
    build o keys vals = Ok T -> render T = Ok ls -> stat T = Ok s -> length ls = st_nodecnt s.
Proof. exact render_line_count. Qed.
Print Assumptions C19_line_count.

(* PARTIAL: the clause "a loaded trie renders identically to the trie it was
   marshaled from".  Proved here: the rendering is a function of the tree and
   of the stored leaf values alone.  Missing: that Unmarshal (Marshal t)
   decodes to the same tree and leaves - C05's subject (wire level); for C19
   the clause is checked by the oracle on every generated trie (string
   equality of the two renderings). *)
Theorem C19_rendering_depends_on_tree_only_partial :
  forall T T' : trie, t_root T = t_root T' -> t_leaves T = t_leaves T' -> render T = render T'.
Proof. exact render_depends_on_tree. Qed.
Print Assumptions C19_rendering_depends_on_tree_only_partial.

(* non-vacuity: the empty key, a key that is a prefix of another, bytes
   0x00/0xff, duplicate values under the default options (dedup on) *)
Definition ex_keys : list key := [ []; ["000"%byte]; ["000"%byte; "255"%byte]; ["097"%byte]; ["097"%byte; "098"%byte]; ["255"%byte] ].
Definition ex_vals : option (list (list byte)) :=
  Some [ ["001"%byte]; ["001"%byte]; ["002"%byte]; ["002"%byte]; ["003"%byte]; ["003"%byte] ].
Definition ex_opt : raw_opt := {| r_dedup := None; r_inner := None; r_leaf := None; r_complete := None |}.

Example C19_hypotheses_satisfiable :
  exists T ls, build (normalize ex_opt) ex_keys ex_vals = Ok T /\ render T = Ok ls /\
               map l_id ls = [0; 1; 2; 4; 3; 5] /\
               map l_indent ls = [0; 4; 4; 15; 4; 15] /\
               leaf_vals ls = [Some ["001"%byte]; Some ["002"%byte]; Some ["003"%byte]] /\
               filter (retained (normalize ex_opt) ex_keys ex_vals) (List.seq 0 (length ex_keys)) = [0; 2; 4].
Proof. vm_compute. eexists. eexists. repeat split. Qed.

(* ---- String() over the MESSAGE and over the LOADED INSTANCE (composition of L2, L3, L4) ------
   coq/theories/StatMsg.v ([mrender]) runs String() the way the Go code runs it over the
   protobuf message fields (Bits.msg): the inner node ids from ToArray(NodeTypeBM.Words);
   for each of them getNode, getLabels (label bitmap of size 17 / 257 / a short-table entry
   decoded as 17; label text = bmtree path of the set index) and Rank128(Inners, from) for
   the child ids; then the walk of low/tree.String over the callbacks: bitmap.Get on
   NodeTypeBM and getNode's innerPrefixLen (NodeInfo), getLeafIndex = Rank64 on NodeTypeBM
   and getIthLeaf on Leaves (LeafVal).  Same structured lines as [render] (the text layout
   stays compared, not proved).  coq/theories/StatMsgInst.v: String() of an instance of the
   Unmarshal / Reset state machine ("" when NodeTypeBM == nil, else over inner and vars). *)
From Coq Require Import NArith ZArith.
From Slim Require Import BitmapRank Proto Instance Wire EndToEnd MsgProofs StatMsg StatMsgProofs StatMsgInst StatMsgInstProofs.
From Slim Require Bits.
Local Open Scope nat_scope.

(* on the message of every built trie, String() computed from the message fields yields
   exactly the lines of the tree: C19_render holds for what the implementation computes from
   its bitmaps ([fuel] bounds the depth of the walk) *)
Theorem C19_message_level_render :
  forall o keys vals T m vs fuel,
    build o keys vals = Ok T -> Bits.encode_trie T = Val m -> Bits.init_vars m = Val vs ->
    trie_height T <= fuel ->
    mrender fuel m vs = render T.
Proof. exact mrender_render. Qed.
Print Assumptions C19_message_level_render.

(* "a loaded trie renders identically to the trie it was marshaled from": build a trie from
   ANY accepted input, take its message m (tied to creator.build field by field in check
   L3), Marshal it and Unmarshal the bytes into an instance in ANY state after ANY history of
   Unmarshal / Reset calls.  String() of the loaded instance yields the same lines as
   String() of the instance NewSlimTrie returned ([built]: inner = m, vars = initVars(m)),
   and they are the lines of the tree.  [wf_msg (to_wire m)]: counts and offsets fit the Go
   field types and the body is below 2^63 bytes; to_wire is the identity on fields. *)
Theorem C19_loaded_renders_identically :
  forall (conv510 : slim -> slim) (conv3 : list byte -> list byte -> list byte -> slim)
         o keys vals T m vs s (st : inst VarsT LevelsT) h fuel,
    build o keys vals = Ok T -> Bits.encode_trie T = Val m -> Bits.init_vars m = Val vs ->
    wf_msg (to_wire m) = true -> marshal_gen (to_wire m) = Some s ->
    trie_height T <= fuel ->
    let built := installed VarsT LevelsT ivars ilevels (to_wire m) in
    let loaded := run compat_gen cur_gen VarsT LevelsT ivars ilevels reset_lv conv510 conv3 st (h ++ [OpUnmarshal s]) in
    inst_render loaded fuel = inst_render built fuel /\ inst_render loaded fuel = render T.
Proof. exact loaded_render. Qed.
Print Assumptions C19_loaded_renders_identically.

(* the hypotheses hold for the trie of the example above; the message-level String()
   computes its lines from the bitmaps *)
Example C19_loaded_example :
  exists T m vs s ls, build (normalize ex_opt) ex_keys ex_vals = Ok T /\ Bits.encode_trie T = Val m /\
    Bits.init_vars m = Val vs /\ wf_msg (to_wire m) = true /\ marshal_gen (to_wire m) = Some s /\
    trie_height T <= 5 /\ mrender 5 m vs = Ok ls /\
    map l_id ls = [0; 1; 2; 4; 3; 5] /\ map l_indent ls = [0; 4; 4; 15; 4; 15] /\
    leaf_vals ls = [Some ["001"%byte]; Some ["002"%byte]; Some ["003"%byte]].
Proof.
  destruct (build (normalize ex_opt) ex_keys ex_vals) as [T|] eqn:E; [|vm_compute in E; discriminate].
  vm_compute in E. injection E as <-.
  eexists _, _, _, _, _. split; [reflexivity|]. split; [vm_compute; reflexivity|]. split; [vm_compute; reflexivity|].
  split; [vm_compute; reflexivity|]. split; [vm_compute; reflexivity|]. split; [vm_compute; repeat constructor|].
  split; [vm_compute; reflexivity|]. vm_compute. repeat split.
Qed.
