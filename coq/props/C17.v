(* C17 - Filter-mode index size is linear in key count and independent of key length.
   Closing theorems only; proofs are in theories/SizeProofs.v.

   Model level: Size.encode_trie lays out, bit for bit, the Slim message that
   creator.build produces for a trie built without stored prefixes and without
   values (from the tree model of Model.v), Proto.size_slim is proto.Size of that
   message, Size.marshal_size adds the 32-byte pbcmpl header.  The correspondence
   check compares every field of the message (words, rank indexes, short table,
   step bytes) and the two sizes with the implementation on generated tries. *)
From Slim Require Import Base Keys KeysProofs Model Varint Proto Size SizeProofs.
From Slim Require Frame FrameProofs.
Local Open Scope nat_scope.

Definition filter_opt : opts := normalize {| r_dedup := None; r_inner := None; r_leaf := None; r_complete := None |}.

(* (a) node counts of every trie built without values: one leaf per key, at least
   two labels per inner node and more than ten per big node *)
Theorem C17_node_counts :
  forall (o : opts) (keys : list key) (T : trie) (r : tree),
    build o keys None = Ok T -> t_root T = Some r ->
    leaf_count r = length keys /\
    node_count r = inner_count r + length keys /\
    inner_count r + 9 * big_count (inners r) + 1 <= length keys.
Proof. exact built_counts. Qed.
Print Assumptions C17_node_counts.

(* (b) the size clause: in filter mode (no stored prefixes, no values) the serialized
   index is at most 8 bytes per key plus 256 bytes, for every key list that
   NewSlimTrie accepts - any key lengths and contents.  The hypothesis on the
   number of keys (2^26) is the range in which the int32 bit positions of the Go
   creator (17 bits per inner node in Inners) cannot wrap; it is far above the
   10^5 keys of the property. *)
Theorem C17_bound :
  forall (o : opts) (keys : list key) (T : trie),
    o_inner o = false -> o_leaf o = false ->
    build o keys None = Ok T ->
    (N.of_nat (length keys) < 67108864)%N ->
    (marshal_size T <= 8 * N.of_nat (length keys) + 256)%N.
Proof. exact filter_size_bound. Qed.
Print Assumptions C17_bound.

(* the same bound for the byte string itself: Frame.marshal is the model of
   SlimTrie.Marshal (pbcmpl header + the protobuf serializer of Proto.v) used by
   C05/C07; [cur] is the version string *)
Theorem C17_bound_bytes :
  forall (o : opts) (keys : list key) (T : trie) (cur s : list byte),
    o_inner o = false -> o_leaf o = false ->
    build o keys None = Ok T ->
    (N.of_nat (length keys) < 67108864)%N ->
    Frame.marshal cur (encode_trie T) = Some s ->
    (N.of_nat (length s) <= 8 * N.of_nat (length keys) + 256)%N.
Proof.
  intros o keys T cur s Hi Hl Hb Hn Hm.
  rewrite (FrameProofs.marshal_length _ _ _ Hm).
  exact (filter_size_bound o keys T Hi Hl Hb Hn).
Qed.
Print Assumptions C17_bound_bytes.

(* the default options of NewSlimTrie are filter mode *)
Example C17_default_is_filter_mode : o_inner filter_opt = false /\ o_leaf filter_opt = false.
Proof. split; reflexivity. Qed.

(* non-vacuity: a concrete filter-mode trie (a key that is a prefix of another,
   the empty key, bytes 0x00/0xff), its node counts and its exact size *)
Definition ex_keys : list key :=
  [ []; ["000"%byte]; ["000"%byte; "255"%byte]; ["097"%byte]; ["097"%byte; "098"%byte]; ["097"%byte; "099"%byte]; ["255"%byte] ].

Example C17_hypotheses_satisfiable :
  exists T r, build filter_opt ex_keys None = Ok T /\ t_root T = Some r /\
              leaf_count r = 7 /\ inner_count r = 4 /\ marshal_size T = 105%N.
Proof.
  eexists. eexists. split; [vm_compute; reflexivity|]. split; [reflexivity|]. vm_compute. repeat split.
Qed.

(* (c) independence of key length.  Prepending a common prefix P to every key
   yields THE SAME TREE except that the root's single-branch run grows by 2*|P|
   half-bytes: no key material is stored, whatever the key lengths. *)
Theorem C17_prefix_same_tree :
  forall (o : opts) (P : key) (keys : list key) (T T' : trie),
    o_inner o = false -> o_leaf o = false ->
    build o keys None = Ok T -> build o (map (app P) keys) None = Ok T' ->
    t_root T' = option_map (bump_step (2 * length P)) (t_root T) /\
    t_innerpfx T' = t_innerpfx T /\ t_leafpfx T' = t_leafpfx T /\ t_leaves T' = t_leaves T.
Proof. exact prefix_same_tree. Qed.
Print Assumptions C17_prefix_same_tree.

(* ... hence the serialized size is EXACTLY the same when the root already had a
   step (all keys share their first half-byte) or the trie is a single leaf *)
Theorem C17_prefix_size_equal :
  forall (o : opts) (P : key) (keys : list key) (T T' : trie),
    o_inner o = false -> o_leaf o = false ->
    build o keys None = Ok T -> build o (map (app P) keys) None = Ok T' ->
    (forall r, t_root T = Some r -> root_has_step r = true) ->
    marshal_size T' = marshal_size T.
Proof. exact prefix_size_equal. Qed.
Print Assumptions C17_prefix_size_equal.

(* In general (the root may gain a step) the size grows by at most 9 bytes plus
   one byte per entry of the r128 rank index of InnerPrefixes.PresenceBM, of
   which there are about (inner nodes)/128: this is the true bound that replaces
   "a few bytes"; and the size never shrinks (C17_prefix_never_shrinks). *)
Theorem C17_prefix_delta_bound :
  forall (o : opts) (P : key) (keys : list key) (T T' : trie),
    o_inner o = false -> o_leaf o = false ->
    build o keys None = Ok T -> build o (map (app P) keys) None = Ok T' ->
    (N.of_nat (length keys) < 67108864)%N ->
    (marshal_size T' <= marshal_size T + N.of_nat (presence_rank_entries T) + 9)%N.
Proof. exact prefix_delta_bound. Qed.
Print Assumptions C17_prefix_delta_bound.

Theorem C17_prefix_never_shrinks :
  forall (o : opts) (P : key) (keys : list key) (T T' : trie),
    o_inner o = false -> o_leaf o = false ->
    build o keys None = Ok T -> build o (map (app P) keys) None = Ok T' ->
    (N.of_nat (length keys) < 67108864)%N ->
    (marshal_size T <= marshal_size T')%N.
Proof. exact prefix_never_shrinks. Qed.
Print Assumptions C17_prefix_never_shrinks.

Theorem C17_rank_entries :
  forall r, 128 * length (rank128 0 (chunks64 (map has_step (inners r)))) <= inner_count r + 191.
Proof. exact presence_rank_entries_le. Qed.
Print Assumptions C17_rank_entries.

(* The clause "changes the size by at most a few bytes" is REFUTED as a universal
   statement when the root has no step: the root gains a step entry and every
   entry of the r128 rank index of InnerPrefixes.PresenceBM grows by one; entries
   that sit at 127 cross a varint boundary.  Witness (finding
   C17:prefix-delta:rank-index-varint-carry): 2032 keys  f 'x' 'x' a b  with
   f = 0..126 and a, b in {00, 01, 10, 11}; prefix 0x83: 1903 -> 1921 bytes (+18,
   more than the 16 the format analysis allows for "a few"); the excess grows
   like n/128.  The implementation produces the same two sizes. *)
Definition c17_bnat (n : nat) : byte := match Byte.of_nat n with Some b => b | None => x00 end.
Definition c17_bytes4 : list byte := [x00; x01; x10; x11].
Definition c17_pairs : list (byte * byte) := flat_map (fun a => map (fun b => (a, b)) c17_bytes4) c17_bytes4.
Definition c17_plateau : list key :=
  flat_map (fun f => map (fun ab => [c17_bnat f; x78; x78; fst ab; snd ab]) c17_pairs) (seq 0 127).
Definition c17_size (keys : list key) : option N :=
  match build filter_opt keys None with Ok T => Some (marshal_size T) | Err _ => None end.

Theorem C17_prefix_few_bytes_refuted :
  length c17_plateau = 2032 /\
  c17_size c17_plateau = Some 1903%N /\
  c17_size (map (app [x83]) c17_plateau) = Some 1921%N.
Proof. vm_compute. repeat split. Qed.
Print Assumptions C17_prefix_few_bytes_refuted.

(* ---------------------------------------------------------------------------------
   The size model IS the end-to-end byte model.  Size.encode_trie (above) and the model
   of every other property - Bits.encode_trie (creator.build at word level, every mode)
   followed by EndToEnd.to_wire and Wire.marshal_gen, which check L3 compares byte for
   byte with the real Marshal() on every run - were written independently.  For every
   filter-mode trie of the builder they produce THE SAME wire record (all ten fields:
   NodeTypeBM, Inners, ShortBM with their rank indexes, ShortSize, ShortTable,
   BigInnerCnt, InnerPrefixes in step form, LeafPrefixes = Leaves = nil; the empty trie
   gives the empty message on both sides).  Proofs: theories/SizeBits*Proofs.v.
   --------------------------------------------------------------------------------- *)
From Slim Require BitmapRank Bits EndToEnd Wire SizeBitsProofs.

Theorem C17_encoders_agree :
  forall (o : opts) (keys : list key) (T : trie),
    build o keys None = Ok T -> o_inner o = false -> o_leaf o = false ->
    exists m, Bits.encode_trie T = BitmapRank.Val m /\ EndToEnd.to_wire m = encode_trie T.
Proof. exact SizeBitsProofs.built_encoders_agree. Qed.
Print Assumptions C17_encoders_agree.

(* C17's size is the length of the bytes the end-to-end model marshals *)
Theorem C17_size_is_marshal_length :
  forall (o : opts) (keys : list key) (T : trie) (m : Bits.msg) (s : list byte),
    build o keys None = Ok T -> o_inner o = false -> o_leaf o = false ->
    Bits.encode_trie T = BitmapRank.Val m ->
    Wire.marshal_gen (EndToEnd.to_wire m) = Some s ->
    marshal_size T = N.of_nat (length s).
Proof. exact SizeBitsProofs.size_is_marshal_length. Qed.
Print Assumptions C17_size_is_marshal_length.

(* ... hence the size clause speaks about those bytes *)
Theorem C17_bound_marshal_bytes :
  forall (o : opts) (keys : list key) (T : trie) (m : Bits.msg) (s : list byte),
    build o keys None = Ok T -> o_inner o = false -> o_leaf o = false ->
    (N.of_nat (length keys) < 67108864)%N ->
    Bits.encode_trie T = BitmapRank.Val m ->
    Wire.marshal_gen (EndToEnd.to_wire m) = Some s ->
    (N.of_nat (length s) <= 8 * N.of_nat (length keys) + 256)%N.
Proof. exact SizeBitsProofs.bound_marshal_bytes. Qed.
Print Assumptions C17_bound_marshal_bytes.

(* non-vacuity: the example trie above, encoded by the end-to-end model and marshalled *)
Example C17_marshal_bytes_example :
  exists T m s, build filter_opt ex_keys None = Ok T /\
                Bits.encode_trie T = BitmapRank.Val m /\
                Wire.marshal_gen (EndToEnd.to_wire m) = Some s /\
                length s = 105 /\ EndToEnd.to_wire m = encode_trie T.
Proof.
  eexists. eexists. eexists. split; [vm_compute; reflexivity|]. split; [vm_compute; reflexivity|].
  split; [vm_compute; reflexivity|]. split; vm_compute; reflexivity.
Qed.
