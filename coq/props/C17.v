(* C17 - Filter-mode index size is linear in key count and independent of key length.
   Closing theorems only; proofs are in theories/SizeProofs.v.

   Model level: Size.encode_trie lays out, bit for bit, the Slim message that
   creator.build produces for a trie built without stored prefixes and without
   values (from the tree model of Model.v), Proto.size_slim is proto.Size of that
   message, Size.marshal_size adds the 32-byte pbcmpl header.  The correspondence
   check compares every field of the message (words, rank indexes, short table,
   step bytes) and the two sizes with the implementation on generated tries. *)
From Slim Require Import Base Keys KeysProofs Model Varint Proto Size SizeProofs.
Local Open Scope nat_scope.

Definition filter_opt : opts := normalize {| r_dedup := None; r_inner := None; r_leaf := None; r_complete := None |}.

(* (a) node counts of every trie built without values: one leaf per key, at least
   two labels per inner node and more than ten per big node *)
Theorem C17_node_counts :
  forall (o : opts) (keys : list key) (T : trie) (r : tree),
    build o keys None = Ok T -> t_root T = Some r ->
    leaf_count r = length keys /\
    node_count r = inner_count r + length keys /\
    inner_count r + 9 * big_count (inners r) + 1 <= length keys.
Proof. exact built_counts. Qed.
Print Assumptions C17_node_counts.
