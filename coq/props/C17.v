(* C17 - Filter-mode index size is linear in key count and independent of key length.
   Closing theorems only; proofs are in theories/SizeProofs.v.

   Model level: Size.encode_trie lays out, bit for bit, the Slim message that
   creator.build produces for a trie built without stored prefixes and without
   values (from the tree model of Model.v), Proto.size_slim is proto.Size of that
   message, Size.marshal_size adds the 32-byte pbcmpl header.  The correspondence
   check compares every field of the message (words, rank indexes, short table,
   step bytes) and the two sizes with the implementation on generated tries. *)
From Slim Require Import Base Keys KeysProofs Model Varint Proto Size SizeProofs.
Local Open Scope nat_scope.

Definition filter_opt : opts := normalize {| r_dedup := None; r_inner := None; r_leaf := None; r_complete := None |}.

(* (a) node counts of every trie built without values: one leaf per key, at least
   two labels per inner node and more than ten per big node *)
Theorem C17_node_counts :
  forall (o : opts) (keys : list key) (T : trie) (r : tree),
    build o keys None = Ok T -> t_root T = Some r ->
    leaf_count r = length keys /\
    node_count r = inner_count r + length keys /\
    inner_count r + 9 * big_count (inners r) + 1 <= length keys.
Proof. exact built_counts. Qed.
Print Assumptions C17_node_counts.

(* (b) the size clause: in filter mode (no stored prefixes, no values) the serialized
   index is at most 8 bytes per key plus 256 bytes, for every key list that
   NewSlimTrie accepts - any key lengths and contents.  The hypothesis on the
   number of keys (2^26) is the range in which the int32 bit positions of the Go
   creator (17 bits per inner node in Inners) cannot wrap; it is far above the
   10^5 keys of the property. *)
Theorem C17_bound :
  forall (o : opts) (keys : list key) (T : trie),
    o_inner o = false -> o_leaf o = false ->
    build o keys None = Ok T ->
    (N.of_nat (length keys) < 67108864)%N ->
    (marshal_size T <= 8 * N.of_nat (length keys) + 256)%N.
Proof. exact filter_size_bound. Qed.
Print Assumptions C17_bound.

(* the default options of NewSlimTrie are filter mode *)
Example C17_default_is_filter_mode : o_inner filter_opt = false /\ o_leaf filter_opt = false.
Proof. split; reflexivity. Qed.

(* non-vacuity: a concrete filter-mode trie (a key that is a prefix of another,
   the empty key, bytes 0x00/0xff), its node counts and its exact size *)
Definition ex_keys : list key :=
  [ []; ["000"%byte]; ["000"%byte; "255"%byte]; ["097"%byte]; ["097"%byte; "098"%byte]; ["097"%byte; "099"%byte]; ["255"%byte] ].

Example C17_hypotheses_satisfiable :
  exists T r, build filter_opt ex_keys None = Ok T /\ t_root T = Some r /\
              leaf_count r = 7 /\ inner_count r = 4 /\ marshal_size T = 95%N.
Proof. vm_compute. eexists. eexists. repeat split. Qed.
