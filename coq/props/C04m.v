(* C04m - the scanners over the MESSAGE: getGEPath, leftMost(idx,&path), newIter, the two
   closures, next, scanStackElt.*, ScanFrom, ScanFromTo, NewIter of trie/slimtrie_scan.go run
   on node ids and the protobuf message fields (theories/ScanMsg.v: getNode = Bits.get_node /
   get_view, getLeftChildID = Bits.left_child, the rightmost-child rank = Bits.last_child,
   scanStackElt.init's first child id = Bits.first_child, the label bitmap of a frame = the set
   bit positions Bits.node_labels decodes from Inners[from,to) or from the ShortTable entry,
   values = getLeafIndex + Bits.ith_leaf_bytes) return, on the message of EVERY built trie,
   exactly what the tree-level scan model Scan.v returns, about which C04 is proved.
   Sub-check of C04 (and of L3): it closes the gap "the scanners re-expressed over get_node"
   that checks/L3.json and checks/C04.json listed as correspondence only.
   Closing theorems only; proofs in theories/ScanMsgProofs.v (getGEPath), ScanMsgIterProofs.v
   (frames, newIter, the closure: simulation between the id stack and the subtree stack),
   ScanMsgMainProofs.v (run / drain / ScanFrom / ScanFromTo, composition with C04).

   [build .. = Ok T]: success of NewSlimTrie; [encode_trie T = Val m]: m is the message of T
   (L3: the extracted encoder reproduces every field of the real message);
   [init_vars m = Val vs]: initVars.  [fuel] bounds the nodes visited on one root-to-leaf
   walk (any fuel >= the height gives the same answer), [lfuel] the number of calls of the
   closure made by ScanFrom's loop (scan_fuel T = 1 + number of leaves).
   [miter_of] projects a tree-level iterator state to the message-level one (every frame:
   first child id, word size, label list, cursor, buffer cursors); [iter_inv T it]: every frame
   of [it] is a node of T - established by NewIter, preserved by every call.
   Error outcomes are compared as well: both sides are Err with the same site code. *)
From Slim Require Import Base Keys KeysProofs Model QueryProofs Flat FlatProofs BitmapRank BitmapRank2 Bits Msg MsgProofs
  Scan ScanBasicProofs ScanProofs ScanMsg ScanMsgProofs ScanMsgIterProofs ScanMsgMainProofs
  ScanMsgBits ScanMsgBitsProofs.
From Coq Require Import Sorting.Sorted.

(* getGEPath: the id path and the "equal" flag *)
Theorem C04m_gepath :
  forall o keys vals T, build o keys vals = Ok T ->
  forall m vs, encode_trie T = Val m -> init_vars m = Val vs ->
  forall fuel, trie_height T <= fuel ->
  forall q, mge_path fuel m vs q = (do pe <- ge_path T q; Ok (map tree_id (fst pe), snd pe)).
Proof. exact mge_path_eq. Qed.
Print Assumptions C04m_gepath.

(* NewIter: the state of the returned closure *)
Theorem C04m_newiter :
  forall o keys vals T, build o keys vals = Ok T ->
  forall m vs, encode_trie T = Val m -> init_vars m = Val vs ->
  forall fuel, trie_height T <= fuel ->
  forall start incl withv,
    miter_init fuel m vs start incl withv = (do it <- iter_init T start incl withv; Ok (miter_of it)) /\
    (forall it, iter_init T start incl withv = Ok it -> iter_inv T it).
Proof. exact miter_init_eq. Qed.
Print Assumptions C04m_newiter.

(* one call of the closure from any reachable state: same pair (or nil, or the same panic
   site), successor states related again *)
Theorem C04m_next :
  forall o keys vals T, build o keys vals = Ok T ->
  forall m vs, encode_trie T = Val m -> init_vars m = Val vs ->
  forall fuel, trie_height T <= fuel ->
  forall it, iter_inv T it ->
    miter_next fuel m vs (miter_of it) = (do x <- iter_next T it; Ok (fst x, miter_of (snd x))) /\
    (forall x, iter_next T it = Ok x -> iter_inv T (snd x)).
Proof. exact miter_next_eq. Qed.
Print Assumptions C04m_next.

(* NewIter + n calls, for every n *)
Theorem C04m_run :
  forall o keys vals T m vs fuel,
    build o keys vals = Ok T -> encode_trie T = Val m -> init_vars m = Val vs ->
    trie_height T <= fuel ->
    forall s incl withv,
      match iter_init T s incl withv with
      | Ok it => miter_init fuel m vs s incl withv = Ok (miter_of it) /\
                 forall n, miter_run fuel n m vs (miter_of it) = iter_run n T it
      | Err e => miter_init fuel m vs s incl withv = Err e
      end.
Proof. exact miter_run_init. Qed.
Print Assumptions C04m_run.

(* NewIter drained to the first nil plus [extra] further calls (what the correspondence
   of C04 compares with the implementation) *)
Theorem C04m_iter_all :
  forall o keys vals T, build o keys vals = Ok T ->
  forall m vs, encode_trie T = Val m -> init_vars m = Val vs ->
  forall fuel, trie_height T <= fuel ->
  forall start incl withv extra,
    miter_all fuel (scan_fuel T) m vs start incl withv extra = iter_all T start incl withv extra.
Proof. exact miter_all_eq'. Qed.
Print Assumptions C04m_iter_all.

(* ScanFrom / ScanFromTo with any callback *)
Theorem C04m_scan_from :
  forall o keys vals T, build o keys vals = Ok T ->
  forall m vs, encode_trie T = Val m -> init_vars m = Val vs ->
  forall fuel, trie_height T <= fuel ->
  forall start incl withv fn,
    mscan_from fuel (scan_fuel T) m vs start incl withv fn = scan_from T start incl withv fn.
Proof. exact mscan_from_eq. Qed.
Print Assumptions C04m_scan_from.

Theorem C04m_scan_from_to :
  forall o keys vals T, build o keys vals = Ok T ->
  forall m vs, encode_trie T = Val m -> init_vars m = Val vs ->
  forall fuel, trie_height T <= fuel ->
  forall start incl e incle withv fn,
    mscan_from_to fuel (scan_fuel T) m vs start incl e incle withv fn = scan_from_to T start incl e incle withv fn.
Proof. exact mscan_from_to_eq. Qed.
Print Assumptions C04m_scan_from_to.

(* C04 (d) through the bitmaps: on the message of every Complete trie the scan yields exactly
   the retained entries in range, ascending, each once, with the supplied value bytes, then nil
   forever; ScanFrom / ScanFromTo cut that sequence as in C04_iter - for every call budget
   from scan_fuel T on (vocabulary: props/C04.v) *)
Theorem C04m_complete :
  forall (ropt : raw_opt) keys vals T m vs fuel,
    build (normalize ropt) keys vals = Ok T -> encode_trie T = Val m -> init_vars m = Val vs ->
    trie_height T <= fuel -> complete_opts (normalize ropt) = true ->
    forall s incl withv, exists mit outs,
      miter_init fuel m vs s incl withv = Ok mit /\
      Forall2 (elem_ok keys vals withv) (scan_indexes (normalize ropt) keys vals s incl) outs /\
      (forall n, miter_run fuel n m vs mit = Ok (firstn n (map Some outs ++ repeat None n))) /\
      (forall lfuel fn, scan_fuel T <= lfuel -> mscan_from fuel lfuel m vs s incl withv fn = Ok (cut fn 0 outs)) /\
      (forall lfuel e incle fn, scan_fuel T <= lfuel ->
         mscan_from_to fuel lfuel m vs s incl e incle withv fn = Ok (cut_to e incle fn 0 outs)).
Proof. intros ropt keys vals T m vs fuel. exact (mscan_complete (normalize ropt) keys vals T m vs fuel). Qed.
Print Assumptions C04m_complete.

(* C04 (a) through the message: the refusal is decided by the message fields
   InnerPrefixes.PositionBM / LeafPrefixes *)
Theorem C04m_refuse :
  forall (ropt : raw_opt) keys vals T m vs fuel lfuel,
    build (normalize ropt) keys vals = Ok T -> encode_trie T = Val m -> init_vars m = Val vs ->
    trie_height T <= fuel -> keys <> [] -> complete_opts (normalize ropt) = false ->
    forall s incl withv,
      miter_init fuel m vs s incl withv = Err (EPanic 20) /\
      (forall fn, mscan_from fuel lfuel m vs s incl withv fn = Err (EPanic 20)) /\
      (forall e incle fn, mscan_from_to fuel lfuel m vs s incl e incle withv fn = Err (EPanic 20)).
Proof. intros ropt keys vals T m vs fuel lfuel. exact (mscan_refuses (normalize ropt) keys vals T m vs fuel lfuel). Qed.
Print Assumptions C04m_refuse.

(* ---------- nextLabelBit / updateLabel at bit level ---------- *)
(* ScanMsg.v keeps, per frame, the ascending list of set bits of the node's label bitmap
   (Bits.node_labels) and models nextLabelBit(n) as "n places further in that list".  The loop
   itself (ScanMsgBits.mnext_label_bit: labelBit++, test Inners.Words[i>>6] & Bit[i&63] with
   i = bitFrom + labelBit for 17/257-bit nodes, bm & Bit[labelBit] up to bit 17 for short-table
   nodes) computes exactly that element - for EVERY message and bit range whose decoded list
   exists, cursor after the j-th label ([cursor_next labels j] = labels[j-1] + 1, 0 initially),
   every n >= 1; None (-1) when fewer than n set bits remain.  [frame_bm] is v.bm as init sets
   it.  The side condition (a short node's table entry is not 0) holds whenever the label list
   is non-empty, i.e. for every node of a built trie. *)
Theorem C04m_next_label_bit :
  forall m from to bm ws ri labels,
    inner_words m = Val (ws, ri) ->
    node_labels m from to bm = Val labels ->
    ((to - from =? m_shortsize m)%N = true -> bm <> 0%N) ->
    StronglySorted N.lt labels /\
    forall j n fuel, j <= length labels ->
      N.to_nat (if (to - from =? m_shortsize m)%N then 17%N else (to - from)%N) < fuel ->
      mnext_label_bit fuel ws from to (frame_bm m from to bm) (cursor_next labels j) (S n) =
      Ok (nth_error labels (j + n)).
Proof. exact next_label_bit_labels. Qed.
Print Assumptions C04m_next_label_bit.

(* updateLabel: width 0 for bit 0, else 4 bits for short / 17-bit nodes, 8 bits for 257-bit
   nodes, never panic("unknown bitmap size") - on every range getNode yields; it is
   Keys.label_width on the decoded word size, which is what ScanMsg.v / Scan.v use *)
Theorem C04m_label_width :
  forall m vs id ith wsz from to bm plen pfx lbit,
    get_node m vs id = Val (DnInner ith wsz from to bm plen pfx) ->
    (m_shortsize m <= 64)%N ->
    ((to - from =? m_shortsize m)%N = true -> bm <> 0%N) ->
    mlabel_width_bits (frame_bm m from to bm) from to lbit = Ok (label_width (wsz =? 8)%N (N.to_nat lbit)).
Proof. exact label_width_bits. Qed.
Print Assumptions C04m_label_width.

(* ---------- non-vacuity ---------- *)
(* the trie of props/C04.v: keys "", "a", "ab", "b\255", "b\255\000", variable-width values,
   "ab" dropped by de-duplication; Complete.  Its message is computed by the encoder and
   scanned through get_node / left_child / node_labels. *)
Definition ex_keys : list key :=
  [ []; ["097"%byte]; ["097"%byte; "098"%byte]; ["098"%byte; "255"%byte]; ["098"%byte; "255"%byte; "000"%byte] ].
Definition ex_vals : option (list (list byte)) :=
  Some [ ["001"%byte]; ["002"%byte; "003"%byte]; ["002"%byte; "003"%byte]; []; ["004"%byte; "005"%byte; "006"%byte] ].
Definition ex_complete : raw_opt := {| r_dedup := None; r_inner := None; r_leaf := None; r_complete := Some true |}.
Definition ex_leafonly : raw_opt := {| r_dedup := None; r_inner := None; r_leaf := Some true; r_complete := None |}.

Example C04m_hypotheses_satisfiable :
  exists T m vs, build (normalize ex_complete) ex_keys ex_vals = Ok T /\ encode_trie T = Val m /\ init_vars m = Val vs /\
    trie_height T <= 6 /\ scan_fuel T <= 8 /\ complete_opts (normalize ex_complete) = true /\
    mge_path 6 m vs ["097"%byte; "098"%byte] = Ok ([0; 2; 4; 6], false) /\
    mscan_from 6 8 m vs ["097"%byte] false true never_stop =
      Ok [ (["098"%byte; "255"%byte], Some []);
           (["098"%byte; "255"%byte; "000"%byte], Some ["004"%byte; "005"%byte; "006"%byte]) ] /\
    mscan_from 6 8 m vs [] true false (stop_at 1) = Ok [ ([], None); (["097"%byte], None) ] /\
    mscan_from_to 6 8 m vs [] false ["098"%byte; "255"%byte] true true never_stop =
      Ok [ (["097"%byte], Some ["002"%byte; "003"%byte]); (["098"%byte; "255"%byte], Some []) ].
Proof.
  destruct (build (normalize ex_complete) ex_keys ex_vals) as [T|] eqn:E; [|vm_compute in E; discriminate].
  vm_compute in E. injection E as <-.
  eexists _, _, _. split; [reflexivity|]. split; [vm_compute; reflexivity|]. split; [vm_compute; reflexivity|].
  split; [vm_compute; repeat constructor|]. split; [vm_compute; repeat constructor|].
  split; [reflexivity|]. vm_compute. repeat split.
Qed.

Example C04m_refusal_satisfiable :
  exists T m vs, build (normalize ex_leafonly) ex_keys ex_vals = Ok T /\ encode_trie T = Val m /\ init_vars m = Val vs /\
    complete_opts (normalize ex_leafonly) = false /\
    miter_init 6 m vs [] true true = Err (EPanic 20).
Proof.
  destruct (build (normalize ex_leafonly) ex_keys ex_vals) as [T|] eqn:E; [|vm_compute in E; discriminate].
  vm_compute in E. injection E as <-.
  eexists _, _, _. split; [reflexivity|]. split; [vm_compute; reflexivity|]. split; [vm_compute; reflexivity|].
  split; [reflexivity|]. vm_compute. reflexivity.
Qed.
